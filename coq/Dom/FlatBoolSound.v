(* FlatBoolSound.v — concretisation of the model of flat_boolean_numerical_domain<interval_domain>
   (FlatBool.v) over pairs of stores (integer variables, Boolean variables) and soundness of
   every operation, of the inclusion test, and of arbitrary operation histories over several
   registers (properties C03 / C04 for this domain); lifting clause of C12: on numerical code
   the numerical component evolves exactly like the interval-domain model. *)
From Coq Require Import ZArith NArith List Bool Lia.
From CrabV Require Import Base.ZInf Scalar.Itv Scalar.ItvSound Ir.Syntax Dom.ItvEnv Dom.ItvEnvSound
     Dom.ItvSolver Dom.ItvSolverSound Dom.ItvDomain Dom.ItvDomainSound Dom.History Dom.HistorySound
     Fix.Thresholds Fix.ThresholdsSound Dom.FlatBool.
Import ListNotations.
Local Open Scope Z_scope.

Arguments d_add : simpl never.
Arguments d_select : simpl never.
Arguments d_cast : simpl never.
Arguments d_entails : simpl never.

(* ------------------------------------------------------------------ sets as lists *)

Section DSetFacts.
  Variable A : Type.
  Variables (aeqb altb : A -> A -> bool).
  Hypothesis aeqb_eq : forall x y, aeqb x y = true -> x = y.

  Lemma mem_In x l : mem A aeqb x l = true -> In x l.
  Proof.
    unfold mem. intros H. apply existsb_exists in H. destruct H as (y & I & E).
    apply aeqb_eq in E. subst. exact I.
  Qed.

  Lemma ins_In x y l : In x (ins A aeqb altb y l) -> x = y \/ In x l.
  Proof.
    induction l as [|h t IH]; simpl.
    - intros [E|[]]; auto.
    - destruct (altb y h).
      + intros [E|I]; auto.
      + destruct (aeqb y h).
        * auto.
        * intros [E|I]; auto. destruct (IH I); auto.
  Qed.

  Lemma In_ins_old x y l : In x l -> In x (ins A aeqb altb y l).
  Proof.
    induction l as [|h t IH]; simpl; [tauto|].
    intros I. destruct (altb y h); [right; exact I|].
    destruct (aeqb y h); [exact I|].
    destruct I as [E|I]; [left; exact E|right; apply IH; exact I].
  Qed.

  Lemma In_ins_new y l : In y (ins A aeqb altb y l).
  Proof.
    induction l as [|h t IH]; simpl; auto.
    destruct (altb y h); [left; reflexivity|].
    destruct (aeqb y h) eqn:E; [apply aeqb_eq in E; subst; left; reflexivity|].
    right. exact IH.
  Qed.

  Lemma union_In x l2 : forall l1, In x (union A aeqb altb l1 l2) -> In x l1 \/ In x l2.
  Proof.
    unfold union. induction l2 as [|h t IH]; simpl; intros l1 I; auto.
    apply IH in I. destruct I as [I|I]; auto.
    apply ins_In in I. destruct I as [E|I]; auto.
  Qed.

  Lemma inter_In x l1 l2 : In x (inter A aeqb l1 l2) -> In x l1 /\ In x l2.
  Proof.
    unfold inter. intros I. apply filter_In in I. destruct I as [I M]. split; auto.
    apply mem_In. exact M.
  Qed.

  Lemma subset_In l1 l2 x : subset A aeqb l1 l2 = true -> In x l1 -> In x l2.
  Proof.
    unfold subset. intros S I. rewrite forallb_forall in S. apply mem_In. apply S. exact I.
  Qed.

  Lemma rem_In x y l : In y (rem A aeqb x l) -> In y l /\ aeqb x y = false.
  Proof.
    unfold rem. intros I. apply filter_In in I. destruct I as [I N]. split; auto.
    apply negb_true_iff in N. exact N.
  Qed.
End DSetFacts.

(* ------------------------------------------------------------------ separate domains *)

(* Environments are described pointwise: [R v x] = the abstract value v describes the concrete
   value x bound to the same key; [T : var -> X] is the concrete valuation. *)
Section SepSound.
  Variable V : Type.
  Variable O : vops V.
  Variable X : Type.
  Variable R : V -> X -> Prop.
  Hypothesis Htop : forall v, v_is_top O v = true -> v = vtop O.
  Hypothesis Htt : v_is_top O (vtop O) = true.
  Hypothesis Rtop : forall x, R (vtop O) x.
  Hypothesis Rbot : forall v x, v_is_bot O v = true -> ~ R v x.

  Definition gupd (T : var -> X) (k : var) (x : X) : var -> X :=
    fun y => if N.eqb y k then x else T y.
  Definition gsmap (m : smap V) (T : var -> X) : Prop := forall k, R (sget V O m k) (T k).
  Definition gsenv (e : senv V) (T : var -> X) : Prop :=
    match e with SBot => False | SMap m => gsmap m T end.

  Lemma gupd_same T k x : gupd T k x k = x.
  Proof. unfold gupd. rewrite N.eqb_refl. reflexivity. Qed.
  Lemma gupd_other T k x y : y <> k -> gupd T k x y = T y.
  Proof. unfold gupd. intros H. destruct (N.eqb_spec y k); congruence. Qed.

  Lemma sget_srem_same m k : sget V O (srem V m k) k = vtop O.
  Proof.
    induction m as [|[k' v] r IH]; simpl; auto.
    destruct (N.eqb k' k) eqn:E; simpl; auto. rewrite E. auto.
  Qed.
  Lemma sget_srem_other m k k' : k' <> k -> sget V O (srem V m k) k' = sget V O m k'.
  Proof.
    intros H. induction m as [|[k0 v] r IH]; simpl; auto.
    destruct (N.eqb k0 k) eqn:E; simpl.
    - apply N.eqb_eq in E. subst. destruct (N.eqb_spec k k'); [congruence|auto].
    - destruct (N.eqb k0 k'); auto.
  Qed.
  Lemma sget_sput_same m k v : sget V O (sput V O m k v) k = v.
  Proof.
    unfold sput. destruct (v_is_top O v) eqn:E.
    - rewrite sget_srem_same. symmetry. apply Htop. exact E.
    - simpl. rewrite N.eqb_refl. reflexivity.
  Qed.
  Lemma sget_sput_other m k v k' : k' <> k -> sget V O (sput V O m k v) k' = sget V O m k'.
  Proof.
    intros H. unfold sput. destruct (v_is_top O v).
    - apply sget_srem_other; auto.
    - simpl. destruct (N.eqb_spec k k'); try congruence. apply sget_srem_other; auto.
  Qed.
  Lemma sget_not_key m k : ~ In k (skeys V m) -> sget V O m k = vtop O.
  Proof.
    induction m as [|[k' v] r IH]; simpl; auto. intros H.
    destruct (N.eqb_spec k' k); [exfalso; apply H; left; auto|]. apply IH. tauto.
  Qed.
  Lemma s_is_top_at e k : s_is_top V O e = true -> s_at V O e k = vtop O.
  Proof.
    destruct e as [|m]; simpl; [discriminate|]. intros H. rewrite forallb_forall in H.
    destruct (in_dec N.eq_dec k (skeys V m)) as [I|I].
    - apply Htop. apply H. exact I.
    - apply sget_not_key. exact I.
  Qed.

  Lemma gsenv_not_bot e T : gsenv e T -> s_is_bot e = false.
  Proof. destruct e; simpl; tauto. Qed.
  Lemma gs_top T : gsenv s_top T.
  Proof. intros k. simpl. apply Rtop. Qed.
  Lemma gs_at e T k : gsenv e T -> R (s_at V O e k) (T k).
  Proof. destruct e; simpl; [tauto|]. auto. Qed.

  Lemma gs_set e T k v x : gsenv e T -> R v x -> gsenv (s_set V O e k v) (gupd T k x).
  Proof.
    destruct e as [|m]; simpl; [tauto|]. intros G Rv.
    destruct (v_is_bot O v) eqn:B; [exfalso; eapply Rbot; eauto|].
    simpl. intros k'. destruct (N.eq_dec k' k) as [->|N].
    - rewrite gupd_same, sget_sput_same. exact Rv.
    - rewrite gupd_other, sget_sput_other by auto. apply G.
  Qed.
  Lemma gs_set_same e T k v : gsenv e T -> R v (T k) -> gsenv (s_set V O e k v) T.
  Proof.
    destruct e as [|m]; simpl; [tauto|]. intros G Rv.
    destruct (v_is_bot O v) eqn:B; [exfalso; eapply Rbot; eauto|].
    simpl. intros k'. destruct (N.eq_dec k' k) as [->|N].
    - rewrite sget_sput_same. exact Rv.
    - rewrite sget_sput_other by auto. apply G.
  Qed.
  Lemma gs_forget e T k x : gsenv e T -> gsenv (s_forget V e k) (gupd T k x).
  Proof.
    destruct e as [|m]; simpl; [tauto|]. intros G k'. destruct (N.eq_dec k' k) as [->|N].
    - rewrite sget_srem_same. apply Rtop.
    - rewrite gupd_other, sget_srem_other by auto. apply G.
  Qed.
  Lemma gs_forget_same e T k : gsenv e T -> gsenv (s_forget V e k) T.
  Proof.
    destruct e as [|m]; simpl; [tauto|]. intros G k'. destruct (N.eq_dec k' k) as [->|N].
    - rewrite sget_srem_same. apply Rtop.
    - rewrite sget_srem_other by auto. apply G.
  Qed.

  (* pointwise merges *)
  Lemma sbuild_get ks g : forall acc m, sbuild V O ks g acc = Some m ->
    forall k, sget V O m k = if in_dec N.eq_dec k ks then g k else sget V O acc k.
  Proof.
    induction ks as [|k0 r IH]; simpl; intros acc m H k.
    - inversion H; subst; auto.
    - destruct (v_is_bot O (g k0)); [discriminate|].
      rewrite (IH _ _ H k). destruct (in_dec N.eq_dec k r) as [I|I].
      + destruct (N.eq_dec k0 k); auto.
      + destruct (N.eq_dec k0 k) as [->|N].
        * apply sget_sput_same.
        * apply sget_sput_other. congruence.
  Qed.
  Lemma sbuild_none ks g : forall acc, sbuild V O ks g acc = None ->
    exists k, In k ks /\ v_is_bot O (g k) = true.
  Proof.
    induction ks as [|k0 r IH]; simpl; intros acc H; [discriminate|].
    destruct (v_is_bot O (g k0)) eqn:B.
    - exists k0. auto.
    - apply IH in H. destruct H as (k & I & Bk). exists k. auto.
  Qed.
  Lemma smerge_get ab f a b m : smerge V O ab f a b = Some m ->
    forall k, sget V O m k = scomb V O ab f a b k.
  Proof.
    unfold smerge. intros H k. rewrite (sbuild_get _ _ _ _ H k).
    destruct (in_dec N.eq_dec k (skeys V a ++ skeys V b)) as [I|I]; auto.
    simpl. unfold scomb.
    rewrite (sget_not_key a k), (sget_not_key b k) by (intros J; apply I; apply in_or_app; auto).
    rewrite Htt. destruct ab; reflexivity.
  Qed.

  Lemma gs_join f a b T :
    (forall x y z, R x z \/ R y z -> R (f x y) z) ->
    gsenv a T \/ gsenv b T -> gsenv (s_join V O f a b) T.
  Proof.
    intros Hf G. destruct a as [|x], b as [|y]; simpl in *; try tauto.
    assert (C : forall k, R (scomb V O true f x y k) (T k)).
    { intros k. unfold scomb.
      destruct (v_is_top O (sget V O x k)) eqn:Tx; [apply Rtop|].
      destruct (v_is_top O (sget V O y k)) eqn:Ty; [apply Rtop|].
      apply Hf. destruct G as [G|G]; [left|right]; apply G. }
    destruct (smerge V O true f x y) as [m|] eqn:M.
    - simpl. intros k. rewrite (smerge_get _ _ _ _ _ M). apply C.
    - unfold smerge in M. apply sbuild_none in M. destruct M as (k & _ & B).
      exfalso. eapply Rbot; [exact B|apply C].
  Qed.
  Lemma gs_meet f a b T :
    (forall x y z, R x z -> R y z -> R (f x y) z) ->
    gsenv a T -> gsenv b T -> gsenv (s_meet V O f a b) T.
  Proof.
    intros Hf Ga Gb. destruct a as [|x], b as [|y]; simpl in *; try tauto.
    assert (C : forall k, R (scomb V O false f x y k) (T k)).
    { intros k. unfold scomb.
      destruct (v_is_top O (sget V O x k)) eqn:Tx; [apply Gb|].
      destruct (v_is_top O (sget V O y k)) eqn:Ty; [apply Ga|].
      apply Hf; [apply Ga|apply Gb]. }
    destruct (smerge V O false f x y) as [m|] eqn:M.
    - simpl. intros k. rewrite (smerge_get _ _ _ _ _ M). apply C.
    - unfold smerge in M. apply sbuild_none in M. destruct M as (k & _ & B).
      exfalso. eapply Rbot; [exact B|apply C].
  Qed.
  Lemma gs_leq vleq a b T :
    (forall x y z, vleq x y = true -> R x z -> R y z) ->
    s_leq V O vleq a b = true -> gsenv a T -> gsenv b T.
  Proof.
    intros Hl. destruct a as [|x], b as [|y]; simpl; try tauto; try discriminate.
    intros L G k. rewrite forallb_forall in L.
    destruct (in_dec N.eq_dec k (skeys V x ++ skeys V y)) as [I|I].
    - eapply Hl; [apply L; exact I|apply G].
    - rewrite (sget_not_key y k) by (intros J; apply I; apply in_or_app; auto). apply Rtop.
  Qed.

  Lemma is_top_R v x : v_is_top O v = true -> R v x.
  Proof. intros H. rewrite (Htop _ H). apply Rtop. Qed.
  Lemma all_top_gsmap m T :
    forallb (fun k => v_is_top O (sget V O m k)) (skeys V m) = true -> gsmap m T.
  Proof.
    intros H k. rewrite forallb_forall in H.
    destruct (in_dec N.eq_dec k (skeys V m)) as [I|I].
    - apply is_top_R. apply H. exact I.
    - rewrite sget_not_key by auto. apply Rtop.
  Qed.

  Lemma gs_project e vs T T' :
    gsenv e T -> (forall k, In k vs -> T' k = T k) -> gsenv (s_project V O e vs) T'.
  Proof.
    destruct e as [|m]; simpl; [tauto|]. intros G A.
    destruct (forallb _ _) eqn:E.
    - simpl. apply all_top_gsmap. exact E.
    - simpl. clear E. induction vs as [|v r IH]; simpl.
      + intros k. simpl. apply Rtop.
      + intros k. destruct (N.eq_dec k v) as [->|N].
        * rewrite sget_sput_same. rewrite A by (left; auto). apply G.
        * rewrite sget_sput_other by auto. apply IH. intros k' I. apply A. right; auto.
  Qed.

  Lemma gs_forget_list vs : forall e T T',
    gsenv e T -> (forall k, ~ In k vs -> T' k = T k) ->
    gsenv (fold_left (s_forget V) vs e) T'.
  Proof.
    induction vs as [|v r IH]; simpl; intros e T T' G A.
    - destruct e as [|m]; simpl in *; auto. intros k. rewrite A by (intros []). apply G.
    - apply (IH _ (gupd T v (T' v))).
      + apply gs_forget; auto.
      + intros k NI. destruct (N.eq_dec k v) as [->|N].
        * rewrite gupd_same. auto.
        * rewrite gupd_other by auto. apply A. intros [E|I]; [congruence|contradiction].
  Qed.

  (* rename: sequential moves *)
  Fixpoint grename (T : var -> X) (ps : list (var * var)) (hv : var -> X) : var -> X :=
    match ps with
    | [] => T
    | (k, nk) :: r =>
      if N.eqb k nk then grename T r hv
      else grename (gupd (gupd T nk (T k)) k (hv k)) r hv
    end.

  Lemma srename_pairs_sound ps : forall m T hv,
    gsmap m T -> NoDup (map snd ps) ->
    (forall p, In p ps -> v_is_top O (sget V O m (snd p)) = true) ->
    gsmap (srename_pairs V O m ps) (grename T ps hv).
  Proof.
    induction ps as [|[k nk] r IH]; cbn [srename_pairs grename map snd]; intros m T hv G ND TP; auto.
    inversion ND as [|? ? NI ND']; subst.
    assert (TP' : forall p, In p r -> v_is_top O (sget V O m (snd p)) = true).
    { intros p I. apply TP. right. exact I. }
    assert (Tnk : v_is_top O (sget V O m nk) = true) by (apply (TP (k, nk)); left; reflexivity).
    destruct (N.eqb_spec k nk) as [E|NE].
    { apply IH; auto. }
    destruct (v_is_top O (sget V O m k)) eqn:Tk.
    - apply IH; auto.
      intros k'. destruct (N.eq_dec k' k) as [->|N1].
      + rewrite gupd_same. apply is_top_R. exact Tk.
      + rewrite gupd_other by auto. destruct (N.eq_dec k' nk) as [->|N2].
        * rewrite gupd_same. apply is_top_R. exact Tnk.
        * rewrite gupd_other by auto. apply G.
    - apply IH; auto.
      + intros k'. destruct (N.eq_dec k' k) as [->|N1].
        * rewrite gupd_same. rewrite sget_srem_same. apply Rtop.
        * rewrite gupd_other by auto. rewrite sget_srem_other by auto.
          cbn [sget]. destruct (N.eqb_spec nk k').
          -- subst. rewrite gupd_same. apply G.
          -- rewrite gupd_other by auto. rewrite sget_srem_other by auto. apply G.
      + intros p I. destruct (N.eq_dec (snd p) k) as [E|N1].
        * rewrite E, sget_srem_same. exact Htt.
        * rewrite sget_srem_other by auto. cbn [sget].
          destruct (N.eqb_spec nk (snd p)) as [E|N2].
          -- exfalso. apply NI. rewrite E. apply in_map. auto.
          -- rewrite sget_srem_other by auto. apply TP'. auto.
  Qed.

  Lemma snd_combine (from to : list var) : length from = length to -> map snd (combine from to) = to.
  Proof.
    revert to. induction from as [|f fr IH]; intros [|t tr] L; simpl in *; try discriminate; auto.
    f_equal. apply IH. lia.
  Qed.

  Lemma gs_rename e from to T hv :
    gsenv e T -> NoDup to -> length from = length to ->
    (forall k, In k to -> v_is_top O (s_at V O e k) = true) ->
    gsenv (s_rename V O e from to) (grename T (combine from to) hv).
  Proof.
    destruct e as [|m]; simpl; [tauto|]. intros G ND L TP.
    pose proof (snd_combine from to L) as S.
    destruct (forallb _ _) eqn:E.
    - simpl. apply all_top_gsmap. exact E.
    - simpl. apply srename_pairs_sound; auto.
      + rewrite S; auto.
      + intros p I. apply TP. rewrite <- S. apply in_map. auto.
  Qed.

  (* pairs whose source is not bound can be dropped from a renaming *)
  Lemma srename_pairs_filter (P : var * var -> bool) ps : forall m,
    (forall p, In p ps -> P p = false -> v_is_top O (sget V O m (fst p)) = true) ->
    (forall p q, In p ps -> In q ps -> P p = false -> P q = true -> fst p <> snd q) ->
    srename_pairs V O m ps = srename_pairs V O m (filter P ps).
  Proof.
    induction ps as [|[k nk] r IH]; cbn [srename_pairs filter]; intros m H1 H2; auto.
    assert (H1' : forall m', (forall p, In p r -> P p = false -> v_is_top O (sget V O m' (fst p)) = true) ->
                  srename_pairs V O m' r = srename_pairs V O m' (filter P r)).
    { intros m' Hm. apply IH; auto. intros p q Ip Iq. apply H2; right; auto. }
    destruct (P (k, nk)) eqn:Pk; cbn [srename_pairs].
    - destruct (N.eqb k nk); [apply H1'; intros p I; apply H1; right; auto|].
      destruct (v_is_top O (sget V O m k)); [apply H1'; intros p I; apply H1; right; auto|].
      apply H1'. intros p I Pp.
      assert (N : fst p <> nk) by (apply (H2 p (k, nk)); [right; auto|left; auto|auto|auto]).
      destruct (N.eq_dec (fst p) k) as [->|N1]; [rewrite sget_srem_same; exact Htt|].
      rewrite sget_srem_other by auto. cbn [sget].
      destruct (N.eqb_spec nk (fst p)); [congruence|]. rewrite sget_srem_other by auto.
      apply H1; [right; auto|auto].
    - pose proof (H1 (k, nk) (or_introl eq_refl) Pk) as T. cbn [fst] in T. rewrite T.
      destruct (N.eqb k nk); apply H1'; intros p I; apply H1; right; auto.
  Qed.

  (* transform_if *)
  Lemma s_map_vals_get f m k : f (vtop O) = vtop O ->
    sget V O (fold_right (fun p acc => sput V O acc (fst p) (f (snd p))) [] m) k = f (sget V O m k).
  Proof.
    intros Ft. induction m as [|[k0 v0] r IH]; simpl; auto.
    destruct (N.eqb_spec k0 k) as [->|N].
    - apply sget_sput_same.
    - rewrite sget_sput_other by congruence. exact IH.
  Qed.
  Lemma gs_map_vals f e T : f (vtop O) = vtop O ->
    (forall v x, R v x -> R (f v) x) -> gsenv e T -> gsenv (s_map_vals V O f e) T.
  Proof.
    intros Ft Hf. destruct e as [|m]; simpl; [tauto|]. intros G k.
    rewrite s_map_vals_get by auto. apply Hf. apply G.
  Qed.
  Lemma s_map_vals_at f e k : f (vtop O) = vtop O -> e <> SBot ->
    s_at V O (s_map_vals V O f e) k = f (s_at V O e k).
  Proof.
    intros Ft NB. destruct e as [|m]; [congruence|]. simpl. apply s_map_vals_get. exact Ft.
  Qed.
  Lemma gsenv_intro e T : e <> SBot -> (forall k, R (s_at V O e k) (T k)) -> gsenv e T.
  Proof. destruct e as [|m]; [congruence|]. intros _ H. exact H. Qed.
  Lemma s_at_set e k v k' : e <> SBot -> v_is_bot O v = false ->
    s_at V O (s_set V O e k v) k' = if N.eqb k' k then v else s_at V O e k'.
  Proof.
    destruct e as [|m]; [congruence|]. intros _ B. simpl. rewrite B. simpl.
    destruct (N.eqb_spec k' k) as [->|N].
    - apply sget_sput_same.
    - apply sget_sput_other. exact N.
  Qed.
  Lemma s_set_not_bot e k v : e <> SBot -> v_is_bot O v = false -> s_set V O e k v <> SBot.
  Proof. destruct e as [|m]; [congruence|]. intros _ B. simpl. rewrite B. discriminate. Qed.
  Lemma s_at_forget e k k' :
    s_at V O (s_forget V e k) k' = if N.eqb k' k then (if s_is_bot e then vbot O else vtop O) else s_at V O e k'.
  Proof.
    destruct e as [|m]; simpl.
    - destruct (N.eqb k' k); reflexivity.
    - destruct (N.eqb_spec k' k) as [->|N].
      + apply sget_srem_same.
      + apply sget_srem_other. exact N.
  Qed.
  Lemma s_forget_not_bot e k : e <> SBot -> s_forget V e k <> SBot.
  Proof. destruct e; [congruence|]. discriminate. Qed.
  Lemma s_map_vals_not_bot f e : e <> SBot -> s_map_vals V O f e <> SBot.
  Proof. destruct e; [congruence|]. discriminate. Qed.
  Lemma s_forget_fold_at (P : var -> bool) vs : forall e k, e <> SBot ->
    fold_left (fun e v => if P v then s_forget V e v else e) vs e <> SBot /\
    s_at V O (fold_left (fun e v => if P v then s_forget V e v else e) vs e) k =
      if existsb (fun v => N.eqb k v && P v) vs then vtop O else s_at V O e k.
  Proof.
    induction vs as [|v r IH]; cbn [fold_left existsb]; intros e k NB; [split; auto|].
    destruct (P v) eqn:Pv.
    - destruct (IH (s_forget V e v) k (s_forget_not_bot e v NB)) as [H1 H2]. split; auto.
      rewrite H2. rewrite s_at_forget. destruct e as [|m]; [congruence|]. cbn [s_is_bot].
      destruct (N.eqb k v); cbn [andb orb]; [|reflexivity].
      match goal with |- (if ?b then _ else _) = _ => destruct b; reflexivity end.
    - destruct (IH e k NB) as [H1 H2]. split; auto. rewrite H2. rewrite andb_false_r. reflexivity.
  Qed.
End SepSound.

(* ------------------------------------------------------------------ concrete states, gamma *)

Definition bstore := var -> bool.
Definition bupd (t : bstore) (x : var) (v : bool) : bstore := gupd bool t x v.
Definition b2z (b : bool) : Z := if b then 1 else 0.

Lemma bupd_same t x v : bupd t x v x = v.
Proof. apply gupd_same. Qed.
Lemma bupd_other t x v y : y <> x -> bupd t x v y = t y.
Proof. apply gupd_other. Qed.

(* boolean_value *)
Definition gbv (v : bval) (b : bool) : Prop :=
  match v with BvBot => False | BvTrue => b = true | BvFalse => b = false | BvTop => True end.
Definition gbenv (f : benv) (t : bstore) : Prop := gsenv bval bops bool gbv f t.

Lemma bops_Htop v : v_is_top bops v = true -> v = vtop bops.
Proof. destruct v; simpl; try discriminate; auto. Qed.
Lemma bops_Htt : v_is_top bops (vtop bops) = true. Proof. reflexivity. Qed.
Lemma bops_Rtop x : gbv (vtop bops) x. Proof. exact I. Qed.
Lemma bops_Rbot v x : v_is_bot bops v = true -> ~ gbv v x.
Proof. destruct v; simpl; try discriminate; auto. Qed.
#[local] Hint Resolve bops_Htop bops_Htt bops_Rtop bops_Rbot : fb.

(* remembered constraints of one Boolean variable whose value is x: every constraint is well
   formed and, if all its variables are unchanged since it was remembered, it holds exactly
   when the variable is true *)
Definition gcs (s : store) (u : vset) (v : cset) (x : bool) : Prop :=
  match v with
  | DVBot => False
  | DVSet l => forall c, In c l -> wf_lc c /\ (all_unchanged u c = true -> (x = true <-> sat c s))
  end.
Definition glin (l : lenv) (u : vset) (s : store) (t : bstore) : Prop :=
  gsenv cset cops bool (gcs s u) l t.

Lemma dv_Htop {A} (v : dval A) : dv_is_top v = true -> v = dv_top.
Proof. destruct v as [|[|a l]]; simpl; try discriminate; auto. Qed.
Lemma cops_Htop v : v_is_top cops v = true -> v = vtop cops.
Proof. apply dv_Htop. Qed.
Lemma cops_Htt : v_is_top cops (vtop cops) = true. Proof. reflexivity. Qed.
Lemma cops_Rtop s u x : gcs s u (vtop cops) x. Proof. intros c []. Qed.
Lemma cops_Rbot s u v x : v_is_bot cops v = true -> ~ gcs s u v x.
Proof. destruct v; simpl; try discriminate; auto. Qed.
#[local] Hint Resolve cops_Htop cops_Htt cops_Rtop cops_Rbot : fb.

(* Booleans implied by one Boolean variable whose value is x *)
Definition gvs (t : bstore) (v : vset) (x : bool) : Prop :=
  match v with DVBot => False | DVSet l => forall y, In y l -> x = true -> t y = true end.
Definition gbools (b : bbenv) (t : bstore) : Prop := gsenv vset vops_ bool (gvs t) b t.

Lemma vops_Htop v : v_is_top vops_ v = true -> v = vtop vops_.
Proof. apply dv_Htop. Qed.
Lemma vops_Htt : v_is_top vops_ (vtop vops_) = true. Proof. reflexivity. Qed.
Lemma vops_Rtop t x : gvs t (vtop vops_) x. Proof. intros y []. Qed.
Lemma vops_Rbot t v x : v_is_bot vops_ v = true -> ~ gvs t v x.
Proof. destruct v; simpl; try discriminate; auto. Qed.
#[local] Hint Resolve vops_Htop vops_Htt vops_Rtop vops_Rbot : fb.

Definition gprod (p : prod) (s : store) (t : bstore) : Prop :=
  match p with PBot => False | PPair f e => gbenv f t /\ genv e s end.

(* the concretisation: the product describes both stores; the memories hold on them *)
Definition gfb (st : fstate) (s : store) (t : bstore) : Prop :=
  gprod (f_prod st) s t /\ glin (f_lin st) (f_unch st) s t /\ gbools (f_bools st) t /\
  f_unch st <> DVBot.

(* ---- the product ---- *)

Lemma gbenv_not_bot f t : gbenv f t -> s_is_bot f = false.
Proof. apply gsenv_not_bot. Qed.

Lemma gprod_canon p s t : gprod p s t -> canon p = p.
Proof.
  destruct p as [|f e]; simpl; auto. intros [G1 G2].
  rewrite (gbenv_not_bot _ _ G1), (genv_not_bot _ _ G2). reflexivity.
Qed.
Lemma gprod_not_bot p s t : gprod p s t -> p_is_bot p = false.
Proof.
  destruct p as [|f e]; simpl; [tauto|]. intros [G1 G2].
  rewrite (gbenv_not_bot _ _ G1), (genv_not_bot _ _ G2). reflexivity.
Qed.
Lemma gprod_canon_intro p s t : gprod p s t -> gprod (canon p) s t.
Proof. intros G. rewrite (gprod_canon _ _ _ G). exact G. Qed.
Lemma gprod_canon_elim p s t : gprod (canon p) s t -> gprod p s t.
Proof.
  destruct p as [|f e]; simpl; auto. destruct (s_is_bot f || e_is_bot e); simpl; tauto.
Qed.
Lemma gprod_fst p s t : gprod p s t -> gbenv (p_fst p) t.
Proof. destruct p; simpl; tauto. Qed.
Lemma gprod_snd p s t : gprod p s t -> genv (p_snd p) s.
Proof. destruct p; simpl; tauto. Qed.
Lemma gprod_pair p s t : p_is_bot p = false -> gbenv (p_fst p) t -> genv (p_snd p) s -> gprod p s t.
Proof. destruct p; simpl; [discriminate|tauto]. Qed.

Lemma gprod_on_fst ff p s t t' :
  gprod p s t -> (forall f, gbenv f t -> gbenv (ff f) t') -> gprod (p_on_fst ff p) s t'.
Proof.
  intros G H. unfold p_on_fst. rewrite (gprod_canon _ _ _ G).
  destruct p as [|f e]; simpl in *; [tauto|]. destruct G; split; auto.
Qed.
Lemma gprod_on_snd fe p s s' t :
  gprod p s t -> (forall e, genv e s -> genv (fe e) s') -> gprod (p_on_snd fe p) s' t.
Proof.
  intros G H. unfold p_on_snd. rewrite (gprod_canon _ _ _ G).
  destruct p as [|f e]; simpl in *; [tauto|]. destruct G; split; auto.
Qed.

Lemma gprod_on_fst' ff p s t t' :
  gprod p s t -> gbenv (ff (p_fst p)) t' -> gprod (p_on_fst ff p) s t'.
Proof.
  intros G H. unfold p_on_fst. rewrite (gprod_canon _ _ _ G).
  destruct p as [|f e]; simpl in *; [tauto|]. destruct G; split; auto.
Qed.
Lemma gprod_on_snd' fe p s s' t :
  gprod p s t -> genv (fe (p_snd p)) s' -> gprod (p_on_snd fe p) s' t.
Proof.
  intros G H. unfold p_on_snd. rewrite (gprod_canon _ _ _ G).
  destruct p as [|f e]; simpl in *; [tauto|]. destruct G; split; auto.
Qed.
Lemma p_fst_on_snd fe p s t : gprod p s t -> p_fst (p_on_snd fe p) = p_fst p.
Proof. intros G. unfold p_on_snd. rewrite (gprod_canon _ _ _ G). destruct p; reflexivity. Qed.
Lemma p_snd_on_fst ff p s t : gprod p s t -> p_snd (p_on_fst ff p) = p_snd p.
Proof. intros G. unfold p_on_fst. rewrite (gprod_canon _ _ _ G). destruct p; reflexivity. Qed.

(* flat Boolean environment *)
Lemma gb_at f t k : gbenv f t -> gbv (be_at f k) (t k).
Proof. apply gs_at. Qed.
Lemma gb_set f t k v x : gbenv f t -> gbv v x -> gbenv (be_set f k v) (bupd t k x).
Proof. unfold gbenv, be_set, bupd. apply gs_set; auto with fb. Qed.
Lemma gb_set_same f t k v : gbenv f t -> gbv v (t k) -> gbenv (be_set f k v) t.
Proof. unfold gbenv, be_set. apply gs_set_same; auto with fb. Qed.
Lemma gb_forget f t k x : gbenv f t -> gbenv (be_forget f k) (bupd t k x).
Proof. unfold gbenv, be_forget, bupd. apply gs_forget; auto with fb. Qed.
Lemma gb_forget_same f t k : gbenv f t -> gbenv (be_forget f k) t.
Proof. unfold gbenv, be_forget. apply gs_forget_same; auto with fb. Qed.

Lemma bv_join_sound x y z : gbv x z \/ gbv y z -> gbv (bv_join x y) z.
Proof. destruct x, y, z; simpl; intuition congruence. Qed.
Lemma bv_meet_sound x y z : gbv x z -> gbv y z -> gbv (bv_meet x y) z.
Proof. destruct x, y, z; simpl; intuition congruence. Qed.
Lemma bv_leq_sound x y z : bv_leq x y = true -> gbv x z -> gbv y z.
Proof. destruct x, y, z; simpl; intuition congruence. Qed.
Lemma bv_neg_sound x z : gbv x z -> gbv (bv_neg x) (negb z).
Proof. destruct x, z; simpl; intuition congruence. Qed.
Definition bool_sem (op : bool_op) (a b : bool) : bool :=
  match op with BAnd => a && b | BOr => a || b | BXor => xorb a b end.
Lemma bv_bin_sound op x y a b : gbv x a -> gbv y b -> gbv (bv_bin op x y) (bool_sem op a b).
Proof. destruct op, x, y, a, b; simpl; intuition congruence. Qed.

Lemma gb_join a b t : gbenv a t \/ gbenv b t -> gbenv (be_join a b) t.
Proof. unfold gbenv, be_join. apply gs_join; auto with fb. apply bv_join_sound. Qed.
Lemma gb_meet a b t : gbenv a t -> gbenv b t -> gbenv (be_meet a b) t.
Proof. unfold gbenv, be_meet. apply gs_meet; auto with fb. apply bv_meet_sound. Qed.
Lemma gb_leq a b t : be_leq a b = true -> gbenv a t -> gbenv b t.
Proof. unfold gbenv, be_leq. apply gs_leq; auto with fb. apply bv_leq_sound. Qed.

(* lattice operations of the product *)
Lemma p_join_sound a b s t : gprod a s t \/ gprod b s t -> gprod (p_join a b) s t.
Proof.
  intros G. unfold p_join.
  destruct (p_is_bot a) eqn:Ba.
  { destruct G as [G|G]; auto. rewrite (gprod_not_bot _ _ _ G) in Ba. discriminate. }
  destruct (p_is_bot b) eqn:Bb.
  { destruct G as [G|G]; auto. rewrite (gprod_not_bot _ _ _ G) in Bb. discriminate. }
  apply gprod_canon_intro. simpl. split.
  - apply gb_join. destruct G as [G|G]; [left|right]; eapply gprod_fst; eauto.
  - apply e_join_sound. destruct G as [G|G]; [left|right]; eapply gprod_snd; eauto.
Qed.
Lemma p_widen_sound a b s t : gprod a s t \/ gprod b s t -> gprod (p_widen a b) s t.
Proof.
  intros G. unfold p_widen. simpl. split.
  - apply gb_join. destruct G as [G|G]; [left|right]; eapply gprod_fst; eauto.
  - apply e_widen_sound. destruct G as [G|G]; [left|right]; eapply gprod_snd; eauto.
Qed.
Lemma p_widen_thr_sound gp gn a b s t :
  (forall v, ble (gp v) v = true) -> (forall v, ble v (gn v) = true) ->
  gprod a s t \/ gprod b s t -> gprod (p_widen_thr gp gn a b) s t.
Proof.
  intros H1 H2 G. unfold p_widen_thr. simpl. split.
  - apply gb_join. destruct G as [G|G]; [left|right]; eapply gprod_fst; eauto.
  - apply e_widen_thr_sound; auto. destruct G as [G|G]; [left|right]; eapply gprod_snd; eauto.
Qed.
Lemma p_meet_sound a b s t : gprod a s t -> gprod b s t -> gprod (p_meet a b) s t.
Proof.
  intros Ga Gb. unfold p_meet.
  rewrite (gprod_not_bot _ _ _ Ga), (gprod_not_bot _ _ _ Gb). cbn [orb].
  destruct (p_is_top b); auto. destruct (p_is_top a); auto.
  apply gprod_canon_intro. simpl. split.
  - apply gb_meet; eapply gprod_fst; eauto.
  - apply e_meet_sound; eapply gprod_snd; eauto.
Qed.
Lemma p_narrow_sound a b s t : gprod a s t -> gprod b s t -> gprod (p_narrow a b) s t.
Proof.
  intros Ga Gb. unfold p_narrow.
  rewrite (gprod_not_bot _ _ _ Ga), (gprod_not_bot _ _ _ Gb). cbn [orb].
  destruct (p_is_top b); auto. destruct (p_is_top a); auto.
  apply gprod_canon_intro. simpl. split.
  - apply gb_meet; eapply gprod_fst; eauto.
  - apply e_narrow_sound; eapply gprod_snd; eauto.
Qed.
Lemma p_leq_sound a b s t : p_leq a b = true -> gprod a s t -> gprod b s t.
Proof.
  unfold p_leq. intros L G. rewrite (gprod_not_bot _ _ _ G) in L.
  destruct (p_is_bot b) eqn:Bb; [discriminate|].
  apply andb_true_iff in L. destruct L as [L1 L2].
  apply gprod_pair; auto.
  - eapply gb_leq; eauto. eapply gprod_fst; eauto.
  - eapply e_leq_sound; eauto. eapply gprod_snd; eauto.
Qed.

(* ------------------------------------------------------------------ the memories *)

Lemma eval_terms_ext ts s s' : (forall v, In v (map snd ts) -> s' v = s v) ->
  eval_terms ts s' = eval_terms ts s.
Proof.
  induction ts as [|[c v] r IH]; simpl; intros H; auto.
  rewrite H by (left; reflexivity). rewrite IH; auto.
Qed.
Lemma sat_ext c s s' : (forall v, In v (lc_vars c) -> s' v = s v) -> (sat c s' <-> sat c s).
Proof.
  intros H. unfold sat, eval_le. unfold lc_vars in H. rewrite (eval_terms_ext _ s s' H). tauto.
Qed.

Lemma neqb_In (x : var) l : mem var N.eqb x l = true <-> In x l.
Proof.
  split.
  - apply mem_In. intros a b H. apply N.eqb_eq. exact H.
  - intros I. unfold mem. apply existsb_exists. exists x. split; auto. apply N.eqb_refl.
Qed.

(* all_unchanged under the updates of m_unchanged_vars *)
Lemma au_rem x u c : u <> DVBot -> all_unchanged (vs_rem x u) c = true ->
  all_unchanged u c = true /\ ~ In x (lc_vars c).
Proof.
  destruct u as [|l]; [congruence|]. intros _. unfold all_unchanged. rewrite !forallb_forall.
  intros H. split.
  - intros v I. specialize (H v I). simpl in *. apply neqb_In.
    apply mem_In in H; [|intros a b E; apply N.eqb_eq; exact E].
    apply rem_In in H. tauto.
  - intros I. specialize (H x I). simpl in H.
    apply mem_In in H; [|intros a b E; apply N.eqb_eq; exact E].
    apply rem_In in H. destruct H as [_ H]. rewrite N.eqb_refl in H. discriminate.
Qed.
Lemma au_bot c : all_unchanged DVBot c = true.
Proof. unfold all_unchanged. apply forallb_forall. intros v _. reflexivity. Qed.
Lemma au_add v u c : all_unchanged (vs_add v u) c = true -> mentions v c = false ->
  all_unchanged u c = true.
Proof.
  destruct u as [|l]; [intros; apply au_bot|]. unfold all_unchanged, mentions. rewrite !forallb_forall.
  intros H M w I. specialize (H w I). simpl in *. apply neqb_In. apply neqb_In in H.
  apply ins_In in H. destruct H as [E|H]; auto. subst w. exfalso.
  assert (existsb (N.eqb v) (lc_vars c) = true).
  { apply existsb_exists. exists v. split; auto. apply N.eqb_refl. }
  congruence.
Qed.
Lemma au_join a b c : all_unchanged (vs_join a b) c = true ->
  all_unchanged a c = true /\ all_unchanged b c = true.
Proof.
  unfold vs_join, dv_join.
  assert (E : forall u, all_unchanged (@dv_top var) c = true -> all_unchanged u c = true).
  { unfold all_unchanged. intros u H. destruct (lc_vars c); auto. simpl in H. discriminate. }
  destruct (dv_is_top a || dv_is_top b); [intros H; split; apply E; exact H|].
  destruct a as [|la], b as [|lb]; try (intros H; split; auto; apply au_bot).
  unfold all_unchanged. rewrite !forallb_forall. intros H. split; intros v I; specialize (H v I);
    simpl in *; apply neqb_In; apply neqb_In in H; apply inter_In in H;
    try (intros x y Exy; apply N.eqb_eq; exact Exy); tauto.
Qed.
Lemma au_leq a b c : vs_leq a b = true -> all_unchanged b c = true -> all_unchanged a c = true.
Proof.
  unfold vs_leq, dv_leq.
  destruct (dv_is_top b) eqn:Tb.
  { rewrite (dv_Htop _ Tb). unfold all_unchanged. intros _ H.
    destruct (lc_vars c); auto. simpl in H. discriminate. }
  destruct a as [|la]; [intros; apply au_bot|]. simpl.
  destruct b as [|lb]; [discriminate|].
  unfold all_unchanged. rewrite !forallb_forall. intros S H v I. specialize (H v I). simpl in *.
  apply neqb_In. apply neqb_In in H. eapply subset_In; eauto.
  intros x y E. apply N.eqb_eq. exact E.
Qed.
Lemma fold_ins_In (v : var) l : forall acc, In v l -> In v (fold_left (fun acc w => ins var N.eqb N.ltb w acc) l acc).
Proof.
  induction l as [|h r IH]; simpl; intros acc I; [tauto|].
  destruct I as [->|I]; [|apply IH; exact I].
  assert (G : forall l0 acc0, In v acc0 -> In v (fold_left (fun acc w => ins var N.eqb N.ltb w acc) l0 acc0)).
  { induction l0 as [|h0 r0 IH0]; simpl; auto. intros acc0 I0. apply IH0. apply In_ins_old. exact I0. }
  apply G. apply In_ins_new. intros x y E. apply N.eqb_eq. exact E.
Qed.
Lemma unch_covers_au u c : unch_covers u c = true -> all_unchanged u c = true.
Proof.
  unfold unch_covers. intros H.
  apply (au_leq u _ c H). unfold all_unchanged. apply forallb_forall. intros v I. simpl.
  apply neqb_In. apply fold_ins_In. exact I.
Qed.
Lemma lc_vars_negate c : lc_vars (lc_negate c) = lc_vars c \/ lc_vars (lc_negate c) = [].
Proof.
  unfold lc_negate. destruct (lc_is_tautology c); [right; reflexivity|].
  destruct (lc_is_contradiction c); [right; reflexivity|].
  left. unfold lc_vars. destruct (lc_kind c); simpl; auto; rewrite map_map; simpl; reflexivity.
Qed.
Lemma au_negate u c : all_unchanged u (lc_negate c) = true ->
  lc_is_tautology c = false -> lc_is_contradiction c = false -> all_unchanged u c = true.
Proof.
  unfold all_unchanged, lc_negate. intros H T C. rewrite T, C in H.
  unfold lc_vars in *. destruct (lc_kind c); simpl in H; auto; rewrite map_map in H; simpl in H; exact H.
Qed.
Lemma constant_no_vars c : le_is_constant (lc_exp c) = true -> lc_vars c = [].
Proof. unfold le_is_constant, lc_vars. destruct (le_terms (lc_exp c)); [reflexivity|discriminate]. Qed.

(* changing the integer store and the set of unchanged variables *)
Lemma gcs_change s u s' u' v x :
  (forall c, all_unchanged u' c = true -> all_unchanged u c = true /\ (sat c s' <-> sat c s)) ->
  gcs s u v x -> gcs s' u' v x.
Proof.
  intros H. destruct v as [|l]; simpl; auto. intros G c I. destruct (G c I) as [W E]. split; auto.
  intros A. destruct (H c A) as [A' S]. rewrite S. apply E. exact A'.
Qed.
Lemma glin_change l s u s' u' t :
  (forall c, all_unchanged u' c = true -> all_unchanged u c = true /\ (sat c s' <-> sat c s)) ->
  glin l u s t -> glin l u' s' t.
Proof.
  intros H. destruct l as [|m]; simpl; auto. intros G k. eapply gcs_change; [exact H|]. apply G.
Qed.
Lemma gcs_filter s u q v x : gcs s u v x -> gcs s u (dv_filter q v) x.
Proof.
  destruct v as [|l]; simpl; auto. intros G c I. apply filter_In in I. apply G. tauto.
Qed.

Lemma l_remove_if_at p l k : l <> SBot ->
  l_at (l_remove_if p l) k = dv_filter (fun c => negb (p c)) (l_at l k).
Proof.
  intros NB. unfold l_remove_if, l_at.
  destruct (s_is_bot l) eqn:B; [destruct l; [congruence|discriminate]|]. simpl.
  destruct (l_is_top l) eqn:T.
  - unfold l_is_top in T. rewrite s_is_top_at by auto with fb. reflexivity.
  - apply s_map_vals_at; auto with fb.
Qed.
Lemma l_remove_if_not_bot p l : l <> SBot -> l_remove_if p l <> SBot.
Proof.
  intros NB. unfold l_remove_if. destruct (s_is_bot l || l_is_top l); auto.
  apply s_map_vals_not_bot. exact NB.
Qed.
Lemma glin_not_bot l u s t : glin l u s t -> l <> SBot.
Proof. destruct l; simpl; [tauto|discriminate]. Qed.
Lemma gbools_not_bot b t : gbools b t -> b <> SBot.
Proof. destruct b; simpl; [tauto|discriminate]. Qed.
Lemma glin_at l u s t k : glin l u s t -> gcs s u (l_at l k) (t k).
Proof. apply gs_at. Qed.
Lemma gbools_at b t k : gbools b t -> gvs t (bb_at b k) (t k).
Proof. apply (gs_at vset vops_ bool (gvs t)). Qed.

Lemma glin_remove_if p l u s t : glin l u s t -> glin (l_remove_if p l) u s t.
Proof.
  intros G. pose proof (glin_not_bot _ _ _ _ G) as NB.
  apply gsenv_intro; [apply l_remove_if_not_bot; exact NB|].
  intros k. change (gcs s u (l_at (l_remove_if p l) k) (t k)).
  rewrite l_remove_if_at by exact NB. apply gcs_filter. apply glin_at. exact G.
Qed.

Lemma mark_unchanged_sound v l u s t :
  glin l u s t -> u <> DVBot ->
  glin (fst (mark_unchanged v (l, u))) (snd (mark_unchanged v (l, u))) s t /\
  snd (mark_unchanged v (l, u)) <> DVBot.
Proof.
  intros G NU. unfold mark_unchanged. destruct (vs_at v u) eqn:A; simpl; [auto|].
  pose proof (glin_not_bot _ _ _ _ G) as NB. split.
  - apply gsenv_intro; [apply l_remove_if_not_bot; exact NB|].
    intros k. change (gcs s (vs_add v u) (l_at (l_remove_if (mentions v) l) k) (t k)).
    rewrite l_remove_if_at by exact NB.
    pose proof (glin_at _ _ _ _ k G) as Gk.
    destruct (l_at l k) as [|lk]; simpl in *; auto.
    intros c I. apply filter_In in I. destruct I as [I M]. apply negb_true_iff in M.
    destruct (Gk c I) as [W E]. split; auto. intros AU. apply E. eapply au_add; eauto.
  - destruct u; [congruence|]. simpl. discriminate.
Qed.
Lemma mark_unchanged_fold vs : forall l u s t,
  glin l u s t -> u <> DVBot ->
  let lu := fold_left (fun lu w => mark_unchanged w lu) vs (l, u) in
  glin (fst lu) (snd lu) s t /\ snd lu <> DVBot.
Proof.
  induction vs as [|v r IH]; cbn [fold_left]; intros l u s t G NU; [simpl; auto|].
  destruct (mark_unchanged_sound v l u s t G NU) as [G1 N1].
  destruct (mark_unchanged v (l, u)) as [l1 u1]. cbn [fst snd] in *. apply IH; auto.
Qed.

Lemma glin_applicable l u u' s t : glin l u s t -> glin (applicable u l) u' s t.
Proof.
  intros G. pose proof (glin_not_bot _ _ _ _ G) as NB. unfold applicable.
  apply gsenv_intro; [apply l_remove_if_not_bot; exact NB|].
  intros k. change (gcs s u' (l_at (l_remove_if (fun c => negb (all_unchanged u c)) l) k) (t k)).
  rewrite l_remove_if_at by exact NB.
  pose proof (glin_at _ _ _ _ k G) as Gk.
  destruct (l_at l k) as [|lk]; simpl in *; auto.
  intros c I. apply filter_In in I. destruct I as [I M]. rewrite negb_involutive in M.
  destruct (Gk c I) as [W E]. split; auto.
Qed.

Lemma fb_terms_eqb_eq a : forall b, terms_eqb a b = true -> a = b.
Proof.
  induction a as [|[c v] r IH]; intros [|[c' v'] r']; simpl; try discriminate; auto.
  intros H. apply andb_true_iff in H. destruct H as [H H3]. apply andb_true_iff in H.
  destruct H as [H1 H2]. apply Z.eqb_eq in H1. apply N.eqb_eq in H2. subst. f_equal. auto.
Qed.
Lemma fb_lc_eqb_eq a b : lc_eqb a b = true -> a = b.
Proof.
  destruct a as [ka [ta ca]], b as [kb [tb cb]]. unfold lc_eqb, le_eqb. simpl. intros H.
  apply andb_true_iff in H. destruct H as [H1 H]. apply andb_true_iff in H. destruct H as [H2 H3].
  apply fb_terms_eqb_eq in H2. apply Z.eqb_eq in H3. subst.
  destruct ka, kb; simpl in H1; try discriminate; reflexivity.
Qed.

(* dual sets of constraints *)
Lemma cs_join_sound s u x y z : gcs s u x z \/ gcs s u y z -> gcs s u (cs_join x y) z.
Proof.
  unfold cs_join, dv_join. destruct (dv_is_top x || dv_is_top y); [intros _ c []|].
  destruct x as [|lx], y as [|ly]; simpl; try tauto.
  intros H c I. apply inter_In in I; [|apply fb_lc_eqb_eq]. destruct H as [H|H]; apply H; tauto.
Qed.
Lemma cs_meet_sound s u x y z : gcs s u x z -> gcs s u y z -> gcs s u (cs_meet x y) z.
Proof.
  unfold cs_meet, dv_meet. destruct x as [|lx], y as [|ly]; simpl; try tauto.
  intros Hx Hy c I. apply union_In in I. destruct I; auto.
Qed.
Lemma cs_leq_sound s u x y z : cs_leq x y = true -> gcs s u x z -> gcs s u y z.
Proof.
  unfold cs_leq, dv_leq. destruct (dv_is_top y) eqn:Ty.
  { rewrite (dv_Htop _ Ty). intros _ _ c []. }
  destruct x as [|lx]; simpl; [tauto|]. destruct y as [|ly]; [discriminate|].
  intros S H c I. apply H. eapply subset_In; eauto. apply fb_lc_eqb_eq.
Qed.
Lemma vs_join_sound t x y z : gvs t x z \/ gvs t y z -> gvs t (vs_join x y) z.
Proof.
  unfold vs_join, dv_join. destruct (dv_is_top x || dv_is_top y); [intros _ c []|].
  destruct x as [|lx], y as [|ly]; simpl; try tauto.
  intros H c I. apply inter_In in I; [|intros a b E; apply N.eqb_eq; exact E].
  destruct H as [H|H]; apply H; tauto.
Qed.
Lemma vs_meet_sound t x y z : gvs t x z -> gvs t y z -> gvs t (vs_meet x y) z.
Proof.
  unfold vs_meet, dv_meet. destruct x as [|lx], y as [|ly]; simpl; try tauto.
  intros Hx Hy c I. apply union_In in I. destruct I; auto.
Qed.
Lemma vs_leq_sound t x y z : vs_leq x y = true -> gvs t x z -> gvs t y z.
Proof.
  unfold vs_leq, dv_leq. destruct (dv_is_top y) eqn:Ty.
  { rewrite (dv_Htop _ Ty). intros _ _ c []. }
  destruct x as [|lx]; simpl; [tauto|]. destruct y as [|ly]; [discriminate|].
  intros S H c I. apply H. eapply subset_In; eauto. intros a b E; apply N.eqb_eq; exact E.
Qed.

(* ------------------------------------------------------------------ lattice operations *)

Lemma vs_join_not_bot a b : a <> DVBot \/ b <> DVBot -> vs_join a b <> DVBot.
Proof.
  unfold vs_join, dv_join. destruct (dv_is_top a || dv_is_top b); [discriminate|].
  destruct a, b; try discriminate; tauto.
Qed.

Lemma glin_join la ua lb ub s t :
  glin la ua s t \/ glin lb ub s t ->
  glin (s_join cset cops cs_join la lb) (vs_join ua ub) s t.
Proof.
  intros G. unfold glin. apply gs_join; auto with fb.
  - apply cs_join_sound.
  - destruct G as [G|G]; [left|right]; (eapply glin_change; [|exact G]);
      intros c A; apply au_join in A; tauto.
Qed.
Lemma gbools_join a b t : gbools a t \/ gbools b t -> gbools (s_join vset vops_ vs_join a b) t.
Proof. unfold gbools. apply gs_join; auto with fb. apply vs_join_sound. Qed.

Theorem fb_join_sound a b s t : gfb a s t \/ gfb b s t -> gfb (fb_join a b) s t.
Proof.
  intros G. unfold gfb, fb_join. cbn [f_prod f_lin f_bools f_unch]. split; [|split; [|split]].
  - apply p_join_sound. destruct G as [G|G]; [left|right]; apply G.
  - apply glin_join. destruct G as [G|G]; [left|right]; apply G.
  - apply gbools_join. destruct G as [G|G]; [left|right]; apply G.
  - apply vs_join_not_bot. destruct G as [G|G]; [left|right]; apply G.
Qed.
Theorem fb_widen_sound a b s t : gfb a s t \/ gfb b s t -> gfb (fb_widen a b) s t.
Proof.
  intros G. unfold gfb, fb_widen. cbn [f_prod f_lin f_bools f_unch]. split; [|split; [|split]].
  - apply p_widen_sound. destruct G as [G|G]; [left|right]; apply G.
  - apply glin_join. destruct G as [G|G]; [left|right]; apply G.
  - apply gbools_join. destruct G as [G|G]; [left|right]; apply G.
  - apply vs_join_not_bot. destruct G as [G|G]; [left|right]; apply G.
Qed.
Theorem fb_widen_thr_sound gp gn a b s t :
  (forall v, ble (gp v) v = true) -> (forall v, ble v (gn v) = true) ->
  gfb a s t \/ gfb b s t -> gfb (fb_widen_thr gp gn a b) s t.
Proof.
  intros H1 H2 G. unfold gfb, fb_widen_thr. cbn [f_prod f_lin f_bools f_unch]. split; [|split; [|split]].
  - apply p_widen_thr_sound; auto. destruct G as [G|G]; [left|right]; apply G.
  - apply glin_join. destruct G as [G|G]; [left|right]; apply G.
  - apply gbools_join. destruct G as [G|G]; [left|right]; apply G.
  - apply vs_join_not_bot. destruct G as [G|G]; [left|right]; apply G.
Qed.

Lemma glin_meet la ua lb ub s t :
  glin la ua s t -> glin lb ub s t ->
  glin (s_meet cset cops cs_meet (applicable ua la) (applicable ub lb)) (vs_meet ua ub) s t.
Proof.
  intros Ga Gb. unfold glin. apply gs_meet; auto with fb.
  - apply cs_meet_sound.
  - apply glin_applicable. exact Ga.
  - apply glin_applicable. exact Gb.
Qed.
Lemma gbools_meet a b t : gbools a t -> gbools b t -> gbools (s_meet vset vops_ vs_meet a b) t.
Proof. unfold gbools. apply gs_meet; auto with fb. apply vs_meet_sound. Qed.
Lemma vs_meet_not_bot a b : a <> DVBot -> b <> DVBot -> vs_meet a b <> DVBot.
Proof. destruct a, b; simpl; try congruence; try discriminate. Qed.

Theorem fb_meet_sound a b s t : gfb a s t -> gfb b s t -> gfb (fb_meet a b) s t.
Proof.
  intros (P1 & L1 & B1 & U1) (P2 & L2 & B2 & U2). unfold gfb, fb_meet.
  cbn [f_prod f_lin f_bools f_unch]. split; [|split; [|split]].
  - apply p_meet_sound; auto.
  - apply glin_meet; auto.
  - apply gbools_meet; auto.
  - apply vs_meet_not_bot; auto.
Qed.
Theorem fb_narrow_sound a b s t : gfb a s t -> gfb b s t -> gfb (fb_narrow a b) s t.
Proof.
  intros (P1 & L1 & B1 & U1) (P2 & L2 & B2 & U2). unfold gfb, fb_narrow.
  cbn [f_prod f_lin f_bools f_unch]. split; [|split; [|split]].
  - apply p_narrow_sound; auto.
  - apply glin_meet; auto.
  - apply gbools_meet; auto.
  - apply vs_meet_not_bot; auto.
Qed.

(* representation invariant of the values built through the API: the set of unchanged
   variables is the "all variables" set only together with a bottom memory *)
Definition fb_inv (st : fstate) : Prop := f_unch st = DVBot -> f_lin st = SBot.

Theorem fb_leq_sound a b s t : fb_leq a b = true -> fb_inv b -> gfb a s t -> gfb b s t.
Proof.
  unfold fb_leq, fb_is_bot. intros L I (P & GL & GB & GU).
  rewrite (gprod_not_bot _ _ _ P) in L.
  destruct (p_is_bot (f_prod b)) eqn:Bb; [discriminate|].
  apply andb_true_iff in L. destruct L as [L L4].
  apply andb_true_iff in L. destruct L as [L L3].
  apply andb_true_iff in L. destruct L as [L1 L2].
  assert (NB : f_lin b <> SBot).
  { destruct (f_lin a); [simpl in GL; tauto|]. destruct (f_lin b); [discriminate|discriminate]. }
  unfold gfb. split; [|split; [|split]].
  - eapply p_leq_sound; eauto.
  - apply orb_true_iff in L4. destruct L4 as [L4|L4].
    + apply (gs_leq cset cops bool (gcs s (f_unch b)) cops_Htop cops_Htt (cops_Rtop s (f_unch b))
                    cs_leq (f_lin a) (f_lin b) t (cs_leq_sound s (f_unch b)) L2).
      eapply glin_change; [|exact GL]. intros c A. split; [|tauto]. eapply au_leq; eauto.
    + destruct (f_lin b) as [|m]; [congruence|]. unfold glin. simpl.
      apply all_top_gsmap; auto with fb.
  - apply (gs_leq vset vops_ bool (gvs t) vops_Htop vops_Htt (vops_Rtop t)
                  vs_leq (f_bools a) (f_bools b) t (vs_leq_sound t) L3 GB).
  - intros E. apply NB. apply I. exact E.
Qed.

(* ------------------------------------------------------------------ pointwise equal stores *)

Lemma genv_ext e s s' : (forall k, s' k = s k) -> genv e s -> genv e s'.
Proof. intros E. destruct e as [|m]; simpl; auto. intros G k. rewrite E. apply G. Qed.
Lemma gbenv_ext f t t' : (forall k, t' k = t k) -> gbenv f t -> gbenv f t'.
Proof. intros E. destruct f as [|m]; simpl; auto. intros G k. rewrite E. apply G. Qed.
Lemma glin_ext l u s s' t t' : (forall k, s' k = s k) -> (forall k, t' k = t k) ->
  glin l u s t -> glin l u s' t'.
Proof.
  intros Es Et. destruct l as [|m]; simpl; auto. intros G k. rewrite Et.
  eapply gcs_change; [|apply G]. intros c A. split; auto. apply sat_ext. intros v _. apply Es.
Qed.
Lemma gvs_ext t t' v x : (forall k, t' k = t k) -> gvs t v x -> gvs t' v x.
Proof. intros E. destruct v as [|l]; simpl; auto. intros G y I X. rewrite E. apply G; auto. Qed.
Lemma gbools_ext b t t' : (forall k, t' k = t k) -> gbools b t -> gbools b t'.
Proof.
  intros E. destruct b as [|m]; simpl; auto. intros G k. rewrite E. eapply gvs_ext; [exact E|]. apply G.
Qed.
Lemma gprod_ext p s s' t t' : (forall k, s' k = s k) -> (forall k, t' k = t k) ->
  gprod p s t -> gprod p s' t'.
Proof.
  intros Es Et. destruct p as [|f e]; simpl; auto. intros [G1 G2]. split.
  - eapply gbenv_ext; eauto.
  - eapply genv_ext; eauto.
Qed.
Theorem gfb_ext st s s' t t' : (forall k, s' k = s k) -> (forall k, t' k = t k) ->
  gfb st s t -> gfb st s' t'.
Proof.
  intros Es Et (P & L & B & U). split; [|split; [|split]]; auto.
  - eapply gprod_ext; eauto.
  - eapply glin_ext; eauto.
  - eapply gbools_ext; eauto.
Qed.

(* ------------------------------------------------------------------ numerical operations *)

Lemma vs_rem_not_bot x u : u <> DVBot -> vs_rem x u <> DVBot.
Proof. destruct u; simpl; [congruence|discriminate]. Qed.

(* the variable x of the integer store is overwritten *)
Lemma glin_changed_var l u s s' t x :
  u <> DVBot -> (forall v, v <> x -> s' v = s v) -> glin l u s t -> glin l (vs_rem x u) s' t.
Proof.
  intros NU E G. eapply glin_change; [|exact G]. intros c A.
  apply au_rem in A; auto. destruct A as [A NI]. split; auto.
  apply sat_ext. intros v I. apply E. intros ->. contradiction.
Qed.

Lemma fb_num_sound st s s' t x fe :
  gfb st s t -> (forall v, v <> x -> s' v = s v) ->
  (forall e, genv e s -> genv (fe e) s') ->
  gfb (mark_changed x (set_prod st (p_on_snd fe (f_prod st)))) s' t /\
  gfb (mark_changed x (set_prod st (canon (p_on_snd fe (f_prod st))))) s' t.
Proof.
  intros (P & L & B & U) E H.
  assert (P' : gprod (p_on_snd fe (f_prod st)) s' t) by (eapply gprod_on_snd; eauto).
  split; (split; [|split; [|split]]); cbn [mark_changed set_prod f_prod f_lin f_bools f_unch]; auto.
  - eapply glin_changed_var; eauto.
  - apply vs_rem_not_bot; auto.
  - apply gprod_canon_intro; auto.
  - eapply glin_changed_var; eauto.
  - apply vs_rem_not_bot; auto.
Qed.

Lemma upd_other' s x z v : v <> x -> upd s x z v = s v.
Proof. apply upd_other. Qed.

Theorem fb_assign_sound x ex st s t :
  gfb st s t -> gfb (fb_assign x ex st) (upd s x (eval_le ex s)) t.
Proof.
  intros G. apply (fb_num_sound st s _ t x (d_assign x ex) G).
  - intros v N. apply upd_other. exact N.
  - intros e Ge. apply d_assign_sound. exact Ge.
Qed.
Theorem fb_weak_assign_sound x ex st s t :
  gfb st s t -> gfb (fb_weak_assign x ex st) s t /\
                gfb (fb_weak_assign x ex st) (upd s x (eval_le ex s)) t.
Proof.
  intros G. split.
  - apply (fb_num_sound st s s t x (d_weak_assign x ex) G); auto.
    intros e Ge. apply d_weak_assign_sound; auto.
  - apply (fb_num_sound st s _ t x (d_weak_assign x ex) G).
    + intros v N. apply upd_other. exact N.
    + intros e Ge. apply d_weak_assign_sound; auto.
Qed.
Theorem fb_arith_sound op x y z st s t r :
  gfb st s t -> arith_sem op (s y) (operand_val z s) = Some r ->
  gfb (fb_arith op x y z st) (upd s x r) t.
Proof.
  intros G A. apply (fb_num_sound st s _ t x (d_apply_arith op x y z) G).
  - intros v N. apply upd_other. exact N.
  - intros e Ge. eapply d_apply_arith_sound; eauto.
Qed.
Theorem fb_bit_sound op x y z st s t r :
  gfb st s t -> bit_sem op (s y) (operand_val z s) = Some r ->
  gfb (fb_bit op x y z st) (upd s x r) t.
Proof.
  intros G A. apply (fb_num_sound st s _ t x (d_apply_bit op x y z) G).
  - intros v N. apply upd_other. exact N.
  - intros e Ge. eapply d_apply_bit_sound; eauto.
Qed.
Theorem fb_select_sound lhs c e1 e2 st s t :
  wf_lc c -> gfb st s t ->
  gfb (fb_select lhs c e1 e2 st) (upd s lhs (if satb c s then eval_le e1 s else eval_le e2 s)) t.
Proof.
  intros W G. apply (fb_num_sound st s _ t lhs (d_select lhs c e1 e2) G).
  - intros v N. apply upd_other. exact N.
  - intros e Ge. apply d_select_sound; auto.
Qed.
Theorem fb_add_sound cs st s t :
  (forall c, In c cs -> wf_lc c /\ sat c s) -> gfb st s t -> gfb (fb_add cs st) s t.
Proof.
  intros H G. unfold fb_add. destruct cs as [|c0 r]; auto.
  destruct G as (P & L & B & U). split; [|split; [|split]]; auto.
  cbn [set_prod f_prod]. eapply gprod_on_snd; eauto. intros e Ge. apply d_add_sound; auto.
Qed.

(* the answers *)
Theorem fb_entails_sound c st s t : wf_lc c -> gfb st s t -> fb_entails c st = true -> sat c s.
Proof.
  intros W (P & _) E. unfold fb_entails in E. eapply d_entails_sound; eauto. eapply gprod_snd; eauto.
Qed.
Theorem fb_bool_at_sound st s t v : gfb st s t -> gbv (fb_bool_at st v) (t v).
Proof.
  intros (P & _). unfold fb_bool_at. rewrite (gprod_canon _ _ _ P). apply gb_at. eapply gprod_fst; eauto.
Qed.
Theorem fb_not_bot st s t : gfb st s t -> fb_is_bot st = false.
Proof. intros (P & _). unfold fb_is_bot. eapply gprod_not_bot; eauto. Qed.
(* at(v) = (what the Boolean component says about v as 0/1) meet (the interval of v): it
   describes the integer value of an integer variable (nothing Boolean is known about it) and the
   0/1 value of a Boolean variable (nothing numerical is known about it) *)
Theorem fb_at_sound_int st s t v : gfb st s t ->
  be_at (p_fst (f_prod st)) v = BvTop -> gamma (fb_at st v) (s v).
Proof.
  intros (P & _) E. unfold fb_at. rewrite E. cbn [bv_is_bot orb].
  pose proof (e_at_sound _ _ v (gprod_snd _ _ _ P)) as Ge.
  rewrite (gamma_not_bot _ _ Ge). exact Ge.
Qed.
Theorem fb_at_sound_bool st s t v : gfb st s t ->
  is_top (e_at (p_snd (f_prod st)) v) = true -> gamma (fb_at st v) (b2z (t v)).
Proof.
  intros (P & _) T. unfold fb_at.
  pose proof (gb_at _ _ v (gprod_fst _ _ _ P)) as Gb.
  pose proof (e_at_sound _ _ v (gprod_snd _ _ _ P)) as Ge.
  assert (Ga : forall z, gamma (e_at (p_snd (f_prod st)) v) z).
  { intros z. eapply is_top_gamma_all; eauto. }
  rewrite (gamma_not_bot _ _ Ge).
  destruct (be_at (p_fst (f_prod st)) v) eqn:E; simpl in Gb; try tauto; cbn [bv_is_bot orb].
  - rewrite Gb. apply imeet_exact. split; [apply gamma_iconst; reflexivity|apply Ga].
  - rewrite Gb. apply imeet_exact. split; [apply gamma_iconst; reflexivity|apply Ga].
  - apply Ga.
Qed.

(* ------------------------------------------------------------------ Boolean operations *)

Lemma bb_remove_refs_at x b k : b <> SBot -> bb_at (bb_remove_refs x b) k = vs_rem x (bb_at b k).
Proof.
  intros NB. unfold bb_remove_refs, bb_at.
  destruct (s_is_bot b) eqn:B; [destruct b; [congruence|discriminate]|]. simpl.
  destruct (bb_is_top b) eqn:T.
  - unfold bb_is_top in T. rewrite s_is_top_at by auto with fb. reflexivity.
  - apply s_map_vals_at; auto with fb.
Qed.
Lemma bb_remove_refs_not_bot x b : b <> SBot -> bb_remove_refs x b <> SBot.
Proof.
  intros NB. unfold bb_remove_refs. destruct (s_is_bot b || bb_is_top b); auto.
  apply s_map_vals_not_bot. exact NB.
Qed.
Lemma bb_at_set b x v k : b <> SBot -> v <> DVBot ->
  bb_at (bb_set b x v) k = if N.eqb k x then v else bb_at b k.
Proof.
  intros NB NV. unfold bb_at, bb_set. apply s_at_set; auto with fb. destruct v; [congruence|reflexivity].
Qed.
Lemma bb_at_forget b x k : b <> SBot ->
  bb_at (bb_forget b x) k = if N.eqb k x then dv_top else bb_at b k.
Proof.
  intros NB. unfold bb_at, bb_forget. rewrite s_at_forget by auto with fb.
  destruct b; [congruence|]. reflexivity.
Qed.
Lemma bb_set_not_bot b x v : b <> SBot -> v <> DVBot -> bb_set b x v <> SBot.
Proof. intros NB NV. apply s_set_not_bot; auto. destruct v; [congruence|reflexivity]. Qed.

(* the Boolean variable x gets a new value; b1 is the memory with the new entry for x *)
Lemma gbools_update b b1 t t' x :
  gbools b t -> b1 <> SBot -> (forall k, k <> x -> t' k = t k) ->
  (forall k, k <> x -> bb_at b1 k = bb_at b k) -> gvs t (bb_at b1 x) (t' x) ->
  gbools (bb_remove_refs x b1) t'.
Proof.
  intros G NB Et Eb Gx. apply gsenv_intro; [apply bb_remove_refs_not_bot; exact NB|].
  intros k. change (gvs t' (bb_at (bb_remove_refs x b1) k) (t' k)).
  rewrite bb_remove_refs_at by exact NB.
  assert (H : gvs t (bb_at b1 k) (t' k)).
  { destruct (N.eq_dec k x) as [->|N]; auto. rewrite Eb, Et by auto. apply gbools_at. exact G. }
  destruct (bb_at b1 k) as [|l]; simpl in *; auto.
  intros y I X. apply rem_In in I. destruct I as [I N].
  rewrite Et; [apply H; auto|]. intros ->. rewrite N.eqb_refl in N. discriminate.
Qed.

Lemma gvs_weaken t a xa x : gvs t a xa -> (x = true -> xa = true) -> gvs t a x.
Proof. destruct a as [|l]; simpl; [tauto|]. intros G H y I X. apply G; auto. Qed.
Lemma gvs_single t y x : (x = true -> t y = true) -> gvs t (dv_single y) x.
Proof. intros H. simpl. intros z [<-|[]] X. auto. Qed.
Lemma gvs_meet2 t a b x : gvs t a x -> gvs t b x -> gvs t (vs_meet a b) x.
Proof. apply vs_meet_sound. Qed.
Lemma gvs_not_bot t a x : gvs t a x -> a <> DVBot.
Proof. destruct a; simpl; [tauto|discriminate]. Qed.
Lemma gcs_not_bot s u a x : gcs s u a x -> a <> DVBot.
Proof. destruct a; simpl; [tauto|discriminate]. Qed.

Lemma l_at_eq l k : l_at l k = s_at cset cops l k. Proof. reflexivity. Qed.
Lemma glin_set l u s t x v val :
  glin l u s t -> gcs s u v val -> glin (l_set l x v) u s (bupd t x val).
Proof. intros G Gv. unfold glin, l_set, bupd. apply gs_set; auto with fb. Qed.
Lemma glin_forget l u s t x val : glin l u s t -> glin (l_forget l x) u s (bupd t x val).
Proof. intros G. unfold glin, l_forget, bupd. apply gs_forget; auto with fb. Qed.

Lemma au_negate' u c : all_unchanged u (lc_negate c) = true -> all_unchanged u c = true.
Proof.
  intros H. destruct (lc_is_tautology c) eqn:T.
  { unfold lc_is_tautology in T. apply andb_true_iff in T. destruct T as [T _].
    unfold all_unchanged. rewrite (constant_no_vars c T). reflexivity. }
  destruct (lc_is_contradiction c) eqn:C.
  { unfold lc_is_contradiction in C. apply andb_true_iff in C. destruct C as [C _].
    unfold all_unchanged. rewrite (constant_no_vars c C). reflexivity. }
  eapply au_negate; eauto.
Qed.
Lemma gcs_negate s u c b : gcs s u (DVSet [c]) b -> gcs s u (dv_single (lc_negate c)) (negb b).
Proof.
  simpl. intros G c' [<-|[]]. destruct (G c (or_introl eq_refl)) as [W E]. split.
  - apply wf_lc_negate. exact W.
  - intros A. apply au_negate' in A. specialize (E A). rewrite lc_negate_spec.
    destruct b; simpl; split; intros X.
    + discriminate.
    + exfalso. apply X. apply E. reflexivity.
    + intros S. apply E in S. discriminate.
    + reflexivity.
Qed.

Lemma glin_propagate l u s t x y neg :
  glin l u s t ->
  glin (l_propagate l x y neg) u s (bupd t x (if neg then negb (t y) else t y)).
Proof.
  intros G. unfold l_propagate. destruct neg.
  - pose proof (glin_at _ _ _ _ y G) as Gy.
    destruct (is_single (l_at l y)) as [c|] eqn:E.
    + apply glin_set; auto. apply gcs_negate.
      destruct (l_at l y) as [|[|c0 [|c1 r]]]; simpl in E; try discriminate. inversion E; subst. exact Gy.
    + apply glin_forget. exact G.
  - apply glin_set; auto. apply glin_at. exact G.
Qed.

Definition set_bool_mem (st : fstate) (p : prod) (l : lenv) (b : bbenv) (u : vset) : fstate := mkF p l b u.

Theorem fb_assign_bool_cst_sound x c st s t :
  wf_lc c -> gfb st s t -> gfb (fb_assign_bool_cst x c st) s (bupd t x (satb c s)).
Proof.
  intros W G. pose proof G as (P & L & B & U). unfold fb_assign_bool_cst.
  rewrite (fb_not_bot _ _ _ G).
  set (val := satb c s). set (t' := bupd t x val).
  assert (P1 : gprod (canon (p_on_fst (fun f => be_forget f x) (f_prod st))) s t').
  { apply gprod_canon_intro. eapply gprod_on_fst; eauto. intros f Gf. apply gb_forget. exact Gf. }
  set (p1 := canon (p_on_fst (fun f => be_forget f x) (f_prod st))) in *.
  assert (Bsound : forall b0, b0 = f_bools st ->
            gbools (bb_remove_refs x (bb_forget b0 x)) t').
  { intros b0 ->. eapply gbools_update; eauto.
    - apply s_forget_not_bot. eapply gbools_not_bot; eauto.
    - intros k N. apply bupd_other. exact N.
    - intros k N. rewrite bb_at_forget by (eapply gbools_not_bot; eauto).
      destruct (N.eqb_spec k x); [congruence|reflexivity].
    - rewrite bb_at_forget by (eapply gbools_not_bot; eauto). rewrite N.eqb_refl. intros y []. }
  assert (Pset : forall v, gbv v val -> gprod (p_on_fst (fun f => be_set f x v) p1) s t').
  { intros v Gv. eapply gprod_on_fst; eauto. intros f Gf. apply gb_set_same; auto.
    unfold t'. rewrite bupd_same. exact Gv. }
  destruct (lc_is_tautology c) eqn:T.
  { assert (V : val = true).
    { unfold val. apply satb_spec. apply lc_is_tautology_sound. exact T. }
    split; [|split; [|split]]; cbn [f_prod f_lin f_bools f_unch].
    - apply Pset. rewrite V. reflexivity.
    - apply glin_forget. exact L.
    - apply Bsound. reflexivity.
    - exact U. }
  destruct (lc_is_contradiction c) eqn:C.
  { assert (V : val = false).
    { unfold val. destruct (satb c s) eqn:S; auto. apply satb_spec in S.
      exfalso. eapply lc_is_contradiction_sound; eauto. }
    split; [|split; [|split]]; cbn [f_prod f_lin f_bools f_unch].
    - apply Pset. rewrite V. reflexivity.
    - apply glin_forget. exact L.
    - apply Bsound. reflexivity.
    - exact U. }
  pose proof (mark_unchanged_fold (lc_vars c) _ _ _ _ L U) as MF. cbv zeta in MF.
  destruct (fold_left (fun lu w => mark_unchanged w lu) (lc_vars c) (f_lin st, f_unch st)) as [l u].
  cbn [fst snd] in MF. destruct MF as [GL NU].
  split; [|split; [|split]]; cbn [f_prod f_lin f_bools f_unch]; [| |apply Bsound; reflexivity|exact NU].
  - apply Pset.
    assert (Ge : genv (p_snd (canon p1)) s).
    { rewrite (gprod_canon _ _ _ P1). eapply gprod_snd; eauto. }
    destruct (d_entails c (p_snd (canon p1))) eqn:E1.
    { assert (V : val = true) by (unfold val; apply satb_spec; eapply d_entails_sound; eauto).
      rewrite V. reflexivity. }
    destruct (d_entails (lc_negate c) (p_snd (canon p1))) eqn:E2.
    { assert (V : val = false).
      { unfold val. destruct (satb c s) eqn:S; auto. apply satb_spec in S. exfalso.
        assert (X : sat (lc_negate c) s) by (eapply d_entails_sound; eauto; apply wf_lc_negate; auto).
        apply lc_negate_spec in X. tauto. }
      rewrite V. reflexivity. }
    exact I.
  - apply glin_set; auto. simpl. intros c' [<-|[]]. split; auto. intros _. apply satb_spec.
Qed.

Lemma gbools_set_update b t t' x v :
  gbools b t -> (forall k, k <> x -> t' k = t k) -> gvs t v (t' x) ->
  gbools (bb_remove_refs x (bb_set b x v)) t'.
Proof.
  intros G Et Gv. pose proof (gbools_not_bot _ _ G) as NB. pose proof (gvs_not_bot _ _ _ Gv) as NV.
  apply (gbools_update b (bb_set b x v) t t' x); auto.
  - apply bb_set_not_bot; auto.
  - intros k N. rewrite bb_at_set by auto. destruct (N.eqb_spec k x); [congruence|reflexivity].
  - rewrite bb_at_set by auto. rewrite N.eqb_refl. exact Gv.
Qed.
Lemma gbools_forget_update b t t' x :
  gbools b t -> (forall k, k <> x -> t' k = t k) -> gbools (bb_remove_refs x (bb_forget b x)) t'.
Proof.
  intros G Et. pose proof (gbools_not_bot _ _ G) as NB.
  apply (gbools_update b (bb_forget b x) t t' x); auto.
  - apply s_forget_not_bot. exact NB.
  - intros k N. rewrite bb_at_forget by auto. destruct (N.eqb_spec k x); [congruence|reflexivity].
  - rewrite bb_at_forget by auto. rewrite N.eqb_refl. intros y [].
Qed.
Lemma gvs_copy b t y : gbools b t -> gvs t (vs_meet (bb_at b y) (dv_single y)) (t y).
Proof.
  intros G. apply gvs_meet2; [apply gbools_at; exact G|apply gvs_single; auto].
Qed.

Theorem fb_assign_bool_var_sound x y neg st s t :
  gfb st s t -> gfb (fb_assign_bool_var x y neg st) s (bupd t x (if neg then negb (t y) else t y)).
Proof.
  intros G. pose proof G as (P & L & B & U). unfold fb_assign_bool_var.
  rewrite (fb_not_bot _ _ _ G).
  set (val := if neg then negb (t y) else t y). set (t' := bupd t x val).
  split; [|split; [|split]]; cbn [f_prod f_lin f_bools f_unch].
  - apply gprod_canon_intro. eapply gprod_on_fst; eauto. intros f Gf. unfold be_assign_var.
    apply gb_set; auto. unfold val. destruct neg; [apply bv_neg_sound|]; apply gb_at; exact Gf.
  - apply glin_propagate. exact L.
  - destruct neg.
    + apply (gbools_forget_update _ t); auto. intros k N. apply bupd_other. exact N.
    + apply (gbools_set_update _ t); auto.
      * intros k N. apply bupd_other. exact N.
      * unfold t'. rewrite bupd_same. unfold val. apply gvs_copy. exact B.
  - exact U.
Qed.

Theorem fb_weak_assign_bool_cst_sound x c st s t :
  wf_lc c -> gfb st s t ->
  gfb (fb_weak_assign_bool_cst x c st) s t /\
  gfb (fb_weak_assign_bool_cst x c st) s (bupd t x (satb c s)).
Proof.
  intros W G. unfold fb_weak_assign_bool_cst. rewrite (fb_not_bot _ _ _ G). split.
  - apply fb_join_sound. left. exact G.
  - apply fb_join_sound. right. apply fb_assign_bool_cst_sound; auto.
Qed.
Theorem fb_weak_assign_bool_var_sound x y neg st s t :
  gfb st s t ->
  gfb (fb_weak_assign_bool_var x y neg st) s t /\
  gfb (fb_weak_assign_bool_var x y neg st) s (bupd t x (if neg then negb (t y) else t y)).
Proof.
  intros G. unfold fb_weak_assign_bool_var. rewrite (fb_not_bot _ _ _ G). split.
  - apply fb_join_sound. left. exact G.
  - apply fb_join_sound. right. apply fb_assign_bool_var_sound; auto.
Qed.

Theorem fb_apply_binary_bool_sound op x y z st s t :
  gfb st s t -> gfb (fb_apply_binary_bool op x y z st) s (bupd t x (bool_sem op (t y) (t z))).
Proof.
  intros G. pose proof G as (P & L & B & U). unfold fb_apply_binary_bool.
  rewrite (fb_not_bot _ _ _ G).
  set (val := bool_sem op (t y) (t z)). set (t' := bupd t x val).
  assert (Et : forall k, k <> x -> t' k = t k) by (intros k N; apply bupd_other; exact N).
  split; [|split; [|split]]; cbn [f_prod f_lin f_bools f_unch].
  - apply gprod_canon_intro. eapply gprod_on_fst; eauto. intros f Gf.
    apply gb_set; auto. apply bv_bin_sound; apply gb_at; exact Gf.
  - apply glin_forget. exact L.
  - assert (FU : gbools (bb_remove_refs x (bb_forget (f_bools st) x)) t')
      by (apply (gbools_forget_update _ t); auto).
    destruct op; auto.
    apply (gbools_set_update _ t); auto. unfold t'. rewrite bupd_same. unfold val. simpl.
    repeat apply gvs_meet2.
    + eapply gvs_weaken; [apply gbools_at; exact B|]. intros X. apply andb_true_iff in X. tauto.
    + eapply gvs_weaken; [apply gbools_at; exact B|]. intros X. apply andb_true_iff in X. tauto.
    + apply gvs_single. intros X. apply andb_true_iff in X. tauto.
    + apply gvs_single. intros X. apply andb_true_iff in X. tauto.
  - exact U.
Qed.

(* assume_bool *)
Lemma gb_assume f t x neg : gbenv f t -> t x = negb neg -> gbenv (be_assume f x neg) t.
Proof.
  intros G E. unfold be_assume. apply gb_set_same; auto.
  pose proof (gb_at _ _ x G) as Gx. rewrite E in *.
  destruct neg, (be_at f x); simpl in *; auto; discriminate.
Qed.
Lemma add_if_unchanged_sound u c p s t :
  gprod p s t -> wf_lc c -> (all_unchanged u c = true -> sat c s) ->
  gprod (add_if_unchanged u c p) s t.
Proof.
  intros P W H. unfold add_if_unchanged. destruct (unch_covers u c) eqn:E; auto.
  eapply gprod_on_snd; eauto. intros e Ge. apply d_add_sound; auto.
  intros c' [<-|[]]. split; auto. apply H. apply unch_covers_au. exact E.
Qed.
Lemma bwd_reduction_sound l u x p s t :
  glin l u s t -> gprod p s t -> t x = true -> gprod (bwd_reduction l u x p) s t.
Proof.
  intros GL P X. unfold bwd_reduction.
  destruct (dv_is_top (l_at l x) || dv_is_bot (l_at l x)); auto.
  pose proof (glin_at _ _ _ _ x GL) as Gx. destruct (l_at l x) as [|cs]; simpl in *; [tauto|].
  revert p P. induction cs as [|c r IH]; simpl; intros p P; auto.
  apply IH.
  - intros c' I. apply Gx. right. exact I.
  - destruct (Gx c (or_introl eq_refl)) as [W E]. apply add_if_unchanged_sound; auto.
    intros A. apply E; auto.
Qed.
Lemma assume_fold_sound vs : forall p l u s t x,
  gprod p s t -> glin l u s t -> t x = true -> (forall v, In v vs -> t v = true) ->
  let pl := fold_left (fun pl v =>
                         let '(q, l0) := pl in
                         (p_on_fst (fun f => be_assume f v false) q,
                          l_set l0 x (cs_meet (l_at l0 x) (l_at l0 v)))) vs (p, l) in
  gprod (fst pl) s t /\ glin (snd pl) u s t.
Proof.
  induction vs as [|v r IH]; cbn [fold_left]; intros p l u s t x P L X H; [simpl; auto|].
  apply IH; auto.
  - eapply gprod_on_fst; eauto. intros f Gf. apply gb_assume; auto. simpl. apply H. left; reflexivity.
  - unfold glin, l_set. apply gs_set_same; auto with fb.
    apply cs_meet_sound; [apply glin_at; exact L|].
    pose proof (glin_at _ _ _ _ v L) as Gv. rewrite (H v (or_introl eq_refl)) in Gv.
    rewrite X. exact Gv.
  - intros w I. apply H. right. exact I.
Qed.

Theorem fb_assume_bool_sound x neg st s t :
  gfb st s t -> t x = negb neg -> gfb (fb_assume_bool x neg st) s t.
Proof.
  intros G E. pose proof G as (P & L & B & U). unfold fb_assume_bool.
  rewrite (fb_not_bot _ _ _ G).
  assert (P1 : gprod (canon (p_on_fst (fun f => be_assume f x neg) (f_prod st))) s t).
  { apply gprod_canon_intro. eapply gprod_on_fst; eauto. intros f Gf. apply gb_assume; auto. }
  set (p := canon (p_on_fst (fun f => be_assume f x neg) (f_prod st))) in *.
  rewrite (gprod_not_bot _ _ _ P1).
  destruct neg.
  { split; [|split; [|split]]; auto. }
  simpl in E.
  assert (HV : forall v, In v (dv_elems (bb_at (f_bools st) x)) -> t v = true).
  { intros v I. pose proof (gbools_at _ _ x B) as Gx.
    destruct (bb_at (f_bools st) x) as [|l]; simpl in *; [tauto|]. apply Gx; auto. }
  pose proof (assume_fold_sound _ p (f_lin st) (f_unch st) s t x P1 L E HV) as AF. cbv zeta in AF.
  destruct (fold_left _ (dv_elems (bb_at (f_bools st) x)) (p, f_lin st)) as [p1 l1].
  cbn [fst snd] in AF. destruct AF as [P2 L2].
  split; [|split; [|split]]; cbn [f_prod f_lin f_bools f_unch]; auto.
  apply bwd_reduction_sound; auto.
Qed.

(* select_bool *)
Lemma be_assume_bot f t x neg : gbenv f t -> s_is_bot (be_assume f x neg) = true -> t x = neg.
Proof.
  intros G. pose proof (gb_at _ _ x G) as Gx. unfold be_assume, be_set.
  destruct f as [|m]; simpl in *; [tauto|].
  destruct (sget bval bops m x), neg, (t x); simpl in *; try discriminate; try tauto; auto.
Qed.
Lemma gb_select f t lhs cond b1 b2 :
  gbenv f t -> gbenv (be_select f lhs cond b1 b2) (bupd t lhs (if t cond then t b1 else t b2)).
Proof.
  intros G. unfold be_select. rewrite (gbenv_not_bot _ _ G).
  destruct (N.eqb_spec b1 b2) as [->|N].
  { unfold be_assign_var. apply gb_set; auto. destruct (t cond); apply gb_at; exact G. }
  destruct (s_is_bot (be_assume f cond false)) eqn:A1.
  { rewrite (be_assume_bot _ _ _ _ G A1). apply gb_set; auto. apply gb_at; exact G. }
  destruct (s_is_bot (be_assume f cond true)) eqn:A2.
  { rewrite (be_assume_bot _ _ _ _ G A2). apply gb_set; auto. apply gb_at; exact G. }
  apply gb_set; auto. apply bv_join_sound. destruct (t cond); [left|right]; apply gb_at; exact G.
Qed.

Lemma bv_true_sound v b : bv_is_true v = true -> gbv v b -> b = true.
Proof. destruct v; simpl; try discriminate; auto. Qed.
Lemma bv_false_sound v b : bv_is_false v = true -> gbv v b -> b = false.
Proof. destruct v; simpl; try discriminate; auto. Qed.

Theorem fb_select_bool_sound lhs cond b1 b2 st s t :
  gfb st s t ->
  gfb (fb_select_bool lhs cond b1 b2 st) s (bupd t lhs (if t cond then t b1 else t b2)).
Proof.
  intros G. pose proof G as (P & L & B & U). unfold fb_select_bool.
  rewrite (fb_not_bot _ _ _ G).
  destruct (N.eqb_spec b1 b2) as [->|NE].
  { replace (if t cond then t b2 else t b2) with (t b2) by (destruct (t cond); reflexivity).
    apply (fb_assign_bool_var_sound lhs b2 false st s t G). }
  rewrite (gprod_canon _ _ _ P).
  pose proof (gprod_fst _ _ _ P) as GF.
  pose proof (gb_at _ _ cond GF) as Gc. pose proof (gb_at _ _ b1 GF) as G1. pose proof (gb_at _ _ b2 GF) as G2.
  set (val := if t cond then t b1 else t b2). set (t' := bupd t lhs val).
  assert (Et : forall k, k <> lhs -> t' k = t k) by (intros k N; apply bupd_other; exact N).
  assert (PP : gprod (canon (p_on_fst (fun f => be_select f lhs cond b1 b2) (f_prod st))) s t').
  { apply gprod_canon_intro. eapply gprod_on_fst; eauto. intros f Gf. apply gb_select. exact Gf. }
  destruct (bv_is_true (be_at (p_fst (f_prod st)) cond)) eqn:CT.
  { assert (V : val = t b1) by (unfold val; rewrite (bv_true_sound _ _ CT Gc); reflexivity).
    split; [|split; [|split]]; cbn [f_prod f_lin f_bools f_unch]; auto.
    - unfold t'. rewrite V. apply glin_set; auto. apply glin_at. exact L.
    - apply (gbools_set_update _ t); auto. unfold t'. rewrite bupd_same, V. apply gvs_copy. exact B. }
  destruct (bv_is_false (be_at (p_fst (f_prod st)) cond)) eqn:CF.
  { assert (V : val = t b2) by (unfold val; rewrite (bv_false_sound _ _ CF Gc); reflexivity).
    split; [|split; [|split]]; cbn [f_prod f_lin f_bools f_unch]; auto.
    - unfold t'. rewrite V. apply glin_set; auto. apply glin_at. exact L.
    - apply (gbools_set_update _ t); auto. unfold t'. rewrite bupd_same, V. apply gvs_copy. exact B. }
  split; [|split; [|split]]; cbn [f_prod f_lin f_bools f_unch]; auto.
  - destruct (bv_is_true (be_at (p_fst (f_prod st)) b1) && bv_is_false (be_at (p_fst (f_prod st)) b2)) eqn:C1.
    { apply andb_true_iff in C1. destruct C1 as [C1 C2].
      assert (V : val = t cond).
      { unfold val. rewrite (bv_true_sound _ _ C1 G1), (bv_false_sound _ _ C2 G2). destruct (t cond); reflexivity. }
      unfold t'. rewrite V. apply (glin_propagate _ _ _ _ lhs cond false L). }
    destruct (bv_is_false (be_at (p_fst (f_prod st)) b1) && bv_is_true (be_at (p_fst (f_prod st)) b2)) eqn:C2.
    { apply andb_true_iff in C2. destruct C2 as [C2 C3].
      assert (V : val = negb (t cond)).
      { unfold val. rewrite (bv_false_sound _ _ C2 G1), (bv_true_sound _ _ C3 G2). destruct (t cond); reflexivity. }
      unfold t'. rewrite V. apply (glin_propagate _ _ _ _ lhs cond true L). }
    apply glin_forget. exact L.
  - destruct (bv_is_false (be_at (p_fst (f_prod st)) b2)) eqn:C2.
    { pose proof (bv_false_sound _ _ C2 G2) as F2.
      apply (gbools_set_update _ t); auto. unfold t'. rewrite bupd_same. unfold val. rewrite F2.
      repeat apply gvs_meet2.
      - eapply gvs_weaken; [apply gbools_at; exact B|]. destruct (t cond); intros X; try discriminate; auto.
      - eapply gvs_weaken; [apply gbools_at; exact B|]. destruct (t cond); intros X; try discriminate; auto.
      - apply gvs_single. destruct (t cond); intros X; try discriminate; auto.
      - apply gvs_single. destruct (t cond); intros X; try discriminate; auto. }
    destruct (bv_is_false (be_at (p_fst (f_prod st)) b1)) eqn:C1.
    { pose proof (bv_false_sound _ _ C1 G1) as F1.
      apply (gbools_set_update _ t); auto. unfold t'. rewrite bupd_same. unfold val. rewrite F1.
      apply gvs_meet2.
      - eapply gvs_weaken; [apply gbools_at; exact B|]. destruct (t cond); intros X; try discriminate; auto.
      - apply gvs_single. destruct (t cond); intros X; try discriminate; auto. }
    apply (gbools_forget_update _ t); auto.
Qed.

(* casts.  The three well-typed shapes: integer to integer, integer to Boolean (trunc: zero is
   false, non-zero is true), Boolean to integer (zext / sext: true is 1) *)
Lemma d_cast_from_bool_sound op dst src w e s v :
  genv e s -> 0 <= v <= 1 -> genv (d_cast op dst src false true w e) (upd s dst v).
Proof.
  intros G V. unfold d_cast. cbn [orb negb].
  assert (G1 : genv (e_forget e dst) (upd s dst v)) by (apply e_forget_sound; auto).
  destruct op; auto.
  apply d_add_sound.
  - intros c [<-|[]]. split; [apply wf_single; lia|].
    unfold sat, eval_le; cbn [lc_kind lc_exp eval_terms le_terms le_cst]. rewrite upd_same. lia.
  - apply d_add_sound; auto.
    intros c [<-|[]]. split; [apply wf_single; lia|].
    unfold sat, eval_le; cbn [lc_kind lc_exp eval_terms le_terms le_cst]. rewrite upd_same. lia.
Qed.

Theorem fb_cast_int_sound op dst src w st s t v :
  gfb st s t -> v = s src -> cast_pre op false w v ->
  gfb (fb_cast op dst src false false w st) (upd s dst v) t.
Proof.
  intros G V C.
  assert (H : gfb (mark_changed dst (set_prod st (canon (p_on_snd (d_cast op dst src false false w) (f_prod st)))))
                  (upd s dst v) t).
  { apply (fb_num_sound st s _ t dst (d_cast op dst src false false w) G).
    - intros k N. apply upd_other. exact N.
    - intros e Ge. apply d_cast_sound; auto. }
  unfold fb_cast. destruct op; simpl; exact H.
Qed.
Theorem fb_cast_to_bool_sound dst src w st s t :
  gfb st s t -> gfb (fb_cast CTrunc dst src true false w st) s (bupd t dst (negb (s src =? 0))).
Proof.
  intros G. pose proof G as (P & L & B & U). unfold fb_cast. cbn [negb andb].
  rewrite (gprod_canon _ _ _ P).
  pose proof (e_at_sound _ _ src (gprod_snd _ _ _ P)) as Gi.
  set (i := e_at (p_snd (f_prod st)) src) in *.
  set (val := negb (s src =? 0)). set (t' := bupd t dst val).
  split; [|split; [|split]]; cbn [f_prod f_lin f_bools f_unch]; auto.
  - eapply gprod_on_fst; eauto. intros f Gf. apply gb_set; auto.
    destruct (ieq i (iconst 0)) eqn:E1.
    { apply (ieq_sound _ _ E1) in Gi. apply gamma_iconst in Gi. unfold val. rewrite Gi. reflexivity. }
    destruct (ileq (iconst 0) i) eqn:E2; simpl; [exact I|].
    unfold val. destruct (Z.eqb_spec (s src) 0) as [Z|Z]; simpl; auto.
    exfalso. rewrite (ileq_complete (iconst 0) i) in E2; [discriminate|apply wf_iconst|].
    intros x Gx. apply gamma_iconst in Gx. subst x. rewrite <- Z. exact Gi.
  - apply glin_forget. exact L.
  - apply (gbools_forget_update _ t); auto. intros k N. apply bupd_other. exact N.
Qed.
Theorem fb_cast_from_bool_sound op dst src w st s t :
  op <> CTrunc -> gfb st s t ->
  gfb (fb_cast op dst src false true w st) (upd s dst (b2z (t src))) t.
Proof.
  intros NT G. pose proof G as (P & L & B & U).
  assert (H : gfb (mark_changed dst (set_prod st
                (let p0 := canon (f_prod st) in
                 let bv := be_at (p_fst p0) src in
                 if bv_is_true bv then p_on_snd (d_assign dst (mkLE [] 1)) p0
                 else if bv_is_false bv then p_on_snd (d_assign dst (mkLE [] 0)) p0
                 else p_on_snd (d_cast op dst src false true w) p0))) (upd s dst (b2z (t src))) t).
  { cbv zeta. rewrite (gprod_canon _ _ _ P).
    pose proof (gb_at _ _ src (gprod_fst _ _ _ P)) as Gb.
    assert (E : forall k, k <> dst -> upd s dst (b2z (t src)) k = s k) by (intros k N; apply upd_other; exact N).
    destruct (bv_is_true (be_at (p_fst (f_prod st)) src)) eqn:CT.
    { apply (fb_num_sound st s _ t dst _ G E). intros e Ge.
      rewrite (bv_true_sound _ _ CT Gb). simpl.
      replace 1 with (eval_le (mkLE [] 1) s) at 2 by reflexivity. apply d_assign_sound. exact Ge. }
    destruct (bv_is_false (be_at (p_fst (f_prod st)) src)) eqn:CF.
    { apply (fb_num_sound st s _ t dst _ G E). intros e Ge.
      rewrite (bv_false_sound _ _ CF Gb). simpl.
      replace 0 with (eval_le (mkLE [] 0) s) at 2 by reflexivity. apply d_assign_sound. exact Ge. }
    apply (fb_num_sound st s _ t dst _ G E). intros e Ge.
    apply d_cast_from_bool_sound; auto. destruct (t src); simpl; lia. }
  unfold fb_cast. destruct op; try congruence; simpl; exact H.
Qed.

(* ------------------------------------------------------------------ forget / project / rename / expand *)

(* a value that is top describes every pair of stores *)
Lemma gbenv_top_any f t : be_is_top f = true -> gbenv f t.
Proof.
  destruct f as [|m]; simpl; [discriminate|]. intros H. apply all_top_gsmap; auto with fb.
Qed.
Lemma genv_top_any e s s' : e_is_top e = true -> genv e s -> genv e s'.
Proof. destruct e as [|m]; simpl; [tauto|]. intros H G. eapply all_top_gmap; eauto. Qed.
Lemma glin_top_any l u s t : l_is_top l = true -> glin l u s t.
Proof.
  destruct l as [|m]; simpl; [discriminate|]. intros H. apply all_top_gsmap; auto with fb.
Qed.
Lemma gbools_top_any b t : bb_is_top b = true -> gbools b t.
Proof.
  destruct b as [|m]; simpl; [discriminate|]. intros H. apply all_top_gsmap; auto with fb.
Qed.
Lemma gfb_top_any st s t s' t' : fb_is_top st = true -> gfb st s t -> gfb st s' t'.
Proof.
  unfold fb_is_top. intros H (P & L & B & U).
  apply andb_true_iff in H. destruct H as [H H3]. apply andb_true_iff in H. destruct H as [H1 H2].
  split; [|split; [|split]]; auto.
  - destruct (f_prod st) as [|f e]; simpl in *; [tauto|].
    apply andb_true_iff in H1. destruct H1 as [T1 T2]. destruct P as [P1 P2]. split.
    + apply gbenv_top_any. exact T1.
    + eapply genv_top_any; eauto.
  - apply glin_top_any. exact H2.
  - apply gbools_top_any. exact H3.
Qed.
Lemma gfb_top s t : gfb fb_top s t.
Proof.
  split; [|split; [|split]]; simpl.
  - split; [intros k; exact I|apply genv_top].
  - intros k c [].
  - intros k y [].
  - discriminate.
Qed.

(* typed frame condition: outside vs nothing changes; a Boolean variable changes only in the
   Boolean store, an integer variable only in the integer store *)
Definition typed_frame (isb : var -> bool) (vs : list var) (s s' : store) (t t' : bstore) : Prop :=
  (forall k, ~ In k vs -> s' k = s k /\ t' k = t k) /\
  (forall k, isb k = true -> s' k = s k) /\ (forall k, isb k = false -> t' k = t k).

Lemma gb_forget_frame f t t' v : gbenv f t -> (forall k, k <> v -> t' k = t k) -> gbenv (be_forget f v) t'.
Proof.
  intros G E. apply (gbenv_ext _ (bupd t v (t' v))).
  - intros k. destruct (N.eq_dec k v) as [->|N]; [rewrite bupd_same|rewrite bupd_other, E by auto]; reflexivity.
  - apply gb_forget. exact G.
Qed.
Lemma ge_forget_frame e s s' v : genv e s -> (forall k, k <> v -> s' k = s k) -> genv (e_forget e v) s'.
Proof.
  intros G E. apply (genv_ext _ (upd s v (s' v))).
  - intros k. destruct (N.eq_dec k v) as [->|N]; [rewrite upd_same|rewrite upd_other, E by auto]; reflexivity.
  - apply e_forget_sound. exact G.
Qed.
Lemma glin_forget_frame l u s t t' x :
  glin l u s t -> (forall k, k <> x -> t' k = t k) -> glin (l_forget l x) u s t'.
Proof.
  intros G E. apply (glin_ext _ _ s s (bupd t x (t' x))); auto.
  - intros k. destruct (N.eq_dec k x) as [->|N]; [rewrite bupd_same|rewrite bupd_other, E by auto]; reflexivity.
  - apply glin_forget. exact G.
Qed.

Theorem fb_havoc_sound isb v st s t s' t' :
  gfb st s t -> typed_frame isb [v] s s' t t' -> gfb (fb_havoc isb v st) s' t'.
Proof.
  intros G (F1 & F2 & F3). pose proof G as (P & L & B & U).
  assert (Es : forall k, k <> v -> s' k = s k) by (intros k N; apply F1; intros [E|[]]; congruence).
  assert (Et : forall k, k <> v -> t' k = t k) by (intros k N; apply F1; intros [E|[]]; congruence).
  assert (PP : gprod (p_on_snd (fun e => e_forget e v) (p_on_fst (fun f => be_forget f v) (f_prod st))) s' t').
  { eapply gprod_on_snd; [eapply gprod_on_fst; [exact P|]|].
    - intros f Gf. apply (gb_forget_frame f t t' v); auto.
    - intros e Ge. apply (ge_forget_frame e s s' v); auto. }
  unfold fb_havoc. destruct (isb v) eqn:T; cbn [f_prod f_lin f_bools f_unch].
  - assert (Es' : forall k, s' k = s k).
    { intros k. destruct (N.eq_dec k v) as [->|N]; auto. }
    split; [|split; [|split]]; cbn [f_prod f_lin f_bools f_unch]; auto.
    + apply (glin_ext _ _ s s' t' t'); auto. apply (glin_forget_frame _ _ s t t' v); auto.
    + apply (gbools_forget_update _ t); auto.
  - assert (Et' : forall k, t' k = t k).
    { intros k. destruct (N.eq_dec k v) as [->|N]; auto. }
    split; [|split; [|split]]; cbn [f_prod f_lin f_bools f_unch]; auto.
    + apply (glin_ext _ _ s' s' t t'); auto. eapply glin_changed_var; eauto.
    + apply (gbools_update (f_bools st) (f_bools st) t t' v); auto.
      * eapply gbools_not_bot; eauto.
      * rewrite Et'. apply gbools_at. exact B.
    + apply vs_rem_not_bot. exact U.
Qed.

(* the memories after forget(vs) *)
Definition forget_mem (isb : var -> bool) (s : fstate) (v : var) : fstate :=
  if isb v then mkF (f_prod s) (l_forget (f_lin s) v) (bb_forget (f_bools s) v) (f_unch s)
  else mark_changed v s.

Lemma forget_mem_fold (isb : var -> bool) (vs : list var) : forall st,
  let st1 := fold_left (forget_mem isb) vs st in
  f_prod st1 = f_prod st /\
  f_lin st1 = fold_left (fun l v => if isb v then s_forget cset l v else l) vs (f_lin st) /\
  f_bools st1 = fold_left (fun b v => if isb v then s_forget vset b v else b) vs (f_bools st) /\
  f_unch st1 = fold_left (fun (u : vset) v => if isb v then u else vs_rem v u) vs (f_unch st).
Proof.
  induction vs as [|v r IH]; cbn [fold_left]; intros st; [simpl; auto|].
  destruct (IH (forget_mem isb st v)) as (H1 & H2 & H3 & H4). cbv zeta.
  rewrite H1, H2, H3, H4. unfold forget_mem. destruct (isb v); simpl; auto.
Qed.

Lemma unch_fold_spec (isb : var -> bool) (vs : list var) : forall (u : vset) c, u <> DVBot ->
  fold_left (fun (u : vset) v => if isb v then u else vs_rem v u) vs u <> DVBot /\
  (all_unchanged (fold_left (fun (u : vset) v => if isb v then u else vs_rem v u) vs u) c = true ->
   all_unchanged u c = true /\ forall v, In v vs -> isb v = false -> ~ In v (lc_vars c)).
Proof.
  induction vs as [|v r IH]; cbn [fold_left]; intros u c NU.
  - split; [exact NU|]. intros H. split; [exact H|]. intros v [].
  - destruct (isb v) eqn:T.
    + destruct (IH u c NU) as [H1 H2]. split; auto. intros A. destruct (H2 A) as [A1 A2]. split; auto.
      intros w [<-|I] F; [congruence|]. apply A2; auto.
    + destruct (IH (vs_rem v u) c (vs_rem_not_bot v u NU)) as [H1 H2]. split; auto.
      intros A. destruct (H2 A) as [A1 A2]. apply au_rem in A1; auto. destruct A1 as [A1 A3].
      split; auto. intros w [<-|I] F; auto.
Qed.

Lemma fold_rem_In (vs : list var) : forall l y,
  In y (dv_elems (fold_left (fun acc v => vs_rem v acc) vs (DVSet l))) -> In y l /\ ~ In y vs.
Proof.
  induction vs as [|v r IH]; cbn [fold_left]; intros l y I; [simpl in I; tauto|].
  unfold vs_rem at 2 in I. simpl in I. apply IH in I. destruct I as [I N].
  apply rem_In in I. destruct I as [I E]. split; auto. intros [<-|J]; auto.
  rewrite N.eqb_refl in E. discriminate.
Qed.
Lemma fold_rem_bot (vs : list var) : fold_left (fun acc v => vs_rem v acc) vs DVBot = DVBot.
Proof. induction vs; simpl; auto. Qed.
Lemma fold_rem_top (vs : list var) : fold_left (fun acc v => vs_rem v acc) vs (@dv_top var) = dv_top.
Proof. induction vs; simpl; auto. Qed.

Theorem fb_forget_sound isb vs st s t s' t' :
  gfb st s t -> typed_frame isb vs s s' t t' -> gfb (fb_forget isb vs st) s' t'.
Proof.
  intros G (F1 & F2 & F3). pose proof G as (P & L & B & U). unfold fb_forget.
  rewrite (fb_not_bot _ _ _ G). cbn [orb].
  destruct (fb_is_top st) eqn:T; [eapply gfb_top_any; eauto|].
  change (fun (s0 : fstate) (v : var) =>
            if isb v then mkF (f_prod s0) (l_forget (f_lin s0) v) (bb_forget (f_bools s0) v) (f_unch s0)
            else mark_changed v s0) with (forget_mem isb).
  set (p := p_on_snd (d_forget vs) (p_on_fst (fun f => be_forget_list f vs) (f_prod st))).
  destruct (forget_mem_fold isb vs (set_prod st p)) as (H1 & H2 & H3 & H4). cbv zeta in *.
  set (st1 := fold_left (forget_mem isb) vs (set_prod st p)) in *.
  cbn [set_prod f_prod f_lin f_bools f_unch] in H1, H2, H3, H4.
  pose proof (glin_not_bot _ _ _ _ L) as NL. pose proof (gbools_not_bot _ _ B) as NBb.
  (* a key that is not a Boolean variable of vs keeps its Boolean value *)
  assert (KT : forall k, existsb (fun v => N.eqb k v && isb v) vs = false -> t' k = t k).
  { intros k E. destruct (in_dec N.eq_dec k vs) as [I|I]; [|apply F1; exact I].
    apply F3. destruct (isb k) eqn:Tk; auto. exfalso.
    assert (X : existsb (fun v => N.eqb k v && isb v) vs = true).
    { apply existsb_exists. exists k. split; auto. rewrite N.eqb_refl, Tk. reflexivity. }
    congruence. }
  split; [|split; [|split]]; cbn [f_prod f_lin f_bools f_unch].
  - rewrite H1. unfold p. eapply gprod_on_snd; [eapply gprod_on_fst; [exact P|]|].
    + intros f Gf. unfold be_forget_list. rewrite (gbenv_not_bot _ _ Gf). cbn [orb].
      destruct (be_is_top f) eqn:Tf; [apply gbenv_top_any; exact Tf|].
      unfold gbenv, be_forget. eapply gs_forget_list; eauto with fb. intros k NI. apply F1. exact NI.
    + intros e Ge. eapply d_forget_sound; eauto. intros k NI. apply F1. exact NI.
  - rewrite H2, H4.
    destruct (s_forget_fold_at cset cops cops_Htop cops_Htt isb vs (f_lin st) 0%N NL) as [NB1 _].
    apply gsenv_intro; auto. intros k.
    destruct (s_forget_fold_at cset cops cops_Htop cops_Htt isb vs (f_lin st) k NL) as [_ AT].
    rewrite AT. destruct (existsb (fun v => N.eqb k v && isb v) vs) eqn:EX; [intros c []|].
    rewrite (KT k EX). eapply gcs_change; [|apply (glin_at _ _ _ _ k L)].
    intros c A. destruct (unch_fold_spec isb vs (f_unch st) c U) as [_ S]. destruct (S A) as [A1 A2].
    split; auto. apply sat_ext. intros w I.
    destruct (in_dec N.eq_dec w vs) as [J|J]; [|apply F1; exact J].
    apply F2. destruct (isb w) eqn:Tw; auto. exfalso. apply (A2 w J Tw I).
  - rewrite H3.
    destruct (s_forget_fold_at vset vops_ vops_Htop vops_Htt isb vs (f_bools st) 0%N NBb) as [NB1 _].
    set (b1 := fold_left (fun b v => if isb v then s_forget vset b v else b) vs (f_bools st)) in *.
    assert (AT : forall k, bb_at (if s_is_bot b1 || bb_is_top b1 then b1
                                  else s_map_vals vset vops_ (fun s0 => fold_left (fun acc v => vs_rem v acc) vs s0) b1) k
                           = fold_left (fun acc v => vs_rem v acc) vs (bb_at b1 k)).
    { intros k. destruct (s_is_bot b1) eqn:Bb; [destruct b1; [congruence|discriminate]|]. cbn [orb].
      destruct (bb_is_top b1) eqn:Tb.
      - unfold bb_at, bb_is_top in *. rewrite s_is_top_at by auto with fb. symmetry. apply fold_rem_top.
      - unfold bb_at. apply s_map_vals_at; auto with fb. apply fold_rem_top. }
    apply gsenv_intro.
    { destruct (s_is_bot b1 || bb_is_top b1); auto. apply s_map_vals_not_bot. exact NB1. }
    intros k. change (gvs t' (bb_at (if s_is_bot b1 || bb_is_top b1 then b1
                                  else s_map_vals vset vops_ (fun s0 => fold_left (fun acc v => vs_rem v acc) vs s0) b1) k) (t' k)).
    rewrite AT.
    destruct (s_forget_fold_at vset vops_ vops_Htop vops_Htt isb vs (f_bools st) k NBb) as [_ AK].
    unfold bb_at. fold b1 in AK. rewrite AK.
    destruct (existsb (fun v => N.eqb k v && isb v) vs) eqn:EX.
    { cbn [vtop vops_]. rewrite fold_rem_top. intros y []. }
    pose proof (gbools_at _ _ k B) as Gk. unfold bb_at in Gk.
    destruct (s_at vset vops_ (f_bools st) k) as [|l]; simpl in Gk; [tauto|].
    destruct (fold_left (fun acc v => vs_rem v acc) vs (DVSet l)) as [|l'] eqn:EF.
    { exfalso. clear - EF. revert l EF. induction vs as [|v r IH]; simpl; intros l EF; [discriminate|].
      eapply IH; eauto. }
    simpl. intros y I X.
    assert (I' : In y (dv_elems (fold_left (fun acc v => vs_rem v acc) vs (DVSet l)))) by (rewrite EF; exact I).
    apply fold_rem_In in I'. destruct I' as [I1 I2].
    destruct (F1 y I2) as [_ Ey]. rewrite Ey. apply Gk; auto. rewrite <- (KT k EX). exact X.
  - rewrite H4. apply (unch_fold_spec isb vs (f_unch st) lc_true U).
Qed.

Theorem fb_project_sound vs st s t s' t' :
  gfb st s t -> (forall k, In k vs -> s' k = s k /\ t' k = t k) -> gfb (fb_project vs st) s' t'.
Proof.
  intros G F. pose proof G as (P & L & B & U). unfold fb_project.
  rewrite (fb_not_bot _ _ _ G). cbn [orb].
  destruct (fb_is_top st) eqn:T; [eapply gfb_top_any; eauto|].
  destruct vs as [|v0 r]; [apply gfb_top|].
  split; [|split; [|split]]; cbn [f_prod f_lin f_bools f_unch].
  - eapply gprod_on_snd; [eapply gprod_on_fst; [exact P|]|].
    + intros f Gf. unfold gbenv, be_project. eapply gs_project; eauto with fb. intros k I. apply F. exact I.
    + intros e Ge. eapply e_project_sound; eauto. intros k I. apply F. exact I.
  - intros k c [].
  - intros k y [].
  - discriminate.
Qed.

Theorem fb_normalize_sound st s t : gfb st s t -> gfb (fb_normalize st) s t.
Proof.
  intros (P & L & B & U). split; [|split; [|split]]; auto. cbn [fb_normalize set_prod f_prod].
  apply gprod_canon_intro. exact P.
Qed.

(* expand *)
Lemma genv_set_top e s nx v z : genv e s -> gamma v z -> is_top v = true -> genv (e_set e nx v) s.
Proof.
  intros G Gv T. apply e_set_same_sound; auto. eapply is_top_gamma_all; eauto.
Qed.

Theorem fb_expand_bool_sound isb x nx st s t t2 :
  isb x = true -> is_top (e_at (p_snd (f_prod st)) x) = true ->
  gfb st s t -> gfb st s t2 -> (forall k, k <> x -> t2 k = t k) ->
  gfb (fb_expand isb x nx st) s (bupd t nx (t2 x)).
Proof.
  intros T TX G G2 E. pose proof G as (P & L & B & U). pose proof G2 as (P2 & L2 & B2 & _).
  unfold fb_expand. rewrite (fb_not_bot _ _ _ G). cbn [orb].
  destruct (fb_is_top st) eqn:Tp; [eapply gfb_top_any; eauto|].
  rewrite T. set (t' := bupd t nx (t2 x)).
  assert (P1 : gprod (p_on_fst (fun f => be_expand f x nx) (f_prod st)) s t').
  { apply (gprod_on_fst' _ _ s t); auto.
    pose proof (gprod_fst _ _ _ P) as Gf. pose proof (gprod_fst _ _ _ P2) as Gf2.
    unfold be_expand. rewrite (gbenv_not_bot _ _ Gf). cbn [orb].
    destruct (be_is_top (p_fst (f_prod st))) eqn:Tf; [apply gbenv_top_any; exact Tf|].
    apply gb_set; auto. apply gb_at. exact Gf2. }
  split; [|split; [|split]]; cbn [f_prod f_lin f_bools f_unch]; auto.
  - apply (gprod_on_snd' _ _ s s); auto.
    rewrite (p_snd_on_fst _ _ _ _ P).
    pose proof (gprod_snd _ _ _ P) as Ge.
    unfold d_expand. rewrite (genv_not_bot _ _ Ge). cbn [orb].
    destruct (e_is_top (p_snd (f_prod st))); auto.
    eapply genv_set_top; eauto. apply e_at_sound. exact Ge.
  - apply glin_set; auto. apply glin_at. exact L2.
  - apply (gbools_forget_update _ t); auto. intros k N. apply bupd_other. exact N.
Qed.

Theorem fb_expand_int_sound isb x nx st s t s2 :
  isb x = false -> be_at (p_fst (f_prod st)) x = BvTop ->
  gfb st s t -> gfb st s2 t -> (forall k, k <> x -> s2 k = s k) ->
  gfb (fb_expand isb x nx st) (upd s nx (s2 x)) t.
Proof.
  intros T TX G G2 E. pose proof G as (P & L & B & U). pose proof G2 as (P2 & L2 & B2 & _).
  unfold fb_expand. rewrite (fb_not_bot _ _ _ G). cbn [orb].
  destruct (fb_is_top st) eqn:Tp; [eapply gfb_top_any; eauto|].
  rewrite T. set (s' := upd s nx (s2 x)).
  assert (P1 : gprod (p_on_fst (fun f => be_expand f x nx) (f_prod st)) s t).
  { apply (gprod_on_fst' _ _ s t); auto.
    pose proof (gprod_fst _ _ _ P) as Gf.
    unfold be_expand. rewrite (gbenv_not_bot _ _ Gf). cbn [orb].
    destruct (be_is_top (p_fst (f_prod st))) eqn:Tf; auto.
    rewrite TX. apply gb_set_same; auto. exact I. }
  assert (PP : gprod (p_on_snd (d_expand x nx) (p_on_fst (fun f => be_expand f x nx) (f_prod st))) s' t).
  { apply (gprod_on_snd' _ _ s); auto. rewrite (p_snd_on_fst _ _ _ _ P).
    apply d_expand_sound; [eapply gprod_snd; eauto|].
    exists s2. repeat split; auto. eapply gprod_snd; eauto. }
  assert (L0 : glin (f_lin st) (vs_rem nx (f_unch st)) s' t).
  { apply (glin_changed_var _ _ s s' t nx); auto. intros v N. apply upd_other. exact N. }
  assert (U0 : vs_rem nx (f_unch st) <> DVBot) by (apply vs_rem_not_bot; exact U).
  destruct (vs_at x (f_unch st)).
  - pose proof (mark_unchanged_sound nx _ _ _ _ L0 U0) as [ML MU].
    destruct (mark_unchanged nx (f_lin st, vs_rem nx (f_unch st))) as [l u]. cbn [fst snd] in *.
    split; [|split; [|split]]; cbn [f_prod f_lin f_bools f_unch]; auto.
  - split; [|split; [|split]]; cbn [f_prod f_lin f_bools f_unch]; auto.
Qed.

(* rename *)
Lemma rename_store_frame ps : forall s hv w,
  (forall p, In p ps -> w <> fst p /\ w <> snd p) -> rename_store s ps hv w = s w.
Proof.
  induction ps as [|[k nk] r IH]; cbn [rename_store]; intros s hv w H; auto.
  assert (H' : forall p, In p r -> w <> fst p /\ w <> snd p) by (intros p I; apply H; right; exact I).
  destruct (H (k, nk) (or_introl eq_refl)) as [N1 N2]. cbn [fst snd] in *.
  destruct (N.eqb k nk); [apply IH; exact H'|].
  rewrite IH by exact H'. rewrite !upd_other by auto. reflexivity.
Qed.
Lemma in_combine_fst {A B} (l : list A) (l' : list B) p : In p (combine l l') -> In (fst p) l.
Proof. destruct p. apply in_combine_l. Qed.
Lemma in_combine_snd {A B} (l : list A) (l' : list B) p : In p (combine l l') -> In (snd p) l'.
Proof. destruct p. apply in_combine_r. Qed.
(* rename of variables of both types in one call *)
Lemma rename_pairs_filter (P : var * var -> bool) ps : forall m,
  (forall p, In p ps -> P p = false -> is_top (get m (fst p)) = true) ->
  (forall p q, In p ps -> In q ps -> P p = false -> P q = true -> fst p <> snd q) ->
  rename_pairs m ps = rename_pairs m (filter P ps).
Proof.
  induction ps as [|[k nk] r IH]; cbn [rename_pairs filter]; intros m H1 H2; auto.
  assert (H1' : forall m', (forall p, In p r -> P p = false -> is_top (get m' (fst p)) = true) ->
                rename_pairs m' r = rename_pairs m' (filter P r)).
  { intros m' Hm. apply IH; auto. intros p q Ip Iq. apply H2; right; auto. }
  destruct (P (k, nk)) eqn:Pk; cbn [rename_pairs].
  - destruct (N.eqb k nk); [apply H1'; intros p I; apply H1; right; auto|].
    destruct (is_top (get m k)); [apply H1'; intros p I; apply H1; right; auto|].
    apply H1'. intros p I Pp.
    assert (N : fst p <> nk) by (apply (H2 p (k, nk)); [right; auto|left; auto|auto|auto]).
    destruct (N.eq_dec (fst p) k) as [->|N1]; [rewrite get_remove_same; reflexivity|].
    rewrite get_remove_other by auto. cbn [get].
    destruct (N.eqb_spec nk (fst p)); [congruence|]. rewrite get_remove_other by auto.
    apply H1; [right; auto|auto].
  - pose proof (H1 (k, nk) (or_introl eq_refl) Pk) as T. cbn [fst] in T. rewrite T.
    destruct (N.eqb k nk); apply H1'; intros p I; apply H1; right; auto.
Qed.
Lemma combine_filter (isb : var -> bool) : forall from to : list var,
  length from = length to -> (forall p, In p (combine from to) -> isb (fst p) = isb (snd p)) ->
  combine (filter isb from) (filter isb to) = filter (fun p => isb (fst p)) (combine from to).
Proof.
  induction from as [|f fr IH]; intros [|t tr] L H; simpl in *; try discriminate; auto.
  pose proof (H (f, t) (or_introl eq_refl)) as E. simpl in E. rewrite <- E.
  destruct (isb f); simpl; [f_equal|]; apply IH; auto.
Qed.
Lemma NoDup_map_filter {A B} (g : A -> B) (P : A -> bool) l : NoDup (map g l) -> NoDup (map g (filter P l)).
Proof.
  induction l as [|h r IH]; simpl; intros ND; auto. inversion ND as [|? ? NI ND']; subst.
  destruct (P h); simpl; auto. constructor; auto.
  intros I. apply NI. apply in_map_iff in I. destruct I as (x & E & I). apply filter_In in I.
  apply in_map_iff. exists x. tauto.
Qed.

Definition int_pairs (isb : var -> bool) (from to : list var) : list (var * var) :=
  filter (fun p => negb (isb (fst p))) (combine from to).
Definition bool_pairs (isb : var -> bool) (from to : list var) : list (var * var) :=
  filter (fun p => isb (fst p)) (combine from to).

Theorem fb_rename_sound (isb : var -> bool) (from to : list var) st s t hv hb :
  gfb st s t -> NoDup to -> length from = length to ->
  (forall p, In p (combine from to) -> isb (fst p) = isb (snd p)) ->
  (forall k, In k to -> be_at (p_fst (f_prod st)) k = BvTop /\
                        is_top (e_at (p_snd (f_prod st)) k) = true /\
                        dv_is_top (l_at (f_lin st) k) = true) ->
  (forall k, In k from -> if isb k then is_top (e_at (p_snd (f_prod st)) k) = true
                          else be_at (p_fst (f_prod st)) k = BvTop) ->
  gfb (fb_rename isb from to st) (rename_store s (int_pairs isb from to) hv)
      (grename bool t (bool_pairs isb from to) hb).
Proof.
  intros G ND LE TC FR WT. pose proof G as (P & L & B & U). unfold fb_rename.
  rewrite (fb_not_bot _ _ _ G). cbn [orb].
  destruct (fb_is_top st) eqn:Tp; [eapply gfb_top_any; eauto|].
  set (ps := combine from to).
  set (s' := rename_store s (int_pairs isb from to) hv).
  set (t' := grename bool t (bool_pairs isb from to) hb).
  pose proof (snd_combine from to LE) as SC.
  assert (NDs : NoDup (map snd ps)) by (unfold ps; rewrite SC; exact ND).
  assert (TOP : forall p, In p ps -> In (snd p) to) by (intros p I; eapply in_combine_snd; eauto).
  assert (FRM : forall p, In p ps -> In (fst p) from) by (intros p I; eapply in_combine_fst; eauto).
  (* pairs of the other type are disjoint from the targets *)
  assert (DISJ : forall (b : bool) p q, In p ps -> In q ps -> isb (fst p) = b -> isb (fst q) = negb b -> fst p <> snd q).
  { intros b p q Ip Iq E1 E2 EQ. rewrite (TC q Iq) in E2. rewrite EQ in E1. rewrite E1 in E2.
    destruct b; discriminate. }
  assert (P1 : gprod (p_on_fst (fun f => be_rename f from to) (f_prod st)) s t').
  { apply (gprod_on_fst' _ _ s t); auto. pose proof (gprod_fst _ _ _ P) as Gf.
    unfold be_rename, s_rename. destruct (p_fst (f_prod st)) as [|m] eqn:Ef; [simpl in Gf; tauto|].
    destruct (forallb _ _) eqn:AT; [apply gbenv_top_any; exact AT|].
    fold ps. rewrite (srename_pairs_filter bval bops bops_Htop bops_Htt (fun p => isb (fst p)) ps m).
    - unfold t', bool_pairs. fold ps. apply srename_pairs_sound; auto with fb.
      + apply NoDup_map_filter. exact NDs.
      + intros p I. apply filter_In in I. destruct I as [I _].
        destruct (FR _ (TOP p I)) as [F1 _]. unfold be_at in F1. simpl in F1. rewrite F1. reflexivity.
    - intros p I Pp. pose proof (WT _ (FRM p I)) as W. rewrite Pp in W.
      unfold be_at in W. simpl in W. rewrite W. reflexivity.
    - intros p q Ip Iq Pp Pq. apply (DISJ false p q); auto. }
  split; [|split; [|split]]; cbn [f_prod f_lin f_bools f_unch].
  - apply (gprod_on_snd' _ _ s); auto. rewrite (p_snd_on_fst _ _ _ _ P).
    pose proof (gprod_snd _ _ _ P) as Ge.
    unfold e_rename. destruct (p_snd (f_prod st)) as [|m] eqn:Ee; [simpl in Ge; tauto|].
    destruct (forallb _ _) eqn:AT; [simpl; eapply all_top_gmap; eauto|].
    fold ps. rewrite (rename_pairs_filter (fun p => negb (isb (fst p))) ps m).
    + simpl. unfold s', int_pairs. fold ps. apply rename_pairs_sound; auto.
      * apply NoDup_map_filter. exact NDs.
      * intros p I. apply filter_In in I. destruct I as [I _].
        destruct (FR _ (TOP p I)) as (_ & F2 & _). simpl in F2. exact F2.
    + intros p I Pp. apply negb_false_iff in Pp. pose proof (WT _ (FRM p I)) as W. rewrite Pp in W.
      simpl in W. exact W.
    + intros p q Ip Iq Pp Pq. apply negb_false_iff in Pp. apply negb_true_iff in Pq.
      apply (DISJ true p q); auto.
  - assert (GL' : glin (s_rename cset cops (f_lin st) (filter isb from) (filter isb to)) (f_unch st) s t').
    { unfold s_rename. destruct (f_lin st) as [|m] eqn:El; [simpl in L; tauto|].
      destruct (forallb _ _) eqn:AT; [apply glin_top_any; exact AT|].
      rewrite (combine_filter isb from to LE TC). fold ps.
      unfold glin, t', bool_pairs. fold ps. simpl. apply srename_pairs_sound; auto with fb.
      - apply NoDup_map_filter. exact NDs.
      - intros p I. apply filter_In in I. destruct I as [I _].
        destruct (FR _ (TOP p I)) as (_ & _ & F3). unfold l_at in F3. simpl in F3. exact F3. }
    eapply glin_change; [|exact GL']. intros c A.
    destruct (unch_fold_spec isb (from ++ to) (f_unch st) c U) as [_ S]. destruct (S A) as [A1 A2].
    split; auto. apply sat_ext. intros w I. apply rename_store_frame.
    intros p J. unfold int_pairs in J. apply filter_In in J. destruct J as [J Pp].
    apply negb_true_iff in Pp. fold ps in J. split; intros ->.
    + apply (A2 (fst p)); auto. apply in_or_app; left. apply FRM. exact J.
    + apply (A2 (snd p)); auto; [apply in_or_app; right; apply TOP; exact J|].
      rewrite <- (TC p J). exact Pp.
  - intros k y [].
  - apply (unch_fold_spec isb (from ++ to) (f_unch st) lc_true U).
Qed.

(* ------------------------------------------------------------------ histories *)

Definition fcset := store -> bstore -> Prop.

Definition fcget (cs : list fcset) (r : reg) : fcset := nth r cs (fun _ _ => True).
Fixpoint fcsetr (cs : list fcset) (r : reg) (v : fcset) : list fcset :=
  match cs, r with
  | [], _ => []
  | _ :: t, O => v :: t
  | h :: t, S r' => h :: fcsetr t r' v
  end.

(* the concrete operation corresponding to each abstract one; [isb] gives the type of the
   variables: forgetting / renaming / expanding a Boolean variable acts on the Boolean store,
   an integer variable on the integer store *)
Definition fcstep (isb : var -> bool) (cs : list fcset) (o : fhop) : list fcset :=
  match o with
  | FTop r => fcsetr cs r (fun _ _ => True)
  | FBot r => fcsetr cs r (fun _ _ => False)
  | FCopy r s0 => fcsetr cs r (fcget cs s0)
  | FAssign r x e =>
    fcsetr cs r (fun s' t => exists s, fcget cs r s t /\ s' = upd s x (eval_le e s))
  | FWeakAssign r x e =>
    fcsetr cs r (fun s' t => exists s, fcget cs r s t /\ (s' = s \/ s' = upd s x (eval_le e s)))
  | FArith r op x y z =>
    fcsetr cs r (fun s' t => exists s v, fcget cs r s t /\
                   arith_sem op (s y) (operand_val z s) = Some v /\ s' = upd s x v)
  | FBit r op x y z =>
    fcsetr cs r (fun s' t => exists s v, fcget cs r s t /\
                   bit_sem op (s y) (operand_val z s) = Some v /\ s' = upd s x v)
  | FCast r op d sv db sb w =>
    if db then
      (* integer to Boolean: zero is false, non-zero is true *)
      fcsetr cs r (fun s t' => exists t, fcget cs r s t /\ t' = bupd t d (negb (s sv =? 0)))
    else if sb then
      (* Boolean to integer: true is 1 *)
      fcsetr cs r (fun s' t => exists s, fcget cs r s t /\ s' = upd s d (b2z (t sv)))
    else
      fcsetr cs r (fun s' t => exists s v, fcget cs r s t /\ v = s sv /\ cast_pre op false w v /\
                     s' = upd s d v)
  | FAssume r cl => fcsetr cs r (fun s t => fcget cs r s t /\ forall c, In c cl -> sat c s)
  | FSelect r l c e1 e2 =>
    fcsetr cs r (fun s' t => exists s, fcget cs r s t /\
                   s' = upd s l (if satb c s then eval_le e1 s else eval_le e2 s))
  | FForget r vs =>
    fcsetr cs r (fun s' t' => exists s t, fcget cs r s t /\ typed_frame isb vs s s' t t')
  | FHavoc r x =>
    fcsetr cs r (fun s' t' => exists s t, fcget cs r s t /\ typed_frame isb [x] s s' t t')
  | FProject r vs =>
    fcsetr cs r (fun s' t' => exists s t, fcget cs r s t /\
                   forall k, In k vs -> s' k = s k /\ t' k = t k)
  | FRename r f to =>
    fcsetr cs r (fun s' t' => exists s t hv hb, fcget cs r s t /\
                   s' = rename_store s (int_pairs isb f to) hv /\
                   t' = grename bool t (bool_pairs isb f to) hb)
  | FExpand r x nx =>
    if isb x then
      fcsetr cs r (fun s t' => exists t t2, fcget cs r s t /\ fcget cs r s t2 /\
                     (forall k, k <> x -> t2 k = t k) /\ t' = bupd t nx (t2 x))
    else
      fcsetr cs r (fun s' t => exists s s2, fcget cs r s t /\ fcget cs r s2 t /\
                     (forall k, k <> x -> s2 k = s k) /\ s' = upd s nx (s2 x))
  | FJoin r a b | FWiden r a b | FWidenThr r a b _ =>
    fcsetr cs r (fun s t => fcget cs a s t \/ fcget cs b s t)
  | FMeet r a b | FNarrow r a b =>
    fcsetr cs r (fun s t => fcget cs a s t /\ fcget cs b s t)
  | FNormalize r => cs
  | FBAssign r b c =>
    fcsetr cs r (fun s t' => exists t, fcget cs r s t /\ t' = bupd t b (satb c s))
  | FBWAssign r b c =>
    fcsetr cs r (fun s t' => exists t, fcget cs r s t /\ (t' = t \/ t' = bupd t b (satb c s)))
  | FBCopy r b b1 neg =>
    fcsetr cs r (fun s t' => exists t, fcget cs r s t /\
                   t' = bupd t b (if neg then negb (t b1) else t b1))
  | FBWCopy r b b1 neg =>
    fcsetr cs r (fun s t' => exists t, fcget cs r s t /\
                   (t' = t \/ t' = bupd t b (if neg then negb (t b1) else t b1)))
  | FBBin r op b b1 b2 =>
    fcsetr cs r (fun s t' => exists t, fcget cs r s t /\ t' = bupd t b (bool_sem op (t b1) (t b2)))
  | FBAssume r b neg => fcsetr cs r (fun s t => fcget cs r s t /\ t b = negb neg)
  | FBSelect r b bc b1 b2 =>
    fcsetr cs r (fun s t' => exists t, fcget cs r s t /\
                   t' = bupd t b (if t bc then t b1 else t b2))
  | FProbe r a b neg => fcsetr cs r (fun s t => fcget cs a s t /\ t b = negb neg)
  end.

(* side conditions under which an operation is in the modelled fragment: constraints in
   canonical form; casts between an integer and a Boolean in the direction the code
   handles; rename within its precondition (new names distinct and unbound, each of the type
   of the variable it replaces); expand / rename of variables that the component of the
   other type does not bind (i.e. well-typed use) *)
Definition fhop_ok (isb : var -> bool) (rs : list fstate) (o : fhop) : Prop :=
  match o with
  | FAssume _ cl => forall c, In c cl -> wf_lc c
  | FSelect _ _ c _ _ => wf_lc c
  | FBAssign _ _ c | FBWAssign _ _ c => wf_lc c
  | FCast _ op _ _ db sb _ =>
    (db = false /\ sb = false) \/ (db = true /\ sb = false /\ op = CTrunc) \/
    (db = false /\ sb = true /\ op <> CTrunc)
  | FRename r f to =>
    let st := frget rs r in
    NoDup to /\ length f = length to /\
    (forall p, In p (combine f to) -> isb (fst p) = isb (snd p)) /\
    (forall k, In k to -> be_at (p_fst (f_prod st)) k = BvTop /\
                          is_top (e_at (p_snd (f_prod st)) k) = true /\
                          dv_is_top (l_at (f_lin st) k) = true) /\
    (forall k, In k f -> if isb k then is_top (e_at (p_snd (f_prod st)) k) = true
                         else be_at (p_fst (f_prod st)) k = BvTop)
  | FExpand r x _ =>
    let st := frget rs r in
    if isb x then is_top (e_at (p_snd (f_prod st)) x) = true
    else be_at (p_fst (f_prod st)) x = BvTop
  | _ => True
  end.

Definition frel (rs : list fstate) (cs : list fcset) : Prop :=
  length rs = length cs /\ forall r s t, fcget cs r s t -> gfb (frget rs r) s t.

Lemma frget_frset rs r v r' : (r < length rs)%nat ->
  frget (frset rs r v) r' = if Nat.eqb r' r then v else frget rs r'.
Proof.
  revert r r'. induction rs as [|h t IH]; simpl; intros r r' L; [lia|].
  destruct r, r'; simpl; auto. apply IH. lia.
Qed.
Lemma frset_oob rs r v : (length rs <= r)%nat -> frset rs r v = rs.
Proof. revert r. induction rs as [|h t IH]; simpl; intros r L; auto. destruct r; [lia|]. f_equal. apply IH. lia. Qed.
Lemma fcget_fcsetr cs r v r' : (r < length cs)%nat ->
  fcget (fcsetr cs r v) r' = if Nat.eqb r' r then v else fcget cs r'.
Proof.
  revert r r'. induction cs as [|h t IH]; simpl; intros r r' L; [lia|].
  destruct r, r'; simpl; auto. apply IH. lia.
Qed.
Lemma fcsetr_oob cs r v : (length cs <= r)%nat -> fcsetr cs r v = cs.
Proof. revert r. induction cs as [|h t IH]; simpl; intros r L; auto. destruct r; [lia|]. f_equal. apply IH. lia. Qed.
Lemma frset_length rs r v : length (frset rs r v) = length rs.
Proof. revert r. induction rs as [|h t IH]; simpl; intros r; auto. destruct r; simpl; auto. Qed.
Lemma fcsetr_length cs r v : length (fcsetr cs r v) = length cs.
Proof. revert r. induction cs as [|h t IH]; simpl; intros r; auto. destruct r; simpl; auto. Qed.

Lemma frel_set rs cs r (a : fstate) (c : fcset) :
  frel rs cs -> (forall s t, c s t -> gfb a s t) -> frel (frset rs r a) (fcsetr cs r c).
Proof.
  intros [L R] H. split. { rewrite frset_length, fcsetr_length; auto. }
  intros r' s t. destruct (Nat.lt_ge_cases r (length rs)) as [I|O].
  - rewrite frget_frset by auto. rewrite fcget_fcsetr by lia.
    destruct (Nat.eqb r' r); auto.
  - rewrite frset_oob by auto. rewrite fcsetr_oob by lia. auto.
Qed.

Theorem fstep_sound isb rs cs o :
  frel rs cs -> fhop_ok isb rs o -> frel (fstep isb rs o) (fcstep isb cs o).
Proof.
  intros R OK. pose proof R as [L RR].
  destruct o; cbn [fstep fcstep]; try (apply frel_set; [exact R|]).
  - intros sa ta _. apply gfb_top.
  - intros sa ta [].
  - intros sa ta C. apply RR; auto.
  - intros sa' ta (sa & C & ->). apply fb_assign_sound; auto.
  - intros sa' ta (sa & C & [->| ->]); apply fb_weak_assign_sound; auto.
  - intros sa' ta (sa & v & C & A & ->). eapply fb_arith_sound; eauto.
  - intros sa' ta (sa & v & C & A & ->). eapply fb_bit_sound; eauto.
  - (* cast *)
    cbn [fhop_ok] in OK. destruct OK as [[-> ->]|[(-> & -> & ->)|(-> & -> & NT)]]; apply frel_set; auto.
    + intros sa' ta (sa & v & C & V & P & ->). apply fb_cast_int_sound; auto.
    + intros sa ta' (ta & C & ->). apply fb_cast_to_bool_sound; auto.
    + intros sa' ta (sa & C & ->). apply fb_cast_from_bool_sound; auto.
  - intros sa ta [C S]. apply fb_add_sound; auto.
  - intros sa' ta (sa & C & ->). apply fb_select_sound; auto.
  - intros sa' ta' (sa & ta & C & F). eapply fb_forget_sound; eauto.
  - intros sa' ta' (sa & ta & C & F). eapply fb_project_sound; eauto.
  - (* rename *)
    cbn [fhop_ok] in OK. destruct OK as (ND & LE & TC & FR & WT).
    intros sa' ta' (sa & ta & hv & hb & C & -> & ->). apply fb_rename_sound; auto.
  - (* expand *)
    cbn [fhop_ok] in OK. destruct (isb x) eqn:TY; apply frel_set; auto.
    + intros sa ta' (ta & t2 & C & C2 & E & ->). apply fb_expand_bool_sound; auto.
    + intros sa' ta (sa & s2 & C & C2 & E & ->). apply fb_expand_int_sound; auto.
  - intros sa' ta' (sa & ta & C & F). eapply fb_havoc_sound; eauto.
  - intros sa ta [C|C]; apply fb_join_sound; auto.
  - intros sa ta [C1 C2]. apply fb_meet_sound; auto.
  - intros sa ta [C|C]; apply fb_widen_sound; auto.
  - intros sa ta [C1 C2]. apply fb_narrow_sound; auto.
  - intros sa ta C. apply fb_widen_thr_sound.
    + intros v. apply thr_prev_le. apply mk_thresholds_wf.
    + intros v. apply thr_next_ge. apply mk_thresholds_wf.
    + destruct C; auto.
  - (* normalize *)
    split. { rewrite frset_length. exact L. }
    intros r' sa ta C. destruct (Nat.lt_ge_cases r (length rs)) as [I|O].
    + rewrite frget_frset by auto. destruct (Nat.eqb_spec r' r) as [->|N]; auto.
      apply fb_normalize_sound. auto.
    + rewrite frset_oob by auto. auto.
  - intros sa ta' (ta & C & ->). apply fb_assign_bool_cst_sound; auto.
  - intros sa ta' (ta & C & [->| ->]); apply fb_weak_assign_bool_cst_sound; auto.
  - intros sa ta' (ta & C & ->). apply fb_assign_bool_var_sound; auto.
  - intros sa ta' (ta & C & [->| ->]); apply fb_weak_assign_bool_var_sound; auto.
  - intros sa ta' (ta & C & ->). apply fb_apply_binary_bool_sound; auto.
  - intros sa ta [C E]. apply fb_assume_bool_sound; auto.
  - intros sa ta' (ta & C & ->). apply fb_select_bool_sound; auto.
  - intros sa ta [C E]. apply fb_assume_bool_sound; auto.
Qed.

Fixpoint fhist_ok (isb : var -> bool) (rs : list fstate) (h : list fhop) : Prop :=
  match h with
  | [] => True
  | o :: r => fhop_ok isb rs o /\ fhist_ok isb (fstep isb rs o) r
  end.

Theorem fhistory_sound isb h : forall rs cs,
  frel rs cs -> fhist_ok isb rs h -> frel (frun isb rs h) (fold_left (fcstep isb) h cs).
Proof.
  induction h as [|o r IH]; simpl; intros rs cs R OK; auto.
  destruct OK as [O1 O2]. apply IH; auto. apply fstep_sound; auto.
Qed.

Lemma frel_top n : frel (repeat fb_top n) (repeat (fun _ _ => True) n).
Proof.
  split. { rewrite !repeat_length; auto. }
  intros r s t _. unfold frget.
  destruct (nth_in_or_default r (repeat fb_top n) fb_top) as [I|E].
  - apply repeat_spec in I. rewrite I. apply gfb_top.
  - rewrite E. apply gfb_top.
Qed.

(* ------------------------------------------------------------------ the representation invariant
   fb_inv holds for every value built by a history, hence the inclusion test is sound on
   those values *)

Definition inv_lu (l : lenv) (u : vset) : Prop := u = DVBot -> l = SBot.

Lemma inv_rem l u x : inv_lu l u -> inv_lu l (vs_rem x u).
Proof. unfold inv_lu. destruct u; simpl; auto. discriminate. Qed.
Lemma inv_l_set l u x v : inv_lu l u -> inv_lu (l_set l x v) u.
Proof. unfold inv_lu. intros H E. rewrite (H E). reflexivity. Qed.
Lemma inv_l_forget l u x : inv_lu l u -> inv_lu (l_forget l x) u.
Proof. unfold inv_lu. intros H E. rewrite (H E). reflexivity. Qed.
Lemma inv_propagate l u x y neg : inv_lu l u -> inv_lu (l_propagate l x y neg) u.
Proof.
  intros H. unfold l_propagate. destruct neg; [destruct (is_single _)|];
    auto using inv_l_set, inv_l_forget.
Qed.
Lemma inv_mark_unchanged v l u : inv_lu l u ->
  inv_lu (fst (mark_unchanged v (l, u))) (snd (mark_unchanged v (l, u))).
Proof.
  intros H. unfold mark_unchanged. destruct (vs_at v u) eqn:A; simpl; auto.
  destruct u; simpl in *; [discriminate|]. intros E. discriminate.
Qed.
Lemma inv_mark_fold vs : forall l u, inv_lu l u ->
  let lu := fold_left (fun lu w => mark_unchanged w lu) vs (l, u) in inv_lu (fst lu) (snd lu).
Proof.
  induction vs as [|v r IH]; cbn [fold_left]; intros l u H; [exact H|].
  pose proof (inv_mark_unchanged v l u H) as H1.
  destruct (mark_unchanged v (l, u)) as [l1 u1]. cbn [fst snd] in H1. apply IH. exact H1.
Qed.
Lemma vs_join_bot a b : vs_join a b = DVBot -> a = DVBot /\ b = DVBot.
Proof.
  unfold vs_join, dv_join. destruct (dv_is_top a || dv_is_top b); [discriminate|].
  destruct a, b; try discriminate; auto.
Qed.
Lemma vs_meet_bot a b : vs_meet a b = DVBot -> a = DVBot \/ b = DVBot.
Proof. destruct a, b; simpl; auto. discriminate. Qed.
Lemma inv_join la ua lb ub : inv_lu la ua -> inv_lu lb ub ->
  inv_lu (s_join cset cops cs_join la lb) (vs_join ua ub).
Proof.
  intros Ha Hb E. apply vs_join_bot in E. destruct E as [E1 E2]. rewrite (Ha E1), (Hb E2). reflexivity.
Qed.
Lemma applicable_bot u : applicable u SBot = SBot.
Proof. reflexivity. Qed.
Lemma inv_meet la ua lb ub : inv_lu la ua -> inv_lu lb ub ->
  inv_lu (s_meet cset cops cs_meet (applicable ua la) (applicable ub lb)) (vs_meet ua ub).
Proof.
  intros Ha Hb E. apply vs_meet_bot in E. destruct E as [E|E].
  - rewrite (Ha E). reflexivity.
  - rewrite (Hb E). simpl. destruct (applicable ua la); reflexivity.
Qed.

Lemma fb_inv_join a b : fb_inv a -> fb_inv b -> fb_inv (fb_join a b).
Proof. intros Ha Hb. apply inv_join; auto. Qed.
Lemma fb_inv_assign_bool_cst x c st : fb_inv st -> fb_inv (fb_assign_bool_cst x c st).
Proof.
  intros H. unfold fb_assign_bool_cst. destruct (fb_is_bot st); auto.
  destruct (lc_is_tautology c); [apply inv_l_forget; exact H|].
  destruct (lc_is_contradiction c); [apply inv_l_forget; exact H|].
  pose proof (inv_mark_fold (lc_vars c) _ _ H) as MF. cbv zeta in MF.
  destruct (fold_left _ (lc_vars c) (f_lin st, f_unch st)) as [l u]. cbn [fst snd] in MF.
  unfold fb_inv. cbn [f_lin f_unch]. apply inv_l_set. exact MF.
Qed.
Lemma fb_inv_assign_bool_var x y neg st : fb_inv st -> fb_inv (fb_assign_bool_var x y neg st).
Proof.
  intros H. unfold fb_assign_bool_var. destruct (fb_is_bot st); auto.
  unfold fb_inv. cbn [f_lin f_unch]. apply inv_propagate. exact H.
Qed.
Lemma inv_assume_fold vs : forall (p : prod) l u x, inv_lu l u ->
  inv_lu (snd (fold_left (fun (pl : prod * lenv) v =>
                         let '(q, l0) := pl in
                         (p_on_fst (fun f => be_assume f v false) q,
                          l_set l0 x (cs_meet (l_at l0 x) (l_at l0 v)))) vs (p, l))) u.
Proof.
  induction vs as [|v r IH]; cbn [fold_left]; intros p l u x H; [exact H|].
  apply IH. apply inv_l_set. exact H.
Qed.
Lemma fb_inv_assume x neg st : fb_inv st -> fb_inv (fb_assume_bool x neg st).
Proof.
  intros H. unfold fb_assume_bool. destruct (fb_is_bot st); auto.
  destruct (p_is_bot _); [exact H|]. destruct neg; [exact H|].
  pose proof (inv_assume_fold (dv_elems (bb_at (f_bools st) x))
                (canon (p_on_fst (fun f => be_assume f x false) (f_prod st))) _ _ x H) as AF.
  destruct (fold_left _ (dv_elems (bb_at (f_bools st) x)) _) as [p1 l1]. exact AF.
Qed.
Lemma fb_inv_forget isb vs st : fb_inv st -> fb_inv (fb_forget isb vs st).
Proof.
  intros H. unfold fb_forget. destruct (fb_is_bot st || fb_is_top st); auto.
  change (fun (s0 : fstate) (v : var) =>
            if isb v then mkF (f_prod s0) (l_forget (f_lin s0) v) (bb_forget (f_bools s0) v) (f_unch s0)
            else mark_changed v s0) with (forget_mem isb).
  set (p := p_on_snd (d_forget vs) (p_on_fst (fun f => be_forget_list f vs) (f_prod st))).
  destruct (forget_mem_fold isb vs (set_prod st p)) as (H1 & H2 & H3 & H4). cbv zeta in *.
  unfold fb_inv. cbn [f_lin f_unch]. rewrite H2, H4. cbn [set_prod f_lin f_unch]. intros E.
  assert (EU : f_unch st = DVBot).
  { destruct (f_unch st) eqn:EQ; auto. exfalso.
    apply (unch_fold_spec isb vs (DVSet l) lc_true); [discriminate|exact E]. }
  rewrite (H EU). clear. induction vs as [|v r IH]; simpl; auto. destruct (isb v); exact IH.
Qed.

Theorem fstep_inv isb rs o :
  (forall r, fb_inv (frget rs r)) -> forall r, fb_inv (frget (fstep isb rs o) r).
Proof.
  intros H.
  assert (S : forall r0 v, fb_inv v -> forall r, fb_inv (frget (frset rs r0 v) r)).
  { intros r0 v Hv r. destruct (Nat.lt_ge_cases r0 (length rs)) as [I|O].
    - rewrite frget_frset by auto. destruct (Nat.eqb r r0); auto.
    - rewrite frset_oob by auto. auto. }
  assert (Htop : fb_inv fb_top) by (intros E; discriminate).
  destruct o; cbn [fstep]; apply S.
  - exact Htop.
  - intros _. reflexivity.
  - apply H.
  - apply inv_rem. apply H.
  - apply inv_rem. apply H.
  - apply inv_rem. apply H.
  - apply inv_rem. apply H.
  - (* cast *)
    unfold fb_cast. destruct op; [destruct (negb src_bool && dst_bool)| |];
      try destruct (src_bool && negb dst_bool);
      try (apply inv_rem; apply H); try (apply inv_l_forget; apply H).
  - unfold fb_add. destruct cs; apply H.
  - apply inv_rem. apply H.
  - apply fb_inv_forget. apply H.
  - unfold fb_project. destruct (fb_is_bot _ || fb_is_top _); [apply H|]. destruct vs; exact Htop.
  - (* rename *)
    unfold fb_rename. destruct (fb_is_bot _ || fb_is_top _); [apply H|].
    unfold fb_inv. cbn [f_lin f_unch]. intros E.
    assert (EU : f_unch (frget rs r) = DVBot).
    { destruct (f_unch (frget rs r)) eqn:EQ; auto. exfalso.
      apply (unch_fold_spec isb (from ++ to) (DVSet l) lc_true); [discriminate|exact E]. }
    rewrite (H r EU). reflexivity.
  - (* expand *)
    unfold fb_expand. destruct (fb_is_bot _ || fb_is_top _); [apply H|].
    destruct (isb x).
    + apply inv_l_set. apply H.
    + destruct (vs_at x (f_unch (frget rs r))).
      * pose proof (inv_mark_unchanged nx _ _ (inv_rem _ _ nx (H r))) as MU.
        destruct (mark_unchanged nx (f_lin (frget rs r), vs_rem nx (f_unch (frget rs r)))) as [l u].
        exact MU.
      * apply inv_rem. apply H.
  - (* havoc *)
    unfold fb_havoc. destruct (isb x); unfold fb_inv; cbn [f_lin f_unch].
    + apply inv_l_forget. apply H.
    + apply inv_rem. apply H.
  - apply inv_join; apply H.
  - apply inv_meet; apply H.
  - apply inv_join; apply H.
  - apply inv_meet; apply H.
  - apply inv_join; apply H.
  - apply H.
  - apply fb_inv_assign_bool_cst. apply H.
  - unfold fb_weak_assign_bool_cst. destruct (fb_is_bot _); [apply H|].
    apply fb_inv_join; [apply H|apply fb_inv_assign_bool_cst; apply H].
  - apply fb_inv_assign_bool_var. apply H.
  - unfold fb_weak_assign_bool_var. destruct (fb_is_bot _); [apply H|].
    apply fb_inv_join; [apply H|apply fb_inv_assign_bool_var; apply H].
  - unfold fb_apply_binary_bool. destruct (fb_is_bot _); [apply H|]. apply inv_l_forget. apply H.
  - apply fb_inv_assume. apply H.
  - (* select_bool *)
    unfold fb_select_bool. destruct (fb_is_bot _); [apply H|].
    destruct (N.eqb b1 b2); [apply fb_inv_assign_bool_var; apply H|].
    unfold fb_inv. cbn [f_lin f_unch].
    repeat match goal with |- context [if ?c then _ else _] => destruct c end;
      cbn [fst snd f_lin f_unch];
      first [exact (inv_l_set _ _ _ _ (H r)) | exact (inv_propagate _ _ _ _ _ (H r))
            | exact (inv_l_forget _ _ _ (H r))].
  - apply fb_inv_assume. apply H.
Qed.

Theorem frun_inv isb h : forall rs,
  (forall r, fb_inv (frget rs r)) -> forall r, fb_inv (frget (frun isb rs h) r).
Proof.
  induction h as [|o r IH]; simpl; intros rs H; auto. apply IH. apply fstep_inv. exact H.
Qed.
Lemma inv_tops n r : fb_inv (frget (repeat fb_top n) r).
Proof.
  unfold frget. destruct (nth_in_or_default r (repeat fb_top n) fb_top) as [I|E].
  - apply repeat_spec in I. rewrite I. intros X. discriminate.
  - rewrite E. intros X. discriminate.
Qed.

(* C04 at the level of histories: if, after any history from top, the inclusion test between
   two registers answers yes, every concrete pair of stores of the first register is
   described by the second *)
Theorem fhistory_leq_sound isb h n a b s t :
  fhist_ok isb (repeat fb_top n) h ->
  fb_leq (frget (frun isb (repeat fb_top n) h) a) (frget (frun isb (repeat fb_top n) h) b) = true ->
  fcget (fold_left (fcstep isb) h (repeat (fun _ _ => True) n)) a s t ->
  gfb (frget (frun isb (repeat fb_top n) h) b) s t.
Proof.
  intros OK LE C.
  pose proof (fhistory_sound isb h _ _ (frel_top n) OK) as [_ R].
  eapply fb_leq_sound; eauto. apply frun_inv. apply inv_tops.
Qed.

(* ------------------------------------------------------------------ exported constraints *)

Lemma fold_sys_add_In cs : forall acc c, In c (fold_left sys_add cs acc) -> In c cs \/ In c acc.
Proof.
  induction cs as [|c0 r IH]; simpl; intros acc c I; auto.
  apply IH in I. destruct I as [I|I]; auto.
  unfold sys_add in I. destruct (existsb _ acc); auto.
  apply in_app_or in I. destruct I as [I|[<-|[]]]; auto.
Qed.
Lemma be_bindings_In m v b : In (v, b) (be_bindings m) -> b = sget bval bops m v.
Proof.
  unfold be_bindings. intros I. apply filter_In in I. destruct I as [I _].
  apply in_map_iff in I. destruct I as (k & E & _). inversion E; subst; auto.
Qed.
(* what the Boolean component exports: "v = 1" for a true variable, "v = 0" for a false one *)
Definition bool_cst (t : bstore) (c : lincst) : Prop :=
  c = lc_true \/
  (exists v, c = mkLC EQ (mkLE [(1, v)] (-1)) /\ t v = true) \/
  (exists v, c = mkLC EQ (mkLE [(1, v)] 0) /\ t v = false).
Lemma sys_add_In acc c c1 : In c1 (sys_add acc c) -> In c1 acc \/ c1 = c.
Proof.
  unfold sys_add. destruct (existsb _ acc); auto. intros I.
  apply in_app_or in I. destruct I as [I|[<-|[]]]; auto.
Qed.
Lemma be_to_csts_sound f t c : gbenv f t -> In c (be_to_csts f) -> bool_cst t c.
Proof.
  destruct f as [|m]; [simpl; tauto|]. intros G. unfold be_to_csts.
  destruct (be_is_top (SMap m)); [intros [<-|[]]; left; auto|].
  set (step := fun (acc : list lincst) (p : var * bval) =>
               match snd p with
               | BvTrue => sys_add acc (mkLC EQ (mkLE [(1, fst p)] (-1)))
               | BvFalse => sys_add acc (mkLC EQ (mkLE [(1, fst p)] 0))
               | _ => sys_add (sys_add acc (mkLC INEQ (mkLE [(-1, fst p)] 0))) (mkLC INEQ (mkLE [(-1, fst p)] 1))
               end).
  assert (F : forall l acc,
             (forall p, In p l -> snd p = sget bval bops m (fst p) /\ bv_is_top (snd p) = false) ->
             (forall c, In c acc -> bool_cst t c) ->
             forall c, In c (fold_left step l acc) -> bool_cst t c).
  { induction l as [|[v b] r IH]; simpl; intros acc HL HA c0 I; auto.
    apply (IH _ (fun p J => HL p (or_intror J))) in I; auto.
    intros c1 I1. destruct (HL (v, b) (or_introl eq_refl)) as [E NT]. simpl in E, NT.
    pose proof (G v) as Gv. rewrite <- E in Gv. unfold step in I1.
    destruct b; simpl in *; try tauto; try discriminate.
    - apply sys_add_In in I1. destruct I1 as [I1| ->]; auto. right. right. exists v. auto.
    - apply sys_add_In in I1. destruct I1 as [I1| ->]; auto. right. left. exists v. auto. }
  apply F.
  - intros [v b] I. simpl. split; [eapply be_bindings_In; eauto|].
    unfold be_bindings in I. apply filter_In in I. destruct I as [_ N]. simpl in N.
    apply negb_true_iff in N. exact N.
  - intros c0 [].
Qed.

(* exported constraints: those of the numerical component hold on the integer store, those of
   the Boolean component say "v = 1" for a Boolean that is true and "v = 0" for one that is false *)
Theorem fb_to_csts_sound st s t c : gfb st s t -> In c (fb_to_csts st) -> sat c s \/ bool_cst t c.
Proof.
  intros (P & _) I. unfold fb_to_csts in I.
  apply fold_sys_add_In in I. destruct I as [I|I].
  - left. eapply d_to_csts_sound; eauto. eapply gprod_snd; eauto.
  - apply fold_sys_add_In in I. destruct I as [I|[]].
    right. eapply be_to_csts_sound; eauto. eapply gprod_fst; eauto.
Qed.

(* ------------------------------------------------------------------ lifting clause of C12:
   on numerical code the numerical component evolves exactly like the bare interval domain *)

Definition lift (o : hop) : fhop :=
  match o with
  | HTop r => FTop r | HBot r => FBot r | HCopy r s => FCopy r s
  | HAssign r x e => FAssign r x e
  | HWeakAssign r x e => FWeakAssign r x e
  | HArith r op x y z => FArith r op x y z
  | HBit r op x y z => FBit r op x y z
  | HCast r op d s db sb w => FCast r op d s db sb w
  | HAssume r cs => FAssume r cs
  | HSelect r l c e1 e2 => FSelect r l c e1 e2
  | HForget r vs => FForget r vs
  | HProject r vs => FProject r vs
  | HRename r f t => FRename r f t
  | HExpand r x nx => FExpand r x nx
  | HJoin r s t => FJoin r s t
  | HMeet r s t => FMeet r s t
  | HWiden r s t => FWiden r s t
  | HNarrow r s t => FNarrow r s t
  | HWidenThr r s t ths => FWidenThr r s t ths
  end.

(* the numerical statements covered: everything of the history language of the interval
   domain except casts that involve a Boolean, the empty assume / project, and meet /
   narrowing (basic_domain_product2 returns an operand unchanged when the other one is top,
   where the interval domain rebuilds the same environment) *)
Definition lift_ok (o : hop) : Prop :=
  match o with
  | HCast _ _ _ _ db sb _ => db = false /\ sb = false
  | HAssume _ cs => cs <> []
  | HProject _ vs => vs <> []
  | HMeet _ _ _ | HNarrow _ _ _ => False
  | _ => True
  end.

Definition sim (st : fstate) (e : env) : Prop :=
  p_snd (f_prod st) = e /\
  (p_fst (f_prod st) = s_top \/ (p_fst (f_prod st) = SBot /\ e = EBot)).

Lemma sim_prod st p e : f_prod st = p -> (p_snd p = e /\ (p_fst p = s_top \/ (p_fst p = SBot /\ e = EBot))) -> sim st e.
Proof. intros <- H. exact H. Qed.

Lemma sim_is_bot st e : sim st e -> p_is_bot (f_prod st) = e_is_bot e.
Proof.
  intros [<- H]. destruct (f_prod st) as [|f e0]; simpl in *; auto.
  destruct H as [->|[-> ->]]; reflexivity.
Qed.
Lemma sim_on_snd fe p e :
  (p_snd p = e /\ (p_fst p = s_top \/ (p_fst p = SBot /\ e = EBot))) -> fe EBot = EBot ->
  p_snd (p_on_snd fe p) = fe e /\
  (p_fst (p_on_snd fe p) = s_top \/ (p_fst (p_on_snd fe p) = SBot /\ fe e = EBot)).
Proof.
  intros [<- H] FB. unfold p_on_snd. destruct p as [|f e0]; simpl in *.
  - rewrite FB. auto.
  - destruct H as [->|[-> ->]]; simpl.
    + destruct e0; simpl; [rewrite FB|]; auto.
    + rewrite FB. auto.
Qed.
Lemma sim_canon p e :
  (p_snd p = e /\ (p_fst p = s_top \/ (p_fst p = SBot /\ e = EBot))) ->
  p_snd (canon p) = e /\ (p_fst (canon p) = s_top \/ (p_fst (canon p) = SBot /\ e = EBot)).
Proof.
  intros [<- H]. destruct p as [|f e0]; simpl in *; auto.
  destruct H as [->|[-> ->]]; simpl; auto. destruct e0; simpl; auto.
Qed.
Lemma sim_on_fst ff p e :
  (p_snd p = e /\ (p_fst p = s_top \/ (p_fst p = SBot /\ e = EBot))) -> ff s_top = s_top ->
  p_snd (p_on_fst ff p) = e /\
  (p_fst (p_on_fst ff p) = s_top \/ (p_fst (p_on_fst ff p) = SBot /\ e = EBot)).
Proof.
  intros [<- H] FT. unfold p_on_fst. destruct p as [|f e0]; simpl in *; auto.
  destruct H as [->|[-> ->]]; simpl; auto. destruct e0; simpl; auto.
Qed.

Lemma be_join_tops : be_join s_top s_top = s_top. Proof. reflexivity. Qed.

Lemma sim_join a b ea eb : sim a ea -> sim b eb -> sim (fb_join a b) (e_join ea eb).
Proof.
  intros Sa Sb. apply (sim_prod _ (p_join (f_prod a) (f_prod b))); [reflexivity|].
  unfold p_join. rewrite (sim_is_bot _ _ Sa), (sim_is_bot _ _ Sb).
  destruct ea as [|ma]; cbn [e_is_bot]; [exact Sb|].
  destruct eb as [|mb]; cbn [e_is_bot]; [exact Sa|].
  destruct Sa as [E1 [F1|[_ X]]]; [|discriminate]. destruct Sb as [E2 [F2|[_ X]]]; [|discriminate].
  rewrite E1, E2, F1, F2. apply sim_canon. simpl. auto.
Qed.
Lemma sim_widen_gen (w : env -> env -> env) a b ea eb :
  w EBot EBot = EBot -> sim a ea -> sim b eb ->
  p_snd (PPair (be_join (p_fst (f_prod a)) (p_fst (f_prod b))) (w (p_snd (f_prod a)) (p_snd (f_prod b)))) = w ea eb /\
  (p_fst (PPair (be_join (p_fst (f_prod a)) (p_fst (f_prod b))) (w (p_snd (f_prod a)) (p_snd (f_prod b)))) = s_top \/
   (p_fst (PPair (be_join (p_fst (f_prod a)) (p_fst (f_prod b))) (w (p_snd (f_prod a)) (p_snd (f_prod b)))) = SBot /\ w ea eb = EBot)).
Proof.
  intros WB [E1 F1] [E2 F2]. simpl. rewrite E1, E2. split; auto.
  destruct F1 as [->|[-> ->]], F2 as [->|[-> ->]]; simpl; auto.
Qed.

Definition simr (rs : list fstate) (es : list env) : Prop :=
  length rs = length es /\ forall r, sim (frget rs r) (rget es r).

Lemma sim_top : sim fb_top e_top. Proof. split; simpl; auto. Qed.
Lemma simr_set rs es r v e : simr rs es -> sim v e -> simr (frset rs r v) (rset es r e).
Proof.
  intros [L H] S. split. { rewrite frset_length, rset_length. exact L. }
  intros r'. destruct (Nat.lt_ge_cases r (length rs)) as [I|O].
  - rewrite frget_frset by auto. rewrite rget_rset by lia. destruct (Nat.eqb r' r); auto.
  - rewrite frset_oob by auto. rewrite rset_oob by lia. auto.
Qed.

Lemma sim_num st e x fe : sim st e -> fe EBot = EBot ->
  sim (mark_changed x (set_prod st (p_on_snd fe (f_prod st)))) (fe e) /\
  sim (mark_changed x (set_prod st (canon (p_on_snd fe (f_prod st))))) (fe e).
Proof.
  intros S FB. split.
  - apply (sim_prod _ (p_on_snd fe (f_prod st))); [reflexivity|]. apply sim_on_snd; auto.
  - apply (sim_prod _ (canon (p_on_snd fe (f_prod st)))); [reflexivity|]. apply sim_canon. apply sim_on_snd; auto.
Qed.

Lemma d_assign_bot x ex : d_assign x ex EBot = EBot.
Proof. unfold d_assign. destruct (le_get_variable ex); reflexivity. Qed.
Lemma d_weak_assign_bot x ex : d_weak_assign x ex EBot = EBot.
Proof. unfold d_weak_assign. destruct (le_get_variable ex); reflexivity. Qed.
Lemma d_cast_bot op d s db sb w : d_cast op d s db sb w EBot = EBot.
Proof. unfold d_cast. rewrite d_assign_bot. destruct (negb (db || sb)), op, sb; reflexivity. Qed.
Lemma d_select_bot l c e1 e2 : d_select l c e1 e2 EBot = EBot. Proof. reflexivity. Qed.
Lemma d_add_bot cs : d_add cs EBot = EBot. Proof. reflexivity. Qed.

Lemma sim_early st e (fe : env -> env) :
  sim st e -> fb_is_bot st || fb_is_top st = true ->
  (e_is_bot e || e_is_top e = true -> fe e = e) -> sim st (fe e).
Proof.
  intros S B H. rewrite H; auto.
  unfold fb_is_bot in B. rewrite (sim_is_bot _ _ S) in B.
  destruct (e_is_bot e); auto. simpl in *. unfold fb_is_top in B.
  apply andb_true_iff in B. destruct B as [B _]. apply andb_true_iff in B. destruct B as [B _].
  destruct S as [E _]. destruct (f_prod st) as [|f e0]; simpl in *; [discriminate|]. subst.
  apply andb_true_iff in B. tauto.
Qed.

Theorem sim_step isb rs es o :
  simr rs es -> lift_ok o -> simr (fstep isb rs (lift o)) (hstep es o).
Proof.
  intros R OK. pose proof R as [L H].
  destruct o; cbn [lift fstep hstep]; apply simr_set; auto.
  - apply sim_top.
  - split; simpl; auto.
  - apply (sim_num _ _ x (d_assign x e)); auto. apply d_assign_bot.
  - apply (sim_num _ _ x (d_weak_assign x e)); auto. apply d_weak_assign_bot.
  - apply (sim_num _ _ x (d_apply_arith op x y z)); auto.
  - apply (sim_num _ _ x (d_apply_bit op x y z)); auto.
  - (* cast *)
    destruct OK as [-> ->]. unfold fb_cast.
    assert (X : sim (mark_changed dst (set_prod (frget rs r)
                (canon (p_on_snd (d_cast op dst src false false w) (f_prod (frget rs r))))))
                (d_cast op dst src false false w (rget es r))).
    { apply (sim_num _ _ dst (d_cast op dst src false false w)); auto. apply d_cast_bot. }
    destruct op; simpl; exact X.
  - (* assume *)
    unfold fb_add. destruct cs as [|c0 cr]; [simpl in OK; congruence|].
    apply (sim_prod _ (p_on_snd (d_add (c0 :: cr)) (f_prod (frget rs r)))); [reflexivity|].
    apply sim_on_snd; auto. apply H.
  - apply (sim_num _ _ lhs (d_select lhs c e1 e2)); auto.
  - (* forget *)
    unfold fb_forget. destruct (fb_is_bot (frget rs r) || fb_is_top (frget rs r)) eqn:B.
    { apply sim_early; auto. unfold d_forget. intros ->. reflexivity. }
    set (p := p_on_snd (d_forget vs) (p_on_fst (fun f => be_forget_list f vs) (f_prod (frget rs r)))).
    change (fun (s0 : fstate) (v : var) =>
            if isb v then mkF (f_prod s0) (l_forget (f_lin s0) v) (bb_forget (f_bools s0) v) (f_unch s0)
            else mark_changed v s0) with (forget_mem isb).
    destruct (forget_mem_fold isb vs (set_prod (frget rs r) p)) as (H1 & _). cbv zeta in H1.
    eapply sim_prod; [cbn [f_prod]; exact H1|]. cbn [set_prod f_prod]. unfold p.
    apply sim_on_snd; [|reflexivity]. apply sim_on_fst; [apply H|reflexivity].
  - (* project *)
    unfold fb_project. destruct (fb_is_bot (frget rs r) || fb_is_top (frget rs r)) eqn:B.
    { apply (sim_early _ _ (fun e => e_project e vs)); auto.
      intros X. destruct (rget es r) as [|m]; auto. simpl in *. rewrite X. reflexivity. }
    destruct vs as [|v0 vr]; [simpl in OK; congruence|].
    eapply sim_prod; [reflexivity|].
    apply (sim_on_snd (fun e => e_project e (v0 :: vr))); [|reflexivity].
    apply sim_on_fst; [apply H|reflexivity].
  - (* rename *)
    unfold fb_rename. destruct (fb_is_bot (frget rs r) || fb_is_top (frget rs r)) eqn:B.
    { apply (sim_early _ _ (fun e => e_rename e from to)); auto.
      intros X. destruct (rget es r) as [|m]; auto. simpl in *. rewrite X. reflexivity. }
    eapply sim_prod; [reflexivity|].
    apply (sim_on_snd (fun e => e_rename e from to)); [|reflexivity].
    apply sim_on_fst; [apply H|reflexivity].
  - (* expand *)
    unfold fb_expand. destruct (fb_is_bot (frget rs r) || fb_is_top (frget rs r)) eqn:B.
    { apply sim_early; auto. unfold d_expand. intros ->. reflexivity. }
    assert (X : p_snd (p_on_snd (d_expand x nx) (p_on_fst (fun f => be_expand f x nx) (f_prod (frget rs r)))) = d_expand x nx (rget es r) /\
                (p_fst (p_on_snd (d_expand x nx) (p_on_fst (fun f => be_expand f x nx) (f_prod (frget rs r)))) = s_top \/
                 (p_fst (p_on_snd (d_expand x nx) (p_on_fst (fun f => be_expand f x nx) (f_prod (frget rs r)))) = SBot /\
                  d_expand x nx (rget es r) = EBot))).
    { apply sim_on_snd; [|reflexivity]. apply sim_on_fst; [apply H|reflexivity]. }
    destruct (isb x).
    + eapply sim_prod; [reflexivity|exact X].
    + destruct (vs_at x (f_unch (frget rs r))).
      * destruct (mark_unchanged nx (f_lin (frget rs r), vs_rem nx (f_unch (frget rs r)))) as [l u].
        eapply sim_prod; [reflexivity|exact X].
      * eapply sim_prod; [reflexivity|exact X].
  - apply sim_join; apply H.
  - destruct OK.
  - eapply sim_prod; [reflexivity|]. apply (sim_widen_gen e_widen); auto; apply H.
  - destruct OK.
  - eapply sim_prod; [reflexivity|].
    apply (sim_widen_gen (e_widen_thr (thr_prev (mk_thresholds ths)) (thr_next (mk_thresholds ths)))); auto; apply H.
Qed.

Theorem sim_run isb h : forall rs es,
  simr rs es -> Forall lift_ok h -> simr (frun isb rs (map lift h)) (hrun es h).
Proof.
  induction h as [|o r IH]; simpl; intros rs es R OK; auto.
  inversion OK; subst. apply IH; auto. apply sim_step; auto.
Qed.
Lemma simr_tops n : simr (repeat fb_top n) (repeat e_top n).
Proof.
  split. { rewrite !repeat_length. reflexivity. }
  intros r. unfold frget, rget.
  destruct (nth_in_or_default r (repeat fb_top n) fb_top) as [I|E];
    destruct (nth_in_or_default r (repeat e_top n) e_top) as [I'|E'];
    try (apply repeat_spec in I; rewrite I); try (apply repeat_spec in I'; rewrite I');
    try rewrite E; try rewrite E'; apply sim_top.
Qed.

(* at(v) of the product is the interval of the interval domain (any bottom interval is
   printed as bottom) *)
Definition inorm (i : itv) : itv := if is_bot i then ibot else i.
Lemma sim_at st e v : sim st e -> fb_at st v = inorm (e_at e v).
Proof.
  intros [E F]. unfold fb_at, inorm. rewrite E.
  destruct F as [->|[-> ->]]; simpl; reflexivity.
Qed.
Lemma sim_bot st e : sim st e -> fb_is_bot st = e_is_bot e.
Proof. apply sim_is_bot. Qed.

Theorem lifting_numerical isb h n r :
  Forall lift_ok h ->
  let st := frget (frun isb (repeat fb_top n) (map lift h)) r in
  let e := rget (hrun (repeat e_top n) h) r in
  p_snd (f_prod st) = e /\ fb_is_bot st = e_is_bot e /\ forall v, fb_at st v = inorm (e_at e v).
Proof.
  intros OK. cbv zeta.
  pose proof (sim_run isb h _ _ (simr_tops n) OK) as [_ S]. specialize (S r).
  split; [apply S|]. split; [apply sim_bot; exact S|]. intros v. apply sim_at. exact S.
Qed.

(* starting point: all registers top *)
Theorem fhistory_sound_top isb h n :
  fhist_ok isb (repeat fb_top n) h ->
  frel (frun isb (repeat fb_top n) h) (fold_left (fcstep isb) h (repeat (fun _ _ => True) n)).
Proof. intros H. apply fhistory_sound; [apply frel_top|exact H]. Qed.

(* the answers on the registers of a history *)
Theorem frel_bool_at rs cs r s t b : frel rs cs -> fcget cs r s t -> gbv (fb_bool_at (frget rs r) b) (t b).
Proof. intros [_ R] C. apply (fb_bool_at_sound _ s t). apply R. exact C. Qed.
Theorem frel_not_bot rs cs r s t : frel rs cs -> fcget cs r s t -> fb_is_bot (frget rs r) = false.
Proof. intros [_ R] C. eapply fb_not_bot. apply R. exact C. Qed.
Theorem frel_entails rs cs r s t c :
  frel rs cs -> fcget cs r s t -> wf_lc c -> fb_entails c (frget rs r) = true -> sat c s.
Proof. intros [_ R] C W E. eapply fb_entails_sound; eauto. Qed.
