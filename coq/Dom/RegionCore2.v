(* RegionCore2.v — extended mirror model of crab::domains::region_domain
   (include/crab/domains/region_domain.hpp, region/ghost_variables.hpp,
   region/ghost_variable_manager.hpp: fixed-naming manager) over the interval domain, property C15.

   On top of Dom/RegionCore.v (whose definitions of finite sets, reference counts, stored values
   and reference constraints are reused) this model has
     - the dynamic-type component of region_info (type_value: bottom / region(unknown) /
       region(int) / region(ref) / top), hence unknown regions, is_tracked_region,
       has_dynamic_type, both settings of region.skip_unknown_regions, and region_cast;
     - the ghost variables of ghost_variables.hpp: with region.is_dereferenceable every reference,
       every region of references and every unknown region whose dynamic type is region(ref) is
       shadowed by three base variables (<v>.address, <v>.offset, <v>.size), otherwise by the base
       variable of the same name; ref_make with a size, ref_gep offsets, the constraints on offsets
       and sizes of ref_assume, ghost_offset_and_size::is_deref (the is_dereferenceable intrinsic);
     - int_to_ref / ref_to_int;
     - forget / project of references and regions.
   The state record differs from RegionCore.rst only in the region environment.

   The model follows the code with fixes/regions-1..6 (in the pinned tree) and fixes/regions-7
   (ref_store forgets the ghost variables an unknown region gets when it sets or changes its
   dynamic type, and writes the value to them), regions-8 (a store that cannot be written to
   the ghost variables still updates allocation sites and tags) and regions-9 (the store that reinterprets a region of integers as a
   region of references leaves the region "may be initialised") applied.  No proofs here. *)
From Coq Require Import ZArith NArith List Bool Lia.
From CrabV Require Import Base.ZInf Scalar.Itv Scalar.SmallRange Scalar.Boolean Ir.Syntax
     Dom.ItvEnv Dom.ItvSolver Dom.ItvDomain Dom.RegionCore.
Import ListNotations.
Local Open Scope Z_scope.

(* ---- static kinds of CrabIR variables ---- *)
Inductive vk := VInt | VBool | VRef | VRgnInt | VRgnRef | VRgnUnk.
Definition vk_is_rgn (k : vk) : bool := match k with VRgnInt | VRgnRef | VRgnUnk => true | _ => false end.
Definition vk_is_ref (k : vk) : bool := match k with VRef => true | _ => false end.

(* ---- type_value restricted to the region types that occur ---- *)
Inductive rty := TUnk | TInt | TRef.
Inductive tyv := TyBot | TyTop | Ty (t : rty).
Definition rty_eqb (a b : rty) : bool :=
  match a, b with TUnk, TUnk | TInt, TInt | TRef, TRef => true | _, _ => false end.
Definition ty_is_bot (t : tyv) : bool := match t with TyBot => true | _ => false end.
(* type_value::operator<= *)
Definition ty_leq (a b : tyv) : bool :=
  match a, b with
  | TyBot, _ => true | _, TyTop => true
  | _, TyBot => false | TyTop, _ => false
  | Ty x, Ty y => rty_eqb y TUnk || rty_eqb x y
  end.
(* type_value::operator| (also || and widening) *)
Definition ty_join (a b : tyv) : tyv :=
  match a, b with
  | TyBot, _ => b | _, TyTop => b
  | TyTop, _ => a | _, TyBot => a
  | Ty x, Ty y => if rty_eqb y TUnk then b else if rty_eqb x TUnk then a else if rty_eqb x y then a else TyTop
  end.
(* type_value::operator& (also &&) *)
Definition ty_meet (a b : tyv) : tyv :=
  match a, b with
  | TyBot, _ => a | _, TyTop => a
  | TyTop, _ => b | _, TyBot => b
  | Ty x, Ty y => if rty_eqb y TUnk then a else if rty_eqb x TUnk then b else if rty_eqb x y then a else TyBot
  end.

(* ---- region_info ---- *)
Definition rinfo2 := (sr * bv * tyv)%type.
Definition i_cnt (i : rinfo2) : sr := fst (fst i).
Definition i_ini (i : rinfo2) : bv := snd (fst i).
Definition i_ty (i : rinfo2) : tyv := snd i.
Definition ri2_top : rinfo2 := (RZeroOrMore, BTop, TyTop).
Definition ri2_is_bot (i : rinfo2) : bool := sr_is_bot (i_cnt i) || bv_is_bot (i_ini i) || ty_is_bot (i_ty i).
Definition ri2_join (a b : rinfo2) : rinfo2 :=
  (sr_join (i_cnt a) (i_cnt b), bv_join (i_ini a) (i_ini b), ty_join (i_ty a) (i_ty b)).
Definition ri2_meet (a b : rinfo2) : rinfo2 :=
  (sr_meet (i_cnt a) (i_cnt b), bv_meet (i_ini a) (i_ini b), ty_meet (i_ty a) (i_ty b)).

(* region_domain_params (the deallocation flag has no modelled effect) *)
Record rparams2 := mkP2 { q_alloc : bool; q_tags : bool; q_deref : bool; q_skip : bool }.

Record rst2 := mkR2 {
  s_base : amap;                  (* m_base_dom (not bottom) *)
  s_rgn : var -> rinfo2;          (* m_rgn_env, total with default top *)
  s_alloc : var -> dset;          (* m_alloc_env *)
  s_tags : var -> dset            (* m_tag_env *)
}.
Definition rval2 := option rst2.
Definition s_top : rst2 := mkR2 [] (fun _ => ri2_top) (fun _ => ds_top) (fun _ => ds_top).

(* configuration: parameters, static kinds, the names of the ghost variables (injective, chosen
   by the driver as the variable factory of the harness does) and the region variables *)
Record rconf2 := mkC2 {
  k_params : rparams2;
  k_kind : var -> vk;
  k_adr : var -> var;             (* <v>.address *)
  k_off : var -> var;             (* <v>.offset *)
  k_siz : var -> var;             (* <v>.size *)
  k_dup : var -> var;             (* ghost_variable_manager::dup of a ghost variable *)
  k_univ : list var
}.

Section Model.
Variable C : rconf2.
Let P := k_params C.

Definition wbase (s : rst2) (e : env) : rval2 :=
  match e with
  | EBot => None
  | EMap m => Some (mkR2 m (s_rgn s) (s_alloc s) (s_tags s))
  end.
Definition set_info (s : rst2) (g : var) (i : rinfo2) : rst2 :=
  mkR2 (s_base s) (fupd (s_rgn s) g i) (s_alloc s) (s_tags s).
Definition set_al (s : rst2) (v : var) (d : dset) : rst2 :=
  if q_alloc P then mkR2 (s_base s) (s_rgn s) (fupd (s_alloc s) v d) (s_tags s) else s.
Definition set_tg (s : rst2) (v : var) (d : dset) : rst2 :=
  if q_tags P then mkR2 (s_base s) (s_rgn s) (s_alloc s) (fupd (s_tags s) v d) else s.
Definition cnt (s : rst2) (g : var) : sr := i_cnt (s_rgn s g).
Definition ini (s : rst2) (g : var) : bv := i_ini (s_rgn s g).
Definition typ (s : rst2) (g : var) : tyv := i_ty (s_rgn s g).

(* the type a region variable is declared with *)
Definition static_ty (k : vk) : tyv :=
  match k with VRgnInt => Ty TInt | VRgnRef => Ty TRef | VRgnUnk => Ty TUnk | _ => TyTop end.
(* the region type whose contents have the type of a stored value *)
Definition is_proper (t : tyv) : bool := match t with Ty TInt | Ty TRef => true | _ => false end.

(* has_dynamic_type(v, dyn_ty) *)
Definition has_dyn (k : vk) (t : tyv) : bool :=
  match k with
  | VRgnUnk => if q_skip P then false else is_proper t
  | _ => true
  end.
(* is_tracked_region(v, dyn_ty) *)
Definition tracked (k : vk) (t : tyv) : bool := vk_is_rgn k && has_dyn k t.
(* is_tracked_unknown_region *)
Definition tracked_unk (k : vk) : bool :=
  negb (q_skip P) && match k with VRgnUnk => true | _ => false end.

(* ---- ghost variables of a CrabIR variable (ghost_variables::create with the type given by
   region_domain::get_type_fn): the main ghost variable and, optionally, offset and size ---- *)
Definition gvars := (var * option (var * var))%type.
Definition gv_plain (v : var) : gvars := (v, None).
Definition gv_ref (v : var) : gvars :=
  if q_deref P then (k_adr C v, Some (k_off C v, k_siz C v)) else (v, None).
Definition gv_of_ty (v : var) (t : tyv) : gvars :=
  match k_kind C v with
  | VRef | VRgnRef => gv_ref v
  | VRgnUnk => if has_dyn VRgnUnk t then match t with Ty TRef => gv_ref v | _ => gv_plain v end
               else gv_plain v
  | _ => gv_plain v
  end.
Definition gv_of (s : rst2) (v : var) : gvars := gv_of_ty v (typ s v).
Definition gv_var (g : gvars) : var := fst g.

(* ghost_variables::forget / assign / expand, ghost_offset_and_size::forget *)
Definition os_forget (g : gvars) (e : env) : env :=
  match snd g with Some (o, z) => e_forget (e_forget e o) z | None => e end.
Definition gv_forget (g : gvars) (e : env) : env := os_forget g (e_forget e (fst g)).
Definition gv_assign (dst src : gvars) (e : env) : env :=
  let e1 := d_assign (fst dst) (le_var (fst src)) e in
  match snd dst, snd src with
  | Some (o, z), Some (o', z') => d_assign z (le_var z') (d_assign o (le_var o') e1)
  | _, _ => e1
  end.
Definition gv_expand (src nw : gvars) (e : env) : env :=
  let e1 := d_expand (fst src) (fst nw) e in
  match snd src, snd nw with
  | Some (o, z), Some (o', z') => d_expand z z' (d_expand o o' e1)
  | _, _ => e1
  end.
(* ghost_variable_manager::dup *)
Definition gv_dup (g : gvars) : gvars :=
  (k_dup C (fst g), match snd g with Some (o, z) => Some (k_dup C o, k_dup C z) | None => None end).

Definition null_of (s : rst2) (p : var) : bv := is_null (s_base s) (gv_var (gv_of s p)).

(* ---- region_init: None = CRAB_ERROR ---- *)
Definition u_init (g : var) (s : rst2) : option rval2 :=
  if sr_leq (cnt s g) ROneOrMore then None
  else
    Some (Some (set_tg (set_al (set_info s g (RZero, BFalse, static_ty (k_kind C g))) g ds_empty) g ds_empty)).

(* ---- ref_make; [size] is a constant or an integer variable ---- *)
Definition u_mk (p g : var) (site : Z) (size : operand) (s : rst2) : rval2 :=
  let i := s_rgn s g in
  let s1 := set_info s g (rc_incr (i_cnt i) p, i_ini i, i_ty i) in
  let s2 := set_al s1 p (Some [site]) in
  let gp := gv_of s2 p in
  let b := e_forget (EMap (s_base s2)) (fst gp) in
  let b := match snd gp with
           | Some (o, z) =>
             d_assign z (match size with OCst k => le_const k | OVar x => le_var x end)
                      (d_assign o (le_const 0) b)
           | None => b
           end in
  wbase s2 b.

Definition u_free (g p : var) (s : rst2) : rst2 := set_al s p ds_top.

(* the type of the contents of a region of dynamic type t is the type of variable kind k *)
Definition content_matches (t : tyv) (k : vk) : bool :=
  match t, k with Ty TInt, VInt | Ty TRef, VRef => true | _, _ => false end.

(* ---- ref_load ---- *)
Definition u_load (x p g : var) (s : rst2) : rval2 :=
  let gx := gv_of s x in
  if bv_is_true (null_of s p) then wbase s (gv_forget gx (EMap (s_base s)))
  else
    let s1 := if vk_is_ref (k_kind C x) then set_al s x (s_alloc s g) else s in
    let s2 := set_tg s1 x (s_tags s1 g) in
    let b := EMap (s_base s2) in
    let kg := k_kind C g in
    if negb (tracked kg (typ s2 g)) then wbase s2 (gv_forget gx b)
    else if tracked_unk kg && negb (content_matches (typ s2 g) (k_kind C x)) then wbase s2 (gv_forget gx b)
    else
      let gg := gv_of s2 g in
      if singleton_count (cnt s2 g) then wbase s2 (gv_assign gx gg b)
      else
        let gd := gv_dup gg in
        wbase s2 (gv_forget gd (gv_assign gx gd (gv_expand gg gd b))).

(* ---- ref_store ---- *)
Definition sval_is_ref (v : sval) : bool :=
  match v with SVar _ r => r | SCst _ => false | SNull => true end.
Definition sval_rty (v : sval) : rty := if sval_is_ref v then TRef else TInt.

(* do_mem_write *)
Definition mem_write (s : rst2) (rg : gvars) (v : sval) (weak : bool) (e : env) : env :=
  let asg := if weak then d_weak_assign else d_assign in
  match v with
  | SCst k => asg (fst rg) (le_const k) e
  | SNull => os_forget rg (asg (fst rg) (le_const 0) e)
  | SVar x isr =>
    let vg := gv_of s x in
    let e1 := asg (fst rg) (le_var (fst vg)) e in
    if isr then
      match snd rg, snd vg with
      | Some (o, z), Some (o', z') => asg z (le_var z') (asg o (le_var o') e1)
      | Some _, None => os_forget rg e1
      | None, _ => e1
      end
    else e1
  end.

(* what ref_store does to the type of a tracked unknown region:
   SAbort = CRAB_ERROR, SNoWrite = the value is not written to the base domain (but allocation
   sites, tags and the initialised flag are updated: regions-8), SGo = go on with this info
   (reinterpret = the old ghost variables are forgotten first) *)
Inductive sdec :=
| SAbort | SNoWrite (forget_first : bool)
| SKeep                      (* the dynamic type does not change *)
| SFirst (newty : tyv)       (* the first store sets the dynamic type *)
| SReint.                    (* a region of integers becomes a region of references *)
Definition store_decide (kg : vk) (t : tyv) (v : sval) : sdec :=
  if tracked_unk kg then
    match t with
    | TyBot => SAbort
    | TyTop => SNoWrite true
    | Ty TUnk => SFirst (Ty (sval_rty v))
    | Ty c =>
      if rty_eqb c (sval_rty v) then SKeep
      else if rty_eqb c TRef then SNoWrite false
      else if sval_is_ref v then SReint
      else SNoWrite true
    end
  else SKeep.

Definition store_side (s : rst2) (g : var) (v : sval) (strong : bool) : rst2 :=
  if strong then
    let s1 := match v with
              | SNull => set_al s g ds_empty
              | SVar x true => set_al s g (s_alloc s x)
              | _ => s
              end in
    match v with SVar x _ => set_tg s1 g (s_tags s1 x) | _ => s1 end
  else
    let s1 := match v with
              | SVar x true => set_al s g (ds_join (s_alloc s g) (s_alloc s x))
              | _ => s
              end in
    match v with SVar x _ => set_tg s1 g (ds_join (s_tags s1 g) (s_tags s1 x)) | _ => s1 end.

Definition u_store (p g : var) (v : sval) (s : rst2) : option rval2 :=
  if bv_is_true (null_of s p) then Some (wbase s (gv_forget (gv_of s g) (EMap (s_base s))))
  else
    let old := s_rgn s g in
    let kg := k_kind C g in
    let uninit := bv_is_false (i_ini old) in
    let strong := uninit || singleton_count (i_cnt old) in
    match store_decide kg (i_ty old) v with
    | SAbort => None
    | SNoWrite ff =>
      let b := if ff then gv_forget (gv_of s g) (EMap (s_base s)) else EMap (s_base s) in
      let s1 := store_side s g v strong in
      Some (wbase (set_info s1 g (i_cnt old, BTop, i_ty old)) b)
    | SKeep =>
      let sn := set_info s g (i_cnt old, BTop, i_ty old) in
      let b := EMap (s_base s) in
      let b2 := if tracked kg (i_ty old) then mem_write sn (gv_of sn g) v (negb strong) b else b in
      Some (wbase (store_side sn g v strong) b2)
    | SFirst nt =>
      (* regions-7: when the store sets or changes the dynamic type, the new type is recorded at
         once and the ghost variables the region has under it are forgotten: they may describe an
         earlier life of the region.  The value is then written to them. *)
      let sn := set_info s g (i_cnt old, BTop, nt) in
      let b1 := gv_forget (gv_of sn g) (EMap (s_base s)) in
      Some (wbase (store_side sn g v strong) (mem_write sn (gv_of sn g) v (negb strong) b1))
    | SReint =>
      let sn := set_info s g (i_cnt old, BTop, Ty TRef) in
      let b1 := gv_forget (gv_of sn g) (gv_forget (gv_of s g) (EMap (s_base s))) in
      Some (wbase (store_side sn g v strong) (mem_write sn (gv_of sn g) v (negb strong) b1))
    end.

(* ---- ref_gep: [addr] = address(ref1) + offset, [offe] = offset(ref1) + offset ---- *)
Definition u_gep (p2 g2 p1 g1 : var) (offset addr offe : linexp) (s : rst2) : rval2 :=
  let v1 := gv_of s p1 in let v2 := gv_of s p2 in
  let b := d_assign (fst v2) addr (EMap (s_base s)) in
  let b := match snd v1, snd v2 with
           | Some (o1, z1), Some (o2, z2) => d_assign z2 (le_var z1) (d_assign o2 offe b)
           | None, Some _ => os_forget v2 b
           | _, None => b
           end in
  let same := N.eqb g1 g2 && is_zero_itv (d_eval offset b) in
  let i := s_rgn s g2 in
  let s1 := if same then s else set_info s g2 (rc_incr (i_cnt i) p2, i_ini i, i_ty i) in
  let s2 := set_al s1 p2 (s_alloc s1 p1) in
  let s3 := set_tg s2 p2 (s_tags s2 p1) in
  wbase s3 b.

(* ---- region_copy (statically equal types) ---- *)
Definition u_rcopy (l r : var) (s : rst2) : rval2 :=
  let info := s_rgn s r in
  let b0 := EMap (s_base s) in
  let s1 := set_info s l info in
  let s2 := set_al s1 l (s_alloc s1 r) in
  let s3 := set_tg s2 l (s_tags s2 r) in
  if negb (tracked (k_kind C r) (i_ty info)) then wbase s3 (gv_forget (gv_of s3 l) b0)
  else
    let bl := gv_of s3 l in let br := gv_of s3 r in
    if singleton_count (i_cnt info) then wbase s3 (gv_assign bl br b0)
    else wbase s3 (gv_expand br bl (gv_forget bl b0)).

(* ---- region_cast (exactly one of the two is an unknown region) ---- *)
Definition u_rcast (src dst : var) (s : rst2) : rval2 :=
  let b0 := gv_forget (gv_of s dst) (EMap (s_base s)) in
  let s1 := set_al s dst (s_alloc s src) in
  let s2 := set_tg s1 dst (s_tags s1 src) in
  let si := s_rgn s src in
  match k_kind C src with
  | VRgnUnk =>
    let nt := static_ty (k_kind C dst) in
    let s3 := set_info s2 dst (i_cnt si, i_ini si, nt) in
    if has_dyn VRgnUnk (i_ty si) && ty_leq nt (i_ty si)
    then wbase s3 (gv_assign (gv_of s3 dst) (gv_of s3 src) b0)
    else wbase s3 b0
  | ks =>
    let nt := static_ty ks in
    let s3 := set_info s2 dst (i_cnt si, i_ini si, nt) in
    if has_dyn (k_kind C dst) nt
    then wbase s3 (gv_assign (gv_of s3 dst) (gv_of s3 src) b0)
    else wbase s3 b0
  end.

(* ---- ref_assume: the three linear constraints (address, offset, size) are supplied in
   canonical form by the driver ---- *)
Definition u_assume_ref (c : rcst) (ea eo ez : linexp) (s : rst2) : rval2 :=
  let sites_disjoint :=
    match c with
    | RBin REq p q _ =>
      q_alloc P &&
      let la := s_alloc s p in let ra := s_alloc s q in
      negb (ds_is_bottom la) && negb (ds_is_bottom ra) &&
      (bv_is_false (null_of s p) || bv_is_false (null_of s q)) &&
      ds_is_bottom (ds_meet la ra)
    | _ => false
    end in
  if sites_disjoint then None
  else
    let k := rrel_kind (rcst_rel c) in
    let b := d_add [mkLC k ea] (EMap (s_base s)) in
    match c with
    | RUn REq _ =>
      (* for p == null the constraint on the address is added three times *)
      wbase s (d_add [mkLC k ea] (d_add [mkLC k ea] b))
    | RBin REq p q _ =>
      match snd (gv_of s p), snd (gv_of s q) with
      | Some _, Some _ => wbase s (d_add [mkLC k ez] (d_add [mkLC k eo] b))
      | _, _ => wbase s b
      end
    | _ => wbase s b
    end.

(* ---- ref_to_int / int_to_ref ---- *)
Definition u_r2i (p x : var) (s : rst2) : rval2 :=
  wbase (set_tg s x (s_tags s p)) (d_assign x (le_var (gv_var (gv_of s p))) (EMap (s_base s))).
Definition u_i2r (x g p : var) (s : rst2) : rval2 :=
  let gp := gv_of s p in
  let b := os_forget gp (d_assign (fst gp) (le_var x) (EMap (s_base s))) in
  let s1 := set_al s p ds_top in
  let s2 := set_tg s1 p (s_tags s1 x) in
  let i := s_rgn s2 g in
  wbase (set_info s2 g (rc_incr (i_cnt i) p, i_ini i, i_ty i)) b.

(* ---- operator-= / forget ---- *)
Definition u_havoc (v : var) (s : rst2) : rval2 :=
  let k := k_kind C v in
  let s1 := if vk_is_rgn k then set_info s v ri2_top else s in
  let s2 := if vk_is_rgn k || vk_is_ref k then set_al s1 v ds_top else s1 in
  let s3 := set_tg s2 v ds_top in
  (* the ghost variables are those of the type the variable has after it has been removed from
     the region environment *)
  wbase s3 (gv_forget (gv_of s3 v) (EMap (s_base s3))).
Fixpoint u_forget (vs : list var) (s : rst2) : rval2 :=
  match vs with
  | [] => Some s
  | v :: r => match u_havoc v s with None => None | Some s' => u_forget r s' end
  end.

(* ---- project ---- *)
Definition gv_list (g : gvars) : list var :=
  fst g :: match snd g with Some (o, z) => [o; z] | None => [] end.
Definition mem_var (v : var) (vs : list var) : bool := existsb (N.eqb v) vs.
Definition u_project (vs : list var) (s : rst2) : rval2 :=
  let gs := flat_map (fun v => gv_list (gv_of s v)) vs in
  let keep {A} (f : var -> A) (d : A) := fun v => if mem_var v vs then f v else d in
  wbase (mkR2 (s_base s) (keep (s_rgn s) ri2_top)
              (if q_alloc P then keep (s_alloc s) ds_top else s_alloc s)
              (if q_tags P then keep (s_tags s) ds_top else s_tags s))
        (e_project (EMap (s_base s)) gs).

(* ---- intrinsics ---- *)
Definition u_tag (g : var) (t : Z) (s : rst2) : rst2 :=
  set_tg s g (ds_join (s_tags s g) (Some [t])).
(* b := is_dereferenceable(rgn, ref, sz) over a base domain without booleans *)
Definition u_isderef (b : var) (s : rst2) : rval2 := if q_deref P then u_havoc b s else Some s.
(* ghost_offset_and_size::is_deref: [e] = size - offset - sz in canonical form.
   None = the reference has no offset / size ghost variables *)
Definition a_deref (p : var) (e : linexp) (s : rst2) : option bool :=
  match snd (gv_of s p) with
  | Some _ => Some (e_is_bot (d_add [mkLC STRICT e] (EMap (s_base s))))
  | None => None
  end.

(* ---- numerical statements ---- *)
Definition merge_tg (s : rst2) (vs : list var) : dset :=
  fold_left (fun acc v => ds_join acc (s_tags s v)) vs ds_empty.
Definition u_assign (x : var) (e : linexp) (s : rst2) : rval2 :=
  wbase (set_tg s x (merge_tg s (map snd (le_terms e)))) (d_assign x e (EMap (s_base s))).
Definition u_arith (op : arith_op) (x y : var) (z : operand) (s : rst2) : rval2 :=
  let tg := match z with
            | OVar v => ds_join (s_tags s y) (s_tags s v)
            | OCst _ => s_tags s y
            end in
  wbase (set_tg s x tg) (d_apply_arith op x y z (EMap (s_base s))).
Definition u_assume (cs : list lincst) (s : rst2) : rval2 := wbase s (d_add cs (EMap (s_base s))).

(* ---- lattice operations ---- *)
Definition comb2 (fb : env -> env -> env) (fr : rinfo2 -> rinfo2 -> rinfo2) (fd : dset -> dset -> dset)
           (a b : rst2) : rval2 :=
  wbase (mkR2 [] (fun v => fr (s_rgn a v) (s_rgn b v)) (fun v => fd (s_alloc a v) (s_alloc b v))
              (fun v => fd (s_tags a v) (s_tags b v)))
        (fb (EMap (s_base a)) (EMap (s_base b))).
Definition w_join (a b : rval2) : rval2 :=
  match a, b with
  | None, _ => b | _, None => a
  | Some x, Some y => comb2 e_join ri2_join ds_join x y
  end.
Definition w_widen (a b : rval2) : rval2 :=
  match a, b with
  | None, _ => b | _, None => a
  | Some x, Some y => comb2 e_widen ri2_join ds_join x y
  end.
Definition w_meet_gen (fb : env -> env -> env) (a b : rval2) : rval2 :=
  match a, b with
  | None, _ | _, None => None
  | Some x, Some y =>
    if existsb (fun g => ri2_is_bot (ri2_meet (s_rgn x g) (s_rgn y g))) (k_univ C) then None
    else comb2 fb ri2_meet ds_meet x y
  end.
Definition w_meet := w_meet_gen e_meet.
Definition w_narrow := w_meet_gen e_narrow.

(* ---- select_ref (DEFAULT_SELECT_REF; assume_bool is the identity over intervals) ---- *)
Definition lift2 (f : rst2 -> rval2) (v : rval2) : rval2 := match v with None => None | Some s => f s end.
Definition u_sel_arm (p g : var) (arm : option (var * var)) (null_exp : linexp)
           (garm : var -> var -> linexp * linexp) (s : rst2) : rval2 :=
  match arm with
  | None => lift2 (u_assume_ref (RUn REq p) null_exp null_exp null_exp) (u_havoc p s)
  | Some (q, gq) => let (ad, oe) := garm q gq in u_gep p g q gq (le_const 0) ad oe s
  end.
Definition u_selref (p g : var) (a1 a2 : option (var * var)) (null_exp : linexp)
           (garm : var -> var -> linexp * linexp) (s : rst2) : rval2 :=
  w_join (u_sel_arm p g a1 null_exp garm s) (u_sel_arm p g a2 null_exp garm s).

(* ---- register machine ---- *)
Inductive rop2 :=
| PTop (r : reg) | PBot (r : reg) | PCopy (r s : reg)
| PInit (r : reg) (g : var)
| PMk (r : reg) (p g : var) (site : Z) (size : operand)
| PFree (r : reg) (g p : var)
| PLd (r : reg) (x p g : var)
| PSt (r : reg) (p g : var) (v : sval)
| PGep (r : reg) (p2 g2 p1 g1 : var) (offset addr offe : linexp)
| PRcopy (r : reg) (l g : var)
| PRcast (r : reg) (src dst : var)
| PAssumeRef (r : reg) (c : rcst) (ea eo ez : linexp)
| PSelRef (r : reg) (p g : var) (a1 a2 : option (var * var)) (null_exp : linexp) (garm : var -> var -> linexp * linexp)
| PR2i (r : reg) (p x : var)
| PI2r (r : reg) (x g p : var)
| PTag (r : reg) (g : var) (t : Z)
| PIsDeref (r : reg) (b : var)
| PAssign (r : reg) (x : var) (e : linexp)
| PArith (r : reg) (op : arith_op) (x y : var) (z : operand)
| PAssume (r : reg) (cs : list lincst)
| PHavoc (r : reg) (v : var)
| PForget (r : reg) (vs : list var)
| PProject (r : reg) (vs : list var)
| PJoin (r s t : reg) | PMeet (r s t : reg) | PWiden (r s t : reg) | PNarrow (r s t : reg).

Definition wget (rs : list rval2) (r : reg) : rval2 := nth r rs (Some s_top).
Fixpoint wset (rs : list rval2) (r : reg) (v : rval2) : list rval2 :=
  match rs, r with
  | [], _ => []
  | _ :: t, O => v :: t
  | h :: t, S r' => h :: wset t r' v
  end.

(* one step; None = the C++ aborts (CRAB_ERROR) *)
Definition pstep (rs : list rval2) (o : rop2) : option (list rval2) :=
  let upd r f := Some (wset rs r (lift2 f (wget rs r))) in
  match o with
  | PTop r => Some (wset rs r (Some s_top))
  | PBot r => Some (wset rs r None)
  | PCopy r s => Some (wset rs r (wget rs s))
  | PInit r g =>
    match wget rs r with
    | None => Some rs
    | Some s => match u_init g s with None => None | Some s' => Some (wset rs r s') end
    end
  | PMk r p g site size => upd r (u_mk p g site size)
  | PFree r g p => upd r (fun s => Some (u_free g p s))
  | PLd r x p g => upd r (u_load x p g)
  | PSt r p g v =>
    match wget rs r with
    | None => Some rs
    | Some s => match u_store p g v s with None => None | Some s' => Some (wset rs r s') end
    end
  | PGep r p2 g2 p1 g1 off addr offe => upd r (u_gep p2 g2 p1 g1 off addr offe)
  | PRcopy r l g => upd r (u_rcopy l g)
  | PRcast r src dst => upd r (u_rcast src dst)
  | PAssumeRef r c ea eo ez => upd r (u_assume_ref c ea eo ez)
  | PSelRef r p g a1 a2 ne garm => upd r (u_selref p g a1 a2 ne garm)
  | PR2i r p x => upd r (u_r2i p x)
  | PI2r r x g p => upd r (u_i2r x g p)
  | PTag r g t => upd r (fun s => Some (u_tag g t s))
  | PIsDeref r b => upd r (u_isderef b)
  | PAssign r x e => upd r (u_assign x e)
  | PArith r op x y z => upd r (u_arith op x y z)
  | PAssume r cs => upd r (u_assume cs)
  | PHavoc r v => upd r (u_havoc v)
  | PForget r vs => upd r (u_forget vs)
  | PProject r vs => upd r (u_project vs)
  | PJoin r s t => Some (wset rs r (w_join (wget rs s) (wget rs t)))
  | PMeet r s t => Some (wset rs r (w_meet (wget rs s) (wget rs t)))
  | PWiden r s t => Some (wset rs r (w_widen (wget rs s) (wget rs t)))
  | PNarrow r s t => Some (wset rs r (w_narrow (wget rs s) (wget rs t)))
  end.

Fixpoint prun (rs : list rval2) (h : list rop2) : option (list rval2) :=
  match h with
  | [] => Some rs
  | o :: t => match pstep rs o with None => None | Some rs' => prun rs' t end
  end.

(* ---- observations ---- *)
Definition o_at (v : rval2) (x : var) : itv :=
  match v with None => ibot | Some s => get (s_base s) (gv_var (gv_of s x)) end.
Definition o_null (v : rval2) (p : var) : bv := match v with None => BBot | Some s => null_of s p end.
Definition o_sites (v : rval2) (p : var) : dset := match v with None => ds_top | Some s => s_alloc s p end.
Definition o_tags (v : rval2) (g : var) : dset := match v with None => ds_top | Some s => s_tags s g end.
Definition o_info (v : rval2) (g : var) : rinfo2 := match v with None => ri2_top | Some s => s_rgn s g end.
(* offset and size ghost variables, if the variable has them *)
Definition o_offsize (v : rval2) (x : var) : option (itv * itv) :=
  match v with
  | None => None
  | Some s => match snd (gv_of s x) with
              | Some (o, z) => Some (get (s_base s) o, get (s_base s) z)
              | None => None
              end
  end.
Definition o_raw (v : rval2) (x : var) : itv := match v with None => ibot | Some s => get (s_base s) x end.
Definition o_deref (v : rval2) (p : var) (e : linexp) : option (option bool) :=
  match v with None => None | Some s => Some (a_deref p e s) end.
End Model.
