(* RegionCore2Sound.v — property C15 on the extended region-domain model (Dom/RegionCore2.v).

   Concrete semantics: a store over the base variables (integers, booleans; for a reference its
   address and, with region.is_dereferenceable, its ghost offset and size), a heap
   region -> component -> address -> value (a cell holds an integer, or a reference with its ghost
   offset and size: components PInt / PAdr, POff, PSiz), and the instrumentation of
   Dom/RegionCoreSound.v (references created per region, allocation sites, tags).
   The abstract value is related to a concrete state through a witness store that gives every
   ghost variable of a region a representative; a ghost variable of a region describes the
   component of every cell of the region it is LIVE for: the ghost variables an unknown region
   has under its current dynamic type when it is tracked, none otherwise.  The base domain is
   non-relational, so a value describes the product of one set of integers per base variable
   ([allowed], [RBA]); all transfer functions are composed from a few lemmas on such products
   (rb_upd, rb_forget_list, rb_assign, rb_weak_assign, rb_read, rb_expand, the rb_comp lemmas).

   Proved here (every parameter setting, typed and unknown regions, both settings of
   skip_unknown_regions): ref_make with a size, ref_free, ref_load (tracked / untracked / type
   mismatch, strong and weak reads of one or three ghost variables), ref_gep with offsets,
   ref_assume with the offset and size constraints, int_to_ref, ref_to_int, operator-= on
   integers and references, the is_dereferenceable intrinsic and query, assign / arithmetic /
   assume, and the history theorem over these operations (region2_history_sound); the base-domain
   part of ref_store (rb_mem_write, rb_retype, rb_write_notlive) and everything but the base
   domain (store_rest).  NOT proved (mirrored and tested only): the assembly of ref_store,
   region_init, region_copy, region_cast, operator-= on regions, forget, project, add_tag,
   select_ref and the lattice operations on the extended state. *)
From Coq Require Import ZArith NArith List Bool Lia.
From CrabV Require Import Base.ZInf Scalar.Itv Scalar.ItvSound Scalar.SmallRange Scalar.Boolean
     Ir.Syntax Dom.ItvEnv Dom.ItvEnvSound Dom.ItvSolver Dom.ItvSolverSound Dom.ItvDomain
     Dom.ItvDomainSound Dom.RegionCore Dom.RegionCoreSound Dom.RegionCore2.
Import ListNotations.
Local Open Scope Z_scope.

Arguments d_add : simpl never.
Arguments d_assign : simpl never.
Arguments d_weak_assign : simpl never.
Arguments d_expand : simpl never.
Arguments d_apply_arith : simpl never.

(* ------------------------------------------------------------------ concrete states *)
(* the components of a memory cell: an integer, or a reference with its ghost offset and size *)
Inductive prj := PInt | PAdr | POff | PSiz.
Definition prj_eqb (a b : prj) : bool :=
  match a, b with PInt, PInt | PAdr, PAdr | POff, POff | PSiz, PSiz => true | _, _ => false end.
Lemma prj_eqb_spec a b : reflect (a = b) (prj_eqb a b).
Proof. destruct a, b; cbn; constructor; congruence. Qed.
Definition heap := var -> prj -> Z -> option Z.

Record cst := mkS {
  m_st : store;
  m_hp : heap;
  m_made : var -> list (Z * Z);
  m_asite : Z -> option Z;
  m_vtg : var -> list Z;
  m_htg : var -> Z -> list Z
}.
Definition maddrs (c : cst) (g : var) : list Z := map snd (m_made c g).
Definition mcreators (c : cst) (g : var) : list Z := map fst (m_made c g).
Definition mwf (c : cst) : Prop := forall g k a z, m_hp c g k a = Some z -> In a (maddrs c g).
Definition mvalid (c : cst) (g : var) (a : Z) : Prop := a <> 0 /\ In a (maddrs c g).

Definition hwrite (hp : heap) (g : var) (a : Z) (f : prj -> option Z) : heap :=
  fun g' k x => if N.eqb g' g && (x =? a) then f k else hp g' k x.
Definition cell_int (z : Z) : prj -> option Z := fun k => match k with PInt => Some z | _ => None end.
Definition cell_ref (ad o s : Z) : prj -> option Z :=
  fun k => match k with PInt => None | PAdr => Some ad | POff => Some o | PSiz => Some s end.

Lemma hwrite_same hp g a f k : hwrite hp g a f g k a = f k.
Proof. unfold hwrite. rewrite N.eqb_refl, Z.eqb_refl. reflexivity. Qed.
Lemma hwrite_other_rgn hp g a f g' k x : g' <> g -> hwrite hp g a f g' k x = hp g' k x.
Proof. unfold hwrite. intros H. destruct (N.eqb_spec g' g); [congruence|reflexivity]. Qed.
Lemma hwrite_other_addr hp g a f g' k x : x <> a -> hwrite hp g a f g' k x = hp g' k x.
Proof. unfold hwrite. intros H. destruct (Z.eqb_spec x a); [congruence|]. rewrite andb_false_r. reflexivity. Qed.

(* ------------------------------------------------------------------ views *)
(* A family of sets of values, one per base variable, and the stores it describes.  The base
   domain is non-relational: an abstract value describes the product of the sets. *)
Definition vsets := var -> Z -> Prop.
Definition VW (A : vsets) (s : store) : Prop := forall v, A v (s v).
Definition RBA (A : vsets) (E : env) : Prop := forall s, VW A s -> genv E s.

(* the general step: [x] is updated, the sets of the other variables do not grow *)
Lemma rb_upd (A : vsets) E (A' : vsets) E' x (P : store -> Z -> Prop) :
  RBA A E ->
  (forall s z, VW A s -> genv E s -> P s z -> genv E' (upd s x z)) ->
  (forall v z, v <> x -> A' v z -> A v z) ->
  (forall s', VW A' s' -> exists z0, A x z0 /\ P (upd s' x z0) (s' x)) ->
  RBA A' E'.
Proof.
  intros R H1 H2 H3 s' V'. destruct (H3 _ V') as (z0 & A0 & PP).
  assert (V : VW A (upd s' x z0)).
  { intros v. destruct (N.eq_dec v x) as [->|N].
    - rewrite upd_same. exact A0.
    - rewrite upd_other by auto. apply H2; auto. }
  pose proof (H1 _ _ V (R _ V) PP) as G. eapply genv_ext; [|exact G].
  intros k. destruct (N.eq_dec k x) as [->|N]; [rewrite upd_same; reflexivity|rewrite !upd_other by auto; reflexivity].
Qed.

(* nothing is updated: the sets do not grow *)
Lemma rb_mono (A : vsets) E (A' : vsets) E' :
  RBA A E ->
  (forall s, VW A s -> genv E s -> genv E' s) ->
  (forall v z, A' v z -> A v z) ->
  RBA A' E'.
Proof. intros R H1 H2 s' V'. assert (V : VW A s') by (intros v; apply H2, V'). apply H1; auto. Qed.

Lemma rb_shrink (A A' : vsets) E : RBA A E -> (forall v z, A' v z -> A v z) -> RBA A' E.
Proof. intros R H. apply (rb_mono A E A' E R); auto. Qed.

Lemma rb_forget (A : vsets) E (A' : vsets) x :
  RBA A E -> (exists z0, A x z0) ->
  (forall v z, v <> x -> A' v z -> A v z) ->
  RBA A' (e_forget E x).
Proof.
  intros R (z0 & A0) H2. apply (rb_upd A E A' _ x (fun _ _ => True) R); auto.
  - intros s z V G _. apply e_forget_sound; auto.
  - intros s' V'. exists z0. split; [exact A0|exact I].
Qed.

Lemma rb_forget_list xs : forall (A : vsets) E (A' : vsets),
  RBA A E -> (forall v, exists z, A v z) -> (forall v, exists z, A' v z) ->
  (forall v z, ~ In v xs -> A' v z -> A v z) ->
  RBA A' (fold_left e_forget xs E).
Proof.
  induction xs as [|x r IH]; simpl; intros A E A' R N N' H.
  - apply (rb_shrink A A' E R). intros v z. apply H. intros [].
  - set (A1 := fun v z => if N.eqb v x then A' v z else A v z).
    apply (IH A1 (e_forget E x) A').
    + apply (rb_forget A E A1 x R (N x)). intros v z Nv. unfold A1.
      destruct (N.eqb_spec v x); [congruence|auto].
    + intros v. unfold A1. destruct (N.eqb v x); auto.
    + exact N'.
    + intros v z NI Av. unfold A1. destruct (N.eqb_spec v x) as [->|Nx]; auto.
      apply H; auto. intros [E0|I]; [congruence|contradiction].
Qed.

Lemma rb_assign (A : vsets) E (A' : vsets) x e :
  RBA A E ->
  (forall v z, v <> x -> A' v z -> A v z) ->
  (forall s', VW A' s' -> exists z0, A x z0 /\ s' x = eval_le e (upd s' x z0)) ->
  RBA A' (d_assign x e E).
Proof.
  intros R H2 H3. apply (rb_upd A E A' _ x (fun s z => z = eval_le e s) R); auto.
  intros s z V G ->. apply d_assign_sound; auto.
Qed.

Lemma rb_weak_assign (A : vsets) E (A' : vsets) x e :
  RBA A E ->
  (forall v z, v <> x -> A' v z -> A v z) ->
  (forall s', VW A' s' -> A x (s' x) \/ exists z0, A x z0 /\ s' x = eval_le e (upd s' x z0)) ->
  RBA A' (d_weak_assign x e E).
Proof.
  intros R H2 H3.
  apply (rb_upd A E A' _ x (fun s z => z = s x \/ z = eval_le e s) R); auto.
  - intros s z V G [->| ->].
    + destruct (d_weak_assign_sound x e E s G) as [W _]. eapply genv_ext; [|exact W].
      intros k. destruct (N.eq_dec k x) as [->|N]; [rewrite upd_same|rewrite upd_other by auto]; reflexivity.
    + destruct (d_weak_assign_sound x e E s G) as [_ W]. exact W.
  - intros s' V'. destruct (H3 _ V') as [A0|(z0 & A0 & Ev)].
    + exists (s' x). split; auto. left. rewrite upd_same. reflexivity.
    + exists z0. split; auto.
Qed.

Lemma rb_nonbot (A : vsets) E w : RBA A E -> VW A w -> exists m, E = EMap m.
Proof. intros R V. specialize (R _ V). destruct E as [|m]; [elim R|eauto]. Qed.

(* which base variables summarise which component of the cells of a region *)
Definition live_fn := var -> list (var * prj).
(* the values a base variable stands for: its own value in the witness store [w], or the
   component of any cell of a region it summarises *)
Definition allowed (L : live_fn) (hp : heap) (w : store) : vsets :=
  fun v z => z = w v \/ exists g k x, In (v, k) (L g) /\ hp g k x = Some z.
Lemma allowed_w L hp w : VW (allowed L hp w) w.
Proof. intros v. left. reflexivity. Qed.
Lemma allowed_ne L hp w v : exists z, allowed L hp w v z.
Proof. exists (w v). left. reflexivity. Qed.

(* ------------------------------------------------------------------ the relation *)
Definition igamma2 (b : bv) (c : cst) (g : var) : Prop :=
  match b with
  | BFalse => forall k x, m_hp c g k x = None
  | BTrue => exists k x z, m_hp c g k x = Some z
  | BBot => False
  | BTop => True
  end.
Lemma ig2_join x y c g : igamma2 x c g \/ igamma2 y c g -> igamma2 (bv_join x y) c g.
Proof. destruct x, y; cbn; intros [H|H]; auto; try contradiction. Qed.
Lemma ig2_meet x y c g : igamma2 x c g -> igamma2 y c g -> igamma2 (bv_meet x y) c g.
Proof.
  destruct x, y; cbn; intros H1 H2; auto; try contradiction.
  - destruct H2 as (k & a & z & E). rewrite H1 in E. discriminate.
  - destruct H1 as (k & a & z & E). rewrite H2 in E. discriminate.
Qed.
Definition sgamma2 (c : cst) (d : dset) (z : Z) : Prop :=
  match d with
  | None => True
  | Some ss => z = 0 \/ exists site, m_asite c z = Some site /\ In site ss
  end.
Lemma sg2_join c a b z : sgamma2 c a z \/ sgamma2 c b z -> sgamma2 c (ds_join a b) z.
Proof.
  destruct a as [x|], b as [y|]; cbn; auto.
  intros [[H|(s & A & I)]|[H|(s & A & I)]]; auto; right; exists s; split; auto; apply in_or_app; auto.
Qed.
Lemma sg2_meet c a b z : sgamma2 c a z -> sgamma2 c b z -> sgamma2 c (ds_meet a b) z.
Proof.
  unfold ds_meet. intros H1 H2.
  destruct (ds_is_bottom a) eqn:B1.
  { destruct a as [[|? ?]|]; try discriminate. cbn in *. destruct H1 as [H|(s & _ & [])]; auto. }
  destruct (ds_is_bottom b) eqn:B2.
  { destruct b as [[|? ?]|]; try discriminate. cbn in *. destruct H2 as [H|(s & _ & [])]; auto. }
  cbn [orb]. destruct a as [x|], b as [y|]; auto.
  cbn in *. destruct H1 as [H|(s & A & I)]; auto. destruct H2 as [H|(s' & A' & I')]; auto.
  right. exists s. split; auto. apply filter_In. split; auto. apply ds_mem_spec. congruence.
Qed.
Lemma sg2_zero c d : sgamma2 c d 0.
Proof. destruct d; cbn; auto. Qed.
Lemma sg2_mono c c' d z :
  (forall y s, m_asite c y = Some s -> m_asite c' y = Some s) -> sgamma2 c d z -> sgamma2 c' d z.
Proof.
  intros E. destruct d as [ss|]; cbn; auto. intros [H|(s & A & I)]; auto. right. exists s. split; auto.
Qed.

Section Sound.
Variable C : rconf2.
Let P := k_params C.
(* the CrabIR variables of the program; every other name is a ghost name *)
Variable prog : var -> bool.
Hypothesis kind_np : forall v, prog v = false -> k_kind C v = VInt.
Hypothesis adr_np : forall v, prog (k_adr C v) = false.
Hypothesis off_np : forall v, prog (k_off C v) = false.
Hypothesis siz_np : forall v, prog (k_siz C v) = false.
Hypothesis dup_np : forall v, prog (k_dup C v) = false.
Hypothesis adr_inj : forall a b, k_adr C a = k_adr C b -> a = b.
Hypothesis off_inj : forall a b, k_off C a = k_off C b -> a = b.
Hypothesis siz_inj : forall a b, k_siz C a = k_siz C b -> a = b.
Hypothesis dup_inj : forall a b, k_dup C a = k_dup C b -> a = b.
Hypothesis adr_off : forall a b, k_adr C a <> k_off C b.
Hypothesis adr_siz : forall a b, k_adr C a <> k_siz C b.
Hypothesis off_siz : forall a b, k_off C a <> k_siz C b.
Hypothesis dup_adr : forall a b, k_dup C a <> k_adr C b.
Hypothesis dup_off : forall a b, k_dup C a <> k_off C b.
Hypothesis dup_siz : forall a b, k_dup C a <> k_siz C b.

(* the base variable holding the address of a reference / the contents of a region of references *)
Definition ga (v : var) : var := fst (gv_ref C v).
Definition go (v : var) : var := k_off C v.
Definition gz (v : var) : var := k_siz C v.
Lemma ga_cases v : (q_deref P = true /\ ga v = k_adr C v) \/ (q_deref P = false /\ ga v = v).
Proof. unfold ga, gv_ref. fold P. destruct (q_deref P); auto. Qed.
Lemma gv_ref_eq v : gv_ref C v = (ga v, if q_deref P then Some (go v, gz v) else None).
Proof. unfold ga, gv_ref, go, gz. fold P. destruct (q_deref P); reflexivity. Qed.

(* ---- which ghost variables of a region describe cells ---- *)
Definition comps (t : rty) (gv : gvars) : list (var * prj) :=
  match t with
  | TInt => [(fst gv, PInt)]
  | TRef => (fst gv, PAdr) :: match snd gv with Some (o, z) => [(o, POff); (z, PSiz)] | None => [] end
  | TUnk => []
  end.
(* the type of the contents of a tracked region *)
Definition live_ty (t : tyv) (k : vk) : option rty :=
  match k with
  | VRgnInt => Some TInt
  | VRgnRef => Some TRef
  | VRgnUnk => if has_dyn C VRgnUnk t then match t with Ty TInt => Some TInt | Ty TRef => Some TRef | _ => None end else None
  | _ => None
  end.
Definition live_of (g : var) (t : tyv) : list (var * prj) :=
  match live_ty t (k_kind C g) with Some r => comps r (gv_of_ty C g t) | None => [] end.
Definition live (a : rst2) : live_fn := fun g => live_of g (typ a g).

(* names that may be ghost variables of regions *)
Definition rgn_name (v : var) : Prop :=
  exists g, vk_is_rgn (k_kind C g) = true /\ (v = g \/ v = k_adr C g \/ v = k_off C g \/ v = k_siz C g).

Lemma live_of_inv g t v k : In (v, k) (live_of g t) ->
  vk_is_rgn (k_kind C g) = true /\
  ((k = PInt /\ v = g) \/ (k = PAdr /\ v = ga g) \/ (k = POff /\ v = go g /\ q_deref P = true) \/
   (k = PSiz /\ v = gz g /\ q_deref P = true)).
Proof.
  assert (RF : In (v, k) (comps TRef (gv_ref C g)) ->
          (k = PAdr /\ v = ga g) \/ (k = POff /\ v = go g /\ q_deref P = true) \/
          (k = PSiz /\ v = gz g /\ q_deref P = true)).
  { rewrite gv_ref_eq. cbn [comps fst snd]. destruct (q_deref P) eqn:D.
    - intros [E|[E|[E|[]]]]; inversion E; subst; auto 8.
    - intros [E|[]]; inversion E; subst; auto 8. }
  unfold live_of, live_ty, gv_of_ty.
  destruct (k_kind C g) eqn:K; cbn [vk_is_rgn In]; try contradiction.
  - cbn. intros [E|[]]. inversion E; subst. auto.
  - intros I. split; auto.
  - destruct (has_dyn C VRgnUnk t) eqn:HD; [|contradiction].
    destruct t as [| |[| |]]; try contradiction.
    + cbn. intros [E|[]]. inversion E; subst. auto.
    + intros I. split; auto.
Qed.

Lemma live_rgn_name a g v k : In (v, k) (live a g) -> rgn_name v.
Proof.
  intros I. apply live_of_inv in I. destruct I as [K H]. exists g. split; auto.
  destruct H as [[_ E]|[[_ E]|[[_ [E _]]|[_ [E _]]]]]; subst v; auto.
  destruct (ga_cases g) as [[_ E]|[_ E]]; rewrite E; auto.
Qed.

Lemma allowed_notrgn a hp w v z : ~ rgn_name v -> allowed (live a) hp w v z -> z = w v.
Proof. intros N [E|(g & k & x & I & _)]; auto. elim N. eapply live_rgn_name; eauto. Qed.

(* program variables that are not regions, and their ghost names, are not names of regions *)
Definition scalar_kind (k : vk) : bool := negb (vk_is_rgn k).
Lemma prog_of_rgn g : vk_is_rgn (k_kind C g) = true -> prog g = true.
Proof. intros K. destruct (prog g) eqn:E; auto. rewrite (kind_np _ E) in K. discriminate. Qed.
Lemma notrgn_scalar x : vk_is_rgn (k_kind C x) = false -> prog x = true -> ~ rgn_name x.
Proof.
  intros K Px (g & Kg & [-> | [-> | [-> | ->]]]); try congruence.
Qed.
Lemma notrgn_adr x : vk_is_rgn (k_kind C x) = false -> ~ rgn_name (k_adr C x).
Proof.
  intros K (g & Kg & [E|[E|[E|E]]]).
  - pose proof (prog_of_rgn _ Kg) as Pg. rewrite <- E, adr_np in Pg. discriminate.
  - apply adr_inj in E. subst. congruence.
  - eapply adr_off; eauto.
  - eapply adr_siz; eauto.
Qed.
Lemma notrgn_off x : vk_is_rgn (k_kind C x) = false -> ~ rgn_name (k_off C x).
Proof.
  intros K (g & Kg & [E|[E|[E|E]]]).
  - pose proof (prog_of_rgn _ Kg) as Pg. rewrite <- E, off_np in Pg. discriminate.
  - symmetry in E. eapply adr_off; eauto.
  - apply off_inj in E. subst. congruence.
  - eapply off_siz; eauto.
Qed.
Lemma notrgn_siz x : vk_is_rgn (k_kind C x) = false -> ~ rgn_name (k_siz C x).
Proof.
  intros K (g & Kg & [E|[E|[E|E]]]).
  - pose proof (prog_of_rgn _ Kg) as Pg. rewrite <- E, siz_np in Pg. discriminate.
  - symmetry in E. eapply adr_siz; eauto.
  - symmetry in E. eapply off_siz; eauto.
  - apply siz_inj in E. subst. congruence.
Qed.
Lemma notrgn_ga x : vk_is_rgn (k_kind C x) = false -> prog x = true -> ~ rgn_name (ga x).
Proof.
  intros K Px. destruct (ga_cases x) as [[_ E]|[_ E]]; rewrite E; [apply notrgn_adr | apply notrgn_scalar]; auto.
Qed.
Lemma notrgn_dup x : ~ rgn_name (k_dup C x).
Proof.
  intros (g & Kg & [E|[E|[E|E]]]).
  - pose proof (prog_of_rgn _ Kg) as Pg. rewrite <- E, dup_np in Pg. discriminate.
  - eapply dup_adr; eauto.
  - eapply dup_off; eauto.
  - eapply dup_siz; eauto.
Qed.

(* ------------------------------------------------------------------ the relation *)
Definition Aof (a : rst2) (c : cst) (w : store) : vsets := allowed (live a) (m_hp c) w.

(* [w]: the base store seen by the abstract value: the program store plus a representative for
   every ghost variable of a region *)
Record rel2 (a : rst2) (c : cst) (w : store) : Prop := mkRel2 {
  x_base : RBA (Aof a c w) (EMap (s_base a));
  x_count : forall g, cgamma (cnt a g) (mcreators c g);
  x_init : forall g, igamma2 (ini a g) c g;
  x_wf : mwf c;
  x_svar : forall p, k_kind C p = VRef -> prog p = true -> sgamma2 c (s_alloc a p) (w (ga p));
  x_srgn : forall g x ad, vk_is_rgn (k_kind C g) = true -> m_hp c g PAdr x = Some ad -> sgamma2 c (s_alloc a g) ad;
  x_soff : q_alloc P = false -> forall v, s_alloc a v = None;
  x_anull : m_asite c 0 = None;
  x_tvar : forall v, vk_is_rgn (k_kind C v) = false -> tgamma (s_tags a v) (m_vtg c v);
  x_trgn : forall g x, vk_is_rgn (k_kind C g) = true -> tgamma (s_tags a g) (m_htg c g x);
  x_toff : q_tags P = false -> forall v, s_tags a v = None;
  x_tuw : forall g x, (forall k, m_hp c g k x = None) -> m_htg c g x = []
}.
Definition agree (w : store) (c : cst) : Prop := forall v, ~ rgn_name v -> w v = m_st c v.
Definition relc (a : rst2) (c : cst) : Prop := exists w, agree w c /\ rel2 a c w.
Definition relv2 (v : rval2) (c : cst) : Prop := match v with None => False | Some a => relc a c end.

(* ------------------------------------------------------------------ concrete operations *)
(* without region.is_dereferenceable references have no ghost offset / size *)
Definition set_ref (st : store) (p : var) (ad o s : Z) : store :=
  if q_deref P then upd (upd (upd st (ga p) ad) (go p) o) (gz p) s else upd st (ga p) ad.
Definition sval_cell (v : sval) (st : store) (f : prj -> option Z) : Prop :=
  match v with
  | SCst k => f = cell_int k
  | SNull => exists o s, f = cell_ref 0 o s
  | SVar x false => f = cell_int (st x)
  | SVar x true => f = cell_ref (st (ga x)) (st (go x)) (st (gz x))
  end.
Definition sval_tg (v : sval) (c : cst) : list Z := match v with SVar x _ => m_vtg c x | _ => [] end.

(* operator-= *)
Definition c_havoc (v : var) (c c' : cst) : Prop :=
  match k_kind C v with
  | VRef =>
    exists ad o s tl, c' = mkS (set_ref (m_st c) v ad o s) (m_hp c) (m_made c) (m_asite c) (fupd (m_vtg c) v tl) (m_htg c)
  | VInt | VBool =>
    exists z tl, c' = mkS (upd (m_st c) v z) (m_hp c) (m_made c) (m_asite c) (fupd (m_vtg c) v tl) (m_htg c)
  | _ =>
    m_st c' = m_st c /\ (forall g, g <> v -> m_hp c' g = m_hp c g) /\
    (forall g, g <> v -> m_made c' g = m_made c g) /\ m_asite c' = m_asite c /\ m_vtg c' = m_vtg c /\
    (forall g, g <> v -> m_htg c' g = m_htg c g) /\ mwf c' /\
    (forall x, (forall k, m_hp c' v k x = None) -> m_htg c' v x = [])
  end.
Fixpoint c_forget (vs : list var) (c c' : cst) : Prop :=
  match vs with
  | [] => c' = c
  | v :: r => exists c1, c_havoc v c c1 /\ c_forget r c1 c'
  end.

(* ref2 := ref1 + off *)
Definition c_gep2 (p2 g2 p1 g1 : var) (ov : Z) (lit0 : bool) (c c' : cst) : Prop :=
  let a1 := m_st c (ga p1) in let a2 := a1 + ov in
  (g1 = g2 -> a2 = a1 -> In a1 (maddrs c g1) \/ lit0 = true) /\
  (a1 = 0 -> a2 = 0) /\ m_asite c a2 = m_asite c a1 /\
  c' = mkS (set_ref (m_st c) p2 a2 (m_st c (go p1) + ov) (m_st c (gz p1))) (m_hp c)
           (if N.eqb g1 g2 && (a2 =? a1) then m_made c
            else fupd (m_made c) g2 (m_made c g2 ++ [(Z.of_N p2, a2)]))
           (m_asite c) (fupd (m_vtg c) p2 (m_vtg c p1)) (m_htg c).

(* reference constraints are about addresses; an equality p == q + k is only assumed between
   references into the same memory object (hence with coherent ghost offsets and sizes) *)
Definition rcst_holds2 (rc : rcst) (st : store) : Prop :=
  match rc with
  | RUn r p => rrel_holds r (st (ga p)) 0
  | RBin r p q k => rrel_holds r (st (ga p)) (st (ga q) + k)
  end.
Definition c_assume_ref2 (rc : rcst) (c c' : cst) : Prop :=
  rcst_holds2 rc (m_st c) /\
  match rc with
  | RBin REq p q k =>
    (k <> 0 -> m_asite c (m_st c (ga p)) = m_asite c (m_st c (ga q))) /\
    (q_deref P = true -> m_st c (go p) = m_st c (go q) + k /\ m_st c (gz p) = m_st c (gz q))
  | _ => True
  end /\ c' = c.

Definition c_sel_arm2 (p g : var) (arm : option (var * var)) (c c' : cst) : Prop :=
  match arm with
  | None => exists c1, c_havoc p c c1 /\ c_assume_ref2 (RUn REq p) c1 c'
  | Some (q, gq) => c_gep2 p g q gq 0 true c c'
  end.

Definition copy_rgn (l g : var) (c : cst) : cst :=
  mkS (m_st c) (fupd (m_hp c) l (m_hp c g)) (fupd (m_made c) l (m_made c g)) (m_asite c) (m_vtg c)
      (fupd (m_htg c) l (m_htg c g)).

Definition cstep2 (o : rop2) (c c' : cst) : Prop :=
  match o with
  | PInit _ g =>
    c' = mkS (m_st c) (fupd (m_hp c) g (fun _ _ => None)) (fupd (m_made c) g []) (m_asite c) (m_vtg c)
             (fupd (m_htg c) g (fun _ => []))
  | PMk _ p g site size =>
    exists a, a <> 0 /\ m_asite c a = None /\
      c' = mkS (set_ref (m_st c) p a 0 (operand_val size (m_st c))) (m_hp c)
               (fupd (m_made c) g (m_made c g ++ [(Z.of_N p, a)]))
               (fun x => if x =? a then Some site else m_asite c x) (fupd (m_vtg c) p []) (m_htg c)
  | PFree _ g p => c' = c
  | PLd _ x p g =>
    let a := m_st c (ga p) in
    mvalid c g a /\
    match k_kind C x with
    | VInt => exists z, m_hp c g PInt a = Some z /\
        c' = mkS (upd (m_st c) x z) (m_hp c) (m_made c) (m_asite c) (fupd (m_vtg c) x (m_htg c g a)) (m_htg c)
    | VRef => exists ad o s, m_hp c g PAdr a = Some ad /\ m_hp c g POff a = Some o /\ m_hp c g PSiz a = Some s /\
        c' = mkS (set_ref (m_st c) x ad o s) (m_hp c) (m_made c) (m_asite c) (fupd (m_vtg c) x (m_htg c g a)) (m_htg c)
    | _ => False
    end
  | PSt _ p g v =>
    let a := m_st c (ga p) in
    mvalid c g a /\ exists f, sval_cell v (m_st c) f /\
      c' = mkS (m_st c) (hwrite (m_hp c) g a f) (m_made c) (m_asite c) (m_vtg c) (hupd (m_htg c) g a (sval_tg v c))
  | PGep _ p2 g2 p1 g1 off _ _ => c_gep2 p2 g2 p1 g1 (eval_le off (m_st c)) (lit_zero off) c c'
  | PRcopy _ l g => c' = copy_rgn l g c
  | PRcast _ src dst => c' = copy_rgn dst src c
  | PAssumeRef _ rc _ _ _ => c_assume_ref2 rc c c'
  | PSelRef _ p g a1 a2 _ _ => c_sel_arm2 p g a1 c c' \/ c_sel_arm2 p g a2 c c'
  | PR2i _ p x =>
    c' = mkS (upd (m_st c) x (m_st c (ga p))) (m_hp c) (m_made c) (m_asite c) (fupd (m_vtg c) x (m_vtg c p)) (m_htg c)
  | PI2r _ x g p =>
    exists o s, c' = mkS (set_ref (m_st c) p (m_st c x) o s) (m_hp c)
                         (fupd (m_made c) g (m_made c g ++ [(Z.of_N p, m_st c x)]))
                         (m_asite c) (fupd (m_vtg c) p (m_vtg c x)) (m_htg c)
  | PTag _ g t =>
    exists a k z, m_hp c g k a = Some z /\
      c' = mkS (m_st c) (m_hp c) (m_made c) (m_asite c) (m_vtg c) (hupd (m_htg c) g a (t :: m_htg c g a))
  | PIsDeref _ b => if q_deref P then c_havoc b c c' else c' = c
  | PAssign _ x e =>
    c' = mkS (upd (m_st c) x (eval_le e (m_st c))) (m_hp c) (m_made c) (m_asite c)
             (fupd (m_vtg c) x (flat_map (fun p => m_vtg c (snd p)) (le_terms e))) (m_htg c)
  | PArith _ op x y z =>
    exists r, arith_sem op (m_st c y) (operand_val z (m_st c)) = Some r /\
      c' = mkS (upd (m_st c) x r) (m_hp c) (m_made c) (m_asite c)
               (fupd (m_vtg c) x (m_vtg c y ++ match z with OVar v => m_vtg c v | OCst _ => [] end)) (m_htg c)
  | PAssume _ cs => (forall k, In k cs -> sat k (m_st c)) /\ c' = c
  | PHavoc _ v => c_havoc v c c'
  | PForget _ vs => c_forget vs c c'
  | PProject _ vs => False
  | _ => False
  end.

(* ------------------------------------------------------------------ updates of the witness store *)
Lemma allowed_upd_other L hp w x z v z' : v <> x -> allowed L hp (upd w x z) v z' -> allowed L hp w v z'.
Proof. intros N [E|H]; [left; rewrite E; apply upd_other; auto | right; exact H]. Qed.
Lemma allowed_upd_other' L hp w x z v z' : v <> x -> allowed L hp w v z' -> allowed L hp (upd w x z) v z'.
Proof. intros N [E|H]; [left; rewrite E; symmetry; apply upd_other; auto | right; exact H]. Qed.

Definition scalar_exp (e : linexp) : Prop := forall co v, In (co, v) (le_terms e) -> ~ rgn_name v.

Lemma eval_agree e s s' : (forall co v, In (co, v) (le_terms e) -> s v = s' v) -> eval_le e s = eval_le e s'.
Proof. intros H. unfold eval_le. f_equal. apply eval_terms_agree. exact H. Qed.

(* a store described by the sets agrees with the witness on names that are not region names *)
Lemma vw_notrgn a hp w s v : VW (allowed (live a) hp w) s -> ~ rgn_name v -> s v = w v.
Proof. intros V N. eapply allowed_notrgn; eauto. Qed.

Lemma eval_scalar a hp w s e : VW (allowed (live a) hp w) s -> scalar_exp e -> eval_le e s = eval_le e w.
Proof. intros V S. apply eval_agree. intros co v I. eapply vw_notrgn; eauto. Qed.

Lemma rb_forget_scalar a hp w E x z :
  RBA (allowed (live a) hp w) E -> RBA (allowed (live a) hp (upd w x z)) (e_forget E x).
Proof.
  intros R. apply (rb_forget _ _ _ x R (allowed_ne _ _ _ x)).
  intros v z' N. apply allowed_upd_other; auto.
Qed.

Lemma rb_assign_scalar a hp w E x e :
  RBA (allowed (live a) hp w) E -> ~ rgn_name x -> scalar_exp e ->
  RBA (allowed (live a) hp (upd w x (eval_le e w))) (d_assign x e E).
Proof.
  intros R Nx Se. apply (rb_assign _ _ _ x e R).
  - intros v z' N. apply allowed_upd_other; auto.
  - intros s' V'. exists (w x). split; [left; reflexivity|].
    rewrite (vw_notrgn _ _ _ _ _ V' Nx), upd_same.
    apply eval_agree. intros co v I. destruct (N.eq_dec v x) as [->|N]; [rewrite upd_same; reflexivity|].
    rewrite upd_other by auto. rewrite (vw_notrgn _ _ _ _ _ V' (Se _ _ I)). rewrite upd_other by auto. reflexivity.
Qed.

Lemma rb_ext (A A' : vsets) E : RBA A E -> (forall v z, A' v z <-> A v z) -> RBA A' E.
Proof. intros R H. apply (rb_shrink A A' E R). intros v z. apply H. Qed.

Lemma rb_w_ext L hp w w' E : RBA (allowed L hp w) E -> (forall v, w' v = w v) -> RBA (allowed L hp w') E.
Proof.
  intros R H. apply (rb_shrink _ _ _ R). intros v z [E0|X]; [left; rewrite E0; auto | right; auto].
Qed.

Lemma agree_upd w c x z : agree w c -> agree (upd w x z) (mkS (upd (m_st c) x z) (m_hp c) (m_made c) (m_asite c) (m_vtg c) (m_htg c)).
Proof.
  intros A v N. cbn. destruct (N.eq_dec v x) as [->|Nx]; [rewrite !upd_same; auto|rewrite !upd_other by auto; auto].
Qed.

(* ------------------------------------------------------------------ accessors *)
Lemma set_al_get s v d x :
  s_alloc (set_al C s v d) x = if q_alloc P then (if N.eqb x v then d else s_alloc s x) else s_alloc s x.
Proof. unfold set_al. fold P. destruct (q_alloc P); auto. Qed.
Lemma set_tg_get s v d x :
  s_tags (set_tg C s v d) x = if q_tags P then (if N.eqb x v then d else s_tags s x) else s_tags s x.
Proof. unfold set_tg. fold P. destruct (q_tags P); auto. Qed.
Lemma set_al_base s v d : s_base (set_al C s v d) = s_base s.
Proof. unfold set_al. destruct (q_alloc _); auto. Qed.
Lemma set_al_rgn s v d : s_rgn (set_al C s v d) = s_rgn s.
Proof. unfold set_al. destruct (q_alloc _); auto. Qed.
Lemma set_al_tags s v d : s_tags (set_al C s v d) = s_tags s.
Proof. unfold set_al. destruct (q_alloc _); auto. Qed.
Lemma set_tg_base s v d : s_base (set_tg C s v d) = s_base s.
Proof. unfold set_tg. destruct (q_tags _); auto. Qed.
Lemma set_tg_rgn s v d : s_rgn (set_tg C s v d) = s_rgn s.
Proof. unfold set_tg. destruct (q_tags _); auto. Qed.
Lemma set_tg_alloc s v d : s_alloc (set_tg C s v d) = s_alloc s.
Proof. unfold set_tg. destruct (q_tags _); auto. Qed.

Lemma live_same_rgn a a' : s_rgn a' = s_rgn a -> live a' = live a.
Proof. intros E. unfold live, typ. rewrite E. reflexivity. Qed.
Lemma cnt_same a a' g : s_rgn a' = s_rgn a -> cnt a' g = cnt a g.
Proof. intros E. unfold cnt. rewrite E. reflexivity. Qed.
Lemma ini_same a a' g : s_rgn a' = s_rgn a -> ini a' g = ini a g.
Proof. intros E. unfold ini. rewrite E. reflexivity. Qed.

Lemma wbase_some s E m : E = EMap m -> wbase s E = Some (mkR2 m (s_rgn s) (s_alloc s) (s_tags s)).
Proof. intros ->. reflexivity. Qed.

(* building a related value: the base domain part is given as an environment *)
Lemma relv2_intro s E c w :
  agree w c ->
  RBA (allowed (live s) (m_hp c) w) E ->
  (forall m, E = EMap m -> rel2 (mkR2 m (s_rgn s) (s_alloc s) (s_tags s)) c w) ->
  relv2 (wbase s E) c.
Proof.
  intros AG R H. destruct (rb_nonbot _ _ w R (allowed_w _ _ _)) as (m & ->).
  cbn [wbase relv2]. exists w. split; auto.
Qed.

Lemma merge_tg_sound a c w vs :
  rel2 a c w -> (forall v, In v vs -> vk_is_rgn (k_kind C v) = false) ->
  tgamma (merge_tg a vs) (flat_map (fun v => m_vtg c v) vs).
Proof.
  intros R. unfold merge_tg.
  assert (G : forall vs acc l, tgamma acc l -> (forall v, In v vs -> vk_is_rgn (k_kind C v) = false) ->
              tgamma (fold_left (fun acc v => ds_join acc (s_tags a v)) vs acc) (l ++ flat_map (fun v => m_vtg c v) vs)).
  { induction vs0 as [|v r IH]; simpl; intros acc l T K.
    - rewrite app_nil_r. auto.
    - rewrite app_assoc. apply IH; auto.
      destruct (ds_join acc (s_tags a v)) eqn:J; [|exact I].
      destruct acc as [x|]; [|discriminate]. destruct (s_tags a v) as [y|] eqn:Tv; [|discriminate].
      cbn in J. inversion J; subst. cbn. apply incl_app.
      + apply incl_appl. exact T.
      + apply incl_appr. pose proof (x_tvar _ _ _ R v (K v (or_introl eq_refl))) as X. rewrite Tv in X. exact X. }
  intros K. apply (G vs ds_empty []); auto. cbn. intros ? [].
Qed.

(* ---- assign ---- *)
Definition is_int_var (x : var) : Prop := prog x = true /\ (k_kind C x = VInt \/ k_kind C x = VBool).
Lemma int_notrgn x : is_int_var x -> ~ rgn_name x.
Proof. intros [Px [K|K]]; apply notrgn_scalar; auto; rewrite K; reflexivity. Qed.
Lemma int_kind_nr x : is_int_var x -> vk_is_rgn (k_kind C x) = false.
Proof. intros [_ [K|K]]; rewrite K; reflexivity. Qed.
Lemma int_not_ga x p : is_int_var x -> k_kind C p = VRef -> prog p = true -> x <> ga p.
Proof.
  intros [Px K] Kp Pp E. destruct (ga_cases p) as [[_ G]|[_ G]]; rewrite G in E; subst x.
  - rewrite adr_np in Px. discriminate.
  - destruct K; congruence.
Qed.

Definition int_exp (e : linexp) : Prop := forall co v, In (co, v) (le_terms e) -> is_int_var v.
Lemma int_exp_scalar e : int_exp e -> scalar_exp e.
Proof. intros H co v I. apply int_notrgn. eapply H; eauto. Qed.

Lemma u_assign_sound a c c' w r x e :
  rel2 a c w -> agree w c -> is_int_var x -> int_exp e ->
  cstep2 (PAssign r x e) c c' -> relv2 (u_assign C x e a) c'.
Proof.
  intros R AG Kx Ke ->. unfold u_assign.
  set (tg := merge_tg a (map snd (le_terms e))).
  pose proof (int_notrgn _ Kx) as Nx. pose proof (int_exp_scalar _ Ke) as Se.
  assert (EV : eval_le e (m_st c) = eval_le e w).
  { apply eval_agree. intros co v I. symmetry. apply AG. eapply Se; eauto. }
  rewrite EV.
  apply (relv2_intro _ _ _ (upd w x (eval_le e w))).
  - apply agree_upd; auto.
  - rewrite (live_same_rgn a) by apply set_tg_rgn. cbn [m_hp].
    apply rb_assign_scalar; auto. apply (x_base _ _ _ R).
  - intros m Em. constructor; cbn [s_base s_rgn s_alloc s_tags m_hp m_made m_asite m_vtg m_htg].
    + rewrite <- Em.
      apply (rb_ext (allowed (live a) (m_hp c) (upd w x (eval_le e w)))).
      * apply rb_assign_scalar; auto. apply (x_base _ _ _ R).
      * intros v z. unfold Aof, live, typ. cbn. rewrite set_tg_rgn. tauto.
    + intros g. unfold cnt. cbn. rewrite set_tg_rgn. apply (x_count _ _ _ R).
    + intros g. unfold ini. cbn. rewrite set_tg_rgn. apply (x_init _ _ _ R).
    + apply (x_wf _ _ _ R).
    + intros p Kp Pp. rewrite set_tg_alloc. rewrite upd_other by (intros E; eapply int_not_ga; eauto).
      apply (x_svar _ _ _ R); auto.
    + intros g y ad Kg H. rewrite set_tg_alloc. eapply (x_srgn _ _ _ R); eauto.
    + intros Off v. rewrite set_tg_alloc. apply (x_soff _ _ _ R); auto.
    + apply (x_anull _ _ _ R).
    + intros v Kv. rewrite set_tg_get. destruct (q_tags P) eqn:PT.
      * destruct (N.eqb_spec v x) as [->|N].
        -- rewrite fupd_same. rewrite flat_map_terms. apply (merge_tg_sound a c w); auto.
           intros v I. apply in_map_iff in I. destruct I as ([co u] & <- & I). apply int_kind_nr. eapply Ke; eauto.
        -- rewrite fupd_other by auto. apply (x_tvar _ _ _ R); auto.
      * rewrite (x_toff _ _ _ R PT). exact I.
    + intros g y Kg. rewrite set_tg_get. destruct (q_tags P) eqn:PT.
      * destruct (N.eqb_spec g x) as [->|N]; [rewrite (int_kind_nr _ Kx) in Kg; discriminate|].
        apply (x_trgn _ _ _ R); auto.
      * rewrite (x_toff _ _ _ R PT). exact I.
    + intros Off v. rewrite set_tg_get, Off. apply (x_toff _ _ _ R); auto.
    + apply (x_tuw _ _ _ R).
Qed.

(* ---- the ghost names of a program variable that is not a region ---- *)
Definition gnames (x : var) : list var := if vk_is_ref (k_kind C x) then gv_list (gv_ref C x) else [x].
Lemma gnames_ref x : k_kind C x = VRef -> gnames x = ga x :: if q_deref P then [go x; gz x] else [].
Proof. intros K. unfold gnames. rewrite K. cbn [vk_is_ref]. rewrite gv_ref_eq. unfold gv_list. cbn. destruct (q_deref P); reflexivity. Qed.
Lemma gnames_in_ref x v : In v (gnames x) -> vk_is_ref (k_kind C x) = true -> v = ga x \/ v = go x \/ v = gz x.
Proof.
  intros I K. unfold gnames in I. rewrite K in I. rewrite gv_ref_eq in I. unfold gv_list in I. cbn in I.
  destruct (q_deref P); cbn in I; intuition.
Qed.
Lemma ga_inj p q : ga p = ga q -> prog p = true -> prog q = true -> p = q.
Proof.
  intros E Pp Pq. destruct (ga_cases p) as [[_ G1]|[_ G1]], (ga_cases q) as [[D2 G2]|[D2 G2]];
    rewrite G1, G2 in E; auto; try congruence.
Qed.
Lemma ga_not_go p q : prog p = true -> ga p <> go q.
Proof.
  intros Pp E. unfold go in E. destruct (ga_cases p) as [[_ G]|[_ G]]; rewrite G in E.
  - eapply adr_off; eauto.
  - rewrite E, off_np in Pp. discriminate.
Qed.
Lemma ga_not_gz p q : prog p = true -> ga p <> gz q.
Proof.
  intros Pp E. unfold gz in E. destruct (ga_cases p) as [[_ G]|[_ G]]; rewrite G in E.
  - eapply adr_siz; eauto.
  - rewrite E, siz_np in Pp. discriminate.
Qed.
Lemma ga_not_gnames p x : k_kind C p = VRef -> prog p = true -> prog x = true -> vk_is_rgn (k_kind C x) = false ->
  p <> x -> ~ In (ga p) (gnames x).
Proof.
  intros Kp Pp Px Kx N. destruct (vk_is_ref (k_kind C x)) eqn:Rx.
  - intros I. destruct (gnames_in_ref _ _ I Rx) as [E|[E|E]].
    + apply N. apply ga_inj; auto.
    + exact (ga_not_go _ _ Pp E).
    + exact (ga_not_gz _ _ Pp E).
  - unfold gnames. rewrite Rx. intros [E|[]]. destruct (ga_cases p) as [[_ G]|[_ G]]; rewrite G in E.
    + rewrite E, adr_np in Px. discriminate.
    + congruence.
Qed.

(* an operation that changes one program variable [x] that is not a region (all its ghost
   names), may create references and allocate, and leaves the heap and the types alone *)
Lemma rel2_var_update a c w x tl E rg' al' tg' made' asite' w' st' :
  rel2 a c w -> vk_is_rgn (k_kind C x) = false -> prog x = true ->
  (forall v, ~ In v (gnames x) -> w' v = w v) ->
  RBA (allowed (live a) (m_hp c) w') E ->
  (forall g, cgamma (i_cnt (rg' g)) (map fst (made' g))) ->
  (forall g, i_ini (rg' g) = ini a g) -> (forall g, i_ty (rg' g) = typ a g) ->
  (forall g, incl (maddrs c g) (map snd (made' g))) ->
  (forall y s, m_asite c y = Some s -> asite' y = Some s) -> asite' 0 = None ->
  (forall v, v <> x -> al' v = s_alloc a v) ->
  (k_kind C x = VRef ->
   al' x = None \/ w' (ga x) = 0 \/ exists site ss, al' x = Some ss /\ asite' (w' (ga x)) = Some site /\ In site ss) ->
  (forall v, v <> x -> tg' v = s_tags a v) -> tgamma (tg' x) tl ->
  (q_alloc P = false -> al' x = None) -> (q_tags P = false -> tg' x = None) ->
  exists m, E = EMap m /\
    rel2 (mkR2 m rg' al' tg')
         (mkS st' (m_hp c) made' asite' (fupd (m_vtg c) x tl) (m_htg c)) w'.
Proof.
  intros R Kx Px HW HB HC HI HT HM HA HA0 Hal Hx Htg Htx Poff Toff.
  destruct (rb_nonbot _ _ w' HB (allowed_w _ _ _)) as (m & ->). exists m. split; auto.
  set (c' := mkS st' (m_hp c) made' asite' (fupd (m_vtg c) x tl) (m_htg c)).
  assert (MONO : forall d y, sgamma2 c d y -> sgamma2 c' d y).
  { intros d y. apply sg2_mono. exact HA. }
  assert (LV : forall g, live (mkR2 m rg' al' tg') g = live a g).
  { intros g. unfold live, typ. cbn [s_rgn]. rewrite HT. reflexivity. }
  constructor; cbn [s_base s_rgn s_alloc s_tags].
  - apply (rb_ext _ _ _ HB). intros v z. unfold Aof, allowed. cbn [m_hp c'].
    split; (intros [E0|(g & k & y & I & H)]; [left; auto|right; exists g, k, y; split; auto]).
    + rewrite <- LV. exact I.
    + rewrite LV. exact I.
  - intros g. unfold cnt. cbn [s_rgn]. apply HC.
  - intros g. unfold ini. cbn [s_rgn]. rewrite HI. apply (x_init _ _ _ R).
  - intros g k y z H. cbn in H. apply HM. apply (x_wf _ _ _ R g k y z H).
  - intros p Kp Pp. destruct (N.eq_dec p x) as [->|N].
    + destruct (Hx Kp) as [H|[H|(site & ss & H1 & H2 & H3)]].
      * rewrite H. exact I.
      * rewrite H. apply sg2_zero.
      * rewrite H1. right. exists site. split; auto.
    + rewrite Hal by auto. rewrite HW by (apply ga_not_gnames; auto). apply MONO. apply (x_svar _ _ _ R); auto.
  - intros g y ad Kg H. cbn in H.
    assert (N : g <> x) by (intros ->; congruence).
    rewrite Hal by auto. apply MONO. eapply (x_srgn _ _ _ R); eauto.
  - intros Off v. destruct (N.eq_dec v x) as [->|N]; auto.
    rewrite Hal by auto. apply (x_soff _ _ _ R); auto.
  - exact HA0.
  - intros v Kv. cbn [m_vtg c']. destruct (N.eq_dec v x) as [->|N].
    + rewrite fupd_same. auto.
    + rewrite fupd_other by auto. rewrite Htg by auto. apply (x_tvar _ _ _ R); auto.
  - intros g y Kg. cbn [m_htg c'].
    assert (N : g <> x) by (intros ->; congruence).
    rewrite Htg by auto. apply (x_trgn _ _ _ R); auto.
  - intros Off v. destruct (N.eq_dec v x) as [->|N]; auto.
    rewrite Htg by auto. apply (x_toff _ _ _ R); auto.
  - intros g y Hy. cbn in *. apply (x_tuw _ _ _ R); auto.
Qed.

(* ---- references ---- *)
Definition is_ref_var (p : var) : Prop := prog p = true /\ k_kind C p = VRef.
Lemma ref_kind_nr p : is_ref_var p -> vk_is_rgn (k_kind C p) = false.
Proof. intros [_ K]. rewrite K. reflexivity. Qed.
Lemma ref_notrgn_ga p : is_ref_var p -> ~ rgn_name (ga p).
Proof. intros [Pp K]. apply notrgn_ga; auto. rewrite K. reflexivity. Qed.
Lemma ref_notrgn_go p : is_ref_var p -> ~ rgn_name (go p).
Proof. intros [Pp K]. apply notrgn_off. rewrite K. reflexivity. Qed.
Lemma ref_notrgn_gz p : is_ref_var p -> ~ rgn_name (gz p).
Proof. intros [Pp K]. apply notrgn_siz. rewrite K. reflexivity. Qed.
Lemma go_not_gz p q : go p <> gz q.
Proof. apply off_siz. Qed.

Lemma set_ref_ga st p ad o s : prog p = true -> set_ref st p ad o s (ga p) = ad.
Proof.
  intros Pp. unfold set_ref. destruct (q_deref P).
  - rewrite upd_other by (apply ga_not_gz; auto). rewrite upd_other by (apply ga_not_go; auto). apply upd_same.
  - apply upd_same.
Qed.
Lemma set_ref_go st p ad o s : q_deref P = true -> set_ref st p ad o s (go p) = o.
Proof. intros D. unfold set_ref. rewrite D. rewrite upd_other by apply go_not_gz. apply upd_same. Qed.
Lemma set_ref_gz st p ad o s : q_deref P = true -> set_ref st p ad o s (gz p) = s.
Proof. intros D. unfold set_ref. rewrite D. apply upd_same. Qed.
Lemma set_ref_other st p ad o s v : k_kind C p = VRef -> ~ In v (gnames p) -> set_ref st p ad o s v = st v.
Proof.
  intros K N. rewrite (gnames_ref _ K) in N. unfold set_ref. destruct (q_deref P); cbn in N.
  - rewrite !upd_other; auto; intros ->; apply N; auto.
  - rewrite upd_other; auto.
Qed.
Lemma agree_set_ref w c p ad o s hp' made' asite' vtg' htg' :
  agree w c -> agree (set_ref w p ad o s) (mkS (set_ref (m_st c) p ad o s) hp' made' asite' vtg' htg').
Proof.
  intros A v N. cbn. unfold set_ref. destruct (q_deref P).
  - destruct (N.eq_dec v (gz p)) as [->|N3]; [rewrite !upd_same; auto|rewrite !(upd_other _ (gz p)) by auto].
    destruct (N.eq_dec v (go p)) as [->|N2]; [rewrite !upd_same; auto|rewrite !(upd_other _ (go p)) by auto].
    destruct (N.eq_dec v (ga p)) as [->|N1]; [rewrite !upd_same; auto|rewrite !upd_other by auto]. auto.
  - destruct (N.eq_dec v (ga p)) as [->|N1]; [rewrite !upd_same; auto|rewrite !upd_other by auto]. auto.
Qed.
Lemma agree_st w st' hp' made' asite' vtg' htg' :
  (forall v, ~ rgn_name v -> w v = st' v) -> agree w (mkS st' hp' made' asite' vtg' htg').
Proof. intros H v N. cbn. auto. Qed.

Lemma gv_forget_list g e : gv_forget g e = fold_left e_forget (gv_list g) e.
Proof. unfold gv_forget, os_forget, gv_list. destruct g as [v [[o z]|]]; reflexivity. Qed.

(* the ghost variables of a reference are forgotten: they may take any value *)
Lemma rb_forget_ref a hp w E p ad o s :
  RBA (allowed (live a) hp w) E ->
  RBA (allowed (live a) hp (set_ref w p ad o s)) (gv_forget (gv_ref C p) E).
Proof.
  intros R. rewrite gv_ref_eq. unfold gv_forget, os_forget, set_ref. cbn [fst snd]. destruct (q_deref P).
  - apply rb_forget_scalar. apply rb_forget_scalar. apply rb_forget_scalar. exact R.
  - apply rb_forget_scalar. exact R.
Qed.

Lemma le_var_scalar v : ~ rgn_name v -> scalar_exp (le_var v).
Proof. intros N co u [E|[]]. inversion E; subst. exact N. Qed.
Lemma le_const_scalar k : scalar_exp (le_const k).
Proof. intros co u []. Qed.

(* ---- arithmetic ---- *)
Lemma flat_map_terms2 {A} (f : var -> list A) (ts : list (Z * var)) :
  flat_map (fun p => f (snd p)) ts = flat_map f (map snd ts).
Proof. induction ts as [|[c v] r IH]; simpl; auto. rewrite IH. auto. Qed.

Lemma rb_arith_scalar a hp w E op x y z r :
  RBA (allowed (live a) hp w) E -> ~ rgn_name x -> ~ rgn_name y -> (forall v, z = OVar v -> ~ rgn_name v) ->
  arith_sem op (w y) (operand_val z w) = Some r ->
  RBA (allowed (live a) hp (upd w x r)) (d_apply_arith op x y z E).
Proof.
  intros R Nx Ny Nz Sem.
  apply (rb_upd _ _ _ _ x (fun s v => arith_sem op (s y) (operand_val z s) = Some v) R).
  - intros s v V G S. eapply d_apply_arith_sound; eauto.
  - intros v z' N. apply allowed_upd_other; auto.
  - intros s' V'. exists (w x). split; [left; reflexivity|].
    rewrite (vw_notrgn _ _ _ _ _ V' Nx), upd_same.
    assert (Ey : upd s' x (w x) y = w y).
    { destruct (N.eq_dec y x) as [->|N]; [apply upd_same|]. rewrite upd_other by auto.
      rewrite (vw_notrgn _ _ _ _ _ V' Ny). apply upd_other; auto. }
    assert (Ez : operand_val z (upd s' x (w x)) = operand_val z w).
    { destruct z as [v|k]; simpl; auto. destruct (N.eq_dec v x) as [->|N]; [apply upd_same|]. rewrite upd_other by auto.
      rewrite (vw_notrgn _ _ _ _ _ V' (Nz _ eq_refl)). apply upd_other; auto. }
    rewrite Ey, Ez. exact Sem.
Qed.

Ltac same_rgn := rewrite ?set_tg_rgn, ?set_al_rgn; reflexivity.

Lemma u_arith_sound a c c' w r op x y z :
  rel2 a c w -> agree w c -> is_int_var x -> is_int_var y -> (forall v, z = OVar v -> is_int_var v) ->
  cstep2 (PArith r op x y z) c c' -> relv2 (u_arith C op x y z a) c'.
Proof.
  intros R AG Kx Ky Kz (res & Sem & ->). unfold u_arith.
  set (tg := match z with OVar v => ds_join (s_tags a y) (s_tags a v) | OCst _ => s_tags a y end).
  pose proof (int_notrgn _ Kx) as Nx. pose proof (int_notrgn _ Ky) as Ny.
  assert (Nz : forall v, z = OVar v -> ~ rgn_name v) by (intros v E; apply int_notrgn; auto).
  assert (Sem' : arith_sem op (w y) (operand_val z w) = Some res).
  { rewrite (AG y Ny). replace (operand_val z w) with (operand_val z (m_st c)); auto.
    destruct z as [v|k]; simpl; auto. symmetry. apply AG. auto. }
  destruct (rel2_var_update a c w x (m_vtg c y ++ match z with OVar v => m_vtg c v | OCst _ => [] end)
              (d_apply_arith op x y z (EMap (s_base a)))
              (s_rgn (set_tg C a x tg)) (s_alloc (set_tg C a x tg)) (s_tags (set_tg C a x tg))
              (m_made c) (m_asite c) (upd w x res) (upd (m_st c) x res)) as (m & Em & Rm); auto.
  - apply int_kind_nr; auto.
  - apply Kx.
  - intros v N. apply upd_other. intros ->. apply N. unfold gnames. rewrite (proj2 (Bool.negb_true_iff _) eq_refl) || idtac.
    destruct Kx as [_ [K|K]]; rewrite K; left; reflexivity.
  - apply rb_arith_scalar; auto. apply (x_base _ _ _ R).
  - intros g. rewrite set_tg_rgn. apply (x_count _ _ _ R).
  - intros g. rewrite set_tg_rgn. reflexivity.
  - intros g. rewrite set_tg_rgn. reflexivity.
  - intros g. apply incl_refl.
  - apply (x_anull _ _ _ R).
  - intros v N. rewrite set_tg_alloc. reflexivity.
  - intros K. destruct Kx as [_ [K'|K']]; congruence.
  - intros v N. rewrite set_tg_get. destruct (q_tags P); auto. destruct (N.eqb_spec v x); [congruence|auto].
  - rewrite set_tg_get. destruct (q_tags P) eqn:PT.
    + rewrite N.eqb_refl. unfold tg. destruct z as [v|k].
      * apply tg_app; apply tg_join; [left|right]; apply (x_tvar _ _ _ R); apply int_kind_nr; auto.
      * rewrite app_nil_r. apply (x_tvar _ _ _ R). apply int_kind_nr; auto.
    + rewrite (x_toff _ _ _ R PT). exact I.
  - intros Off. rewrite set_tg_alloc. apply (x_soff _ _ _ R); auto.
  - intros Off. rewrite set_tg_get, Off. apply (x_toff _ _ _ R); auto.
  - unfold wbase. rewrite Em. cbn [relv2]. exists (upd w x res). split; [apply agree_upd; auto|exact Rm].
Qed.

Lemma gv_of_ref s p : k_kind C p = VRef -> gv_of C s p = gv_ref C p.
Proof. intros K. unfold gv_of, gv_of_ty. rewrite K. reflexivity. Qed.
Lemma gv_of_int s x : is_int_var x -> gv_of C s x = gv_plain x.
Proof. intros [_ [K|K]]; unfold gv_of, gv_of_ty; rewrite K; reflexivity. Qed.
Lemma gnames_int x : is_int_var x -> gnames x = [x].
Proof. intros [_ [K|K]]; unfold gnames; rewrite K; reflexivity. Qed.
Lemma int_not_gnames_ref x p : is_int_var x -> is_ref_var p -> ~ In x (gnames p).
Proof.
  intros Kx [Pp Kp] I. apply gnames_in_ref in I; [|rewrite Kp; reflexivity].
  destruct Kx as [Px Kx]. destruct I as [E|[E|E]]; subst x.
  - destruct (ga_cases p) as [[_ G]|[_ G]]; rewrite G in *; [rewrite adr_np in Px; discriminate|destruct Kx; congruence].
  - unfold go in Px. rewrite off_np in Px. discriminate.
  - unfold gz in Px. rewrite siz_np in Px. discriminate.
Qed.
Lemma upd_other_notin w x z v : v <> x -> upd w x z v = w v.
Proof. apply upd_other. Qed.

(* ---- ref_to_int ---- *)
Lemma u_r2i_sound a c c' w r p x :
  rel2 a c w -> agree w c -> is_ref_var p -> is_int_var x ->
  cstep2 (PR2i r p x) c c' -> relv2 (u_r2i C p x a) c'.
Proof.
  intros R AG Kp Kx ->. unfold u_r2i. rewrite (gv_of_ref _ _ (proj2 Kp)). unfold gv_var. fold (ga p).
  pose proof (int_notrgn _ Kx) as Nx. pose proof (ref_notrgn_ga _ Kp) as Np.
  rewrite <- (AG _ Np).
  destruct (rel2_var_update a c w x (m_vtg c p) (d_assign x (le_var (ga p)) (EMap (s_base a)))
              (s_rgn (set_tg C a x (s_tags a p))) (s_alloc (set_tg C a x (s_tags a p))) (s_tags (set_tg C a x (s_tags a p)))
              (m_made c) (m_asite c) (upd w x (w (ga p))) (upd (m_st c) x (w (ga p)))) as (m & Em & Rm); auto.
  - apply int_kind_nr; auto.
  - apply Kx.
  - intros v N. apply upd_other. intros ->. apply N. rewrite gnames_int; auto. left; auto.
  - rewrite <- (eval_le_var (ga p) w) at 1. apply rb_assign_scalar; auto.
    + apply (x_base _ _ _ R).
    + apply le_var_scalar; auto.
  - intros g. rewrite set_tg_rgn. apply (x_count _ _ _ R).
  - intros g. rewrite set_tg_rgn. reflexivity.
  - intros g. rewrite set_tg_rgn. reflexivity.
  - intros g. apply incl_refl.
  - apply (x_anull _ _ _ R).
  - intros v N. rewrite set_tg_alloc. reflexivity.
  - intros K. destruct Kx as [_ [K'|K']]; congruence.
  - intros v N. rewrite set_tg_get. destruct (q_tags P); auto. destruct (N.eqb_spec v x); [congruence|auto].
  - rewrite set_tg_get. destruct (q_tags P) eqn:PT.
    + rewrite N.eqb_refl. apply (x_tvar _ _ _ R). apply ref_kind_nr; auto.
    + rewrite (x_toff _ _ _ R PT). exact I.
  - intros Off. rewrite set_tg_alloc. apply (x_soff _ _ _ R); auto.
  - intros Off. rewrite set_tg_get, Off. apply (x_toff _ _ _ R); auto.
  - unfold wbase. rewrite Em. cbn [relv2]. exists (upd w x (w (ga p))). split; [apply agree_upd; auto|exact Rm].
Qed.

(* ---- ref_make ---- *)
Definition size_ok (z : operand) : Prop := forall v, z = OVar v -> is_int_var v.
Definition size_exp (z : operand) : linexp := match z with OCst k => le_const k | OVar x => le_var x end.
Lemma size_exp_scalar z : size_ok z -> scalar_exp (size_exp z).
Proof. intros OK. destruct z as [v|k]; cbn; [apply le_var_scalar; apply int_notrgn; auto | apply le_const_scalar]. Qed.
Lemma size_exp_eval z s : eval_le (size_exp z) s = operand_val z s.
Proof. destruct z; unfold size_exp, operand_val; [apply eval_le_var | apply eval_le_const]. Qed.

Lemma set_ref_ne_ref w p ad o s v : is_ref_var p -> ~ In v (gnames p) -> set_ref w p ad o s v = w v.
Proof. intros [_ K]. apply set_ref_other; auto. Qed.

Lemma set_info_rgn s g i : s_rgn (set_info s g i) = fupd (s_rgn s) g i.
Proof. reflexivity. Qed.

Lemma u_mk_sound a c c' w r p g site size :
  rel2 a c w -> agree w c -> is_ref_var p -> size_ok size ->
  cstep2 (PMk r p g site size) c c' -> relv2 (u_mk C p g site size a) c'.
Proof.
  intros R AG Kp Ks (a0 & A0 & AS & ->). unfold u_mk.
  set (i := s_rgn a g).
  set (s1 := set_info a g (rc_incr (i_cnt i) p, i_ini i, i_ty i)).
  set (s2 := set_al C s1 p (Some [site])).
  rewrite (gv_of_ref s2 p (proj2 Kp)).
  assert (EB : s_base s2 = s_base a) by (unfold s2; rewrite set_al_base; reflexivity).
  rewrite EB.
  set (szv := operand_val size (m_st c)).
  assert (SZ : operand_val size w = szv).
  { unfold szv. destruct size as [v|k]; cbn; auto. apply AG. apply int_notrgn. apply Ks. reflexivity. }
  pose proof (ref_notrgn_ga _ Kp) as N1. pose proof (ref_notrgn_go _ Kp) as N2. pose proof (ref_notrgn_gz _ Kp) as N3.
  set (E := match snd (gv_ref C p) with
            | Some (o, z) => d_assign z (match size with OCst k => le_const k | OVar x => le_var x end)
                                      (d_assign o (le_const 0) (e_forget (EMap (s_base a)) (fst (gv_ref C p))))
            | None => e_forget (EMap (s_base a)) (fst (gv_ref C p))
            end).
  assert (HB : RBA (allowed (live a) (m_hp c) (set_ref w p a0 0 szv)) E).
  { unfold E, set_ref. rewrite gv_ref_eq. cbn [fst snd]. destruct (q_deref P) eqn:D.
    - fold (size_exp size).
      pose proof (rb_forget_scalar a (m_hp c) w _ (ga p) a0 (x_base _ _ _ R)) as R1.
      pose proof (rb_assign_scalar a (m_hp c) _ _ (go p) (le_const 0) R1 N2 (le_const_scalar 0)) as R2.
      pose proof (rb_assign_scalar a _ _ _ (gz p) (size_exp size) R2 N3 (size_exp_scalar _ Ks)) as R3.
      eapply rb_w_ext; [exact R3|].
      intros v. rewrite eval_le_const, size_exp_eval.
        replace (operand_val size (upd (upd w (ga p) a0) (go p) 0)) with szv; auto.
        rewrite <- SZ. destruct size as [u|k]; cbn; auto.
        assert (Iu : is_int_var u) by (apply Ks; reflexivity).
      rewrite !upd_other; auto.
      * intros ->. apply (int_not_gnames_ref _ _ Iu Kp). rewrite gnames_ref by apply Kp. left; auto.
      * intros ->. apply (int_not_gnames_ref _ _ Iu Kp). rewrite gnames_ref by apply Kp. rewrite D. right; left; auto.
    - apply rb_forget_scalar. apply (x_base _ _ _ R). }
  destruct (rel2_var_update a c w p [] E (s_rgn s2) (s_alloc s2) (s_tags s2)
              (fupd (m_made c) g (m_made c g ++ [(Z.of_N p, a0)]))
              (fun x => if x =? a0 then Some site else m_asite c x)
              (set_ref w p a0 0 szv) (set_ref (m_st c) p a0 0 szv)) as (m & Em & Rm); auto.
  - apply ref_kind_nr; auto.
  - apply Kp.
  - intros v N. apply set_ref_ne_ref; auto.
  - intros g'. unfold s2. rewrite set_al_rgn. unfold s1. rewrite set_info_rgn.
    destruct (N.eq_dec g' g) as [->|N].
    + rewrite !fupd_same. cbn [i_cnt fst]. rewrite map_app. apply cg_incr. apply (x_count _ _ _ R).
    + rewrite !fupd_other by auto. apply (x_count _ _ _ R).
  - intros g'. unfold s2. rewrite set_al_rgn. unfold s1. rewrite set_info_rgn.
    destruct (N.eq_dec g' g) as [->|N]; [rewrite fupd_same | rewrite fupd_other by auto]; reflexivity.
  - intros g'. unfold s2. rewrite set_al_rgn. unfold s1. rewrite set_info_rgn.
    destruct (N.eq_dec g' g) as [->|N]; [rewrite fupd_same | rewrite fupd_other by auto]; reflexivity.
  - intros g'. unfold maddrs. destruct (N.eq_dec g' g) as [->|N].
    + rewrite fupd_same. rewrite map_app. apply incl_appl. apply incl_refl.
    + rewrite fupd_other by auto. apply incl_refl.
  - intros y s E0. destruct (Z.eqb_spec y a0); [congruence|auto].
  - destruct (Z.eqb_spec 0 a0); [congruence|]. apply (x_anull _ _ _ R).
  - intros v N. unfold s2. rewrite set_al_get. destruct (q_alloc P); auto.
    destruct (N.eqb_spec v p); [congruence|reflexivity].
  - intros _. unfold s2. rewrite set_al_get. destruct (q_alloc P) eqn:PA.
    + rewrite N.eqb_refl. right. right. exists site, [site]. repeat split; auto.
      * rewrite set_ref_ga by apply Kp. rewrite Z.eqb_refl. auto.
      * left; auto.
    + left. apply (x_soff _ _ _ R); auto.
  - intros v N. unfold s2. rewrite set_al_tags. reflexivity.
  - apply tg_nil.
  - intros Off. unfold s2. rewrite set_al_get, Off. apply (x_soff _ _ _ R); auto.
  - intros Off. unfold s2. rewrite set_al_tags. apply (x_toff _ _ _ R); auto.
  - fold E. unfold wbase. rewrite Em. cbn [relv2]. exists (set_ref w p a0 0 szv). split; [apply agree_set_ref; auto|exact Rm].
Qed.

(* ---- int_to_ref ---- *)
Lemma u_i2r_sound a c c' w r x g p :
  rel2 a c w -> agree w c -> is_int_var x -> is_ref_var p ->
  cstep2 (PI2r r x g p) c c' -> relv2 (u_i2r C x g p a) c'.
Proof.
  intros R AG Kx Kp (o & s & ->). unfold u_i2r.
  rewrite (gv_of_ref a p (proj2 Kp)).
  set (s1 := set_al C a p ds_top). set (s2 := set_tg C s1 p (s_tags s1 x)).
  set (i := s_rgn s2 g).
  pose proof (int_notrgn _ Kx) as Nx.
  pose proof (ref_notrgn_ga _ Kp) as N1. pose proof (ref_notrgn_go _ Kp) as N2. pose proof (ref_notrgn_gz _ Kp) as N3.
  rewrite <- (AG x Nx).
  set (E := os_forget (gv_ref C p) (d_assign (fst (gv_ref C p)) (le_var x) (EMap (s_base a)))).
  assert (HB : RBA (allowed (live a) (m_hp c) (set_ref w p (w x) o s)) E).
  { unfold E, set_ref, os_forget. rewrite gv_ref_eq. cbn [fst snd].
    pose proof (rb_assign_scalar a (m_hp c) w _ (ga p) (le_var x) (x_base _ _ _ R) N1 (le_var_scalar _ Nx)) as R1.
    rewrite eval_le_var in R1.
    destruct (q_deref P); [|exact R1].
    apply rb_forget_scalar. apply rb_forget_scalar. exact R1. }
  assert (ER : s_rgn s2 = s_rgn a) by (unfold s2, s1; rewrite set_tg_rgn, set_al_rgn; reflexivity).
  assert (ET1 : s_tags s1 = s_tags a) by (unfold s1; apply set_al_tags).
  destruct (rel2_var_update a c w p (m_vtg c x) E
              (fupd (s_rgn s2) g (rc_incr (i_cnt i) p, i_ini i, i_ty i)) (s_alloc s2) (s_tags s2)
              (fupd (m_made c) g (m_made c g ++ [(Z.of_N p, w x)])) (m_asite c)
              (set_ref w p (w x) o s) (set_ref (m_st c) p (w x) o s)) as (m & Em & Rm); auto.
  - apply ref_kind_nr; auto.
  - apply Kp.
  - intros v N. apply set_ref_ne_ref; auto.
  - intros g'. unfold i. rewrite ER. destruct (N.eq_dec g' g) as [->|N].
    + rewrite !fupd_same. cbn [i_cnt fst]. rewrite map_app. apply cg_incr. apply (x_count _ _ _ R).
    + rewrite !fupd_other by auto. apply (x_count _ _ _ R).
  - intros g'. unfold i. rewrite ER. destruct (N.eq_dec g' g) as [->|N]; [rewrite fupd_same | rewrite fupd_other by auto]; reflexivity.
  - intros g'. unfold i. rewrite ER. destruct (N.eq_dec g' g) as [->|N]; [rewrite fupd_same | rewrite fupd_other by auto]; reflexivity.
  - intros g'. unfold maddrs. destruct (N.eq_dec g' g) as [->|N].
    + rewrite fupd_same. rewrite map_app. apply incl_appl. apply incl_refl.
    + rewrite fupd_other by auto. apply incl_refl.
  - apply (x_anull _ _ _ R).
  - intros v N. unfold s2, s1. rewrite set_tg_alloc, set_al_get. destruct (q_alloc P); auto.
    destruct (N.eqb_spec v p); [congruence|reflexivity].
  - intros _. left. unfold s2, s1. rewrite set_tg_alloc, set_al_get.
    destruct (q_alloc P) eqn:PA; [rewrite N.eqb_refl; reflexivity | apply (x_soff _ _ _ R); auto].
  - intros v N. unfold s2. rewrite set_tg_get, ET1. destruct (q_tags P); auto.
    destruct (N.eqb_spec v p); [congruence|auto].
  - unfold s2. rewrite set_tg_get, ET1. destruct (q_tags P) eqn:PT.
    + rewrite N.eqb_refl. apply (x_tvar _ _ _ R). apply int_kind_nr; auto.
    + rewrite (x_toff _ _ _ R PT). exact I.
  - intros Off. unfold s2, s1. rewrite set_tg_alloc, set_al_get, Off. apply (x_soff _ _ _ R); auto.
  - intros Off. unfold s2. rewrite set_tg_get, Off, ET1. apply (x_toff _ _ _ R); auto.
  - replace (s_base s2) with (s_base a) by (unfold s2, s1; rewrite set_tg_base, set_al_base; reflexivity).
    fold E. unfold wbase. rewrite Em. cbn [relv2].
    exists (set_ref w p (w x) o s). split; [apply agree_set_ref; auto|].
    unfold set_info. cbn [s_base s_rgn s_alloc s_tags]. exact Rm.
Qed.

(* ---- operator-= on a variable that is not a region ---- *)
Lemma u_havoc_int_sound a c c' w x :
  rel2 a c w -> agree w c -> is_int_var x -> c_havoc x c c' -> relv2 (u_havoc C x a) c'.
Proof.
  intros R AG Kx H. unfold u_havoc.
  assert (KR : vk_is_rgn (k_kind C x) = false) by (apply int_kind_nr; auto).
  assert (KF : vk_is_ref (k_kind C x) = false) by (destruct Kx as [_ [K|K]]; rewrite K; reflexivity).
  rewrite KR, KF. cbn [orb].
  set (s3 := set_tg C a x ds_top).
  rewrite (gv_of_int s3 x Kx). unfold gv_forget, os_forget, gv_plain. cbn [fst snd].
  assert (H' : exists z tl, c' = mkS (upd (m_st c) x z) (m_hp c) (m_made c) (m_asite c) (fupd (m_vtg c) x tl) (m_htg c)).
  { unfold c_havoc in H. destruct Kx as [_ [K|K]]; rewrite K in H; exact H. }
  destruct H' as (z & tl & ->).
  destruct (rel2_var_update a c w x tl (e_forget (EMap (s_base a)) x)
              (s_rgn s3) (s_alloc s3) (s_tags s3) (m_made c) (m_asite c) (upd w x z) (upd (m_st c) x z))
    as (m & Em & Rm); auto.
  - apply Kx.
  - intros v N. apply upd_other. intros ->. apply N. rewrite gnames_int; auto. left; auto.
  - apply rb_forget_scalar. apply (x_base _ _ _ R).
  - intros g. unfold s3. rewrite set_tg_rgn. apply (x_count _ _ _ R).
  - intros g. unfold s3. rewrite set_tg_rgn. reflexivity.
  - intros g. unfold s3. rewrite set_tg_rgn. reflexivity.
  - intros g. apply incl_refl.
  - apply (x_anull _ _ _ R).
  - intros v N. unfold s3. rewrite set_tg_alloc. reflexivity.
  - intros K. destruct Kx as [_ [K'|K']]; congruence.
  - intros v N. unfold s3. rewrite set_tg_get. destruct (q_tags P); auto. destruct (N.eqb_spec v x); [congruence|auto].
  - unfold s3. rewrite set_tg_get. destruct (q_tags P) eqn:PT; [rewrite N.eqb_refl; exact I|].
    rewrite (x_toff _ _ _ R PT). exact I.
  - intros Off. unfold s3. rewrite set_tg_alloc. apply (x_soff _ _ _ R); auto.
  - intros Off. unfold s3. rewrite set_tg_get, Off. apply (x_toff _ _ _ R); auto.
  - replace (s_base s3) with (s_base a) by (unfold s3; rewrite set_tg_base; reflexivity).
    unfold wbase. rewrite Em. cbn [relv2]. exists (upd w x z). split; [apply agree_upd; auto|exact Rm].
Qed.

Lemma u_havoc_ref_sound a c c' w p :
  rel2 a c w -> agree w c -> is_ref_var p -> c_havoc p c c' -> relv2 (u_havoc C p a) c'.
Proof.
  intros R AG Kp H. unfold u_havoc. unfold c_havoc in H. rewrite (proj2 Kp) in *. cbn [vk_is_rgn vk_is_ref orb].
  destruct H as (ad & o & s & tl & ->).
  set (s2 := set_al C a p ds_top). set (s3 := set_tg C s2 p ds_top).
  rewrite (gv_of_ref s3 p (proj2 Kp)).
  replace (s_base s3) with (s_base a) by (unfold s3, s2; rewrite set_tg_base, set_al_base; reflexivity).
  destruct (rel2_var_update a c w p tl (gv_forget (gv_ref C p) (EMap (s_base a)))
              (s_rgn s3) (s_alloc s3) (s_tags s3) (m_made c) (m_asite c)
              (set_ref w p ad o s) (set_ref (m_st c) p ad o s)) as (m & Em & Rm); auto.
  - apply ref_kind_nr; auto.
  - apply Kp.
  - intros v N. apply set_ref_ne_ref; auto.
  - apply rb_forget_ref. apply (x_base _ _ _ R).
  - intros g. unfold s3, s2. rewrite set_tg_rgn, set_al_rgn. apply (x_count _ _ _ R).
  - intros g. unfold s3, s2. rewrite set_tg_rgn, set_al_rgn. reflexivity.
  - intros g. unfold s3, s2. rewrite set_tg_rgn, set_al_rgn. reflexivity.
  - intros g. apply incl_refl.
  - apply (x_anull _ _ _ R).
  - intros v N. unfold s3, s2. rewrite set_tg_alloc, set_al_get. destruct (q_alloc P); auto.
    destruct (N.eqb_spec v p); [congruence|reflexivity].
  - intros _. left. unfold s3, s2. rewrite set_tg_alloc, set_al_get.
    destruct (q_alloc P) eqn:PA; [rewrite N.eqb_refl; reflexivity | apply (x_soff _ _ _ R); auto].
  - intros v N. unfold s3. rewrite set_tg_get. unfold s2. rewrite set_al_tags. destruct (q_tags P); auto.
    destruct (N.eqb_spec v p); [congruence|auto].
  - unfold s3. rewrite set_tg_get. unfold s2. rewrite set_al_tags. destruct (q_tags P) eqn:PT; [rewrite N.eqb_refl; exact I|].
    rewrite (x_toff _ _ _ R PT). exact I.
  - intros Off. unfold s3, s2. rewrite set_tg_alloc, set_al_get, Off. apply (x_soff _ _ _ R); auto.
  - intros Off. unfold s3. rewrite set_tg_get, Off. unfold s2. rewrite set_al_tags. apply (x_toff _ _ _ R); auto.
  - unfold wbase. rewrite Em. cbn [relv2]. exists (set_ref w p ad o s). split; [apply agree_set_ref; auto|exact Rm].
Qed.

Lemma rel2_relv a c w : agree w c -> rel2 a c w -> relv2 (Some a) c.
Proof. intros A R. exists w. auto. Qed.

Lemma u_isderef_sound a c c' w r b :
  rel2 a c w -> agree w c -> is_int_var b -> cstep2 (PIsDeref r b) c c' -> relv2 (u_isderef C b a) c'.
Proof.
  intros R AG Kb H. unfold u_isderef. cbn [cstep2] in H. fold P. destruct (q_deref P).
  - eapply u_havoc_int_sound; eauto.
  - subst. eapply rel2_relv; eauto.
Qed.

(* ---- ref_gep ---- *)
Lemma go_of_ref_notin_int e p : int_exp e -> is_ref_var p -> forall co v, In (co, v) (le_terms e) -> ~ In v (gnames p).
Proof. intros Ie Kp co v I. apply int_not_gnames_ref; auto. eapply Ie; eauto. Qed.

Lemma eval_upd_notin e s x z : (forall co v, In (co, v) (le_terms e) -> v <> x) -> eval_le e (upd s x z) = eval_le e s.
Proof. intros H. apply eval_agree. intros co v I. apply upd_other. eapply H; eauto. Qed.

Lemma u_gep_sound a c c' w p2 g2 p1 g1 off addr offe :
  rel2 a c w -> agree w c -> is_ref_var p2 -> is_ref_var p1 -> int_exp off ->
  scalar_exp addr -> scalar_exp offe ->
  (forall s, eval_le addr s = s (ga p1) + eval_le off s) ->
  (forall s, eval_le offe s = s (go p1) + eval_le off s) ->
  c_gep2 p2 g2 p1 g1 (eval_le off (m_st c)) (lit_zero off) c c' ->
  relv2 (u_gep C p2 g2 p1 g1 off addr offe a) c'.
Proof.
  intros R AG K2 K1 Io Sa So Ea Eo (SRC & NUL & AS & ->). unfold u_gep.
  rewrite (gv_of_ref a p1 (proj2 K1)), (gv_of_ref a p2 (proj2 K2)).
  pose proof (ref_notrgn_ga _ K2) as N1. pose proof (ref_notrgn_go _ K2) as N2. pose proof (ref_notrgn_gz _ K2) as N3.
  pose proof (ref_notrgn_ga _ K1) as M1. pose proof (ref_notrgn_go _ K1) as M2. pose proof (ref_notrgn_gz _ K1) as M3.
  pose proof (int_exp_scalar _ Io) as Sof.
  assert (EVO : eval_le off (m_st c) = eval_le off w).
  { apply eval_agree. intros co v I. symmetry. apply AG. eapply Sof; eauto. }
  rewrite EVO in *. rewrite <- !(AG _ M1), <- !(AG _ M2), <- !(AG _ M3) in *.
  set (a1 := w (ga p1)) in *. set (ov := eval_le off w) in *.
  assert (OFF2 : forall x z, In x (gnames p2) -> eval_le off (upd w x z) = ov).
  { intros x z I. unfold ov. apply eval_upd_notin. intros co v J ->. exact (go_of_ref_notin_int _ _ Io K2 _ _ J I). }
  set (b1 := d_assign (fst (gv_ref C p2)) addr (EMap (s_base a))).
  set (b := match snd (gv_ref C p1), snd (gv_ref C p2) with
            | Some (o1, z1), Some (o2, z2) => d_assign z2 (le_var z1) (d_assign o2 offe b1)
            | None, Some _ => os_forget (gv_ref C p2) b1
            | _, None => b1
            end).
  set (w' := set_ref w p2 (a1 + ov) (w (go p1) + ov) (w (gz p1))).
  assert (HB : RBA (allowed (live a) (m_hp c) w') b).
  { unfold b, b1, w', set_ref. rewrite !gv_ref_eq. cbn [fst snd].
    pose proof (rb_assign_scalar a (m_hp c) w _ (ga p2) addr (x_base _ _ _ R) N1 Sa) as R1.
    rewrite Ea in R1. fold a1 ov in R1.
    destruct (q_deref P) eqn:D; [|exact R1].
    pose proof (rb_assign_scalar a (m_hp c) _ _ (go p2) offe R1 N2 So) as R2.
    pose proof (rb_assign_scalar a (m_hp c) _ _ (gz p2) (le_var (gz p1)) R2 N3 (le_var_scalar _ M3)) as R3.
    eapply rb_w_ext; [exact R3|]. intros v.
    assert (G1 : upd w (ga p2) (a1 + ov) (go p1) = w (go p1)).
    { apply upd_other. intros E. exact (ga_not_go _ _ (proj1 K2) (eq_sym E)). }
    assert (X1 : eval_le offe (upd w (ga p2) (a1 + ov)) = w (go p1) + ov).
    { rewrite Eo, G1. f_equal. apply OFF2. rewrite gnames_ref by apply K2. left; auto. }
    rewrite X1. rewrite eval_le_var.
    assert (X2 : upd (upd w (ga p2) (a1 + ov)) (go p2) (w (go p1) + ov) (gz p1) = w (gz p1)).
    { rewrite upd_other by (intros E; exact (go_not_gz _ _ (eq_sym E))).
      apply upd_other. intros E. exact (ga_not_gz _ _ (proj1 K2) (eq_sym E)). }
    rewrite X2. reflexivity. }
  set (same := N.eqb g1 g2 && is_zero_itv (d_eval off b)).
  assert (SAME : same = true -> g1 = g2 /\ ov = 0).
  { unfold same. intros E. apply andb_true_iff in E. destruct E as [E1 E2]. split; [apply N.eqb_eq; auto|].
    pose proof (HB _ (allowed_w _ _ _)) as G.
    pose proof (d_eval_sound off b _ G) as D.
    eapply is_zero_itv_gamma in D; eauto. rewrite <- D. unfold ov. symmetry.
    apply eval_agree. intros co v I. unfold w'. apply set_ref_ne_ref; auto. exact (go_of_ref_notin_int _ _ Io K2 _ _ I). }
  set (i := s_rgn a g2).
  set (s1 := if same then a else set_info a g2 (rc_incr (i_cnt i) p2, i_ini i, i_ty i)).
  set (s2 := set_al C s1 p2 (s_alloc s1 p1)). set (s3 := set_tg C s2 p2 (s_tags s2 p1)).
  assert (EA : s_alloc s1 = s_alloc a) by (unfold s1; destruct same; reflexivity).
  assert (ET : s_tags s1 = s_tags a) by (unfold s1; destruct same; reflexivity).
  assert (ER : s_rgn s3 = s_rgn s1) by (unfold s3, s2; rewrite set_tg_rgn, set_al_rgn; reflexivity).
  assert (ET2 : s_tags s2 = s_tags a) by (unfold s2; rewrite set_al_tags; exact ET).
  assert (EB3 : s_base s3 = s_base a).
  { unfold s3, s2. rewrite set_tg_base, set_al_base. unfold s1. destruct same; reflexivity. }
  destruct (rel2_var_update a c w p2 (m_vtg c p1) b (s_rgn s3) (s_alloc s3) (s_tags s3)
              (if N.eqb g1 g2 && (a1 + ov =? a1) then m_made c
               else fupd (m_made c) g2 (m_made c g2 ++ [(Z.of_N p2, a1 + ov)])) (m_asite c)
              w' (set_ref (m_st c) p2 (a1 + ov) (w (go p1) + ov) (w (gz p1)))) as (m & Em & Rm); auto.
  - apply ref_kind_nr; auto.
  - apply K2.
  - intros v N. apply set_ref_ne_ref; auto.
  - intros g. rewrite ER. unfold s1. destruct same eqn:SM.
    + destruct (SAME eq_refl) as [-> ->]. rewrite N.eqb_refl. replace (a1 + 0 =? a1) with true.
      * cbn [andb]. apply (x_count _ _ _ R).
      * symmetry. apply Z.eqb_eq. lia.
    + rewrite set_info_rgn. destruct (N.eqb g1 g2 && (a1 + ov =? a1)) eqn:CC.
      * apply andb_true_iff in CC. destruct CC as [C1 C2]. apply N.eqb_eq in C1. apply Z.eqb_eq in C2.
        destruct (N.eq_dec g g2) as [->|N]; [|rewrite fupd_other by auto; apply (x_count _ _ _ R)].
        rewrite fupd_same. cbn [i_cnt fst]. apply cg_incr_phantom. apply (x_count _ _ _ R).
        destruct (SRC C1 C2) as [I|L].
        -- subst g1. unfold mcreators, maddrs in *. destruct (m_made c g2); [elim I|simpl; congruence].
        -- exfalso. unfold same in SM. rewrite C1, N.eqb_refl, (lit_zero_eval off b L) in SM. discriminate.
      * destruct (N.eq_dec g g2) as [->|N].
        -- rewrite !fupd_same. cbn [i_cnt fst]. rewrite map_app. apply cg_incr. apply (x_count _ _ _ R).
        -- rewrite !fupd_other by auto. apply (x_count _ _ _ R).
  - intros g. rewrite ER. unfold s1. destruct same; auto. rewrite set_info_rgn.
    destruct (N.eq_dec g g2) as [->|N]; [rewrite fupd_same | rewrite fupd_other by auto]; reflexivity.
  - intros g. rewrite ER. unfold s1. destruct same; auto. rewrite set_info_rgn.
    destruct (N.eq_dec g g2) as [->|N]; [rewrite fupd_same | rewrite fupd_other by auto]; reflexivity.
  - intros g. unfold maddrs. destruct (N.eqb g1 g2 && (a1 + ov =? a1)); [apply incl_refl|].
    destruct (N.eq_dec g g2) as [->|N].
    + rewrite fupd_same, map_app. apply incl_appl, incl_refl.
    + rewrite fupd_other by auto. apply incl_refl.
  - apply (x_anull _ _ _ R).
  - intros v N. unfold s3, s2. rewrite set_tg_alloc, set_al_get, EA. destruct (q_alloc P); auto.
    destruct (N.eqb_spec v p2); congruence.
  - intros _. unfold s3, s2. rewrite set_tg_alloc, set_al_get, EA.
    destruct (q_alloc P) eqn:PA; [rewrite N.eqb_refl | left; apply (x_soff _ _ _ R); auto].
    pose proof (x_svar _ _ _ R p1 (proj2 K1) (proj1 K1)) as X. fold a1 in X.
    unfold w'. rewrite set_ref_ga by apply K2.
    destruct (s_alloc a p1) as [ss|]; auto. cbn in X. destruct X as [X|(site & X1 & X2)].
    + right. left. apply NUL. exact X.
    + right. right. exists site, ss. repeat split; auto. rewrite AS. exact X1.
  - intros v N. unfold s3. rewrite set_tg_get, ET2.
    destruct (q_tags P); auto. destruct (N.eqb_spec v p2); congruence.
  - unfold s3. rewrite set_tg_get, ET2. destruct (q_tags P) eqn:PT.
    + rewrite N.eqb_refl. apply (x_tvar _ _ _ R). apply ref_kind_nr; auto.
    + rewrite (x_toff _ _ _ R PT). exact I.
  - intros Off. unfold s3, s2. rewrite set_tg_alloc, set_al_get, Off, EA. apply (x_soff _ _ _ R); auto.
  - intros Off. unfold s3. rewrite set_tg_get, Off, ET2. apply (x_toff _ _ _ R); auto.
  - fold b1 b same i s1 s2 s3. unfold wbase. rewrite Em. cbn [relv2]. exists w'.
    split; [apply agree_set_ref; auto|exact Rm].
Qed.

(* ---- answers about null-ness ---- *)
Lemma is_null_itv_true m v z : gamma (get m v) z -> is_null m v = BTrue -> z = 0.
Proof.
  intros G. unfold is_null.
  destruct (negb (ileq (iconst 0) (get m v))); [discriminate|].
  destruct (get m v) as [l u]; simpl in *.
  destruct l as [|l|]; try discriminate. destruct l; try discriminate.
  destruct u as [|u|]; try discriminate. destruct u; try discriminate.
  intros _. unfold gamma in G. simpl in G. unfold ble_z_l, ble_z_r in G. simpl in G.
  destruct G as [G1 G2]. apply Z.leb_le in G1, G2. lia.
Qed.
Lemma is_null_itv_false m v z : gamma (get m v) z -> is_null m v = BFalse -> z <> 0.
Proof.
  intros G. unfold is_null.
  destruct (ileq (iconst 0) (get m v)) eqn:E; simpl.
  - destruct (lb (get m v)) as [|l|]; try discriminate.
    destruct l; try discriminate. destruct (ub (get m v)) as [|u|]; try discriminate.
    destruct u; discriminate.
  - intros _ Z0. rewrite Z0 in G.
    assert (X : ileq (iconst 0) (get m v) = true); [|congruence].
    apply ileq_complete. apply wf_iconst.
    intros x Gx. apply gamma_iconst in Gx. subst. auto.
Qed.
Lemma rel2_at a c w v : rel2 a c w -> gamma (get (s_base a) v) (w v).
Proof. intros R. apply (x_base _ _ _ R _ (allowed_w _ _ _) v). Qed.
Lemma null_of_ref a p : k_kind C p = VRef -> null_of C a p = is_null (s_base a) (ga p).
Proof. intros K. unfold null_of. rewrite (gv_of_ref _ _ K). reflexivity. Qed.

(* ---- constraints: the base domain is refined, everything else is kept ---- *)
Lemma rel2_refine a c w E :
  rel2 a c w -> agree w c -> RBA (Aof a c w) E -> relv2 (wbase a E) c.
Proof.
  intros R AG HB. apply (relv2_intro a E c w AG HB).
  intros m Em. destruct R. constructor; auto.
  cbn [s_base]. rewrite <- Em. apply (rb_ext _ _ _ HB). intros v z. unfold Aof, live, typ. cbn. tauto.
Qed.

Lemma sat_scalar a hp w s k : VW (allowed (live a) hp w) s -> scalar_exp (lc_exp k) -> sat k s <-> sat k w.
Proof. intros V S. unfold sat. rewrite (eval_scalar _ _ _ _ _ V S). tauto. Qed.

Lemma rb_add a hp w E cs :
  RBA (allowed (live a) hp w) E ->
  (forall k, In k cs -> wf_lc k /\ scalar_exp (lc_exp k) /\ sat k w) ->
  RBA (allowed (live a) hp w) (d_add cs E).
Proof.
  intros R H. apply (rb_mono _ _ _ _ R); auto.
  intros s V G. apply d_add_sound; auto. intros k I. destruct (H k I) as (W & S & St). split; auto.
  apply (sat_scalar a hp w s k V S). exact St.
Qed.

Lemma sat_agree k s s' : (forall co v, In (co, v) (le_terms (lc_exp k)) -> s v = s' v) -> sat k s -> sat k s'.
Proof. intros H. unfold sat. rewrite (eval_agree _ _ _ H). tauto. Qed.

Lemma u_assume_sound a c c' w r cs :
  rel2 a c w -> agree w c -> (forall k, In k cs -> wf_lc k /\ int_exp (lc_exp k)) ->
  cstep2 (PAssume r cs) c c' -> relv2 (u_assume cs a) c'.
Proof.
  intros R AG OK [S ->]. unfold u_assume. apply (rel2_refine a c w); auto.
  apply rb_add; [apply (x_base _ _ _ R)|].
  intros k I. destruct (OK k I) as [W Ie]. pose proof (int_exp_scalar _ Ie) as Se.
  split; [exact W|split; [exact Se|]].
  apply (sat_agree k (m_st c) w); [|apply S; auto].
  intros co v J. symmetry. apply AG. eapply Se; eauto.
Qed.

(* ---- ref_assume ---- *)
Definition rcst_ok2 (rc : rcst) (ea eo ez : linexp) : Prop :=
  scalar_exp ea /\ wf_le ea /\
  (forall s, sat (mkLC (rrel_kind (rcst_rel rc)) ea) s <-> rcst_holds2 rc s) /\
  match rc with
  | RBin REq p q k =>
    is_ref_var p /\ is_ref_var q /\ scalar_exp eo /\ wf_le eo /\ scalar_exp ez /\ wf_le ez /\
    (forall s, sat (mkLC EQ eo) s <-> s (go p) = s (go q) + k) /\
    (forall s, sat (mkLC EQ ez) s <-> s (gz p) = s (gz q))
  | _ => True
  end.

Lemma rcst_holds2_agree rc w c : agree w c ->
  (match rc with RUn _ p => is_ref_var p | RBin _ p q _ => is_ref_var p /\ is_ref_var q end) ->
  rcst_holds2 rc (m_st c) -> rcst_holds2 rc w.
Proof.
  intros AG K. destruct rc as [r p|r p q k]; cbn.
  - rewrite (AG _ (ref_notrgn_ga _ K)). auto.
  - destruct K as [K1 K2]. rewrite (AG _ (ref_notrgn_ga _ K1)), (AG _ (ref_notrgn_ga _ K2)). auto.
Qed.

Lemma u_assume_ref_sound a c c' w rc ea eo ez :
  rel2 a c w -> agree w c -> rcst_ok2 rc ea eo ez ->
  (match rc with RUn _ p => is_ref_var p | RBin _ p q _ => is_ref_var p /\ is_ref_var q end) ->
  c_assume_ref2 rc c c' -> relv2 (u_assume_ref C rc ea eo ez a) c'.
Proof.
  intros R AG (Sa & Wa & Sem & Kr) KV (Hold & Site & ->). unfold u_assume_ref.
  pose proof (rcst_holds2_agree rc w c AG KV Hold) as Hw.
  match goal with |- relv2 (if ?x then _ else _) _ => destruct x eqn:SD end.
  - (* the allocation sites cannot be disjoint *)
    exfalso. destruct rc as [rl p|rl p q k]; [discriminate|]. destruct rl; try discriminate.
    destruct Kr as (Kp & Kq & _). destruct Site as [Site _].
    apply andb_true_iff in SD. destruct SD as [PA SD]. cbv zeta in SD.
    apply andb_true_iff in SD. destruct SD as [SD D4].
    apply andb_true_iff in SD. destruct SD as [SD D3].
    apply andb_true_iff in SD. destruct SD as [D1 D2].
    cbn in Hw. pose proof (x_svar _ _ _ R p (proj2 Kp) (proj1 Kp)) as Xp. pose proof (x_svar _ _ _ R q (proj2 Kq) (proj1 Kq)) as Xq.
    rewrite (AG _ (ref_notrgn_ga _ Kp)), (AG _ (ref_notrgn_ga _ Kq)) in *.
    rewrite negb_true_iff in D1, D2. unfold ds_meet in D4. rewrite D1, D2 in D4. cbn [orb] in D4.
    destruct (s_alloc a p) as [sp|] eqn:Ap; [|congruence].
    destruct (s_alloc a q) as [sq|] eqn:Aq; [|congruence].
    cbn in Xp, Xq.
    assert (NP : m_st c (ga p) <> 0 \/ m_st c (ga q) <> 0).
    { rewrite !null_of_ref in D3 by (apply Kp || apply Kq).
      apply orb_true_iff in D3. destruct D3 as [D|D]; [left|right].
      - rewrite <- (AG _ (ref_notrgn_ga _ Kp)). eapply is_null_itv_false; [apply (rel2_at _ _ _ _ R)|].
        destruct (is_null (s_base a) (ga p)); try discriminate; auto.
      - rewrite <- (AG _ (ref_notrgn_ga _ Kq)). eapply is_null_itv_false; [apply (rel2_at _ _ _ _ R)|].
        destruct (is_null (s_base a) (ga q)); try discriminate; auto. }
    pose proof (x_anull _ _ _ R) as A0.
    assert (NN : m_st c (ga p) <> 0 /\ m_st c (ga q) <> 0 /\ m_asite c (m_st c (ga p)) = m_asite c (m_st c (ga q))).
    { destruct (Z.eq_dec k 0) as [->|Nk].
      - assert (E : m_st c (ga p) = m_st c (ga q)) by lia. rewrite E in *. destruct NP; auto.
      - specialize (Site Nk). repeat split; auto.
        + intros Z0. destruct NP as [A1|A1]; [contradiction|].
          destruct Xq as [X|(s & X & _)]; [contradiction|]. rewrite Z0, A0 in Site. congruence.
        + intros Z0. destruct NP as [A1|A1]; [|contradiction].
          destruct Xp as [X|(s & X & _)]; [contradiction|]. rewrite Z0, A0 in Site. congruence. }
    destruct NN as (Np & Nq & AS).
    destruct Xp as [X|(s1 & X1 & I1)]; [contradiction|]. destruct Xq as [X|(s2 & X2 & I2)]; [contradiction|].
    assert (s1 = s2) by congruence. subst s2.
    assert (F : In s1 (filter (fun z => ds_mem z sq) sp)) by (apply filter_In; split; auto; apply ds_mem_spec; auto).
    destruct (filter (fun z => ds_mem z sq) sp); [elim F | discriminate].
  - set (kd := rrel_kind (rcst_rel rc)).
    assert (B1 : RBA (Aof a c w) (d_add [mkLC kd ea] (EMap (s_base a)))).
    { apply rb_add; [apply (x_base _ _ _ R)|]. intros k0 [<-|[]]. split; [exact Wa|split; [exact Sa|]]. apply Sem. exact Hw. }
    destruct rc as [rl p|rl p q k].
    + destruct rl; try (apply (rel2_refine a c w); auto; fail).
      apply (rel2_refine a c w); auto.
      apply rb_add; [apply rb_add; [exact B1|]|]; intros k0 [<-|[]]; (split; [exact Wa|split; [exact Sa|]]); apply Sem; exact Hw.
    + destruct rl; try (apply (rel2_refine a c w); auto; fail).
      destruct Kr as (Kp & Kq & So & Wo & Sz & Wz & SemO & SemZ).
      rewrite (gv_of_ref a p (proj2 Kp)), (gv_of_ref a q (proj2 Kq)), !gv_ref_eq. cbn [snd].
      destruct (q_deref P) eqn:D; [|apply (rel2_refine a c w); auto].
      destruct Site as [_ Site]. destruct (Site eq_refl) as [SO SZ].
      apply (rel2_refine a c w); auto.
      apply rb_add; [apply rb_add; [exact B1|]|]; intros k0 [<-|[]].
      * split; [exact Wo|split; [exact So|]]. apply SemO. rewrite (AG _ (ref_notrgn_go _ Kp)), (AG _ (ref_notrgn_go _ Kq)). exact SO.
      * split; [exact Wz|split; [exact Sz|]]. apply SemZ. rewrite (AG _ (ref_notrgn_gz _ Kp)), (AG _ (ref_notrgn_gz _ Kq)). exact SZ.
Qed.

(* ------------------------------------------------------------------ reading a region *)
(* x := the ghost variable v, for one of the values v stands for *)
Lemma rb_read (A : vsets) E (A' : vsets) x v z :
  RBA A E -> A v z -> (exists z0, A x z0) ->
  (forall v' z', v' <> x -> A' v' z' -> A v' z') -> (forall z', A' x z' -> z' = z) ->
  RBA A' (d_assign x (le_var v) E).
Proof.
  intros R Av N H2 H3. rewrite d_assign_var.
  apply (rb_upd A E A' _ x (fun _ z' => z' = z) R); auto.
  - intros s z' V G ->. apply e_set_sound; auto.
    assert (V2 : VW A (upd s v z)).
    { intros u. destruct (N.eq_dec u v) as [->|Nu]; [rewrite upd_same; auto|rewrite upd_other by auto; apply V]. }
    pose proof (e_at_sound E _ v (R _ V2)) as X. rewrite upd_same in X. exact X.
  - intros s' V'. destruct N as (z0 & A0). exists z0. split; auto.
Qed.

(* nv := a copy of the summarised variable v (expand) *)
Lemma rb_expand (A : vsets) E (A' : vsets) v nv z :
  RBA A E -> A v z -> (exists z0, A nv z0) ->
  (forall v' z', v' <> nv -> A' v' z' -> A v' z') -> (forall z', A' nv z' -> z' = z) ->
  RBA A' (d_expand v nv E).
Proof.
  intros R Av N H2 H3.
  apply (rb_upd A E A' _ nv (fun _ z' => z' = z) R); auto.
  - intros s z' V G ->. apply d_expand_sound; auto.
    exists (upd s v z). split; [|split].
    + apply R. intros u. destruct (N.eq_dec u v) as [->|Nu]; [rewrite upd_same; auto|rewrite upd_other by auto; apply V].
    + intros k Nk. apply upd_other; auto.
    + rewrite upd_same. reflexivity.
  - intros s' V'. destruct N as (z0 & A0). exists z0. split; auto.
Qed.

Lemma allowed_cell L hp w g k x v z : In (v, k) (L g) -> hp g k x = Some z -> allowed L hp w v z.
Proof. intros I H. right. exists g, k, x. auto. Qed.

(* x := v for a name x that is not a region name: the witness store takes the value *)
Lemma rb_read_scalar a hp w E x v k g y z :
  RBA (allowed (live a) hp w) E -> ~ rgn_name x -> In (v, k) (live a g) -> hp g k y = Some z ->
  RBA (allowed (live a) hp (upd w x z)) (d_assign x (le_var v) E).
Proof.
  intros R Nx I H. apply (rb_read _ _ _ x v z R).
  - eapply allowed_cell; eauto.
  - apply allowed_ne.
  - intros v' z' N. apply allowed_upd_other; auto.
  - intros z' A'. apply allowed_notrgn in A'; auto. rewrite A'. apply upd_same.
Qed.
Lemma rb_expand_scalar a hp w E nv v k g y z :
  RBA (allowed (live a) hp w) E -> ~ rgn_name nv -> In (v, k) (live a g) -> hp g k y = Some z ->
  RBA (allowed (live a) hp (upd w nv z)) (d_expand v nv E).
Proof.
  intros R Nx I H. apply (rb_expand _ _ _ v nv z R).
  - eapply allowed_cell; eauto.
  - apply allowed_ne.
  - intros v' z' N. apply allowed_upd_other; auto.
  - intros z' A'. apply allowed_notrgn in A'; auto. rewrite A'. apply upd_same.
Qed.

(* the shape of the ghost variables of a tracked region *)
Lemma gv_of_int_rgn a g : live_ty (typ a g) (k_kind C g) = Some TInt -> gv_of C a g = gv_plain g /\ live a g = [(g, PInt)].
Proof.
  unfold live, live_of, gv_of, gv_of_ty, live_ty. destruct (k_kind C g) eqn:K; try discriminate.
  - intros _. split; reflexivity.
  - destruct (has_dyn C VRgnUnk (typ a g)) eqn:HD; [|discriminate].
    destruct (typ a g) as [| |[| |]]; try discriminate. intros _. split; reflexivity.
Qed.
Lemma gv_of_ref_rgn a g : live_ty (typ a g) (k_kind C g) = Some TRef ->
  gv_of C a g = gv_ref C g /\ live a g = comps TRef (gv_ref C g).
Proof.
  unfold live, live_of, gv_of, gv_of_ty, live_ty. destruct (k_kind C g) eqn:K; try discriminate.
  - intros _. split; reflexivity.
  - destruct (has_dyn C VRgnUnk (typ a g)) eqn:HD; [|discriminate].
    destruct (typ a g) as [| |[| |]]; try discriminate. intros _. split; reflexivity.
Qed.
Lemma live_ref_adr a g : live_ty (typ a g) (k_kind C g) = Some TRef -> In (ga g, PAdr) (live a g).
Proof. intros H. rewrite (proj2 (gv_of_ref_rgn _ _ H)). left. reflexivity. Qed.
Lemma live_ref_off a g : live_ty (typ a g) (k_kind C g) = Some TRef -> q_deref P = true -> In (go g, POff) (live a g).
Proof. intros H D. rewrite (proj2 (gv_of_ref_rgn _ _ H)), gv_ref_eq, D. right; left. reflexivity. Qed.
Lemma live_ref_siz a g : live_ty (typ a g) (k_kind C g) = Some TRef -> q_deref P = true -> In (gz g, PSiz) (live a g).
Proof. intros H D. rewrite (proj2 (gv_of_ref_rgn _ _ H)), gv_ref_eq, D. right; right; left. reflexivity. Qed.

(* tracked + the dynamic type matches the kind of the loaded variable *)
Lemma tracked_live t kg kx :
  tracked C kg t = true ->
  (tracked_unk C kg = true -> content_matches t kx = true) ->
  (kg = VRgnInt -> kx = VInt) -> (kg = VRgnRef -> kx = VRef) ->
  (kx = VInt /\ live_ty t kg = Some TInt) \/ (kx = VRef /\ live_ty t kg = Some TRef).
Proof.
  unfold tracked, tracked_unk, live_ty. intros T CM K1 K2.
  destruct kg; cbn [vk_is_rgn andb] in T; try discriminate.
  - left. auto.
  - right. auto.
  - rewrite T. unfold has_dyn in T. destruct (q_skip (k_params C)); [discriminate|].
    cbn [negb andb] in CM. specialize (CM eq_refl).
    destruct t as [| |[| |]]; try discriminate; destruct kx; try discriminate; auto.
Qed.

Lemma gv_of_same_rgn s s' v : s_rgn s' = s_rgn s -> gv_of C s' v = gv_of C s v.
Proof. intros E. unfold gv_of, typ. rewrite E. reflexivity. Qed.
Lemma typ_same_rgn s s' v : s_rgn s' = s_rgn s -> typ s' v = typ s v.
Proof. intros E. unfold typ. rewrite E. reflexivity. Qed.
Lemma dup_not_prog v x : prog x = true -> x <> k_dup C v.
Proof. intros Px ->. rewrite dup_np in Px. discriminate. Qed.

Lemma rb_assign_var_scalar a hp w E x y z :
  RBA (allowed (live a) hp w) E -> ~ rgn_name x -> ~ rgn_name y -> w y = z ->
  RBA (allowed (live a) hp (upd w x z)) (d_assign x (le_var y) E).
Proof.
  intros R Nx Ny <-. rewrite <- (eval_le_var y w). apply rb_assign_scalar; auto. apply le_var_scalar; auto.
Qed.
Ltac upd_ne := first [assumption | apply not_eq_sym; assumption].
Ltac upds := repeat (first [rewrite upd_same | rewrite upd_other by upd_ne]).

(* ---- ref_load ---- *)
Lemma u_load_sound a c c' w r x p g :
  rel2 a c w -> agree w c -> is_ref_var p -> prog x = true ->
  vk_is_rgn (k_kind C g) = true ->
  (k_kind C g = VRgnInt -> k_kind C x = VInt) -> (k_kind C g = VRgnRef -> k_kind C x = VRef) ->
  cstep2 (PLd r x p g) c c' -> relv2 (u_load C x p g a) c'.
Proof.
  intros R AG Kp Px Kg KI KR ((A0 & AI) & H). unfold u_load.
  rewrite <- (AG _ (ref_notrgn_ga _ Kp)) in *. set (a0 := w (ga p)) in *.
  destruct (bv_is_true (null_of C a p)) eqn:NL.
  { exfalso. apply A0. rewrite null_of_ref in NL by apply Kp.
    eapply is_null_itv_true; [apply (rel2_at _ _ _ _ R)|].
    destruct (is_null (s_base a) (ga p)); try discriminate; auto. }
  set (s1 := if vk_is_ref (k_kind C x) then set_al C a x (s_alloc a g) else a).
  set (s2 := set_tg C s1 x (s_tags s1 g)).
  assert (ER : s_rgn s2 = s_rgn a).
  { unfold s2, s1. rewrite set_tg_rgn. destruct (vk_is_ref (k_kind C x)); auto. apply set_al_rgn. }
  assert (EB : s_base s2 = s_base a).
  { unfold s2, s1. rewrite set_tg_base. destruct (vk_is_ref (k_kind C x)); auto. apply set_al_base. }
  assert (ET : s_tags s1 = s_tags a).
  { unfold s1. destruct (vk_is_ref (k_kind C x)); auto. apply set_al_tags. }
  rewrite EB, (typ_same_rgn a s2 g ER), (gv_of_same_rgn a s2 g ER).
  unfold cnt. rewrite ER. fold (cnt a g).
  set (b := EMap (s_base a)).
  set (res := if negb (tracked C (k_kind C g) (typ a g)) then gv_forget (gv_of C a x) b
              else if tracked_unk C (k_kind C g) && negb (content_matches (typ a g) (k_kind C x))
                   then gv_forget (gv_of C a x) b
                   else if singleton_count (cnt a g) then gv_assign (gv_of C a x) (gv_of C a g) b
                        else gv_forget (gv_dup C (gv_of C a g))
                               (gv_assign (gv_of C a x) (gv_dup C (gv_of C a g)) (gv_expand (gv_of C a g) (gv_dup C (gv_of C a g)) b))).
  match goal with |- relv2 ?t c' => replace t with (wbase s2 res) end.
  2:{ unfold res. destruct (negb (tracked C (k_kind C g) (typ a g))); auto.
      destruct (tracked_unk C (k_kind C g) && negb (content_matches (typ a g) (k_kind C x))); auto.
      destruct (singleton_count (cnt a g)); auto. }
  (* the alternatives of the load, by the kind of the left-hand side *)
  assert (TL : negb (tracked C (k_kind C g) (typ a g)) = false ->
               tracked_unk C (k_kind C g) && negb (content_matches (typ a g) (k_kind C x)) = false ->
               (k_kind C x = VInt /\ live_ty (typ a g) (k_kind C g) = Some TInt) \/
               (k_kind C x = VRef /\ live_ty (typ a g) (k_kind C g) = Some TRef)).
  { intros T1 T2. apply negb_false_iff in T1. apply tracked_live; auto.
    intros TU. rewrite TU in T2. cbn in T2. apply negb_false_iff in T2. exact T2. }
  destruct (k_kind C x) eqn:Kx; try contradiction.
  - (* an integer is loaded *)
    destruct H as (z & Hz & ->).
    assert (Ix : is_int_var x) by (split; auto).
    pose proof (int_notrgn _ Ix) as Nx.
    assert (HB : RBA (allowed (live a) (m_hp c) (upd w x z)) res).
    { unfold res. rewrite (gv_of_int a x Ix). unfold gv_forget at 1 2, gv_plain at 1 2, os_forget. cbn [fst snd].
      destruct (negb (tracked C (k_kind C g) (typ a g))) eqn:T1; [apply rb_forget_scalar; apply (x_base _ _ _ R)|].
      destruct (tracked_unk C (k_kind C g) && negb (content_matches (typ a g) VInt)) eqn:T2;
        [apply rb_forget_scalar; apply (x_base _ _ _ R)|].
      destruct (TL eq_refl eq_refl) as [[_ LT]|[F _]]; [|discriminate].
      destruct (gv_of_int_rgn _ _ LT) as [GG LV]. rewrite GG.
      assert (IL : In (g, PInt) (live a g)) by (rewrite LV; left; auto).
      destruct (singleton_count (cnt a g)).
      - unfold gv_assign, gv_plain. cbn [fst snd]. eapply rb_read_scalar; eauto. apply (x_base _ _ _ R).
      - unfold gv_dup, gv_expand, gv_assign, gv_forget, os_forget, gv_plain. cbn [fst snd].
        set (dg := k_dup C g).
        pose proof (rb_expand_scalar a (m_hp c) w _ dg g PInt g a0 z (x_base _ _ _ R) (notrgn_dup g) IL Hz) as R1.
        assert (ND : x <> dg) by (apply dup_not_prog; auto).
        pose proof (rb_assign_var_scalar a (m_hp c) _ _ x dg z R1 Nx (notrgn_dup g)) as R2.
        assert (R2' := R2 ltac:(upds; reflexivity)). clear R2.
        pose proof (rb_forget_scalar a (m_hp c) _ _ dg (w dg) R2') as R3.
        eapply rb_w_ext; [exact R3|]. intros v.
        destruct (N.eq_dec v dg) as [->|N1]; [upds; reflexivity|].
        destruct (N.eq_dec v x) as [->|N2]; [upds; reflexivity|].
        upds. reflexivity. }
    destruct (rel2_var_update a c w x (m_htg c g a0) res (s_rgn s2) (s_alloc s2) (s_tags s2)
                (m_made c) (m_asite c) (upd w x z) (upd (m_st c) x z)) as (m & Em & Rm); auto.
    + rewrite ?Kx; reflexivity.
    + intros v N. apply upd_other. intros ->. apply N. rewrite gnames_int; auto. left; auto.
    + intros g'. rewrite ER. apply (x_count _ _ _ R).
    + intros g'. rewrite ER. reflexivity.
    + intros g'. rewrite ER. reflexivity.
    + intros g'. apply incl_refl.
    + apply (x_anull _ _ _ R).
    + intros v N. unfold s2, s1. rewrite set_tg_alloc. reflexivity.
    + intros K. congruence.
    + intros v N. unfold s2. rewrite set_tg_get, ET. destruct (q_tags P); auto. destruct (N.eqb_spec v x); [congruence|auto].
    + unfold s2. rewrite set_tg_get, ET. destruct (q_tags P) eqn:PT.
      * rewrite N.eqb_refl. apply (x_trgn _ _ _ R); auto.
      * rewrite (x_toff _ _ _ R PT). exact I.
    + intros Off. unfold s2, s1. rewrite set_tg_alloc. apply (x_soff _ _ _ R); auto.
    + intros Off. unfold s2. rewrite set_tg_get, Off, ET. apply (x_toff _ _ _ R); auto.
    + unfold wbase. rewrite Em. cbn [relv2]. exists (upd w x z). split; [apply agree_upd; auto|exact Rm].
  - (* a reference is loaded *)
    destruct H as (ad & o & s & Ha & Ho & Hs & ->).
    assert (Ix : is_ref_var x) by (split; auto).
    pose proof (ref_notrgn_ga _ Ix) as N1. pose proof (ref_notrgn_go _ Ix) as N2. pose proof (ref_notrgn_gz _ Ix) as N3.
    assert (HB : RBA (allowed (live a) (m_hp c) (set_ref w x ad o s)) res).
    { unfold res. rewrite (gv_of_ref a x Kx).
      destruct (negb (tracked C (k_kind C g) (typ a g))) eqn:T1; [apply rb_forget_ref; apply (x_base _ _ _ R)|].
      destruct (tracked_unk C (k_kind C g) && negb (content_matches (typ a g) VRef)) eqn:T2;
        [apply rb_forget_ref; apply (x_base _ _ _ R)|].
      destruct (TL eq_refl eq_refl) as [[F _]|[_ LT]]; [discriminate|].
      destruct (gv_of_ref_rgn _ _ LT) as [GG LV]. rewrite GG.
      pose proof (live_ref_adr _ _ LT) as IA.
      unfold set_ref. rewrite !gv_ref_eq.
      destruct (singleton_count (cnt a g)).
      - unfold gv_assign. cbn [fst snd].
        pose proof (rb_read_scalar a (m_hp c) w _ (ga x) (ga g) PAdr g a0 ad (x_base _ _ _ R) N1 IA Ha) as R1.
        destruct (q_deref P) eqn:D; [|exact R1].
        pose proof (rb_read_scalar a (m_hp c) _ _ (go x) (go g) POff g a0 o R1 N2 (live_ref_off _ _ LT D) Ho) as R2.
        exact (rb_read_scalar a (m_hp c) _ _ (gz x) (gz g) PSiz g a0 s R2 N3 (live_ref_siz _ _ LT D) Hs).
      - unfold gv_dup, gv_expand, gv_assign, gv_forget, os_forget. cbn [fst snd].
        set (da := k_dup C (ga g)).
        pose proof (rb_expand_scalar a (m_hp c) w _ da (ga g) PAdr g a0 ad (x_base _ _ _ R) (notrgn_dup _) IA Ha) as E1.
        assert (NDa : ga x <> da).
        { unfold da. destruct (ga_cases x) as [[_ G]|[_ G]]; rewrite G; [intros E; symmetry in E; eapply dup_adr; eauto | apply dup_not_prog; auto]. }
        destruct (q_deref P) eqn:D.
        + set (dof := k_dup C (go g)). set (dz := k_dup C (gz g)).
          pose proof (rb_expand_scalar a (m_hp c) _ _ dof (go g) POff g a0 o E1 (notrgn_dup _) (live_ref_off _ _ LT D) Ho) as E2.
          pose proof (rb_expand_scalar a (m_hp c) _ _ dz (gz g) PSiz g a0 s E2 (notrgn_dup _) (live_ref_siz _ _ LT D) Hs) as E3.
          assert (Dad : da <> dof) by (unfold da, dof; intros E; apply dup_inj in E; exact (ga_not_go _ _ (prog_of_rgn _ Kg) E)).
          assert (Daz : da <> dz) by (unfold da, dz; intros E; apply dup_inj in E; exact (ga_not_gz _ _ (prog_of_rgn _ Kg) E)).
          assert (Doz : dof <> dz) by (unfold dof, dz; intros E; apply dup_inj in E; exact (go_not_gz _ _ E)).
          assert (X1 : forall u, ga x <> k_dup C u).
          { intros u. destruct (ga_cases x) as [[_ G]|[_ G]]; rewrite G; [intros E; symmetry in E; eapply dup_adr; eauto | apply dup_not_prog; auto]. }
          assert (X2 : forall u, go x <> k_dup C u) by (intros u E; symmetry in E; eapply dup_off; eauto).
          assert (X3 : forall u, gz x <> k_dup C u) by (intros u E; symmetry in E; eapply dup_siz; eauto).
          pose proof (X1 (ga g)) as X1a. pose proof (X1 (go g)) as X1o. pose proof (X1 (gz g)) as X1z.
          pose proof (X2 (ga g)) as X2a. pose proof (X2 (go g)) as X2o. pose proof (X2 (gz g)) as X2z.
          pose proof (X3 (ga g)) as X3a. pose proof (X3 (go g)) as X3o. pose proof (X3 (gz g)) as X3z.
          fold da in X1a, X2a, X3a. fold dof in X1o, X2o, X3o. fold dz in X1z, X2z, X3z.
          assert (Y12 : ga x <> go x) by (apply ga_not_go; auto).
          assert (Y13 : ga x <> gz x) by (apply ga_not_gz; auto).
          assert (Y23 : go x <> gz x) by apply go_not_gz.
          pose proof (rb_assign_var_scalar a (m_hp c) _ _ (ga x) da ad E3 N1 (notrgn_dup _)) as A1.
          assert (A1' := A1 ltac:(upds; reflexivity)). clear A1.
          pose proof (rb_assign_var_scalar a (m_hp c) _ _ (go x) dof o A1' N2 (notrgn_dup _)) as A2.
          assert (A2' := A2 ltac:(upds; reflexivity)). clear A2.
          pose proof (rb_assign_var_scalar a (m_hp c) _ _ (gz x) dz s A2' N3 (notrgn_dup _)) as A3.
          assert (A3' := A3 ltac:(upds; reflexivity)). clear A3.
          pose proof (rb_forget_scalar a (m_hp c) _ _ da (w da) A3') as F1.
          pose proof (rb_forget_scalar a (m_hp c) _ _ dof (w dof) F1) as F2.
          pose proof (rb_forget_scalar a (m_hp c) _ _ dz (w dz) F2) as F3.
          eapply rb_w_ext; [exact F3|]. intros v.
          destruct (N.eq_dec v dz) as [->|V3]; [upds; reflexivity|].
          destruct (N.eq_dec v dof) as [->|V2]; [upds; reflexivity|].
          destruct (N.eq_dec v da) as [->|V1]; [upds; reflexivity|].
          destruct (N.eq_dec v (gz x)) as [->|W3]; [upds; reflexivity|].
          destruct (N.eq_dec v (go x)) as [->|W2]; [upds; reflexivity|].
          destruct (N.eq_dec v (ga x)) as [->|W1]; [upds; reflexivity|].
          upds. reflexivity.
        + pose proof (rb_assign_var_scalar a (m_hp c) _ _ (ga x) da ad E1 N1 (notrgn_dup _)) as A1.
          assert (A1' := A1 ltac:(upds; reflexivity)). clear A1.
          pose proof (rb_forget_scalar a (m_hp c) _ _ da (w da) A1') as F1.
          eapply rb_w_ext; [exact F1|]. intros v.
          destruct (N.eq_dec v da) as [->|V1]; [upds; reflexivity|].
          destruct (N.eq_dec v (ga x)) as [->|W1]; [upds; reflexivity|].
          upds. reflexivity. }
    destruct (rel2_var_update a c w x (m_htg c g a0) res (s_rgn s2) (s_alloc s2) (s_tags s2)
                (m_made c) (m_asite c) (set_ref w x ad o s) (set_ref (m_st c) x ad o s)) as (m & Em & Rm); auto.
    + rewrite ?Kx; reflexivity.
    + intros v N. apply set_ref_ne_ref; auto.
    + intros g'. rewrite ER. apply (x_count _ _ _ R).
    + intros g'. rewrite ER. reflexivity.
    + intros g'. rewrite ER. reflexivity.
    + intros g'. apply incl_refl.
    + apply (x_anull _ _ _ R).
    + intros v N. unfold s2, s1. rewrite set_tg_alloc. cbn [vk_is_ref]. rewrite set_al_get.
      destruct (q_alloc P); auto. destruct (N.eqb_spec v x); congruence.
    + intros _. unfold s2, s1. rewrite set_tg_alloc. cbn [vk_is_ref]. rewrite set_al_get.
      destruct (q_alloc P) eqn:PA; [rewrite N.eqb_refl | left; apply (x_soff _ _ _ R); auto].
      rewrite set_ref_ga by auto.
      pose proof (x_srgn _ _ _ R g a0 ad Kg Ha) as X.
      destruct (s_alloc a g) as [ss|]; auto. cbn in X. destruct X as [X|(site & X1 & X2)]; auto.
      right. right. exists site, ss. auto.
    + intros v N. unfold s2. rewrite set_tg_get, ET. destruct (q_tags P); auto. destruct (N.eqb_spec v x); [congruence|auto].
    + unfold s2. rewrite set_tg_get, ET. destruct (q_tags P) eqn:PT.
      * rewrite N.eqb_refl. apply (x_trgn _ _ _ R); auto.
      * rewrite (x_toff _ _ _ R PT). exact I.
    + intros Off. unfold s2, s1. rewrite set_tg_alloc. cbn [vk_is_ref]. rewrite set_al_get, Off. apply (x_soff _ _ _ R); auto.
    + intros Off. unfold s2. rewrite set_tg_get, Off, ET. apply (x_toff _ _ _ R); auto.
    + unfold wbase. rewrite Em. cbn [relv2]. exists (set_ref w x ad o s). split; [apply agree_set_ref; auto|exact Rm].
Qed.

(* ------------------------------------------------------------------ writing a region *)
Definition hset (hp : heap) (g : var) (k : prj) (a : Z) (o : option Z) : heap :=
  fun g' k' x => if N.eqb g' g && prj_eqb k' k && (x =? a) then o else hp g' k' x.
Lemma hset_same hp g k a o : hset hp g k a o g k a = o.
Proof. unfold hset. rewrite N.eqb_refl, Z.eqb_refl. destruct (prj_eqb_spec k k); [reflexivity|congruence]. Qed.
Lemma hset_cases hp g k a o g' k' x :
  (g' = g /\ k' = k /\ x = a /\ hset hp g k a o g' k' x = o) \/
  (~ (g' = g /\ k' = k /\ x = a) /\ hset hp g k a o g' k' x = hp g' k' x).
Proof.
  unfold hset. destruct (N.eqb_spec g' g), (prj_eqb_spec k' k), (Z.eqb_spec x a); cbn; auto; right; split; auto; tauto.
Qed.
Lemma hwrite_hset hp g a f g' k x :
  hwrite hp g a f g' k x =
  hset (hset (hset (hset hp g PInt a (f PInt)) g PAdr a (f PAdr)) g POff a (f POff)) g PSiz a (f PSiz) g' k x.
Proof.
  unfold hwrite, hset. destruct (N.eqb_spec g' g), (Z.eqb_spec x a); cbn; auto.
  - destruct k; cbn; reflexivity.
  - rewrite !andb_false_r. reflexivity.
Qed.

(* a ghost variable summarises one component of one region *)
Lemma live_fun a g k v v' : In (v, k) (live a g) -> In (v', k) (live a g) -> v = v'.
Proof.
  intros I1 I2. apply live_of_inv in I1. apply live_of_inv in I2.
  destruct I1 as [_ H1], I2 as [_ H2].
  destruct H1 as [[E1 V1]|[[E1 V1]|[[E1 [V1 _]]|[E1 [V1 _]]]]]; subst k;
    destruct H2 as [[E2 V2]|[[E2 V2]|[[E2 [V2 _]]|[E2 [V2 _]]]]]; try discriminate; congruence.
Qed.
Lemma live_owner a g g' k k' v : In (v, k) (live a g) -> In (v, k') (live a g') -> g = g' /\ k = k'.
Proof.
  intros I1 I2. pose proof I1 as J1. pose proof I2 as J2. apply live_of_inv in I1. apply live_of_inv in I2.
  destruct I1 as [K1 H1], I2 as [K2 H2].
  pose proof (prog_of_rgn _ K1) as P1. pose proof (prog_of_rgn _ K2) as P2.
  assert (GG : g = g').
  { destruct H1 as [[E1 V1]|[[E1 V1]|[[E1 [V1 _]]|[E1 [V1 _]]]]]; subst k;
      destruct H2 as [[E2 V2]|[[E2 V2]|[[E2 [V2 _]]|[E2 [V2 _]]]]]; subst k'; rewrite V1 in V2; clear V1.
    - exact V2.
    - destruct (ga_cases g') as [[_ G]|[_ G]]; rewrite G in V2; auto. rewrite V2, adr_np in P1. discriminate.
    - unfold go in V2. rewrite V2, off_np in P1. discriminate.
    - unfold gz in V2. rewrite V2, siz_np in P1. discriminate.
    - destruct (ga_cases g) as [[_ G]|[_ G]]; rewrite G in V2; auto. rewrite <- V2, adr_np in P2. discriminate.
    - apply ga_inj; auto.
    - elim (ga_not_go _ _ P1 V2).
    - elim (ga_not_gz _ _ P1 V2).
    - unfold go in V2. rewrite <- V2, off_np in P2. discriminate.
    - symmetry in V2. elim (ga_not_go _ _ P2 V2).
    - apply off_inj; auto.
    - elim (go_not_gz _ _ V2).
    - unfold gz in V2. rewrite <- V2, siz_np in P2. discriminate.
    - symmetry in V2. elim (ga_not_gz _ _ P2 V2).
    - symmetry in V2. elim (go_not_gz _ _ V2).
    - apply siz_inj; auto. }
  split; auto. subst g'.
  (* within one region the ghost variables of different components are different *)
  assert (NB : forall t, In (v, PInt) (live_of g t) -> In (v, PAdr) (live_of g t) -> False).
  { intros t. unfold live_of. destruct (live_ty t (k_kind C g)) as [[| |]|]; cbn; try contradiction.
    - intros _ [E|[]]. discriminate.
    - intros [E|J] _; [discriminate|]. destruct (snd (gv_of_ty C g t)) as [[o z]|]; cbn in J; intuition discriminate. }
  destruct H1 as [[E1 V1]|[[E1 V1]|[[E1 [V1 _]]|[E1 [V1 _]]]]]; subst k;
    destruct H2 as [[E2 V2]|[[E2 V2]|[[E2 [V2 _]]|[E2 [V2 _]]]]]; subst k'; try reflexivity; exfalso.
  - exact (NB _ J1 J2).
  - rewrite V1 in V2. unfold go in V2. rewrite V2, off_np in P1. discriminate.
  - rewrite V1 in V2. unfold gz in V2. rewrite V2, siz_np in P1. discriminate.
  - exact (NB _ J2 J1).
  - rewrite V1 in V2. elim (ga_not_go _ _ P1 V2).
  - rewrite V1 in V2. elim (ga_not_gz _ _ P1 V2).
  - rewrite V1 in V2. unfold go in V2. rewrite <- V2, off_np in P1. discriminate.
  - rewrite V1 in V2. symmetry in V2. elim (ga_not_go _ _ P1 V2).
  - rewrite V1 in V2. elim (go_not_gz _ _ V2).
  - rewrite V1 in V2. unfold gz in V2. rewrite <- V2, siz_np in P1. discriminate.
  - rewrite V1 in V2. symmetry in V2. elim (ga_not_gz _ _ P1 V2).
  - rewrite V1 in V2. symmetry in V2. elim (go_not_gz _ _ V2).
Qed.

Lemma rb_hp_ext L hp hp' w E : RBA (allowed L hp w) E -> (forall g k x, hp' g k x = hp g k x) -> RBA (allowed L hp' w) E.
Proof.
  intros R H. apply (rb_shrink _ _ _ R). intros v z [E0|(g & k & x & I & Hx)]; [left; auto|right].
  exists g, k, x. rewrite <- H. auto.
Qed.

(* the sets of the variables other than the one that summarises component k of g *)
Lemma allowed_hset_other a hp w g k a0 o v v' z :
  In (v, k) (live a g) -> v' <> v -> allowed (live a) (hset hp g k a0 o) w v' z -> allowed (live a) hp w v' z.
Proof.
  intros I N [E|(g' & k' & x & I' & H)]; [left; auto|right].
  destruct (hset_cases hp g k a0 o g' k' x) as [(-> & -> & -> & _)|(_ & E)].
  - elim N. eapply live_fun; eauto.
  - exists g', k', x. rewrite <- E. auto.
Qed.
Lemma allowed_hset_notlive a hp w g k a0 o v z :
  (forall u, ~ In (u, k) (live a g)) -> allowed (live a) (hset hp g k a0 o) w v z -> allowed (live a) hp w v z.
Proof.
  intros NL [E|(g' & k' & x & I' & H)]; [left; auto|right].
  destruct (hset_cases hp g k a0 o g' k' x) as [(-> & -> & -> & _)|(_ & E)].
  - elim (NL _ I').
  - exists g', k', x. rewrite <- E. auto.
Qed.
Lemma allowed_hset_none a hp w g k a0 v z :
  allowed (live a) (hset hp g k a0 None) w v z -> allowed (live a) hp w v z.
Proof.
  intros [E|(g' & k' & x & I' & H)]; [left; auto|right].
  destruct (hset_cases hp g k a0 None g' k' x) as [(-> & -> & -> & E)|(_ & E)]; rewrite E in H; [discriminate|].
  exists g', k', x. auto.
Qed.

(* strong update of one component *)
Lemma rb_comp_strong a hp w E g k v a0 e z :
  RBA (allowed (live a) hp w) E -> In (v, k) (live a g) -> (forall y, y <> a0 -> hp g k y = None) ->
  scalar_exp e -> eval_le e w = z ->
  RBA (allowed (live a) (hset hp g k a0 (Some z)) (upd w v z)) (d_assign v e E).
Proof.
  intros R I EX Se Ev. apply (rb_assign _ _ _ v e R).
  - intros v' z' N A'. apply allowed_upd_other in A'; auto. eapply allowed_hset_other; eauto.
  - intros s' V'. exists (w v). split; [left; reflexivity|].
    assert (Es : eval_le e (upd s' v (w v)) = z).
    { rewrite <- Ev. apply eval_agree. intros co u J.
      assert (Nu : u <> v) by (intros ->; apply (Se _ _ J); eapply live_rgn_name; eauto).
      rewrite upd_other by auto. specialize (V' u). apply allowed_upd_other in V'; auto.
      destruct V' as [E0|(g' & k' & x & I' & _)]; auto. elim (Se _ _ J). eapply live_rgn_name; eauto. }
    rewrite Es. destruct (V' v) as [E0|(g' & k' & x & I' & H)]; [rewrite E0; apply upd_same|].
    destruct (live_owner _ _ _ _ _ _ I I') as [<- <-].
    destruct (hset_cases hp g k a0 (Some z) g k x) as [(_ & _ & -> & E1)|(NE & E1)]; rewrite E1 in H.
    + inversion H; auto.
    + rewrite EX in H; [discriminate|]. intros ->. apply NE. auto.
Qed.
(* weak update of one component *)
Lemma rb_comp_weak a hp w E g k v a0 e z :
  RBA (allowed (live a) hp w) E -> In (v, k) (live a g) ->
  scalar_exp e -> eval_le e w = z ->
  RBA (allowed (live a) (hset hp g k a0 (Some z)) w) (d_weak_assign v e E).
Proof.
  intros R I Se Ev. apply (rb_weak_assign _ _ _ v e R).
  - intros v' z' N A'. eapply allowed_hset_other; eauto.
  - intros s' V'.
    assert (Es : forall z0, eval_le e (upd s' v z0) = z).
    { intros z0. rewrite <- Ev. apply eval_agree. intros co u J.
      assert (Nu : u <> v) by (intros ->; apply (Se _ _ J); eapply live_rgn_name; eauto).
      rewrite upd_other by auto. destruct (V' u) as [E0|(g' & k' & x & I' & _)]; auto.
      elim (Se _ _ J). eapply live_rgn_name; eauto. }
    destruct (V' v) as [E0|(g' & k' & x & I' & H)]; [left; left; auto|].
    destruct (live_owner _ _ _ _ _ _ I I') as [<- <-].
    destruct (hset_cases hp g k a0 (Some z) g k x) as [(_ & _ & -> & E1)|(NE & E1)]; rewrite E1 in H.
    + right. exists (w v). split; [left; reflexivity|]. rewrite Es. inversion H; auto.
    + left. right. exists g, k, x. auto.
Qed.
(* the component is forgotten *)
Lemma rb_comp_forget a hp w E g k v a0 o :
  RBA (allowed (live a) hp w) E -> In (v, k) (live a g) ->
  RBA (allowed (live a) (hset hp g k a0 o) w) (e_forget E v).
Proof.
  intros R I. apply (rb_forget _ _ _ v R (allowed_ne _ _ _ v)).
  intros v' z' N A'. eapply allowed_hset_other; eauto.
Qed.
Lemma rb_comp_notlive a hp w E g k a0 o :
  RBA (allowed (live a) hp w) E -> (forall u, ~ In (u, k) (live a g)) ->
  RBA (allowed (live a) (hset hp g k a0 o) w) E.
Proof. intros R NL. apply (rb_shrink _ _ _ R). intros v z. apply allowed_hset_notlive; auto. Qed.
Lemma rb_comp_clear a hp w E g k a0 :
  RBA (allowed (live a) hp w) E -> RBA (allowed (live a) (hset hp g k a0 None) w) E.
Proof. intros R. apply (rb_shrink _ _ _ R). intros v z. apply allowed_hset_none. Qed.

(* the value operand of a store *)
Definition sval_ok2 (g : var) (v : sval) : Prop :=
  match v with
  | SVar x true => is_ref_var x
  | SVar x false => is_int_var x
  | _ => True
  end /\
  (k_kind C g = VRgnInt -> sval_is_ref v = false) /\ (k_kind C g = VRgnRef -> sval_is_ref v = true).

Lemma sval_cell_agree v w c f : agree w c -> sval_ok2 (0%N) v \/ True -> 
  match v with SVar x true => is_ref_var x | SVar x false => is_int_var x | _ => True end ->
  sval_cell v (m_st c) f -> sval_cell v w f.
Proof.
  intros AG _ K H. destruct v as [x [|]|k|]; cbn in *; auto.
  - rewrite (AG _ (ref_notrgn_ga _ K)), (AG _ (ref_notrgn_go _ K)), (AG _ (ref_notrgn_gz _ K)). exact H.
  - rewrite (AG _ (int_notrgn _ K)). exact H.
Qed.

Lemma live_int_only a g u k : live a g = [(g, PInt)] -> k <> PInt -> ~ In (u, k) (live a g).
Proof. intros E N I. rewrite E in I. destruct I as [J|[]]. inversion J. congruence. Qed.
Lemma live_ref_noint a g u : live a g = comps TRef (gv_ref C g) -> ~ In (u, PInt) (live a g).
Proof.
  intros E I. rewrite E in I. cbn in I. destruct I as [J|I]; [discriminate|].
  destruct (snd (gv_ref C g)) as [[o z]|]; cbn in I; intuition discriminate.
Qed.
Lemma live_ref_nooff a g u k : live a g = comps TRef (gv_ref C g) -> q_deref P = false -> k <> PAdr -> ~ In (u, k) (live a g).
Proof.
  intros E D N I. rewrite E, gv_ref_eq, D in I. cbn in I. destruct I as [J|[]]. inversion J. congruence.
Qed.

Lemma hset_other_comp hp g k1 a o k y : k <> k1 -> hset hp g k1 a o g k y = hp g k y.
Proof.
  intros N. destruct (hset_cases hp g k1 a o g k y) as [(_ & E1 & _)|(_ & E1)]; [congruence|exact E1].
Qed.

(* do_mem_write on a tracked region whose contents have the type of the value *)
Lemma rb_mem_write a hp w E g a0 v f strong :
  RBA (allowed (live a) hp w) E ->
  match v with SVar x true => is_ref_var x | SVar x false => is_int_var x | _ => True end ->
  sval_cell v w f ->
  live_ty (typ a g) (k_kind C g) = Some (sval_rty v) ->
  (strong = true -> forall k y, y <> a0 -> hp g k y = None) ->
  exists w', (forall u, ~ rgn_name u -> w' u = w u) /\
    RBA (allowed (live a) (hwrite hp g a0 f) w') (mem_write C a (gv_of C a g) v (negb strong) E).
Proof.
  intros R K F LT EX.
  assert (FIN : forall w' E', RBA (allowed (live a)
             (hset (hset (hset (hset hp g PInt a0 (f PInt)) g PAdr a0 (f PAdr)) g POff a0 (f POff)) g PSiz a0 (f PSiz)) w') E' ->
             RBA (allowed (live a) (hwrite hp g a0 f) w') E').
  { intros w' E' H. apply (rb_hp_ext _ _ _ _ _ H). intros. apply hwrite_hset. }
  assert (EX1 : strong = true -> forall o1 y, y <> a0 -> hset hp g PInt a0 o1 g PAdr y = None).
  { intros S o1 y Ny. rewrite hset_other_comp by discriminate. apply EX; auto. }
  assert (EX2 : strong = true -> forall o1 o2 y, y <> a0 -> hset (hset hp g PInt a0 o1) g PAdr a0 o2 g POff y = None).
  { intros S o1 o2 y Ny. rewrite !hset_other_comp by discriminate. apply EX; auto. }
  assert (EX3 : strong = true -> forall o1 o2 o3 y, y <> a0 ->
                hset (hset (hset hp g PInt a0 o1) g PAdr a0 o2) g POff a0 o3 g PSiz y = None).
  { intros S o1 o2 o3 y Ny. rewrite !hset_other_comp by discriminate. apply EX; auto. }
  unfold sval_rty in LT.
  destruct (sval_is_ref v) eqn:IR.
  - (* a reference is stored *)
    destruct (gv_of_ref_rgn _ _ LT) as [GG LV]. rewrite GG.
    pose proof (live_ref_adr _ _ LT) as IA.
    assert (R0 : RBA (allowed (live a) (hset hp g PInt a0 (f PInt)) w) E).
    { apply rb_comp_notlive; auto. intros u. apply live_ref_noint; auto. }
    destruct v as [x [|]|k|]; try discriminate.
    + (* a reference variable *)
      cbn in F. subst f. cbn [cell_ref] in *. unfold mem_write. rewrite (gv_of_ref a x (proj2 K)), !gv_ref_eq. cbn [fst snd].
      pose proof (ref_notrgn_ga _ K) as N1. pose proof (ref_notrgn_go _ K) as N2. pose proof (ref_notrgn_gz _ K) as N3.
      destruct strong; cbn [negb].
      * pose proof (rb_comp_strong a _ w _ g PAdr (ga g) a0 (le_var (ga x)) (w (ga x)) R0 IA
                      (EX1 eq_refl _) (le_var_scalar _ N1) (eval_le_var _ _)) as R1.
        destruct (q_deref P) eqn:D.
        -- assert (G1 : upd w (ga g) (w (ga x)) (go x) = w (go x)).
           { apply upd_other. intros E0. apply N2. rewrite E0. eapply live_rgn_name; eauto. }
           pose proof (rb_comp_strong a _ _ _ g POff (go g) a0 (le_var (go x)) (w (go x)) R1 (live_ref_off _ _ LT D)
                         (EX2 eq_refl _ _)
                         (le_var_scalar _ N2) ltac:(rewrite eval_le_var; exact G1)) as R2.
           assert (G2 : upd (upd w (ga g) (w (ga x))) (go g) (w (go x)) (gz x) = w (gz x)).
           { rewrite !upd_other; auto; intros E0; apply N3; rewrite E0; eapply live_rgn_name; eauto using live_ref_off. }
           pose proof (rb_comp_strong a _ _ _ g PSiz (gz g) a0 (le_var (gz x)) (w (gz x)) R2 (live_ref_siz _ _ LT D)
                         (EX3 eq_refl _ _ _)
                         (le_var_scalar _ N3) ltac:(rewrite eval_le_var; exact G2)) as R3.
           eexists. split; [|apply FIN; exact R3].
           intros u Nu. rewrite !upd_other; auto; intros ->; apply Nu; eapply live_rgn_name; eauto using live_ref_off, live_ref_siz.
        -- eexists. split; [|apply FIN].
           2:{ apply rb_comp_notlive; [apply rb_comp_notlive; [exact R1|]|]; intros u; apply live_ref_nooff; auto; discriminate. }
           intros u Nu. rewrite upd_other; auto. intros ->. apply Nu. eapply live_rgn_name; eauto.
      * pose proof (rb_comp_weak a _ w _ g PAdr (ga g) a0 (le_var (ga x)) (w (ga x)) R0 IA (le_var_scalar _ N1) (eval_le_var _ _)) as R1.
        exists w. split; auto. apply FIN.
        destruct (q_deref P) eqn:D.
        -- pose proof (rb_comp_weak a _ _ _ g POff (go g) a0 (le_var (go x)) (w (go x)) R1 (live_ref_off _ _ LT D) (le_var_scalar _ N2) (eval_le_var _ _)) as R2.
           exact (rb_comp_weak a _ _ _ g PSiz (gz g) a0 (le_var (gz x)) (w (gz x)) R2 (live_ref_siz _ _ LT D) (le_var_scalar _ N3) (eval_le_var _ _)).
        -- apply rb_comp_notlive; [apply rb_comp_notlive; [exact R1|]|]; intros u; apply live_ref_nooff; auto; discriminate.
    + (* null *)
      cbn in F. destruct F as (o & s & ->). cbn [cell_ref] in *. unfold mem_write, os_forget. rewrite !gv_ref_eq. cbn [fst snd].
      destruct strong; cbn [negb].
      * pose proof (rb_comp_strong a _ w _ g PAdr (ga g) a0 (le_const 0) 0 R0 IA
                      (EX1 eq_refl _) (le_const_scalar 0) (eval_le_const _ _)) as R1.
        eexists. split; [|apply FIN].
        2:{ destruct (q_deref P) eqn:D.
            - apply rb_comp_forget; [apply rb_comp_forget; [exact R1|apply live_ref_off; auto]|apply live_ref_siz; auto].
            - apply rb_comp_notlive; [apply rb_comp_notlive; [exact R1|]|]; intros u; apply live_ref_nooff; auto; discriminate. }
        intros u Nu. rewrite upd_other; auto. intros ->. apply Nu. eapply live_rgn_name; eauto.
      * pose proof (rb_comp_weak a _ w _ g PAdr (ga g) a0 (le_const 0) 0 R0 IA (le_const_scalar 0) (eval_le_const _ _)) as R1.
        exists w. split; auto. apply FIN.
        destruct (q_deref P) eqn:D.
        -- apply rb_comp_forget; [apply rb_comp_forget; [exact R1|apply live_ref_off; auto]|apply live_ref_siz; auto].
        -- apply rb_comp_notlive; [apply rb_comp_notlive; [exact R1|]|]; intros u; apply live_ref_nooff; auto; discriminate.
  - (* an integer is stored *)
    destruct (gv_of_int_rgn _ _ LT) as [GG LV]. rewrite GG.
    assert (IL : In (g, PInt) (live a g)) by (rewrite LV; left; auto).
    assert (TAIL : forall w' E' z, f PAdr = None -> f POff = None -> f PSiz = None -> f PInt = Some z ->
              RBA (allowed (live a) (hset hp g PInt a0 (Some z)) w') E' ->
              RBA (allowed (live a) (hwrite hp g a0 f) w') E').
    { intros w' E' z F1 F2 F3 F0 H. apply FIN. rewrite F0, F1, F2, F3.
      apply rb_comp_clear. apply rb_comp_clear. apply rb_comp_clear. exact H. }
    destruct v as [x [|]|k|]; try discriminate.
    + cbn in F. subst f. unfold mem_write, gv_plain. rewrite (gv_of_int a x K). cbn [fst snd gv_plain].
      pose proof (int_notrgn _ K) as Nx.
      destruct strong; cbn [negb].
      * eexists. split; [|eapply TAIL; try reflexivity;
          exact (rb_comp_strong a _ w _ g PInt g a0 (le_var x) (w x) R IL (EX eq_refl PInt) (le_var_scalar _ Nx) (eval_le_var _ _))].
        intros u Nu. rewrite upd_other; auto. intros ->. apply Nu. eapply live_rgn_name; eauto.
      * exists w. split; auto. eapply TAIL; try reflexivity.
        exact (rb_comp_weak a _ w _ g PInt g a0 (le_var x) (w x) R IL (le_var_scalar _ Nx) (eval_le_var _ _)).
    + cbn in F. subst f. unfold mem_write, gv_plain. cbn [fst snd].
      destruct strong; cbn [negb].
      * eexists. split; [|eapply TAIL; try reflexivity;
          exact (rb_comp_strong a _ w _ g PInt g a0 (le_const k) k R IL (EX eq_refl PInt) (le_const_scalar k) (eval_le_const _ _))].
        intros u Nu. rewrite upd_other; auto. intros ->. apply Nu. eapply live_rgn_name; eauto.
      * exists w. split; auto. eapply TAIL; try reflexivity.
        exact (rb_comp_weak a _ w _ g PInt g a0 (le_const k) k R IL (le_const_scalar k) (eval_le_const _ _)).
Qed.

Lemma live_vars_in_gv a g v k : In (v, k) (live a g) -> In v (gv_list (gv_of C a g)).
Proof.
  unfold live, live_of, gv_of. destruct (live_ty (typ a g) (k_kind C g)) as [[| |]|]; cbn [comps]; try contradiction.
  - intros [E|[]]. inversion E. unfold gv_list. left. reflexivity.
  - unfold gv_list. destruct (gv_of_ty C g (typ a g)) as [x [[o z]|]]; cbn.
    + intros [E|[E|[E|[]]]]; inversion E; auto.
    + intros [E|[]]; inversion E; auto.
Qed.

(* the dynamic type of g changes: the ghost variables it has afterwards are forgotten *)
Lemma rb_retype a a' hp w E g xs :
  RBA (allowed (live a) hp w) E ->
  (forall g', g' <> g -> live a' g' = live a g') ->
  (forall v k, In (v, k) (live a' g) -> In v xs) ->
  RBA (allowed (live a') hp w) (fold_left e_forget xs E).
Proof.
  intros R HO HX. apply (rb_forget_list xs _ _ _ R (allowed_ne _ _ _) (allowed_ne _ _ _)).
  intros v z NI [E0|(g' & k & x & I & H)]; [left; auto|right].
  destruct (N.eq_dec g' g) as [->|N]; [elim NI; eapply HX; eauto|].
  exists g', k, x. rewrite <- HO by auto. auto.
Qed.

(* a cell is written whose components are not summarised by any ghost variable *)
Lemma rb_write_notlive a hp w E g a0 f :
  RBA (allowed (live a) hp w) E -> (forall u k z, f k = Some z -> ~ In (u, k) (live a g)) ->
  RBA (allowed (live a) (hwrite hp g a0 f) w) E.
Proof.
  intros R NL. apply (rb_shrink _ _ _ R). intros v z [E0|(g' & k & x & I & H)]; [left; auto|right].
  unfold hwrite in H. destruct (N.eqb_spec g' g) as [->|N]; cbn in H.
  - destruct (Z.eqb_spec x a0) as [->|Nx].
    + elim (NL _ _ _ H I).
    + exists g, k, x. auto.
  - exists g', k, x. auto.
Qed.

Lemma store_side_rgn s g v st : s_rgn (store_side C s g v st) = s_rgn s.
Proof. unfold store_side. destruct st, v as [x [|]|k|]; rewrite ?set_tg_rgn, ?set_al_rgn; reflexivity. Qed.
Lemma store_side_base s g v st : s_base (store_side C s g v st) = s_base s.
Proof. unfold store_side. destruct st, v as [x [|]|k|]; rewrite ?set_tg_base, ?set_al_base; reflexivity. Qed.
Lemma store_side_alloc_info s g i v st : s_alloc (store_side C (set_info s g i) g v st) = s_alloc (store_side C s g v st).
Proof.
  unfold store_side, set_al, set_tg, set_info. destruct st, v as [x [|]|k|], (q_alloc (k_params C)), (q_tags (k_params C)); reflexivity.
Qed.
Lemma store_side_tags_info s g i v st : s_tags (store_side C (set_info s g i) g v st) = s_tags (store_side C s g v st).
Proof.
  unfold store_side, set_al, set_tg, set_info. destruct st, v as [x [|]|k|], (q_alloc (k_params C)), (q_tags (k_params C)); reflexivity.
Qed.
Lemma store_side_alloc_info' s g i v st : s_alloc (set_info (store_side C s g v st) g i) = s_alloc (store_side C s g v st).
Proof. reflexivity. Qed.

(* everything but the base domain after a store *)
Lemma store_rest a c w g v strong a0 f T' m w' st' :
  rel2 a c w -> vk_is_rgn (k_kind C g) = true ->
  match v with SVar x true => is_ref_var x | SVar x false => is_int_var x | _ => True end ->
  In a0 (maddrs c g) -> sval_cell v w f ->
  (strong = true -> forall k y z, m_hp c g k y = Some z -> y = a0) ->
  (forall u, ~ rgn_name u -> w' u = w u) ->
  let rg' := fupd (s_rgn a) g (cnt a g, BTop, T') in
  let al' := s_alloc (store_side C a g v strong) in
  let tg' := s_tags (store_side C a g v strong) in
  let c' := mkS st' (hwrite (m_hp c) g a0 f) (m_made c) (m_asite c) (m_vtg c) (hupd (m_htg c) g a0 (sval_tg v c)) in
  RBA (allowed (live (mkR2 m rg' al' tg')) (m_hp c') w') (EMap m) ->
  rel2 (mkR2 m rg' al' tg') c' w'.
Proof.
  intros R Kg Kv AI F EXCL HW rg' al' tg' c' HB.
  assert (ALO : forall u, u <> g -> al' u = s_alloc a u).
  { intros u N. unfold al', store_side. destruct strong, v as [x0 [|]|k|];
      rewrite ?set_tg_alloc, ?set_al_get; auto; destruct (q_alloc P); auto; destruct (N.eqb_spec u g); congruence. }
  assert (ALOFF : q_alloc P = false -> forall u, al' u = s_alloc a u).
  { intros Off u. unfold al', store_side. destruct strong, v as [x0 [|]|k|]; rewrite ?set_tg_alloc, ?set_al_get, ?Off; auto. }
  assert (TGO : forall u, u <> g -> tg' u = s_tags a u).
  { intros u N. unfold tg', store_side. destruct strong, v as [x0 [|]|k|];
      rewrite ?set_tg_get, ?set_al_tags; auto; destruct (q_tags P); auto; destruct (N.eqb_spec u g); congruence. }
  assert (TGOFF : q_tags P = false -> forall u, tg' u = s_tags a u).
  { intros Off u. unfold tg', store_side. destruct strong, v as [x0 [|]|k|];
      rewrite ?set_tg_get, ?set_al_tags, ?Off, ?set_al_tags; auto. }
  assert (FNE : exists k z, f k = Some z).
  { destruct v as [x [|]|k|]; cbn in F.
    - subst f. exists PAdr. eexists. reflexivity.
    - subst f. exists PInt. eexists. reflexivity.
    - subst f. exists PInt. eexists. reflexivity.
    - destruct F as (o & s & ->). exists PAdr. eexists. reflexivity. }
  constructor; cbn [s_base s_rgn s_alloc s_tags].
  - exact HB.
  - intros g'. unfold cnt. cbn [s_rgn]. unfold rg'. destruct (N.eq_dec g' g) as [->|N].
    + rewrite fupd_same. cbn [i_cnt fst]. apply (x_count _ _ _ R).
    + rewrite fupd_other by auto. apply (x_count _ _ _ R).
  - intros g'. unfold ini. cbn [s_rgn]. unfold rg'. destruct (N.eq_dec g' g) as [->|N].
    + rewrite fupd_same. exact I.
    + rewrite fupd_other by auto. pose proof (x_init _ _ _ R g') as X. unfold ini in X.
      destruct (i_ini (s_rgn a g')); cbn in *; auto.
      * intros k x. rewrite hwrite_other_rgn by auto. auto.
      * destruct X as (k & x & z & H). exists k, x, z. rewrite hwrite_other_rgn by auto. auto.
  - intros g' k x z H. cbn in H. change (In x (maddrs c g')).
    destruct (N.eq_dec g' g) as [->|N]; [|rewrite hwrite_other_rgn in H by auto; eapply (x_wf _ _ _ R); eauto].
    destruct (Z.eq_dec x a0) as [->|Nx]; auto.
    rewrite hwrite_other_addr in H by auto. eapply (x_wf _ _ _ R); eauto.
  - intros p Kp Pp. assert (N : p <> g) by (intros ->; rewrite Kp in Kg; discriminate).
    rewrite ALO by auto. rewrite HW by (apply notrgn_ga; auto; rewrite Kp; reflexivity).
    apply (x_svar _ _ _ R); auto.
  - intros g' x ad Kg' H. cbn in H.
    destruct (N.eq_dec g' g) as [->|N].
    2:{ rewrite hwrite_other_rgn in H by auto. rewrite ALO by auto. eapply (x_srgn _ _ _ R); eauto. }
    destruct (q_alloc P) eqn:PA; [|rewrite ALOFF by auto; rewrite (x_soff _ _ _ R PA); exact I].
    destruct (Z.eq_dec x a0) as [->|Nx].
    + rewrite hwrite_same in H. unfold al', store_side. destruct v as [x0 [|]|k|]; cbn in F.
      * subst f. cbn in H. inversion H; subst ad. clear H.
        pose proof (x_svar _ _ _ R x0 (proj2 Kv) (proj1 Kv)) as X.
        destruct strong; rewrite set_tg_alloc, set_al_get, PA, N.eqb_refl; auto. apply sg2_join; auto.
      * subst f. discriminate.
      * subst f. discriminate.
      * destruct F as (o & s & ->). cbn in H. inversion H. apply sg2_zero.
    + rewrite hwrite_other_addr in H by auto.
      pose proof (x_srgn _ _ _ R g x ad Kg' H) as X.
      destruct strong eqn:ST; [elim Nx; eapply EXCL; eauto|].
      unfold al', store_side. destruct v as [x0 [|]|k|]; rewrite ?set_tg_alloc, ?set_al_get, ?PA, ?N.eqb_refl; auto.
      apply sg2_join; auto.
  - intros Off u. rewrite ALOFF by auto. apply (x_soff _ _ _ R); auto.
  - apply (x_anull _ _ _ R).
  - intros u Ku. assert (N : u <> g) by (intros ->; congruence).
    rewrite TGO by auto. apply (x_tvar _ _ _ R); auto.
  - intros g' x Kg'. cbn [m_htg c'].
    destruct (N.eq_dec g' g) as [->|N].
    2:{ rewrite hupd_other_rgn by auto. rewrite TGO by auto. apply (x_trgn _ _ _ R); auto. }
    destruct (q_tags P) eqn:PT; [|rewrite TGOFF by auto; rewrite (x_toff _ _ _ R PT); exact I].
    destruct (Z.eq_dec x a0) as [->|Nx].
    + rewrite hupd_same. unfold tg', store_side. destruct v as [x0 isr|k|]; cbn [sval_tg].
      * assert (K0 : vk_is_rgn (k_kind C x0) = false) by (destruct isr; [apply ref_kind_nr|apply int_kind_nr]; auto).
        pose proof (x_tvar _ _ _ R x0 K0) as X.
        destruct strong; destruct isr; rewrite set_tg_get, PT, N.eqb_refl, ?set_al_tags; auto; apply tg_join; auto.
      * apply tg_nil.
      * apply tg_nil.
    + rewrite hupd_other_addr by auto.
      pose proof (x_trgn _ _ _ R g x Kg') as X.
      destruct strong eqn:ST.
      * assert (NC : forall k, m_hp c g k x = None).
        { intros k. destruct (m_hp c g k x) eqn:Hx; auto. elim Nx. eapply EXCL; eauto. }
        rewrite (x_tuw _ _ _ R _ _ NC). apply tg_nil.
      * unfold tg', store_side. destruct v as [x0 isr|k|]; auto; try (destruct isr); rewrite ?set_al_tags; auto;
          rewrite set_tg_get, PT, N.eqb_refl, ?set_al_tags; apply tg_join; auto.
  - intros Off u. rewrite TGOFF by auto. apply (x_toff _ _ _ R); auto.
  - intros g' x Hx. cbn [m_hp m_htg c'] in *.
    destruct (N.eq_dec g' g) as [->|N].
    + destruct (Z.eq_dec x a0) as [->|Nx].
      * destruct FNE as (k & z & Fk). specialize (Hx k). rewrite hwrite_same in Hx. congruence.
      * rewrite hupd_other_addr by auto. apply (x_tuw _ _ _ R). intros k. specialize (Hx k).
        rewrite hwrite_other_addr in Hx by auto. auto.
    + rewrite hupd_other_rgn by auto. apply (x_tuw _ _ _ R). intros k. specialize (Hx k).
      rewrite hwrite_other_rgn in Hx by auto. auto.
Qed.

(* ---- ref_free ---- *)
Lemma u_free_sound a c w g p : rel2 a c w -> rel2 (u_free C g p a) c w.
Proof.
  intros R. unfold u_free. destruct R. constructor; rewrite ?set_al_base, ?set_al_tags; auto.
  - apply (rb_ext _ _ _ x_base0). intros v z. unfold Aof, live, typ. rewrite set_al_rgn. tauto.
  - intros g0. unfold cnt. rewrite set_al_rgn. apply x_count0.
  - intros g0. unfold ini. rewrite set_al_rgn. apply x_init0.
  - intros q Kq Pq. rewrite set_al_get. destruct (q_alloc P); auto. destruct (N.eqb q p); [exact I|auto].
  - intros g0 x ad K H. rewrite set_al_get. destruct (q_alloc P); eauto. destruct (N.eqb g0 p); [exact I|eauto].
  - intros Off v. rewrite set_al_get, Off. auto.
Qed.

(* ------------------------------------------------------------ the register machine *)
(* the operations covered by the theorems of this file *)
Definition csetS := cst -> Prop.
Definition cgetS (cs : list csetS) (r : reg) : csetS := nth r cs (fun _ => False).
Fixpoint csetrS (cs : list csetS) (r : reg) (v : csetS) : list csetS :=
  match cs, r with
  | [], _ => []
  | _ :: t, O => v :: t
  | h :: t, S r' => h :: csetrS t r' v
  end.
Definition reg_of2 (o : rop2) : reg :=
  match o with
  | PTop r | PBot r | PCopy r _ | PInit r _ | PMk r _ _ _ _ | PFree r _ _ | PLd r _ _ _ | PSt r _ _ _
  | PGep r _ _ _ _ _ _ _ | PRcopy r _ _ | PRcast r _ _ | PAssumeRef r _ _ _ _ | PSelRef r _ _ _ _ _ _
  | PR2i r _ _ | PI2r r _ _ _ | PTag r _ _ | PIsDeref r _ | PAssign r _ _ | PArith r _ _ _ _ | PAssume r _
  | PHavoc r _ | PForget r _ | PProject r _ | PJoin r _ _ | PMeet r _ _ | PWiden r _ _ | PNarrow r _ _ => r
  end.
Definition minit (c : cst) : Prop :=
  mwf c /\ m_asite c 0 = None /\ (forall g x, (forall k, m_hp c g k x = None) -> m_htg c g x = []).
Definition cstepS2 (cs : list csetS) (o : rop2) : list csetS :=
  match o with
  | PTop r => csetrS cs r minit
  | PBot r => csetrS cs r (fun _ => False)
  | PCopy r s => csetrS cs r (cgetS cs s)
  | _ => csetrS cs (reg_of2 o) (fun c' => exists c, cgetS cs (reg_of2 o) c /\ cstep2 o c c')
  end.

(* side conditions: well-typed CrabIR and the canonical form of the expressions handed over by the
   front end; the operations outside the proved fragment are excluded *)
Definition op_ok2 (o : rop2) : Prop :=
  match o with
  | PTop _ | PBot _ | PCopy _ _ | PFree _ _ _ => True
  | PMk _ p g _ size => is_ref_var p /\ size_ok size
  | PLd _ x p g =>
    is_ref_var p /\ prog x = true /\ vk_is_rgn (k_kind C g) = true /\
    (k_kind C g = VRgnInt -> k_kind C x = VInt) /\ (k_kind C g = VRgnRef -> k_kind C x = VRef)
  | PGep _ p2 g2 p1 g1 off addr offe =>
    is_ref_var p2 /\ is_ref_var p1 /\ int_exp off /\ scalar_exp addr /\ scalar_exp offe /\
    (forall s, eval_le addr s = s (ga p1) + eval_le off s) /\ (forall s, eval_le offe s = s (go p1) + eval_le off s)
  | PAssumeRef _ rc ea eo ez =>
    rcst_ok2 rc ea eo ez /\ match rc with RUn _ p => is_ref_var p | RBin _ p q _ => is_ref_var p /\ is_ref_var q end
  | PR2i _ p x => is_ref_var p /\ is_int_var x
  | PI2r _ x g p => is_int_var x /\ is_ref_var p
  | PIsDeref _ b => is_int_var b
  | PAssign _ x e => is_int_var x /\ int_exp e
  | PArith _ _ x y z => is_int_var x /\ is_int_var y /\ (forall v, z = OVar v -> is_int_var v)
  | PAssume _ cs => forall k, In k cs -> wf_lc k /\ int_exp (lc_exp k)
  | PHavoc _ v => is_int_var v \/ is_ref_var v
  | _ => False
  end.

Definition rels2 (rs : list rval2) (cs : list csetS) : Prop :=
  length rs = length cs /\ forall r c, cgetS cs r c -> relv2 (wget rs r) c.

Lemma wget_wset rs r v r' : (r < length rs)%nat ->
  wget (wset rs r v) r' = if Nat.eqb r' r then v else wget rs r'.
Proof.
  revert r r'. induction rs as [|h t IH]; simpl; intros r r' L; [lia|].
  destruct r, r'; simpl; auto. apply IH. lia.
Qed.
Lemma wset_oob rs r v : (length rs <= r)%nat -> wset rs r v = rs.
Proof. revert r. induction rs as [|h t IH]; simpl; intros r L; auto. destruct r; [lia|]. f_equal. apply IH. lia. Qed.
Lemma cgetS_csetrS cs r v r' : (r < length cs)%nat ->
  cgetS (csetrS cs r v) r' = if Nat.eqb r' r then v else cgetS cs r'.
Proof.
  revert r r'. induction cs as [|h t IH]; simpl; intros r r' L; [lia|].
  destruct r, r'; simpl; auto. apply IH. lia.
Qed.
Lemma csetrS_oob cs r v : (length cs <= r)%nat -> csetrS cs r v = cs.
Proof. revert r. induction cs as [|h t IH]; simpl; intros r L; auto. destruct r; [lia|]. f_equal. apply IH. lia. Qed.
Lemma wset_length rs r v : length (wset rs r v) = length rs.
Proof. revert r. induction rs as [|h t IH]; simpl; intros r; auto. destruct r; simpl; auto. Qed.
Lemma csetrS_length cs r v : length (csetrS cs r v) = length cs.
Proof. revert r. induction cs as [|h t IH]; simpl; intros r; auto. destruct r; simpl; auto. Qed.

Lemma rels2_set rs cs r (a : rval2) (cv : csetS) :
  rels2 rs cs -> (forall c, cv c -> relv2 a c) -> rels2 (wset rs r a) (csetrS cs r cv).
Proof.
  intros [L R] H. split. { rewrite wset_length, csetrS_length; auto. }
  intros r' c. destruct (Nat.lt_ge_cases r (length rs)) as [I|O].
  - rewrite wget_wset by auto. rewrite cgetS_csetrS by lia. destruct (Nat.eqb r' r); auto.
  - rewrite wset_oob by auto. rewrite csetrS_oob by lia. auto.
Qed.
Lemma rels2_unary rs cs o f :
  rels2 rs cs ->
  (forall a c c' w, rel2 a c w -> agree w c -> cstep2 o c c' -> relv2 (f a) c') ->
  rels2 (wset rs (reg_of2 o) (lift2 f (wget rs (reg_of2 o))))
        (csetrS cs (reg_of2 o) (fun c' => exists c, cgetS cs (reg_of2 o) c /\ cstep2 o c c')).
Proof.
  intros R H. apply rels2_set; auto. intros c' (c & G & S).
  destruct R as [_ R]. specialize (R _ _ G). destruct (wget rs (reg_of2 o)) as [a|]; [|elim R].
  cbn [lift2]. destruct R as (w & AG & R). eapply H; eauto.
Qed.

Lemma rel2_top c : minit c -> rel2 s_top c (m_st c).
Proof.
  intros (W & A & U). constructor; cbn; auto.
  intros s _ k. apply gamma_top.
Qed.

Theorem pstep_sound rs cs o rs' :
  rels2 rs cs -> op_ok2 o -> pstep C rs o = Some rs' -> rels2 rs' (cstepS2 cs o).
Proof.
  intros R OK ST. pose proof R as [L RR].
  destruct o; cbn [pstep cstepS2 reg_of2 op_ok2] in *; try contradiction;
    try (inversion ST; subst rs'; clear ST).
  - (* top *) apply rels2_set; auto. intros c Hc. exists (m_st c). split; [intros v _; reflexivity|apply rel2_top; auto].
  - (* bot *) apply rels2_set; auto.
  - (* copy *) apply rels2_set; auto.
  - (* mk *) destruct OK. apply (rels2_unary rs cs (PMk r p g site size)); auto. intros. eapply u_mk_sound; eauto.
  - (* free *) apply (rels2_unary rs cs (PFree r g p)); auto. intros a c c' w Ra AG S. cbn in S. subst.
    exists w. split; auto. apply u_free_sound; auto.
  - (* load *) destruct OK as (K1 & K2 & K3 & K4 & K5).
    apply (rels2_unary rs cs (PLd r x p g)); auto. intros. eapply u_load_sound; eauto.
  - (* gep *) destruct OK as (K1 & K2 & K3 & K4 & K5 & K6 & K7).
    apply (rels2_unary rs cs (PGep r p2 g2 p1 g1 offset addr offe)); auto. intros a c c' w Ra AG S. cbn in S.
    eapply u_gep_sound; eauto.
  - (* ref_assume *) destruct OK as [K1 K2].
    apply (rels2_unary rs cs (PAssumeRef r c ea eo ez)); auto. intros a c0 c' w Ra AG S. cbn in S.
    eapply u_assume_ref_sound; eauto.
  - (* r2i *) destruct OK. apply (rels2_unary rs cs (PR2i r p x)); auto. intros. eapply u_r2i_sound; eauto.
  - (* i2r *) destruct OK. apply (rels2_unary rs cs (PI2r r x g p)); auto. intros. eapply u_i2r_sound; eauto.
  - (* is_dereferenceable *) apply (rels2_unary rs cs (PIsDeref r b)); auto. intros. eapply u_isderef_sound; eauto.
  - (* assign *) destruct OK. apply (rels2_unary rs cs (PAssign r x e)); auto. intros. eapply u_assign_sound; eauto.
  - (* arith *) destruct OK as (K1 & K2 & K3).
    apply (rels2_unary rs cs (PArith r op x y z)); auto. intros. eapply u_arith_sound; eauto.
  - (* assume *) apply (rels2_unary rs cs (PAssume r cs0)); auto. intros. eapply u_assume_sound; eauto.
  - (* havoc *) apply (rels2_unary rs cs (PHavoc r v)); auto. intros a c c' w Ra AG S. cbn in S.
    destruct OK; [eapply u_havoc_int_sound|eapply u_havoc_ref_sound]; eauto.
Qed.

Theorem region2_history_sound h : Forall op_ok2 h -> forall rs cs rs',
  rels2 rs cs -> prun C rs h = Some rs' -> rels2 rs' (fold_left cstepS2 h cs).
Proof.
  induction h as [|o t IH]; simpl; intros OK rs cs rs' R RUN.
  - inversion RUN; subst; auto.
  - inversion OK; subst. destruct (pstep C rs o) as [rs1|] eqn:ST; [|discriminate].
    eapply IH; eauto. eapply pstep_sound; eauto.
Qed.

(* ---- soundness of the answers ---- *)
Theorem o_at_sound rs cs r c x : rels2 rs cs -> cgetS cs r c -> is_int_var x ->
  gamma (o_at C (wget rs r) x) (m_st c x).
Proof.
  intros [_ R] G K. specialize (R _ _ G). destruct (wget rs r) as [a|]; [|elim R].
  destruct R as (w & AG & R). cbn [o_at]. rewrite (gv_of_int a x K). cbn [gv_var gv_plain fst].
  rewrite <- (AG _ (int_notrgn _ K)). apply (rel2_at _ _ _ _ R).
Qed.
Theorem o_addr_sound rs cs r c p : rels2 rs cs -> cgetS cs r c -> is_ref_var p ->
  gamma (o_at C (wget rs r) p) (m_st c (ga p)).
Proof.
  intros [_ R] G K. specialize (R _ _ G). destruct (wget rs r) as [a|]; [|elim R].
  destruct R as (w & AG & R). cbn [o_at]. rewrite (gv_of_ref a p (proj2 K)). unfold gv_var. fold (ga p).
  rewrite <- (AG _ (ref_notrgn_ga _ K)). apply (rel2_at _ _ _ _ R).
Qed.
Theorem o_null_sound rs cs r c p : rels2 rs cs -> cgetS cs r c -> is_ref_var p ->
  (o_null C (wget rs r) p = BTrue -> m_st c (ga p) = 0) /\ (o_null C (wget rs r) p = BFalse -> m_st c (ga p) <> 0).
Proof.
  intros [_ R] G K. specialize (R _ _ G). destruct (wget rs r) as [a|]; [|elim R].
  destruct R as (w & AG & R). cbn [o_null]. rewrite (null_of_ref a p (proj2 K)).
  rewrite <- (AG _ (ref_notrgn_ga _ K)). split; intros H.
  - eapply is_null_itv_true; [apply (rel2_at _ _ _ _ R)|exact H].
  - eapply is_null_itv_false; [apply (rel2_at _ _ _ _ R)|exact H].
Qed.
(* the offset and size ghost variables describe the ghost offset and size of the reference *)
Theorem o_offsize_sound rs cs r c p io iz : rels2 rs cs -> cgetS cs r c -> is_ref_var p ->
  o_offsize C (wget rs r) p = Some (io, iz) -> gamma io (m_st c (go p)) /\ gamma iz (m_st c (gz p)).
Proof.
  intros [_ R] G K Q. specialize (R _ _ G). destruct (wget rs r) as [a|]; [|elim R].
  destruct R as (w & AG & R). cbn [o_offsize] in Q. rewrite (gv_of_ref a p (proj2 K)), gv_ref_eq in Q. cbn [snd] in Q.
  destruct (q_deref P); [|discriminate]. inversion Q; subst. split.
  - rewrite <- (AG _ (ref_notrgn_go _ K)). apply (rel2_at _ _ _ _ R).
  - rewrite <- (AG _ (ref_notrgn_gz _ K)). apply (rel2_at _ _ _ _ R).
Qed.
Theorem o_sites_sound rs cs r c p ss : rels2 rs cs -> cgetS cs r c -> is_ref_var p ->
  o_sites (wget rs r) p = Some ss ->
  m_st c (ga p) = 0 \/ exists site, m_asite c (m_st c (ga p)) = Some site /\ In site ss.
Proof.
  intros [_ R] G K Q. specialize (R _ _ G). destruct (wget rs r) as [a|]; [|elim R].
  destruct R as (w & AG & R). cbn [o_sites] in Q. pose proof (x_svar _ _ _ R p (proj2 K) (proj1 K)) as X.
  rewrite Q in X. rewrite <- (AG _ (ref_notrgn_ga _ K)). exact X.
Qed.
(* is_dereferenceable: a positive answer means offset + sz <= size for the ghost offset and size *)
Theorem o_deref_sound rs cs r c p e : rels2 rs cs -> cgetS cs r c -> is_ref_var p ->
  scalar_exp e -> wf_le e -> o_deref C (wget rs r) p e = Some (Some true) ->
  forall w, (forall v, ~ rgn_name v -> w v = m_st c v) -> ~ eval_le e w < 0.
Proof.
  intros [_ R] G K Se We Q w0 HW0 LT. specialize (R _ _ G). destruct (wget rs r) as [a|]; [|elim R].
  destruct R as (w & AG & R). cbn [o_deref] in Q. inversion Q as [Q1]. clear Q. unfold a_deref in Q1.
  destruct (snd (gv_of C a p)); [|discriminate]. inversion Q1 as [Q2]. clear Q1.
  assert (B : RBA (Aof a c w) (d_add [mkLC STRICT e] (EMap (s_base a)))).
  { apply rb_add; [apply (x_base _ _ _ R)|]. intros k0 [<-|[]]. split; [exact We|split; [exact Se|]].
    unfold sat. cbn [lc_kind lc_exp]. erewrite eval_agree; [exact LT|].
    intros co v I. rewrite (AG _ (Se _ _ I)). symmetry. apply HW0. eapply Se; eauto. }
  destruct (rb_nonbot _ _ w B (allowed_w _ _ _)) as (m & Em). rewrite Em in Q2. discriminate.
Qed.
End Sound.

(* ---- the theorems under one hypothesis on the naming scheme of the ghost variables ---- *)
Definition naming_ok (C : rconf2) (prog : var -> bool) : Prop :=
  (forall v, prog v = false -> k_kind C v = VInt) /\
  (forall v, prog (k_adr C v) = false) /\ (forall v, prog (k_off C v) = false) /\
  (forall v, prog (k_siz C v) = false) /\ (forall v, prog (k_dup C v) = false) /\
  (forall a b, k_adr C a = k_adr C b -> a = b) /\ (forall a b, k_off C a = k_off C b -> a = b) /\
  (forall a b, k_siz C a = k_siz C b -> a = b) /\ (forall a b, k_dup C a = k_dup C b -> a = b) /\
  (forall a b, k_adr C a <> k_off C b) /\ (forall a b, k_adr C a <> k_siz C b) /\
  (forall a b, k_off C a <> k_siz C b) /\ (forall a b, k_dup C a <> k_adr C b) /\
  (forall a b, k_dup C a <> k_off C b) /\ (forall a b, k_dup C a <> k_siz C b).
Ltac with_naming L :=
  intros (H1 & H2 & H3 & H4 & H5 & H6 & H7 & H8 & H9 & H10 & H11 & H12 & H13 & H14 & H15); eapply L; eassumption.

Lemma nm_history C prog : naming_ok C prog -> forall h, Forall (op_ok2 C prog) h -> forall rs cs rs',
  rels2 C prog rs cs -> prun C rs h = Some rs' -> rels2 C prog rs' (fold_left (cstepS2 C) h cs).
Proof. with_naming region2_history_sound. Qed.
Lemma nm_load C prog : naming_ok C prog -> forall a c c' w r x p g,
  rel2 C prog a c w -> agree C w c -> is_ref_var C prog p -> prog x = true ->
  vk_is_rgn (k_kind C g) = true ->
  (k_kind C g = VRgnInt -> k_kind C x = VInt) -> (k_kind C g = VRgnRef -> k_kind C x = VRef) ->
  cstep2 C (PLd r x p g) c c' -> relv2 C prog (u_load C x p g a) c'.
Proof. with_naming u_load_sound. Qed.
Lemma nm_null C prog : naming_ok C prog -> forall rs cs r c p, rels2 C prog rs cs -> cgetS cs r c -> is_ref_var C prog p ->
  (o_null C (wget rs r) p = BTrue -> m_st c (ga C p) = 0) /\
  (o_null C (wget rs r) p = BFalse -> m_st c (ga C p) <> 0).
Proof. with_naming o_null_sound. Qed.
Lemma nm_offsize C prog : naming_ok C prog -> forall rs cs r c p io iz, rels2 C prog rs cs -> cgetS cs r c -> is_ref_var C prog p ->
  o_offsize C (wget rs r) p = Some (io, iz) -> gamma io (m_st c (go C p)) /\ gamma iz (m_st c (gz C p)).
Proof. with_naming o_offsize_sound. Qed.
Lemma nm_deref C prog : naming_ok C prog -> forall rs cs r c p e, rels2 C prog rs cs -> cgetS cs r c -> is_ref_var C prog p ->
  scalar_exp C e -> wf_le e -> o_deref C (wget rs r) p e = Some (Some true) ->
  forall w, (forall v, ~ rgn_name C v -> w v = m_st c v) -> ~ eval_le e w < 0.
Proof. with_naming o_deref_sound. Qed.
Lemma nm_sites C prog : naming_ok C prog -> forall rs cs r c p ss, rels2 C prog rs cs -> cgetS cs r c -> is_ref_var C prog p ->
  o_sites (wget rs r) p = Some ss ->
  m_st c (ga C p) = 0 \/ exists site, m_asite c (m_st c (ga C p)) = Some site /\ In site ss.
Proof. with_naming o_sites_sound. Qed.
Lemma nm_store_base C prog : naming_ok C prog -> forall a hp w E g a0 v f strong,
  RBA (allowed (live C a) hp w) E ->
  match v with SVar x true => is_ref_var C prog x | SVar x false => is_int_var C prog x | _ => True end ->
  sval_cell C v w f -> live_ty C (typ a g) (k_kind C g) = Some (sval_rty v) ->
  (strong = true -> forall k y, y <> a0 -> hp g k y = None) ->
  exists w', (forall u, ~ rgn_name C u -> w' u = w u) /\
    RBA (allowed (live C a) (hwrite hp g a0 f) w') (mem_write C a (gv_of C a g) v (negb strong) E).
Proof. with_naming rb_mem_write. Qed.

(* ---- the known finding about meet: the history of checks/C15.py (two registers that hold the same
   memory, one with dynamic type region(ref) after a skipped store of an integer, the other with
   region(int)) ends in bottom ---- *)
Definition exm_kind (v : var) : vk :=
  if N.leb v 2 then VInt else if N.eqb v 3 then VBool else if N.leb v 5 then VRef
  else if N.eqb v 6 then VRgnInt else if N.eqb v 7 then VRgnUnk else VInt.
Definition exm_C : rconf2 :=
  mkC2 (mkP2 false false false false) exm_kind (fun v => 100 + v)%N (fun v => 200 + v)%N (fun v => 300 + v)%N
       (fun v => 400 + v)%N [6%N; 7%N].
Definition exm_hist : list rop2 :=
  [PInit 0%nat 7%N; PMk 0%nat 4%N 7%N 1 (OCst 4); PCopy 1%nat 0%nat;
   PSt 0%nat 4%N 7%N SNull; PSt 0%nat 4%N 7%N SNull; PSt 0%nat 4%N 7%N (SCst 9);
   PSt 1%nat 4%N 7%N (SCst 9); PSt 1%nat 4%N 7%N (SCst 9); PMeet 2%nat 0%nat 1%nat].
Lemma meet_unknown_types_refuted :
  match prun exm_C [Some s_top; Some s_top; Some s_top] exm_hist with
  | Some [Some x; Some y; None] => true
  | _ => false
  end = true.
Proof. vm_compute. reflexivity. Qed.

(* non-vacuity: region_init is outside the proved fragment, so the example starts from top:
   p := make_ref(U, 16); q := gep(p, 4); x := ref_to_int(q); is q dereferenceable for 12 bytes?
   (variables: x = 1, p = 4, q = 5, U = 7; is_dereferenceable on) *)
Definition exd_C : rconf2 :=
  mkC2 (mkP2 true true true false) exm_kind (fun v => 100 + v)%N (fun v => 200 + v)%N (fun v => 300 + v)%N
       (fun v => 400 + v)%N [6%N; 7%N].
Definition exd_hist : list rop2 :=
  [PMk 0%nat 4%N 7%N 1 (OCst 16);
   PGep 0%nat 5%N 7%N 4%N 7%N (mkLE [] 4) (mkLE [(1, 104%N)] 4) (mkLE [(1, 204%N)] 4);
   PR2i 0%nat 5%N 1%N].
Example exd_abstract :
  match prun exd_C [Some s_top] exd_hist with
  | Some [Some s] =>
    (o_offsize exd_C (Some s) 5%N,
     o_deref exd_C (Some s) 5%N (mkLE [(-1, 205%N); (1, 305%N)] (-12)),
     o_deref exd_C (Some s) 5%N (mkLE [(-1, 205%N); (1, 305%N)] (-13)),
     s_alloc s 5%N)
  | _ => (None, None, None, None)
  end = (Some (iconst 4, iconst 16), Some (Some true), Some (Some false), Some [1]).
Proof. vm_compute. reflexivity. Qed.
