(* ItvDomainSound.v — soundness of every operation of the interval-domain model with
   respect to the concrete semantics over mathematical integers (Ir/Syntax.v). *)
From Coq Require Import ZArith NArith List Bool Lia.
From CrabV Require Import Base.ZInf Scalar.Itv Scalar.ItvSound Ir.Syntax Dom.ItvEnv Dom.ItvEnvSound
     Dom.ItvSolver Dom.ItvSolverSound Dom.ItvDomain.
Import ListNotations.
Local Open Scope Z_scope.

Arguments solve : simpl never.
Arguments entail_fn : simpl never.
Arguments d_entails : simpl never.
Arguments lower_disequality : simpl never.
Arguments max_reduction_cycles : simpl never.

Lemma eval_terms_itv_sound ts e s : genv e s -> forall r z,
  gamma r z -> gamma (eval_terms_itv ts e r) (z + eval_terms ts s).
Proof.
  intros G. induction ts as [|[c v] t IH]; simpl; intros r z R.
  - replace (z + 0) with z by lia. auto.
  - replace (z + (c * s v + eval_terms t s)) with ((z + c * s v) + eval_terms t s) by lia.
    apply IH. apply iadd_sound; auto. apply imul_sound.
    + apply gamma_iconst; auto.
    + apply e_at_sound; auto.
Qed.

Lemma d_eval_sound ex e s : genv e s -> gamma (d_eval ex e) (eval_le ex s).
Proof.
  intros G. unfold d_eval, eval_le.
  replace (eval_terms (le_terms ex) s + le_cst ex) with (le_cst ex + eval_terms (le_terms ex) s) by lia.
  apply eval_terms_itv_sound; auto. apply gamma_iconst; auto.
Qed.

Lemma le_get_variable_eval ex v s : le_get_variable ex = Some v -> eval_le ex s = s v.
Proof.
  unfold le_get_variable, eval_le. destruct (le_terms ex) as [|[c w] [|? ?]]; try discriminate.
  destruct ((le_cst ex =? 0) && (c =? 1)) eqn:E; try discriminate.
  apply andb_true_iff in E. destruct E as [E1 E2]. apply Z.eqb_eq in E1, E2.
  intros H; inversion H; subst. cbn [eval_terms]. lia.
Qed.

Theorem d_assign_sound x ex e s : genv e s -> genv (d_assign x ex e) (upd s x (eval_le ex s)).
Proof.
  intros G. unfold d_assign. destruct (le_get_variable ex) as [v|] eqn:E.
  - rewrite (le_get_variable_eval _ _ s E). apply e_set_sound; auto. apply e_at_sound; auto.
  - apply e_set_sound; auto. apply d_eval_sound; auto.
Qed.

Lemma d_weak_value_sound ex e s : genv e s ->
  gamma (match le_get_variable ex with Some v => e_at e v | None => d_eval ex e end) (eval_le ex s).
Proof.
  intros G. destruct (le_get_variable ex) as [v|] eqn:E.
  - rewrite (le_get_variable_eval _ _ s E). apply e_at_sound; auto.
  - apply d_eval_sound; auto.
Qed.

Theorem d_weak_assign_sound x ex e s : genv e s ->
  genv (d_weak_assign x ex e) s /\ genv (d_weak_assign x ex e) (upd s x (eval_le ex s)).
Proof.
  intros G. pose proof (d_weak_value_sound ex e s G) as V.
  unfold d_weak_assign. destruct (le_get_variable ex); split;
    solve [apply e_join_key_sound_keep; auto; eapply gamma_not_bot; eauto
          | apply e_join_key_sound_new; auto].
Qed.

Lemma arith_itv_sound op a b x y r :
  gamma a x -> gamma b y -> arith_sem op x y = Some r -> gamma (arith_itv op a b) r.
Proof.
  intros Ga Gb. destruct op; simpl; intros H.
  - inversion H; subst. apply iadd_sound; auto.
  - inversion H; subst. apply isub_sound; auto.
  - inversion H; subst. apply imul_sound; auto.
  - destruct (y =? 0) eqn:E; inversion H; subst. apply idiv_sound; auto. apply Z.eqb_neq; auto.
  - eapply iudiv_sound; eauto.
  - destruct (y =? 0) eqn:E; inversion H; subst. apply isrem_sound; auto. apply Z.eqb_neq; auto.
  - destruct ((0 <=? x) && (0 <? y)) eqn:E; inversion H; subst.
    apply andb_true_iff in E. destruct E as [E1 E2]. apply Z.leb_le in E1. apply Z.ltb_lt in E2.
    apply (iurem_sound a b x x y); auto.
Qed.

Lemma bit_itv_sound op a b x y r :
  gamma a x -> gamma b y -> bit_sem op x y = Some r -> gamma (bit_itv op a b) r.
Proof.
  intros Ga Gb. destruct op; simpl; intros H.
  - inversion H; subst. apply iand_sound; auto.
  - inversion H; subst. apply ior_sound; auto.
  - inversion H; subst. apply ixor_sound; auto.
  - destruct (0 <=? y) eqn:E; inversion H; subst. apply ishl_sound; auto. apply Z.leb_le; auto.
  - destruct ((0 <=? y) && (0 <=? x)) eqn:E; inversion H; subst.
    apply andb_true_iff in E. destruct E as [E1 E2]. apply Z.leb_le in E1, E2.
    eapply ilshr_sound; eauto.
  - destruct (0 <=? y) eqn:E; inversion H; subst. apply iashr_sound; auto. apply Z.leb_le; auto.
Qed.

Definition operand_val (o : operand) (s : store) : Z := match o with OVar v => s v | OCst k => k end.

Lemma operand_itv_sound o e s : genv e s -> gamma (operand_itv o e) (operand_val o s).
Proof. intros G. destruct o; simpl. apply e_at_sound; auto. apply gamma_iconst; auto. Qed.

Theorem d_apply_arith_sound op x y z e s r : genv e s ->
  arith_sem op (s y) (operand_val z s) = Some r -> genv (d_apply_arith op x y z e) (upd s x r).
Proof.
  intros G H. apply e_set_sound; auto.
  eapply arith_itv_sound; eauto. apply e_at_sound; auto. apply operand_itv_sound; auto.
Qed.

Theorem d_apply_bit_sound op x y z e s r : genv e s ->
  bit_sem op (s y) (operand_val z s) = Some r -> genv (d_apply_bit op x y z e) (upd s x r).
Proof.
  intros G H. apply e_set_sound; auto.
  eapply bit_itv_sound; eauto. apply e_at_sound; auto. apply operand_itv_sound; auto.
Qed.

(* ---- adding constraints ---- *)

Lemma lc_eqb_refl_kind a b : lc_eqb a b = true -> True. Proof. auto. Qed.

Lemma fold_sys_add_in cs : forall acc c,
  In c (fold_left sys_add cs acc) -> In c acc \/ In c cs.
Proof.
  induction cs as [|c0 r IH]; simpl; intros acc c H; auto.
  apply IH in H. destruct H as [H|H]; auto.
  unfold sys_add in H. destruct (existsb _ acc); auto.
  apply in_app_or in H. destruct H as [H|[<-|[]]]; auto.
Qed.

Theorem d_add0_sound cs e s :
  (forall c, In c cs -> wf_lc c /\ sat c s) -> genv e s -> genv (d_add0 cs e) s.
Proof.
  intros H G. destruct e as [|m]; cbn [d_add0 genv] in *; [tauto|].
  assert (H' : forall c, In c (fold_left sys_add cs []) -> wf_lc c /\ sat c s).
  { intros c I. apply fold_sys_add_in in I. destruct I as [[]|I]; auto. }
  pose proof (solve_sound _ max_reduction_cycles m s H' G) as S.
  destruct (solve _ _ _); cbn [genv]; auto.
Qed.

Lemma wf_le_neg e : wf_le e -> wf_le (le_neg e).
Proof.
  intros [ND NZ]. unfold le_neg, wf_le; simpl. split.
  - rewrite map_map. simpl. exact ND.
  - intros c v I. apply in_map_iff in I. destruct I as [[c' v'] [E I]]. inversion E; subst.
    specialize (NZ _ _ I). simpl. lia.
Qed.

Lemma wf_lc_negate c : wf_lc c -> wf_lc (lc_negate c).
Proof.
  intros W. unfold lc_negate.
  destruct (lc_is_tautology c); [split; [constructor|intros ? ? []]|].
  destruct (lc_is_contradiction c); [split; [constructor|intros ? ? []]|].
  destruct (lc_kind c); unfold wf_lc; simpl; auto.
  - apply wf_le_neg. exact W.
  - apply wf_le_neg. exact W.
Qed.

Lemma sat_dec c s : sat c s \/ ~ sat c s.
Proof. destruct (satb c s) eqn:E; [left; apply satb_spec; auto|right; intros H; apply satb_spec in H; congruence]. Qed.

Lemma entail_fn_sound val c s : wf_lc c -> entail_fn val c = true -> genv val s -> sat c s.
Proof.
  intros W H G. destruct (sat_dec c s) as [S|N]; auto. exfalso.
  unfold entail_fn in H.
  assert (G' : genv (d_add0 [lc_negate c] val) s).
  { apply d_add0_sound; auto. intros c' [<-|[]]. split. apply wf_lc_negate; auto.
    apply lc_negate_spec; auto. }
  eapply e_is_bot_sound; eauto.
Qed.

Lemma fold_set_at_sound e s : genv e s -> forall vs acc,
  genv acc s -> genv (fold_left (fun acc v => e_set acc v (e_at e v)) vs acc) s.
Proof.
  intros G. induction vs as [|v r IH]; simpl; intros acc A; auto.
  apply IH. apply e_set_same_sound; auto. apply e_at_sound; auto.
Qed.

Theorem d_entails_sound c e s : wf_lc c -> d_entails c e = true -> genv e s -> sat c s.
Proof.
  intros W H G. unfold d_entails in H. rewrite (genv_not_bot _ _ G) in H.
  destruct (lc_is_tautology c) eqn:T; [apply lc_is_tautology_sound; auto|].
  destruct (lc_is_contradiction c) eqn:C; [discriminate|].
  set (val := fold_left _ _ _) in H.
  assert (GV : genv val s) by (apply fold_set_at_sound; auto; apply genv_top).
  destruct (lc_kind c) eqn:K.
  - destruct (entail_fn val {| lc_kind := INEQ; lc_exp := lc_exp c |}) eqn:E1; cbn [negb] in H; [|discriminate].
    pose proof (entail_fn_sound val (mkLC INEQ (lc_exp c)) s W E1 GV) as S1.
    assert (W2 : wf_lc {| lc_kind := INEQ; lc_exp := le_neg (lc_exp c) |}) by (apply wf_le_neg; exact W).
    pose proof (entail_fn_sound val (mkLC INEQ (le_neg (lc_exp c))) s W2 H GV) as S2.
    unfold sat in *. rewrite K. simpl in S1, S2. rewrite eval_le_neg in S2. lia.
  - exact (entail_fn_sound val c s W H GV).
  - exact (entail_fn_sound val c s W H GV).
  - exact (entail_fn_sound val c s W H GV).
Qed.

Lemma wf_le_var_minus_var x y : wf_le (le_var_minus_var x y).
Proof.
  unfold le_var_minus_var. destruct (N.ltb_spec x y); [|destruct (N.ltb_spec y x)].
  - split; simpl.
    + constructor; [intros [E|[]]; lia|constructor; auto; constructor].
    + intros c v [E|[E|[]]]; inversion E; lia.
  - split; simpl.
    + constructor; [intros [E|[]]; lia|constructor; auto; constructor].
    + intros c v [E|[E|[]]]; inversion E; lia.
  - split; simpl; [constructor|intros ? ? []].
Qed.

Lemma sys_add_ok (P : lincst -> Prop) out c : (forall x, In x out -> P x) -> P c ->
  forall x, In x (sys_add out c) -> P x.
Proof.
  intros H Hc x I. unfold sys_add in I. destruct (existsb _ out); auto.
  apply in_app_or in I. destruct I as [I|[<-|[]]]; auto.
Qed.

Lemma lower_disequality_sound e c out s :
  genv e s -> sat c s ->
  (forall x, In x out -> wf_lc x /\ sat x s) ->
  forall x, In x (lower_disequality e c out) -> wf_lc x /\ sat x s.
Proof.
  intros G S H. unfold lower_disequality.
  destruct (lc_kind c) eqn:K; auto.
  destruct (le_terms (lc_exp c)) as [|[nx vx] [|[ny vy] [|? ?]]] eqn:T; auto.
  destruct ((le_cst (lc_exp c) =? 0) && (nx =? - ny)) eqn:E; auto.
  apply andb_true_iff in E. destruct E as [E1 E2]. apply Z.eqb_eq in E1, E2.
  assert (NE : s vx <> s vy).
  { unfold sat in S. rewrite K in S. unfold eval_le in S. rewrite T, E1 in S. simpl in S.
    intros X. apply S. rewrite X, E2. ring. }
  destruct (d_entails _ e) eqn:D1.
  - apply sys_add_ok; auto. split; [apply wf_le_var_minus_var|].
    pose proof (d_entails_sound (mkLC INEQ (le_var_minus_var vx vy)) e s (wf_le_var_minus_var vx vy) D1 G) as X.
    unfold sat in *. simpl in *. rewrite eval_var_minus_var in *. lia.
  - destruct (d_entails {| lc_kind := INEQ; lc_exp := le_var_minus_var vy vx |} e) eqn:D2; auto.
    apply sys_add_ok; auto. split; [apply wf_le_var_minus_var|].
    pose proof (d_entails_sound (mkLC INEQ (le_var_minus_var vy vx)) e s (wf_le_var_minus_var vy vx) D2 G) as X.
    unfold sat in *. simpl in *. rewrite eval_var_minus_var in *. lia.
Qed.

Theorem d_add_sound cs e s :
  (forall c, In c cs -> wf_lc c /\ sat c s) -> genv e s -> genv (d_add cs e) s.
Proof.
  intros H G. destruct e as [|m]; cbn [d_add genv] in *; [tauto|].
  set (step := fun acc c => sys_add (if ckind_eqb (lc_kind c) DISEQ then lower_disequality (EMap m) c acc else acc) c).
  assert (F : forall cs' acc, (forall c, In c cs' -> wf_lc c /\ sat c s) ->
              (forall x, In x acc -> wf_lc x /\ sat x s) ->
              forall x, In x (fold_left step cs' acc) -> wf_lc x /\ sat x s).
  { induction cs' as [|c r IH]; simpl; intros acc Hc Ha x I; auto.
    apply (IH (step acc c)); auto.
    intros y J. unfold step in J.
    apply (sys_add_ok (fun x => wf_lc x /\ sat x s)
             (if ckind_eqb (lc_kind c) DISEQ then lower_disequality (EMap m) c acc else acc) c);
      [| apply Hc; left; auto | exact J].
    intros z Z. destruct (ckind_eqb (lc_kind c) DISEQ).
    - exact (lower_disequality_sound (EMap m) c acc s G (proj2 (Hc c (or_introl eq_refl))) Ha z Z).
    - apply Ha; auto. }
  pose proof (solve_sound (fold_left step cs []) max_reduction_cycles m s
               (F cs [] H (fun x (I : In x []) => match I with end)) G) as S.
  fold step. destruct (solve _ _ _); cbn [genv]; auto.
Qed.

Theorem d_add_bottom_unsat cs e s :
  (forall c, In c cs -> wf_lc c /\ sat c s) -> genv e s -> e_is_bot (d_add cs e) = false.
Proof. intros. eapply genv_not_bot. apply d_add_sound; eauto. Qed.

Theorem d_select_sound lhs c e1 e2 e s : wf_lc c -> genv e s ->
  genv (d_select lhs c e1 e2 e) (upd s lhs (if satb c s then eval_le e1 s else eval_le e2 s)).
Proof.
  intros W G. unfold d_select. rewrite (genv_not_bot _ _ G).
  destruct (satb c s) eqn:SB.
  - apply satb_spec in SB.
    assert (B1 : e_is_bot (d_add [c] e) = false).
    { apply (d_add_bottom_unsat _ _ s); auto. intros c' [<-|[]]; auto. }
    rewrite B1. destruct (e_is_bot (d_add [lc_negate c] e)).
    + apply d_assign_sound; auto.
    + apply e_set_sound; auto. apply ijoin_sound_l. apply d_eval_sound; auto.
  - assert (NS : ~ sat c s) by (intros X; apply satb_spec in X; congruence).
    destruct (e_is_bot (d_add [c] e)); [apply d_assign_sound; auto|].
    assert (B2 : e_is_bot (d_add [lc_negate c] e) = false).
    { apply (d_add_bottom_unsat _ _ s); auto. intros c' [<-|[]]. split.
      apply wf_lc_negate; auto. apply lc_negate_spec; auto. }
    rewrite B2. apply e_set_sound; auto. apply ijoin_sound_r. apply d_eval_sound; auto.
Qed.

Theorem d_forget_sound vs e s s' :
  genv e s -> (forall k, ~ In k vs -> s' k = s k) -> genv (d_forget vs e) s'.
Proof.
  intros G A. unfold d_forget. rewrite (genv_not_bot _ _ G). simpl.
  destruct (e_is_top e) eqn:T.
  - destruct e as [|m]; simpl in *; [tauto|]. eapply all_top_gmap; eauto.
  - eapply fold_forget_sound; eauto.
Qed.

Theorem d_expand_sound x nx e s v :
  genv e s -> (exists s', genv e s' /\ (forall k, k <> x -> s' k = s k) /\ v = s' x) ->
  genv (d_expand x nx e) (upd s nx v).
Proof.
  intros G (s' & G' & A & ->). unfold d_expand. rewrite (genv_not_bot _ _ G). simpl.
  destruct (e_is_top e) eqn:T.
  - destruct e as [|m]; simpl in *; [tauto|]. eapply all_top_gmap; eauto.
  - apply e_set_sound; auto. apply e_at_sound; auto.
Qed.

(* casts: integers are mathematical integers; a cast keeps the value.  For zero extension
   the source must be a non-negative value of its type (otherwise the value changes,
   which the domain does not model); booleans are 0/1. *)
Definition cast_pre (op : cast_op) (src_bool : bool) (w v : Z) : Prop :=
  match op with
  | CZExt => if src_bool then 0 <= v <= 1 else 0 <= v <= 2 ^ w - 1
  | _ => True
  end.

Lemma wf_single c v k : c <> 0 -> wf_lc (mkLC INEQ (mkLE [(c, v)] k)).
Proof.
  intros H. split; simpl.
  - constructor; auto. constructor.
  - intros c' v' [E|[]]. inversion E; subst; auto.
Qed.

Theorem d_cast_sound op dst src db sb w e s v :
  genv e s ->
  (if db || sb then (if db then True else v = s src) else v = s src) ->
  cast_pre op sb w v ->
  genv (d_cast op dst src db sb w e) (upd s dst v).
Proof.
  intros G V P. unfold d_cast.
  set (e1 := if negb (db || sb) then _ else _).
  assert (G1 : genv e1 (upd s dst v)).
  { subst e1. destruct (db || sb) eqn:B; simpl.
    - apply e_forget_sound; auto.
    - subst v. replace (s src) with (eval_le (mkLE [(1, src)] 0) s).
      + apply d_assign_sound; auto.
      + unfold eval_le; cbn [eval_terms le_terms le_cst]. lia. }
  destruct op; auto.
  unfold cast_pre in P.
  destruct sb.
  - apply d_add_sound.
    + intros c [<-|[]]. split; [apply wf_single; lia|].
      unfold sat, eval_le; cbn [lc_kind lc_exp eval_terms le_terms le_cst]. rewrite upd_same. lia.
    + apply d_add_sound; auto.
      intros c [<-|[]]. split; [apply wf_single; lia|].
      unfold sat, eval_le; cbn [lc_kind lc_exp eval_terms le_terms le_cst]. rewrite upd_same. lia.
  - apply d_add_sound; auto.
    intros c [<-|[]]. split; [apply wf_single; lia|].
    unfold sat, eval_le; cbn [lc_kind lc_exp eval_terms le_terms le_cst]. rewrite upd_same. lia.
Qed.
