(* RegionCore.v — reduced mirror model of crab::domains::region_domain
   (include/crab/domains/region_domain.hpp) instantiated over the interval domain
   (Dom/ItvDomain.v), property C15.

   What is mirrored (decision by decision): the region environment (reference count
   abstraction small_range x "initialised" flag; the dynamic-type component is dropped because
   only statically typed regions are modelled), one ghost scalar per region holding its
   contents (with the fixed-naming ghost manager the ghost variable of a variable is the
   variable itself; references are modelled by their address), the allocation-site and tag
   environments (finite-set environments with default top, specification level: lists as
   sets), and the transfer functions region_init, ref_make, ref_free, ref_load, ref_store,
   ref_gep, region_copy, ref_assume, select_ref (DEFAULT_SELECT_REF over a base domain
   without booleans), the add_tag intrinsic, assign / apply / += / -=, is_null_ref,
   join (| and |=), meet, widening, narrowing.

   Not modelled: unknown regions and region_cast, int_to_ref / ref_to_int, the offset / size
   ghost variables of is_dereferenceable, the deallocation classes (union-find), rename /
   project / expand, the variable-naming ghost manager, boolean operations of the base domain.

   The model follows the code with fixes/regions-1 (a second reference created through the
   same variable makes the region a non-singleton), regions-2 (ref_make forgets the old
   address of its left-hand side) and regions-3 (allocation sites separate two references
   only if one of them is known not to be null) applied.  No proofs here. *)
From Coq Require Import ZArith NArith List Bool Lia.
From CrabV Require Import Base.ZInf Scalar.Itv Scalar.SmallRange Scalar.Boolean Ir.Syntax
     Dom.ItvEnv Dom.ItvSolver Dom.ItvDomain.
Import ListNotations.
Local Open Scope Z_scope.

(* ---- finite-set values of separate_discrete_domain: None = top ("all"), Some l = the set l
   (Some [] = discrete_domain::bottom() = the empty set) ---- *)
Definition dset := option (list Z).
Definition ds_top : dset := None.
Definition ds_empty : dset := Some [].
Definition ds_is_bottom (d : dset) : bool := match d with Some [] => true | _ => false end.
Definition ds_mem (z : Z) (l : list Z) : bool := existsb (Z.eqb z) l.
Definition ds_join (a b : dset) : dset :=
  match a, b with Some x, Some y => Some (x ++ y) | _, _ => None end.
Definition ds_meet (a b : dset) : dset :=
  if ds_is_bottom a || ds_is_bottom b then ds_empty
  else match a, b with
       | None, _ => b
       | _, None => a
       | Some x, Some y => Some (filter (fun z => ds_mem z y) x)
       end.

(* ---- region_info without the type component ---- *)
Definition rinfo := (sr * bv)%type.
Definition ri_top : rinfo := (RZeroOrMore, BTop).
Definition ri_is_bot (i : rinfo) : bool := sr_is_bot (fst i) || bv_is_bot (snd i).
Definition ri_join (a b : rinfo) : rinfo := (sr_join (fst a) (fst b), bv_join (snd a) (snd b)).
Definition ri_meet (a b : rinfo) : rinfo := (sr_meet (fst a) (fst b), bv_meet (snd a) (snd b)).

Record rparams := mkP { p_alloc : bool; p_tags : bool }.

Record rst := mkR {
  r_base : amap;                  (* m_base_dom (not bottom) *)
  r_rgn : var -> rinfo;           (* m_rgn_env, total with default top *)
  r_alloc : var -> dset;          (* m_alloc_env *)
  r_tags : var -> dset            (* m_tag_env *)
}.
(* an abstract value: None = bottom *)
Definition rval := option rst.

Definition fupd {A} (f : var -> A) (k : var) (v : A) : var -> A :=
  fun x => if N.eqb x k then v else f x.

Definition r_top : rst := mkR [] (fun _ => ri_top) (fun _ => ds_top) (fun _ => ds_top).

Definition with_base (s : rst) (e : env) : rval :=
  match e with
  | EBot => None
  | EMap m => Some (mkR m (r_rgn s) (r_alloc s) (r_tags s))
  end.
Definition set_rgn (s : rst) (g : var) (i : rinfo) : rst :=
  mkR (r_base s) (fupd (r_rgn s) g i) (r_alloc s) (r_tags s).
Definition set_alloc (P : rparams) (s : rst) (v : var) (d : dset) : rst :=
  if p_alloc P then mkR (r_base s) (r_rgn s) (fupd (r_alloc s) v d) (r_tags s) else s.
Definition set_tags (P : rparams) (s : rst) (v : var) (d : dset) : rst :=
  if p_tags P then mkR (r_base s) (r_rgn s) (r_alloc s) (fupd (r_tags s) v d) else s.

Definition count (s : rst) (g : var) : sr := fst (r_rgn s g).
Definition rinit (s : rst) (g : var) : bv := snd (r_rgn s g).
Definition singleton_count (c : sr) : bool := sr_is_zero c || sr_is_one c.

(* increment_refcount (fixes/regions-1) *)
Definition rc_incr (c : sr) (v : var) : sr :=
  if sr_is_one c then ROneOrMore else sr_incr c (Z.of_N v).

(* is_null_ref *)
Definition is_null (m : amap) (p : var) : bv :=
  let i := get m p in
  if negb (ileq (iconst 0) i) then BFalse
  else match lb i, ub i with
       | Fin 0, Fin 0 => BTrue
       | _, _ => BTop
       end.

Definition le_var (v : var) : linexp := mkLE [(1, v)] 0.
Definition le_const (k : Z) : linexp := mkLE [] k.

(* region_init: None = CRAB_ERROR ("cannot be initialized twice") *)
Definition t_init (P : rparams) (g : var) (s : rst) : option rst :=
  if sr_leq (count s g) ROneOrMore then None
  else Some (set_tags P (set_alloc P (set_rgn s g (RZero, BFalse)) g ds_empty) g ds_empty).

(* ref_make *)
Definition t_mk (P : rparams) (p g : var) (site : Z) (s : rst) : rval :=
  let s1 := set_rgn s g (rc_incr (count s g) p, rinit s g) in
  let s2 := set_alloc P s1 p (Some [site]) in
  with_base s2 (e_forget (EMap (r_base s2)) p).

(* ref_free *)
Definition t_free (P : rparams) (g p : var) (s : rst) : rst := set_alloc P s p ds_top.

(* ref_load; [dup] is the variable returned by ghost_var_man.dup(region ghost variables) *)
Definition t_load (P : rparams) (dup : var) (x p g : var) (x_is_ref : bool) (s : rst) : rval :=
  if bv_is_true (is_null (r_base s) p) then with_base s (e_forget (EMap (r_base s)) x)
  else
    let s1 := if x_is_ref then set_alloc P s x (r_alloc s g) else s in
    let s2 := set_tags P s1 x (r_tags s1 g) in
    let b := EMap (r_base s2) in
    if singleton_count (count s2 g) then with_base s2 (d_assign x (le_var g) b)
    else with_base s2 (e_forget (d_assign x (le_var dup) (d_expand g dup b)) dup).

(* the value operand of ref_store *)
Inductive sval := SVar (x : var) (is_ref : bool) | SCst (k : Z) | SNull.
Definition sval_exp (v : sval) : linexp :=
  match v with SVar x _ => le_var x | SCst k => le_const k | SNull => le_const 0 end.

(* ref_store *)
Definition t_store (P : rparams) (p g : var) (v : sval) (s : rst) : rval :=
  if bv_is_true (is_null (r_base s) p) then with_base s (e_forget (EMap (r_base s)) g)
  else
    let c := count s g in
    let uninit := bv_is_false (rinit s g) in
    let b := EMap (r_base s) in
    let s' :=
      if uninit || singleton_count c then
        (* strong update *)
        let s1 := match v with
                  | SNull => set_alloc P s g ds_empty
                  | SVar x true => set_alloc P s g (r_alloc s x)
                  | _ => s
                  end in
        let s2 := match v with SVar x _ => set_tags P s1 g (r_tags s1 x) | _ => s1 end in
        (s2, d_assign g (sval_exp v) b)
      else
        let s1 := match v with
                  | SVar x true => set_alloc P s g (ds_join (r_alloc s g) (r_alloc s x))
                  | _ => s
                  end in
        let s2 := match v with
                  | SVar x _ => set_tags P s1 g (ds_join (r_tags s1 g) (r_tags s1 x))
                  | _ => s1
                  end in
        (s2, d_weak_assign g (sval_exp v) b) in
    with_base (set_rgn (fst s') g (c, BTop)) (snd s').

(* the linear expression ref1 + offset in canonical form: the driver supplies it *)
Definition is_zero_itv (i : itv) : bool :=
  match lb i, ub i with Fin 0, Fin 0 => true | _, _ => false end.

(* ref_gep: [addr] = address(ref1) + offset *)
Definition t_gep (P : rparams) (p2 g2 p1 g1 : var) (offset addr : linexp) (s : rst) : rval :=
  let b := d_assign p2 addr (EMap (r_base s)) in
  let same := N.eqb g1 g2 && is_zero_itv (d_eval offset b) in
  let s1 := if same then s else set_rgn s g2 (rc_incr (count s g2) p2, rinit s g2) in
  let s2 := set_alloc P s1 p2 (r_alloc s1 p1) in
  let s3 := set_tags P s2 p2 (r_tags s2 p1) in
  with_base s3 b.

(* region_copy *)
Definition t_rcopy (P : rparams) (l r : var) (s : rst) : rval :=
  let info := r_rgn s r in
  let s1 := set_rgn s l info in
  let s2 := set_alloc P s1 l (r_alloc s1 r) in
  let s3 := set_tags P s2 l (r_tags s2 r) in
  let b := EMap (r_base s3) in
  if singleton_count (fst info) then with_base s3 (d_assign l (le_var r) b)
  else with_base s3 (d_expand r l (e_forget b l)).

(* reference constraints: p REL null, p REL q + k *)
Inductive rrel := REq | RNe | RLe | RLt | RGe | RGt.
Inductive rcst := RUn (rel : rrel) (p : var) | RBin (rel : rrel) (p q : var) (k : Z).
Definition rrel_kind (r : rrel) : ckind :=
  match r with REq => EQ | RNe => DISEQ | RLe | RGe => INEQ | RLt | RGt => STRICT end.
(* the linear constraint over addresses built by ghosting_ref_cst_to_linear_cst: the
   expression is supplied in canonical form by the driver (it is x - n, n - x, e - x or
   x - e depending on the operator: see linear_constraints.hpp) *)
Definition rcst_rel (c : rcst) : rrel := match c with RUn r _ => r | RBin r _ _ _ => r end.

(* ref_assume *)
Definition t_assume_ref (P : rparams) (c : rcst) (addr_exp : linexp) (s : rst) : rval :=
  let sites_disjoint :=
    match c with
    | RBin REq p q _ =>
      p_alloc P &&
      let la := r_alloc s p in let ra := r_alloc s q in
      negb (ds_is_bottom la) && negb (ds_is_bottom ra) &&
      (bv_is_false (is_null (r_base s) p) || bv_is_false (is_null (r_base s) q)) &&
      ds_is_bottom (ds_meet la ra)
    | _ => false
    end in
  if sites_disjoint then None
  else with_base s (d_add [mkLC (rrel_kind (rcst_rel c)) addr_exp] (EMap (r_base s))).

(* operator-= *)
Inductive vkind := KScalar | KRef | KRegion.
Definition t_havoc (P : rparams) (v : var) (k : vkind) (s : rst) : rval :=
  let s1 := match k with KRegion => set_rgn s v ri_top | _ => s end in
  let s2 := match k with KScalar => s1 | _ => set_alloc P s1 v ds_top end in
  let s3 := set_tags P s2 v ds_top in
  with_base s3 (e_forget (EMap (r_base s3)) v).

(* intrinsic add_tag *)
Definition t_tag (P : rparams) (g : var) (t : Z) (s : rst) : rst :=
  set_tags P s g (ds_join (r_tags s g) (Some [t])).

Definition merge_tags (s : rst) (vs : list var) : dset :=
  fold_left (fun acc v => ds_join acc (r_tags s v)) vs ds_empty.

Definition t_assign (P : rparams) (x : var) (e : linexp) (s : rst) : rval :=
  with_base (set_tags P s x (merge_tags s (map snd (le_terms e)))) (d_assign x e (EMap (r_base s))).

Definition t_arith (P : rparams) (op : arith_op) (x y : var) (z : operand) (s : rst) : rval :=
  let tg := match z with
            | OVar v => ds_join (r_tags s y) (r_tags s v)
            | OCst _ => r_tags s y
            end in
  with_base (set_tags P s x tg) (d_apply_arith op x y z (EMap (r_base s))).

Definition t_assume (cs : list lincst) (s : rst) : rval := with_base s (d_add cs (EMap (r_base s))).

(* ---- lattice operations ---- *)
Definition comb_val (fb : env -> env -> env) (fr : rinfo -> rinfo -> rinfo) (fd : dset -> dset -> dset)
           (a b : rst) : rval :=
  with_base (mkR [] (fun v => fr (r_rgn a v) (r_rgn b v)) (fun v => fd (r_alloc a v) (r_alloc b v))
                 (fun v => fd (r_tags a v) (r_tags b v)))
            (fb (EMap (r_base a)) (EMap (r_base b))).

Definition v_join (a b : rval) : rval :=
  match a, b with
  | None, _ => b | _, None => a
  | Some x, Some y => comb_val e_join ri_join ds_join x y
  end.
Definition v_widen (a b : rval) : rval :=
  match a, b with
  | None, _ => b | _, None => a
  | Some x, Some y => comb_val e_widen ri_join ds_join x y
  end.
(* [univ]: the region variables (the keys that may be bound in m_rgn_env) *)
Definition v_meet_gen (fb : env -> env -> env) (univ : list var) (a b : rval) : rval :=
  match a, b with
  | None, _ | _, None => None
  | Some x, Some y =>
    if existsb (fun g => ri_is_bot (ri_meet (r_rgn x g) (r_rgn y g))) univ then None
    else comb_val fb ri_meet ds_meet x y
  end.
Definition v_meet := v_meet_gen e_meet.
Definition v_narrow := v_meet_gen e_narrow.

(* select_ref (DEFAULT_SELECT_REF): over the interval domain assume_bool is the identity, so
   both arms are evaluated on copies and joined.  An arm is a reference with its region, or
   null. *)
Definition sel_arm (P : rparams) (p g : var) (arm : option (var * var)) (null_exp : linexp) (s : rst) : rval :=
  match arm with
  | None =>
    match t_havoc P p KRef s with
    | None => None
    | Some s1 => t_assume_ref P (RUn REq p) null_exp s1
    end
  | Some (q, gq) => t_gep P p g q gq (le_const 0) (le_var q) s
  end.
Definition t_selref (P : rparams) (p g : var) (a1 a2 : option (var * var)) (null_exp : linexp) (s : rst) : rval :=
  v_join (sel_arm P p g a1 null_exp s) (sel_arm P p g a2 null_exp s).

(* ---- register machine over abstract values (as Dom/History.v) ---- *)
Definition reg := nat.
Inductive rop :=
| OTop (r : reg) | OBot (r : reg) | OCopy (r s : reg)
| OInit (r : reg) (g : var)
| OMk (r : reg) (p g : var) (site : Z)
| OFree (r : reg) (g p : var)
| OLd (r : reg) (x p g : var) (x_is_ref : bool)
| OSt (r : reg) (p g : var) (v : sval)
| OGep (r : reg) (p2 g2 p1 g1 : var) (offset addr : linexp)
| ORcopy (r : reg) (l g : var)
| OAssumeRef (r : reg) (c : rcst) (addr_exp : linexp)
| OSelRef (r : reg) (p g : var) (a1 a2 : option (var * var)) (null_exp : linexp)
| OTag (r : reg) (g : var) (t : Z)
| OAssign (r : reg) (x : var) (e : linexp)
| OArith (r : reg) (op : arith_op) (x y : var) (z : operand)
| OAssume (r : reg) (cs : list lincst)
| OHavoc (r : reg) (v : var) (k : vkind)
| OJoin (r s t : reg) | OMeet (r s t : reg) | OWiden (r s t : reg) | ONarrow (r s t : reg).

Definition vget (rs : list rval) (r : reg) : rval := nth r rs (Some r_top).
Fixpoint vset (rs : list rval) (r : reg) (v : rval) : list rval :=
  match rs, r with
  | [], _ => []
  | _ :: t, O => v :: t
  | h :: t, S r' => h :: vset t r' v
  end.

Definition lift (f : rst -> rval) (v : rval) : rval := match v with None => None | Some s => f s end.

Record rconf := mkC { c_params : rparams; c_dup : var -> var; c_univ : list var }.

(* one step; None = the C++ aborts (CRAB_ERROR in region_init) *)
Definition rstep (C : rconf) (rs : list rval) (o : rop) : option (list rval) :=
  let P := c_params C in
  let upd r f := Some (vset rs r (lift f (vget rs r))) in
  match o with
  | OTop r => Some (vset rs r (Some r_top))
  | OBot r => Some (vset rs r None)
  | OCopy r s => Some (vset rs r (vget rs s))
  | OInit r g =>
    match vget rs r with
    | None => Some rs
    | Some s => match t_init P g s with None => None | Some s' => Some (vset rs r (Some s')) end
    end
  | OMk r p g site => upd r (t_mk P p g site)
  | OFree r g p => upd r (fun s => Some (t_free P g p s))
  | OLd r x p g isr => upd r (t_load P (c_dup C g) x p g isr)
  | OSt r p g v => upd r (t_store P p g v)
  | OGep r p2 g2 p1 g1 off addr => upd r (t_gep P p2 g2 p1 g1 off addr)
  | ORcopy r l g => upd r (t_rcopy P l g)
  | OAssumeRef r c e => upd r (t_assume_ref P c e)
  | OSelRef r p g a1 a2 ne => upd r (t_selref P p g a1 a2 ne)
  | OTag r g t => upd r (fun s => Some (t_tag P g t s))
  | OAssign r x e => upd r (t_assign P x e)
  | OArith r op x y z => upd r (t_arith P op x y z)
  | OAssume r cs => upd r (t_assume cs)
  | OHavoc r v k => upd r (t_havoc P v k)
  | OJoin r s t => Some (vset rs r (v_join (vget rs s) (vget rs t)))
  | OMeet r s t => Some (vset rs r (v_meet (c_univ C) (vget rs s) (vget rs t)))
  | OWiden r s t => Some (vset rs r (v_widen (vget rs s) (vget rs t)))
  | ONarrow r s t => Some (vset rs r (v_narrow (c_univ C) (vget rs s) (vget rs t)))
  end.

Fixpoint rrun (C : rconf) (rs : list rval) (h : list rop) : option (list rval) :=
  match h with
  | [] => Some rs
  | o :: t => match rstep C rs o with None => None | Some rs' => rrun C rs' t end
  end.

(* ---- observations ---- *)
Definition q_at (v : rval) (x : var) : itv := match v with None => ibot | Some s => get (r_base s) x end.
Definition q_null (v : rval) (p : var) : bv := match v with None => BBot | Some s => is_null (r_base s) p end.
Definition q_sites (v : rval) (p : var) : dset := match v with None => ds_top | Some s => r_alloc s p end.
Definition q_tags (v : rval) (g : var) : dset := match v with None => ds_top | Some s => r_tags s g end.
Definition q_count (v : rval) (g : var) : rinfo := match v with None => ri_top | Some s => r_rgn s g end.
