(* ItvEnvSound.v — concretisation of interval environments and soundness of the
   environment operations (the separate_domain layer of the interval domain). *)
From Coq Require Import ZArith List Bool Lia.
From CrabV Require Import Base.ZInf Scalar.Itv Scalar.ItvSound Ir.Syntax Dom.ItvEnv.
Import ListNotations.
Local Open Scope Z_scope.

Definition gmap (m : amap) (s : store) : Prop := forall k, gamma (get m k) (s k).
Definition genv (e : env) (s : store) : Prop :=
  match e with EBot => False | EMap m => gmap m s end.

Lemma get_remove_same m k : get (remove m k) k = itop.
Proof.
  induction m as [|[k' v] r IH]; simpl; auto.
  destruct (N.eqb k' k) eqn:E; simpl; auto. rewrite E. auto.
Qed.

Lemma get_remove_other m k k' : k' <> k -> get (remove m k) k' = get m k'.
Proof.
  intros H. induction m as [|[k0 v] r IH]; simpl; auto.
  destruct (N.eqb k0 k) eqn:E; simpl.
  - apply N.eqb_eq in E. subst. destruct (N.eqb_spec k k'); [congruence|auto].
  - destruct (N.eqb k0 k'); auto.
Qed.

Lemma is_top_gamma v z : is_top v = true -> gamma v z -> True.
Proof. auto. Qed.

(* put stores v, or nothing when v is top: lookups can only grow, and are exact
   on well-formed values *)
Lemma get_put_same_sound m k v z : gamma v z -> gamma (get (put m k v) k) z.
Proof.
  intros G. unfold put. destruct (is_top v).
  - rewrite get_remove_same. apply gamma_top.
  - simpl. rewrite N.eqb_refl. auto.
Qed.

Lemma get_put_other m k v k' : k' <> k -> get (put m k v) k' = get m k'.
Proof.
  intros H. unfold put. destruct (is_top v).
  - apply get_remove_other; auto.
  - simpl. destruct (N.eqb_spec k k'); try congruence. apply get_remove_other; auto.
Qed.

Lemma genv_not_bot e s : genv e s -> e_is_bot e = false.
Proof. destruct e; simpl; auto; tauto. Qed.

Lemma genv_top s : genv e_top s.
Proof. intros k. simpl. apply gamma_top. Qed.

Lemma e_at_sound e s k : genv e s -> gamma (e_at e k) (s k).
Proof. destruct e; simpl; [tauto|]. auto. Qed.

Lemma e_set_sound e s x v z : genv e s -> gamma v z -> genv (e_set e x v) (upd s x z).
Proof.
  destruct e as [|m]; simpl; [tauto|]. intros G Gv. rewrite (gamma_not_bot _ _ Gv).
  simpl. intros k. destruct (N.eq_dec k x) as [->|N].
  - rewrite upd_same. apply get_put_same_sound; auto.
  - rewrite upd_other by auto. rewrite get_put_other by auto. apply G.
Qed.

Lemma e_set_same_sound e s x v : genv e s -> gamma v (s x) -> genv (e_set e x v) s.
Proof.
  intros G Gv. destruct e as [|m]; simpl in *; [tauto|]. rewrite (gamma_not_bot _ _ Gv). simpl.
  intros k. destruct (N.eq_dec k x) as [->|N].
  - apply get_put_same_sound; auto.
  - rewrite get_put_other by auto. apply G.
Qed.

Lemma e_forget_sound e s x z : genv e s -> genv (e_forget e x) (upd s x z).
Proof.
  destruct e as [|m]; simpl; [tauto|]. intros G k. destruct (N.eq_dec k x) as [->|N].
  - rewrite get_remove_same. apply gamma_top.
  - rewrite upd_other, get_remove_other by auto. apply G.
Qed.

Lemma gmap_remove m s x z : gmap m s -> gmap (remove m x) (upd s x z).
Proof. intros G. apply (e_forget_sound (EMap m) s x z G). Qed.

Lemma e_join_key_sound e s x v z :
  genv e s -> (z = s x \/ gamma v z) -> (gamma v z \/ z = s x) ->
  gamma v z \/ z = s x -> True.
Proof. auto. Qed.

(* weak update: the new store either keeps x or takes a value described by v *)
Lemma e_join_key_sound_keep e s x v : genv e s -> is_bot v = false -> genv (e_join_key e x v) s.
Proof.
  destruct e as [|m]; simpl; [tauto|]. intros G B. rewrite B.
  assert (R : gmap (remove m x) s).
  { intros k. destruct (N.eq_dec k x) as [->|N].
    - rewrite get_remove_same. apply gamma_top.
    - rewrite get_remove_other by auto. apply G. }
  destruct (is_top v); auto. destruct (is_top (get m x)); auto.
  simpl. intros k. destruct (N.eq_dec k x) as [->|N].
  - apply get_put_same_sound. apply ijoin_sound_l. apply G.
  - rewrite get_put_other by auto. apply G.
Qed.

Lemma e_join_key_sound_new e s x v z : genv e s -> gamma v z -> genv (e_join_key e x v) (upd s x z).
Proof.
  destruct e as [|m]; simpl; [tauto|]. intros G Gv. rewrite (gamma_not_bot _ _ Gv).
  pose proof (gmap_remove m s x z G) as R.
  destruct (is_top v); auto. destruct (is_top (get m x)); auto.
  simpl. intros k. destruct (N.eq_dec k x) as [->|N].
  - rewrite upd_same. apply get_put_same_sound. apply ijoin_sound_r. auto.
  - rewrite upd_other by auto. rewrite get_put_other by auto. apply G.
Qed.

(* ---- pointwise merges ---- *)

Lemma build_sound ks g : forall acc m (s : store),
  build ks g acc = Some m ->
  (forall k, gamma (g k) (s k)) -> gmap acc s -> gmap m s.
Proof.
  induction ks as [|k r IH]; simpl; intros acc m s H G A.
  - inversion H; subst; auto.
  - destruct (is_bot (g k)) eqn:B; try discriminate.
    apply (IH _ _ s H G). intros k'. destruct (N.eq_dec k' k) as [->|N].
    + apply get_put_same_sound. apply G.
    + rewrite get_put_other by auto. apply A.
Qed.

Lemma build_not_none ks g (s : store) : forall acc,
  (forall k, gamma (g k) (s k)) -> build ks g acc <> None.
Proof.
  induction ks as [|k r IH]; simpl; intros acc G; try congruence.
  rewrite (gamma_not_bot _ _ (G k)). apply IH; auto.
Qed.

Lemma comb_sound_union f a b s k :
  (forall x y z, gamma x z \/ gamma y z -> gamma (f x y) z) ->
  gmap a s \/ gmap b s -> gamma (comb true true f a b k) (s k).
Proof.
  intros F G. unfold comb.
  destruct (is_top (get a k)); [apply gamma_top|].
  destruct (is_top (get b k)); [apply gamma_top|].
  apply F. destruct G as [G|G]; [left|right]; apply G.
Qed.

Lemma comb_sound_inter f a b s k :
  (forall x y z, gamma x z -> gamma y z -> gamma (f x y) z) ->
  gmap a s -> gmap b s -> gamma (comb false true f a b k) (s k).
Proof.
  intros F Ga Gb. unfold comb.
  destruct (is_top (get a k)); [apply Gb|].
  destruct (is_top (get b k)); [apply Ga|].
  apply F; auto.
Qed.

Lemma merge_union_sound f a b s :
  (forall x y z, gamma x z \/ gamma y z -> gamma (f x y) z) ->
  gmap a s \/ gmap b s ->
  genv (match merge true f a b with Some m => EMap m | None => EBot end) s.
Proof.
  intros F G. unfold merge.
  pose proof (fun k => comb_sound_union f a b s k F G) as C.
  destruct (build _ _ _) as [m|] eqn:E.
  - simpl. eapply build_sound; eauto. intros k; simpl; apply gamma_top.
  - exfalso. eapply build_not_none; eauto.
Qed.

Lemma merge_inter_sound f a b s :
  (forall x y z, gamma x z -> gamma y z -> gamma (f x y) z) ->
  gmap a s -> gmap b s ->
  genv (match merge false f a b with Some m => EMap m | None => EBot end) s.
Proof.
  intros F Ga Gb. unfold merge.
  pose proof (fun k => comb_sound_inter f a b s k F Ga Gb) as C.
  destruct (build _ _ _) as [m|] eqn:E.
  - simpl. eapply build_sound; eauto. intros k; simpl; apply gamma_top.
  - exfalso. eapply build_not_none; eauto.
Qed.

Theorem e_join_sound a b s : genv a s \/ genv b s -> genv (e_join a b) s.
Proof.
  destruct a as [|x], b as [|y]; simpl; try tauto.
  apply merge_union_sound. intros p q z [H|H]; [apply ijoin_sound_l|apply ijoin_sound_r]; auto.
Qed.

Theorem e_widen_sound a b s : genv a s \/ genv b s -> genv (e_widen a b) s.
Proof.
  destruct a as [|x], b as [|y]; simpl; try tauto.
  apply merge_union_sound. intros p q z H. apply iwiden_sound; auto.
Qed.

Theorem e_widen_thr_sound gp gn a b s :
  (forall v, ble (gp v) v = true) -> (forall v, ble v (gn v) = true) ->
  genv a s \/ genv b s -> genv (e_widen_thr gp gn a b) s.
Proof.
  intros Hp Hn. destruct a as [|x], b as [|y]; simpl; try tauto.
  apply merge_union_sound. intros p q z H. apply iwiden_thr_sound; auto.
Qed.

Theorem e_meet_sound a b s : genv a s -> genv b s -> genv (e_meet a b) s.
Proof.
  destruct a as [|x], b as [|y]; simpl; try tauto.
  apply merge_inter_sound. intros p q z H1 H2. apply imeet_exact; auto.
Qed.

Theorem e_narrow_sound a b s : genv a s -> genv b s -> genv (e_narrow a b) s.
Proof.
  destruct a as [|x], b as [|y]; simpl; try tauto.
  apply merge_inter_sound. intros p q z H1 H2. apply inarrow_sound; auto.
Qed.

Lemma get_not_key m k : ~ In k (keys m) -> get m k = itop.
Proof.
  induction m as [|[k' v] r IH]; simpl; auto. intros H.
  destruct (N.eqb_spec k' k); [tauto|]. apply IH. tauto.
Qed.

Theorem e_leq_sound a b s : e_leq a b = true -> genv a s -> genv b s.
Proof.
  destruct a as [|x], b as [|y]; simpl; try tauto; try discriminate.
  intros H G k. rewrite forallb_forall in H.
  destruct (in_dec N.eq_dec k (keys x ++ keys y)) as [I|I].
  - eapply ileq_sound; [apply H; exact I|apply G].
  - rewrite get_not_key. apply gamma_top. intros J. apply I. apply in_or_app. auto.
Qed.

Theorem e_leq_refl a : e_leq a a = true.
Proof.
  destruct a as [|x]; simpl; auto. apply forallb_forall. intros k _. apply ileq_refl.
Qed.

Theorem e_leq_bot_l a : e_leq EBot a = true.
Proof. reflexivity. Qed.

Lemma e_is_bot_sound e s : e_is_bot e = true -> ~ genv e s.
Proof. destruct e; simpl; try discriminate. tauto. Qed.

(* project / rename / forget-list *)
Lemma fold_put_sound m vs s : gmap m s ->
  gmap (fold_right (fun k acc => put acc k (get m k)) [] vs) s.
Proof.
  intros G. induction vs as [|v r IH]; simpl.
  - intros k; simpl; apply gamma_top.
  - intros k. destruct (N.eq_dec k v) as [->|N].
    + apply get_put_same_sound. apply G.
    + rewrite get_put_other by auto. apply IH.
Qed.

Lemma is_top_gamma_all v z z' : is_top v = true -> gamma v z -> gamma v z'.
Proof.
  unfold is_top, gamma. destruct v as [l u]; simpl. intros T [G1 G2].
  destruct l, u; simpl in *; try discriminate; auto.
Qed.

Lemma all_top_gmap m s s' :
  forallb (fun k => is_top (get m k)) (keys m) = true -> gmap m s -> gmap m s'.
Proof.
  intros T G k. rewrite forallb_forall in T.
  destruct (in_dec N.eq_dec k (keys m)) as [I|I].
  - eapply is_top_gamma_all; [apply T; exact I|apply G].
  - rewrite get_not_key by auto. apply gamma_top.
Qed.

Theorem e_project_sound e vs s s' :
  genv e s -> (forall k, In k vs -> s' k = s k) -> genv (e_project e vs) s'.
Proof.
  destruct e as [|m]; simpl; [tauto|]. intros G A.
  destruct (forallb _ _) eqn:T.
  - simpl. eapply all_top_gmap; eauto.
  - simpl. induction vs as [|v r IH]; simpl.
    + intros k; simpl; apply gamma_top.
    + intros k. destruct (N.eq_dec k v) as [->|N].
      * apply get_put_same_sound. rewrite A by (left; auto). apply G.
      * rewrite get_put_other by auto. apply IH. intros k' I. apply A. right; auto.
Qed.

(* rename: sequential moves; the concrete counterpart moves the value and leaves the old
   name unconstrained *)
Fixpoint rename_store (s : store) (ps : list (var * var)) (hv : list Z) : store :=
  match ps with
  | [] => s
  | (k, nk) :: r =>
    if N.eqb k nk then rename_store s r hv
    else rename_store (upd (upd s nk (s k)) k (hd 0 hv)) r (tl hv)
  end.

Lemma is_top_itop : is_top itop = true. Proof. reflexivity. Qed.

(* precondition of separate_domain::rename: the new names are distinct and not bound *)
Lemma rename_pairs_sound ps : forall m s hv,
  gmap m s -> NoDup (map snd ps) ->
  (forall p, In p ps -> is_top (get m (snd p)) = true) ->
  gmap (rename_pairs m ps) (rename_store s ps hv).
Proof.
  induction ps as [|[k nk] r IH]; cbn [rename_pairs rename_store map snd]; intros m s hv G ND TP; auto.
  inversion ND as [|? ? NI ND']; subst.
  assert (TP' : forall p, In p r -> is_top (get m (snd p)) = true).
  { intros p I. apply TP. right. exact I. }
  assert (Tnk : is_top (get m nk) = true) by (apply (TP (k, nk)); left; reflexivity).
  destruct (N.eqb_spec k nk) as [E|NE].
  { apply IH; auto. }
  destruct (is_top (get m k)) eqn:T.
  - apply IH; auto.
    intros k'. destruct (N.eq_dec k' k) as [->|N1].
    + rewrite upd_same. eapply is_top_gamma_all; [eassumption|apply G].
    + rewrite upd_other by auto. destruct (N.eq_dec k' nk) as [->|N2].
      * rewrite upd_same. eapply is_top_gamma_all; [eassumption|apply G].
      * rewrite upd_other by auto. apply G.
  - apply IH; auto.
    + intros k'. destruct (N.eq_dec k' k) as [->|N1].
      * rewrite upd_same. rewrite get_remove_same. apply gamma_top.
      * rewrite upd_other by auto. rewrite get_remove_other by auto.
        cbn [get]. destruct (N.eqb_spec nk k').
        -- subst. rewrite upd_same. apply G.
        -- rewrite upd_other by auto. rewrite get_remove_other by auto. apply G.
    + intros p I. destruct (N.eq_dec (snd p) k) as [E|N1].
      * rewrite E, get_remove_same. reflexivity.
      * rewrite get_remove_other by auto. cbn [get].
        destruct (N.eqb_spec nk (snd p)) as [E|N2].
        -- exfalso. apply NI. rewrite E. apply in_map. auto.
        -- rewrite get_remove_other by auto. apply TP'. auto.
Qed.

Theorem e_rename_sound e from to s hv :
  genv e s -> NoDup to -> length from = length to ->
  (forall k, In k to -> is_top (e_at e k) = true) ->
  genv (e_rename e from to) (rename_store s (combine from to) hv).
Proof.
  destruct e as [|m]; simpl; [tauto|]. intros G ND L TP.
  assert (S : map snd (combine from to) = to).
  { revert to L ND TP. induction from as [|f fr IH]; intros [|t tr] L ND TP; simpl in *; try discriminate; auto.
    f_equal. apply IH; auto. inversion ND; auto. }
  destruct (forallb _ _) eqn:T.
  - simpl. eapply all_top_gmap; eauto.
  - simpl. apply rename_pairs_sound; auto.
    + rewrite S; auto.
    + intros p I. apply TP. rewrite <- S. apply in_map. auto.
Qed.

Theorem fold_forget_sound vs : forall e s s',
  genv e s -> (forall k, ~ In k vs -> s' k = s k) -> genv (fold_left e_forget vs e) s'.
Proof.
  induction vs as [|v r IH]; simpl; intros e s s' G A.
  - destruct e as [|m]; simpl in *; auto. intros k. rewrite A by (intros []). apply G.
  - apply (IH _ (upd s v (s' v))).
    + apply e_forget_sound; auto.
    + intros k NI. destruct (N.eq_dec k v) as [->|N].
      * rewrite upd_same. auto.
      * rewrite upd_other by auto. apply A. intros [E|I]; [congruence|contradiction].
Qed.
