(* ArraySmash.v — mirror of crab::domains::array_smashing<interval_domain>
   (include/crab/domains/array_smashing.hpp), with the repairs of fixes/arrays-2 and arrays-3
   (array_assign from an array of unknown element size forgets the left-hand side;
   equal_size on a bottom last-access environment).

   A value is a pair (last-access environment, interval-domain value).  The
   last-access environment is separate_domain<array, constant<uint64>>: it maps an array
   to the constant number of bytes of its last access (absent = unknown).  Every array A
   has ONE ghost scalar "A.smashed" in the base domain (mk_scalar_var names it after the
   array only; the size only determines its bit width) and array_load uses the temporary
   "A.smashed.copy".

   Variable naming of the model: the base environment is indexed by [var]; program
   scalars are the multiples of 3, the ghost of array a is 3a+1, its copy 3a+2 (in the C++
   the variable factory hands out fresh names: what matters is injectivity). *)
From Coq Require Import ZArith NArith List Bool Lia.
From CrabV Require Import Base.ZInf Scalar.Itv Ir.Syntax Dom.ItvEnv Dom.ItvSolver Dom.ItvDomain
     Dom.History Fix.Thresholds.
Import ListNotations.
Local Open Scope Z_scope.

Definition arr := N.
Definition sv (x : N) : var := (3 * x)%N.
Definition ghost (a : arr) : var := (3 * a + 1)%N.
Definition gcopy (a : arr) : var := (3 * a + 2)%N.

(* a variable of the client: scalar (already a base-domain index) or array *)
Inductive avar := VS (x : var) | VA (a : arr).

(* ---- last-access environment ---- *)
Definition lmap := list (arr * Z).
Fixpoint lget (m : lmap) (a : arr) : option Z :=
  match m with
  | [] => None
  | (b, k) :: r => if N.eqb b a then Some k else lget r a
  end.
Definition lremove (m : lmap) (a : arr) : lmap := filter (fun p => negb (N.eqb (fst p) a)) m.
Definition lkeys (m : lmap) : list arr := map fst m.

Inductive laenv := LBot | LMap (m : lmap).
Inductive bytes := BBot | BConst (k : Z) | BTop.

(* get_size *)
Definition la_at (l : laenv) (a : arr) : bytes :=
  match l with
  | LBot => BBot
  | LMap m => match lget m a with Some k => BConst k | None => BTop end
  end.
(* set_size (the size is always a constant) *)
Definition la_set (l : laenv) (a : arr) (k : Z) : laenv :=
  match l with LBot => LBot | LMap m => LMap ((a, k) :: lremove m a) end.
Definition la_forget (l : laenv) (a : arr) : laenv :=
  match l with LBot => LBot | LMap m => LMap (lremove m a) end.
(* equal_size *)
Definition equal_size (l : laenv) (a : arr) (sz : Z) : bool :=
  match l with
  | LBot => false
  | LMap m => match lget m a with Some k => k =? sz | None => false end
  end.

(* join / widening of constant<uint64>: equal constants survive *)
Definition lm_join (x y : lmap) : lmap :=
  filter (fun p => match lget y (fst p) with Some k => k =? snd p | None => false end)
         (map (fun a => (a, match lget x a with Some k => k | None => 0 end)) (lkeys x)).
Definition la_join (x y : laenv) : laenv :=
  match x, y with
  | LBot, _ => y | _, LBot => x
  | LMap a, LMap b => LMap (lm_join a b)
  end.
(* meet / narrowing: a conflict makes the environment bottom *)
Fixpoint lm_meet_keys (ks : list arr) (x y : lmap) (acc : lmap) : option lmap :=
  match ks with
  | [] => Some acc
  | a :: r =>
    match lget x a, lget y a with
    | Some k, Some k' => if k =? k' then lm_meet_keys r x y ((a, k) :: lremove acc a) else None
    | Some k, None | None, Some k => lm_meet_keys r x y ((a, k) :: lremove acc a)
    | None, None => lm_meet_keys r x y acc
    end
  end.
Definition la_meet (x y : laenv) : laenv :=
  match x, y with
  | LBot, _ | _, LBot => LBot
  | LMap a, LMap b =>
    match lm_meet_keys (lkeys a ++ lkeys b) a b [] with Some m => LMap m | None => LBot end
  end.
Definition la_project (l : laenv) (keep : list arr) : laenv :=
  match l with
  | LBot => LBot
  | LMap m => LMap (filter (fun p => existsb (N.eqb (fst p)) keep) m)
  end.

(* ---- values ---- *)
Record ast := mkA { a_la : laenv; a_base : env }.

Definition s_top : ast := mkA (LMap []) e_top.
Definition s_bot : ast := mkA LBot EBot.
Definition s_is_bottom (s : ast) : bool := e_is_bot (a_base s).
Definition s_is_top (s : ast) : bool := e_is_top (a_base s).
Definition s_leq (a b : ast) : bool := e_leq (a_base a) (a_base b).
Definition s_at (s : ast) (x : var) : itv := e_at (a_base s) x.

Definition s_join (a b : ast) : ast := mkA (la_join (a_la a) (a_la b)) (e_join (a_base a) (a_base b)).
Definition s_meet (a b : ast) : ast := mkA (la_meet (a_la a) (a_la b)) (e_meet (a_base a) (a_base b)).
Definition s_widen (a b : ast) : ast := mkA (la_join (a_la a) (a_la b)) (e_widen (a_base a) (a_base b)).
Definition s_narrow (a b : ast) : ast := mkA (la_meet (a_la a) (a_la b)) (e_narrow (a_base a) (a_base b)).
Definition s_widen_thr (ths : list Z) (a b : ast) : ast :=
  let th := mk_thresholds ths in
  mkA (la_join (a_la a) (a_la b)) (e_widen_thr (thr_prev th) (thr_next th) (a_base a) (a_base b)).

(* operations delegated to the base domain *)
Definition s_assign (x : var) (e : linexp) (s : ast) : ast := mkA (a_la s) (d_assign x e (a_base s)).
Definition s_arith (op : arith_op) (x y : var) (z : operand) (s : ast) : ast :=
  mkA (a_la s) (d_apply_arith op x y z (a_base s)).
Definition s_assume (cs : list lincst) (s : ast) : ast := mkA (a_la s) (d_add cs (a_base s)).

(* operator-= *)
Definition s_forget1 (v : avar) (s : ast) : ast :=
  match v with
  | VS x => mkA (a_la s) (e_forget (a_base s) x)
  | VA a =>
    match la_at (a_la s) a with
    | BConst _ => mkA (la_forget (a_la s) a) (e_forget (a_base s) (ghost a))
    | _ => s
    end
  end.

(* forget(variables): the last-access environment is updated while the list is scanned *)
Fixpoint forget_scan (vs : list avar) (l : laenv) (acc : list var) : laenv * list var :=
  match vs with
  | [] => (l, acc)
  | VS x :: r => forget_scan r l (acc ++ [x])
  | VA a :: r =>
    match la_at l a with
    | BConst _ => forget_scan r (la_forget l a) (acc ++ [ghost a])
    | _ => forget_scan r l acc
    end
  end.
Definition s_forget (vs : list avar) (s : ast) : ast :=
  let '(l, rm) := forget_scan vs (a_la s) [] in mkA l (d_forget rm (a_base s)).

Fixpoint project_scan (vs : list avar) (l : laenv) (kv : list var) (ka : list arr) : list var * list arr :=
  match vs with
  | [] => (kv, ka)
  | VS x :: r => project_scan r l (kv ++ [x]) ka
  | VA a :: r =>
    match la_at l a with
    | BConst _ => project_scan r l (kv ++ [ghost a]) (ka ++ [a])
    | _ => project_scan r l kv ka
    end
  end.
Definition s_project (vs : list avar) (s : ast) : ast :=
  let '(kv, ka) := project_scan vs (a_la s) [] [] in
  mkA (la_project (a_la s) ka) (e_project (a_base s) kv).

(* expand: both variables have the same kind (otherwise CRAB_ERROR: not modelled) *)
Definition s_expand (v nv : avar) (s : ast) : ast :=
  match v, nv with
  | VA a, VA b =>
    match la_at (a_la s) a with
    | BConst k => mkA (la_set (a_la s) b k) (d_expand (ghost a) (ghost b) (a_base s))
    | _ => s
    end
  | VS x, VS y => mkA (a_la s) (d_expand x y (a_base s))
  | _, _ => s
  end.

Fixpoint rename_scan (ps : list (avar * avar)) (l : laenv) (ov nv : list var) : laenv * list var * list var :=
  match ps with
  | [] => (l, ov, nv)
  | (VA a, VA b) :: r =>
    match la_at l a with
    | BConst k => rename_scan r (la_set l b k) (ov ++ [ghost a]) (nv ++ [ghost b])
    | _ => rename_scan r l ov nv
    end
  | (VS x, VS y) :: r => rename_scan r l (ov ++ [x]) (nv ++ [y])
  | _ :: r => rename_scan r l ov nv
  end.
Definition s_rename (from to : list avar) (s : ast) : ast :=
  let '(l, ov, nv) := rename_scan (combine from to) (a_la s) [] [] in
  mkA l (e_rename (a_base s) ov nv).

(* check_and_get_elem_size: the interval of the expression must be a singleton in
   [1, 2^63-1] (static_cast<int64_t>); otherwise CRAB_ERROR *)
Definition check_elem_size (e : linexp) (b : env) : option Z :=
  match isingleton (d_eval e b) with
  | Some n => if (0 <? n) && (n <=? 9223372036854775807) then Some n else None
  | None => None
  end.

Definition le_var (v : var) : linexp := mkLE [(1, v)] 0.

(* array_init *)
Definition s_array_init (a : arr) (esz val : linexp) (s : ast) : option ast :=
  match check_elem_size esz (a_base s) with
  | None => None
  | Some k => Some (mkA (la_set (a_la s) a k) (d_assign (ghost a) val (a_base s)))
  end.

(* array_load: expand the summarised ghost into a copy, assign the copy, forget it *)
Definition s_array_load (lhs : var) (a : arr) (esz : linexp) (s : ast) : option ast :=
  match check_elem_size esz (a_base s) with
  | None => None
  | Some k =>
    if equal_size (a_la s) a k then
      let b1 := d_expand (ghost a) (gcopy a) (a_base s) in
      let b2 := d_assign lhs (le_var (gcopy a)) b1 in
      Some (mkA (a_la s) (e_forget b2 (gcopy a)))
    else Some (mkA (a_la s) (e_forget (a_base s) lhs))
  end.

Definition s_array_store (a : arr) (esz val : linexp) (strong : bool) (s : ast) : option ast :=
  match check_elem_size esz (a_base s) with
  | None => None
  | Some k =>
    let l := if strong then la_set (a_la s) a k else a_la s in
    if equal_size l a k then
      Some (mkA l (if strong then d_assign (ghost a) val (a_base s)
                   else d_weak_assign (ghost a) val (a_base s)))
    else Some (mkA l (a_base s))
  end.

Definition s_array_store_range (a : arr) (esz val : linexp) (s : ast) : option ast :=
  match check_elem_size esz (a_base s) with
  | None => None
  | Some k =>
    if equal_size (a_la s) a k then Some (mkA (a_la s) (d_weak_assign (ghost a) val (a_base s)))
    else Some s
  end.

Definition s_array_assign (lhs rhs : arr) (s : ast) : ast :=
  match la_at (a_la s) rhs with
  | BConst k => mkA (la_set (a_la s) lhs k) (d_assign (ghost lhs) (le_var (ghost rhs)) (a_base s))
  | _ => s_forget1 (VA lhs) s
  end.

(* ---- register machine over values (histories) ---- *)
Inductive ahop :=
| ATop (r : reg) | ABot (r : reg) | ACopy (r s : reg)
| AAssign (r : reg) (x : var) (e : linexp)
| AArith (r : reg) (op : arith_op) (x y : var) (z : operand)
| AAssume (r : reg) (cs : list lincst)
| AForget (r : reg) (vs : list avar) | AForget1 (r : reg) (v : avar)
| AProject (r : reg) (vs : list avar)
| AExpand (r : reg) (v nv : avar)
| ARename (r : reg) (from to : list avar)
| AInit (r : reg) (a : arr) (esz lb ub val : linexp)
| ALoad (r : reg) (lhs : var) (a : arr) (esz idx : linexp)
| AStore (r : reg) (a : arr) (esz idx val : linexp) (strong : bool)
| ARange (r : reg) (a : arr) (esz lb ub val : linexp)
| ACopyArr (r : reg) (lhs rhs : arr)
| AJoin (r s t : reg) | AMeet (r s t : reg) | AWiden (r s t : reg) | ANarrow (r s t : reg)
| AWidenThr (r s t : reg) (ths : list Z).

Definition aget (rs : list ast) (r : reg) : ast := nth r rs s_top.
Fixpoint aset (rs : list ast) (r : reg) (v : ast) : list ast :=
  match rs, r with
  | [], _ => []
  | _ :: t, O => v :: t
  | h :: t, S r' => h :: aset t r' v
  end.

(* [None]: CRAB_ERROR (element size not a positive constant) *)
Definition astep (rs : list ast) (o : ahop) : option (list ast) :=
  let ret r v := Some (aset rs r v) in
  let opt r (v : option ast) := match v with Some x => Some (aset rs r x) | None => None end in
  match o with
  | ATop r => ret r s_top
  | ABot r => ret r s_bot
  | ACopy r s => ret r (aget rs s)
  | AAssign r x e => ret r (s_assign x e (aget rs r))
  | AArith r op x y z => ret r (s_arith op x y z (aget rs r))
  | AAssume r cs => ret r (s_assume cs (aget rs r))
  | AForget r vs => ret r (s_forget vs (aget rs r))
  | AForget1 r v => ret r (s_forget1 v (aget rs r))
  | AProject r vs => ret r (s_project vs (aget rs r))
  | AExpand r v nv => ret r (s_expand v nv (aget rs r))
  | ARename r f t => ret r (s_rename f t (aget rs r))
  | AInit r a esz _ _ val => opt r (s_array_init a esz val (aget rs r))
  | ALoad r lhs a esz _ => opt r (s_array_load lhs a esz (aget rs r))
  | AStore r a esz _ val strong => opt r (s_array_store a esz val strong (aget rs r))
  | ARange r a esz _ _ val => opt r (s_array_store_range a esz val (aget rs r))
  | ACopyArr r lhs rhs => ret r (s_array_assign lhs rhs (aget rs r))
  | AJoin r s t => ret r (s_join (aget rs s) (aget rs t))
  | AMeet r s t => ret r (s_meet (aget rs s) (aget rs t))
  | AWiden r s t => ret r (s_widen (aget rs s) (aget rs t))
  | ANarrow r s t => ret r (s_narrow (aget rs s) (aget rs t))
  | AWidenThr r s t ths => ret r (s_widen_thr ths (aget rs s) (aget rs t))
  end.

Fixpoint arun (rs : list ast) (h : list ahop) : option (list ast) :=
  match h with
  | [] => Some rs
  | o :: r => match astep rs o with Some rs' => arun rs' r | None => None end
  end.
