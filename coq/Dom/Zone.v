(* Zone.v — SPECIFICATION-LEVEL model of the zones domain (property C12).

   The C++ zones domains (split_dbm.hpp, sparse_dbm.hpp over graphs/graph_ops.hpp) are
   claimed exact on difference constraints; their observable answers are therefore a
   mathematical function of the constraints, computed here in the simplest way:

   a value is bottom or a bound matrix over the nodes 0..n-1, node 0 being the constant
   zero and node v+1 variable v; entry (i,j) = Some k bounds  val j - val i <= k
   (None = +oo), as the weight of the graph edge i -> j in the C++.  Matrices are kept
   CLOSED (shortest-path form) by every operation:
     - adding an edge to a closed matrix restores closure with the one-step rule
         m'(x,y) = min (m(x,y), m(x,a) + w + m(b,y))          (exact for closed m)
       and reports a negative cycle (w + m(b,a) < 0) as bottom;
     - meet adds every entry of one operand to the other; join is the pointwise maximum;
       forget drops a row and a column; x := y + k / x := k are forget + additions,
       x := x + k shifts a row and a column.
   No proofs here (Dom/ZoneSound.v). *)
From Coq Require Import ZArith NArith List Bool Lia.
From CrabV Require Import Ir.Syntax.
Import ListNotations.
Local Open Scope Z_scope.

(* ------------------------------------------------------------------ weights *)
Definition wt := option Z.                      (* None = +oo *)

Definition wadd (a b : wt) : wt :=
  match a, b with Some x, Some y => Some (x + y) | _, _ => None end.
Definition wmin (a b : wt) : wt :=
  match a, b with
  | Some x, Some y => Some (Z.min x y)
  | Some _, None => a
  | None, _ => b
  end.
Definition wmax (a b : wt) : wt :=
  match a, b with Some x, Some y => Some (Z.max x y) | _, _ => None end.
Definition wleb (a b : wt) : bool :=
  match a, b with
  | _, None => true
  | None, Some _ => false
  | Some x, Some y => x <=? y
  end.

(* ------------------------------------------------------------------ matrices *)
Definition mat := list (list wt).
Definition mget (m : mat) (i j : nat) : wt := nth j (nth i m []) None.
Definition tab (n : nat) (f : nat -> nat -> wt) : mat :=
  map (fun i => map (f i) (seq 0 n)) (seq 0 n).

(* all ordered pairs of nodes *)
Definition pairs (n : nat) : list (nat * nat) :=
  flat_map (fun i => map (fun j => (i, j)) (seq 0 n)) (seq 0 n).

Inductive zone := ZBot | ZM (m : mat).

Definition edge := (nat * nat * Z)%type.         (* (a, b, w):  val b - val a <= w *)

Definition node (v : var) : nat := S (N.to_nat v).

Definition z_top (n : nat) : zone :=
  ZM (tab n (fun i j => if Nat.eqb i j then Some 0 else None)).

Definition z_is_bot (z : zone) : bool := match z with ZBot => true | _ => false end.

(* add the edge a -> b of weight w to a closed matrix *)
Definition add_edge_m (n : nat) (m : mat) (e : edge) : zone :=
  let '(a, b, w) := e in
  if negb (wleb (Some 0) (wadd (Some w) (mget m b a))) then ZBot
  else ZM (tab n (fun x y => wmin (mget m x y)
                                  (wadd (wadd (mget m x a) (Some w)) (mget m b y)))).

Definition add_edge (n : nat) (z : zone) (e : edge) : zone :=
  match z with ZBot => ZBot | ZM m => add_edge_m n m e end.

Definition add_edges (n : nat) (z : zone) (es : list edge) : zone :=
  fold_left (add_edge n) es z.

(* ------------------------------------------------------------------ the language *)
(* In-language constraints: e (<= | < | =) 0 where e = [+x] [-y] + c, unit coefficients.
   [pos]/[neg] = the node with coefficient +1 / -1 (node 0 when absent). *)
Definition zone_nodes (ts : list (Z * var)) : option (nat * nat) :=
  match ts with
  | [] => Some (O, O)
  | [(c, x)] => if c =? 1 then Some (node x, O) else if c =? -1 then Some (O, node x) else None
  | [(c, x); (d, y)] =>
    if (c =? 1) && (d =? -1) then Some (node x, node y)
    else if (c =? -1) && (d =? 1) then Some (node y, node x)
    else None
  | _ => None
  end.

(* val p - val q + c <= 0  is the edge q -> p of weight -c *)
Definition zone_edges (c : lincst) : option (list edge) :=
  match zone_nodes (le_terms (lc_exp c)) with
  | None => None
  | Some (p, q) =>
    let k := le_cst (lc_exp c) in
    match lc_kind c with
    | INEQ => Some [(q, p, - k)]
    | STRICT => Some [(q, p, - k - 1)]
    | EQ => Some [(q, p, - k); (p, q, k)]
    | DISEQ => None
    end
  end.

Definition z_inlang (c : lincst) : bool :=
  match zone_edges c with Some _ => true | None => false end.

(* constraints outside the language are ignored (never produced by the generators) *)
Definition z_add (n : nat) (c : lincst) (z : zone) : zone :=
  match zone_edges c with None => z | Some es => add_edges n z es end.

Definition z_assume (n : nat) (cs : list lincst) (z : zone) : zone :=
  fold_left (fun acc c => z_add n c acc) cs z.

Definition z_entails (c : lincst) (z : zone) : bool :=
  match z with
  | ZBot => true
  | ZM m =>
    match zone_edges c with
    | None => false
    | Some es => forallb (fun e => let '(a, b, w) := e in wleb (mget m a b) (Some w)) es
    end
  end.

(* bounds of variable v: (lower, upper), None = infinite *)
Definition z_lower (z : zone) (v : var) : wt :=
  match z with
  | ZBot => None
  | ZM m => match mget m (node v) O with Some k => Some (- k) | None => None end
  end.
Definition z_upper (z : zone) (v : var) : wt :=
  match z with ZBot => None | ZM m => mget m O (node v) end.

Definition z_join (n : nat) (a b : zone) : zone :=
  match a, b with
  | ZBot, _ => b
  | _, ZBot => a
  | ZM x, ZM y => ZM (tab n (fun i j => wmax (mget x i j) (mget y i j)))
  end.

Definition z_meet (n : nat) (a b : zone) : zone :=
  match a, b with
  | ZBot, _ | _, ZBot => ZBot
  | ZM x, ZM y =>
    fold_left (fun acc p =>
                 match mget y (fst p) (snd p) with
                 | Some k => add_edge n acc (fst p, snd p, k)
                 | None => acc
                 end) (pairs n) (ZM x)
  end.

Definition forget_m (n : nat) (m : mat) (p : nat) : mat :=
  tab n (fun i j => if Nat.eqb i j then mget m i j
                    else if Nat.eqb i p || Nat.eqb j p then None else mget m i j).

Definition z_forget1 (n : nat) (z : zone) (v : var) : zone :=
  match z with ZBot => ZBot | ZM m => ZM (forget_m n m (node v)) end.

Definition z_forget (n : nat) (vs : list var) (z : zone) : zone :=
  fold_left (z_forget1 n) vs z.

Definition z_leq (n : nat) (a b : zone) : bool :=
  match a, b with
  | ZBot, _ => true
  | _, ZBot => false
  | ZM x, ZM y => forallb (fun p => wleb (mget x (fst p) (snd p)) (mget y (fst p) (snd p))) (pairs n)
  end.

Definition z_is_top (n : nat) (z : zone) : bool :=
  match z with
  | ZBot => false
  | ZM m => forallb (fun p => Nat.eqb (fst p) (snd p) ||
                              match mget m (fst p) (snd p) with None => true | Some _ => false end)
                    (pairs n)
  end.

(* x := x + k : the potential of node x moves by k *)
Definition shift_m (n : nat) (m : mat) (p : nat) (k : Z) : mat :=
  let d := fun i => if Nat.eqb i p then k else 0 in
  tab n (fun i j => wadd (mget m i j) (Some (d j - d i))).

(* assignments of the language: x := k, x := y + k.  Anything else: forget x. *)
Definition z_assign (n : nat) (x : var) (e : linexp) (z : zone) : zone :=
  match le_terms e with
  | [] => add_edges n (z_forget1 n z x) [(O, node x, le_cst e); (node x, O, - le_cst e)]
  | [(c, y)] =>
    if c =? 1 then
      if N.eqb x y then match z with ZBot => ZBot | ZM m => ZM (shift_m n m (node x) (le_cst e)) end
      else add_edges n (z_forget1 n z x)
                     [(node y, node x, le_cst e); (node x, node y, - le_cst e)]
    else z_forget1 n z x
  | _ => z_forget1 n z x
  end.

(* ------------------------------------------------------------------ histories *)
(* A register machine over the values of any domain given by its operations (used for
   zones, octagons; the interval domain has its own in Dom/History.v). *)
Record gdom (A : Type) := mkGD {
  g_top : A; g_bot : A;
  g_assume : list lincst -> A -> A;
  g_assign : var -> linexp -> A -> A;
  g_forget : list var -> A -> A;
  g_join : A -> A -> A;
  g_meet : A -> A -> A
}.
Arguments g_top {A}. Arguments g_bot {A}. Arguments g_assume {A}. Arguments g_assign {A}.
Arguments g_forget {A}. Arguments g_join {A}. Arguments g_meet {A}.

Inductive gop :=
| GTop (r : nat) | GBot (r : nat) | GCopy (r s : nat)
| GAssume (r : nat) (cs : list lincst)
| GAssign (r : nat) (x : var) (e : linexp)
| GForget (r : nat) (vs : list var)
| GJoin (r s t : nat) | GMeet (r s t : nat).

Section Hist.
  Context {A : Type} (D : gdom A).
  Definition gget (rs : list A) (r : nat) : A := nth r rs (g_top D).
  Fixpoint gset (rs : list A) (r : nat) (v : A) : list A :=
    match rs, r with
    | [], _ => []
    | _ :: t, O => v :: t
    | h :: t, S r' => h :: gset t r' v
    end.
  Definition gstep (rs : list A) (o : gop) : list A :=
    match o with
    | GTop r => gset rs r (g_top D)
    | GBot r => gset rs r (g_bot D)
    | GCopy r s => gset rs r (gget rs s)
    | GAssume r cs => gset rs r (g_assume D cs (gget rs r))
    | GAssign r x e => gset rs r (g_assign D x e (gget rs r))
    | GForget r vs => gset rs r (g_forget D vs (gget rs r))
    | GJoin r s t => gset rs r (g_join D (gget rs s) (gget rs t))
    | GMeet r s t => gset rs r (g_meet D (gget rs s) (gget rs t))
    end.
  Definition grun (rs : list A) (h : list gop) : list A := fold_left gstep h rs.
End Hist.

Definition zone_dom (n : nat) : gdom zone :=
  mkGD zone (z_top n) ZBot (z_assume n) (z_assign n) (z_forget n) (z_join n) (z_meet n).
