(* ArrayAdaptCore.v — mirror of the cell algebra of crab::domains::array_adaptive_domain
   (include/crab/domains/array_adaptive.hpp, lib/array_adaptive_impl.cpp): cell_t
   (overlap, symbolic_overlap), offset_map_t (mk_cell / erase / remove / get_overlap_cells /
   get_overlap_cells_symbolic_offset / join / meet / <=), array_state::can_be_smashed, the
   coverage test added by fixes/arrays-5, and the decision table of array_store / array_load
   with the array_adaptive parameters as inputs.  The transfer functions themselves (ghost
   variables, renaming in the lattice operations, 3177 lines) are NOT modelled.

   Offsets are non-negative (offset_t wraps negative numbers to huge unsigned ones: outside
   the modelled fragment). *)
From Coq Require Import ZArith NArith List Bool Lia.
From CrabV Require Import Base.ZInf Scalar.Itv Ir.Syntax Dom.ItvEnv Dom.ItvSolver Dom.ItvDomain.
Import ListNotations.
Local Open Scope Z_scope.

(* ---- cell_t ---- *)
Record cell := mkC { c_off : Z; c_size : Z; c_rem : bool }.

(* operator== and operator< look at (offset, size) only *)
Definition cell_eqb (a b : cell) : bool := (c_off a =? c_off b) && (c_size a =? c_size b).
Definition cell_ltb (a b : cell) : bool :=
  (c_off a <? c_off b) || ((c_off a =? c_off b) && (c_size a <? c_size b)).

(* cell_t::overlap: the byte ranges [off, off+size-1] intersect, unless the cell is removed *)
Definition c_overlap (c : cell) (o sz : Z) : bool :=
  if c_rem c then false
  else (0 <? c_size c) && (0 <? sz) && (c_off c <=? o + sz - 1) && (o <=? c_off c + c_size c - 1).

(* cell_t::symbolic_overlap: [slb, sub] may contain the first or the last byte of the cell.
   One test: tmp += (b >= slb); tmp += (b <= sub); is tmp bottom? *)
Definition sym_test (slb sub : linexp) (dom : env) (b : Z) : env :=
  d_add [mkLC INEQ (le_addc (le_neg sub) b)] (d_add [mkLC INEQ (le_addc slb (- b))] dom).
Definition c_sym_overlap (c : cell) (slb sub : linexp) (dom : env) : bool :=
  if c_rem c then false
  else if negb (e_is_bot (sym_test slb sub dom (c_off c))) then true
       else negb (e_is_bot (sym_test slb sub dom (c_off c + c_size c - 1))).

(* ---- offset_map_t: cells sorted by (offset, size), one cell per (offset, size) ---- *)
Definition omap := list cell.

Fixpoint om_get (m : omap) (o sz : Z) : option cell :=
  match m with
  | [] => None
  | c :: r => if (c_off c =? o) && (c_size c =? sz) then Some c else om_get r o sz
  end.

(* insert_cell: std::set::insert keeps an existing element with the same key *)
Fixpoint om_insert (c : cell) (m : omap) : omap :=
  match m with
  | [] => [c]
  | h :: t => if cell_eqb h c then m
              else if cell_ltb c h then c :: m
              else h :: om_insert c t
  end.
(* erase_cell *)
Definition om_erase (c : cell) (m : omap) : omap := filter (fun h => negb (cell_eqb h c)) m.
(* remove_cell: the cell is kept but marked as removed *)
Definition om_remove (c : cell) (m : omap) : omap :=
  map (fun h => if cell_eqb h c then mkC (c_off h) (c_size h) true else h) m.
(* mk_cell: an existing cell (even a removed one) is returned as it is *)
Definition om_mk (m : omap) (o sz : Z) : cell * omap :=
  match om_get m o sz with
  | Some c => (c, m)
  | None => let c := mkC o sz false in (c, om_insert c m)
  end.

Fixpoint dedup (l : list Z) : list Z :=
  match l with
  | [] => []
  | h :: t => match dedup t with
              | h' :: r => if h =? h' then h' :: r else h :: h' :: r
              | [] => [h]
              end
  end.
Definition om_offsets (m : omap) : list Z := dedup (map c_off m).
Definition om_group (m : omap) (o : Z) : list cell := filter (fun c => c_off c =? o) m.

(* one direction of the scan of get_overlap_cells: visit the offsets in the given order;
   stop at the first offset none of whose cells overlaps *)
Fixpoint om_scan (m : omap) (os : list Z) (o sz : Z) (key : cell) (out : list cell) : list cell :=
  match os with
  | [] => out
  | g :: r =>
    match filter (fun x => c_overlap x o sz) (om_group m g) with
    | [] => out
    | hits => om_scan m r o sz key (out ++ filter (fun x => negb (cell_eqb x key)) hits)
    end
  end.

(* get_overlap_cells: a temporary cell for (o, sz) is inserted when there is none; the
   cells at offsets <= o are scanned downwards, then the cells at offsets > o upwards *)
Definition om_get_overlap (m : omap) (o sz : Z) : list cell :=
  let '(key, m') := match om_get m o sz with
                    | Some c => (c, m)
                    | None => (mkC o sz false, om_insert (mkC o sz false) m)
                    end in
  let os := om_offsets m' in
  let back := rev (filter (fun g => g <=? o) os) in
  let fwd := filter (fun g => o <? g) os in
  om_scan m' fwd o sz key (om_scan m' back o sz key []).

(* get_overlap_cells_symbolic_offset: per offset, the largest cell decides for all *)
Fixpoint largest (cs : list cell) (acc : option cell) : option cell :=
  match cs with
  | [] => acc
  | c :: r => largest r (match acc with
                         | None => Some c
                         | Some l => if cell_ltb l c then Some c else Some l
                         end)
  end.
Definition om_get_overlap_sym (m : omap) (slb sub : linexp) (dom : env) : list cell :=
  flat_map (fun g =>
    let cs := om_group m g in
    match largest cs None with
    | Some l => if c_sym_overlap l slb sub dom then cs else []
    | None => []
    end) (om_offsets m).

(* operator| : per offset the union of the cell sets (on equal keys the left cell wins) *)
Definition om_join (a b : omap) : omap := fold_left (fun acc c => om_insert c acc) b a.
(* operator& : only the offsets bound in both maps, again with the UNION of the sets *)
Definition om_meet (a b : omap) : omap :=
  let both := filter (fun g => existsb (Z.eqb g) (om_offsets b)) (om_offsets a) in
  filter (fun c => existsb (Z.eqb (c_off c)) both) (om_join a b).
(* operator<= : every cell of a is in b *)
Definition om_leq (a b : omap) : bool :=
  forallb (fun c => match om_get b (c_off c) (c_size c) with Some _ => true | None => false end) a.

(* ---- array_state::can_be_smashed(cells, elem_sz, allow_start_at_nonzero_offset) ---- *)
Definition can_be_smashed (cells : list cell) (esz : Z) (allow_nonzero : bool) : bool :=
  match cells with
  | [] => false
  | c0 :: _ =>
    if negb allow_nonzero && negb (c_off c0 =? 0) then false
    else forallb (fun c => (c_size c =? esz) && ((c_off c - c_off c0) mod esz =? 0)) cells
  end.

(* covers_all_offsets (fixes/arrays-5): every multiple of esz in idx is the offset of a cell
   (z_number division truncates) *)
Fixpoint covers_from (cells : list cell) (o esz : Z) (n : nat) : bool :=
  match n with
  | O => true
  | S n' => existsb (fun c => c_off c =? o) cells && covers_from cells (o + esz) esz n'
  end.
Definition covers_all_offsets (cells : list cell) (idx : itv) (esz : Z) : bool :=
  match lb idx, ub idx with
  | Fin l, Fin u =>
    if l <? 0 then false
    else
      let o := Z.quot (l + esz - 1) esz * esz in
      if Z.of_nat (length cells) <=? Z.quot (u - o) esz then false
      else if u <? o then true
      else covers_from cells o esz (Z.to_nat (Z.quot (u - o) esz + 1))
  | _, _ => false
  end.

(* ---- parameters and the decision table ---- *)
Record params := mkP { p_smashable : bool; p_nonzero : bool; p_max_smash : Z; p_max_size : Z }.

(* the part of array_state that the decisions look at *)
Record astate := mkS { as_smashed : bool; as_esz : option Z; as_map : omap }.

Inductive store_decision :=
| SSmashedWeak            (* smashed, consistent size: store into the summarised variable *)
| SSmashedForget          (* smashed with another element size: forget the summary *)
| SCell (o : Z) (kill : list cell)     (* constant index: kill the overlapping cells, strong update of cell o *)
| SSmash (cells : list cell)           (* smash all cells, then store into the summary *)
| SKill (cells : list cell).           (* kill the cells that may overlap *)

Definition size_consistent (st : astate) (esz : Z) : bool :=
  match as_esz st with Some k => k =? esz | None => false end.

Definition store_decide (p : params) (st : astate) (idx : itv) (slb sub : linexp) (dom : env) (esz : Z)
  : store_decision :=
  if as_smashed st then (if size_consistent st esz then SSmashedWeak else SSmashedForget)
  else
    match isingleton idx with
    | Some n =>
      if Z.of_nat (length (as_map st)) <? p_max_size p
      then SCell n (om_get_overlap (as_map st) n esz)
      else if p_smashable p && can_be_smashed (as_map st) esz (p_nonzero p)
              && (Z.of_nat (length (as_map st)) <=? p_max_smash p)
           then SSmash (as_map st)
           else SKill (om_get_overlap_sym (as_map st) slb sub dom)
    | None =>
      if p_smashable p && can_be_smashed (as_map st) esz (p_nonzero p)
         && (Z.of_nat (length (as_map st)) <=? p_max_smash p)
      then SSmash (as_map st)
      else SKill (om_get_overlap_sym (as_map st) slb sub dom)
    end.

Inductive load_decision :=
| LSummary                 (* smashed, consistent size: read the summarised variable *)
| LForget                  (* nothing is known: forget lhs *)
| LCell (o : Z)            (* constant index without overlapping cells: read cell o *)
| LJoin (cells : list cell).  (* symbolic index: join of the cells that may be read *)

Definition load_decide (p : params) (st : astate) (idx : itv) (slb sub : linexp) (dom : env) (esz : Z)
  : load_decision :=
  if as_smashed st then (if size_consistent st esz then LSummary else LForget)
  else
    match isingleton idx with
    | Some n =>
      match om_get_overlap (as_map st) n esz with
      | [] => LCell n
      | _ => LForget
      end
    | None =>
      let cells := om_get_overlap_sym (as_map st) slb sub dom in
      if p_smashable p && can_be_smashed cells esz true && covers_all_offsets cells idx esz
      then LJoin cells else LForget
    end.

(* join / meet of two array states (array_state::join / meet).  A new array_state has the
   constant element size 0; [None] is the top of constant_value.  When exactly one side is
   smashed the other side tries to smash its cells (smash_array): this succeeds when there
   are cells, not more than max_smashable_cells, the first one at offset 0 unless
   smash_at_nonzero_offset, the element size of the smashed side is a positive constant,
   every offset is a multiple of it and every cell has its ghost variable ([gh]). *)
Definition smash_ok (p : params) (m : omap) (esz : option Z) (gh : cell -> bool) : bool :=
  match m, esz with
  | c0 :: _, Some k =>
    (Z.of_nat (length m) <=? p_max_smash p)
    && (p_nonzero p || (c_off c0 =? 0))
    && (0 <? k)
    && forallb (fun c => (c_off c mod k =? 0) && gh c) m
  | _, _ => false
  end.
Definition esz_join (a b : option Z) : option Z :=
  match a, b with Some x, Some y => if x =? y then Some x else None | _, _ => None end.
(* constant_value::operator& : [None] in the result = bottom (CRAB_ERROR in array_state) *)
Definition esz_meet (a b : option Z) : option (option Z) :=
  match a, b with
  | None, _ => Some b
  | _, None => Some a
  | Some x, Some y => if x =? y then Some a else None
  end.
Definition smash_side (p : params) (other_esz : option Z) (gh : cell -> bool) (st : astate) : astate :=
  if smash_ok p (as_map st) other_esz gh then mkS true other_esz [] else st.
Definition as_sides (p : params) (gx gy : cell -> bool) (x y : astate) : astate * astate :=
  if as_smashed x && negb (as_smashed y) then (x, smash_side p (as_esz x) gy y)
  else if negb (as_smashed x) && as_smashed y then (smash_side p (as_esz y) gx x, y)
  else (x, y).
Definition as_join (p : params) (gx gy : cell -> bool) (x y : astate) : astate :=
  let '(x', y') := as_sides p gx gy x y in
  mkS (as_smashed x' || as_smashed y') (esz_join (as_esz x') (as_esz y')) (om_join (as_map x') (as_map y')).
Definition as_meet (p : params) (gx gy : cell -> bool) (x y : astate) : option astate :=
  let '(x', y') := as_sides p gx gy x y in
  match esz_meet (as_esz x') (as_esz y') with
  | Some e => Some (mkS (as_smashed x' && as_smashed y') e (om_meet (as_map x') (as_map y')))
  | None => None
  end.

(* ---- effect of the decisions on the array state (kill_cells, mk_named_cell,
   m_array_map.set) ----
   m_array_map.set goes through patricia_tree::insert, which keeps the OLD binding when the
   new value is == to it; array_state::operator== compares the smashed flags and then the
   element sizes (smashed) or the offset maps by their (offset, size) keys (not smashed):
   an update that only marks cells as removed is therefore dropped. *)
Definition esz_eqb (a b : option Z) : bool :=
  match a, b with Some x, Some y => x =? y | None, None => true | _, _ => false end.
Definition as_eqb (x y : astate) : bool :=
  Bool.eqb (as_smashed x) (as_smashed y) &&
  (if as_smashed x then esz_eqb (as_esz x) (as_esz y)
   else om_leq (as_map x) (as_map y) && om_leq (as_map y) (as_map x)).
Definition as_set (old new : astate) : astate := if as_eqb old new then old else new.

(* kill_cells on the offset map: erased when the domain is not smashable, marked otherwise *)
Definition kill_cells (p : params) (cells : list cell) (m : omap) : omap :=
  if p_smashable p then fold_left (fun acc c => om_remove c acc) cells m
  else fold_left (fun acc c => om_erase c acc) cells m.

Definition store_shape (p : params) (st : astate) (d : store_decision) (esz : Z) : astate :=
  match d with
  | SSmashedWeak | SSmashedForget => st
  | SCell o kill =>
    let m1 := kill_cells p kill (as_map st) in
    as_set st (mkS false (as_esz st) (snd (om_mk m1 o esz)))
  | SSmash _ => as_set st (mkS true (Some esz) [])
  | SKill cells => as_set st (mkS false (as_esz st) (kill_cells p cells (as_map st)))
  end.

Definition load_shape (st : astate) (d : load_decision) (esz : Z) : astate :=
  match d with
  | LCell o => as_set st (mkS false (as_esz st) (snd (om_mk (as_map st) o esz)))
  | _ => st
  end.
