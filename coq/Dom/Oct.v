(* Oct.v — SPECIFICATION-LEVEL model of the octagon domain over the integers (property C12;
   C++: split_oct.hpp).  Standard 2n-node encoding: variable v has the nodes 2v (+v) and
   2v+1 (-v); entry (i,j) = Some k bounds  val j - val i <= k  where val (2v) = s v and
   val (2v+1) = - s v.  Matrices are kept TIGHTLY CLOSED (shortest-path closed, strongly
   coherent, unary entries even): after the (zone-level, exact) incremental closure of the
   added edges the unary entries are rounded down to even numbers (integer tightening), an
   integer-infeasible pair of unary bounds is reported as bottom, and the entries are
   strengthened through the unary bounds (Bagnara-Hill-Zaffanella tight closure).
   No proofs here (Dom/OctSound.v). *)
From Coq Require Import ZArith NArith List Bool Lia.
From CrabV Require Import Ir.Syntax Dom.Zone.
Import ListNotations.
Local Open Scope Z_scope.

Definition bar (i : nat) : nat := if Nat.even i then S i else pred i.
Definition pnode (v : var) : nat := 2 * N.to_nat v.
Definition nnode (v : var) : nat := S (2 * N.to_nat v).
(* the node standing for  c * v  (c = 1 or -1) *)
Definition lit (c : Z) (v : var) : nat := if c =? 1 then pnode v else nnode v.
Definition unit_coef (c : Z) : bool := (c =? 1) || (c =? -1).

Definition whalf (a : wt) : wt := match a with Some k => Some (k / 2) | None => None end.

(* expression [ts] + k <= 0 as edges (with the coherent mirror edge) *)
Definition oct_leq_edges (ts : list (Z * var)) (k : Z) : option (list edge) :=
  match ts with
  | [] => Some [(O, O, - k)]
  | [(c, x)] => if unit_coef c then Some [(bar (lit c x), lit c x, - (k + k))] else None
  | [(c, x); (d, y)] =>
    if unit_coef c && unit_coef d
    then Some [(bar (lit d y), lit c x, - k); (bar (lit c x), lit d y, - k)]
    else None
  | _ => None
  end.

Definition neg_terms (ts : list (Z * var)) : list (Z * var) := map (fun p => (- fst p, snd p)) ts.

Definition oct_edges (c : lincst) : option (list edge) :=
  let ts := le_terms (lc_exp c) in
  let k := le_cst (lc_exp c) in
  match lc_kind c with
  | INEQ => oct_leq_edges ts k
  | STRICT => oct_leq_edges ts (k + 1)
  | EQ => match oct_leq_edges ts k, oct_leq_edges (neg_terms ts) (- k) with
          | Some a, Some b => Some (a ++ b)
          | _, _ => None
          end
  | DISEQ => None
  end.

Definition o_inlang (c : lincst) : bool :=
  match oct_edges c with Some _ => true | None => false end.

(* integer tightening + consistency test + strengthening of a closed matrix *)
Definition tighten_m (n : nat) (m : mat) : mat :=
  tab n (fun i j => if Nat.eqb j (bar i)
                    then match mget m i j with Some k => Some (2 * (k / 2)) | None => None end
                    else mget m i j).
Definition unary_infeasible (n : nat) (m : mat) : bool :=
  existsb (fun i => negb (wleb (Some 0) (wadd (mget m i (bar i)) (mget m (bar i) i)))) (seq 0 n).
Definition strengthen_m (n : nat) (m : mat) : mat :=
  tab n (fun i j => wmin (mget m i j) (whalf (wadd (mget m i (bar i)) (mget m (bar j) j)))).

Definition o_close (n : nat) (z : zone) : zone :=
  match z with
  | ZBot => ZBot
  | ZM m =>
    let t := tighten_m n m in
    if unary_infeasible n t then ZBot else ZM (strengthen_m n t)
  end.

Definition o_top (n : nat) : zone := z_top n.

Definition o_add (n : nat) (c : lincst) (z : zone) : zone :=
  match oct_edges c with None => z | Some es => o_close n (add_edges n z es) end.

Definition o_assume (n : nat) (cs : list lincst) (z : zone) : zone :=
  fold_left (fun acc c => o_add n c acc) cs z.

Definition o_entails (c : lincst) (z : zone) : bool :=
  match z with
  | ZBot => true
  | ZM m =>
    match oct_edges c with
    | None => false
    | Some es => forallb (fun e => let '(a, b, w) := e in wleb (mget m a b) (Some w)) es
    end
  end.

Definition o_upper (z : zone) (v : var) : wt :=
  match z with ZBot => None | ZM m => whalf (mget m (nnode v) (pnode v)) end.
Definition o_lower (z : zone) (v : var) : wt :=
  match z with
  | ZBot => None
  | ZM m => match whalf (mget m (pnode v) (nnode v)) with Some k => Some (- k) | None => None end
  end.

Definition o_join (n : nat) (a b : zone) : zone := z_join n a b.

Definition o_meet (n : nat) (a b : zone) : zone := o_close n (z_meet n a b).

Definition o_forget1 (n : nat) (z : zone) (v : var) : zone :=
  match z with
  | ZBot => ZBot
  | ZM m => ZM (forget_m n (forget_m n m (pnode v)) (nnode v))
  end.
Definition o_forget (n : nat) (vs : list var) (z : zone) : zone := fold_left (o_forget1 n) vs z.

Definition o_leq (n : nat) (a b : zone) : bool := z_leq n a b.
Definition o_is_top (n : nat) (z : zone) : bool := z_is_top n z.

(* x := x + k : node +x moves by k, node -x by -k *)
Definition oshift_m (n : nat) (m : mat) (v : var) (k : Z) : mat :=
  let d := fun i => if Nat.eqb i (pnode v) then k else if Nat.eqb i (nnode v) then - k else 0 in
  tab n (fun i j => wadd (mget m i j) (Some (d j - d i))).

(* assignments of the language: x := k, x := +-y + k (y <> x), x := x + k; else forget x *)
Definition o_assign (n : nat) (x : var) (e : linexp) (z : zone) : zone :=
  match le_terms e with
  | [] => o_add n (mkLC EQ (mkLE [(1, x)] (- le_cst e))) (o_forget1 n z x)
  | [(c, y)] =>
    if unit_coef c then
      if N.eqb x y then
        if c =? 1 then match z with ZBot => ZBot | ZM m => ZM (oshift_m n m x (le_cst e)) end
        else o_forget1 n z x
      else o_add n (mkLC EQ (mkLE [(1, x); (- c, y)] (- le_cst e))) (o_forget1 n z x)
    else o_forget1 n z x
  | _ => o_forget1 n z x
  end.

Definition oct_dom (n : nat) : gdom zone :=
  mkGD zone (o_top n) ZBot (o_assume n) (o_assign n) (o_forget n) (o_join n) (o_meet n).
