(* ArrayAdaptCoreSound.v — theorems about the cell algebra of the adaptive array domain
   (model: ArrayAdaptCore.v).

   1. overlap is intersection of byte ranges; with one element size and aligned offsets
      (the word-level assumption) two cells overlap only if they are the same cell.
   2. kill lemmas: a live cell that get_overlap_cells / get_overlap_cells_symbolic_offset
      does not return does not intersect the written range (constant index: under the
      word-level assumption; symbolic index: for equal sizes, for every value of the index
      described by the base domain).
   3. soundness of the store / load decision table on a value-level reading of an array
      state (cell -> interval, summary interval).  Smashing ([SSmash]) and the symbolic load
      need the hypothesis that every defined cell of the concrete array is tracked by a
      cell of the map ([tracked]); the symbolic load gets it from covers_all_offsets
      (fixes/arrays-5), the smashing store does NOT establish it: the code smashes whatever
      cells it tracks (this is the recorded finding of property C14 on array_adaptive). *)
From Coq Require Import ZArith NArith List Bool Lia.
From CrabV Require Import Base.ZInf Scalar.Itv Scalar.ItvSound Ir.Syntax Dom.ItvEnv Dom.ItvEnvSound
     Dom.ItvSolver Dom.ItvSolverSound Dom.ItvDomain Dom.ItvDomainSound Dom.ArrayAdaptCore.
Import ListNotations.
Local Open Scope Z_scope.

Arguments d_add : simpl never.

(* ---- 1. overlap ---- *)
Definition ranges_meet (o1 s1 o2 s2 : Z) : Prop :=
  exists b, o1 <= b < o1 + s1 /\ o2 <= b < o2 + s2.

Theorem c_overlap_spec c o sz :
  c_overlap c o sz = true <-> c_rem c = false /\ ranges_meet (c_off c) (c_size c) o sz.
Proof.
  unfold c_overlap, ranges_meet. destruct (c_rem c).
  - split; [discriminate|intros [H _]; discriminate].
  - rewrite !andb_true_iff, !Z.ltb_lt, !Z.leb_le. split.
    + intros (((H1 & H2) & H3) & H4). split; auto.
      exists (Z.max (c_off c) o). lia.
    + intros (_ & b & H1 & H2). lia.
Qed.

(* the word-level assumption: one element size k, aligned non-negative offsets *)
Definition aligned (k o : Z) : Prop := 0 <= o /\ o mod k = 0.

Lemma aligned_ranges_meet k o1 o2 : 0 < k -> aligned k o1 -> aligned k o2 ->
  ranges_meet o1 k o2 k -> o1 = o2.
Proof.
  intros K [P1 A1] [P2 A2] (b & H1 & H2).
  apply Z.div_exact in A1; [|lia]. apply Z.div_exact in A2; [|lia].
  assert (o1 / k = o2 / k); [|nia].
  assert (o1 / k = b / k).
  { apply (Z.div_unique b k (o1 / k) (b - o1)); lia. }
  assert (o2 / k = b / k).
  { apply (Z.div_unique b k (o2 / k) (b - o2)); lia. }
  lia.
Qed.

Theorem aligned_overlap_same k c o : 0 < k -> c_size c = k -> aligned k (c_off c) -> aligned k o ->
  c_overlap c o k = true -> c_off c = o.
Proof.
  intros K S A1 A2 H. apply c_overlap_spec in H. destruct H as [_ H]. rewrite S in H.
  eapply aligned_ranges_meet; eauto.
Qed.

(* ---- offset maps ---- *)
Definition wl (k : Z) (m : omap) : Prop := forall c, In c m -> c_size c = k /\ aligned k (c_off c).
Definition uniq (m : omap) : Prop :=
  NoDup m /\ forall c d, In c m -> In d m -> cell_eqb c d = true -> c = d.

Lemma cell_eqb_spec a b : cell_eqb a b = true <-> c_off a = c_off b /\ c_size a = c_size b.
Proof. unfold cell_eqb. rewrite andb_true_iff, !Z.eqb_eq. tauto. Qed.

Lemma om_get_some m o sz c : om_get m o sz = Some c -> In c m /\ c_off c = o /\ c_size c = sz.
Proof.
  induction m as [|h t IH]; simpl; [discriminate|].
  destruct ((c_off h =? o) && (c_size h =? sz)) eqn:E.
  - intros H. inversion H; subst. apply andb_true_iff in E. rewrite !Z.eqb_eq in E. tauto.
  - intros H. apply IH in H. destruct H as (H1 & H2 & H3). auto.
Qed.
Lemma om_get_none m o sz c : om_get m o sz = None -> In c m -> ~ (c_off c = o /\ c_size c = sz).
Proof.
  induction m as [|h t IH]; simpl; [tauto|].
  destruct ((c_off h =? o) && (c_size h =? sz)) eqn:E; [discriminate|].
  intros H [->|I]; auto. intros [E1 E2]. rewrite E1, E2, !Z.eqb_refl in E. discriminate.
Qed.

Lemma in_om_insert c m x : In x (om_insert c m) -> x = c \/ In x m.
Proof.
  induction m as [|h t IH]; simpl; [intros [E|[]]; auto|].
  destruct (cell_eqb h c); [simpl; tauto|]. destruct (cell_ltb c h); simpl.
  - intros [E|[E|I]]; auto.
  - intros [E|I]; auto. destruct (IH I); auto.
Qed.
Lemma om_insert_in c m x : In x m -> In x (om_insert c m).
Proof.
  induction m as [|h t IH]; simpl; [tauto|].
  destruct (cell_eqb h c); [simpl; tauto|]. destruct (cell_ltb c h); simpl; [tauto|].
  intros [E|I]; auto.
Qed.

Lemma in_om_scan m os o sz key : forall out x, In x (om_scan m os o sz key out) ->
  In x out \/ (In x m /\ c_overlap x o sz = true /\ cell_eqb x key = false).
Proof.
  induction os as [|g r IH]; intros out x H; [simpl in H; auto|].
  cbn [om_scan] in H.
  remember (filter (fun y => c_overlap y o sz) (om_group m g)) as hits eqn:F.
  destruct hits as [|h t]; auto.
  apply IH in H. destruct H as [H|H]; auto.
  apply in_app_or in H. destruct H as [H|H]; auto. right.
  apply filter_In in H. destruct H as [H1 H2]. rewrite F in H1.
  apply filter_In in H1. destruct H1 as [H1 H3]. unfold om_group in H1. apply filter_In in H1.
  rewrite negb_true_iff in H2. tauto.
Qed.

(* what get_overlap_cells returns overlaps the range and is not the cell (o, sz) itself *)
Theorem om_get_overlap_sound m o sz x : In x (om_get_overlap m o sz) ->
  In x m /\ c_overlap x o sz = true /\ ~ (c_off x = o /\ c_size x = sz).
Proof.
  unfold om_get_overlap. destruct (om_get m o sz) as [c|] eqn:E.
  - intros H. apply in_om_scan in H. destruct H as [H|H].
    + apply in_om_scan in H. destruct H as [[]|H].
      destruct H as (I & O & K). split; auto. split; auto.
      apply om_get_some in E. destruct E as (_ & E1 & E2).
      intros [X Y]. assert (cell_eqb x c = true) by (apply cell_eqb_spec; lia). congruence.
    + destruct H as (I & O & K). split; auto. split; auto.
      apply om_get_some in E. destruct E as (_ & E1 & E2).
      intros [X Y]. assert (cell_eqb x c = true) by (apply cell_eqb_spec; lia). congruence.
  - intros H.
    assert (Q : In x (om_insert (mkC o sz false) m) /\ c_overlap x o sz = true /\
                cell_eqb x (mkC o sz false) = false).
    { apply in_om_scan in H. destruct H as [H|H]; auto.
      apply in_om_scan in H. destruct H as [[]|H]; auto. }
    destruct Q as (I & O & K). apply in_om_insert in I.
    assert (NK : ~ (c_off x = o /\ c_size x = sz)).
    { intros [X Y]. assert (cell_eqb x (mkC o sz false) = true) by (apply cell_eqb_spec; simpl; lia).
      congruence. }
    destruct I as [->|I]; [exfalso; apply NK; auto|]. auto.
Qed.

(* kill lemma, constant index, word-level: every live cell other than (o, k) is disjoint
   from the written range (so what is not killed keeps its value) *)
Theorem const_store_kill_lemma k m o c : 0 < k -> wl k m -> aligned k o -> In c m ->
  c_off c <> o -> c_overlap c o k = false.
Proof.
  intros K W A I N. destruct (c_overlap c o k) eqn:E; auto.
  destruct (W c I) as [S AC]. exfalso. apply N. eapply aligned_overlap_same; eauto.
Qed.

(* ---- 2. symbolic overlap ---- *)
Lemma wf_le_addc e k : wf_le e -> wf_le (le_addc e k).
Proof. unfold wf_le, le_addc. simpl. auto. Qed.

Lemma sym_test_sound slb sub dom b s : wf_le slb -> wf_le sub -> genv dom s ->
  eval_le slb s <= b <= eval_le sub s ->
  e_is_bot (sym_test slb sub dom b) = false.
Proof.
  intros W1 W2 G H. apply (genv_not_bot _ s). unfold sym_test. apply d_add_sound.
  - intros c [<-|[]]. split.
    + unfold wf_lc. simpl. apply wf_le_addc. apply wf_le_neg. auto.
    + unfold sat. simpl. rewrite eval_le_addc, eval_le_neg. lia.
  - apply d_add_sound; eauto.
    intros c [<-|[]]. split.
    + unfold wf_lc. simpl. apply wf_le_addc. auto.
    + unfold sat. simpl. rewrite eval_le_addc. lia.
Qed.

(* if the test answers "no" then for no index described by the base domain the symbolic
   range contains the first or the last byte of the cell *)
Theorem c_sym_overlap_false slb sub dom c s : wf_le slb -> wf_le sub -> c_rem c = false ->
  c_sym_overlap c slb sub dom = false -> genv dom s ->
  ~ (eval_le slb s <= c_off c <= eval_le sub s) /\
  ~ (eval_le slb s <= c_off c + c_size c - 1 <= eval_le sub s).
Proof.
  intros W1 W2 R H G. unfold c_sym_overlap in H. rewrite R in H.
  split; intros X.
  - rewrite (sym_test_sound slb sub dom _ s W1 W2 G X) in H. discriminate.
  - destruct (e_is_bot (sym_test slb sub dom (c_off c))); [|discriminate].
    rewrite (sym_test_sound slb sub dom _ s W1 W2 G X) in H. discriminate.
Qed.

(* for equal sizes the two tests decide the intersection of the ranges *)
Theorem c_sym_overlap_complete slb sub dom c s k : wf_le slb -> wf_le sub -> c_rem c = false ->
  0 < k -> c_size c = k -> eval_le sub s = eval_le slb s + k - 1 -> genv dom s ->
  ranges_meet (c_off c) k (eval_le slb s) k -> c_sym_overlap c slb sub dom = true.
Proof.
  intros W1 W2 R K S E G (b & H1 & H2).
  destruct (c_sym_overlap c slb sub dom) eqn:F; auto. exfalso.
  destruct (c_sym_overlap_false _ _ _ _ s W1 W2 R F G) as [N1 N2]. rewrite S in N2. lia.
Qed.

Lemma in_dedup x l : In x l -> In x (dedup l).
Proof.
  induction l as [|h t IH]; simpl; auto. intros [->|I].
  - destruct (dedup t) as [|h' r] eqn:D; [simpl; auto|].
    destruct (Z.eqb_spec x h'); [subst; simpl; auto|simpl; auto].
  - specialize (IH I). destruct (dedup t) as [|h' r]; [destruct IH|].
    destruct (h =? h'); simpl in *; tauto.
Qed.

Lemma group_single m c k : uniq m -> (forall d, In d m -> c_size d = k) -> In c m ->
  om_group m (c_off c) = [c].
Proof.
  intros [ND U] S I. unfold om_group.
  assert (A : forall d, In d (filter (fun d => c_off d =? c_off c) m) -> d = c).
  { intros d H. apply filter_In in H. destruct H as [Id E]. apply Z.eqb_eq in E.
    symmetry. apply U; auto. apply cell_eqb_spec. rewrite (S c I), (S d Id). auto. }
  assert (ND' : NoDup (filter (fun d => c_off d =? c_off c) m)) by (apply NoDup_filter; auto).
  assert (Ic : In c (filter (fun d => c_off d =? c_off c) m)).
  { apply filter_In. split; auto. apply Z.eqb_refl. }
  destruct (filter (fun d => c_off d =? c_off c) m) as [|h [|h2 t]]; simpl in *.
  - tauto.
  - f_equal. apply A. auto.
  - exfalso. assert (h = c) by (apply A; auto). assert (h2 = c) by (apply A; auto). subst.
    inversion ND'; subst. simpl in *. tauto.
Qed.

(* kill lemma, symbolic index, one cell size: a live cell that is not returned is disjoint
   from the written range for every value of the index described by the base domain *)
Theorem sym_store_kill_lemma m slb sub dom k c s : uniq m -> (forall d, In d m -> c_size d = k) ->
  0 < k -> wf_le slb -> wf_le sub -> In c m -> c_rem c = false ->
  ~ In c (om_get_overlap_sym m slb sub dom) -> genv dom s ->
  eval_le sub s = eval_le slb s + k - 1 ->
  ~ ranges_meet (c_off c) k (eval_le slb s) k.
Proof.
  intros U S K W1 W2 I R NI G E M. apply NI. unfold om_get_overlap_sym.
  apply in_flat_map. exists (c_off c). split.
  - unfold om_offsets. apply in_dedup. apply in_map. auto.
  - rewrite (group_single m c k U S I). simpl.
    rewrite (c_sym_overlap_complete slb sub dom c s k); simpl; auto.
Qed.

(* ---- can_be_smashed and the coverage test ---- *)
Theorem can_be_smashed_spec cells esz nz : can_be_smashed cells esz nz = true ->
  cells <> [] /\ forall c, In c cells -> c_size c = esz.
Proof.
  unfold can_be_smashed. destruct cells as [|c0 r]; [discriminate|].
  destruct (negb nz && negb (c_off c0 =? 0)); [discriminate|].
  intros H. split; [discriminate|]. intros c I. rewrite forallb_forall in H.
  specialize (H c I). apply andb_true_iff in H. destruct H as [H _]. apply Z.eqb_eq in H. auto.
Qed.

Lemma covers_from_spec cells esz : forall n o j, covers_from cells o esz n = true ->
  (0 <= j < Z.of_nat n) -> exists c, In c cells /\ c_off c = o + j * esz.
Proof.
  induction n as [|n IH]; intros o j H J; [lia|].
  cbn [covers_from] in H. apply andb_true_iff in H. destruct H as [H1 H2].
  destruct (Z.eq_dec j 0) as [->|N].
  - apply existsb_exists in H1. destruct H1 as (c & I & E). apply Z.eqb_eq in E.
    exists c. split; auto. lia.
  - destruct (IH (o + esz) (j - 1) H2) as (c & I & E); [lia|]. exists c. split; auto. lia.
Qed.

(* every aligned offset that the index can take is the offset of one of the cells *)
Theorem covers_all_offsets_sound cells idx esz i : 0 < esz ->
  covers_all_offsets cells idx esz = true -> gamma idx i -> aligned esz i ->
  exists c, In c cells /\ c_off c = i.
Proof.
  intros K H G [P A]. unfold covers_all_offsets in H.
  destruct (lb idx) as [|l|] eqn:L; try discriminate. destruct (ub idx) as [|u|] eqn:U; try discriminate.
  destruct (l <? 0) eqn:NL; [discriminate|]. apply Z.ltb_ge in NL.
  destruct G as [G1 G2]. rewrite L in G1. rewrite U in G2. simpl in G1, G2.
  apply Z.leb_le in G1. apply Z.leb_le in G2.
  rewrite (Z.quot_div_nonneg (l + esz - 1) esz) in H by lia.
  set (qo := (l + esz - 1) / esz) in *.
  assert (Q1 : esz * qo <= l + esz - 1) by (apply Z.mul_div_le; lia).
  assert (Q2 : l + esz - 1 < esz * Z.succ qo) by (apply Z.mul_succ_div_gt; lia).
  apply Z.div_exact in A; [|lia]. set (qi := i / esz) in *.
  assert (QQ : qo <= qi) by nia.
  set (o := qo * esz) in *.
  assert (OI : o <= i) by (unfold o; nia).
  destruct (Z.of_nat (length cells) <=? Z.quot (u - o) esz); [discriminate|].
  destruct (u <? o) eqn:UO; [apply Z.ltb_lt in UO; lia|]. apply Z.ltb_ge in UO.
  rewrite (Z.quot_div_nonneg (u - o) esz) in H by lia.
  assert (J : (i - o) / esz = qi - qo).
  { symmetry. apply (Z.div_unique (i - o) esz (qi - qo) 0); [lia|]. unfold o. nia. }
  destruct (covers_from_spec cells esz _ o (qi - qo) H) as (c & I & E).
  - rewrite Z2Nat.id by (pose proof (Z.div_pos (u - o) esz); lia). split; [lia|].
    assert ((i - o) / esz <= (u - o) / esz) by (apply Z.div_le_mono; lia). lia.
  - exists c. split; auto. rewrite E. unfold o. nia.
Qed.

(* ---- 3. the decision table on a value-level reading of an array state ---- *)
(* [v_val o sz]: interval of the ghost variable of cell (o, sz); [v_sum]: of the summary *)
Record aval := mkV { v_st : astate; v_val : Z -> Z -> itv; v_sum : itv }.
Definition cval (a : aval) (c : cell) : itv := v_val a (c_off c) (c_size c).

Definition mem := Z -> option Z.
Definition mstore (mu : mem) (i v : Z) : mem := fun o => if o =? i then Some v else mu o.

(* the cells describe their cell of the array; the summary of a smashed array describes
   every defined cell *)
Definition gam (k : Z) (a : aval) (mu : mem) : Prop :=
  if as_smashed (v_st a)
  then as_esz (v_st a) = Some k -> forall o v, mu o = Some v -> gamma (v_sum a) v
  else forall c v, In c (as_map (v_st a)) -> mu (c_off c) = Some v -> gamma (cval a c) v.

(* every defined cell of the array is tracked by a cell of the map *)
Definition tracked (a : aval) (mu : mem) : Prop :=
  forall o, mu o <> None -> exists c, In c (as_map (v_st a)) /\ c_off c = o.

Definition join_vals (f : cell -> itv) (cs : list cell) : itv :=
  match cs with [] => ibot | c :: r => fold_left (fun acc d => ijoin acc (f d)) r (f c) end.

Lemma fold_join_acc (f : cell -> itv) r : forall acc x, gamma acc x ->
  gamma (fold_left (fun a d => ijoin a (f d)) r acc) x.
Proof. induction r as [|h t IH]; simpl; auto. intros acc x G. apply IH. apply ijoin_sound_l. auto. Qed.
Lemma fold_join_in (f : cell -> itv) r c : In c r -> forall acc x, gamma (f c) x ->
  gamma (fold_left (fun a d => ijoin a (f d)) r acc) x.
Proof.
  induction r as [|h t IH]; simpl; [tauto|]. intros [->|I] acc x G.
  - apply fold_join_acc. apply ijoin_sound_r. auto.
  - apply IH; auto.
Qed.
Lemma join_vals_in f cs c x : In c cs -> gamma (f c) x -> gamma (join_vals f cs) x.
Proof.
  destruct cs as [|h t]; simpl; [tauto|]. intros [->|I] G.
  - apply fold_join_acc. auto.
  - eapply fold_join_in; eauto.
Qed.

(* value-level effect of a store decision (val = interval of the stored value): killed cells
   are forgotten, the written cell gets val, smashing joins all cells and the value *)
Definition store_val (p : params) (a : aval) (d : store_decision) (esz : Z) (val : itv) : aval :=
  let st' := store_shape p (v_st a) d esz in
  match d with
  | SSmashedWeak => mkV st' (v_val a) (ijoin (v_sum a) val)
  | SSmashedForget => mkV st' (v_val a) itop
  | SCell o kill =>
    mkV st' (fun co cs => if (co =? o) && (cs =? esz) then val
                          else if existsb (fun d => (c_off d =? co) && (c_size d =? cs)) kill then itop
                               else v_val a co cs) (v_sum a)
  | SSmash cells => mkV st' (v_val a) (ijoin (join_vals (cval a) cells) val)
  | SKill cells =>
    mkV st' (fun co cs => if existsb (fun d => (c_off d =? co) && (c_size d =? cs)) cells then itop
                          else v_val a co cs) (v_sum a)
  end.

(* what a load decision returns *)
Definition load_val (a : aval) (d : load_decision) (esz : Z) : itv :=
  match d with
  | LSummary => v_sum a
  | LForget => itop
  | LCell o => match om_get (as_map (v_st a)) o esz with Some c => cval a c | None => itop end
  | LJoin cells => join_vals (cval a) cells
  end.

(* the shape functions only rearrange cells *)
Lemma in_kill_cells p cells m x : In x (kill_cells p cells m) ->
  exists y, In y m /\ c_off y = c_off x /\ c_size y = c_size x.
Proof.
  unfold kill_cells. destruct (p_smashable p).
  - revert m. induction cells as [|c r IH]; simpl; intros m H.
    + exists x. auto.
    + apply IH in H. destruct H as (y & I & E1 & E2).
      unfold om_remove in I. apply in_map_iff in I. destruct I as (z & Ez & Iz).
      exists z. split; auto. destruct (cell_eqb z c); subst y; simpl in *; lia.
  - revert m. induction cells as [|c r IH]; simpl; intros m H.
    + exists x. auto.
    + apply IH in H. destruct H as (y & I & E1 & E2).
      unfold om_erase in I. apply filter_In in I. destruct I as [I _]. exists y. auto.
Qed.

Lemma in_om_mk m o sz x : In x (snd (om_mk m o sz)) -> In x m \/ x = mkC o sz false.
Proof.
  unfold om_mk. destruct (om_get m o sz); simpl; auto.
  intros H. apply in_om_insert in H. tauto.
Qed.

Lemma as_set_cases old new : as_set old new = old \/ as_set old new = new.
Proof. unfold as_set. destruct (as_eqb old new); auto. Qed.

Lemma in_sym_in m slb sub dom x : In x (om_get_overlap_sym m slb sub dom) -> In x m.
Proof.
  unfold om_get_overlap_sym. intros H. apply in_flat_map in H. destruct H as (g & _ & H).
  destruct (largest (om_group m g) None); [|destruct H].
  destruct (c_sym_overlap c slb sub dom); [|destruct H].
  unfold om_group in H. apply filter_In in H. tauto.
Qed.

Lemma existsb_key_false (cells : list cell) c :
  existsb (fun d => (c_off d =? c_off c) && (c_size d =? c_size c)) cells = false -> ~ In c cells.
Proof.
  intros H I. assert (X : existsb (fun d => (c_off d =? c_off c) && (c_size d =? c_size c)) cells = true).
  { apply existsb_exists. exists c. split; auto. rewrite !Z.eqb_refl. auto. }
  congruence.
Qed.

Section Decisions.
Variable k : Z.
Hypothesis K : 0 < k.

(* the word-level assumption on the pre-state *)
Definition wf_state (a : aval) : Prop :=
  uniq (as_map (v_st a)) /\ wl k (as_map (v_st a)) /\ forall c, In c (as_map (v_st a)) -> c_rem c = false.

(* the access: its offset i is aligned, described by the interval idx of the index and by
   the symbolic bounds [slb, sub] = [index, index + k - 1] in some store of the base value *)
Record access (idx : itv) (slb sub : linexp) (dom : env) (i : Z) : Prop := {
  acc_aligned : aligned k i;
  acc_idx : gamma idx i;
  acc_wf : wf_le slb /\ wf_le sub;
  acc_sym : exists s, genv dom s /\ eval_le slb s = i /\ eval_le sub s = i + k - 1 }.

Lemma singleton_access idx n i : isingleton idx = Some n -> gamma idx i -> i = n.
Proof. intros H G. apply (isingleton_spec _ _ H). auto. Qed.

(* soundness of the decision table of array_store *)
Theorem store_decide_sound p a idx slb sub dom i v val mu :
  wf_state a -> access idx slb sub dom i -> gamma val v -> gam k a mu ->
  (match store_decide p (v_st a) idx slb sub dom k with SSmash _ => tracked a mu | _ => True end) ->
  gam k (store_val p a (store_decide p (v_st a) idx slb sub dom k) k val) (mstore mu i v).
Proof.
  intros (U & W & LIVE) A GV GM TR.
  assert (CELL : as_smashed (v_st a) = false -> forall kill,
            gam k (store_val p a (SCell i kill) k val) (mstore mu i v)).
  { intros SM kill. unfold gam in GM. rewrite SM in GM.
    unfold gam, store_val. cbn [v_st v_val v_sum]. unfold store_shape.
    assert (X : forall m', (forall c, In c m' -> (exists y, In y (as_map (v_st a)) /\ c_off y = c_off c /\ c_size y = c_size c)
                                            \/ (c_off c = i /\ c_size c = k)) ->
      forall c x, In c m' -> mstore mu i v (c_off c) = Some x ->
        gamma (cval (mkV (mkS false (as_esz (v_st a)) m')
          (fun co cs => if (co =? i) && (cs =? k) then val
                        else if existsb (fun d => (c_off d =? co) && (c_size d =? cs)) kill then itop
                             else v_val a co cs) (v_sum a)) c) x).
    { intros m' HM c x I M. unfold cval. cbn [v_val].
      destruct (HM c I) as [(y & Iy & E1 & E2)|[E1 E2]].
      - destruct (W y Iy) as [SZ AL]. rewrite <- E2, SZ, Z.eqb_refl, andb_true_r.
        destruct (Z.eqb_spec (c_off c) i) as [EI|NI].
        + unfold mstore in M. rewrite EI, Z.eqb_refl in M. inversion M; subst. auto.
        + unfold mstore in M. destruct (Z.eqb_spec (c_off c) i); [tauto|].
          destruct (existsb _ kill); [apply gamma_top|].
          rewrite <- E1 in M. pose proof (GM y x Iy M) as Gy. unfold cval in Gy.
          rewrite E1, SZ in Gy. exact Gy.
      - rewrite E1, E2, !Z.eqb_refl. simpl. unfold mstore in M. rewrite E1, Z.eqb_refl in M.
        inversion M; subst. auto. }
    destruct (as_set_cases (v_st a) (mkS false (as_esz (v_st a))
                (snd (om_mk (kill_cells p kill (as_map (v_st a))) i k)))) as [E|E]; rewrite E.
    - rewrite SM. intros c x I M.
      pose proof (X (as_map (v_st a)) ltac:(intros c0 I0; left; exists c0; auto) c x I M) as G.
      unfold cval in *. cbn [v_val] in *. exact G.
    - cbn [as_smashed as_map]. intros c x I M.
      refine (X _ _ c x I M). intros c0 I0. apply in_om_mk in I0. destruct I0 as [I0| ->].
      + left. apply in_kill_cells in I0. exact I0.
      + right. simpl. auto. }
  assert (KILL : as_smashed (v_st a) = false ->
            gam k (store_val p a (SKill (om_get_overlap_sym (as_map (v_st a)) slb sub dom)) k val) (mstore mu i v)).
  { intros SM. unfold gam in GM. rewrite SM in GM.
    set (cells := om_get_overlap_sym (as_map (v_st a)) slb sub dom).
    unfold gam, store_val. cbn [v_st v_val v_sum]. unfold store_shape.
    assert (X : forall m', (forall c, In c m' -> In c (as_map (v_st a))) ->
      forall c x, In c m' -> mstore mu i v (c_off c) = Some x ->
        gamma (cval (mkV (mkS false (as_esz (v_st a)) m')
          (fun co cs => if existsb (fun d => (c_off d =? co) && (c_size d =? cs)) cells then itop
                        else v_val a co cs) (v_sum a)) c) x).
    { intros m' HM c x I M. unfold cval. cbn [v_val]. specialize (HM c I).
      destruct (existsb _ cells) eqn:EX; [apply gamma_top|].
      apply existsb_key_false in EX. destruct (W c HM) as [SZ AL].
      destruct A as [AA AI [W1 W2] (s & Gs & E1 & E2)].
      assert (N : ~ ranges_meet (c_off c) k (eval_le slb s) k).
      { eapply (sym_store_kill_lemma (as_map (v_st a)) slb sub dom k c s); eauto.
        - intros d Id. apply (W d Id).
        - lia. }
      assert (NI : c_off c <> i).
      { intros EQ. apply N. rewrite E1, EQ. exists i. lia. }
      unfold mstore in M. destruct (Z.eqb_spec (c_off c) i); [tauto|].
      apply (GM c x HM M). }
    destruct (as_set_cases (v_st a) (mkS false (as_esz (v_st a))
                (kill_cells p cells (as_map (v_st a))))) as [E|E]; rewrite E.
    - rewrite SM. intros c x I M. apply (X (as_map (v_st a)) ltac:(auto) c x I M).
    - cbn [as_smashed as_map]. intros c x I M.
      (* the killed map: its cells are cells of the old map, possibly marked *)
      unfold cval. cbn [v_val]. apply in_kill_cells in I. destruct I as (y & Iy & E1 & E2).
      rewrite <- E1, <- E2. rewrite <- E1 in M.
      apply (X (as_map (v_st a)) ltac:(auto) y x Iy M). }
  assert (SMASH : as_smashed (v_st a) = false -> tracked a mu ->
            gam k (store_val p a (SSmash (as_map (v_st a))) k val) (mstore mu i v)).
  { intros SM T. unfold gam in GM. rewrite SM in GM.
    unfold gam, store_val. cbn [v_st v_val v_sum]. unfold store_shape, as_set.
    assert (NE : as_eqb (v_st a) (mkS true (Some k) []) = false).
    { unfold as_eqb. rewrite SM. reflexivity. }
    rewrite NE. cbn [as_smashed as_esz]. intros _ o x M.
    unfold mstore in M. destruct (Z.eqb_spec o i).
    - inversion M; subst. apply ijoin_sound_r. auto.
    - apply ijoin_sound_l. destruct (T o) as (c & I & E); [congruence|].
      apply (join_vals_in _ _ c); auto. apply GM; auto. rewrite E. auto. }
  unfold store_decide in *. destruct (as_smashed (v_st a)) eqn:SM.
  - (* smashed *)
    unfold gam in GM. rewrite SM in GM.
    unfold size_consistent. destruct (as_esz (v_st a)) as [e|] eqn:ES.
    + destruct (Z.eqb_spec e k) as [EK|NK].
      * unfold gam, store_val, store_shape. cbn [v_st v_sum]. rewrite SM. intros _ o x M.
        unfold mstore in M. destruct (o =? i).
        -- inversion M; subst. apply ijoin_sound_r. auto.
        -- apply ijoin_sound_l. apply (GM ltac:(congruence) o x M).
      * unfold gam, store_val, store_shape. cbn [v_st v_sum]. rewrite SM. intros _ o x M. apply gamma_top.
    + unfold gam, store_val, store_shape. cbn [v_st v_sum]. rewrite SM. intros _ o x M. apply gamma_top.
  - destruct (isingleton idx) as [n|] eqn:SG.
    + assert (i = n) by (eapply singleton_access; eauto; apply A). subst n.
      destruct (Z.of_nat (length (as_map (v_st a))) <? p_max_size p); [apply CELL; auto|].
      destruct (p_smashable p && can_be_smashed (as_map (v_st a)) k (p_nonzero p) &&
                (Z.of_nat (length (as_map (v_st a))) <=? p_max_smash p)); auto.
    + destruct (p_smashable p && can_be_smashed (as_map (v_st a)) k (p_nonzero p) &&
                (Z.of_nat (length (as_map (v_st a))) <=? p_max_smash p)); auto.
Qed.

(* soundness of the decision table of array_load: the value read is in the result *)
Theorem load_decide_sound p a idx slb sub dom i v mu :
  wf_state a -> access idx slb sub dom i -> gam k a mu -> mu i = Some v ->
  gamma (load_val a (load_decide p (v_st a) idx slb sub dom k) k) v.
Proof.
  intros (U & W & LIVE) A GM M. unfold load_decide. unfold gam in GM.
  destruct (as_smashed (v_st a)) eqn:SM.
  - unfold size_consistent. destruct (as_esz (v_st a)) as [e|] eqn:ES; [|apply gamma_top].
    destruct (Z.eqb_spec e k) as [EK|NK]; [|apply gamma_top].
    simpl. apply (GM ltac:(congruence) i v M).
  - destruct (isingleton idx) as [n|] eqn:SG.
    + assert (i = n) by (eapply singleton_access; eauto; apply A). subst n.
      destruct (om_get_overlap (as_map (v_st a)) i k); [|apply gamma_top].
      simpl. destruct (om_get (as_map (v_st a)) i k) as [c|] eqn:E; [|apply gamma_top].
      apply om_get_some in E. destruct E as (I & E1 & E2). apply GM; auto. rewrite E1. auto.
    + set (cells := om_get_overlap_sym (as_map (v_st a)) slb sub dom).
      destruct (p_smashable p && can_be_smashed cells k true && covers_all_offsets cells idx k) eqn:C;
        [|apply gamma_top].
      apply andb_true_iff in C. destruct C as [C1 C2].
      destruct (covers_all_offsets_sound cells idx k i K C2) as (c & I & E); try apply A.
      simpl. apply (join_vals_in _ _ c); auto. apply GM.
      * eapply in_sym_in; eauto.
      * rewrite E. auto.
Qed.

End Decisions.

(* ---- the hypothesis [tracked] of the smashing store cannot be dropped ----
   The array has the cell (0,4) = 5 and, untracked, the defined cell 8 = 2; a store of 7 at
   a symbolic index in [0,4] smashes the array: the summary [5,7] does not describe cell 8.
   (The same history on the real array_adaptive_domain: see known_findings.json.) *)
Definition rf_p : params := mkP true true 64 64.
Definition rf_a : aval :=
  mkV (mkS false (Some 0) [mkC 0 4 false]) (fun _ _ => iconst 5) itop.
Definition rf_dom : env := EMap [(0%N, mkI (Fin 0) (Fin 4))].
Definition rf_slb : linexp := mkLE [(1, 0%N)] 0.
Definition rf_sub : linexp := mkLE [(1, 0%N)] 3.
Definition rf_mu : mem := fun o => if o =? 0 then Some 5 else if o =? 8 then Some 2 else None.

Theorem smash_untracked_refuted :
  wf_state 4 rf_a /\ access 4 (mkI (Fin 0) (Fin 4)) rf_slb rf_sub rf_dom 0 /\
  gamma (iconst 7) 7 /\ gam 4 rf_a rf_mu /\
  store_decide rf_p (v_st rf_a) (mkI (Fin 0) (Fin 4)) rf_slb rf_sub rf_dom 4 = SSmash [mkC 0 4 false] /\
  ~ gam 4 (store_val rf_p rf_a (SSmash [mkC 0 4 false]) 4 (iconst 7)) (mstore rf_mu 0 7).
Proof.
  split; [|split; [|split; [|split; [|split]]]].
  - split; [|split].
    + split; [repeat constructor; simpl; tauto|]. intros c d [<-|[]] [<-|[]] _. auto.
    + intros c [<-|[]]. simpl. split; auto. split; [lia|reflexivity].
    + intros c [<-|[]]. auto.
  - constructor.
    + split; [lia|reflexivity].
    + split; reflexivity.
    + split; split; simpl; try (repeat constructor; simpl; tauto);
        intros c v [E|[]]; inversion E; lia.
    + exists (fun _ => 0). split; [|split; reflexivity].
      intros kk. simpl. destruct kk; simpl; split; reflexivity.
  - split; reflexivity.
  - unfold gam. simpl. intros c v [<-|[]]. simpl. intros H. inversion H. split; reflexivity.
  - vm_compute. reflexivity.
  - unfold gam. intros H.
    assert (X : gamma (v_sum (store_val rf_p rf_a (SSmash [mkC 0 4 false]) 4 (iconst 7))) 2).
    { revert H. vm_compute. intros H. apply (H eq_refl 8 2 eq_refl). }
    revert X. vm_compute. intros [X1 X2]. discriminate.
Qed.
