(* Extraction of the reference_constraint mirror (Ana/RefCst.v).  Only ExtrOcamlBasic. *)
Require Import Extraction ExtrOcamlBasic.
From Coq Require Import ZArith.
From CrabV Require Import Ana.RefCst.
Extraction Language OCaml.
Set Extraction KeepSingleton.
Extraction "../ocaml/gen/refcst_model.ml"
  RefCst.mk_true RefCst.mk_false
  RefCst.mk_null RefCst.mk_not_null RefCst.mk_le_null RefCst.mk_lt_null RefCst.mk_ge_null RefCst.mk_gt_null
  RefCst.mk_eq RefCst.mk_not_eq RefCst.mk_lt RefCst.mk_le RefCst.mk_gt RefCst.mk_ge
  RefCst.negate_opt RefCst.negate RefCst.describe RefCst.eval RefCst.wf
  RefCst.check_ref RefCst.sd_is_bottom RefCst.sd_assume
  nat BinNums.N BinInt.Z.of_N.   (* nat, N, Z: ocaml/zio.ml.in mentions their constructors *)
