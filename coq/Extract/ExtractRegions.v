Require Import Extraction ExtrOcamlBasic.
From CrabV Require Import Base.ZInf Scalar.Itv Scalar.SmallRange Scalar.Boolean Ir.Syntax
     Dom.ItvEnv Dom.ItvDomain Dom.RegionCore.
Extraction Language OCaml.
Set Extraction KeepSingleton.
Extraction "../ocaml/gen/regions_model.ml"
  ZInf.bound Itv.itv Itv.is_bot Itv.is_top
  Syntax.linexp Syntax.lincst Syntax.arith_op
  SmallRange.sr Boolean.bv ItvDomain.operand
  RegionCore.rparams RegionCore.rconf RegionCore.rop RegionCore.rval RegionCore.r_top
  RegionCore.rstep RegionCore.rrun RegionCore.vget
  RegionCore.q_at RegionCore.q_null RegionCore.q_sites RegionCore.q_tags RegionCore.q_count.
