Require Import Extraction ExtrOcamlBasic.
From CrabV Require Import Fix.Wto Fix.Engine Fix.Kleene Fix.EngineFS.
Extraction Language OCaml.
Set Extraction KeepSingleton.
Extraction "../ocaml/gen/fixfs_model.ml"
  Wto.build Wto.nesting Engine.run Engine.e_pre Engine.e_post Kleene.lfp Kleene.mkF EngineFS.fs_engine EngineFS.fs_certified
  BinNums.Z BinNums.N.
