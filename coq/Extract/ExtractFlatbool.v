Require Import Extraction ExtrOcamlBasic.
From CrabV Require Import Base.ZInf Scalar.Itv Ir.Syntax Dom.ItvEnv Dom.ItvSolver Dom.ItvDomain
     Dom.History Fix.Thresholds Dom.FlatBool.
Extraction Language OCaml.
Set Extraction KeepSingleton.
Extraction "../ocaml/gen/flatbool_model.ml"
  ZInf.bound Itv.itv Itv.imk Itv.ibot Itv.itop Itv.is_bot Itv.is_top
  Syntax.linexp Syntax.lincst Syntax.arith_op Syntax.bit_op Syntax.cast_op
  ItvDomain.operand
  FlatBool.bval FlatBool.bool_op FlatBool.fstate FlatBool.fb_top FlatBool.fb_is_bot FlatBool.fb_is_top
  FlatBool.fb_leq FlatBool.fb_entails FlatBool.fb_bool_at FlatBool.fb_at FlatBool.fb_to_csts
  FlatBool.fhop FlatBool.fstep FlatBool.frun FlatBool.frget.
