Require Import Extraction ExtrOcamlBasic.
From CrabV Require Import Base.ZInf Scalar.Itv Ir.Syntax Dom.ItvEnv Dom.ItvSolver Dom.ItvDomain
     Dom.History Fix.Thresholds.
Extraction Language OCaml.
Set Extraction KeepSingleton.
Extraction "../ocaml/gen/itvdom_model.ml"
  ZInf.bound Itv.itv Itv.imk Itv.ibot Itv.itop Itv.is_bot Itv.is_top
  Syntax.linexp Syntax.lincst Syntax.arith_op Syntax.bit_op Syntax.cast_op Syntax.satb
  ItvEnv.env ItvEnv.e_at ItvEnv.e_is_bot ItvEnv.e_is_top ItvEnv.e_leq ItvEnv.bindings ItvEnv.e_top
  ItvDomain.d_entails ItvDomain.d_to_csts ItvDomain.operand
  History.hop History.hstep History.hrun History.rget
  Thresholds.thr_add Thresholds.thr_next Thresholds.thr_prev Thresholds.thr_init.
