Require Import Extraction ExtrOcamlBasic.
From CrabV Require Import Base.ZInf Scalar.Itv Ir.Syntax Dom.ItvEnv Dom.ItvSolver Dom.ItvDomain
     Dom.History Fix.Thresholds Dom.ArraySmash Dom.ArrayAdaptCore Dom.ArrayAdapt.
Extraction Language OCaml.
Set Extraction KeepSingleton.
Extraction "../ocaml/gen/arrays_model.ml"
  ZInf.bound Itv.itv Itv.is_bot Itv.is_top
  Syntax.linexp Syntax.lincst Syntax.arith_op
  ItvEnv.env ItvEnv.e_at ItvEnv.e_is_bot ItvEnv.e_is_top ItvEnv.e_top ItvDomain.operand ItvDomain.d_add
  ArraySmash.sv ArraySmash.avar ArraySmash.ast ArraySmash.ahop ArraySmash.astep ArraySmash.aget
  ArraySmash.s_top ArraySmash.s_is_bottom ArraySmash.s_is_top ArraySmash.s_leq ArraySmash.s_at
  ArraySmash.le_var
  ArrayAdaptCore.cell ArrayAdaptCore.c_overlap ArrayAdaptCore.c_sym_overlap
  ArrayAdaptCore.om_mk ArrayAdaptCore.om_erase ArrayAdaptCore.om_remove ArrayAdaptCore.om_get_overlap
  ArrayAdaptCore.om_get_overlap_sym ArrayAdaptCore.om_join ArrayAdaptCore.om_meet ArrayAdaptCore.om_leq
  ArrayAdaptCore.can_be_smashed ArrayAdaptCore.covers_all_offsets
  ArrayAdaptCore.params ArrayAdaptCore.astate ArrayAdaptCore.store_decide ArrayAdaptCore.load_decide
  ArrayAdaptCore.store_shape ArrayAdaptCore.load_shape ArrayAdaptCore.as_join ArrayAdaptCore.as_meet
  ArrayAdapt.pv ArrayAdapt.adom ArrayAdapt.a_top ArrayAdapt.a_is_bottom ArrayAdapt.a_is_top ArrayAdapt.a_at
  ArrayAdapt.a_leq ArrayAdapt.am_find ArrayAdapt.gh_hasc ArrayAdapt.dget ArrayAdapt.dstep
  ItvDomain.d_eval Itv.isingleton.
