Require Import Extraction ExtrOcamlBasic.
From CrabV Require Import Base.ZInf Scalar.Itv Ir.Syntax Dom.ItvEnv Dom.ItvSolver Dom.ItvDomain
     Dom.History Fix.Thresholds Dom.ArraySmash.
Extraction Language OCaml.
Set Extraction KeepSingleton.
Extraction "../ocaml/gen/arrays_model.ml"
  ZInf.bound Itv.itv Itv.is_bot Itv.is_top
  Syntax.linexp Syntax.lincst Syntax.arith_op
  ItvEnv.env ItvEnv.e_at ItvEnv.e_is_bot ItvEnv.e_is_top ItvDomain.operand
  ArraySmash.sv ArraySmash.avar ArraySmash.ast ArraySmash.ahop ArraySmash.astep ArraySmash.aget
  ArraySmash.s_top ArraySmash.s_is_bottom ArraySmash.s_is_top ArraySmash.s_leq ArraySmash.s_at.
