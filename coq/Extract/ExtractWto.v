(* Extraction of the WTO model and of the verified checker.  Only ExtrOcamlBasic.
   BinNums.Z / N are extracted only because the shared ocaml/zio.ml.in mentions the types. *)
Require Import Extraction ExtrOcamlBasic.
From Coq Require Import BinNums.
From CrabV Require Import Fix.Wto Fix.WtoCheck.
Extraction Language OCaml.
Set Extraction KeepSingleton.
Extraction "../ocaml/gen/wto_model.ml"
  Wto.graph Wto.comp Wto.build Wto.nesting Wto.fuel_for
  WtoCheck.flat WtoCheck.struct_ok WtoCheck.nesting_ok WtoCheck.check WtoCheck.wto_ok
  WtoCheck.nodupb WtoCheck.closedb WtoCheck.edges_ok WtoCheck.subset WtoCheck.reach_n BinNums.Z BinNums.N.
