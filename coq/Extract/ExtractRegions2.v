Require Import Extraction ExtrOcamlBasic.
From CrabV Require Import Base.ZInf Scalar.Itv Scalar.SmallRange Scalar.Boolean Ir.Syntax
     Dom.ItvEnv Dom.ItvDomain Dom.RegionCore Dom.RegionCore2.
Extraction Language OCaml.
Set Extraction KeepSingleton.
Extraction "../ocaml/gen/regions2_model.ml"
  ZInf.bound Itv.itv Itv.is_bot Itv.is_top
  Syntax.linexp Syntax.lincst Syntax.arith_op
  SmallRange.sr Boolean.bv ItvDomain.operand
  RegionCore.sval RegionCore.rcst RegionCore.rrel
  RegionCore2.vk RegionCore2.rty RegionCore2.tyv RegionCore2.rparams2 RegionCore2.rconf2
  RegionCore2.rop2 RegionCore2.rval2 RegionCore2.s_top
  RegionCore2.pstep RegionCore2.prun RegionCore2.wget
  RegionCore2.o_at RegionCore2.o_null RegionCore2.o_sites RegionCore2.o_tags RegionCore2.o_info
  RegionCore2.o_offsize RegionCore2.o_raw RegionCore2.o_deref.
