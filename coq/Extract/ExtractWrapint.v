(* Extraction of the wrapint family (crab::wrapint and wrapped intervals).  Only
   ExtrOcamlBasic; Z / positive stay the extracted inductives. *)
Require Import Extraction ExtrOcamlBasic.
From CrabV Require Import Num.Wrapint Scalar.WrappedItv.
Extraction Language OCaml.
Set Extraction KeepSingleton.
(* nat and N are only there because ocaml/zio.ml.in mentions their constructors *)
Extraction "../ocaml/gen/wrapint_model.ml" nat BinNums.N
  Wrapint.wrapint Wrapint.of_u64 Wrapint.of_z Wrapint.of_q Wrapint.of_string_u64
  Wrapint.get_bitwidth Wrapint.fits_wrapint Wrapint.fits_wrapint_q Wrapint.msb
  Wrapint.get_signed_max Wrapint.get_signed_min Wrapint.get_unsigned_max Wrapint.get_unsigned_min
  Wrapint.get_uint64_t Wrapint.get_unsigned_bignum Wrapint.get_signed_bignum Wrapint.is_zero
  Wrapint.wand Wrapint.wor Wrapint.wxor Wrapint.wadd Wrapint.wmul Wrapint.wsub Wrapint.wneg
  Wrapint.weq Wrapint.wne Wrapint.wlt Wrapint.wle Wrapint.wgt Wrapint.wge
  Wrapint.wsdiv Wrapint.wudiv Wrapint.wsrem Wrapint.wurem
  Wrapint.wadd_assign Wrapint.wmul_assign Wrapint.wsub_assign Wrapint.wpreinc Wrapint.wpredec
  Wrapint.wpostinc Wrapint.wpostdec Wrapint.wshl Wrapint.wlshr Wrapint.washr
  Wrapint.wsext Wrapint.wzext Wrapint.wkeep_lower Wrapint.valid_width
  WrappedItv.witv WrappedItv.wi_mk WrappedItv.wi_single WrappedItv.wi_top WrappedItv.wi_bottom
  WrappedItv.is_bottom WrappedItv.is_top WrappedItv.mk_winterval1 WrappedItv.mk_winterval2
  WrappedItv.is_singleton WrappedItv.wi_at WrappedItv.wi_leq WrappedItv.wi_eq WrappedItv.wi_join
  WrappedItv.wi_meet WrappedItv.signed_limit WrappedItv.unsigned_limit
  WrappedItv.cross_signed_limit WrappedItv.cross_unsigned_limit WrappedItv.wi_mul
  WrappedItv.wi_add WrappedItv.wi_neg WrappedItv.wi_sub WrappedItv.wi_sdiv WrappedItv.wi_udiv
  WrappedItv.default_implementation WrappedItv.wi_zext WrappedItv.wi_sext WrappedItv.wi_trunc
  WrappedItv.wi_shl WrappedItv.wi_lshr WrappedItv.wi_ashr WrappedItv.wi_widen
  WrappedItv.wi_lower_half_line WrappedItv.wi_upper_half_line WrappedItv.wi_to_interval
  WrappedItv.wi_trim_interval.
