(* Extraction of the wrapint family (crab::wrapint and wrapped intervals).  Only
   ExtrOcamlBasic; Z / positive stay the extracted inductives. *)
Require Import Extraction ExtrOcamlBasic.
From CrabV Require Import Num.Wrapint.
Extraction Language OCaml.
Set Extraction KeepSingleton.
Extraction "../ocaml/gen/wrapint_model.ml"
  Wrapint.wrapint Wrapint.of_u64 Wrapint.of_z Wrapint.of_q Wrapint.of_string_u64
  Wrapint.get_bitwidth Wrapint.fits_wrapint Wrapint.fits_wrapint_q Wrapint.msb
  Wrapint.get_signed_max Wrapint.get_signed_min Wrapint.get_unsigned_max Wrapint.get_unsigned_min
  Wrapint.get_uint64_t Wrapint.get_unsigned_bignum Wrapint.get_signed_bignum Wrapint.is_zero
  Wrapint.wand Wrapint.wor Wrapint.wxor Wrapint.wadd Wrapint.wmul Wrapint.wsub Wrapint.wneg
  Wrapint.weq Wrapint.wne Wrapint.wlt Wrapint.wle Wrapint.wgt Wrapint.wge
  Wrapint.wsdiv Wrapint.wudiv Wrapint.wsrem Wrapint.wurem
  Wrapint.wadd_assign Wrapint.wmul_assign Wrapint.wsub_assign Wrapint.wpreinc Wrapint.wpredec
  Wrapint.wpostinc Wrapint.wpostdec Wrapint.wshl Wrapint.wlshr Wrapint.washr
  Wrapint.wsext Wrapint.wzext Wrapint.wkeep_lower Wrapint.valid_width.
