Require Import Extraction ExtrOcamlBasic.
From CrabV Require Import Base.ZInf Scalar.Itv Ir.Syntax Dom.ItvEnv Dom.ItvSolver Dom.ItvDomain
     Dom.History Dom.Zone Dom.Oct.
Extraction Language OCaml.
Set Extraction KeepSingleton.
Extraction "../ocaml/gen/graphdom_model.ml"
  ZInf.bound Itv.itv Itv.is_bot Itv.is_top
  Syntax.linexp Syntax.lincst
  ItvEnv.env ItvEnv.e_at ItvEnv.e_is_bot ItvEnv.e_is_top ItvEnv.e_leq ItvEnv.e_top
  ItvDomain.d_entails History.hop History.hstep History.rget
  Zone.zone Zone.z_is_bot Zone.z_entails Zone.z_lower Zone.z_upper Zone.z_leq Zone.z_is_top
  Zone.z_inlang Zone.gop Zone.gstep Zone.gget Zone.zone_dom
  Oct.o_entails Oct.o_lower Oct.o_upper Oct.o_leq Oct.o_is_top Oct.o_inlang Oct.oct_dom.
