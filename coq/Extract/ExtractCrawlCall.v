(* Extraction of the call-site step of the assertion crawler (Ana/CrawlerCall.v).
   Only ExtrOcamlBasic; N / positive stay the extracted inductives. *)
Require Import Extraction ExtrOcamlBasic.
From Coq Require Import ZArith.
From CrabV Require Import Ana.CfgSem Ana.CrawlerCall.
Extraction Language OCaml.
Set Extraction KeepSingleton.
Extraction "../ocaml/gen/crawlcall_model.ml"
  CrawlerCall.get CrawlerCall.callee_to_caller CrawlerCall.apply_set CrawlerCall.apply_summary
  CrawlerCall.rename_map CrawlerCall.join CrawlerCall.callsite_step CrawlerCall.old_apply
  BinInt.Z.of_N.   (* zio.ml.in needs the type z *)
