(* Extraction of the patricia family (C19).  Only ExtrOcamlBasic; N / Z / positive stay
   the extracted inductives. *)
Require Import Extraction ExtrOcamlBasic.
From CrabV Require Import Base.ZInf Scalar.Itv Map.Patricia Map.SepDomain Map.DiscreteDomain.
Extraction Language OCaml.
Set Extraction KeepSingleton.
Extraction "../ocaml/gen/patricia_model.ml"
  ZInf.bound Itv.itv Itv.ibot Itv.itop Itv.imk Itv.is_bot Itv.is_top
  Patricia.highest_bit Patricia.highest_bit_loop Patricia.lookup Patricia.pelements
  SepDomain.ie_top SepDomain.ie_bottom SepDomain.ie_leq SepDomain.ie_leq_orig SepDomain.ie_eq
  SepDomain.ie_join SepDomain.ie_widen SepDomain.ie_meet SepDomain.ie_narrow SepDomain.ie_set
  SepDomain.ie_join_kv SepDomain.ie_join_kv_orig SepDomain.ie_forget SepDomain.ie_at
  SepDomain.ie_project SepDomain.ie_rename SepDomain.ie_widen_thr
  SepDomain.s_is_bottom SepDomain.s_is_top SepDomain.s_size SepDomain.s_elements
  DiscreteDomain.ps_empty DiscreteDomain.ps_single DiscreteDomain.ps_is_empty DiscreteDomain.ps_size
  DiscreteDomain.ps_mem DiscreteDomain.ps_add DiscreteDomain.ps_remove DiscreteDomain.ps_union
  DiscreteDomain.ps_inter DiscreteDomain.ps_leq DiscreteDomain.ps_geq DiscreteDomain.ps_eq
  DiscreteDomain.ps_elements
  DiscreteDomain.dd_bottom DiscreteDomain.dd_top DiscreteDomain.dd_single DiscreteDomain.dd_is_top
  DiscreteDomain.dd_is_bottom DiscreteDomain.dd_leq DiscreteDomain.dd_eq DiscreteDomain.dd_eq_orig
  DiscreteDomain.dd_join DiscreteDomain.dd_meet DiscreteDomain.dd_add DiscreteDomain.dd_remove
  DiscreteDomain.dd_add_list DiscreteDomain.dd_remove_list DiscreteDomain.dd_diff
  DiscreteDomain.dd_contain DiscreteDomain.dd_rename DiscreteDomain.dd_size DiscreteDomain.dd_elements.
