Require Import Extraction ExtrOcamlBasic.
From CrabV Require Import Base.ZInf Scalar.Itv Ir.Syntax Ir.Cfg Dom.ItvEnv Dom.ItvDomain Fix.Wto Fix.Engine
     Ana.Transformer Ana.FwdItv Ana.InterSyntax Ana.InterTD Ana.InterBU Ana.InterTDRec Ana.InterBURec.
Extraction Language OCaml.
Set Extraction KeepSingleton.
Extraction "../ocaml/gen/inter_model.ml"
  ZInf.bound Itv.itv Itv.imk Itv.is_bot Itv.is_top Syntax.linexp Syntax.lincst
  Cfg.stmt ItvEnv.env ItvEnv.e_at ItvEnv.e_is_bot ItvEnv.e_set ItvEnv.e_top ItvDomain.d_add
  ItvDomain.operand Wto.build
  InterSyntax.istmt InterSyntax.mkFunc InterSyntax.get_fn InterSyntax.iprog_wfb
  InterTD.fn_graph InterTD.cg_entries InterTD.cg_recset InterTD.prog_voff
  InterTD.td_run InterTD.g_pre InterTD.g_post InterTD.g_err InterTD.g_summaries InterTD.mkSumm
  InterTD.td_validate InterTD.callee_entry InterTD.cont InterTD.cert_ok InterTD.summ_ok InterTD.mk_cert InterTD.chk_block
  InterBU.bu_run InterBU.bu_summaries InterBU.bu_validate
  InterBURec.bur_run InterBURec.cg_post InterBURec.cg_isrec InterBURec.bur_entries
  InterTDRec.cg_wto InterTDRec.cg_wset InterTDRec.rec_run InterTDRec.rec_run_checked InterTDRec.rec_cfg_okb InterTDRec.r_g InterTDRec.r_fix
  BinNums.Z BinNums.N.
