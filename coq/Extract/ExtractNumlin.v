(* Extraction of the numlin models (z_number, q_number, safe_i64, linear expressions,
   constraints, systems).  Only ExtrOcamlBasic; Z / positive / Q stay the extracted
   inductives. *)
Require Import Extraction ExtrOcamlBasic.
From Coq Require Import ZArith QArith.
From CrabV Require Import Num.Bignum Num.QNum Num.Safeint Lin.LinExpr Lin.LinCst Lin.LinSys.
Extraction Language OCaml.
Set Extraction KeepSingleton.
Extraction "../ocaml/gen/numlin_model.ml"
  Bignum.zadd Bignum.zsub Bignum.zmul Bignum.zneg Bignum.zdiv Bignum.zrem Bignum.zinc Bignum.zdec
  Bignum.zeq Bignum.zne Bignum.zlt Bignum.zle Bignum.zgt Bignum.zge
  Bignum.zand Bignum.zor Bignum.zxor Bignum.zshl Bignum.zshr Bignum.fill_ones
  Bignum.fits_int64 Bignum.to_int64 Bignum.of_int64 Bignum.of_uint64
  Bignum.z_get_str Bignum.z_of_str Bignum.to_words Bignum.of_words
  QNum.q_make QNum.q_of_z QNum.q_of_m2e QNum.qadd QNum.qsub QNum.qmul QNum.qneg QNum.qdivide
  QNum.qinc QNum.qdec QNum.qeq QNum.qle QNum.qlt QNum.numerator QNum.denominator
  QNum.round_to_upper QNum.round_to_lower QNum.qshl
  Safeint.checked_add Safeint.checked_sub Safeint.checked_mul Safeint.checked_div
  Safeint.safe_add Safeint.safe_sub Safeint.safe_mul Safeint.safe_div Safeint.safe_neg
  Safeint.safe_of_z Safeint.safe_eq Safeint.safe_lt Safeint.safe_le Safeint.fits_i64
  LinExpr.le_zero LinExpr.le_const LinExpr.le_var LinExpr.le_term LinExpr.le_is_constant
  LinExpr.le_constant LinExpr.le_size LinExpr.le_coef LinExpr.le_variables LinExpr.le_addk
  LinExpr.le_subk LinExpr.le_addv LinExpr.le_subv LinExpr.le_add LinExpr.le_sub LinExpr.le_scale
  LinExpr.le_neg LinExpr.le_rename LinExpr.le_get_variable LinExpr.le_equal LinExpr.le_lex
  LinExpr.le_is_well_typed
  LinCst.lc_true LinCst.lc_false LinCst.is_tautology LinCst.is_contradiction LinCst.lc_constant
  LinCst.lc_size LinCst.lc_coef LinCst.lc_equal LinCst.lc_lex LinCst.lc_rename
  LinCst.lc_is_well_typed LinCst.negate LinCst.strict_to_non_strict
  LinCst.mk_le LinCst.mk_ge LinCst.mk_lt LinCst.mk_gt LinCst.mk_eq LinCst.mk_ne
  LinSys.sys_add LinSys.sys_add_sys LinSys.sys_plus LinSys.sys_of_list LinSys.sys_is_false
  LinSys.sys_is_true LinSys.sys_size LinSys.normalize.
