(* Extraction of the liveness / assertion crawler / DCE / simplify models.  Only ExtrOcamlBasic. *)
Require Import Extraction ExtrOcamlBasic.
From Coq Require Import BinNums.
From CrabV Require Import Ir.Syntax Ana.CfgSem Ana.Liveness Ana.Crawler Ana.Dce Ana.Simplify.
Extraction Language OCaml.
Set Extraction KeepSingleton.
Extraction "../ocaml/gen/transforms_model.ml"
  CfgSem.cfg CfgSem.block CfgSem.stmt CfgSem.operand CfgSem.mem CfgSem.uses CfgSem.defs
  Liveness.liveness Liveness.live_get Liveness.dead_exit
  Crawler.crawler Crawler.cin_of Crawler.cdg_of
  Dce.dce Simplify.simplify Simplify.lower Simplify.merge_blocks
  Simplify.remove_unreachable_blocks Simplify.remove_useless_blocks
  BinNums.Z BinNums.N.
