(* Extraction of the scalar models.  Only ExtrOcamlBasic (bool, option, unit, prod, list,
   sumbool mapped to OCaml's types); Z / positive / N stay the extracted inductives. *)
Require Import Extraction ExtrOcamlBasic.
From CrabV Require Import Base.ZInf Scalar.Itv.
Extraction Language OCaml.
Set Extraction KeepSingleton.
Extraction "../ocaml/gen/scalar_model.ml"
  ZInf.bound Itv.itv Itv.ibot Itv.itop Itv.imk Itv.iconst Itv.is_bot Itv.is_top Itv.ieq Itv.ileq
  Itv.ijoin Itv.imeet Itv.iwiden Itv.iwiden_thr Itv.inarrow Itv.iadd Itv.ineg Itv.isub Itv.imul
  Itv.isingleton Itv.imem Itv.ilower_half Itv.iupper_half Itv.idiv Itv.isrem Itv.iurem Itv.iudiv
  Itv.iand Itv.ior Itv.ixor Itv.ishl Itv.iashr Itv.ilshr Itv.itrim Itv.fill_ones.
