(* Extraction of the scalars2 models (congruences, signs, constants, three-valued
   booleans, small ranges, interval x congruence, disjunctive intervals).  Only ExtrOcamlBasic; Z / positive / N
   stay the extracted inductives. *)
Require Import Extraction ExtrOcamlBasic.
From CrabV Require Import Base.ZInf Scalar.Itv Scalar.Congruence Scalar.Sign Scalar.Constant
  Scalar.Boolean Scalar.SmallRange Scalar.ItvCongruence Scalar.DisItv.
Extraction Language OCaml.
Set Extraction KeepSingleton.
Extraction "../ocaml/gen/scalars2_model.ml"
  ZInf.bound Itv.itv Itv.ibot Itv.itop Itv.imk Itv.iconst Itv.is_bot Itv.is_top
  Congruence.cg Congruence.cg_bot Congruence.cg_top Congruence.cg_const Congruence.cg_mk
  Congruence.cg_is_bot Congruence.cg_is_top Congruence.cg_singleton Congruence.cg_eq
  Congruence.cg_leq Congruence.cg_join Congruence.cg_meet Congruence.cg_widen
  Congruence.cg_narrow Congruence.cg_add Congruence.cg_sub Congruence.cg_neg Congruence.cg_mul
  Congruence.cg_div Congruence.cg_rem Congruence.cg_udiv Congruence.cg_urem Congruence.cg_and
  Congruence.cg_or Congruence.cg_xor Congruence.cg_shl Congruence.cg_ashr Congruence.cg_lshr
  Sign.sign Sign.sg_const Sign.sg_is_bot Sign.sg_is_top Sign.sg_from_itv Sign.sg_to_itv
  Sign.sg_eq Sign.sg_leq Sign.sg_join Sign.sg_meet Sign.sg_add Sign.sg_sub Sign.sg_mul
  Sign.sg_div Sign.sg_default Sign.sg_and Sign.sg_or Sign.sg_xor Sign.sg_shift
  Constant.cst Constant.ct_is_bot Constant.ct_is_top Constant.ct_is_const Constant.ct_eq
  Constant.ct_leq Constant.ct_join Constant.ct_meet Constant.ct_widen Constant.ct_narrow
  Constant.ct_add Constant.ct_sub Constant.ct_mul Constant.ct_sdiv Constant.ct_srem
  Constant.ct_udiv Constant.ct_urem Constant.ct_and Constant.ct_or Constant.ct_xor
  Constant.ct_shl Constant.ct_lshr Constant.ct_ashr
  Boolean.bv Boolean.bv_is_bot Boolean.bv_is_top Boolean.bv_is_true Boolean.bv_is_false
  Boolean.bv_eq Boolean.bv_leq Boolean.bv_join Boolean.bv_meet Boolean.bv_widen
  Boolean.bv_narrow Boolean.bv_and Boolean.bv_or Boolean.bv_xor Boolean.bv_negate
  SmallRange.sr SmallRange.sr_is_bot SmallRange.sr_is_top SmallRange.sr_is_zero
  SmallRange.sr_is_one SmallRange.sr_eq SmallRange.sr_incr SmallRange.sr_leq
  SmallRange.sr_join SmallRange.sr_meet SmallRange.sr_widen SmallRange.sr_narrow
  ItvCongruence.ic ItvCongruence.ic_top ItvCongruence.ic_bot ItvCongruence.ic_is_bot
  ItvCongruence.ic_is_top ItvCongruence.ic_reduce ItvCongruence.ic_const
  ItvCongruence.ic_join ItvCongruence.ic_meet ItvCongruence.ic_add ItvCongruence.ic_sub
  ItvCongruence.ic_mul ItvCongruence.ic_div ItvCongruence.ic_udiv ItvCongruence.ic_srem
  ItvCongruence.ic_urem ItvCongruence.ic_and ItvCongruence.ic_or ItvCongruence.ic_xor
  ItvCongruence.ic_shl ItvCongruence.ic_lshr ItvCongruence.ic_ashr ItvCongruence.ic_cast
  DisItv.di DisItv.di_is_bot DisItv.di_is_top DisItv.di_of_list DisItv.di_of_itv DisItv.di_approx
  DisItv.di_singleton DisItv.di_eq DisItv.di_leq DisItv.di_join DisItv.di_meet DisItv.di_narrow
  DisItv.di_widen DisItv.di_add DisItv.di_sub DisItv.di_mul DisItv.di_div DisItv.di_udiv
  DisItv.di_srem DisItv.di_urem DisItv.di_and DisItv.di_or DisItv.di_xor DisItv.di_shl
  DisItv.di_lshr DisItv.di_ashr DisItv.di_neg DisItv.di_lower_half DisItv.di_upper_half
  DisItv.di_trim.
