Require Import Extraction ExtrOcamlBasic.
From CrabV Require Import Base.ZInf Scalar.Itv Ir.Syntax Ir.Cfg Dom.ItvEnv Dom.ItvDomain Fix.Wto Fix.Engine
     Fix.Thresholds Fix.WtoThresholds Ana.Transformer Ana.FwdItv Ana.FwdItvLive Ana.Checker Ana.Backward Ana.BackwardCheck Ana.BwdItv Ana.FwdBwd.
Extraction Language OCaml.
Set Extraction KeepSingleton.
Extraction "../ocaml/gen/fwditv_model.ml"
  ZInf.bound Itv.itv Itv.imk Itv.is_bot Itv.is_top Syntax.linexp Syntax.lincst
  Cfg.stmt ItvEnv.env ItvEnv.e_at ItvEnv.e_is_bot ItvEnv.e_set ItvEnv.e_top ItvDomain.d_add ItvDomain.d_entails
  ItvDomain.operand Wto.build Engine.e_pre Engine.e_post Transformer.tr_stmt Transformer.tr_block
  BwdItv.wto_build BwdItv.p_rev_graph BwdItv.bwd_run BackwardCheck.bwd_inductive_ok Backward.bwd_block Checker.check_block Checker.verdict FwdItv.mkProg FwdItv.p_graph FwdItv.fwd_run FwdItv.fwd_check
  WtoThresholds.wto_thr FwdItvLive.dead_table FwdItvLive.fwd_run_full FwdItvLive.fwd_check_full
  FwdBwd.fb_run FwdBwd.fb_verdicts FwdBwd.fb_analyze BinNums.Z BinNums.N.
