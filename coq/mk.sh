#!/bin/sh
mkdir -p "$(dirname "$0")/../ocaml/gen"
# regenerate _CoqProject and Makefile from the .v files present
cd "$(dirname "$0")"
{ cat _CoqProject.head; find . -name '*.v' | sed 's|^\./||' | sort; } > _CoqProject
coq_makefile -f _CoqProject -o Makefile >/dev/null
