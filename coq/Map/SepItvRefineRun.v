(* SepItvRefineRun.v — any history of environment operations, run on patricia-tree
   environments (L1, Map/SepDomain.v) and on association-list environments (L2,
   Dom/ItvEnv.v), stays in the refinement relation [IR] of Map/SepItvRefine.v; hence every
   observation (lookup, is_bottom, is_top, <=, iteration) is the same at both levels.

   One interpreter, parametric in the record of operations, is instantiated with the two
   implementations: the two runs execute literally the same program.  Programs are lists
   of register operations; values written by [OSet]/[OJoinKv] are arbitrary functions of
   the lookups of the current environment (this is how interval_domain's transfer
   functions use separate_domain: read with at / operator[], write with set / join /
   operator-=), guards are the boolean queries. *)
From Coq Require Import NArith ZArith Bool List Lia.
From CrabV Require Import Base.ZInf Scalar.Itv Ir.Syntax.
From CrabV Require Import Map.Patricia Map.SepDomain Map.SepDomainSound Map.SepItv.
From CrabV Require Import Dom.ItvEnv Dom.ItvEnvSound Dom.ItvEnvWiden Map.SepItvRefine.
From CrabV Require Scalar.ItvSound Scalar.ItvTight Fix.Thresholds Fix.ThresholdsSound.
Import ListNotations.
Local Open Scope N_scope.

(* ------------------------------------------------------------------ the interface *)
Record env_ops (T : Type) : Type := mkOps {
  o_top : T; o_bot : T;
  o_is_bot : T -> bool; o_is_top : T -> bool; o_leq : T -> T -> bool;
  o_at : T -> N -> itv;
  o_set : T -> N -> itv -> T; o_join_kv : T -> N -> itv -> T; o_forget : T -> N -> T;
  o_join : T -> T -> T; o_meet : T -> T -> T; o_widen : T -> T -> T; o_narrow : T -> T -> T;
  o_widen_thr : (bound -> bound) -> (bound -> bound) -> T -> T -> T;
  o_project : T -> list N -> T;
  o_rename : T -> list N -> list N -> T;
  o_bindings : T -> option (list (N * itv))       (* None: iteration over bottom *)
}.
Arguments o_top {T}. Arguments o_bot {T}. Arguments o_is_bot {T}. Arguments o_is_top {T}.
Arguments o_leq {T}. Arguments o_at {T}. Arguments o_set {T}. Arguments o_join_kv {T}.
Arguments o_forget {T}. Arguments o_join {T}. Arguments o_meet {T}. Arguments o_widen {T}.
Arguments o_narrow {T}. Arguments o_widen_thr {T}. Arguments o_project {T}.
Arguments o_rename {T}. Arguments o_bindings {T}.

(* L1: separate_domain over patricia trees.  rename returns its argument where the C++
   raises CRAB_ERROR (vectors of different lengths); programs accepted by [op_ok] never
   reach that case. *)
Definition tree_ops : env_ops ienv :=
  mkOps ienv ie_top ie_bottom s_is_bottom s_is_top ie_leq ie_at ie_set ie_join_kv ie_forget
        ie_join ie_meet ie_widen ie_narrow
        (fun gp gn => s_lub itv is_top ieq (iwiden_thr gp gn))
        ie_project
        (fun s from to => match ie_rename s from to with Some r => r | None => s end)
        s_elements.

(* L2: the total-map model under Dom/ItvDomain.v *)
Definition list_ops : env_ops env :=
  mkOps env e_top EBot e_is_bot e_is_top e_leq e_at e_set e_join_key e_forget
        e_join e_meet e_widen e_narrow e_widen_thr e_project e_rename
        (fun e => match e with EBot => None | EMap m => Some (bindings m) end).

(* ------------------------------------------------------------------ programs *)
Definition reg := nat.
Bind Scope nat_scope with reg.

Inductive query :=
| QIsBot (r : reg) | QIsTop (r : reg) | QLeq (r s : reg)
| QRead (r : reg) (P : (N -> itv) -> bool).        (* any test on the lookups of r *)

Inductive eop :=
| OTop (r : reg) | OBot (r : reg) | OCopy (r s : reg)
| OSet (r : reg) (k : N) (F : (N -> itv) -> itv)     (* r.set(k, F(r.at))  *)
| OJoinKv (r : reg) (k : N) (F : (N -> itv) -> itv)  (* r.join(k, F(r.at)) *)
| OForget (r : reg) (k : N)
| OJoin (r s t : reg) | OMeet (r s t : reg) | OWiden (r s t : reg) | ONarrow (r s t : reg)
| OWidenThr (r s t : reg) (gp gn : bound -> bound)
| OProject (r : reg) (vs : list N)
| ORename (r : reg) (from to : list N)
| OWhen (q : query) (b : bool) (o : eop).            (* if (q == b) o *)

Section Machine.
Context {T : Type} (M : env_ops T).

Definition rget (rs : list T) (r : reg) : T := nth r rs (o_top M).
Fixpoint rset (rs : list T) (r : reg) (v : T) : list T :=
  match rs, r with
  | [], _ => []
  | _ :: t, O => v :: t
  | h :: t, S r' => h :: rset t r' v
  end.

Definition eval_query (rs : list T) (q : query) : bool :=
  match q with
  | QIsBot r => o_is_bot M (rget rs r)
  | QIsTop r => o_is_top M (rget rs r)
  | QLeq r s => o_leq M (rget rs r) (rget rs s)
  | QRead r P => P (o_at M (rget rs r))
  end.

Fixpoint step (rs : list T) (o : eop) : list T :=
  match o with
  | OTop r => rset rs r (o_top M)
  | OBot r => rset rs r (o_bot M)
  | OCopy r s => rset rs r (rget rs s)
  | OSet r k F => rset rs r (o_set M (rget rs r) k (F (o_at M (rget rs r))))
  | OJoinKv r k F => rset rs r (o_join_kv M (rget rs r) k (F (o_at M (rget rs r))))
  | OForget r k => rset rs r (o_forget M (rget rs r) k)
  | OJoin r s t => rset rs r (o_join M (rget rs s) (rget rs t))
  | OMeet r s t => rset rs r (o_meet M (rget rs s) (rget rs t))
  | OWiden r s t => rset rs r (o_widen M (rget rs s) (rget rs t))
  | ONarrow r s t => rset rs r (o_narrow M (rget rs s) (rget rs t))
  | OWidenThr r s t gp gn => rset rs r (o_widen_thr M gp gn (rget rs s) (rget rs t))
  | OProject r vs => rset rs r (o_project M (rget rs r) vs)
  | ORename r from to => rset rs r (o_rename M (rget rs r) from to)
  | OWhen q b o' => if Bool.eqb (eval_query rs q) b then step rs o' else rs
  end.

Definition run (ops : list eop) (rs : list T) : list T := fold_left step ops rs.
End Machine.

(* ------------------------------------------------------------------ admissible programs *)
(* values computed from lookups: they depend on the lookups only (no functional
   extensionality is assumed), and they do not produce the junk intervals [+oo,_] / [_,-oo]
   from well-formed lookups *)
Definition fun_ok (F : (N -> itv) -> itv) : Prop :=
  (forall f g, (forall k, f k = g k) -> F f = F g) /\
  (forall f, (forall k, ItvSound.wf (f k)) -> iwf (F f)).

Definition pred_ok (P : (N -> itv) -> bool) : Prop :=
  forall f g, (forall k, f k = g k) -> P f = P g.

(* threshold functions move outwards and stay away from the junk infinities *)
Definition thr_ok (gp gn : bound -> bound) : Prop :=
  (forall v, ble (gp v) v = true) /\ (forall v, ble v (gn v) = true) /\
  (forall v, gp v <> PInf) /\ (forall v, gn v <> MInf).

Definition query_ok (q : query) : Prop :=
  match q with QRead _ P => pred_ok P | _ => True end.

Fixpoint op_ok (o : eop) : Prop :=
  match o with
  | OSet _ _ F | OJoinKv _ _ F => fun_ok F
  | OWidenThr _ _ _ gp gn => thr_ok gp gn
  | ORename _ from to => length from = length to
  | OWhen q _ o' => query_ok q /\ op_ok o'
  | _ => True
  end.

(* [op_ok] spelled out *)
Lemma op_ok_unfold o :
  op_ok o <->
  match o with
  | OSet _ _ F | OJoinKv _ _ F =>
      (forall f g, (forall k, f k = g k) -> F f = F g) /\
      (forall f, (forall k, ItvSound.wf (f k)) -> iwf (F f))
  | OWidenThr _ _ _ gp gn =>
      (forall v, ble (gp v) v = true) /\ (forall v, ble v (gn v) = true) /\
      (forall v, gp v <> PInf) /\ (forall v, gn v <> MInf)
  | ORename _ from to => length from = length to
  | OWhen q _ o' =>
      match q with
      | QRead _ P => forall f g, (forall k, f k = g k) -> P f = P g
      | _ => True
      end /\ op_ok o'
  | _ => True
  end.
Proof. destruct o as [| | | | | | | | | | | | |q b o]; try destruct q; exact (conj (fun H => H) (fun H => H)). Qed.

(* the two threshold implementations of the development are admissible *)
Lemma thr_ok_list ts : thr_ok (SepDomain.thr_prev ts) (SepDomain.thr_next ts).
Proof.
  split; [exact (SepItv.thr_prev_le ts)|]. split; [exact (SepItv.thr_next_ge ts)|].
  split; [exact (thr_prev_not_pinf ts)|exact (thr_next_not_minf ts)].
Qed.

(* crab::thresholds (Fix/Thresholds.v), as used by Dom/History.v and the fixpoint engine *)
Lemma thr_ok_crab t :
  ThresholdsSound.wf_thr t -> thr_ok (Thresholds.thr_prev t) (Thresholds.thr_next t).
Proof.
  intros W. split; [intros v; apply ThresholdsSound.thr_prev_le; exact W|].
  split; [intros v; apply ThresholdsSound.thr_next_ge; exact W|].
  split; intros v; [apply crab_thr_not_pinf|apply crab_thr_not_minf]; exact W.
Qed.

(* ------------------------------------------------------------------ simulation *)
Definition RR (rs1 : list ienv) (rs2 : list env) : Prop := Forall2 IR rs1 rs2.

Lemma RR_get rs1 rs2 r : RR rs1 rs2 -> IR (rget tree_ops rs1 r) (rget list_ops rs2 r).
Proof.
  intros H. revert r. induction H as [|a b l1 l2 Hab H IH]; intros r; unfold rget in *.
  - destruct r; exact IR_top.
  - destruct r as [|r]; cbn [nth]; [exact Hab|apply IH].
Qed.

Lemma RR_set rs1 rs2 r s e : RR rs1 rs2 -> IR s e -> RR (rset rs1 r s) (rset rs2 r e).
Proof.
  intros H Hse. revert r. induction H as [|a b l1 l2 Hab H IH]; intros r; cbn [rset].
  - constructor.
  - destruct r as [|r]; constructor; [exact Hse|exact H|exact Hab|exact (IH r)].
Qed.

Lemma IR_wf_at s e k : IR s e -> ItvSound.wf (ie_at s k).
Proof.
  intros H. destruct (sbot s) eqn:Hb.
  - rewrite (ie_at_bot s k Hb). apply ItvSound.wf_bot.
  - apply iwf_nonbot_wf; [apply ie_at_wf; [exact (IR_ok _ _ H)|exact Hb]|].
    exact (at_not_bot itv itop ibot is_top is_bot iwf eq_refl s k (IR_ok _ _ H) Hb).
Qed.

Lemma IR_fun s e F : IR s e -> fun_ok F -> F (ie_at s) = F (e_at e) /\ iwf (F (ie_at s)).
Proof.
  intros H [Ext Wf]. split.
  - apply Ext. intros k. apply (IR_at _ _ k H).
  - apply Wf. intros k. exact (IR_wf_at s e k H).
Qed.

Lemma sim_query q rs1 rs2 :
  query_ok q -> RR rs1 rs2 -> eval_query tree_ops rs1 q = eval_query list_ops rs2 q.
Proof.
  intros Q H. destruct q as [r|r|r s|r P]; cbn [eval_query tree_ops list_ops o_is_bot o_is_top o_leq o_at].
  - apply IR_is_bottom. apply RR_get; exact H.
  - apply IR_is_top. apply RR_get; exact H.
  - apply IR_leq; apply RR_get; exact H.
  - apply Q. intros k. apply IR_at. apply RR_get; exact H.
Qed.

Theorem sim_step o : op_ok o -> forall rs1 rs2,
  RR rs1 rs2 -> RR (step tree_ops rs1 o) (step list_ops rs2 o).
Proof.
  induction o as [r|r|r s|r k F|r k F|r k|r s t|r s t|r s t|r s t|r s t gp gn|r vs|r from to|q b o IH];
    intros Ok rs1 rs2 H; cbn [op_ok] in Ok;
    cbn [step tree_ops list_ops o_top o_bot o_at o_set o_join_kv o_forget o_join o_meet o_widen
         o_narrow o_widen_thr o_project o_rename].
  - apply RR_set; [exact H|exact IR_top].
  - apply RR_set; [exact H|exact IR_bottom].
  - apply RR_set; [exact H|apply RR_get; exact H].
  - apply RR_set; [exact H|]. pose proof (RR_get _ _ r H) as G.
    destruct (IR_fun _ _ F G Ok) as [E W]. rewrite <- E. apply IR_set; assumption.
  - apply RR_set; [exact H|]. pose proof (RR_get _ _ r H) as G.
    destruct (IR_fun _ _ F G Ok) as [E W]. rewrite <- E. apply IR_join_kv; assumption.
  - apply RR_set; [exact H|]. apply IR_forget. apply RR_get; exact H.
  - apply RR_set; [exact H|]. apply IR_join; apply RR_get; exact H.
  - apply RR_set; [exact H|]. apply IR_meet; apply RR_get; exact H.
  - apply RR_set; [exact H|]. apply IR_widen; apply RR_get; exact H.
  - apply RR_set; [exact H|]. apply IR_narrow; apply RR_get; exact H.
  - apply RR_set; [exact H|]. destruct Ok as (H1 & H2 & H3 & H4).
    apply IR_widen_thr; try assumption; apply RR_get; exact H.
  - apply RR_set; [exact H|]. apply IR_project. apply RR_get; exact H.
  - apply RR_set; [exact H|].
    destruct (IR_rename _ _ from to (RR_get _ _ r H) Ok) as (x & E & G). rewrite E. exact G.
  - destruct Ok as [Q Ok]. rewrite (sim_query q rs1 rs2 Q H).
    destruct (Bool.eqb (eval_query list_ops rs2 q) b); [apply IH; assumption|exact H].
Qed.

Theorem sim_run ops : Forall op_ok ops -> forall rs1 rs2,
  RR rs1 rs2 -> RR (run tree_ops ops rs1) (run list_ops ops rs2).
Proof.
  induction 1 as [|o ops Ok _ IH]; intros rs1 rs2 H; cbn [run fold_left]; [exact H|].
  apply IH. apply sim_step; assumption.
Qed.

Lemma RR_top n : RR (repeat ie_top n) (repeat e_top n).
Proof. induction n; cbn [repeat]; constructor; [exact IR_top|assumption]. Qed.

(* ------------------------------------------------------------------ observations *)
Definition same_obs (rs1 : list ienv) (rs2 : list env) : Prop :=
  forall r,
    let s := rget tree_ops rs1 r in
    let e := rget list_ops rs2 r in
    (forall k, ie_at s k = e_at e k) /\
    s_is_bottom s = e_is_bot e /\
    s_is_top s = e_is_top e /\
    o_bindings tree_ops s = o_bindings list_ops e /\
    (forall r', ie_leq s (rget tree_ops rs1 r') = e_leq e (rget list_ops rs2 r')).

Lemma RR_same_obs rs1 rs2 : RR rs1 rs2 -> same_obs rs1 rs2.
Proof.
  intros H r. pose proof (RR_get _ _ r H) as G. cbv zeta.
  split; [intros k; apply IR_at; exact G|].
  split; [apply IR_is_bottom; exact G|].
  split; [apply IR_is_top; exact G|].
  split.
  - cbn [o_bindings tree_ops list_ops]. destruct (rget list_ops rs2 r) as [|m] eqn:E.
    + apply IR_bindings_bot. exact G.
    + apply IR_bindings. exact G.
  - intros r'. apply IR_leq; [exact G|apply RR_get; exact H].
Qed.

(* the corollary that matters: after any admissible program started from top, each register
   of the list machine is implemented by the same register of the tree machine, the tree
   satisfies its invariant, and all observations coincide *)
Theorem refine_any_history ops n :
  Forall op_ok ops ->
  let rs1 := run tree_ops ops (repeat ie_top n) in
  let rs2 := run list_ops ops (repeat e_top n) in
  RR rs1 rs2 /\ same_obs rs1 rs2 /\ (forall r, ie_ok (rget tree_ops rs1 r)).
Proof.
  intros Ok. cbv zeta. pose proof (sim_run ops Ok _ _ (RR_top n)) as H.
  split; [exact H|]. split; [apply RR_same_obs; exact H|].
  intros r. exact (IR_ok _ _ (RR_get _ _ r H)).
Qed.

(* ------------------------------------------------------------------ examples *)
(* values read and written by an assignment x := y + 1 *)
Definition F_incr (y : N) : (N -> itv) -> itv := fun f => iadd (f y) (iconst 1).
Definition F_const (v : itv) : (N -> itv) -> itv := fun _ => v.
Definition F_copy (y : N) : (N -> itv) -> itv := fun f => f y.

Lemma fun_ok_incr y : fun_ok (F_incr y).
Proof.
  split.
  - intros f g E. unfold F_incr. rewrite (E y). reflexivity.
  - intros f W. apply wf_iwf. apply ItvTight.wf_iadd; [apply W|apply ItvSound.wf_iconst].
Qed.
Lemma fun_ok_const v : iwf v -> fun_ok (F_const v).
Proof. intros W. split; [reflexivity|intros f _; exact W]. Qed.
Lemma fun_ok_copy y : fun_ok (F_copy y).
Proof.
  split; [intros f g E; apply E|]. intros f W. apply wf_iwf. apply W.
Qed.

Definition ex_i (a b : Z) : itv := mkI (Fin a) (Fin b).
Definition ex_prog : list eop :=
  [ OSet 0 1 (F_const (ex_i 0 10));
    OSet 0 (2 ^ 63) (F_const (mkI (Fin 1) PInf));
    OCopy 1 0;
    OSet 1 1 (F_incr 1);
    OSet 1 5 (F_copy 1);
    OJoin 2 0 1;
    OWiden 2 0 2;
    OWidenThr 3 0 1 (SepDomain.thr_prev [0; 100]%Z) (SepDomain.thr_next [0; 100]%Z);
    OWhen (QLeq 0 2) true (OJoinKv 0 1 (F_const (ex_i 20 30)));
    OWhen (QIsTop 1) true (OBot 3);
    ORename 1 [5; 1] [7; 8];
    OProject 0 [1; 2 ^ 63; 9];
    OMeet 3 3 1;
    ONarrow 2 2 0;
    OForget 2 (2 ^ 63) ].

Lemma ex_prog_ok : Forall op_ok ex_prog.
Proof.
  unfold ex_prog.
  repeat (constructor;
          [cbn [op_ok query_ok];
           first [exact I | reflexivity | apply fun_ok_incr | apply fun_ok_copy
                 | apply thr_ok_list | apply fun_ok_const; split; discriminate
                 | split; [exact I|]; first [exact I | apply fun_ok_const; split; discriminate]]|]).
  constructor.
Qed.

(* what both machines end with (4 registers); computed on the trees and on the lists *)
Example ex_prog_run :
  map (o_bindings tree_ops) (run tree_ops ex_prog (repeat ie_top 4)) =
  map (o_bindings list_ops) (run list_ops ex_prog (repeat e_top 4)) /\
  map (o_bindings list_ops) (run list_ops ex_prog (repeat e_top 4)) =
  [ Some [(1, ex_i 0 30); (2 ^ 63, mkI (Fin 1) PInf)];
    Some [(7, ex_i 1 11); (8, ex_i 1 11); (2 ^ 63, mkI (Fin 1) PInf)];
    Some [(1, ex_i 0 30)];
    Some [(1, ex_i 0 100); (7, ex_i 1 11); (8, ex_i 1 11); (2 ^ 63, mkI (Fin 1) PInf)] ].
Proof. vm_compute. split; reflexivity. Qed.

(* the relation on a concrete pair: a tree with keys 1 and 2^63 = 9223372036854775808 against an association list
   holding the same bindings in another order plus a shadowed stale binding *)
Example ex_pair :
  let s := ie_set (ie_set ie_top 1 (ex_i 0 0)) (9223372036854775808) (mkI (Fin 1) PInf) in
  let e := EMap [(9223372036854775808, mkI (Fin 1) PInf); (1, ex_i 0 0); (9223372036854775808, ex_i 5 6)] in
  IR s e /\ s_elements s = Some (bindings [(9223372036854775808, mkI (Fin 1) PInf); (1, ex_i 0 0); (9223372036854775808, ex_i 5 6)]) /\
  s_size s = Some 2 /\ ie_leq s (ie_forget s 1) = true /\ e_leq e (e_forget e 1) = true.
Proof.
  cbv zeta. split; [|vm_compute; repeat split; reflexivity].
  assert (H : IR (ie_set (ie_set ie_top 1 (ex_i 0 0)) (9223372036854775808) (mkI (Fin 1) PInf))
                 (e_set (e_set e_top 1 (ex_i 0 0)) (9223372036854775808) (mkI (Fin 1) PInf))).
  { apply IR_set; [apply IR_set; [exact IR_top|]|]; split; discriminate. }
  destruct H as (Ok & Hb & A). split; [exact Ok|]. split; [exact Hb|].
  intros k. rewrite (A k). vm_compute e_set. cbn [e_at get].
  destruct (N.eqb 9223372036854775808 k); reflexivity.
Qed.
