(* SepItvTransfer.v — what the refinement of Map/SepItvRefine.v buys: theorems proved on the
   total-map model (Dom/ItvEnv*.v) hold for separate_domain over patricia trees.

   - concretisation: related environments have the same concretisation, so the soundness
     theorems of Dom/ItvEnvSound.v (property C03 at the environment layer) hold for the
     tree operations;
   - termination: the well-founded order of Dom/ItvEnvWiden.v (property C05) pulled back
     along the abstraction function [ie_abs] is strictly decreased by the tree widening
     whenever the tree inclusion test fails, and widening chains of trees become
     stationary with the same explicit bound. *)
From Coq Require Import NArith ZArith Bool List Lia Arith Wellfounded.
From CrabV Require Import Base.ZInf Scalar.Itv Scalar.ItvSound Ir.Syntax.
From CrabV Require Import Map.Patricia Map.SepDomain Map.SepDomainSound Map.SepItv.
From CrabV Require Import Dom.ItvEnv Dom.ItvEnvSound Dom.ItvEnvWiden Map.SepItvRefine.
From CrabV Require Fix.Thresholds Fix.ThresholdsSound.
Import ListNotations.

(* ------------------------------------------------------------------ extensional equality at L2 *)
Definition eqv (e e' : env) : Prop :=
  e_is_bot e = e_is_bot e' /\ forall k, e_at e k = e_at e' k.

Lemma IR_eqv s e e' : IR s e -> IR s e' -> eqv e e'.
Proof.
  intros (_ & B & A) (_ & B' & A'). split; [congruence|]. intros k. rewrite <- A, <- A'. reflexivity.
Qed.

Lemma IR_eqv_r s e e' : IR s e -> eqv e e' -> IR s e'.
Proof.
  intros (Ok & B & A) [B' A']. split; [exact Ok|]. split; [congruence|].
  intros k. rewrite <- A'. apply A.
Qed.

(* ------------------------------------------------------------------ concretisation *)
Definition ie_gamma (s : ienv) (st : store) : Prop :=
  sbot s = false /\ forall k, gamma (ie_at s k) (st k).

Theorem IR_gamma s e st : IR s e -> (ie_gamma s st <-> genv e st).
Proof.
  intros H. destruct (IR_inv s e H) as [(Hb & ->)|(Hb & m & -> & A)]; cbn [genv].
  - split; [intros [X _]; congruence|intros []].
  - split.
    + intros [_ G] k. rewrite <- A. apply G.
    + intros G. split; [exact Hb|]. intros k. rewrite A. apply G.
Qed.

(* soundness of the tree operations, obtained from the list-level theorems *)
Theorem ie_join_sound a b st :
  ie_ok a -> ie_ok b -> ie_gamma a st \/ ie_gamma b st -> ie_gamma (ie_join a b) st.
Proof.
  intros Oa Ob G. pose proof (IR_abs a Oa) as Ha. pose proof (IR_abs b Ob) as Hb.
  apply (IR_gamma _ _ st (IR_join _ _ _ _ Ha Hb)). apply e_join_sound.
  destruct G as [G|G]; [left; apply (IR_gamma _ _ st Ha)|right; apply (IR_gamma _ _ st Hb)]; exact G.
Qed.

Theorem ie_widen_sound a b st :
  ie_ok a -> ie_ok b -> ie_gamma a st \/ ie_gamma b st -> ie_gamma (ie_widen a b) st.
Proof.
  intros Oa Ob G. pose proof (IR_abs a Oa) as Ha. pose proof (IR_abs b Ob) as Hb.
  apply (IR_gamma _ _ st (IR_widen _ _ _ _ Ha Hb)). apply e_widen_sound.
  destruct G as [G|G]; [left; apply (IR_gamma _ _ st Ha)|right; apply (IR_gamma _ _ st Hb)]; exact G.
Qed.

Theorem ie_meet_sound a b st :
  ie_ok a -> ie_ok b -> ie_gamma a st -> ie_gamma b st -> ie_gamma (ie_meet a b) st.
Proof.
  intros Oa Ob Ga Gb. pose proof (IR_abs a Oa) as Ha. pose proof (IR_abs b Ob) as Hb.
  apply (IR_gamma _ _ st (IR_meet _ _ _ _ Ha Hb)).
  apply e_meet_sound; [apply (IR_gamma _ _ st Ha)|apply (IR_gamma _ _ st Hb)]; assumption.
Qed.

Theorem ie_narrow_sound a b st :
  ie_ok a -> ie_ok b -> ie_gamma a st -> ie_gamma b st -> ie_gamma (ie_narrow a b) st.
Proof.
  intros Oa Ob Ga Gb. pose proof (IR_abs a Oa) as Ha. pose proof (IR_abs b Ob) as Hb.
  apply (IR_gamma _ _ st (IR_narrow _ _ _ _ Ha Hb)).
  apply e_narrow_sound; [apply (IR_gamma _ _ st Ha)|apply (IR_gamma _ _ st Hb)]; assumption.
Qed.

Theorem ie_set_sound a st x v z :
  ie_ok a -> iwf v -> ie_gamma a st -> gamma v z -> ie_gamma (ie_set a x v) (upd st x z).
Proof.
  intros Oa W Ga Gv. pose proof (IR_abs a Oa) as Ha.
  apply (IR_gamma _ _ _ (IR_set _ _ x v Ha W)).
  apply e_set_sound; [apply (IR_gamma _ _ st Ha); exact Ga|exact Gv].
Qed.

Theorem ie_forget_sound a st x z :
  ie_ok a -> ie_gamma a st -> ie_gamma (ie_forget a x) (upd st x z).
Proof.
  intros Oa Ga. pose proof (IR_abs a Oa) as Ha.
  apply (IR_gamma _ _ _ (IR_forget _ _ x Ha)).
  apply e_forget_sound. apply (IR_gamma _ _ st Ha). exact Ga.
Qed.

Theorem ie_leq_sound a b st :
  ie_ok a -> ie_ok b -> ie_leq a b = true -> ie_gamma a st -> ie_gamma b st.
Proof.
  intros Oa Ob L Ga. pose proof (IR_abs a Oa) as Ha. pose proof (IR_abs b Ob) as Hb.
  apply (IR_gamma _ _ st Hb). apply (e_leq_sound (ie_abs a)).
  - rewrite <- (IR_leq _ _ _ _ Ha Hb). exact L.
  - apply (IR_gamma _ _ st Ha). exact Ga.
Qed.

(* ------------------------------------------------------------------ the widening order on trees *)
Section Measure.
Variable bc : itv -> nat.
Hypothesis bc_top : bc itop = 0.

Lemma mmeasure_eqv x y : (forall k, get x k = get y k) -> mmeasure bc x = mmeasure bc y.
Proof.
  intros E. apply Nat.le_antisymm; apply (mmeasure_le bc bc_top); intros k; rewrite (E k); lia.
Qed.

Lemma env_lt_eqv b b' a a' : eqv b b' -> eqv a a' -> env_lt bc b a -> env_lt bc b' a'.
Proof.
  intros [Bb Ab] [Ba Aa].
  destruct a as [|x], a' as [|x'], b as [|y], b' as [|y']; cbn [e_is_bot] in Ba, Bb;
    try discriminate; cbn [env_lt]; auto.
  cbn [e_at] in Aa, Ab. rewrite (mmeasure_eqv x x' Aa), (mmeasure_eqv y y' Ab). auto.
Qed.
End Measure.

Definition ie_lt (b a : ienv) : Prop := e_lt (ie_abs b) (ie_abs a).

Theorem ie_lt_wf : well_founded ie_lt.
Proof. exact (wf_inverse_image ienv env e_lt ie_abs e_lt_wf). Qed.

(* property C05 on the tree representation: a widening step asked for by the inclusion test
   moves strictly down a well-founded order *)
Theorem ie_widen_progress a b :
  ie_ok a -> ie_ok b -> ie_leq b a = false -> ie_lt (ie_widen a b) a.
Proof.
  intros Oa Ob L. pose proof (IR_abs a Oa) as Ha. pose proof (IR_abs b Ob) as Hb.
  pose proof (IR_widen _ _ _ _ Ha Hb) as Hw.
  pose proof (IR_abs _ (IR_ok _ _ Hw)) as Hw'.
  unfold ie_lt, e_lt.
  apply (env_lt_eqv bcount eq_refl (e_widen (ie_abs a) (ie_abs b)) _ (ie_abs a) (ie_abs a)).
  - exact (IR_eqv _ _ _ Hw Hw').
  - split; reflexivity.
  - apply e_widen_progress; [exact (IR_env_ok _ _ Ha)|exact (IR_env_ok _ _ Hb)|].
    rewrite <- (IR_leq _ _ _ _ Hb Ha). exact L.
Qed.

(* the same with crab::thresholds (Fix/Thresholds.v) *)
Definition ie_lt_thr (t : Thresholds.thr) (b a : ienv) : Prop := e_lt_thr t (ie_abs b) (ie_abs a).

Theorem ie_lt_thr_wf t : well_founded (ie_lt_thr t).
Proof. exact (wf_inverse_image ienv env (e_lt_thr t) ie_abs (e_lt_thr_wf t)). Qed.

Theorem ie_widen_thr_progress t a b :
  ThresholdsSound.wf_thr t -> ie_ok a -> ie_ok b -> ie_leq b a = false ->
  ie_lt_thr t (ie_widen_crab_thr t a b) a.
Proof.
  intros W Oa Ob L. pose proof (IR_abs a Oa) as Ha. pose proof (IR_abs b Ob) as Hb.
  pose proof (IR_widen_crab_thr t _ _ _ _ W Ha Hb) as Hw.
  pose proof (IR_abs _ (IR_ok _ _ Hw)) as Hw'.
  unfold ie_lt_thr, e_lt_thr.
  apply (env_lt_eqv (tcount t) (tcount_top t)
           (e_widen_thr (Thresholds.thr_prev t) (Thresholds.thr_next t) (ie_abs a) (ie_abs b)) _
           (ie_abs a) (ie_abs a)).
  - exact (IR_eqv _ _ _ Hw Hw').
  - split; reflexivity.
  - apply (e_widen_thr_progress t W); [exact (IR_env_ok _ _ Ha)|exact (IR_env_ok _ _ Hb)|].
    rewrite <- (IR_leq _ _ _ _ Hb Ha). exact L.
Qed.

(* ------------------------------------------------------------------ widening chains of trees *)
Section Chain.
Variable x0 : ienv.
Variable ys : nat -> ienv.
Hypothesis x0_ok : ie_ok x0.
Hypothesis ys_ok : forall i, ie_ok (ys i).

Fixpoint iechain (i : nat) : ienv :=
  match i with O => x0 | S j => ie_widen (iechain j) (ys j) end.
Definition ie_nonstationary (i : nat) : bool := negb (ie_leq (iechain (S i)) (iechain i)).
Definition ie_refused (i : nat) : bool := negb (ie_leq (ys i) (iechain i)).

Let x0' := ie_abs x0.
Let ys' := fun i => ie_abs (ys i).

Lemma IR_chain i : IR (iechain i) (ewchain x0' ys' i).
Proof.
  induction i as [|i IH]; [exact (IR_abs x0 x0_ok)|].
  change (ewchain x0' ys' (S i)) with (e_widen (ewchain x0' ys' i) (ys' i)).
  cbn [iechain]. apply IR_widen; [exact IH|exact (IR_abs _ (ys_ok i))].
Qed.

Lemma iechain_ok i : ie_ok (iechain i).
Proof. exact (IR_ok _ _ (IR_chain i)). Qed.

Lemma ie_nonstationary_eq i : ie_nonstationary i = ew_nonstationary x0' ys' i.
Proof.
  unfold ie_nonstationary, ew_nonstationary, enonstationary. f_equal.
  exact (IR_leq _ _ _ _ (IR_chain (S i)) (IR_chain i)).
Qed.

Lemma ie_refused_eq i : ie_refused i = ew_refused x0' ys' i.
Proof.
  unfold ie_refused, ew_refused, erefused. f_equal.
  exact (IR_leq _ _ _ _ (IR_abs _ (ys_ok i)) (IR_chain i)).
Qed.

(* number of bounds of the stored intervals that are not already infinite *)
Definition ie_measure (s : ienv) : nat := emeasure (pelements (stree s)).

Lemma chain_first_map j :
  sbot (iechain j) = false ->
  exists m, ewchain x0' ys' j = EMap m /\ emeasure m = ie_measure (iechain j).
Proof.
  intros Hb. pose proof (IR_chain j) as H.
  destruct (IR_inv _ _ H) as [(X & _)|(_ & m & E & A)]; [congruence|].
  exists m. split; [exact E|]. unfold emeasure, ie_measure. apply (mmeasure_eqv bcount eq_refl).
  intros k. rewrite <- A.
  pose proof (IR_abs _ (iechain_ok j)) as H'. unfold ie_abs in H'. rewrite Hb in H'.
  exact (IR_at _ _ k H').
Qed.

Lemma chain_bot_prefix j :
  (forall i, i < j -> sbot (iechain i) = true) -> forall i, i < j -> ewchain x0' ys' i = EBot.
Proof.
  intros B i L. apply e_is_bot_true. rewrite <- (IR_bot _ _ (IR_chain i)). apply B. exact L.
Qed.

(* widening chains of tree environments become stationary: at most 1 + (measure of the
   first non-bottom iterate) steps change the iterate, for any sequence of arguments *)
Theorem ie_widen_chain_stabilises j :
  sbot (iechain j) = false -> (forall i, i < j -> sbot (iechain i) = true) ->
  forall n, length (filter ie_nonstationary (seq 0 n)) <= 1 + ie_measure (iechain j).
Proof.
  intros Hb B n. destruct (chain_first_map j Hb) as (m & E & M). rewrite <- M.
  rewrite (filter_ext _ _ ie_nonstationary_eq).
  apply (e_widen_chain_stabilises x0' ys') with (j := j);
    [exact (IR_env_ok _ _ (IR_abs x0 x0_ok))| |exact E|].
  - intros i. exact (IR_env_ok _ _ (IR_abs _ (ys_ok i))).
  - apply chain_bot_prefix. exact B.
Qed.

(* ... and the inclusion test of the fixpoint engine fails at most that many times *)
Theorem ie_widen_chain_refusals j :
  sbot (iechain j) = false -> (forall i, i < j -> sbot (iechain i) = true) ->
  forall n, length (filter ie_refused (seq 0 n)) <= 1 + ie_measure (iechain j).
Proof.
  intros Hb B n. destruct (chain_first_map j Hb) as (m & E & M). rewrite <- M.
  rewrite (filter_ext _ _ ie_refused_eq).
  apply (e_widen_chain_refusals x0' ys') with (j := j);
    [exact (IR_env_ok _ _ (IR_abs x0 x0_ok))| |exact E|].
  - intros i. exact (IR_env_ok _ _ (IR_abs _ (ys_ok i))).
  - apply chain_bot_prefix. exact B.
Qed.
End Chain.

(* non-vacuity: a chain of trees that needs two widening steps *)
Example ie_chain_example :
  let i01 := mkI (Fin 0) (Fin 1) in
  let x0 := ie_set ie_top 1%N (mkI (Fin 0) (Fin 0)) in
  let ys := fun i : nat => ie_set ie_top 1%N (mkI (Fin (- Z.of_nat i)) (Fin 1)) in
  sbot x0 = false /\ ie_measure x0 = 2 /\
  map (ie_nonstationary x0 ys) (seq 0 4) = [true; true; false; false] /\
  s_elements (iechain x0 ys 4) = Some [].
Proof. vm_compute. repeat split. Qed.
