(* PatriciaSpec.v — proofs about the patricia tree model (Map/Patricia.v):
   well-formedness (prefix / branching-bit discipline) is preserved by every operation,
   and every operation is characterised through [get], the finite map denoted by a tree
   ([lookup] = [get] on well-formed trees). *)
From Coq Require Import NArith Bool List Lia Sorting.Sorted.
From CrabV Require Import Map.Patricia Map.PatriciaBits.
Import ListNotations.
Local Open Scope N_scope.

Section Spec.
Variable V : Type.
Variable veq : V -> V -> bool.

(* stored values satisfy [Vok]; ValueEqual decides equality with a stored value *)
Variable Vok : V -> Prop.
Hypothesis veq_ok : forall x y, Vok x -> veq y x = true -> y = x.

Notation tree := (Patricia.tree V).
Notation ptree := (Patricia.ptree V).

(* level: a leaf covers one key, a node with branching bit 2^b covers 2^(b+1) keys *)
Definition lvl (t : tree) : N :=
  match t with Leaf _ _ => 0 | Node _ m _ _ => N.log2 m + 1 end.

(* t lies in the aligned range { k | agree c k q } *)
Definition fits (c q : N) (t : tree) : Prop := lvl t <= c /\ agree c (prefix t) q.
Definition pfits (c q : N) (t : ptree) : Prop :=
  match t with None => True | Some t' => fits c q t' end.

Fixpoint wf (t : tree) : Prop :=
  match t with
  | Leaf _ _ => True
  | Node p m l r =>
    m = 2 ^ N.log2 m /\ canon p (N.log2 m) /\
    fits (N.log2 m) p l /\ fits (N.log2 m) (N.lor p m) r /\ wf l /\ wf r
  end.
Definition wfp (t : ptree) : Prop := match t with None => True | Some t' => wf t' end.

Definition ounion (a b : option V) : option V := match a with Some _ => a | None => b end.

(* the finite map denoted by a tree *)
Fixpoint get (t : tree) (k : N) : option V :=
  match t with
  | Leaf k' v => if k' =? k then Some v else None
  | Node _ _ l r => ounion (get l k) (get r k)
  end.
Definition pget (t : ptree) (k : N) : option V :=
  match t with None => None | Some t' => get t' k end.

Definition all_ok (t : tree) : Prop := forall k v, get t k = Some v -> Vok v.
Definition pall_ok (t : ptree) : Prop := forall k v, pget t k = Some v -> Vok v.

Lemma ounion_none_r a : ounion a None = a.
Proof. destruct a; reflexivity. Qed.

Lemma get_node p m l r k : get (Node p m l r) k = ounion (get l k) (get r k).
Proof. reflexivity. Qed.

Lemma fits_mono c c' q q' t : fits c q t -> c <= c' -> agree c' q q' -> fits c' q' t.
Proof.
  intros [H1 H2] Hc Hq. split; [lia|].
  eapply agree_trans; [eapply agree_mono; [exact Hc|exact H2]|exact Hq].
Qed.

Lemma pfits_mono c c' q q' t : pfits c q t -> c <= c' -> agree c' q q' -> pfits c' q' t.
Proof. destruct t; simpl; [apply fits_mono|auto]. Qed.

(* keys bound in a tree lie in its range *)
Lemma get_range t : forall k v, wf t -> get t k = Some v -> agree (lvl t) k (prefix t).
Proof.
  induction t as [k' v'|p m l IHl r IHr]; intros k v Hwf Hg.
  - simpl in *. destruct (N.eqb_spec k' k); [subst; apply agree_refl|discriminate].
  - simpl in Hwf. destruct Hwf as (Hm & Hc & Fl & Fr & Wl & Wr).
    simpl in Hg. simpl lvl. simpl prefix.
    destruct (get l k) as [vl|] eqn:El.
    + pose proof (IHl k vl Wl El) as A. destruct Fl as [L1 L2].
      apply agree_mono with (N.log2 m); [lia|].
      eapply agree_trans; [eapply agree_mono; [exact L1|exact A]|exact L2].
    + pose proof (IHr k v Wr Hg) as A. destruct Fr as [R1 R2].
      assert (B : agree (N.log2 m) k (N.lor p m)).
      { eapply agree_trans; [eapply agree_mono; [exact R1|exact A]|exact R2]. }
      rewrite Hm in B at 2. apply agree_right in B. apply B.
Qed.

Lemma get_fits c q t k v : wf t -> fits c q t -> get t k = Some v -> agree c k q.
Proof.
  intros Hwf [F1 F2] Hg.
  eapply agree_trans; [eapply agree_mono; [exact F1|eapply get_range; eauto]|exact F2].
Qed.

Lemma get_out t k : wf t -> ~ agree (lvl t) k (prefix t) -> get t k = None.
Proof.
  intros Hwf Hn. destruct (get t k) eqn:E; [|reflexivity].
  exfalso; apply Hn; eapply get_range; eauto.
Qed.

(* in a node, the branching bit of the key tells the side *)
Lemma node_side p m l r k :
  wf (Node p m l r) ->
  (N.testbit k (N.log2 m) = false -> get r k = None) /\
  (N.testbit k (N.log2 m) = true -> get l k = None).
Proof.
  intros (Hm & Hc & Fl & Fr & Wl & Wr). split; intros Hb.
  - destruct (get r k) eqn:E; [|reflexivity]. exfalso.
    pose proof (get_fits _ _ _ _ _ Wr Fr E) as A. rewrite Hm in A at 2.
    apply agree_right in A. destruct A as [_ A]. congruence.
  - destruct (get l k) eqn:E; [|reflexivity]. exfalso.
    pose proof (get_fits _ _ _ _ _ Wl Fl E) as A.
    apply (agree_left _ _ _ Hc) in A. destruct A as [_ A]. congruence.
Qed.

Lemma node_disjoint p m l r k :
  wf (Node p m l r) -> get l k = None \/ get r k = None.
Proof.
  intros Hwf. destruct (node_side p m l r k Hwf) as [H1 H2].
  destruct (N.testbit k (N.log2 m)); [left|right]; auto.
Qed.

Lemma ounion_comm_node p m l r k :
  wf (Node p m l r) -> ounion (get l k) (get r k) = ounion (get r k) (get l k).
Proof.
  intros Hwf. destruct (node_disjoint p m l r k Hwf) as [H|H]; rewrite H;
    simpl; rewrite ?ounion_none_r; reflexivity.
Qed.

Lemma node_range p m l r k v :
  wf (Node p m l r) -> get (Node p m l r) k = Some v -> agree (N.log2 m + 1) k p.
Proof. intros Hwf Hg. exact (get_range _ _ _ Hwf Hg). Qed.

(* node::lookup (comparison with the prefix) finds exactly the bindings *)
Theorem lookup_get t : forall k, wf t -> lookup t k = get t k.
Proof.
  induction t as [k' v'|p m l IHl r IHr]; intros k Hwf; [reflexivity|].
  pose proof Hwf as (Hm & Hc & Fl & Fr & Wl & Wr).
  simpl. rewrite IHl, IHr by assumption.
  destruct (get l k) as [vl|] eqn:El.
  - pose proof (get_fits _ _ _ _ _ Wl Fl El) as A.
    apply (agree_left _ _ _ Hc) in A. destruct A as [A1 A2].
    destruct (range_order k p _ Hc A1) as [O _]. specialize (O A2).
    destruct (N.leb_spec k p); [reflexivity|lia].
  - destruct (get r k) as [vr|] eqn:Er.
    + pose proof (get_fits _ _ _ _ _ Wr Fr Er) as A. rewrite Hm in A at 2.
      apply agree_right in A. destruct A as [A1 A2].
      destruct (range_order k p _ Hc A1) as [_ O]. specialize (O A2).
      destruct (N.leb_spec k p); [lia|reflexivity].
    + destruct (k <=? p); reflexivity.
Qed.

Lemma plookup_pget t k : wfp t -> plookup t k = pget t k.
Proof. destruct t; simpl; [apply lookup_get|reflexivity]. Qed.

(* every tree binds a key *)
Lemma get_inhabited t : exists k v, get t k = Some v.
Proof.
  induction t as [k v|p m l [k [v H]] r _].
  - exists k, v. simpl. rewrite N.eqb_refl. reflexivity.
  - exists k, v. simpl. rewrite H. reflexivity.
Qed.

(* a node binds at least two keys *)
Lemma node_two_keys p m l r :
  wf (Node p m l r) -> forall k0, exists k v, k <> k0 /\ get (Node p m l r) k = Some v.
Proof.
  intros Hwf k0. destruct (get_inhabited l) as [kl [vl Hl]].
  destruct (get_inhabited r) as [kr [vr Hr]].
  destruct (node_side p m l r kl Hwf) as [S1 S2].
  destruct (node_side p m l r kr Hwf) as [S3 S4].
  assert (kl <> kr).
  { intros ->. destruct (N.testbit kr (N.log2 m)); [rewrite S4 in Hl|rewrite S3 in Hr];
      auto; discriminate. }
  destruct (N.eq_dec kl k0) as [->|Hne].
  - exists kr, vr. split; [congruence|]. simpl.
    destruct (get l kr) eqn:E; [|exact Hr].
    destruct (node_disjoint p m l r kr Hwf); congruence.
  - exists kl, vl. split; [exact Hne|]. simpl. rewrite Hl. reflexivity.
Qed.

(* ---------------------------------------------------------------- make_node *)

Lemma pget_make_node p m l r k :
  pget (make_node p m l r) k = ounion (pget l k) (pget r k).
Proof. destruct l, r; simpl; rewrite ?ounion_none_r; reflexivity. Qed.

Lemma wf_make_node p m l r :
  m = 2 ^ N.log2 m -> canon p (N.log2 m) ->
  pfits (N.log2 m) p l -> pfits (N.log2 m) (N.lor p m) r -> wfp l -> wfp r ->
  wfp (make_node p m l r).
Proof.
  intros Hm Hc Fl Fr Wl Wr. destruct l, r; simpl in *; auto.
  repeat split; auto; try apply Fl; try apply Fr.
Qed.

Lemma agree_lor_pow2 p b : agree (b + 1) (N.lor p (2 ^ b)) p.
Proof.
  intros i Hi. rewrite lor_pow2_bits. destruct (N.eqb_spec b i); [lia|]. apply orb_false_r.
Qed.

Lemma fits_make_node p m l r c q :
  m = 2 ^ N.log2 m ->
  pfits (N.log2 m) p l -> pfits (N.log2 m) (N.lor p m) r ->
  N.log2 m < c -> agree c p q -> pfits c q (make_node p m l r).
Proof.
  intros Hm Fl Fr Hc Hq. destruct l as [l|], r as [r|]; simpl in *; auto.
  - split; [simpl; lia|exact Hq].
  - eapply fits_mono; [exact Fl|lia|exact Hq].
  - eapply fits_mono; [exact Fr|lia|].
    eapply agree_trans; [|exact Hq]. rewrite Hm at 1.
    eapply agree_mono; [|apply agree_lor_pow2]. lia.
Qed.

(* ---------------------------------------------------------------- join *)

Lemma width_pow t : wf t -> N.max 1 (2 * bbit t) = 2 ^ lvl t.
Proof.
  destruct t as [k v|p m l r]; [reflexivity|]. intros (Hm & _). cbn [bbit lvl].
  assert (m <> 0) by (rewrite Hm; apply N.pow_nonzero; lia).
  rewrite N.add_1_r, N.pow_succ_r', <- Hm. lia.
Qed.

Lemma threshold_pow t0 t1 :
  wf t0 -> wf t1 ->
  N.max 1 (2 * N.max (bbit t0) (bbit t1)) = 2 ^ N.max (lvl t0) (lvl t1).
Proof.
  intros W0 W1. pose proof (width_pow t0 W0) as E0. pose proof (width_pow t1 W1) as E1.
  replace (N.max 1 (2 * N.max (bbit t0) (bbit t1)))
    with (N.max (N.max 1 (2 * bbit t0)) (N.max 1 (2 * bbit t1))) by lia.
  rewrite E0, E1.
  destruct (N.le_ge_cases (lvl t0) (lvl t1)) as [L|L].
  - rewrite (N.max_r _ _ L). apply N.max_r. apply N.pow_le_mono_r; [lia|exact L].
  - rewrite (N.max_l _ _ L). apply N.max_l. apply N.pow_le_mono_r; [lia|exact L].
Qed.

Lemma join_spec t0 t1 :
  wf t0 -> wf t1 -> ~ agree (N.max (lvl t0) (lvl t1)) (prefix t0) (prefix t1) ->
  wf (join t0 t1) /\
  (forall c q, fits c q t0 -> fits c q t1 -> fits c q (join t0 t1)) /\
  (forall k, get (join t0 t1) k = ounion (get t0 k) (get t1 k)).
Proof.
  intros W0 W1 Hna. unfold join, compute_branching_bit.
  rewrite (threshold_pow t0 t1 W0 W1).
  destruct (highest_bit_spec _ _ _ Hna) as [d [E [Hd [Ha Hb]]]].
  rewrite E. rewrite zero_bit_spec.
  assert (Hl : N.log2 (2 ^ d) = d) by apply N.log2_pow2, N.le_0_l.
  assert (Hm : 2 ^ d = 2 ^ N.log2 (2 ^ d)) by (rewrite Hl; reflexivity).
  assert (A0 : agree (d + 1) (prefix t0) (mask (prefix t0) (2 ^ d)))
    by (apply agree_sym, mask_agree).
  assert (A1 : agree (d + 1) (prefix t1) (mask (prefix t0) (2 ^ d))).
  { eapply agree_trans; [apply agree_sym; exact Ha|exact A0]. }
  assert (Hcan : canon (mask (prefix t0) (2 ^ d)) d) by apply canon_mask.
  assert (Hlt : forall c q, agree c (prefix t0) q -> agree c (prefix t1) q -> d + 1 <= c).
  { intros c q F02 F12. destruct (N.lt_ge_cases d c); [lia|]. exfalso. apply Hb.
    apply agree_bit. eapply agree_mono; [exact H|].
    eapply agree_trans; [exact F02|apply agree_sym; exact F12]. }
  assert (Hfit : forall c q, fits c q t0 -> fits c q t1 ->
                             d + 1 <= c /\ agree c (mask (prefix t0) (2 ^ d)) q).
  { intros c q [F01 F02] [F11 F12]. pose proof (Hlt c q F02 F12) as L. split; [exact L|].
    eapply agree_trans; [|exact F02]. eapply agree_mono; [exact L|apply mask_agree]. }
  destruct (N.testbit (prefix t0) d) eqn:B0; cbn [negb].
  - (* t0 on the right *)
    assert (B1 : N.testbit (prefix t1) d = false)
      by (destruct (N.testbit (prefix t1) d); congruence).
    assert (Wn : wf (Node (mask (prefix t0) (2 ^ d)) (2 ^ d) t1 t0)).
    { cbn [wf]. rewrite Hl. repeat split; auto; try lia.
      - apply (agree_left _ _ _ Hcan). split; assumption.
      - apply agree_right. split; assumption. }
    split; [exact Wn|]. split.
    + intros c q F0 F1. destruct (Hfit c q F0 F1) as [L A]. split; [|exact A].
      cbn [lvl]. rewrite Hl. exact L.
    + intros k. cbn [get]. apply (ounion_comm_node _ _ _ _ _ Wn).
  - assert (B1 : N.testbit (prefix t1) d = true)
      by (destruct (N.testbit (prefix t1) d); congruence).
    split; [|split].
    + cbn [wf]. rewrite Hl. repeat split; auto; try lia.
      * apply (agree_left _ _ _ Hcan). split; assumption.
      * apply agree_right. split; assumption.
    + intros c q F0 F1. destruct (Hfit c q F0 F1) as [L A]. split; [|exact A].
      cbn [lvl]. rewrite Hl. exact L.
    + intros k. reflexivity.
Qed.

(* inserting a leaf next to a tree whose range does not contain the key *)
Lemma join_leaf key val t :
  wf t -> ~ agree (lvl t) key (prefix t) ->
  wf (join (Leaf key val) t) /\
  (forall c q, fits c q t -> agree c key q -> fits c q (join (Leaf key val) t)) /\
  (forall k, get (join (Leaf key val) t) k = if k =? key then Some val else get t k).
Proof.
  intros Wt Hna.
  destruct (join_spec (Leaf key val) t I Wt) as (J1 & J2 & J3).
  { simpl. rewrite N.max_0_l. exact Hna. }
  split; [exact J1|]. split.
  - intros c q F A. apply J2; [|exact F]. split; simpl; [lia|exact A].
  - intros k. rewrite J3. simpl. rewrite (N.eqb_sym key k).
    destruct (k =? key); reflexivity.
Qed.


(* ---------------------------------------------------------------- wrappers *)

Lemma mp_true key p m :
  m = 2 ^ N.log2 m -> canon p (N.log2 m) -> match_prefix key p m = true ->
  agree (N.log2 m + 1) key p.
Proof. intros Hm Hc H. rewrite Hm in H. apply (match_prefix_spec _ _ _ Hc). exact H. Qed.

Lemma mp_false key p m :
  m = 2 ^ N.log2 m -> canon p (N.log2 m) -> match_prefix key p m = false ->
  ~ agree (N.log2 m + 1) key p.
Proof. intros Hm Hc H. rewrite Hm in H. apply (match_prefix_false _ _ _ Hc). exact H. Qed.

Lemma zb_true key m :
  m = 2 ^ N.log2 m -> zero_bit key m = true -> N.testbit key (N.log2 m) = false.
Proof.
  intros Hm H. rewrite Hm, zero_bit_spec in H. destruct (N.testbit key (N.log2 m)); auto.
Qed.

Lemma zb_false key m :
  m = 2 ^ N.log2 m -> zero_bit key m = false -> N.testbit key (N.log2 m) = true.
Proof.
  intros Hm H. rewrite Hm, zero_bit_spec in H. destruct (N.testbit key (N.log2 m)); auto.
Qed.

Lemma all_ok_node p m l r :
  wf (Node p m l r) -> all_ok (Node p m l r) -> all_ok l /\ all_ok r.
Proof.
  intros Hwf Hok. split; intros k v Hg; apply (Hok k); cbn [get].
  - rewrite Hg. reflexivity.
  - destruct (node_disjoint p m l r k Hwf) as [E|E]; [rewrite E; exact Hg|congruence].
Qed.

(* ---------------------------------------------------------------- insert *)

Definition app_op (op : binop V) (ltr : bool) (k : N) (a b : V) : bool * option V :=
  if ltr then bapply op k a b else bapply op k b a.

Lemma combine_leaf_spec op k stored r :
  Vok stored ->
  combine_leaf veq op k (Leaf k stored) stored r k =
  if fst r then (true, None)
  else (false, match snd r with Some nv => Some (Leaf k nv) | None => None end).
Proof.
  intros Hok. unfold combine_leaf. destruct r as [b nv]. cbn [fst snd].
  destruct b; [reflexivity|]. destruct nv as [nv|]; [|reflexivity].
  destruct (veq nv stored) eqn:E; [|reflexivity].
  rewrite (veq_ok _ _ Hok E). reflexivity.
Qed.

(* what insert(t, key, val, op, ltr) returns, in terms of the bindings *)
Definition ins_result (op : binop V) (ltr : bool) (t : tree) (key : N) (val : V)
           (res : bool * ptree) : Prop :=
  match get t key with
  | Some v =>
    if fst (app_op op ltr key v val) then res = (true, None)
    else fst res = false /\ wfp (snd res) /\
         (forall c q, fits c q t -> agree c key q -> pfits c q (snd res)) /\
         (forall k, pget (snd res) k =
                    if k =? key then snd (app_op op ltr key v val) else get t k)
  | None =>
    fst res = false /\ wfp (snd res) /\
    (forall c q, fits c q t -> agree c key q -> pfits c q (snd res)) /\
    (forall k, pget (snd res) k =
               if babsorbing op then get t k
               else if k =? key then Some val else get t k)
  end.

Lemma ins_absent op ltr t key val :
  wf t -> ~ agree (lvl t) key (prefix t) ->
  ins_result op ltr t key val
             (if babsorbing op then (false, Some t)
              else (false, Some (join (Leaf key val) t))).
Proof.
  intros Wt Hna. unfold ins_result. rewrite (get_out _ _ Wt Hna).
  destruct (babsorbing op); cbn [fst snd].
  - split; [reflexivity|]. split; [exact Wt|]. split; [intros c q F _; exact F|].
    intros k; reflexivity.
  - destruct (join_leaf key val t Wt Hna) as (J1 & J2 & J3).
    split; [reflexivity|]. split; [exact J1|]. split; [|exact J3].
    intros c q F A. apply J2; assumption.
Qed.

Theorem insert_spec t : forall key val op ltr,
  wf t -> all_ok t -> ins_result op ltr t key val (insert veq t key val op ltr).
Proof.
  induction t as [k v|p m l IHl r IHr]; intros key val op ltr Hwf Hok.
  - cbn [insert]. destruct (N.eqb_spec k key) as [->|Hne].
    + unfold ins_result. cbn [get]. rewrite N.eqb_refl.
      rewrite combine_leaf_spec by (apply (Hok key); cbn [get]; rewrite N.eqb_refl; reflexivity).
      fold (app_op op ltr key v val). destruct (app_op op ltr key v val) as [b nv].
      cbn [fst snd]. destruct b; [reflexivity|]. cbn [fst snd].
      split; [reflexivity|]. split; [destruct nv; exact I|]. split.
      * intros c q [F1 F2] A. destruct nv; cbn; auto. split; [cbn; lia|exact A].
      * intros k. destruct nv as [nv|]; cbn [pget get].
        -- rewrite (N.eqb_sym key k). destruct (k =? key); reflexivity.
        -- rewrite (N.eqb_sym key k). destruct (k =? key); reflexivity.
    + apply ins_absent; [exact I|]. cbn [lvl prefix]. intros A. apply agree_0 in A. congruence.
  - pose proof Hwf as (Hm & Hc & Fl & Fr & Wl & Wr).
    destruct (all_ok_node _ _ _ _ Hwf Hok) as [Okl Okr].
    cbn [insert]. destruct (match_prefix key p m) eqn:MP.
    + pose proof (mp_true _ _ _ Hm Hc MP) as A.
      destruct (node_side p m l r key Hwf) as [S1 S2].
      destruct (zero_bit key m) eqn:ZB.
      * pose proof (zb_true _ _ Hm ZB) as B. specialize (S1 B).
        assert (AL : agree (N.log2 m) key p) by (apply (agree_left _ _ _ Hc); auto).
        specialize (IHl key val op ltr Wl Okl).
        destruct (insert veq l key val op ltr) as [b1 nl].
        unfold ins_result in *. cbn [get]. rewrite S1, ounion_none_r.
        destruct (get l key) as [vl|].
        -- destruct (fst (app_op op ltr key vl val)).
           ++ inversion IHl; subst. reflexivity.
           ++ cbn [fst snd] in IHl. destruct IHl as (-> & Wn & Fn & Gn). cbn [fst snd].
              split; [reflexivity|]. split; [|split].
              ** apply wf_make_node; auto; apply Fn; auto.
              ** intros c q [F1 F2] Ak. cbn [lvl prefix] in *.
                 apply fits_make_node; auto; try lia; apply Fn; auto.
              ** intros k. rewrite pget_make_node, Gn. cbn [pget].
                 destruct (N.eqb_spec k key) as [->|]; [|reflexivity].
                 rewrite S1. apply ounion_none_r.
        -- cbn [fst snd] in IHl. destruct IHl as (-> & Wn & Fn & Gn). cbn [fst snd].
           split; [reflexivity|]. split; [|split].
           ++ apply wf_make_node; auto; apply Fn; auto.
           ++ intros c q [F1 F2] Ak. cbn [lvl prefix] in *.
              apply fits_make_node; auto; try lia; apply Fn; auto.
           ++ intros k. rewrite pget_make_node, Gn. cbn [pget].
              destruct (babsorbing op); [reflexivity|].
              destruct (k =? key); reflexivity.
      * pose proof (zb_false _ _ Hm ZB) as B. specialize (S2 B).
        assert (AR : agree (N.log2 m) key (N.lor p m)).
        { rewrite Hm at 2. apply agree_right; auto. }
        specialize (IHr key val op ltr Wr Okr).
        destruct (insert veq r key val op ltr) as [b1 nr].
        unfold ins_result in *. cbn [get]. rewrite S2. cbn [ounion].
        destruct (get r key) as [vr|].
        -- destruct (fst (app_op op ltr key vr val)).
           ++ inversion IHr; subst. reflexivity.
           ++ cbn [fst snd] in IHr. destruct IHr as (-> & Wn & Fn & Gn). cbn [fst snd].
              split; [reflexivity|]. split; [|split].
              ** apply wf_make_node; auto; apply Fn; auto.
              ** intros c q [F1 F2] Ak. cbn [lvl prefix] in *.
                 apply fits_make_node; auto; try lia; apply Fn; auto.
              ** intros k. rewrite pget_make_node, Gn. cbn [pget].
                 destruct (N.eqb_spec k key) as [->|]; [|reflexivity].
                 rewrite S2. reflexivity.
        -- cbn [fst snd] in IHr. destruct IHr as (-> & Wn & Fn & Gn). cbn [fst snd].
           split; [reflexivity|]. split; [|split].
           ++ apply wf_make_node; auto; apply Fn; auto.
           ++ intros c q [F1 F2] Ak. cbn [lvl prefix] in *.
              apply fits_make_node; auto; try lia; apply Fn; auto.
           ++ intros k. rewrite pget_make_node, Gn. cbn [pget].
              destruct (babsorbing op); [reflexivity|].
              destruct (N.eqb_spec k key) as [->|]; [|reflexivity].
              rewrite S2. reflexivity.
    + apply ins_absent; [exact Hwf|]. cbn [lvl prefix]. apply mp_false; assumption.
Qed.

Lemma pinsert_spec t key val op ltr :
  wfp t -> pall_ok t ->
  match t with
  | Some t' => ins_result op ltr t' key val (pinsert veq t key val op ltr)
  | None => pinsert veq t key val op ltr =
            (false, if babsorbing op then None else Some (Leaf key val))
  end.
Proof.
  destruct t as [t'|]; cbn [pinsert].
  - intros W O. apply insert_spec; assumption.
  - intros _ _. destruct (babsorbing op); reflexivity.
Qed.

(* patricia_tree::insert (insert_op: the new value replaces the old one) *)
Theorem pt_insert_spec t key val :
  wfp t -> pall_ok t ->
  wfp (pt_insert veq t key val) /\
  (forall c q, pfits c q t -> agree c key q -> pfits c q (pt_insert veq t key val)) /\
  (forall k, pget (pt_insert veq t key val) k = if k =? key then Some val else pget t k).
Proof.
  intros W O. unfold pt_insert. pose proof (pinsert_spec t key val insert_op true W O) as H.
  destruct t as [t'|].
  - unfold ins_result in H. destruct (pinsert veq (Some t') key val insert_op true) as [b r].
    cbn [snd]. destruct (get t' key) as [v|] eqn:G; cbn [app_op insert_op bapply babsorbing fst snd] in H.
    + destruct H as (_ & H1 & H2 & H3). auto.
    + destruct H as (_ & H1 & H2 & H3). auto.
  - rewrite H. cbn [insert_op babsorbing snd]. split; [exact I|]. split.
    + intros c q _ A. split; [cbn; lia|exact A].
    + intros k. cbn [pget get]. rewrite (N.eqb_sym key k). reflexivity.
Qed.

(* ---------------------------------------------------------------- remove *)

Theorem remove_spec t : forall key,
  wf t ->
  wfp (remove t key) /\ (forall c q, fits c q t -> pfits c q (remove t key)) /\
  (forall k, pget (remove t key) k = if k =? key then None else get t k).
Proof.
  induction t as [k v|p m l IHl r IHr]; intros key Hwf.
  - cbn [remove]. destruct (N.eqb_spec k key) as [->|Hne].
    + split; [exact I|]. split; [intros; exact I|]. intros k. cbn [pget get].
      destruct (N.eqb_spec k key) as [->|]; [reflexivity|].
      destruct (N.eqb_spec key k); [congruence|reflexivity].
    + split; [exact I|]. split; [auto|]. intros k0. cbn [pget get].
      destruct (N.eqb_spec k0 key) as [->|]; [|reflexivity].
      destruct (N.eqb_spec k key); [congruence|reflexivity].
  - pose proof Hwf as (Hm & Hc & Fl & Fr & Wl & Wr).
    cbn [remove]. destruct (match_prefix key p m) eqn:MP.
    + pose proof (mp_true _ _ _ Hm Hc MP) as A.
      destruct (node_side p m l r key Hwf) as [S1 S2].
      destruct (zero_bit key m) eqn:ZB.
      * pose proof (zb_true _ _ Hm ZB) as B. specialize (S1 B).
        destruct (IHl key Wl) as (Wn & Fn & Gn). split; [|split].
        -- apply wf_make_node; auto.
        -- intros c q [F1 F2]. cbn [lvl prefix] in *. apply fits_make_node; auto; lia.
        -- intros k. rewrite pget_make_node, Gn. cbn [pget get].
           destruct (N.eqb_spec k key) as [->|]; [|reflexivity]. rewrite S1. reflexivity.
      * pose proof (zb_false _ _ Hm ZB) as B. specialize (S2 B).
        destruct (IHr key Wr) as (Wn & Fn & Gn). split; [|split].
        -- apply wf_make_node; auto.
        -- intros c q [F1 F2]. cbn [lvl prefix] in *. apply fits_make_node; auto; lia.
        -- intros k. rewrite pget_make_node, Gn. cbn [pget get].
           destruct (N.eqb_spec k key) as [->|]; [|reflexivity]. rewrite S2. reflexivity.
    + split; [exact Hwf|]. split; [auto|]. intros k. cbn [pget].
      destruct (N.eqb_spec k key) as [->|]; [|reflexivity].
      apply get_out; [exact Hwf|]. cbn [lvl prefix]. apply mp_false; assumption.
Qed.

Theorem premove_spec t key :
  wfp t ->
  wfp (premove t key) /\ (forall c q, pfits c q t -> pfits c q (premove t key)) /\
  (forall k, pget (premove t key) k = if k =? key then None else pget t k).
Proof.
  destruct t as [t'|]; cbn [premove wfp pfits].
  - intros W. destruct (remove_spec t' key W) as (H1 & H2 & H3). auto.
  - intros _. repeat split; auto. intros k. cbn. destruct (k =? key); reflexivity.
Qed.

(* ---------------------------------------------------------------- transform *)

Definition obind (o : option V) (f : V -> option V) : option V :=
  match o with Some v => f v | None => None end.

Theorem transform_spec t f :
  wf t -> all_ok t ->
  wfp (transform veq t f) /\ (forall c q, fits c q t -> pfits c q (transform veq t f)) /\
  (forall k, pget (transform veq t f) k = obind (get t k) f).
Proof.
  induction t as [k v|p m l IHl r IHr]; intros Hwf Hok.
  - cbn [transform]. destruct (f v) as [nv|] eqn:E.
    + assert (Hv : Vok v) by (apply (Hok k); cbn [get]; rewrite N.eqb_refl; reflexivity).
      assert (G : forall k0, get (Leaf k nv) k0 = obind (get (Leaf k v) k0) f).
      { intros k0. cbn [get]. destruct (k =? k0); cbn [obind]; auto. }
      destruct (veq nv v) eqn:Q.
      * pose proof (veq_ok _ _ Hv Q) as ->.
        split; [exact I|]. split; [intros c q F; exact F|]. exact G.
      * split; [exact I|]. split; [intros c q F; exact F|]. exact G.
    + split; [exact I|]. split; [intros; exact I|]. intros k0. cbn [pget get].
      destruct (k =? k0); cbn [obind]; auto.
  - pose proof Hwf as (Hm & Hc & Fl & Fr & Wl & Wr).
    destruct (all_ok_node _ _ _ _ Hwf Hok) as [Okl Okr].
    destruct (IHl Wl Okl) as (W1 & F1 & G1). destruct (IHr Wr Okr) as (W2 & F2 & G2).
    cbn [transform]. split; [|split].
    + apply wf_make_node; auto.
    + intros c q [A1 A2]. cbn [lvl prefix] in *. apply fits_make_node; auto; lia.
    + intros k. rewrite pget_make_node, G1, G2. cbn [get].
      destruct (node_disjoint p m l r k Hwf) as [E|E]; rewrite E; cbn [ounion obind].
      * reflexivity.
      * rewrite !ounion_none_r. reflexivity.
Qed.


(* ---------------------------------------------------------------- merge *)

(* pointwise combination of two optional bindings under the absorption mode of op *)
Definition comb (op : binop V) (ltr : bool) (k : N) (oa ob : option V) : option V :=
  match oa, ob with
  | Some a, Some b => snd (app_op op ltr k a b)
  | Some a, None => if babsorbing op then None else Some a
  | None, Some b => if babsorbing op then None else Some b
  | None, None => None
  end.

Lemma app_op_flip op ltr k a b : app_op op (negb ltr) k a b = app_op op ltr k b a.
Proof. destruct ltr; reflexivity. Qed.

(* result of a merge, stated on the denotations fs / ft of the two operands *)
Definition mres (op : binop V) (ltr : bool) (fs ft : N -> option V) (Fit : ptree -> Prop)
           (res : bool * ptree) : Prop :=
  if fst res then
    snd res = None /\
    exists k a b, fs k = Some a /\ ft k = Some b /\ fst (app_op op ltr k a b) = true
  else
    wfp (snd res) /\ Fit (snd res) /\
    (forall k, pget (snd res) k = comb op ltr k (fs k) (ft k)) /\
    (forall k a b, fs k = Some a -> ft k = Some b -> fst (app_op op ltr k a b) = false).

Definition merge_result (op : binop V) (ltr : bool) (s t : tree) (res : bool * ptree) : Prop :=
  mres op ltr (get s) (get t)
       (fun r => forall c q, fits c q s -> fits c q t -> pfits c q r) res.

Lemma mres_ext op ltr fs ft fs' ft' (Fit Fit' : ptree -> Prop) res :
  (forall k, fs k = fs' k) -> (forall k, ft k = ft' k) -> (forall r, Fit r -> Fit' r) ->
  mres op ltr fs ft Fit res -> mres op ltr fs' ft' Fit' res.
Proof.
  intros Es Et Hf. unfold mres. destruct (fst res).
  - intros (H0 & k & a & b & H1 & H2 & H3). split; [exact H0|].
    exists k, a, b. rewrite <- Es, <- Et. auto.
  - intros (H1 & H2 & H3 & H4). split; [exact H1|]. split; [auto|]. split.
    + intros k. rewrite <- Es, <- Et. apply H3.
    + intros k a b. rewrite <- Es, <- Et. apply H4.
Qed.

(* gluing the results for the two halves of a node *)
Lemma pair_nodes_mres op ltr p m fsl fsr ftl ftr ra rb :
  m = 2 ^ N.log2 m -> canon p (N.log2 m) ->
  (forall k, N.testbit k (N.log2 m) = false -> fsr k = None /\ ftr k = None) ->
  (forall k, N.testbit k (N.log2 m) = true -> fsl k = None /\ ftl k = None) ->
  mres op ltr fsl ftl (pfits (N.log2 m) p) ra ->
  mres op ltr fsr ftr (pfits (N.log2 m) (N.lor p m)) rb ->
  mres op ltr (fun k => ounion (fsl k) (fsr k)) (fun k => ounion (ftl k) (ftr k))
       (fun r => forall c q, N.log2 m < c -> agree c p q -> pfits c q r)
       (pair_nodes p m ra rb).
Proof.
  intros Hm Hc SL SR Ha Hb. unfold pair_nodes, mres in *.
  destruct (fst ra) eqn:Fa.
  - cbn [fst snd]. destruct Ha as (_ & k & a & b & H1 & H2 & H3). split; [reflexivity|].
    exists k, a, b. rewrite H1, H2. auto.
  - destruct (fst rb) eqn:Fb.
    + cbn [fst snd]. destruct Hb as (_ & k & a & b & H1 & H2 & H3). split; [reflexivity|].
      exists k, a, b. destruct (N.testbit k (N.log2 m)) eqn:B.
      * destruct (SR k B) as [E1 E2]. rewrite E1, E2. auto.
      * destruct (SL k B) as [E1 E2]. congruence.
    + cbn [fst snd]. destruct Ha as (Wa & Fia & Ga & Na). destruct Hb as (Wb & Fib & Gb & Nb).
      split; [apply wf_make_node; auto|]. split; [|split].
      * intros c q Hlt Hq. apply fits_make_node; auto.
      * intros k. rewrite pget_make_node, Ga, Gb.
        destruct (N.testbit k (N.log2 m)) eqn:B.
        -- destruct (SR k B) as [E1 E2]. rewrite E1, E2. reflexivity.
        -- destruct (SL k B) as [E1 E2]. rewrite E1, E2. cbn [comb].
           rewrite !ounion_none_r. reflexivity.
      * intros k a b. destruct (N.testbit k (N.log2 m)) eqn:B.
        -- destruct (SR k B) as [E1 E2]. rewrite E1, E2. cbn [ounion]. apply Nb.
        -- destruct (SL k B) as [E1 E2]. rewrite E1, E2, !ounion_none_r. apply Na.
Qed.

Lemma merge_eq op ltr s t :
  merge veq op ltr s t =
  match s with
  | Leaf ks vs => merge_leaf_l veq op ltr s ks vs t
  | Node ps ms sl sr =>
    match t with
    | Leaf kt vt => merge_leaf_r veq op ltr s t kt vt
    | Node pt mt tl tr =>
      if (ms =? mt) && (ps =? pt) then
        pair_nodes ps ms (merge veq op ltr sl tl) (merge veq op ltr sr tr)
      else if (mt <? ms) && match_prefix pt ps ms then
        if zero_bit pt ms then
          pair_nodes ps ms (merge veq op ltr sl t)
                     (false, if babsorbing op then None else Some sr)
        else
          pair_nodes ps ms (false, if babsorbing op then None else Some sl)
                     (merge veq op ltr sr t)
      else if (ms <? mt) && match_prefix ps pt mt then
        if zero_bit ps mt then
          pair_nodes pt mt (merge veq op ltr s tl)
                     (false, if babsorbing op then None else Some tr)
        else
          pair_nodes pt mt (false, if babsorbing op then None else Some tl)
                     (merge veq op ltr s tr)
      else if babsorbing op then (false, None)
           else (false, Some (join s t))
    end
  end.
Proof. destruct s; destruct t; reflexivity. Qed.

Lemma get_leaf_some k v k0 a : get (Leaf k v) k0 = Some a -> k0 = k /\ a = v.
Proof.
  cbn [get]. destruct (N.eqb_spec k k0); [|discriminate]. intros H; inversion H; auto.
Qed.

Lemma merge_leaf_l_spec op ltr ks vs t :
  wf t -> all_ok t -> Vok vs ->
  merge_result op ltr (Leaf ks vs) t (merge_leaf_l veq op ltr (Leaf ks vs) ks vs t).
Proof.
  intros Wt Okt Okv. unfold merge_leaf_l, merge_result.
  destruct (babsorbing op) eqn:AB.
  - rewrite (lookup_get t ks Wt). destruct (get t ks) as [v'|] eqn:G.
    + rewrite combine_leaf_spec by exact Okv. fold (app_op op ltr ks vs v').
      destruct (app_op op ltr ks vs v') as [b nv] eqn:EA. cbn [fst snd].
      unfold mres. destruct b; cbn [fst snd].
      * split; [reflexivity|]. exists ks, vs, v'. cbn [get]. rewrite N.eqb_refl, EA. auto.
      * split; [destruct nv; exact I|]. split; [|split].
        -- intros c q F _. destruct nv; [exact F|exact I].
        -- intros k. cbn [get]. destruct (N.eqb_spec ks k) as [<-|Hne].
           ++ rewrite G. cbn [comb]. rewrite EA. cbn [snd].
              destruct nv; cbn [pget get]; rewrite ?N.eqb_refl; reflexivity.
           ++ destruct nv as [nv0|]; cbn [pget get];
                [destruct (N.eqb_spec ks k) as [Q|_]; [congruence|]|];
                unfold comb; rewrite AB; destruct (get t k); reflexivity.
        -- intros k a b Ha Hb. apply get_leaf_some in Ha. destruct Ha as [-> ->].
           rewrite G in Hb. inversion Hb; subst. rewrite EA. reflexivity.
    + unfold mres. cbn [fst snd]. split; [exact I|]. split; [intros; exact I|]. split.
      * intros k. cbn [pget get]. destruct (N.eqb_spec ks k) as [<-|Hne].
        -- rewrite G. cbn [comb]. rewrite AB. reflexivity.
        -- unfold comb. rewrite AB. destruct (get t k); reflexivity.
      * intros k a b Ha Hb. apply get_leaf_some in Ha. destruct Ha as [-> ->]. congruence.
  - pose proof (insert_spec t ks vs op (negb ltr) Wt Okt) as H.
    destruct (insert veq t ks vs op (negb ltr)) as [bt r]. unfold ins_result in H.
    unfold mres. destruct (get t ks) as [v|] eqn:G.
    + rewrite app_op_flip in H. destruct (app_op op ltr ks vs v) as [b nv] eqn:EA.
      cbn [fst snd] in H. destruct b.
      * inversion H; subst. cbn [fst snd]. split; [reflexivity|].
        exists ks, vs, v. cbn [get]. rewrite N.eqb_refl, EA. auto.
      * cbn [fst snd] in H. destruct H as (-> & Wr & Fr & Gr). cbn [fst snd].
        split; [exact Wr|]. split; [|split].
        -- intros c q [F1 F2] Ft. apply Fr; [exact Ft|exact F2].
        -- intros k. rewrite Gr. cbn [get]. rewrite (N.eqb_sym k ks).
           destruct (N.eqb_spec ks k) as [<-|Hne].
           ++ rewrite G. cbn [comb]. rewrite EA. reflexivity.
           ++ unfold comb. rewrite AB. destruct (get t k); reflexivity.
        -- intros k a b Ha Hb. apply get_leaf_some in Ha. destruct Ha as [-> ->].
           rewrite G in Hb. inversion Hb; subst. rewrite EA. reflexivity.
    + rewrite AB in H. destruct H as (Hb & Wr & Fr & Gr). cbn [fst snd] in *. subst bt.
      split; [exact Wr|]. split; [|split].
      * intros c q [F1 F2] Ft. apply Fr; [exact Ft|exact F2].
      * intros k. rewrite Gr. cbn [get]. rewrite (N.eqb_sym k ks).
        destruct (N.eqb_spec ks k) as [<-|Hne].
        -- rewrite G. cbn [comb]. rewrite AB. reflexivity.
        -- unfold comb. rewrite AB. destruct (get t k); reflexivity.
      * intros k a b Ha Hb. apply get_leaf_some in Ha. destruct Ha as [-> ->]. congruence.
Qed.

Lemma merge_leaf_r_spec op ltr s kt vt :
  wf s -> all_ok s -> Vok vt ->
  merge_result op ltr s (Leaf kt vt) (merge_leaf_r veq op ltr s (Leaf kt vt) kt vt).
Proof.
  intros Ws Oks Okv. unfold merge_leaf_r, merge_result.
  destruct (babsorbing op) eqn:AB.
  - rewrite (lookup_get s kt Ws). destruct (get s kt) as [v'|] eqn:G.
    + rewrite combine_leaf_spec by exact Okv. fold (app_op op ltr kt v' vt).
      destruct (app_op op ltr kt v' vt) as [b nv] eqn:EA. cbn [fst snd].
      unfold mres. destruct b; cbn [fst snd].
      * split; [reflexivity|]. exists kt, v', vt. cbn [get]. rewrite N.eqb_refl, EA. auto.
      * split; [destruct nv; exact I|]. split; [|split].
        -- intros c q _ F. destruct nv; [exact F|exact I].
        -- intros k. cbn [get]. destruct (N.eqb_spec kt k) as [<-|Hne].
           ++ rewrite G. cbn [comb]. rewrite EA. cbn [snd].
              destruct nv; cbn [pget get]; rewrite ?N.eqb_refl; reflexivity.
           ++ destruct nv as [nv0|]; cbn [pget get];
                [destruct (N.eqb_spec kt k) as [Q|_]; [congruence|]|];
                unfold comb; rewrite AB; destruct (get s k); reflexivity.
        -- intros k a b Ha Hb. apply get_leaf_some in Hb. destruct Hb as [-> ->].
           rewrite G in Ha. inversion Ha; subst. rewrite EA. reflexivity.
    + unfold mres. cbn [fst snd]. split; [exact I|]. split; [intros; exact I|]. split.
      * intros k. cbn [pget get]. destruct (N.eqb_spec kt k) as [<-|Hne].
        -- rewrite G. cbn [comb]. rewrite AB. reflexivity.
        -- unfold comb. rewrite AB. destruct (get s k); reflexivity.
      * intros k a b Ha Hb. apply get_leaf_some in Hb. destruct Hb as [-> ->]. congruence.
  - pose proof (insert_spec s kt vt op ltr Ws Oks) as H.
    destruct (insert veq s kt vt op ltr) as [bt r]. unfold ins_result in H.
    unfold mres. destruct (get s kt) as [v|] eqn:G.
    + destruct (app_op op ltr kt v vt) as [b nv] eqn:EA.
      cbn [fst snd] in H. destruct b.
      * inversion H; subst. cbn [fst snd]. split; [reflexivity|].
        exists kt, v, vt. cbn [get]. rewrite N.eqb_refl, EA. auto.
      * cbn [fst snd] in H. destruct H as (-> & Wr & Fr & Gr). cbn [fst snd].
        split; [exact Wr|]. split; [|split].
        -- intros c q Fs [F1 F2]. apply Fr; [exact Fs|exact F2].
        -- intros k. rewrite Gr. cbn [get]. rewrite (N.eqb_sym k kt).
           destruct (N.eqb_spec kt k) as [<-|Hne].
           ++ rewrite G. cbn [comb]. rewrite EA. reflexivity.
           ++ unfold comb. rewrite AB. destruct (get s k); reflexivity.
        -- intros k a b Ha Hb. apply get_leaf_some in Hb. destruct Hb as [-> ->].
           rewrite G in Ha. inversion Ha; subst. rewrite EA. reflexivity.
    + rewrite AB in H. destruct H as (Hb & Wr & Fr & Gr). cbn [fst snd] in *. subst bt.
      split; [exact Wr|]. split; [|split].
      * intros c q Fs [F1 F2]. apply Fr; [exact Fs|exact F2].
      * intros k. rewrite Gr. cbn [get]. rewrite (N.eqb_sym k kt).
        destruct (N.eqb_spec kt k) as [<-|Hne].
        -- rewrite G. cbn [comb]. rewrite AB. reflexivity.
        -- unfold comb. rewrite AB. destruct (get s k); reflexivity.
      * intros k a b Ha Hb. apply get_leaf_some in Hb. destruct Hb as [-> ->]. congruence.
Qed.

(* trees with disjoint ranges have no common key *)
Lemma disjoint_ranges s t k a b :
  wf s -> wf t -> ~ agree (N.max (lvl s) (lvl t)) (prefix s) (prefix t) ->
  get s k = Some a -> get t k = Some b -> False.
Proof.
  intros Ws Wt Hna Ga Gb. apply Hna.
  pose proof (get_range _ _ _ Ws Ga) as A. pose proof (get_range _ _ _ Wt Gb) as B.
  eapply agree_trans; [apply agree_sym; eapply agree_mono; [|exact A]; lia|].
  eapply agree_mono; [|exact B]. lia.
Qed.

Lemma pow2_lt_log m1 m2 :
  m1 = 2 ^ N.log2 m1 -> m2 = 2 ^ N.log2 m2 -> (m1 < m2 <-> N.log2 m1 < N.log2 m2).
Proof.
  intros H1 H2. rewrite H1 at 1. rewrite H2 at 1. symmetry. apply N.pow_lt_mono_r_iff. lia.
Qed.

(* a node t whose branching bit is smaller and whose prefix matches lies in one half *)
Lemma inner_fits_left ps ms t :
  ms = 2 ^ N.log2 ms -> canon ps (N.log2 ms) -> wf t ->
  lvl t <= N.log2 ms -> match_prefix (prefix t) ps ms = true -> zero_bit (prefix t) ms = true ->
  fits (N.log2 ms) ps t.
Proof.
  intros Hm Hc Wt Hl MP ZB. split; [exact Hl|].
  apply (agree_left _ _ _ Hc). split; [apply mp_true; auto|apply zb_true; auto].
Qed.

Lemma inner_fits_right ps ms t :
  ms = 2 ^ N.log2 ms -> canon ps (N.log2 ms) -> wf t ->
  lvl t <= N.log2 ms -> match_prefix (prefix t) ps ms = true -> zero_bit (prefix t) ms = false ->
  fits (N.log2 ms) (N.lor ps ms) t.
Proof.
  intros Hm Hc Wt Hl MP ZB. split; [exact Hl|]. rewrite Hm at 2.
  apply agree_right. split; [apply mp_true; auto|apply zb_false; auto].
Qed.

Lemma fits_get_bit_left c p t k v :
  canon p c -> wf t -> fits c p t -> get t k = Some v -> N.testbit k c = false.
Proof.
  intros Hc Wt F G. pose proof (get_fits _ _ _ _ _ Wt F G) as A.
  apply (agree_left _ _ _ Hc) in A. apply A.
Qed.

Lemma fits_get_bit_right p m t k v :
  m = 2 ^ N.log2 m -> wf t -> fits (N.log2 m) (N.lor p m) t -> get t k = Some v ->
  N.testbit k (N.log2 m) = true.
Proof.
  intros Hm Wt F G. pose proof (get_fits _ _ _ _ _ Wt F G) as A.
  rewrite Hm in A at 2. apply agree_right in A. apply A.
Qed.

(* the other half of a node merged with nothing *)
Lemma half_alone_l op ltr (Fit : ptree -> Prop) u :
  wf u -> Fit None -> Fit (Some u) ->
  mres op ltr (get u) (fun _ => None) Fit (false, if babsorbing op then None else Some u).
Proof.
  intros Wu F0 F1. unfold mres. cbn [fst snd]. destruct (babsorbing op) eqn:AB.
  - split; [exact I|]. split; [exact F0|]. split; [|intros; discriminate].
    intros k. cbn [pget]. unfold comb. rewrite AB. destruct (get u k); reflexivity.
  - split; [exact Wu|]. split; [exact F1|]. split; [|intros; discriminate].
    intros k. cbn [pget]. unfold comb. rewrite AB. destruct (get u k); reflexivity.
Qed.

Lemma half_alone_r op ltr (Fit : ptree -> Prop) u :
  wf u -> Fit None -> Fit (Some u) ->
  mres op ltr (fun _ => None) (get u) Fit (false, if babsorbing op then None else Some u).
Proof.
  intros Wu F0 F1. unfold mres. cbn [fst snd]. destruct (babsorbing op) eqn:AB.
  - split; [exact I|]. split; [exact F0|]. split; [|intros; discriminate].
    intros k. cbn [pget]. unfold comb. rewrite AB. destruct (get u k); reflexivity.
  - split; [exact Wu|]. split; [exact F1|]. split; [|intros; discriminate].
    intros k. cbn [pget]. unfold comb. rewrite AB. destruct (get u k); reflexivity.
Qed.

Theorem merge_spec op ltr : forall s t,
  wf s -> wf t -> all_ok s -> all_ok t ->
  merge_result op ltr s t (merge veq op ltr s t).
Proof.
  induction s as [ks vs|ps ms sl IHsl sr IHsr].
  - intros t Ws Wt Os Ot. rewrite merge_eq. apply merge_leaf_l_spec; auto.
    apply (Os ks). cbn [get]. rewrite N.eqb_refl. reflexivity.
  - induction t as [kt vt|pt mt tl IHtl tr IHtr]; intros Ws Wt Os Ot.
    + rewrite merge_eq. apply merge_leaf_r_spec; auto.
      apply (Ot kt). cbn [get]. rewrite N.eqb_refl. reflexivity.
    + rewrite merge_eq.
      pose proof Ws as (Hms & Hcs & Fsl & Fsr & Wsl & Wsr).
      pose proof Wt as (Hmt & Hct & Ftl & Ftr & Wtl & Wtr).
      destruct (all_ok_node _ _ _ _ Ws Os) as [Osl Osr].
      destruct (all_ok_node _ _ _ _ Wt Ot) as [Otl Otr].
      set (S := Node ps ms sl sr) in *. set (T := Node pt mt tl tr) in *.
      destruct ((ms =? mt) && (ps =? pt)) eqn:C1.
      { (* same prefix and branching bit *)
        apply andb_true_iff in C1. destruct C1 as [E1 E2].
        apply N.eqb_eq in E1. apply N.eqb_eq in E2. subst mt pt.
        assert (M : mres op ltr (fun k => ounion (get sl k) (get sr k))
                         (fun k => ounion (get tl k) (get tr k))
                         (fun r => forall c q, N.log2 ms < c -> agree c ps q -> pfits c q r)
                         (pair_nodes ps ms (merge veq op ltr sl tl) (merge veq op ltr sr tr))).
        { apply pair_nodes_mres; [exact Hms|exact Hcs| | | |].
          - intros k B. split; [apply (node_side ps ms sl sr k Ws)|apply (node_side ps ms tl tr k Wt)]; exact B.
          - intros k B. split; [apply (node_side ps ms sl sr k Ws)|apply (node_side ps ms tl tr k Wt)]; exact B.
          - eapply mres_ext; [| | |exact (IHsl tl Wsl Wtl Osl Otl)]; auto; try (intros r H; apply H; assumption).
          - eapply mres_ext; [| | |exact (IHsr tr Wsr Wtr Osr Otr)]; auto; try (intros r H; apply H; assumption). }
        unfold merge_result. eapply mres_ext; [| | |exact M].
        - intros k; reflexivity.
        - intros k; reflexivity.
        - intros r H c q [F1 F2] _. cbn [lvl prefix S] in *. apply H; [lia|exact F2]. }
      destruct ((mt <? ms) && match_prefix pt ps ms) eqn:C2.
      { (* T lies in one half of S *)
        apply andb_true_iff in C2. destruct C2 as [L MP]. apply N.ltb_lt in L.
        apply (pow2_lt_log _ _ Hmt Hms) in L.
        assert (LT : lvl T <= N.log2 ms) by (cbn [lvl T]; lia).
        destruct (zero_bit pt ms) eqn:ZB.
        - pose proof (inner_fits_left ps ms T Hms Hcs Wt LT MP ZB) as FT.
          assert (M : mres op ltr (fun k => ounion (get sl k) (get sr k))
                           (fun k => ounion (get T k) None)
                           (fun r => forall c q, N.log2 ms < c -> agree c ps q -> pfits c q r)
                           (pair_nodes ps ms (merge veq op ltr sl T)
                                       (false, if babsorbing op then None else Some sr))).
          { apply (pair_nodes_mres op ltr ps ms (get sl) (get sr) (get T) (fun _ => None));
              [exact Hms|exact Hcs| | | |].
            - intros k B. split; [apply (node_side ps ms sl sr k Ws); exact B|reflexivity].
            - intros k B. split; [apply (node_side ps ms sl sr k Ws); exact B|].
              destruct (get T k) eqn:G; [|reflexivity].
              pose proof (fits_get_bit_left _ _ _ _ _ Hcs Wt FT G). congruence.
            - eapply mres_ext; [| | |exact (IHsl T Wsl Wt Osl Ot)]; auto; try (intros r H; apply H; assumption).
            - apply half_alone_l; [exact Wsr|exact I|exact Fsr]. }
          unfold merge_result. eapply mres_ext; [| | |exact M].
          + intros k; reflexivity.
          + intros k. apply ounion_none_r.
          + intros r H c q [F1 F2] _. cbn [lvl prefix S] in *. apply H; [lia|exact F2].
        - pose proof (inner_fits_right ps ms T Hms Hcs Wt LT MP ZB) as FT.
          assert (M : mres op ltr (fun k => ounion (get sl k) (get sr k))
                           (fun k => ounion None (get T k))
                           (fun r => forall c q, N.log2 ms < c -> agree c ps q -> pfits c q r)
                           (pair_nodes ps ms (false, if babsorbing op then None else Some sl)
                                       (merge veq op ltr sr T))).
          { apply (pair_nodes_mres op ltr ps ms (get sl) (get sr) (fun _ => None) (get T));
              [exact Hms|exact Hcs| | | |].
            - intros k B. split; [apply (node_side ps ms sl sr k Ws); exact B|].
              destruct (get T k) eqn:G; [|reflexivity].
              pose proof (fits_get_bit_right _ _ _ _ _ Hms Wt FT G). congruence.
            - intros k B. split; [apply (node_side ps ms sl sr k Ws); exact B|reflexivity].
            - apply half_alone_l; [exact Wsl|exact I|exact Fsl].
            - eapply mres_ext; [| | |exact (IHsr T Wsr Wt Osr Ot)]; auto; try (intros r H; apply H; assumption). }
          unfold merge_result. eapply mres_ext; [| | |exact M].
          + intros k; reflexivity.
          + intros k. reflexivity.
          + intros r H c q [F1 F2] _. cbn [lvl prefix S] in *. apply H; [lia|exact F2]. }
      destruct ((ms <? mt) && match_prefix ps pt mt) eqn:C3.
      { (* S lies in one half of T *)
        apply andb_true_iff in C3. destruct C3 as [L MP]. apply N.ltb_lt in L.
        apply (pow2_lt_log _ _ Hms Hmt) in L.
        assert (LS : lvl S <= N.log2 mt) by (cbn [lvl S]; lia).
        destruct (zero_bit ps mt) eqn:ZB.
        - pose proof (inner_fits_left pt mt S Hmt Hct Ws LS MP ZB) as FS.
          assert (M : mres op ltr (fun k => ounion (get S k) None)
                           (fun k => ounion (get tl k) (get tr k))
                           (fun r => forall c q, N.log2 mt < c -> agree c pt q -> pfits c q r)
                           (pair_nodes pt mt (merge veq op ltr S tl)
                                       (false, if babsorbing op then None else Some tr))).
          { apply (pair_nodes_mres op ltr pt mt (get S) (fun _ => None) (get tl) (get tr));
              [exact Hmt|exact Hct| | | |].
            - intros k B. split; [reflexivity|apply (node_side pt mt tl tr k Wt); exact B].
            - intros k B. split; [|apply (node_side pt mt tl tr k Wt); exact B].
              destruct (get S k) eqn:G; [|reflexivity].
              pose proof (fits_get_bit_left _ _ _ _ _ Hct Ws FS G). congruence.
            - eapply mres_ext; [| | |exact (IHtl Ws Wtl Os Otl)]; auto; try (intros r H; apply H; assumption).
            - apply half_alone_r; [exact Wtr|exact I|exact Ftr]. }
          unfold merge_result. eapply mres_ext; [| | |exact M].
          + intros k. apply ounion_none_r.
          + intros k; reflexivity.
          + intros r H c q _ [F1 F2]. cbn [lvl prefix T] in *. apply H; [lia|exact F2].
        - pose proof (inner_fits_right pt mt S Hmt Hct Ws LS MP ZB) as FS.
          assert (M : mres op ltr (fun k => ounion None (get S k))
                           (fun k => ounion (get tl k) (get tr k))
                           (fun r => forall c q, N.log2 mt < c -> agree c pt q -> pfits c q r)
                           (pair_nodes pt mt (false, if babsorbing op then None else Some tl)
                                       (merge veq op ltr S tr))).
          { apply (pair_nodes_mres op ltr pt mt (fun _ => None) (get S) (get tl) (get tr));
              [exact Hmt|exact Hct| | | |].
            - intros k B. split; [|apply (node_side pt mt tl tr k Wt); exact B].
              destruct (get S k) eqn:G; [|reflexivity].
              pose proof (fits_get_bit_right _ _ _ _ _ Hmt Ws FS G). congruence.
            - intros k B. split; [reflexivity|apply (node_side pt mt tl tr k Wt); exact B].
            - apply half_alone_r; [exact Wtl|exact I|exact Ftl].
            - eapply mres_ext; [| | |exact (IHtr Ws Wtr Os Otr)]; auto; try (intros r H; apply H; assumption). }
          unfold merge_result. eapply mres_ext; [| | |exact M].
          + intros k. reflexivity.
          + intros k; reflexivity.
          + intros r H c q _ [F1 F2]. cbn [lvl prefix T] in *. apply H; [lia|exact F2]. }
      (* disjoint ranges *)
      assert (Hna : ~ agree (N.max (lvl S) (lvl T)) (prefix S) (prefix T)).
      { cbn [lvl prefix S T]. intros A.
        destruct (N.lt_trichotomy (N.log2 ms) (N.log2 mt)) as [L|[L|L]].
        - assert (ms < mt) by (apply (pow2_lt_log _ _ Hms Hmt); exact L).
          apply N.ltb_lt in H. rewrite H in C3. cbn [andb] in C3.
          apply (mp_false _ _ _ Hmt Hct C3). eapply agree_mono; [|exact A]. lia.
        - assert (ms = mt) by (rewrite Hms, Hmt, L; reflexivity). subst mt.
          rewrite N.eqb_refl in C1. cbn [andb] in C1. apply N.eqb_neq in C1. apply C1.
          rewrite N.max_id in A. rewrite <- Hcs, <- Hct. unfold canon.
          rewrite Hms. apply mask_eq_iff. rewrite <- Hms. exact A.
        - assert (mt < ms) by (apply (pow2_lt_log _ _ Hmt Hms); exact L).
          apply N.ltb_lt in H. rewrite H in C2. cbn [andb] in C2.
          apply (mp_false _ _ _ Hms Hcs C2). apply agree_sym. eapply agree_mono; [|exact A]. lia. }
      unfold merge_result, mres. destruct (babsorbing op) eqn:AB; cbn [fst snd].
      * split; [exact I|]. split; [intros; exact I|]. split.
        -- intros k. cbn [pget]. unfold comb. rewrite AB.
           destruct (get S k) as [a1|] eqn:G1; destruct (get T k) as [b1|] eqn:G2; auto.
           exfalso. exact (disjoint_ranges S T k a1 b1 Ws Wt Hna G1 G2).
        -- intros k a b G1 G2. exfalso. exact (disjoint_ranges S T k a b Ws Wt Hna G1 G2).
      * destruct (join_spec S T Ws Wt Hna) as (J1 & J2 & J3).
        split; [exact J1|]. split; [|split].
        -- intros c q F1 F2. apply J2; assumption.
        -- intros k. cbn [pget]. rewrite J3. unfold comb. rewrite AB.
           destruct (get S k) as [a1|] eqn:G1; destruct (get T k) as [b1|] eqn:G2; auto.
           exfalso. exact (disjoint_ranges S T k a1 b1 Ws Wt Hna G1 G2).
        -- intros k a b G1 G2. exfalso. exact (disjoint_ranges S T k a b Ws Wt Hna G1 G2).
Qed.


(* merge on nullable trees, and patricia_tree::merge_with *)
Definition pmerge_result (op : binop V) (ltr : bool) (s t : ptree) (res : bool * ptree) : Prop :=
  mres op ltr (pget s) (pget t)
       (fun r => forall c q, pfits c q s -> pfits c q t -> pfits c q r) res.

Theorem pmerge_spec op ltr s t :
  wfp s -> wfp t -> pall_ok s -> pall_ok t ->
  pmerge_result op ltr s t (pmerge veq op ltr s t).
Proof.
  intros Ws Wt Os Ot. unfold pmerge_result. destruct s as [s'|], t as [t'|]; cbn [pmerge].
  - apply merge_spec; assumption.
  - pose proof (half_alone_l op ltr
                 (fun r => forall c q, pfits c q (Some s') -> pfits c q None -> pfits c q r) s' Ws) as H.
    destruct (babsorbing op); apply H; try (intros; exact I); intros c q F _; exact F.
  - pose proof (half_alone_r op ltr
                 (fun r => forall c q, pfits c q None -> pfits c q (Some t') -> pfits c q r) t' Wt) as H.
    destruct (babsorbing op); apply H; try (intros; exact I); intros c q _ F; exact F.
  - unfold mres. destruct (babsorbing op); cbn [fst snd]; repeat split; auto; intros; discriminate.
Qed.

(* the physical-equality shortcut of merge (s == t returns s) agrees with the model when
   the operator is idempotent on stored values *)
Theorem merge_idem op ltr s :
  (forall k v, Vok v -> bapply op k v v = (false, Some v)) ->
  wf s -> all_ok s -> merge veq op ltr s s = (false, Some s).
Proof.
  intros Hid. induction s as [k v|p m l IHl r IHr]; intros Ws Os.
  - assert (Hv : Vok v) by (apply (Os k); cbn [get]; rewrite N.eqb_refl; reflexivity).
    assert (A : forall lr, app_op op lr k v v = (false, Some v)).
    { intros lr. unfold app_op. destruct lr; apply Hid; exact Hv. }
    rewrite merge_eq. unfold merge_leaf_l. destruct (babsorbing op).
    + cbn [lookup]. rewrite N.eqb_refl. rewrite combine_leaf_spec by exact Hv.
      fold (app_op op ltr k v v). rewrite A. reflexivity.
    + cbn [insert]. rewrite N.eqb_refl. rewrite combine_leaf_spec by exact Hv.
      fold (app_op op (negb ltr) k v v). rewrite A. reflexivity.
  - pose proof Ws as (Hm & Hc & Fl & Fr & Wl & Wr).
    destruct (all_ok_node _ _ _ _ Ws Os) as [Ol Or].
    rewrite merge_eq. rewrite !N.eqb_refl. cbn [andb].
    rewrite (IHl Wl Ol), (IHr Wr Or). reflexivity.
Qed.

(* ---------------------------------------------------------------- compare *)

(* comparison of two optional bindings: an absent binding is the default value, which
   is the greatest (default_is_top) or the least element and differs from every stored
   value *)
Definition ole (po : porder V) (ltr : bool) (oa ob : option V) : bool :=
  match oa, ob with
  | Some a, Some b => if ltr then pleq po a b else pleq po b a
  | Some _, None => if ltr then pdefault_is_top po else negb (pdefault_is_top po)
  | None, Some _ => if ltr then negb (pdefault_is_top po) else pdefault_is_top po
  | None, None => true
  end.

Lemma ole_flip (po : porder V) ltr a b : ole po (negb ltr) a b = ole po ltr b a.
Proof. destruct a, b, ltr; reflexivity. Qed.

Lemma compare_eq (po : porder V) ltr (s t : tree) :
  compare po ltr s t =
  match s with
  | Leaf ks vs => compare_leaf po ltr ks vs t
  | Node ps ms sl sr =>
    match t with
    | Leaf kt vt => compare_leaf po (negb ltr) kt vt s
    | Node pt mt tl tr =>
      if (ms =? mt) && (ps =? pt) then
        compare po ltr sl tl && compare po ltr sr tr
      else if (mt <? ms) && match_prefix pt ps ms then
        if (ltr && negb (pdefault_is_top po)) || (negb ltr && pdefault_is_top po) then false
        else if zero_bit pt ms then compare po ltr sl t else compare po ltr sr t
      else if (ms <? mt) && match_prefix ps pt mt then
        if (ltr && pdefault_is_top po) || (negb ltr && negb (pdefault_is_top po)) then false
        else if zero_bit ps mt then compare po ltr s tl else compare po ltr s tr
      else false
    end
  end.
Proof. destruct s; destruct t; reflexivity. Qed.

Lemma compare_leaf_spec (po : porder V) ltr k v (t : tree) :
  wf t ->
  (compare_leaf po ltr k v t = true <->
   forall k0, ole po ltr (get (Leaf k v) k0) (get t k0) = true).
Proof.
  intros Wt. unfold compare_leaf. rewrite (lookup_get t k Wt).
  destruct (get t k) as [v'|] eqn:G.
  - destruct (if ltr then pleq po v v' else pleq po v' v) eqn:L; cbn [negb].
    + destruct t as [k' v''|p m l r].
      * assert (k' = k) by (apply get_leaf_some in G; destruct G; congruence). subst k'.
        rewrite !andb_false_r. split; [intros _|reflexivity].
        intros k0. cbn [get]. destruct (N.eqb_spec k k0) as [<-|]; [|reflexivity].
        cbn [get] in G. rewrite N.eqb_refl in G. inversion G; subst. exact L.
      * destruct (node_two_keys p m l r Wt k) as [k1 [b [Hne Hk1]]].
        set (T := Node p m l r) in *.
        assert (Hs1 : get (Leaf k v) k1 = None).
        { cbn [get]. destruct (N.eqb_spec k k1); [congruence|reflexivity]. }
        rewrite !andb_true_r. split.
        -- intros H k0. cbn [get]. destruct (N.eqb_spec k k0) as [<-|].
           ++ rewrite G. exact L.
           ++ destruct (get T k0); [|reflexivity]. cbn [ole].
              destruct ltr, (pdefault_is_top po); cbn in H |- *; congruence.
        -- intros H. specialize (H k1). rewrite Hs1, Hk1 in H. cbn [ole] in H.
           destruct ltr, (pdefault_is_top po); cbn in H |- *; congruence.
    + split; [discriminate|]. intros H. specialize (H k). cbn [get] in H.
      rewrite N.eqb_refl, G in H. cbn [ole] in H. congruence.
  - split; [discriminate|]. intros H.
    destruct (get_inhabited t) as [k1 [b Hk1]].
    assert (Hne : k1 <> k) by (intros ->; congruence).
    pose proof (H k) as Q0. pose proof (H k1) as Q1. cbn [get] in Q0, Q1.
    rewrite N.eqb_refl, G in Q0. destruct (N.eqb_spec k k1); [congruence|].
    rewrite Hk1 in Q1. cbn [ole] in Q0, Q1.
    destruct ltr, (pdefault_is_top po); cbn in Q0, Q1; congruence.
Qed.

Theorem compare_spec (po : porder V) ltr : forall s t : tree,
  wf s -> wf t ->
  (compare po ltr s t = true <-> forall k, ole po ltr (get s k) (get t k) = true).
Proof.
  induction s as [ks vs|ps ms sl IHsl sr IHsr].
  - intros t _ Wt. rewrite compare_eq. apply compare_leaf_spec; exact Wt.
  - induction t as [kt vt|pt mt tl IHtl tr IHtr]; intros Ws Wt.
    + rewrite compare_eq. rewrite (compare_leaf_spec po (negb ltr) kt vt _ Ws).
      split; intros H k; specialize (H k); rewrite ole_flip in *; exact H.
    + rewrite compare_eq.
      pose proof Ws as (Hms & Hcs & Fsl & Fsr & Wsl & Wsr).
      pose proof Wt as (Hmt & Hct & Ftl & Ftr & Wtl & Wtr).
      set (S := Node ps ms sl sr) in *. set (T := Node pt mt tl tr) in *.
      destruct ((ms =? mt) && (ps =? pt)) eqn:C1.
      { apply andb_true_iff in C1. destruct C1 as [E1 E2].
        apply N.eqb_eq in E1. apply N.eqb_eq in E2. subst mt pt.
        rewrite andb_true_iff, (IHsl tl Wsl Wtl), (IHsr tr Wsr Wtr). split.
        - intros [HL HR] k. cbn [get S T].
          destruct (node_side ps ms sl sr k Ws) as [A1 A2].
          destruct (node_side ps ms tl tr k Wt) as [B1 B2].
          destruct (N.testbit k (N.log2 ms)).
          + rewrite A2, B2 by reflexivity. cbn [ounion]. apply HR.
          + rewrite A1, B1, !ounion_none_r by reflexivity. apply HL.
        - intros H. split; intros k; specialize (H k); cbn [get S T] in H;
            destruct (node_side ps ms sl sr k Ws) as [A1 A2];
            destruct (node_side ps ms tl tr k Wt) as [B1 B2];
            destruct (N.testbit k (N.log2 ms)).
          + rewrite A2, B2 by reflexivity. reflexivity.
          + rewrite A1, B1, !ounion_none_r in H by reflexivity. exact H.
          + rewrite A2, B2 in H by reflexivity. exact H.
          + rewrite A1, B1 by reflexivity. reflexivity. }
      destruct ((mt <? ms) && match_prefix pt ps ms) eqn:C2.
      { apply andb_true_iff in C2. destruct C2 as [L MP]. apply N.ltb_lt in L.
        apply (pow2_lt_log _ _ Hmt Hms) in L.
        assert (LT : lvl T <= N.log2 ms) by (cbn [lvl T]; lia).
        destruct (zero_bit pt ms) eqn:ZB.
        - pose proof (inner_fits_left ps ms T Hms Hcs Wt LT MP ZB) as FT.
          assert (TR : forall k, N.testbit k (N.log2 ms) = true -> get T k = None).
          { intros k B. destruct (get T k) eqn:G; [|reflexivity].
            pose proof (fits_get_bit_left _ _ _ _ _ Hcs Wt FT G). congruence. }
          destruct (get_inhabited sr) as [k1 [a1 Hk1]].
          pose proof (fits_get_bit_right _ _ _ _ _ Hms Wsr Fsr Hk1) as Bk1.
          assert (Sk1 : get S k1 = Some a1).
          { cbn [get S]. destruct (node_side ps ms sl sr k1 Ws) as [_ A2].
            rewrite (A2 Bk1). exact Hk1. }
          destruct ((ltr && negb (pdefault_is_top po)) || (negb ltr && pdefault_is_top po)) eqn:FL.
          + split; [discriminate|]. intros H. specialize (H k1).
            rewrite Sk1, (TR k1 Bk1) in H. cbn [ole] in H.
            destruct ltr, (pdefault_is_top po); cbn in FL, H; congruence.
          + rewrite (IHsl T Wsl Wt). split; intros H k; specialize (H k).
            * cbn [get S]. destruct (node_side ps ms sl sr k Ws) as [A1 A2].
              destruct (N.testbit k (N.log2 ms)) eqn:B.
              -- rewrite (A2 eq_refl), (TR k B). cbn [ounion].
                 destruct (get sr k); [|reflexivity]. cbn [ole].
                 destruct ltr, (pdefault_is_top po); cbn in FL |- *; congruence.
              -- rewrite (A1 eq_refl), ounion_none_r. exact H.
            * cbn [get S] in H. destruct (node_side ps ms sl sr k Ws) as [A1 A2].
              destruct (N.testbit k (N.log2 ms)) eqn:B.
              -- rewrite (A2 eq_refl), (TR k B). reflexivity.
              -- rewrite (A1 eq_refl), ounion_none_r in H. exact H.
        - pose proof (inner_fits_right ps ms T Hms Hcs Wt LT MP ZB) as FT.
          assert (TR : forall k, N.testbit k (N.log2 ms) = false -> get T k = None).
          { intros k B. destruct (get T k) eqn:G; [|reflexivity].
            pose proof (fits_get_bit_right _ _ _ _ _ Hms Wt FT G). congruence. }
          destruct (get_inhabited sl) as [k1 [a1 Hk1]].
          pose proof (fits_get_bit_left _ _ _ _ _ Hcs Wsl Fsl Hk1) as Bk1.
          assert (Sk1 : get S k1 = Some a1).
          { cbn [get S]. rewrite Hk1. reflexivity. }
          destruct ((ltr && negb (pdefault_is_top po)) || (negb ltr && pdefault_is_top po)) eqn:FL.
          + split; [discriminate|]. intros H. specialize (H k1).
            rewrite Sk1, (TR k1 Bk1) in H. cbn [ole] in H.
            destruct ltr, (pdefault_is_top po); cbn in FL, H; congruence.
          + rewrite (IHsr T Wsr Wt). split; intros H k; specialize (H k).
            * cbn [get S]. destruct (node_side ps ms sl sr k Ws) as [A1 A2].
              destruct (N.testbit k (N.log2 ms)) eqn:B.
              -- rewrite (A2 eq_refl). cbn [ounion]. exact H.
              -- rewrite (A1 eq_refl), ounion_none_r, (TR k B).
                 destruct (get sl k); [|reflexivity]. cbn [ole].
                 destruct ltr, (pdefault_is_top po); cbn in FL |- *; congruence.
            * cbn [get S] in H. destruct (node_side ps ms sl sr k Ws) as [A1 A2].
              destruct (N.testbit k (N.log2 ms)) eqn:B.
              -- rewrite (A2 eq_refl) in H. cbn [ounion] in H. exact H.
              -- rewrite (A1 eq_refl), (TR k B). reflexivity. }
      destruct ((ms <? mt) && match_prefix ps pt mt) eqn:C3.
      { apply andb_true_iff in C3. destruct C3 as [L MP]. apply N.ltb_lt in L.
        apply (pow2_lt_log _ _ Hms Hmt) in L.
        assert (LS : lvl S <= N.log2 mt) by (cbn [lvl S]; lia).
        destruct (zero_bit ps mt) eqn:ZB.
        - pose proof (inner_fits_left pt mt S Hmt Hct Ws LS MP ZB) as FS.
          assert (SR : forall k, N.testbit k (N.log2 mt) = true -> get S k = None).
          { intros k B. destruct (get S k) eqn:G; [|reflexivity].
            pose proof (fits_get_bit_left _ _ _ _ _ Hct Ws FS G). congruence. }
          destruct (get_inhabited tr) as [k1 [b1 Hk1]].
          pose proof (fits_get_bit_right _ _ _ _ _ Hmt Wtr Ftr Hk1) as Bk1.
          assert (Tk1 : get T k1 = Some b1).
          { cbn [get T]. destruct (node_side pt mt tl tr k1 Wt) as [_ A2].
            rewrite (A2 Bk1). exact Hk1. }
          destruct ((ltr && pdefault_is_top po) || (negb ltr && negb (pdefault_is_top po))) eqn:FL.
          + split; [discriminate|]. intros H. specialize (H k1).
            rewrite Tk1, (SR k1 Bk1) in H. cbn [ole] in H.
            destruct ltr, (pdefault_is_top po); cbn in FL, H; congruence.
          + rewrite (IHtl Ws Wtl). split; intros H k; specialize (H k).
            * cbn [get T]. destruct (node_side pt mt tl tr k Wt) as [A1 A2].
              destruct (N.testbit k (N.log2 mt)) eqn:B.
              -- rewrite (A2 eq_refl), (SR k B). cbn [ounion].
                 destruct (get tr k); [|reflexivity]. cbn [ole].
                 destruct ltr, (pdefault_is_top po); cbn in FL |- *; congruence.
              -- rewrite (A1 eq_refl), ounion_none_r. exact H.
            * cbn [get T] in H. destruct (node_side pt mt tl tr k Wt) as [A1 A2].
              destruct (N.testbit k (N.log2 mt)) eqn:B.
              -- rewrite (A2 eq_refl), (SR k B). reflexivity.
              -- rewrite (A1 eq_refl), ounion_none_r in H. exact H.
        - pose proof (inner_fits_right pt mt S Hmt Hct Ws LS MP ZB) as FS.
          assert (SR : forall k, N.testbit k (N.log2 mt) = false -> get S k = None).
          { intros k B. destruct (get S k) eqn:G; [|reflexivity].
            pose proof (fits_get_bit_right _ _ _ _ _ Hmt Ws FS G). congruence. }
          destruct (get_inhabited tl) as [k1 [b1 Hk1]].
          pose proof (fits_get_bit_left _ _ _ _ _ Hct Wtl Ftl Hk1) as Bk1.
          assert (Tk1 : get T k1 = Some b1).
          { cbn [get T]. rewrite Hk1. reflexivity. }
          destruct ((ltr && pdefault_is_top po) || (negb ltr && negb (pdefault_is_top po))) eqn:FL.
          + split; [discriminate|]. intros H. specialize (H k1).
            rewrite Tk1, (SR k1 Bk1) in H. cbn [ole] in H.
            destruct ltr, (pdefault_is_top po); cbn in FL, H; congruence.
          + rewrite (IHtr Ws Wtr). split; intros H k; specialize (H k).
            * cbn [get T]. destruct (node_side pt mt tl tr k Wt) as [A1 A2].
              destruct (N.testbit k (N.log2 mt)) eqn:B.
              -- rewrite (A2 eq_refl). cbn [ounion]. exact H.
              -- rewrite (A1 eq_refl), ounion_none_r, (SR k B).
                 destruct (get tl k); [|reflexivity]. cbn [ole].
                 destruct ltr, (pdefault_is_top po); cbn in FL |- *; congruence.
            * cbn [get T] in H. destruct (node_side pt mt tl tr k Wt) as [A1 A2].
              destruct (N.testbit k (N.log2 mt)) eqn:B.
              -- rewrite (A2 eq_refl) in H. cbn [ounion] in H. exact H.
              -- rewrite (A1 eq_refl), (SR k B). reflexivity. }
      (* disjoint ranges *)
      assert (Hna : ~ agree (N.max (lvl S) (lvl T)) (prefix S) (prefix T)).
      { cbn [lvl prefix S T]. intros A.
        destruct (N.lt_trichotomy (N.log2 ms) (N.log2 mt)) as [L|[L|L]].
        - assert (ms < mt) by (apply (pow2_lt_log _ _ Hms Hmt); exact L).
          apply N.ltb_lt in H. rewrite H in C3. cbn [andb] in C3.
          apply (mp_false _ _ _ Hmt Hct C3). eapply agree_mono; [|exact A]. lia.
        - assert (ms = mt) by (rewrite Hms, Hmt, L; reflexivity). subst mt.
          rewrite N.eqb_refl in C1. cbn [andb] in C1. apply N.eqb_neq in C1. apply C1.
          rewrite N.max_id in A. rewrite <- Hcs, <- Hct. unfold canon.
          rewrite Hms. apply mask_eq_iff. rewrite <- Hms. exact A.
        - assert (mt < ms) by (apply (pow2_lt_log _ _ Hmt Hms); exact L).
          apply N.ltb_lt in H. rewrite H in C2. cbn [andb] in C2.
          apply (mp_false _ _ _ Hms Hcs C2). apply agree_sym. eapply agree_mono; [|exact A]. lia. }
      split; [discriminate|]. intros H.
      destruct (get_inhabited S) as [k1 [a1 Hk1]]. destruct (get_inhabited T) as [k2 [b2 Hk2]].
      assert (G1 : get T k1 = None).
      { destruct (get T k1) as [b|] eqn:G; [|reflexivity].
        exfalso. exact (disjoint_ranges S T k1 a1 b Ws Wt Hna Hk1 G). }
      assert (G2 : get S k2 = None).
      { destruct (get S k2) as [a|] eqn:G; [|reflexivity].
        exfalso. exact (disjoint_ranges S T k2 a b2 Ws Wt Hna G Hk2). }
      pose proof (H k1) as H1. pose proof (H k2) as H2.
      rewrite Hk1, G1 in H1. rewrite Hk2, G2 in H2. cbn [ole] in H1, H2.
      destruct ltr, (pdefault_is_top po); cbn in H1, H2; congruence.
Qed.

Theorem pcompare_spec (po : porder V) ltr (s t : ptree) :
  wfp s -> wfp t ->
  (pcompare po ltr s t = true <-> forall k, ole po ltr (pget s k) (pget t k) = true).
Proof.
  intros Ws Wt. destruct s as [s'|], t as [t'|]; cbn [pcompare pcompare_gen pget].
  - apply compare_spec; assumption.
  - destruct (get_inhabited s') as [k1 [a1 Hk1]]. split.
    + intros H k. destruct (get s' k); [|reflexivity]. cbn [ole].
      destruct ltr, (pdefault_is_top po); cbn in H |- *; congruence.
    + intros H. specialize (H k1). rewrite Hk1 in H. cbn [ole] in H.
      destruct ltr, (pdefault_is_top po); cbn in H |- *; congruence.
  - destruct (get_inhabited t') as [k1 [a1 Hk1]]. split.
    + intros H k. destruct (get t' k); [|reflexivity]. cbn [ole].
      destruct ltr, (pdefault_is_top po); cbn in H |- *; congruence.
    + intros H. specialize (H k1). rewrite Hk1 in H. cbn [ole] in H.
      destruct ltr, (pdefault_is_top po); cbn in H |- *; congruence.
  - split; auto.
Qed.

(* the physical-equality shortcut of compare (s == t answers yes) agrees with the model
   for a reflexive order *)
Theorem compare_refl (po : porder V) ltr (s : tree) :
  (forall v, Vok v -> pleq po v v = true) -> wf s -> all_ok s -> compare po ltr s s = true.
Proof.
  intros Hr. induction s as [k v|p m l IHl r IHr]; intros Ws Os.
  - rewrite compare_eq. unfold compare_leaf. cbn [lookup]. rewrite N.eqb_refl.
    assert (Hv : Vok v) by (apply (Os k); cbn [get]; rewrite N.eqb_refl; reflexivity).
    rewrite (Hr v Hv). destruct ltr; cbn; rewrite ?andb_false_r; reflexivity.
  - pose proof Ws as (Hm & Hc & Fl & Fr & Wl & Wr).
    destruct (all_ok_node _ _ _ _ Ws Os) as [Ol Or].
    rewrite compare_eq, !N.eqb_refl. cbn [andb]. rewrite (IHl Wl Ol), (IHr Wr Or). reflexivity.
Qed.


(* ---------------------------------------------------------------- iteration, size *)

Definition key_lt (a b : N * V) : Prop := fst a < fst b.

Lemma sorted_app (l1 l2 : list (N * V)) :
  StronglySorted key_lt l1 -> StronglySorted key_lt l2 ->
  (forall a b, In a l1 -> In b l2 -> key_lt a b) ->
  StronglySorted key_lt (l1 ++ l2).
Proof.
  induction l1 as [|x l1 IH]; intros S1 S2 H; [exact S2|].
  inversion S1; subst. cbn [app]. constructor.
  - apply IH; auto. intros a b Ha Hb. apply H; [right; exact Ha|exact Hb].
  - apply Forall_app. split; [assumption|].
    apply Forall_forall. intros b Hb. apply H; [left; reflexivity|exact Hb].
Qed.

Theorem elements_in t : forall k v,
  wf t -> (In (k, v) (elements t) <-> get t k = Some v).
Proof.
  induction t as [k' v'|p m l IHl r IHr]; intros k v Hwf.
  - cbn [elements In]. split.
    + intros [H|[]]. inversion H; subst. cbn [get]. rewrite N.eqb_refl. reflexivity.
    + intros H. apply get_leaf_some in H. destruct H as [-> ->]. left; reflexivity.
  - pose proof Hwf as (Hm & Hc & Fl & Fr & Wl & Wr).
    cbn [elements get]. rewrite in_app_iff, (IHl k v Wl), (IHr k v Wr). split.
    + intros [H|H]; [rewrite H; reflexivity|].
      destruct (node_disjoint p m l r k Hwf) as [E|E]; [rewrite E; exact H|congruence].
    + intros H. destruct (get l k) as [vl|]; [left; exact H|right; exact H].
Qed.

Theorem elements_sorted t : wf t -> StronglySorted key_lt (elements t).
Proof.
  induction t as [k' v'|p m l IHl r IHr]; intros Hwf.
  - cbn [elements]. constructor; constructor.
  - pose proof Hwf as (Hm & Hc & Fl & Fr & Wl & Wr).
    cbn [elements]. apply sorted_app; auto.
    intros [ka va] [kb vb] Ha Hb. unfold key_lt. cbn [fst].
    apply (elements_in l ka va Wl) in Ha. apply (elements_in r kb vb Wr) in Hb.
    pose proof (get_fits _ _ _ _ _ Wl Fl Ha) as A.
    apply (agree_left _ _ _ Hc) in A. destruct A as [A1 A2].
    pose proof (get_fits _ _ _ _ _ Wr Fr Hb) as B. rewrite Hm in B at 2.
    apply agree_right in B. destruct B as [B1 B2].
    destruct (range_order ka p _ Hc A1) as [O1 _].
    destruct (range_order kb p _ Hc B1) as [_ O2].
    specialize (O1 A2). specialize (O2 B2). lia.
Qed.

Theorem size_elements (t : tree) : size t = N.of_nat (length (elements t)).
Proof.
  induction t as [k v|p m l IHl r IHr]; [reflexivity|].
  cbn [size elements]. rewrite app_length, Nat2N.inj_add, IHl, IHr. reflexivity.
Qed.

Lemma size_pos (t : tree) : 0 < size t.
Proof.
  induction t as [k v|p m l IHl r IHr]; cbn [size]; lia.
Qed.

Theorem pelements_in t k v : wfp t -> (In (k, v) (pelements t) <-> pget t k = Some v).
Proof.
  destruct t as [t'|]; cbn [pelements pget]; [apply elements_in|].
  intros _. split; [intros []|discriminate].
Qed.

Theorem pelements_sorted t : wfp t -> StronglySorted key_lt (pelements t).
Proof. destruct t as [t'|]; cbn [pelements]; [apply elements_sorted|constructor]. Qed.

Theorem psize_elements (t : ptree) : psize t = N.of_nat (length (pelements t)).
Proof. destruct t; cbn [psize pelements]; [apply size_elements|reflexivity]. Qed.

Lemma psize_zero (t : ptree) : psize t = 0 <-> t = None.
Proof.
  destruct t as [t'|]; cbn [psize]; split; try reflexivity; try discriminate.
  intros H. pose proof (size_pos t'). lia.
Qed.

End Spec.

Arguments lvl {V}.
Arguments fits {V}.
Arguments pfits {V}.
Arguments wf {V}.
Arguments wfp {V}.
Arguments get {V}.
Arguments pget {V}.
Arguments ounion {V}.
Arguments all_ok {V}.
Arguments pall_ok {V}.
Arguments app_op {V}.
Arguments comb {V}.
Arguments mres {V}.
Arguments merge_result {V}.
Arguments pmerge_result {V}.
Arguments ins_result {V}.
Arguments obind {V}.
Arguments ole {V}.
Arguments key_lt {V}.
