(* SepDomainSound.v — the operations of the separate_domain model (Map/SepDomain.v) commute
   with the abstraction of an environment to a total map N -> V with default top (plus
   the bottom flag), for every value lattice satisfying the laws listed as hypotheses of
   the section.  The representation invariant [sep_ok] (well-formed tree, stored values
   neither top nor bottom, empty tree when bottom) is preserved by every operation. *)
From Coq Require Import NArith PeanoNat Bool List Lia Sorting.Sorted.
From CrabV Require Import Map.Patricia Map.PatriciaBits Map.PatriciaSpec Map.SepDomain.
Import ListNotations.
Local Open Scope N_scope.

Section SepSound.
Variable V : Type.
Variables vtop vbot : V.
Variables v_is_top v_is_bot : V -> bool.
Variable vleq : V -> V -> bool.
Variable veq : V -> V -> bool.
(* well-formedness of values (e.g. lb <> +oo for intervals); [fun _ => True] is fine when
   the value type has no junk *)
Variable Vwf : V -> Prop.

(* a value that may be stored in the tree *)
Definition good (v : V) : Prop := Vwf v /\ v_is_top v = false /\ v_is_bot v = false.

Hypothesis Vwf_top : Vwf vtop.
Hypothesis top_is_top : v_is_top vtop = true.
Hypothesis top_not_bot : v_is_bot vtop = false.
Hypothesis bot_is_bot : v_is_bot vbot = true.
Hypothesis veq_good : forall x y, good x -> veq y x = true -> y = x.

Notation sepV := (sep V).
Notation at_ := (s_at V vtop vbot).
Notation set_ := (s_set V v_is_top v_is_bot veq).
Notation forget_ := (s_forget V).
Notation leq_ := (s_leq V vleq).

Definition ntop (v : V) : V := if v_is_top v then vtop else v.

Definition sep_ok (a : sepV) : Prop :=
  wfp (stree a) /\ pall_ok good (stree a) /\ (sbot a = true -> stree a = None).

Lemma sep_ok_top : sep_ok sep_top.
Proof.
  split; [exact I|]. split; [intros k v H; discriminate|]. cbn. discriminate.
Qed.
Lemma sep_ok_bottom : sep_ok sep_bottom.
Proof.
  split; [exact I|]. split; [intros k v H; discriminate|]. reflexivity.
Qed.

Lemma at_top k : at_ sep_top k = vtop.
Proof. reflexivity. Qed.
Lemma at_bottom k : at_ sep_bottom k = vbot.
Proof. reflexivity. Qed.

Lemma at_pget a k :
  sep_ok a -> sbot a = false ->
  at_ a k = match pget (stree a) k with Some v => v | None => vtop end.
Proof.
  intros (W & _ & _) Hb. unfold s_at. rewrite Hb, (plookup_pget _ _ _ W). reflexivity.
Qed.

Lemma at_wf a k : sep_ok a -> sbot a = false -> Vwf (at_ a k).
Proof.
  intros Ok Hb. rewrite (at_pget a k Ok Hb). destruct Ok as (_ & O & _).
  destruct (pget (stree a) k) eqn:E; [apply (O k v E)|exact Vwf_top].
Qed.

Lemma at_not_bot a k : sep_ok a -> sbot a = false -> v_is_bot (at_ a k) = false.
Proof.
  intros Ok Hb. rewrite (at_pget a k Ok Hb). destruct Ok as (_ & O & _).
  destruct (pget (stree a) k) eqn:E; [apply (O k v E)|exact top_not_bot].
Qed.

Lemma ntop_at a k : sep_ok a -> sbot a = false -> ntop (at_ a k) = at_ a k.
Proof.
  intros Ok Hb. rewrite (at_pget a k Ok Hb). destruct Ok as (_ & O & _). unfold ntop.
  destruct (pget (stree a) k) eqn:E.
  - destruct (O k v E) as (_ & T & _). rewrite T. reflexivity.
  - rewrite top_is_top. reflexivity.
Qed.

(* a binding different from top is stored *)
Lemma at_bound a k :
  sep_ok a -> sbot a = false -> v_is_top (at_ a k) = false ->
  pget (stree a) k = Some (at_ a k).
Proof.
  intros Ok Hb Ht. rewrite (at_pget a k Ok Hb) in *.
  destruct (pget (stree a) k); [reflexivity|congruence].
Qed.

(* ---------------------------------------------------------------- set / forget *)

Lemma mk_ok t :
  wfp t -> pall_ok good t -> sep_ok (mkSep false t).
Proof. intros W O. split; [exact W|]. split; [exact O|]. cbn. discriminate. Qed.

Theorem set_spec a k v :
  sep_ok a -> Vwf v ->
  sep_ok (set_ a k v) /\
  sbot (set_ a k v) = sbot a || v_is_bot v /\
  (sbot a || v_is_bot v = false ->
   forall k', at_ (set_ a k v) k' = if k' =? k then ntop v else at_ a k').
Proof.
  intros Ok Hv. pose proof Ok as (W & O & B). unfold s_set.
  destruct (sbot a) eqn:Hb;
    [cbn [orb]; split; [exact Ok|]; split; [exact Hb|]; intros H; discriminate|].
  cbn [orb]. destruct (v_is_bot v) eqn:Vb.
  - split; [apply sep_ok_bottom|]. split; [reflexivity|discriminate].
  - destruct (v_is_top v) eqn:Vt.
    + destruct (premove_spec V (stree a) k W) as (W' & _ & G').
      assert (Ok' : sep_ok (mkSep false (premove (stree a) k))).
      { apply mk_ok; [exact W'|]. intros k0 v0. rewrite G'.
        destruct (k0 =? k); [discriminate|apply O]. }
      split; [exact Ok'|]. split; [reflexivity|]. intros _ k'.
      rewrite (at_pget _ k' Ok' eq_refl), (at_pget a k' Ok Hb). cbn [stree]. rewrite G'.
      unfold ntop. rewrite Vt. destruct (k' =? k); reflexivity.
    + destruct (pt_insert_spec V veq good veq_good (stree a) k v W O) as (W' & _ & G').
      assert (Ok' : sep_ok (mkSep false (pt_insert veq (stree a) k v))).
      { apply mk_ok; [exact W'|]. intros k0 v0. rewrite G'.
        destruct (k0 =? k); [|apply O]. intros E; inversion E; subst. repeat split; auto. }
      split; [exact Ok'|]. split; [reflexivity|]. intros _ k'.
      rewrite (at_pget _ k' Ok' eq_refl), (at_pget a k' Ok Hb). cbn [stree]. rewrite G'.
      unfold ntop. rewrite Vt. destruct (k' =? k); reflexivity.
Qed.

Theorem forget_spec a k :
  sep_ok a ->
  sep_ok (forget_ a k) /\ sbot (forget_ a k) = sbot a /\
  (sbot a = false -> forall k', at_ (forget_ a k) k' = if k' =? k then vtop else at_ a k').
Proof.
  intros Ok. pose proof Ok as (W & O & B). unfold s_forget.
  destruct (sbot a) eqn:Hb; [split; [exact Ok|]; split; [exact Hb|]; intros H; discriminate|].
  destruct (premove_spec V (stree a) k W) as (W' & _ & G').
  assert (Ok' : sep_ok (mkSep false (premove (stree a) k))).
  { apply mk_ok; [exact W'|]. intros k0 v0. rewrite G'.
    destruct (k0 =? k); [discriminate|apply O]. }
  split; [exact Ok'|]. split; [reflexivity|]. intros _ k'.
  rewrite (at_pget _ k' Ok' eq_refl), (at_pget a k' Ok Hb). cbn [stree]. rewrite G'.
  destruct (k' =? k); reflexivity.
Qed.

(* ---------------------------------------------------------------- join(k, v) *)

Section JoinKV.
Variable vjoin : V -> V -> V.
Hypothesis join_wf : forall x y, Vwf x -> Vwf y -> Vwf (vjoin x y).
Hypothesis join_not_bot :
  forall x y, v_is_bot x = false -> v_is_bot y = false -> v_is_bot (vjoin x y) = false.
Hypothesis join_top_l : forall x y, Vwf x -> Vwf y -> v_is_top x = true -> v_is_top (vjoin x y) = true.
Hypothesis join_top_r : forall x y, Vwf x -> Vwf y -> v_is_top y = true -> v_is_top (vjoin x y) = true.

Notation joinkv_ := (s_join_kv V v_is_top v_is_bot veq vjoin).

(* weak update: a[k] := a[k] | v.  The code is strict in v: a bottom value makes the
   environment bottom. *)
Theorem join_kv_spec a k v :
  sep_ok a -> Vwf v ->
  sep_ok (joinkv_ a k v) /\
  sbot (joinkv_ a k v) = sbot a || v_is_bot v /\
  (sbot a || v_is_bot v = false ->
   forall k', at_ (joinkv_ a k v) k' = if k' =? k then ntop (vjoin (at_ a k) v) else at_ a k').
Proof.
  intros Ok Hv. pose proof Ok as (W & O & B). unfold s_join_kv.
  destruct (sbot a) eqn:Hb;
    [cbn [orb]; split; [exact Ok|]; split; [exact Hb|]; intros H; discriminate|].
  cbn [orb]. destruct (v_is_bot v) eqn:Vb.
  - split; [apply sep_ok_bottom|]. split; [reflexivity|discriminate].
  - assert (RM : sep_ok (mkSep false (premove (stree a) k)) /\
                 forall k', at_ (mkSep false (premove (stree a) k)) k' =
                            if k' =? k then vtop else at_ a k').
    { destruct (forget_spec a k Ok) as (F1 & _ & F3). unfold s_forget in F1, F3.
      rewrite Hb in F1, F3. split; [exact F1|apply F3; reflexivity]. }
    destruct RM as [RM1 RM2].
    destruct (v_is_top v) eqn:Vt.
    + split; [exact RM1|]. split; [reflexivity|]. intros _ k'. rewrite RM2.
      destruct (k' =? k); [|reflexivity]. unfold ntop.
      rewrite (join_top_r _ _ (at_wf a k Ok Hb) Hv Vt). reflexivity.
    + rewrite (plookup_pget _ _ _ W). destruct (pget (stree a) k) as [old|] eqn:G.
      * assert (Hold : at_ a k = old) by (rewrite (at_pget a k Ok Hb), G; reflexivity).
        destruct (O k old G) as (Ow & Ot & Ob).
        destruct (set_spec a k (vjoin old v) Ok (join_wf _ _ Ow Hv)) as (S1 & S2 & S3).
        rewrite Hb, (join_not_bot _ _ Ob Vb) in S2, S3. cbn [orb] in S2, S3.
        split; [exact S1|]. split; [exact S2|]. intros _ k'. rewrite (S3 eq_refl k'), Hold.
        reflexivity.
      * split; [exact RM1|]. split; [reflexivity|]. intros _ k'. rewrite RM2.
        destruct (k' =? k); [|reflexivity]. unfold ntop.
        assert (at_ a k = vtop) by (rewrite (at_pget a k Ok Hb), G; reflexivity).
        rewrite H, (join_top_l _ _ Vwf_top Hv top_is_top). reflexivity.
Qed.
End JoinKV.

(* ---------------------------------------------------------------- is_top, <=, == *)

Theorem is_top_spec a :
  sep_ok a ->
  (s_is_top a = true <-> sbot a = false /\ forall k, v_is_top (at_ a k) = true).
Proof.
  intros Ok. pose proof Ok as (W & O & B). unfold s_is_top.
  destruct (sbot a) eqn:Hb; cbn [negb andb].
  - split; [discriminate|intros [H _]; discriminate].
  - rewrite N.eqb_eq, psize_zero. split.
    + intros E. split; [reflexivity|]. intros k. rewrite (at_pget a k Ok Hb), E. exact top_is_top.
    + intros [_ H]. destruct (stree a) as [t|] eqn:E; [|reflexivity]. exfalso.
      destruct (get_inhabited V t) as [k [v G]]. specialize (H k).
      rewrite (at_pget a k Ok Hb), E in H. cbn [pget] in H. rewrite G in H.
      destruct (O k v) as (_ & T & _); [exact G|]. congruence.
Qed.

Hypothesis leq_top_top : vleq vtop vtop = true.
Hypothesis leq_good_top : forall x, good x -> vleq x vtop = true.
Hypothesis leq_top_good : forall y, good y -> vleq vtop y = false.

Theorem leq_spec a b :
  sep_ok a -> sep_ok b ->
  (leq_ a b = true <->
   sbot a = true \/ (sbot b = false /\ forall k, vleq (at_ a k) (at_ b k) = true)).
Proof.
  intros Oa Ob. pose proof Oa as (Wa & Ga & _). pose proof Ob as (Wb & Gb & _).
  unfold s_leq. destruct (sbot a) eqn:Ha; [split; auto|].
  destruct (sbot b) eqn:Hb.
  - split; [discriminate|]. intros [H|[H _]]; discriminate.
  - unfold pt_leq. rewrite (pcompare_spec V (domain_po V vleq) true _ _ Wa Wb).
    assert (E : forall k, ole (domain_po V vleq) true (pget (stree a) k) (pget (stree b) k)
                          = vleq (at_ a k) (at_ b k)).
    { intros k. rewrite (at_pget a k Oa Ha), (at_pget b k Ob Hb).
      destruct (pget (stree a) k) as [x|] eqn:Ea; destruct (pget (stree b) k) as [y|] eqn:Eb;
        cbn [ole domain_po pleq pdefault_is_top negb].
      - reflexivity.
      - symmetry. apply leq_good_top. apply (Ga k x Ea).
      - symmetry. apply leq_top_good. apply (Gb k y Eb).
      - symmetry. exact leq_top_top. }
    split.
    + intros H. right. split; [reflexivity|]. intros k. rewrite <- E. apply H.
    + intros [H|[_ H]]; [discriminate|]. intros k. rewrite E. apply H.
Qed.

Theorem eq_spec a b :
  sep_ok a -> sep_ok b ->
  (s_eq V vleq a b = true <-> leq_ a b = true /\ leq_ b a = true).
Proof. intros _ _. unfold s_eq. apply andb_true_iff. Qed.

(* ---------------------------------------------------------------- | , || (absorbing) *)

Section Lub.
Variable f : V -> V -> V.
Hypothesis f_wf : forall x y, Vwf x -> Vwf y -> Vwf (f x y).
Hypothesis f_not_bot :
  forall x y, v_is_bot x = false -> v_is_bot y = false -> v_is_bot (f x y) = false.
Hypothesis f_top_l : forall x y, Vwf x -> Vwf y -> v_is_top x = true -> v_is_top (f x y) = true.
Hypothesis f_top_r : forall x y, Vwf x -> Vwf y -> v_is_top y = true -> v_is_top (f x y) = true.

Notation lub_ := (s_lub V v_is_top veq f).

Theorem lub_spec a b :
  sep_ok a -> sep_ok b ->
  sep_ok (lub_ a b) /\
  (sbot a = true -> lub_ a b = b) /\
  (sbot a = false -> sbot b = true -> lub_ a b = a) /\
  (sbot a = false -> sbot b = false ->
   sbot (lub_ a b) = false /\
   forall k, at_ (lub_ a b) k = ntop (f (at_ a k) (at_ b k))).
Proof.
  intros Oa Ob. pose proof Oa as (Wa & Ga & _). pose proof Ob as (Wb & Gb & _).
  unfold s_lub. destruct (sbot a) eqn:Ha.
  { split; [exact Ob|]. repeat split; auto; discriminate. }
  destruct (sbot b) eqn:Hb.
  { split; [exact Oa|]. repeat split; auto; discriminate. }
  pose proof (pmerge_spec V veq good veq_good (lub_op V v_is_top f) true _ _ Wa Wb Ga Gb) as M.
  unfold pt_merge_with. destruct (pmerge veq (lub_op V v_is_top f) true (stree a) (stree b))
    as [bt r] eqn:EM.
  unfold pmerge_result, mres in M. cbn [fst snd] in M.
  assert (Hbt : bt = false).
  { destruct bt; [|reflexivity]. destruct M as (_ & k & x & y & _ & _ & H).
    unfold app_op, lub_op in H. cbn [bapply] in H. destruct (v_is_top (f x y)); discriminate. }
  subst bt. cbn [snd]. destruct M as (Wr & _ & Gr & _).
  assert (Okr : sep_ok (mkSep false r)).
  { apply mk_ok; [exact Wr|]. intros k v. rewrite Gr.
    destruct (pget (stree a) k) as [x|] eqn:Ea; destruct (pget (stree b) k) as [y|] eqn:Eb;
      cbn [comb lub_op babsorbing app_op bapply]; try discriminate.
    destruct (Ga k x Ea) as (X1 & X2 & X3). destruct (Gb k y Eb) as (Y1 & Y2 & Y3).
    destruct (v_is_top (f x y)) eqn:T; cbn [snd]; [discriminate|].
    intros E; inversion E; subst. repeat split; auto. }
  split; [exact Okr|]. split; [discriminate|]. split; [discriminate|]. intros _ _.
  split; [reflexivity|]. intros k.
  rewrite (at_pget _ k Okr eq_refl), (at_pget a k Oa Ha), (at_pget b k Ob Hb). cbn [stree].
  rewrite Gr. unfold ntop.
  destruct (pget (stree a) k) as [x|] eqn:Ea; destruct (pget (stree b) k) as [y|] eqn:Eb;
    cbn [comb lub_op babsorbing app_op bapply].
  - destruct (v_is_top (f x y)); reflexivity.
  - destruct (Ga k x Ea) as (X1 & _). rewrite (f_top_r _ _ X1 Vwf_top top_is_top). reflexivity.
  - destruct (Gb k y Eb) as (Y1 & _). rewrite (f_top_l _ _ Vwf_top Y1 top_is_top). reflexivity.
  - rewrite (f_top_l _ _ Vwf_top Vwf_top top_is_top). reflexivity.
Qed.
End Lub.

(* ---------------------------------------------------------------- & , && (neutral) *)

Section Glb.
Variable g : V -> V -> V.
Hypothesis g_wf : forall x y, Vwf x -> Vwf y -> Vwf (g x y).
Hypothesis g_top_r : forall x, good x -> g x vtop = x.
Hypothesis g_top_l : forall y, good y -> g vtop y = y.
Hypothesis g_top_top : g vtop vtop = vtop.
Hypothesis g_not_top :
  forall x y, good x -> good y -> v_is_bot (g x y) = false -> v_is_top (g x y) = false.

Notation glb_ := (s_glb V v_is_bot veq g).

Theorem glb_spec a b :
  sep_ok a -> sep_ok b ->
  sep_ok (glb_ a b) /\
  (sbot a = true \/ sbot b = true -> sbot (glb_ a b) = true) /\
  (sbot a = false -> sbot b = false ->
   (sbot (glb_ a b) = true <-> exists k, v_is_bot (g (at_ a k) (at_ b k)) = true) /\
   (sbot (glb_ a b) = false -> forall k, at_ (glb_ a b) k = g (at_ a k) (at_ b k))).
Proof.
  intros Oa Ob. pose proof Oa as (Wa & Ga & _). pose proof Ob as (Wb & Gb & _).
  unfold s_glb. destruct (sbot a) eqn:Ha.
  { cbn [orb]. split; [apply sep_ok_bottom|]. split; [reflexivity|discriminate]. }
  destruct (sbot b) eqn:Hb.
  { cbn [orb]. split; [apply sep_ok_bottom|]. split; [reflexivity|discriminate]. }
  cbn [orb].
  pose proof (pmerge_spec V veq good veq_good (glb_op V v_is_bot g) true _ _ Wa Wb Ga Gb) as M.
  unfold pt_merge_with. destruct (pmerge veq (glb_op V v_is_bot g) true (stree a) (stree b))
    as [bt r] eqn:EM.
  unfold pmerge_result, mres in M. cbn [fst snd] in M.
  (* the pointwise combination, whatever the flag *)
  assert (PW : forall k, g (at_ a k) (at_ b k) =
               match pget (stree a) k, pget (stree b) k with
               | Some x, Some y => g x y | Some x, None => x | None, Some y => y
               | None, None => vtop end).
  { intros k. rewrite (at_pget a k Oa Ha), (at_pget b k Ob Hb).
    destruct (pget (stree a) k) as [x|] eqn:Ea; destruct (pget (stree b) k) as [y|] eqn:Eb.
    - reflexivity.
    - apply g_top_r. apply (Ga k x Ea).
    - apply g_top_l. apply (Gb k y Eb).
    - exact g_top_top. }
  destruct bt.
  - destruct M as (_ & k & x & y & Ex & Ey & H). cbn [fst snd].
    split; [apply sep_ok_bottom|]. split; [reflexivity|]. intros _ _. split.
    + split; [intros _|reflexivity]. exists k. rewrite PW, Ex, Ey.
      unfold app_op, glb_op in H. cbn [bapply] in H.
      destruct (v_is_bot (g x y)); [reflexivity|discriminate].
    + cbn [sbot sep_bottom]. discriminate.
  - destruct M as (Wr & _ & Gr & Nb). cbn [fst snd].
    assert (Okr : sep_ok (mkSep false r)).
    { apply mk_ok; [exact Wr|]. intros k v. rewrite Gr.
      destruct (pget (stree a) k) as [x|] eqn:Ea; destruct (pget (stree b) k) as [y|] eqn:Eb;
        cbn [comb glb_op babsorbing app_op bapply]; try discriminate.
      - destruct (v_is_bot (g x y)) eqn:Bxy; cbn [snd]; [discriminate|].
        intros E; inversion E; subst.
        pose proof (Ga k x Ea) as Gx. pose proof (Gb k y Eb) as Gy.
        split; [apply g_wf; [apply Gx|apply Gy]|]. split; [apply g_not_top; auto|exact Bxy].
      - intros E; inversion E; subst. apply (Ga k v Ea).
      - intros E; inversion E; subst. apply (Gb k v Eb). }
    split; [exact Okr|]. split; [intros [H|H]; discriminate|]. intros _ _. split.
    + cbn [sbot]. split; [discriminate|]. intros [k H]. exfalso. rewrite PW in H.
      destruct (pget (stree a) k) as [x|] eqn:Ea; destruct (pget (stree b) k) as [y|] eqn:Eb.
      * specialize (Nb k x y Ea Eb). unfold app_op, glb_op in Nb. cbn [bapply] in Nb.
        rewrite H in Nb. discriminate.
      * destruct (Ga k x Ea) as (_ & _ & B). congruence.
      * destruct (Gb k y Eb) as (_ & _ & B). congruence.
      * congruence.
    + intros _ k. rewrite PW, (at_pget _ k Okr eq_refl). cbn [stree]. rewrite Gr.
      destruct (pget (stree a) k) as [x|] eqn:Ea; destruct (pget (stree b) k) as [y|] eqn:Eb;
        cbn [comb glb_op babsorbing app_op bapply]; try reflexivity.
      specialize (Nb k x y Ea Eb). unfold app_op, glb_op in Nb. cbn [bapply] in Nb.
      destruct (v_is_bot (g x y)); [discriminate|reflexivity].
Qed.
End Glb.


(* ---------------------------------------------------------------- iteration, size *)

Theorem elements_spec a :
  sep_ok a -> sbot a = false ->
  exists l, s_elements a = Some l /\ StronglySorted key_lt l /\
            forall k v, In (k, v) l <-> (at_ a k = v /\ v_is_top v = false).
Proof.
  intros Ok Hb. pose proof Ok as (W & O & _). exists (pelements (stree a)).
  unfold s_elements. rewrite Hb. split; [reflexivity|]. split; [apply pelements_sorted; exact W|].
  intros k v. rewrite (pelements_in V _ k v W). split.
  - intros G. rewrite (at_pget a k Ok Hb), G. split; [reflexivity|]. apply (O k v G).
  - intros [E T]. subst v. apply at_bound; assumption.
Qed.

Theorem size_spec a :
  sep_ok a ->
  s_size a = if sbot a then Some 0
             else if s_is_top a then None
             else Some (N.of_nat (length (pelements (stree a)))).
Proof.
  intros _. unfold s_size. destruct (sbot a); [reflexivity|].
  destruct (s_is_top a); [reflexivity|]. rewrite psize_elements. reflexivity.
Qed.

(* ---------------------------------------------------------------- project *)

Lemma mem_keys_in k l : mem_keys k l = true <-> In k l.
Proof.
  unfold mem_keys. rewrite existsb_exists. split.
  - intros [x [H1 H2]]. apply N.eqb_eq in H2. subst. exact H1.
  - intros H. exists k. split; [exact H|apply N.eqb_refl].
Qed.

Lemma mem_keys_cons k x l : mem_keys k (x :: l) = (k =? x) || mem_keys k l.
Proof. reflexivity. Qed.

Lemma forget_pairs_spec (l : list (N * V)) : forall a,
  sep_ok a -> sbot a = false ->
  sep_ok (fold_left (fun a' kv => forget_ a' (fst kv)) l a) /\
  sbot (fold_left (fun a' kv => forget_ a' (fst kv)) l a) = false /\
  forall k, at_ (fold_left (fun a' kv => forget_ a' (fst kv)) l a) k =
            if mem_keys k (map fst l) then vtop else at_ a k.
Proof.
  induction l as [|[k0 v0] l IH]; intros a Ok Hb.
  - cbn. auto.
  - cbn [fold_left fst map]. destruct (forget_spec a k0 Ok) as (F1 & F2 & F3).
    rewrite Hb in F2. specialize (F3 Hb).
    destruct (IH _ F1 F2) as (I1 & I2 & I3). split; [exact I1|]. split; [exact I2|].
    intros k. rewrite I3, F3, mem_keys_cons.
    destruct (k =? k0); destruct (mem_keys k (map fst l)); reflexivity.
Qed.

Lemma project_copy_fold a : sep_ok a -> sbot a = false ->
  forall keys env, sep_ok env -> sbot env = false ->
  sep_ok (fold_left (fun env key => set_ env key (at_ a key)) keys env) /\
  sbot (fold_left (fun env key => set_ env key (at_ a key)) keys env) = false /\
  forall k, at_ (fold_left (fun env key => set_ env key (at_ a key)) keys env) k =
            if mem_keys k keys then at_ a k else at_ env k.
Proof.
  intros Ok Hb. induction keys as [|key keys IH]; intros env Oe He.
  - cbn. auto.
  - cbn [fold_left].
    destruct (set_spec env key (at_ a key) Oe (at_wf a key Ok Hb)) as (S1 & S2 & S3).
    rewrite He, (at_not_bot a key Ok Hb) in S2, S3. cbn [orb] in S2, S3. specialize (S3 eq_refl).
    destruct (IH _ S1 S2) as (I1 & I2 & I3). split; [exact I1|]. split; [exact I2|].
    intros k. rewrite I3, S3, mem_keys_cons, (ntop_at a key Ok Hb).
    destruct (N.eqb_spec k key) as [->|]; cbn [orb]; [|reflexivity].
    destruct (mem_keys key keys); reflexivity.
Qed.

Notation project_ := (s_project V vtop vbot v_is_top v_is_bot veq).

Theorem project_spec a keys :
  sep_ok a ->
  sep_ok (project_ a keys) /\ sbot (project_ a keys) = sbot a /\
  (sbot a = false ->
   forall k, at_ (project_ a keys) k = if mem_keys k keys then at_ a k else vtop).
Proof.
  intros Ok. pose proof Ok as (W & O & _). unfold s_project.
  destruct (sbot a) eqn:Hb; cbn [orb].
  { split; [exact Ok|]. split; [exact Hb|discriminate]. }
  destruct (s_is_top a) eqn:Ht.
  { split; [exact Ok|]. split; [exact Hb|]. intros _ k.
    assert (E : stree a = None).
    { unfold s_is_top in Ht. rewrite Hb in Ht. cbn [negb andb] in Ht.
      apply N.eqb_eq in Ht. apply psize_zero in Ht. exact Ht. }
    rewrite (at_pget a k Ok Hb), E. cbn [pget]. destruct (mem_keys k keys); reflexivity. }
  destruct (project_copies (psize (stree a)) (N.of_nat (length keys))).
  - unfold s_project_copy.
    destruct (project_copy_fold a Ok Hb keys sep_top sep_ok_top eq_refl) as (P1 & P2 & P3).
    split; [exact P1|]. split; [exact P2|]. intros _ k. rewrite P3. reflexivity.
  - unfold s_project_remove.
    destruct (forget_pairs_spec
                (filter (fun kv => negb (mem_keys (fst kv) keys)) (pelements (stree a))) a Ok Hb)
      as (P1 & P2 & P3).
    split; [exact P1|]. split; [exact P2|]. intros _ k. rewrite P3.
    destruct (mem_keys k keys) eqn:Mk.
    + destruct (mem_keys k (map fst (filter (fun kv => negb (mem_keys (fst kv) keys))
                                            (pelements (stree a))))) eqn:Mf; [|reflexivity].
      exfalso. apply mem_keys_in in Mf. apply in_map_iff in Mf.
      destruct Mf as [[k1 v1] [E1 E2]]. cbn [fst] in E1. subst k1.
      apply filter_In in E2. destruct E2 as [_ E2]. cbn [fst] in E2. rewrite Mk in E2. discriminate.
    + destruct (pget (stree a) k) as [v|] eqn:G.
      * assert (Mf : mem_keys k (map fst (filter (fun kv => negb (mem_keys (fst kv) keys))
                                                  (pelements (stree a)))) = true).
        { apply mem_keys_in. apply in_map_iff. exists (k, v). split; [reflexivity|].
          apply filter_In. split; [apply (pelements_in V _ k v W); exact G|].
          cbn [fst]. rewrite Mk. reflexivity. }
        rewrite Mf. reflexivity.
      * rewrite (at_pget a k Ok Hb), G.
        destruct (mem_keys k (map fst (filter (fun kv => negb (mem_keys (fst kv) keys))
                                              (pelements (stree a))))); reflexivity.
Qed.

(* ---------------------------------------------------------------- rename *)

(* the source of key k under the renaming l = [(from_i, to_i)] *)
Fixpoint rn_src (l : list (N * N)) (k : N) : option N :=
  match l with
  | [] => None
  | (f, t) :: l' => if k =? t then Some f else rn_src l' k
  end.

Lemma rn_src_some l k f : rn_src l k = Some f -> In f (map fst l) /\ In k (map snd l).
Proof.
  induction l as [|[f0 t0] l IH]; cbn [rn_src map fst snd In]; [discriminate|].
  destruct (N.eqb_spec k t0) as [->|].
  - intros E; inversion E; subst. auto.
  - intros E. destruct (IH E). auto.
Qed.

Lemma rn_src_none l k : ~ In k (map snd l) -> rn_src l k = None.
Proof.
  intros H. destruct (rn_src l k) eqn:E; [|reflexivity].
  exfalso. apply H. eapply rn_src_some; eauto.
Qed.

Lemma mem_keys_false k l : ~ In k l -> mem_keys k l = false.
Proof.
  intros H. destruct (mem_keys k l) eqn:E; [|reflexivity].
  exfalso; apply H; apply mem_keys_in; exact E.
Qed.

Lemma rename_steps_spec : forall (l : list (N * N)) (t : ptree V),
  wfp t -> pall_ok good t ->
  NoDup (map fst l) -> NoDup (map snd l) ->
  (forall x, In x (map snd l) -> ~ In x (map fst l)) ->
  (forall x, In x (map snd l) -> pget t x = None) ->
  wfp (fold_left (rename_step V v_is_top veq) l t) /\
  pall_ok good (fold_left (rename_step V v_is_top veq) l t) /\
  forall k, pget (fold_left (rename_step V v_is_top veq) l t) k =
            match rn_src l k with
            | Some f => pget t f
            | None => if mem_keys k (map fst l) then None else pget t k
            end.
Proof.
  induction l as [|[f nk] l IH]; intros t W O N1 N2 D F.
  - cbn. auto.
  - cbn [map fst snd] in *. inversion N1 as [|? ? Nf N1']; subst.
    inversion N2 as [|? ? Nn N2']; subst.
    assert (Hfn : f <> nk).
    { intros ->. apply (D nk); left; reflexivity. }
    assert (D' : forall x, In x (map snd l) -> ~ In x (map fst l)).
    { intros x Hx Hx'. apply (D x); right; assumption. }
    assert (Dn : ~ In nk (map fst l)).
    { intros H. apply (D nk); [left; reflexivity|right; exact H]. }
    cbn [fold_left]. unfold rename_step at 2 4 6.
    destruct (N.eqb_spec f nk) as [|_]; [congruence|].
    rewrite (plookup_pget _ _ _ W). destruct (pget t f) as [v|] eqn:G.
    + destruct (O f v G) as (Gw & Gt & Gb). rewrite Gt.
      destruct (pt_insert_spec V veq good veq_good t nk v W O) as (W2 & _ & G2).
      destruct (premove_spec V (pt_insert veq t nk v) f W2) as (W1 & _ & G1).
      set (t1 := premove (pt_insert veq t nk v) f) in *.
      assert (G1' : forall k, pget t1 k = if k =? f then None
                                          else if k =? nk then Some v else pget t k).
      { intros k. rewrite G1, G2. reflexivity. }
      assert (O1 : pall_ok good t1).
      { intros k v0. rewrite G1'. destruct (k =? f); [discriminate|].
        destruct (k =? nk); [|apply O]. intros E; inversion E; subst. repeat split; auto. }
      assert (F1 : forall x, In x (map snd l) -> pget t1 x = None).
      { intros x Hx. rewrite G1'.
        destruct (N.eqb_spec x f) as [->|]; [reflexivity|].
        destruct (N.eqb_spec x nk) as [->|]; [contradiction|].
        apply F. right; exact Hx. }
      destruct (IH t1 W1 O1 N1' N2' D' F1) as (I1 & I2 & I3).
      split; [exact I1|]. split; [exact I2|]. intros k. rewrite I3.
      cbn [rn_src]. rewrite mem_keys_cons.
      destruct (N.eqb_spec k nk) as [->|Hk].
      * rewrite (rn_src_none l nk Nn), (mem_keys_false nk _ Dn), G1'.
        destruct (N.eqb_spec nk f); [congruence|]. rewrite N.eqb_refl, G. reflexivity.
      * destruct (rn_src l k) as [f'|] eqn:R.
        -- destruct (rn_src_some _ _ _ R) as [Hf' _]. rewrite G1'.
           destruct (N.eqb_spec f' f) as [->|]; [contradiction|].
           destruct (N.eqb_spec f' nk) as [->|]; [contradiction|]. reflexivity.
        -- destruct (N.eqb_spec k f) as [->|Hkf]; cbn [orb].
           ++ rewrite (mem_keys_false f _ Nf), G1', N.eqb_refl. reflexivity.
           ++ destruct (mem_keys k (map fst l)); [reflexivity|]. rewrite G1'.
              destruct (N.eqb_spec k f); [congruence|].
              destruct (N.eqb_spec k nk); [congruence|]. reflexivity.
    + assert (F1 : forall x, In x (map snd l) -> pget t x = None).
      { intros x Hx. apply F. right; exact Hx. }
      destruct (IH t W O N1' N2' D' F1) as (I1 & I2 & I3).
      split; [exact I1|]. split; [exact I2|]. intros k. rewrite I3.
      cbn [rn_src]. rewrite mem_keys_cons.
      destruct (N.eqb_spec k nk) as [->|Hk].
      * rewrite (rn_src_none l nk Nn), (mem_keys_false nk _ Dn), G.
        apply F. left; reflexivity.
      * destruct (rn_src l k) as [f'|] eqn:R; [reflexivity|].
        destruct (N.eqb_spec k f) as [->|Hkf]; cbn [orb]; [|reflexivity].
        rewrite (mem_keys_false f _ Nf). exact G.
Qed.

Lemma combine_maps (l1 l2 : list N) :
  length l1 = length l2 ->
  map fst (combine l1 l2) = l1 /\ map snd (combine l1 l2) = l2.
Proof.
  revert l2. induction l1 as [|x l1 IH]; intros [|y l2] H; cbn in *; try discriminate; auto.
  destruct (IH l2) as [E1 E2]; [congruence|]. rewrite E1, E2. auto.
Qed.

(* rename(from, to), under its documented precondition: the targets are distinct, do not
   occur among the sources and are unconstrained (top) in the environment *)
Theorem rename_spec a from to r :
  sep_ok a -> s_rename V v_is_top veq a from to = Some r ->
  NoDup from -> NoDup to -> (forall x, In x to -> ~ In x from) ->
  (sbot a = false -> forall x, In x to -> v_is_top (at_ a x) = true) ->
  sep_ok r /\ sbot r = sbot a /\
  (sbot a = false ->
   forall k, at_ r k = match rn_src (combine from to) k with
                       | Some f => at_ a f
                       | None => if mem_keys k from then vtop else at_ a k
                       end).
Proof.
  intros Ok HR N1 N2 D T. pose proof Ok as (W & O & _). unfold s_rename in HR.
  destruct (sbot a) eqn:Hb.
  { rewrite orb_true_r in HR. inversion HR; subst. split; [exact Ok|]. split; [exact Hb|discriminate]. }
  rewrite orb_false_r in HR. destruct (s_is_top a) eqn:Ht.
  { inversion HR; subst. split; [exact Ok|]. split; [exact Hb|]. intros _ k.
    assert (E : stree r = None).
    { unfold s_is_top in Ht. rewrite Hb in Ht. cbn [negb andb] in Ht.
      apply N.eqb_eq in Ht. apply psize_zero in Ht. exact Ht. }
    assert (A : forall k0, at_ r k0 = vtop).
    { intros k0. rewrite (at_pget r k0 Ok Hb), E. reflexivity. }
    rewrite (A k). destruct (rn_src (combine from to) k); [symmetry; apply A|].
    destruct (mem_keys k from); reflexivity. }
  destruct (Nat.eqb (length from) (length to)) eqn:EL; cbn [negb] in HR; [|discriminate].
  apply Nat.eqb_eq in EL. inversion HR; subst. clear HR.
  destruct (combine_maps from to EL) as [M1 M2].
  assert (F : forall x, In x (map snd (combine from to)) -> pget (stree a) x = None).
  { rewrite M2. intros x Hx. specialize (T eq_refl x Hx).
    rewrite (at_pget a x Ok Hb) in T. destruct (pget (stree a) x) as [v|] eqn:G; [|reflexivity].
    destruct (O x v G) as (_ & Tv & _). congruence. }
  destruct (rename_steps_spec (combine from to) (stree a) W O) as (R1 & R2 & R3);
    [rewrite M1; exact N1|rewrite M2; exact N2|rewrite M1, M2; exact D|exact F|].
  assert (Okr : sep_ok (mkSep false (fold_left (rename_step V v_is_top veq) (combine from to)
                                                (stree a)))) by (apply mk_ok; assumption).
  split; [exact Okr|]. split; [reflexivity|]. intros _ k.
  rewrite (at_pget _ k Okr eq_refl). cbn [stree]. rewrite R3, M1.
  destruct (rn_src (combine from to) k) as [f|]; [rewrite (at_pget a f Ok Hb); reflexivity|].
  destruct (mem_keys k from); [reflexivity|]. rewrite (at_pget a k Ok Hb). reflexivity.
Qed.

End SepSound.
