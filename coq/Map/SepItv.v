(* SepItv.v — the value lattice ikos::interval<z_number> (Scalar/Itv.v) satisfies the laws
   required by Map/SepDomainSound.v, so that every theorem of that file applies to the
   instance run against the C++ by the correspondence harness (this is also the
   non-vacuity witness of the section hypotheses).  Refutations of the three pieces of
   code as they were before fixes/patricia-{1,2,3}.diff are at the end. *)
From Coq Require Import NArith ZArith Bool List Lia.
From CrabV Require Import Base.ZInf Scalar.Itv Map.Patricia Map.PatriciaSpec Map.SepDomain
     Map.SepDomainSound Map.DiscreteDomain.
Import ListNotations.

(* no junk infinities: what every interval built through the public API satisfies *)
Definition iwf (i : itv) : Prop := lb i <> PInf /\ ub i <> MInf.

Definition igood := good itv is_top is_bot iwf.

Ltac zcases :=
  repeat match goal with
         | |- context [Z.leb ?a ?b] => destruct (Z.leb_spec a b)
         | H : context [Z.leb ?a ?b] |- _ => destruct (Z.leb_spec a b)
         end.

Ltac itv_destruct x :=
  let l := fresh "l" in let u := fresh "u" in destruct x as [l u]; destruct l, u.

Ltac itv_unfold :=
  unfold iwf, igood, good, ijoin, imeet, iwiden, iwiden_thr, inarrow, ileq, ieq, imk, is_bot, is_top,
    itop, ibot, bgt, blt, bge, bmin, bmax, b_is_finite in *; cbn [lb ub ble beqb negb andb orb] in *.

Ltac itv_solve :=
  itv_unfold; intuition (try congruence);
  repeat (progress (zcases; cbn [lb ub ble beqb negb andb orb] in * ));
  try congruence; try lia; try (f_equal; f_equal; lia).

Lemma iwf_top : iwf itop.
Proof. itv_solve. Qed.

Lemma iwf_bot : iwf ibot.
Proof. itv_solve. Qed.

Lemma ieq_good x y : igood x -> ieq y x = true -> y = x.
Proof.
  intros G H. itv_destruct x; itv_destruct y; itv_solve;
    repeat match goal with
           | H : (_ =? _)%Z = true |- _ => apply Z.eqb_eq in H; subst
           | H : (_ =? _)%Z && (_ =? _)%Z = true |- _ => apply andb_true_iff in H; destruct H
           | H : _ && _ = true |- _ => apply andb_true_iff in H; destruct H
           end; try reflexivity; try discriminate.
Qed.

(* ---------------------------------------------------------------- join-like operators *)

Lemma ijoin_wf x y : iwf x -> iwf y -> iwf (ijoin x y).
Proof. intros; itv_destruct x; itv_destruct y; itv_solve. Qed.
Lemma ijoin_not_bot x y : is_bot x = false -> is_bot y = false -> is_bot (ijoin x y) = false.
Proof. intros; itv_destruct x; itv_destruct y; itv_solve. Qed.
Lemma ijoin_top_l x y : iwf x -> iwf y -> is_top x = true -> is_top (ijoin x y) = true.
Proof. intros; itv_destruct x; itv_destruct y; itv_solve. Qed.
Lemma ijoin_top_r x y : iwf x -> iwf y -> is_top y = true -> is_top (ijoin x y) = true.
Proof. intros; itv_destruct x; itv_destruct y; itv_solve. Qed.

Lemma iwiden_wf x y : iwf x -> iwf y -> iwf (iwiden x y).
Proof. intros; itv_destruct x; itv_destruct y; itv_solve. Qed.
Lemma iwiden_not_bot x y : is_bot x = false -> is_bot y = false -> is_bot (iwiden x y) = false.
Proof. intros; itv_destruct x; itv_destruct y; itv_solve. Qed.
Lemma iwiden_top_l x y : iwf x -> iwf y -> is_top x = true -> is_top (iwiden x y) = true.
Proof. intros; itv_destruct x; itv_destruct y; itv_solve. Qed.
Lemma iwiden_top_r x y : iwf x -> iwf y -> is_top y = true -> is_top (iwiden x y) = true.
Proof. intros; itv_destruct x; itv_destruct y; itv_solve. Qed.

(* widening with thresholds, for any pair of threshold functions that move outwards *)
Section Thr.
Variables gp gn : bound -> bound.
Hypothesis gp_le : forall v, ble (gp v) v = true.
Hypothesis gn_ge : forall v, ble v (gn v) = true.
Hypothesis gp_not_pinf : forall v, gp v <> PInf.
Hypothesis gn_not_minf : forall v, gn v <> MInf.

Lemma gp_minf : gp MInf = MInf.
Proof. pose proof (gp_le MInf). destruct (gp MInf); simpl in *; congruence. Qed.
Lemma gn_pinf : gn PInf = PInf.
Proof. pose proof (gn_ge PInf). destruct (gn PInf); simpl in *; congruence. Qed.

Lemma iwiden_thr_wf x y : iwf x -> iwf y -> iwf (iwiden_thr gp gn x y).
Proof.
  intros Hx Hy. unfold iwiden_thr. destruct (is_bot x); [exact Hy|].
  destruct (is_bot y); [exact Hx|]. unfold imk.
  destruct (bgt _ _); [apply iwf_bot|]. unfold iwf in *. cbn [lb ub].
  destruct Hx, Hy. split.
  - destruct (blt (lb y) (lb x)); [apply gp_not_pinf|assumption].
  - destruct (blt (ub x) (ub y)); [apply gn_not_minf|assumption].
Qed.

Lemma iwiden_thr_not_bot x y :
  is_bot x = false -> is_bot y = false -> is_bot (iwiden_thr gp gn x y) = false.
Proof.
  intros Hx Hy. unfold iwiden_thr. rewrite Hx, Hy.
  assert (Lx : ble (lb x) (ub x) = true).
  { unfold is_bot, bgt in Hx. destruct (ble (lb x) (ub x)); [reflexivity|discriminate]. }
  assert (Ly : ble (lb y) (ub y) = true).
  { unfold is_bot, bgt in Hy. destruct (ble (lb y) (ub y)); [reflexivity|discriminate]. }
  assert (L : ble (if blt (lb y) (lb x) then gp (lb y) else lb x)
                  (if blt (ub x) (ub y) then gn (ub y) else ub x) = true).
  { unfold blt, bge. destruct (ble (lb x) (lb y)) eqn:E1; destruct (ble (ub y) (ub x)) eqn:E2;
      cbn [negb].
    - exact Lx.
    - eapply ble_trans; [exact Lx|]. eapply ble_trans; [|apply gn_ge].
      apply ble_false_flip; exact E2.
    - eapply ble_trans; [apply gp_le|]. eapply ble_trans; [|exact Lx].
      apply ble_false_flip; exact E1.
    - eapply ble_trans; [apply gp_le|]. eapply ble_trans; [exact Ly|apply gn_ge]. }
  unfold imk, bgt. rewrite L. cbn [negb]. unfold is_bot, bgt. cbn [lb ub]. rewrite L. reflexivity.
Qed.

Lemma iwiden_thr_top_l x y :
  iwf x -> iwf y -> is_top x = true -> is_top (iwiden_thr gp gn x y) = true.
Proof.
  intros Hx Hy Ht. itv_destruct x; try (itv_unfold; intuition congruence).
  unfold iwiden_thr. cbn [is_bot bgt ble lb ub negb].
  destruct (is_bot y); [reflexivity|].
  unfold blt, bge. cbn [lb ub ble negb].
  replace (ble (ub y) PInf) with true by (destruct (ub y); reflexivity). reflexivity.
Qed.

Lemma iwiden_thr_top_r x y :
  iwf x -> iwf y -> is_top y = true -> is_top (iwiden_thr gp gn x y) = true.
Proof.
  intros Hx Hy Ht. itv_destruct y; try (itv_unfold; intuition congruence).
  unfold iwiden_thr. destruct (is_bot x); [reflexivity|].
  cbn [is_bot bgt ble lb ub negb]. unfold blt, bge. cbn [lb ub].
  rewrite gp_minf, gn_pinf. destruct Hx as [H1 H2].
  destruct (lb x), (ub x); cbn [ble negb]; try congruence; reflexivity.
Qed.
End Thr.

(* the thresholds of the harness *)
Lemma thr_next_ge ts : forall v, ble v (thr_next ts v) = true.
Proof.
  induction ts as [|t ts IH]; intros v; destruct v; cbn [thr_next ble]; try reflexivity.
  - unfold blt, bge. cbn [ble negb]. destruct (Z.leb_spec t z); cbn [negb].
    + apply (IH (Fin z)).
    + cbn [ble]. apply Z.leb_le. lia.
Qed.
Lemma thr_next_not_minf ts : forall v, thr_next ts v <> MInf.
Proof.
  induction ts as [|t ts IH]; intros v; destruct v; cbn [thr_next]; try congruence.
  - destruct (blt MInf (Fin t)); [congruence|apply (IH MInf)].
  - destruct (blt (Fin z) (Fin t)); [congruence|apply (IH (Fin z))].
Qed.
Lemma thr_prev_fold ts v : forall acc,
  ble acc v = true -> acc <> PInf ->
  ble (fold_left (fun acc t => if blt (Fin t) v then Fin t else acc) ts acc) v = true /\
  fold_left (fun acc t => if blt (Fin t) v then Fin t else acc) ts acc <> PInf.
Proof.
  induction ts as [|t ts IH]; intros acc H1 H2; cbn [fold_left]; [auto|].
  apply IH.
  - destruct (blt (Fin t) v) eqn:E; [|exact H1].
    unfold blt, bge in E. apply ble_false_flip. destruct (ble v (Fin t)); [discriminate|reflexivity].
  - destruct (blt (Fin t) v); [congruence|exact H2].
Qed.
Lemma thr_prev_le ts v : ble (thr_prev ts v) v = true.
Proof.
  destruct v; cbn [thr_prev]; try reflexivity; apply thr_prev_fold; cbn; congruence.
Qed.
Lemma thr_prev_not_pinf ts v : thr_prev ts v <> PInf.
Proof.
  destruct v; cbn [thr_prev]; try congruence; apply thr_prev_fold; cbn; congruence.
Qed.

(* ---------------------------------------------------------------- meet-like operators *)

Lemma imeet_wf x y : iwf x -> iwf y -> iwf (imeet x y).
Proof. intros; itv_destruct x; itv_destruct y; itv_solve. Qed.
Lemma imeet_top_r x : igood x -> imeet x itop = x.
Proof. intros; itv_destruct x; itv_solve. Qed.
Lemma imeet_top_l y : igood y -> imeet itop y = y.
Proof. intros; itv_destruct y; itv_solve. Qed.
Lemma imeet_top_top : imeet itop itop = itop.
Proof. reflexivity. Qed.
Lemma imeet_not_top x y :
  igood x -> igood y -> is_bot (imeet x y) = false -> is_top (imeet x y) = false.
Proof. intros; itv_destruct x; itv_destruct y; itv_solve. Qed.

Lemma inarrow_wf x y : iwf x -> iwf y -> iwf (inarrow x y).
Proof. intros; itv_destruct x; itv_destruct y; itv_solve. Qed.
Lemma inarrow_top_r x : igood x -> inarrow x itop = x.
Proof. intros; itv_destruct x; itv_solve. Qed.
Lemma inarrow_top_l y : igood y -> inarrow itop y = y.
Proof. intros; itv_destruct y; itv_solve. Qed.
Lemma inarrow_top_top : inarrow itop itop = itop.
Proof. reflexivity. Qed.
Lemma inarrow_not_top x y :
  igood x -> igood y -> is_bot (inarrow x y) = false -> is_top (inarrow x y) = false.
Proof. intros; itv_destruct x; itv_destruct y; itv_solve. Qed.

(* ---------------------------------------------------------------- order *)

Lemma ileq_top_top : ileq itop itop = true.
Proof. reflexivity. Qed.
Lemma ileq_good_top x : igood x -> ileq x itop = true.
Proof. intros; itv_destruct x; itv_solve. Qed.
Lemma ileq_top_good y : igood y -> ileq itop y = false.
Proof. intros; itv_destruct y; itv_solve. Qed.

(* ---------------------------------------------------------------- the instance *)
Local Open Scope N_scope.

Definition ie_ok : ienv -> Prop := sep_ok itv is_top is_bot iwf.

Lemma ntop_itv v : iwf v -> ntop itv itop is_top v = v.
Proof. intros H. unfold ntop. itv_destruct v; itv_solve. Qed.

Lemma ie_ok_top : ie_ok ie_top.
Proof. apply sep_ok_top. Qed.
Lemma ie_ok_bottom : ie_ok ie_bottom.
Proof. apply sep_ok_bottom. Qed.

Theorem ie_set_spec a k v :
  ie_ok a -> iwf v ->
  ie_ok (ie_set a k v) /\ sbot (ie_set a k v) = sbot a || is_bot v /\
  (sbot a || is_bot v = false ->
   forall k', ie_at (ie_set a k v) k' = if k' =? k then v else ie_at a k').
Proof.
  intros Ok Hv. destruct (set_spec itv itop ibot is_top is_bot ieq iwf ieq_good a k v Ok Hv)
    as (H1 & H2 & H3).
  split; [exact H1|]. split; [exact H2|]. intros Hb k'. unfold ie_at, ie_set.
  rewrite (H3 Hb k'), (ntop_itv v Hv). reflexivity.
Qed.

Theorem ie_forget_spec a k :
  ie_ok a ->
  ie_ok (ie_forget a k) /\ sbot (ie_forget a k) = sbot a /\
  (sbot a = false -> forall k', ie_at (ie_forget a k) k' = if k' =? k then itop else ie_at a k').
Proof. exact (forget_spec itv itop ibot is_top is_bot iwf a k). Qed.

Lemma ie_at_wf a k : ie_ok a -> sbot a = false -> iwf (ie_at a k).
Proof. exact (at_wf itv itop ibot is_top is_bot iwf iwf_top a k). Qed.

Theorem ie_join_kv_spec a k v :
  ie_ok a -> iwf v ->
  ie_ok (ie_join_kv a k v) /\ sbot (ie_join_kv a k v) = sbot a || is_bot v /\
  (sbot a || is_bot v = false ->
   forall k', ie_at (ie_join_kv a k v) k' = if k' =? k then ijoin (ie_at a k) v else ie_at a k').
Proof.
  intros Ok Hv.
  destruct (join_kv_spec itv itop ibot is_top is_bot ieq iwf iwf_top eq_refl ieq_good ijoin
              ijoin_wf ijoin_not_bot ijoin_top_l ijoin_top_r a k v Ok Hv) as (H1 & H2 & H3).
  split; [exact H1|]. split; [exact H2|]. intros Hb k'. unfold ie_at, ie_join_kv.
  rewrite (H3 Hb k'). destruct (k' =? k); [|reflexivity].
  apply ntop_itv. apply ijoin_wf; [|exact Hv].
  apply ie_at_wf; [exact Ok|]. destruct (sbot a); [discriminate|reflexivity].
Qed.

Section ItvLub.
Variable f : itv -> itv -> itv.
Hypothesis f_wf : forall x y, iwf x -> iwf y -> iwf (f x y).
Hypothesis f_not_bot : forall x y, is_bot x = false -> is_bot y = false -> is_bot (f x y) = false.
Hypothesis f_top_l : forall x y, iwf x -> iwf y -> is_top x = true -> is_top (f x y) = true.
Hypothesis f_top_r : forall x y, iwf x -> iwf y -> is_top y = true -> is_top (f x y) = true.

Lemma ie_lub_spec a b :
  ie_ok a -> ie_ok b ->
  ie_ok (s_lub itv is_top ieq f a b) /\
  (sbot a = true -> s_lub itv is_top ieq f a b = b) /\
  (sbot a = false -> sbot b = true -> s_lub itv is_top ieq f a b = a) /\
  (sbot a = false -> sbot b = false ->
   sbot (s_lub itv is_top ieq f a b) = false /\
   forall k, ie_at (s_lub itv is_top ieq f a b) k = f (ie_at a k) (ie_at b k)).
Proof.
  intros Oa Ob.
  destruct (lub_spec itv itop ibot is_top is_bot ieq iwf iwf_top eq_refl ieq_good f
              f_wf f_not_bot f_top_l f_top_r a b Oa Ob) as (H1 & H2 & H3 & H4).
  split; [exact H1|]. split; [exact H2|]. split; [exact H3|]. intros Ha Hb.
  destruct (H4 Ha Hb) as [H5 H6]. split; [exact H5|]. intros k. unfold ie_at. rewrite H6.
  apply ntop_itv. apply f_wf; apply ie_at_wf; assumption.
Qed.
End ItvLub.

Theorem ie_join_spec a b :
  ie_ok a -> ie_ok b ->
  ie_ok (ie_join a b) /\ (sbot a = true -> ie_join a b = b) /\
  (sbot a = false -> sbot b = true -> ie_join a b = a) /\
  (sbot a = false -> sbot b = false ->
   sbot (ie_join a b) = false /\ forall k, ie_at (ie_join a b) k = ijoin (ie_at a k) (ie_at b k)).
Proof. exact (ie_lub_spec ijoin ijoin_wf ijoin_not_bot ijoin_top_l ijoin_top_r a b). Qed.

Theorem ie_widen_spec a b :
  ie_ok a -> ie_ok b ->
  ie_ok (ie_widen a b) /\ (sbot a = true -> ie_widen a b = b) /\
  (sbot a = false -> sbot b = true -> ie_widen a b = a) /\
  (sbot a = false -> sbot b = false ->
   sbot (ie_widen a b) = false /\ forall k, ie_at (ie_widen a b) k = iwiden (ie_at a k) (ie_at b k)).
Proof. exact (ie_lub_spec iwiden iwiden_wf iwiden_not_bot iwiden_top_l iwiden_top_r a b). Qed.

Theorem ie_widen_thr_spec ts a b :
  ie_ok a -> ie_ok b ->
  ie_ok (ie_widen_thr ts a b) /\ (sbot a = true -> ie_widen_thr ts a b = b) /\
  (sbot a = false -> sbot b = true -> ie_widen_thr ts a b = a) /\
  (sbot a = false -> sbot b = false ->
   sbot (ie_widen_thr ts a b) = false /\
   forall k, ie_at (ie_widen_thr ts a b) k =
             iwiden_thr (thr_prev ts) (thr_next ts) (ie_at a k) (ie_at b k)).
Proof.
  exact (ie_lub_spec (iwiden_thr (thr_prev ts) (thr_next ts))
           (iwiden_thr_wf _ _ (thr_prev_not_pinf ts) (thr_next_not_minf ts))
           (iwiden_thr_not_bot _ _ (thr_prev_le ts) (thr_next_ge ts))
           (iwiden_thr_top_l _ _)
           (iwiden_thr_top_r _ _ (thr_prev_le ts) (thr_next_ge ts)) a b).
Qed.

Section ItvGlb.
Variable g : itv -> itv -> itv.
Hypothesis g_wf : forall x y, iwf x -> iwf y -> iwf (g x y).
Hypothesis g_top_r : forall x, igood x -> g x itop = x.
Hypothesis g_top_l : forall y, igood y -> g itop y = y.
Hypothesis g_top_top : g itop itop = itop.
Hypothesis g_not_top : forall x y, igood x -> igood y -> is_bot (g x y) = false -> is_top (g x y) = false.

Lemma ie_glb_spec a b :
  ie_ok a -> ie_ok b ->
  ie_ok (s_glb itv is_bot ieq g a b) /\
  (sbot a = true \/ sbot b = true -> sbot (s_glb itv is_bot ieq g a b) = true) /\
  (sbot a = false -> sbot b = false ->
   (sbot (s_glb itv is_bot ieq g a b) = true <-> exists k, is_bot (g (ie_at a k) (ie_at b k)) = true) /\
   (sbot (s_glb itv is_bot ieq g a b) = false ->
    forall k, ie_at (s_glb itv is_bot ieq g a b) k = g (ie_at a k) (ie_at b k))).
Proof.
  exact (glb_spec itv itop ibot is_top is_bot ieq iwf eq_refl ieq_good g
                  g_wf g_top_r g_top_l g_top_top g_not_top a b).
Qed.
End ItvGlb.

Theorem ie_meet_spec a b :
  ie_ok a -> ie_ok b ->
  ie_ok (ie_meet a b) /\ (sbot a = true \/ sbot b = true -> sbot (ie_meet a b) = true) /\
  (sbot a = false -> sbot b = false ->
   (sbot (ie_meet a b) = true <-> exists k, is_bot (imeet (ie_at a k) (ie_at b k)) = true) /\
   (sbot (ie_meet a b) = false -> forall k, ie_at (ie_meet a b) k = imeet (ie_at a k) (ie_at b k))).
Proof. exact (ie_glb_spec imeet imeet_wf imeet_top_r imeet_top_l imeet_top_top imeet_not_top a b). Qed.

Theorem ie_narrow_spec a b :
  ie_ok a -> ie_ok b ->
  ie_ok (ie_narrow a b) /\ (sbot a = true \/ sbot b = true -> sbot (ie_narrow a b) = true) /\
  (sbot a = false -> sbot b = false ->
   (sbot (ie_narrow a b) = true <-> exists k, is_bot (inarrow (ie_at a k) (ie_at b k)) = true) /\
   (sbot (ie_narrow a b) = false -> forall k, ie_at (ie_narrow a b) k = inarrow (ie_at a k) (ie_at b k))).
Proof.
  exact (ie_glb_spec inarrow inarrow_wf inarrow_top_r inarrow_top_l inarrow_top_top inarrow_not_top a b).
Qed.

Theorem ie_leq_spec a b :
  ie_ok a -> ie_ok b ->
  (ie_leq a b = true <->
   sbot a = true \/ (sbot b = false /\ forall k, ileq (ie_at a k) (ie_at b k) = true)).
Proof.
  exact (leq_spec itv itop ibot is_top is_bot ileq iwf ileq_top_top ileq_good_top ileq_top_good a b).
Qed.

Theorem ie_is_top_spec a :
  ie_ok a -> (s_is_top a = true <-> sbot a = false /\ forall k, ie_at a k = itop).
Proof.
  intros Ok. rewrite (is_top_spec itv itop ibot is_top is_bot iwf eq_refl a Ok).
  split; intros [H1 H2]; (split; [exact H1|]); intros k.
  - specialize (H2 k). pose proof (ie_at_wf a k Ok H1) as W. fold (ie_at a k) in H2.
    rewrite <- (ntop_itv _ W). unfold ntop. rewrite H2. reflexivity.
  - fold (ie_at a k). rewrite H2. reflexivity.
Qed.

Theorem ie_elements_spec a :
  ie_ok a -> sbot a = false ->
  exists l, s_elements a = Some l /\ Sorted.StronglySorted key_lt l /\
            forall k v, In (k, v) l <-> (ie_at a k = v /\ is_top v = false).
Proof. exact (elements_spec itv itop ibot is_top is_bot iwf eq_refl eq_refl eq_refl a). Qed.

Theorem ie_project_spec a keys :
  ie_ok a ->
  ie_ok (ie_project a keys) /\ sbot (ie_project a keys) = sbot a /\
  (sbot a = false ->
   forall k, ie_at (ie_project a keys) k = if mem_keys k keys then ie_at a k else itop).
Proof.
  exact (project_spec itv itop ibot is_top is_bot ieq iwf iwf_top eq_refl eq_refl ieq_good a keys).
Qed.

Theorem ie_rename_spec a from to r :
  ie_ok a -> ie_rename a from to = Some r ->
  NoDup from -> NoDup to -> (forall x, In x to -> ~ In x from) ->
  (sbot a = false -> forall x, In x to -> is_top (ie_at a x) = true) ->
  ie_ok r /\ sbot r = sbot a /\
  (sbot a = false ->
   forall k, ie_at r k = match rn_src (combine from to) k with
                         | Some f => ie_at a f
                         | None => if mem_keys k from then itop else ie_at a k
                         end).
Proof. exact (rename_spec itv itop ibot is_top is_bot ieq iwf ieq_good a from to r). Qed.

(* ---------------------------------------------------------------- examples, refutations *)

Definition ex_a : ienv := ie_set (ie_set ie_top 1 (mkI (Fin 0) (Fin 0))) (2 ^ 63) (mkI (Fin 1) PInf).
Definition ex_b : ienv := ie_set ie_top 2 (mkI (Fin 0) (Fin 0)).

Lemma iwf_fin a b : iwf (mkI (Fin a) (Fin b)).
Proof. split; discriminate. Qed.

Example ex_a_ok : ie_ok ex_a /\ sbot ex_a = false /\ s_size ex_a = Some 2.
Proof.
  split; [|split; reflexivity]. unfold ex_a.
  apply ie_set_spec; [|split; discriminate].
  apply ie_set_spec; [apply ie_ok_top|apply iwf_fin].
Qed.

Example ex_b_ok : ie_ok ex_b.
Proof. unfold ex_b. apply ie_set_spec; [apply ie_ok_top|apply iwf_fin]. Qed.

(* tree::compare as it was before fixes/patricia-1.diff: {1 -> [0,0]} <= {2 -> [0,0]} *)
Theorem ie_leq_orig_refuted :
  exists a b, ie_ok a /\ ie_ok b /\ sbot a = false /\ sbot b = false /\
              ie_leq_orig a b = true /\ ie_leq_orig b a = true /\
              exists k, ileq (ie_at a k) (ie_at b k) = false.
Proof.
  exists (ie_set ie_top 1 (mkI (Fin 0) (Fin 0))), ex_b.
  split; [apply ie_set_spec; [apply ie_ok_top|apply iwf_fin]|].
  split; [apply ex_b_ok|]. repeat split; try reflexivity. exists 2. reflexivity.
Qed.

(* separate_domain::join(k,v) as it was before fixes/patricia-2.diff stores top *)
Theorem ie_join_kv_orig_refuted :
  exists a k v, ie_ok a /\ iwf v /\ is_bot v = false /\ ~ ie_ok (ie_join_kv_orig a k v).
Proof.
  exists (ie_set ie_top 1 (mkI MInf (Fin 0))), 1, (mkI (Fin 0) PInf).
  split; [apply ie_set_spec; [apply ie_ok_top|split; discriminate]|].
  split; [split; discriminate|]. split; [reflexivity|].
  intros (_ & O & _). specialize (O 1 itop eq_refl). destruct O as (_ & T & _). discriminate.
Qed.

(* ---------------------------------------------------------------- any sequence of operations
   Every environment produced by any sequence of the operations (rename under its
   precondition) satisfies the invariant, hence all the pointwise equations above hold at
   every step of every history. *)
Inductive ie_reach : ienv -> Prop :=
| R_top : ie_reach ie_top
| R_bottom : ie_reach ie_bottom
| R_set a k v : ie_reach a -> iwf v -> ie_reach (ie_set a k v)
| R_forget a k : ie_reach a -> ie_reach (ie_forget a k)
| R_join_kv a k v : ie_reach a -> iwf v -> ie_reach (ie_join_kv a k v)
| R_join a b : ie_reach a -> ie_reach b -> ie_reach (ie_join a b)
| R_meet a b : ie_reach a -> ie_reach b -> ie_reach (ie_meet a b)
| R_widen a b : ie_reach a -> ie_reach b -> ie_reach (ie_widen a b)
| R_widen_thr ts a b : ie_reach a -> ie_reach b -> ie_reach (ie_widen_thr ts a b)
| R_narrow a b : ie_reach a -> ie_reach b -> ie_reach (ie_narrow a b)
| R_project a keys : ie_reach a -> ie_reach (ie_project a keys)
| R_rename a from to r :
    ie_reach a -> ie_rename a from to = Some r ->
    NoDup from -> NoDup to -> (forall x, In x to -> ~ In x from) ->
    (sbot a = false -> forall x, In x to -> is_top (ie_at a x) = true) ->
    ie_reach r.

Theorem ie_reach_ok a : ie_reach a -> ie_ok a.
Proof.
  induction 1.
  - apply ie_ok_top.
  - apply ie_ok_bottom.
  - apply ie_set_spec; assumption.
  - apply ie_forget_spec; assumption.
  - apply ie_join_kv_spec; assumption.
  - apply ie_join_spec; assumption.
  - apply ie_meet_spec; assumption.
  - apply ie_widen_spec; assumption.
  - apply ie_widen_thr_spec; assumption.
  - apply ie_narrow_spec; assumption.
  - apply ie_project_spec; assumption.
  - eapply ie_rename_spec; eassumption.
Qed.
