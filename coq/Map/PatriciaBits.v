(* PatriciaBits.v — facts about the bit operations of patricia_trees.hpp
   (mask, zero_bit, match_prefix, highest_bit, compute_branching_bit), phrased with
   [agree b x y]: x and y have the same bits at positions >= b. *)
From Coq Require Import NArith Bool Lia.
From CrabV Require Import Map.Patricia.
Local Open Scope N_scope.

Definition agree (b x y : N) : Prop := forall i, b <= i -> N.testbit x i = N.testbit y i.

Lemma agree_refl b x : agree b x x.
Proof. intros i _; reflexivity. Qed.
Lemma agree_sym b x y : agree b x y -> agree b y x.
Proof. intros H i Hi; symmetry; apply H; exact Hi. Qed.
Lemma agree_trans b x y z : agree b x y -> agree b y z -> agree b x z.
Proof. intros H1 H2 i Hi; rewrite H1, H2; auto. Qed.
Lemma agree_mono b b' x y : b <= b' -> agree b x y -> agree b' x y.
Proof. intros Hb H i Hi; apply H; lia. Qed.
Lemma agree_0 x y : agree 0 x y -> x = y.
Proof. intros H; apply N.bits_inj; intros i; apply H; lia. Qed.
Lemma agree_bit b x y : agree b x y -> N.testbit x b = N.testbit y b.
Proof. intros H; apply H; lia. Qed.
Lemma agree_succ b x y :
  agree (b + 1) x y -> N.testbit x b = N.testbit y b -> agree b x y.
Proof.
  intros H Hb i Hi. destruct (N.eq_dec i b) as [->|Hne]; [exact Hb|]. apply H; lia.
Qed.

Lemma agree_shiftr b x y : agree b x y <-> N.shiftr x b = N.shiftr y b.
Proof.
  split.
  - intros H. apply N.bits_inj; intros i. rewrite !N.shiftr_spec' . apply H; lia.
  - intros H i Hi. replace i with ((i - b) + b) by lia.
    rewrite <- !N.shiftr_spec'. rewrite H. reflexivity.
Qed.

Lemma agree_dec b x y : {agree b x y} + {~ agree b x y}.
Proof.
  destruct (N.eq_dec (N.shiftr x b) (N.shiftr y b)) as [H|H].
  - left; apply agree_shiftr; exact H.
  - right; intros A; apply H; apply agree_shiftr; exact A.
Qed.

(* ---------------------------------------------------------------- powers of two *)

Lemma pow2_pred_ones b : 2 ^ b - 1 = N.ones b.
Proof. rewrite N.ones_equiv, N.sub_1_r. reflexivity. Qed.

Lemma ones_bits b i : N.testbit (N.ones b) i = (i <? b).
Proof.
  destruct (N.ltb_spec i b).
  - apply N.ones_spec_low; exact H.
  - apply N.ones_spec_high; exact H.
Qed.

Lemma pow2_bits b i : N.testbit (2 ^ b) i = (b =? i).
Proof. apply N.pow2_bits_eqb. Qed.

Lemma mask_bits k b i :
  N.testbit (mask k (2 ^ b)) i =
  if i <? b then true else if i =? b then false else N.testbit k i.
Proof.
  unfold mask. rewrite N.ldiff_spec, N.lor_spec, pow2_pred_ones, ones_bits, pow2_bits.
  destruct (N.ltb_spec i b); destruct (N.eqb_spec b i); destruct (N.eqb_spec i b);
    try lia; destruct (N.testbit k i); reflexivity.
Qed.

Lemma mask_agree k b : agree (b + 1) (mask k (2 ^ b)) k.
Proof.
  intros i Hi. rewrite mask_bits.
  destruct (N.ltb_spec i b); [lia|]. destruct (N.eqb_spec i b); [lia|]. reflexivity.
Qed.

Lemma mask_bit k b : N.testbit (mask k (2 ^ b)) b = false.
Proof.
  rewrite mask_bits. destruct (N.ltb_spec b b); [lia|]. rewrite N.eqb_refl. reflexivity.
Qed.

Lemma mask_idem k b : mask (mask k (2 ^ b)) (2 ^ b) = mask k (2 ^ b).
Proof.
  apply N.bits_inj; intros i. rewrite !mask_bits.
  destruct (i <? b); [reflexivity|]. destruct (i =? b); reflexivity.
Qed.

Lemma mask_eq_iff k p b : mask k (2 ^ b) = mask p (2 ^ b) <-> agree (b + 1) k p.
Proof.
  split.
  - intros H. apply agree_trans with (mask k (2 ^ b)); [apply agree_sym, mask_agree|].
    rewrite H. apply mask_agree.
  - intros H. apply N.bits_inj; intros i. rewrite !mask_bits.
    destruct (N.ltb_spec i b); [reflexivity|]. destruct (N.eqb_spec i b); [reflexivity|].
    apply H; lia.
Qed.

(* canonical prefix for branching bit 2^b *)
Definition canon (p b : N) : Prop := mask p (2 ^ b) = p.

Lemma canon_mask k b : canon (mask k (2 ^ b)) b.
Proof. apply mask_idem. Qed.

Lemma canon_bit p b : canon p b -> N.testbit p b = false.
Proof. intros H; rewrite <- H; apply mask_bit. Qed.

Lemma canon_low p b i : canon p b -> i < b -> N.testbit p i = true.
Proof.
  intros H Hi; rewrite <- H, mask_bits. destruct (N.ltb_spec i b); [reflexivity|lia].
Qed.

Lemma match_prefix_spec k p b :
  canon p b -> (match_prefix k p (2 ^ b) = true <-> agree (b + 1) k p).
Proof.
  intros Hc. unfold match_prefix, canon in *. rewrite N.eqb_eq. split; intros H.
  - apply mask_eq_iff. rewrite H, Hc. reflexivity.
  - apply mask_eq_iff in H. rewrite H. exact Hc.
Qed.

Lemma match_prefix_false k p b :
  canon p b -> match_prefix k p (2 ^ b) = false -> ~ agree (b + 1) k p.
Proof.
  intros Hc H A. apply (match_prefix_spec k p b Hc) in A. congruence.
Qed.

Lemma zero_bit_spec k b : zero_bit k (2 ^ b) = negb (N.testbit k b).
Proof.
  unfold zero_bit. destruct (N.testbit k b) eqn:E; simpl.
  - apply N.eqb_neq. intros H.
    assert (N.testbit (N.land k (2 ^ b)) b = true).
    { rewrite N.land_spec, E, pow2_bits, N.eqb_refl. reflexivity. }
    rewrite H, N.bits_0 in H0. discriminate.
  - apply N.eqb_eq. apply N.bits_inj_0; intros i.
    rewrite N.land_spec, pow2_bits. destruct (N.eqb_spec b i) as [<-|]; [rewrite E|];
      simpl; [reflexivity|apply andb_false_r].
Qed.

(* the right half of the range of a node (prefix p, branching bit 2^b) *)
Lemma lor_pow2_bits p b i : N.testbit (N.lor p (2 ^ b)) i = N.testbit p i || (b =? i).
Proof. rewrite N.lor_spec, pow2_bits. reflexivity. Qed.

Lemma agree_left k p b :
  canon p b -> (agree b k p <-> agree (b + 1) k p /\ N.testbit k b = false).
Proof.
  intros Hc. split.
  - intros H. split; [eapply agree_mono; [|exact H]; lia|].
    rewrite (agree_bit _ _ _ H). apply canon_bit; exact Hc.
  - intros [H Hb]. apply agree_succ; [exact H|]. rewrite Hb. symmetry; apply canon_bit; exact Hc.
Qed.

Lemma agree_right k p b :
  (agree b k (N.lor p (2 ^ b)) <-> agree (b + 1) k p /\ N.testbit k b = true).
Proof.
  split.
  - intros H. split.
    + intros i Hi. rewrite (H i) by lia. rewrite lor_pow2_bits.
      destruct (N.eqb_spec b i); [lia|]. apply orb_false_r.
    + rewrite (agree_bit _ _ _ H), lor_pow2_bits, N.eqb_refl. apply orb_true_r.
  - intros [H Hb]. apply agree_succ.
    + intros i Hi. rewrite lor_pow2_bits. destruct (N.eqb_spec b i); [lia|].
      rewrite orb_false_r. apply H; exact Hi.
    + rewrite Hb, lor_pow2_bits, N.eqb_refl. symmetry; apply orb_true_r.
Qed.

(* ---------------------------------------------------------------- order *)

Lemma bits_above_lt x b : (forall i, b <= i -> N.testbit x i = false) -> x < 2 ^ b.
Proof.
  intros H. destruct (N.eq_dec x 0) as [->|Hx].
  - apply N.neq_0_lt_0. apply N.pow_nonzero. lia.
  - apply N.log2_lt_pow2; [lia|].
    destruct (N.lt_ge_cases (N.log2 x) b) as [L|L]; [exact L|].
    pose proof (N.bit_log2 x Hx) as B. rewrite H in B by exact L. discriminate.
Qed.

Lemma bit_set_ge x b : N.testbit x b = true -> 2 ^ b <= x.
Proof.
  intros H. destruct (N.le_gt_cases (2 ^ b) x) as [L|L]; [exact L|].
  destruct (N.eq_dec x 0) as [->|Hx]; [rewrite N.bits_0 in H; discriminate|].
  assert (N.log2 x < b) by (apply N.log2_lt_pow2; [lia|exact L]).
  rewrite N.bits_above_log2 in H by exact H0. discriminate.
Qed.

Lemma canon_mod p b : canon p b -> p mod 2 ^ (b + 1) = 2 ^ b - 1.
Proof.
  intros Hc. rewrite pow2_pred_ones. apply N.bits_inj; intros i.
  rewrite ones_bits. destruct (N.ltb_spec i b).
  - rewrite N.mod_pow2_bits_low by lia. apply canon_low with b; assumption.
  - destruct (N.eq_dec i b) as [->|Hne].
    + rewrite N.mod_pow2_bits_low by lia. apply canon_bit; exact Hc.
    + rewrite N.mod_pow2_bits_high by lia. reflexivity.
Qed.

Lemma agree_div b x y : agree b x y -> x / 2 ^ b = y / 2 ^ b.
Proof. intros H. rewrite <- !N.shiftr_div_pow2. apply agree_shiftr; exact H. Qed.

(* the comparison made by node::lookup *)
Lemma range_order k p b :
  canon p b -> agree (b + 1) k p ->
  (N.testbit k b = false -> k <= p) /\ (N.testbit k b = true -> p < k).
Proof.
  intros Hc Ha.
  pose proof (agree_div _ _ _ Ha) as Hd.
  pose proof (canon_mod p b Hc) as Hp.
  assert (Hpos : 2 ^ (b + 1) <> 0) by (apply N.pow_nonzero; lia).
  assert (H2 : 2 ^ (b + 1) = 2 * 2 ^ b) by (rewrite N.add_1_r, N.pow_succ_r'; reflexivity).
  assert (Hb0 : 2 ^ b <> 0) by (apply N.pow_nonzero; lia).
  pose proof (N.div_mod k (2 ^ (b + 1)) Hpos) as Ek.
  pose proof (N.div_mod p (2 ^ (b + 1)) Hpos) as Ep.
  pose proof (N.mod_lt k (2 ^ (b + 1)) Hpos) as Lk.
  rewrite Hd in Ek. rewrite Hp in Ep.
  set (Q := 2 ^ (b + 1) * (p / 2 ^ (b + 1))) in *.
  split; intros Hbit.
  - assert (k mod 2 ^ (b + 1) < 2 ^ b).
    { apply bits_above_lt. intros i Hi. destruct (N.eq_dec i b) as [->|Hne].
      - rewrite N.mod_pow2_bits_low by lia. exact Hbit.
      - rewrite N.mod_pow2_bits_high by lia. reflexivity. }
    lia.
  - assert (2 ^ b <= k mod 2 ^ (b + 1)).
    { apply bit_set_ge. rewrite N.mod_pow2_bits_low by lia. exact Hbit. }
    lia.
Qed.

(* ---------------------------------------------------------------- highest_bit *)

Lemma hb_pos_spec q :
  exists d, Npos (hb_pos q) = 2 ^ d /\ N.testbit (Npos q) d = true /\
            forall i, d < i -> N.testbit (Npos q) i = false.
Proof.
  induction q as [q [d [E [T A]]]|q [d [E [T A]]]|].
  - exists (N.succ d). repeat split.
    + simpl hb_pos. change (N.pos (hb_pos q)~0) with (2 * N.pos (hb_pos q)).
      rewrite E, N.pow_succ_r'. reflexivity.
    + change (N.pos q~1) with (2 * N.pos q + 1). rewrite N.testbit_odd_succ by lia. exact T.
    + intros i Hi. change (N.pos q~1) with (2 * N.pos q + 1).
      replace i with (N.succ (N.pred i)) by lia.
      rewrite N.testbit_odd_succ by lia. apply A; lia.
  - exists (N.succ d). repeat split.
    + simpl hb_pos. change (N.pos (hb_pos q)~0) with (2 * N.pos (hb_pos q)).
      rewrite E, N.pow_succ_r'. reflexivity.
    + change (N.pos q~0) with (2 * N.pos q). rewrite N.testbit_even_succ by lia. exact T.
    + intros i Hi. change (N.pos q~0) with (2 * N.pos q).
      replace i with (N.succ (N.pred i)) by lia.
      rewrite N.testbit_even_succ by lia. apply A; lia.
  - exists 0. repeat split.
    intros i Hi. replace i with (N.succ (N.pred i)) by lia.
    change 1 with (2 * 0 + 1). rewrite N.testbit_odd_succ by lia. apply N.bits_0.
Qed.

(* p0 and p1 differ somewhere at or above bit c: the branching bit is the highest bit
   where they differ *)
Lemma highest_bit_spec p0 p1 c :
  ~ agree c p0 p1 ->
  exists d, highest_bit (N.lxor p0 p1) (2 ^ c) = 2 ^ d /\ c <= d /\
            agree (d + 1) p0 p1 /\ N.testbit p0 d <> N.testbit p1 d.
Proof.
  intros Hna. unfold highest_bit. rewrite pow2_pred_ones.
  set (x := N.ldiff (N.lxor p0 p1) (N.ones c)).
  assert (Hx : forall i, N.testbit x i =
                         xorb (N.testbit p0 i) (N.testbit p1 i) && negb (i <? c)).
  { intros i. unfold x. rewrite N.ldiff_spec, N.lxor_spec, ones_bits. reflexivity. }
  destruct x as [|q] eqn:Ex.
  - exfalso. apply Hna. intros i Hi. specialize (Hx i). rewrite N.bits_0 in Hx.
    destruct (N.ltb_spec i c); [lia|]. simpl in Hx. rewrite andb_true_r in Hx.
    destruct (N.testbit p0 i), (N.testbit p1 i); simpl in Hx; congruence.
  - destruct (hb_pos_spec q) as [d [E [T A]]]. exists d. split; [exact E|].
    pose proof (Hx d) as Hd. rewrite T in Hd.
    symmetry in Hd. apply andb_true_iff in Hd. destruct Hd as [Hd1 Hd2].
    assert (c <= d). { destruct (N.ltb_spec d c); [discriminate|lia]. }
    split; [exact H|]. split.
    + intros i Hi. specialize (Hx i). rewrite A in Hx by lia.
      destruct (N.ltb_spec i c); [lia|]. simpl in Hx. rewrite andb_true_r in Hx.
      destruct (N.testbit p0 i), (N.testbit p1 i); simpl in Hx; congruence.
    + intros Heq. rewrite Heq, xorb_nilpotent in Hd1. discriminate.
Qed.

(* the loop of the C++ computes [highest_bit] (given enough fuel) *)
Lemma highest_bit_loop_spec fuel : forall x c d,
  (forall i, i < c -> N.testbit x i = false) ->
  N.testbit x d = true -> (forall i, d < i -> N.testbit x i = false) ->
  (N.to_nat (d - c) < fuel)%nat ->
  highest_bit_loop fuel x (2 ^ c) = 2 ^ d.
Proof.
  induction fuel as [|f IH]; intros x c d Hlow Hd Hhigh Hf; [lia|].
  cbn [highest_bit_loop]. assert (Hcd : c <= d).
  { destruct (N.le_gt_cases c d); [assumption|]. rewrite Hlow in Hd by lia. discriminate. }
  destruct (N.eqb_spec x (2 ^ c)) as [E|E].
  - f_equal. subst x. rewrite pow2_bits in Hd. apply N.eqb_eq in Hd. exact Hd.
  - assert (c < d).
    { destruct (N.eq_dec c d) as [->|]; [|lia]. exfalso. apply E.
      apply N.bits_inj; intros i. rewrite pow2_bits.
      destruct (N.eqb_spec d i) as [<-|]; [exact Hd|].
      destruct (N.lt_ge_cases i d); [apply Hlow; lia|apply Hhigh; lia]. }
    replace (2 * 2 ^ c) with (2 ^ (c + 1)) by (rewrite N.add_1_r, N.pow_succ_r'; reflexivity).
    apply IH.
    + intros i Hi. rewrite N.ldiff_spec, pow2_bits.
      destruct (N.eqb_spec c i) as [<-|]; [apply andb_false_r|].
      rewrite Hlow by lia. reflexivity.
    + rewrite N.ldiff_spec, pow2_bits, Hd. destruct (N.eqb_spec c d); [lia|reflexivity].
    + intros i Hi. rewrite N.ldiff_spec, Hhigh by lia. reflexivity.
    + lia.
Qed.
