(* SepItvRefine.v — refinement between the two models of crab's interval environments:

     (L1) Map/SepDomain.v + Map/SepItv.v : separate_domain<variable, interval> over patricia
          trees ([ienv] = bottom flag + tree, top bindings never stored), and
     (L2) Dom/ItvEnv.v : [env] = EBot | EMap (association list read as a total map with
          default top), the layer under Dom/ItvDomain.v and all the analyzers.

   [IR s e] ("s implements e"): s satisfies the tree invariant [ie_ok], s and e are bottom
   together, and every variable has the same interval in both ([ie_at] / [e_at]).
   Every operation of L2 is simulated by its L1 counterpart: related arguments give related
   results; the boolean queries (is_bottom, is_top, <=) return the same answer; iteration
   over the tree yields exactly the list [bindings] of the association list.

   Keys: both levels use [N] (Ir.Syntax.var = N = ikos::index_t), related by equality.
   No new model here, only proofs. *)
From Coq Require Import NArith ZArith Bool List Lia Sorting.Sorted.
From CrabV Require Import Base.ZInf Scalar.Itv Ir.Syntax.
From CrabV Require Import Map.Patricia Map.PatriciaSpec Map.SepDomain Map.SepDomainSound Map.SepItv.
(* imported last: get / remove / keys / merge / comb / build below are those of Dom/ItvEnv.v *)
From CrabV Require Import Dom.ItvEnv Dom.ItvEnvSound Dom.ItvEnvWiden.
From CrabV Require Fix.Thresholds Fix.ThresholdsSound.
Import ListNotations.
Local Open Scope N_scope.

(* ------------------------------------------------------------------ the relation *)
Definition same_at (s : ienv) (e : env) : Prop := forall k, ie_at s k = e_at e k.
Definition itv_refines (s : ienv) (e : env) : Prop := sbot s = e_is_bot e /\ same_at s e.
Definition IR (s : ienv) (e : env) : Prop := ie_ok s /\ itv_refines s e.

Lemma IR_ok s e : IR s e -> ie_ok s.
Proof. intros [H _]; exact H. Qed.
Lemma IR_bot s e : IR s e -> sbot s = e_is_bot e.
Proof. intros (_ & H & _); exact H. Qed.
Lemma IR_at s e k : IR s e -> ie_at s k = e_at e k.
Proof. intros (_ & _ & H); apply H. Qed.

Lemma e_is_bot_true e : e_is_bot e = true -> e = EBot.
Proof. destruct e; [reflexivity|discriminate]. Qed.
Lemma e_is_bot_false e : e_is_bot e = false -> exists m, e = EMap m.
Proof. destruct e as [|m]; [discriminate|]. exists m; reflexivity. Qed.

Lemma ie_at_bot s k : sbot s = true -> ie_at s k = ibot.
Proof. intros H. unfold ie_at, s_at. rewrite H. reflexivity. Qed.

Lemma IR_intro_bot s : ie_ok s -> sbot s = true -> IR s EBot.
Proof.
  intros Ok Hb. split; [exact Ok|]. split; [exact Hb|]. intros k. apply ie_at_bot; exact Hb.
Qed.

Lemma IR_intro_map s m :
  ie_ok s -> sbot s = false -> (forall k, ie_at s k = get m k) -> IR s (EMap m).
Proof. intros Ok Hb H. split; [exact Ok|]. split; [exact Hb|exact H]. Qed.

Lemma IR_inv s e :
  IR s e ->
  (sbot s = true /\ e = EBot) \/
  (sbot s = false /\ exists m, e = EMap m /\ forall k, ie_at s k = get m k).
Proof.
  intros (Ok & Hb & H). destruct e as [|m]; cbn [e_is_bot] in Hb.
  - left. split; [exact Hb|reflexivity].
  - right. split; [exact Hb|]. exists m. split; [reflexivity|exact H].
Qed.

Lemma IR_top : IR ie_top e_top.
Proof. apply IR_intro_map; [apply ie_ok_top|reflexivity|reflexivity]. Qed.
Lemma IR_bottom : IR ie_bottom EBot.
Proof. apply IR_intro_bot; [apply ie_ok_bottom|reflexivity]. Qed.

(* ------------------------------------------------------------------ what the relation gives on the
   association-list side: every value read from the list is well formed and not bottom *)
Definition mgood (m : amap) : Prop := forall k, iwf (get m k) /\ is_bot (get m k) = false.

Lemma IR_mgood s m : IR s (EMap m) -> mgood m.
Proof.
  intros (Ok & Hb & H) k. cbn [e_is_bot] in Hb. specialize (H k). cbn [e_at] in H. rewrite <- H.
  split; [apply ie_at_wf; assumption|].
  exact (at_not_bot itv itop ibot is_top is_bot iwf eq_refl s k Ok Hb).
Qed.

Lemma mgood_map_ok m : mgood m -> map_ok m.
Proof. intros H k. apply H. Qed.

(* the L2 invariant of Dom/ItvEnvWiden.v follows from the relation *)
Lemma IR_env_ok s e : IR s e -> env_ok e.
Proof.
  intros H. destruct e as [|m]; [exact I|]. apply mgood_map_ok. exact (IR_mgood s m H).
Qed.

Lemma iwf_top_eq v : iwf v -> is_top v = true -> v = itop.
Proof. intros W T. rewrite <- (ntop_itv v W). unfold ntop. rewrite T. reflexivity. Qed.

Lemma norm_iwf v : iwf v -> norm v = v.
Proof. intros W. exact (ntop_itv v W). Qed.

Lemma iwf_nonbot_wf v : iwf v -> is_bot v = false -> ItvSound.wf v.
Proof.
  intros [W1 W2] B. right. split; [exact W1|]. split; [exact W2|].
  apply ItvSound.is_bot_false_ble. exact B.
Qed.

Lemma wf_iwf v : ItvSound.wf v -> iwf v.
Proof.
  intros [->|(H1 & H2 & _)]; [apply iwf_bot|]. split; assumption.
Qed.

Lemma get_put m k v k' : iwf v -> get (put m k v) k' = if N.eqb k' k then v else get m k'.
Proof.
  intros W. destruct (N.eqb_spec k' k) as [->|NE].
  - rewrite get_put_same. apply norm_iwf; exact W.
  - apply get_put_other; exact NE.
Qed.

Lemma get_remove m k k' : get (remove m k) k' = if N.eqb k' k then itop else get m k'.
Proof.
  destruct (N.eqb_spec k' k) as [->|NE].
  - apply get_remove_same.
  - apply get_remove_other; exact NE.
Qed.

Lemma bool_eq_iff (a b : bool) : (a = true <-> b = true) -> a = b.
Proof.
  intros [H1 H2]. destruct a, b; try reflexivity.
  - symmetry. apply H1. reflexivity.
  - apply H2. reflexivity.
Qed.

(* pointwise equality alone already forces the same bottomness *)
Lemma keys_bound m : forall k, In k (keys m) -> k <= fold_right N.max 0 (keys m).
Proof.
  unfold keys. induction m as [|[k0 v0] r IH]; cbn [map fold_right fst]; intros k H; [destruct H|].
  destruct H as [->|H]; [lia|]. specialize (IH k H). lia.
Qed.

Lemma get_fresh m : exists k, get m k = itop.
Proof.
  exists (N.succ (fold_right N.max 0 (keys m))). apply get_not_key.
  intros H. apply keys_bound in H. lia.
Qed.

Lemma same_at_bot s e : ie_ok s -> same_at s e -> sbot s = e_is_bot e.
Proof.
  intros Ok H. destruct (sbot s) eqn:Hb, e as [|m]; cbn [e_is_bot]; try reflexivity; exfalso.
  - destruct (get_fresh m) as [k E]. specialize (H k). cbn [e_at] in H.
    rewrite (ie_at_bot s k Hb), E in H. discriminate H.
  - specialize (H 0). cbn [e_at] in H.
    pose proof (at_not_bot itv itop ibot is_top is_bot iwf eq_refl s 0 Ok Hb) as B.
    fold (ie_at s 0) in B. rewrite H in B. discriminate B.
Qed.

Theorem IR_of_same_at s e : ie_ok s -> same_at s e -> IR s e.
Proof.
  intros Ok H. split; [exact Ok|]. split; [apply same_at_bot; assumption|exact H].
Qed.

(* ------------------------------------------------------------------ queries *)
Theorem IR_is_bottom s e : IR s e -> s_is_bottom s = e_is_bot e.
Proof. intros H. exact (IR_bot s e H). Qed.

Lemma l2_is_top_iff m : e_is_top (EMap m) = true <-> forall k, is_top (get m k) = true.
Proof.
  cbn [e_is_top]. rewrite forallb_forall. split.
  - intros H k. destruct (in_dec N.eq_dec k (keys m)) as [I|I]; [apply H; exact I|].
    rewrite (get_not_key m k I). reflexivity.
  - intros H k _. apply H.
Qed.

Theorem IR_is_top s e : IR s e -> s_is_top s = e_is_top e.
Proof.
  intros H. apply bool_eq_iff. rewrite (ie_is_top_spec s (IR_ok s e H)).
  destruct (IR_inv s e H) as [(Hb & ->)|(Hb & m & -> & A)].
  - split; [intros [X _]; congruence|discriminate].
  - rewrite l2_is_top_iff. split.
    + intros [_ T] k. rewrite <- A, T. reflexivity.
    + intros T. split; [exact Hb|]. intros k. apply iwf_top_eq.
      * apply ie_at_wf; [exact (IR_ok _ _ H)|exact Hb].
      * rewrite A. apply T.
Qed.

Lemma l2_leq_iff x y :
  e_leq (EMap x) (EMap y) = true <-> forall k, ileq (get x k) (get y k) = true.
Proof.
  cbn [e_leq]. rewrite forallb_forall. split.
  - intros H k. destruct (in_dec N.eq_dec k (keys x ++ keys y)) as [I|I]; [apply H; exact I|].
    rewrite (get_not_key x k), (get_not_key y k); [reflexivity| |];
      intros J; apply I; apply in_or_app; [right|left]; exact J.
  - intros H k _. apply H.
Qed.

(* the inclusion tests give the same boolean *)
Theorem IR_leq s e s' e' : IR s e -> IR s' e' -> ie_leq s s' = e_leq e e'.
Proof.
  intros H H'. apply bool_eq_iff.
  rewrite (ie_leq_spec s s' (IR_ok _ _ H) (IR_ok _ _ H')).
  destruct (IR_inv s e H) as [(Hb & ->)|(Hb & x & -> & A)].
  - split; [reflexivity|]. intros _. left; exact Hb.
  - destruct (IR_inv s' e' H') as [(Hb' & ->)|(Hb' & y & -> & A')].
    + cbn [e_leq]. split; [|discriminate]. intros [X|[X _]]; congruence.
    + rewrite l2_leq_iff. split.
      * intros [X|[_ L]]; [congruence|]. intros k. rewrite <- A, <- A'. apply L.
      * intros L. right. split; [exact Hb'|]. intros k. rewrite A, A'. apply L.
Qed.

(* ------------------------------------------------------------------ set / forget / join(k,v) *)
Theorem IR_set s e k v : IR s e -> iwf v -> IR (ie_set s k v) (e_set e k v).
Proof.
  intros H W. destruct (ie_set_spec s k v (IR_ok _ _ H) W) as (Ok' & B' & A').
  destruct (IR_inv s e H) as [(Hb & ->)|(Hb & m & -> & A)].
  - cbn [e_set]. apply IR_intro_bot; [exact Ok'|]. rewrite B', Hb. reflexivity.
  - cbn [e_set]. rewrite Hb in B', A'. cbn [orb] in B', A'. destruct (is_bot v) eqn:Bv.
    + apply IR_intro_bot; assumption.
    + apply IR_intro_map; [exact Ok'|exact B'|]. intros k'.
      rewrite (A' eq_refl k'), (get_put m k v k' W), A. reflexivity.
Qed.

Theorem IR_forget s e k : IR s e -> IR (ie_forget s k) (e_forget e k).
Proof.
  intros H. destruct (ie_forget_spec s k (IR_ok _ _ H)) as (Ok' & B' & A').
  destruct (IR_inv s e H) as [(Hb & ->)|(Hb & m & -> & A)].
  - cbn [e_forget]. apply IR_intro_bot; [exact Ok'|]. rewrite B'. exact Hb.
  - cbn [e_forget]. apply IR_intro_map; [exact Ok'|rewrite B'; exact Hb|]. intros k'.
    rewrite (A' Hb k'), get_remove, A. reflexivity.
Qed.

(* weak update (the repaired join(k,v) of fixes/patricia-2.diff) *)
Theorem IR_join_kv s e k v : IR s e -> iwf v -> IR (ie_join_kv s k v) (e_join_key e k v).
Proof.
  intros H W. destruct (ie_join_kv_spec s k v (IR_ok _ _ H) W) as (Ok' & B' & A').
  destruct (IR_inv s e H) as [(Hb & ->)|(Hb & m & -> & A)].
  - cbn [e_join_key]. apply IR_intro_bot; [exact Ok'|]. rewrite B', Hb. reflexivity.
  - cbn [e_join_key]. rewrite Hb in B', A'. cbn [orb] in B', A'. destruct (is_bot v) eqn:Bv.
    + apply IR_intro_bot; assumption.
    + specialize (A' eq_refl).
      destruct (IR_mgood _ _ H k) as [Wk Bk].
      assert (TOPCASE : is_top (ijoin (get m k) v) = true ->
                        forall k', ie_at (ie_join_kv s k v) k' = get (remove m k) k').
      { intros T k'. rewrite A', get_remove, <- A. destruct (k' =? k); [|reflexivity].
        rewrite A. apply iwf_top_eq; [apply ijoin_wf; assumption|exact T]. }
      destruct (is_top v) eqn:Tv.
      { apply IR_intro_map; [exact Ok'|exact B'|]. apply TOPCASE.
        apply ijoin_top_r; assumption. }
      destruct (is_top (get m k)) eqn:Tk.
      { apply IR_intro_map; [exact Ok'|exact B'|]. apply TOPCASE.
        apply ijoin_top_l; assumption. }
      apply IR_intro_map; [exact Ok'|exact B'|]. intros k'.
      rewrite A', (get_put m k _ k' (ijoin_wf _ _ Wk W)), <- !A. reflexivity.
Qed.

(* ------------------------------------------------------------------ join-like operators *)
Lemma not_in_keys2 (x y : amap) k : ~ In k (keys x ++ keys y) -> get x k = itop /\ get y k = itop.
Proof.
  intros I. split; apply get_not_key; intros J; apply I; apply in_or_app; [left|right]; exact J.
Qed.

Section Lub.
Variable f : itv -> itv -> itv.
Hypothesis f_wf : forall x y, iwf x -> iwf y -> iwf (f x y).
Hypothesis f_not_bot : forall x y, is_bot x = false -> is_bot y = false -> is_bot (f x y) = false.
Hypothesis f_top_l : forall x y, iwf x -> iwf y -> is_top x = true -> is_top (f x y) = true.
Hypothesis f_top_r : forall x y, iwf x -> iwf y -> is_top y = true -> is_top (f x y) = true.

(* on good lists the absorbing merge never fails and is the pointwise operator *)
Lemma l2_lub x y :
  mgood x -> mgood y ->
  exists m, merge true f x y = Some m /\ forall k, get m k = f (get x k) (get y k).
Proof.
  intros Gx Gy.
  assert (C : forall k, comb true true f x y k = f (get x k) (get y k)).
  { intros k. unfold comb. destruct (Gx k) as [Wx Bx], (Gy k) as [Wy By].
    destruct (is_top (get x k)) eqn:Tx.
    { symmetry. apply iwf_top_eq; [apply f_wf|apply f_top_l]; assumption. }
    destruct (is_top (get y k)) eqn:Ty.
    { symmetry. apply iwf_top_eq; [apply f_wf|apply f_top_r]; assumption. }
    reflexivity. }
  unfold merge.
  destruct (build_some (keys x ++ keys y) (comb true true f x y)) with (acc := @nil (var * itv))
    as [m E].
  { intros k _. rewrite C. apply f_not_bot; [apply Gx|apply Gy]. }
  exists m. split; [exact E|]. intros k. destruct (build_get _ _ _ _ E k) as [I1 I2].
  destruct (in_dec N.eq_dec k (keys x ++ keys y)) as [J|J].
  - rewrite (I1 J), C. apply norm_iwf. apply f_wf; [apply Gx|apply Gy].
  - rewrite (I2 J). destruct (not_in_keys2 x y k J) as [-> ->]. cbn [get].
    symmetry. apply iwf_top_eq; [apply f_wf; apply iwf_top|].
    apply f_top_l; [apply iwf_top|apply iwf_top|reflexivity].
Qed.

Let op2 (a b : env) : env :=
  match a, b with
  | EBot, _ => b | _, EBot => a
  | EMap x, EMap y => match merge true f x y with Some m => EMap m | None => EBot end
  end.

Lemma IR_lub s e s' e' :
  IR s e -> IR s' e' -> IR (s_lub itv is_top ieq f s s') (op2 e e').
Proof.
  intros H H'.
  destruct (ie_lub_spec f f_wf f_not_bot f_top_l f_top_r s s' (IR_ok _ _ H) (IR_ok _ _ H'))
    as (Ok' & L1 & L2 & L3).
  destruct (IR_inv s e H) as [(Hb & ->)|(Hb & x & -> & A)].
  - rewrite (L1 Hb). cbn [op2]. exact H'.
  - destruct (IR_inv s' e' H') as [(Hb' & ->)|(Hb' & y & -> & A')].
    + rewrite (L2 Hb Hb'). cbn [op2]. exact H.
    + destruct (L3 Hb Hb') as [B3 A3]. cbn [op2].
      destruct (l2_lub x y (IR_mgood _ _ H) (IR_mgood _ _ H')) as (m & E & G). rewrite E.
      apply IR_intro_map; [exact Ok'|exact B3|]. intros k. rewrite A3, G, A, A'. reflexivity.
Qed.
End Lub.

Theorem IR_join s e s' e' : IR s e -> IR s' e' -> IR (ie_join s s') (e_join e e').
Proof. exact (IR_lub ijoin ijoin_wf ijoin_not_bot ijoin_top_l ijoin_top_r s e s' e'). Qed.

Theorem IR_widen s e s' e' : IR s e -> IR s' e' -> IR (ie_widen s s') (e_widen e e').
Proof. exact (IR_lub iwiden iwiden_wf iwiden_not_bot iwiden_top_l iwiden_top_r s e s' e'). Qed.

(* widening with thresholds, for any pair of threshold functions that move outwards and do
   not produce the junk infinities: the same pair on both sides *)
Theorem IR_widen_thr gp gn s e s' e' :
  (forall v, ble (gp v) v = true) -> (forall v, ble v (gn v) = true) ->
  (forall v, gp v <> PInf) -> (forall v, gn v <> MInf) ->
  IR s e -> IR s' e' ->
  IR (s_lub itv is_top ieq (iwiden_thr gp gn) s s') (e_widen_thr gp gn e e').
Proof.
  intros Hp Hn Hp' Hn'.
  exact (IR_lub (iwiden_thr gp gn) (iwiden_thr_wf gp gn Hp' Hn') (iwiden_thr_not_bot gp gn Hp Hn)
                (iwiden_thr_top_l gp gn) (iwiden_thr_top_r gp gn Hp Hn) s e s' e').
Qed.

(* the thresholds of the C19 harness (a sorted list of integers) *)
Theorem IR_widen_thr_list ts s e s' e' :
  IR s e -> IR s' e' ->
  IR (ie_widen_thr ts s s')
     (e_widen_thr (SepDomain.thr_prev ts) (SepDomain.thr_next ts) e e').
Proof.
  exact (IR_widen_thr _ _ s e s' e' (SepItv.thr_prev_le ts) (SepItv.thr_next_ge ts)
                      (thr_prev_not_pinf ts) (thr_next_not_minf ts)).
Qed.

(* crab::thresholds (Fix/Thresholds.v), the thresholds of Dom/History.v and of the fixpoint
   engine: well-formed threshold vectors (-oo first, +oo last) are admissible *)
Definition ie_widen_crab_thr (t : Thresholds.thr) : ienv -> ienv -> ienv :=
  s_lub itv is_top ieq (iwiden_thr (Thresholds.thr_prev t) (Thresholds.thr_next t)).

Lemma crab_thr_not_pinf t v : ThresholdsSound.wf_thr t -> Thresholds.thr_prev t v <> PInf.
Proof.
  intros [mid ->]. unfold Thresholds.thr_prev.
  assert (X : match rev (fst (Thresholds.split_lt v (MInf :: mid ++ [PInf]))) with
              | p :: _ => p | [] => hd MInf (MInf :: mid ++ [PInf]) end <> PInf).
  { destruct (rev (fst (Thresholds.split_lt v (MInf :: mid ++ [PInf])))) as [|p r] eqn:R.
    - cbn [hd]. discriminate.
    - assert (I : In p (fst (Thresholds.split_lt v (MInf :: mid ++ [PInf])))).
      { apply in_rev. rewrite R. left; reflexivity. }
      apply ThresholdsSound.split_lt_fst_lt in I. intros ->.
      rewrite blt_PInf_l in I. discriminate I. }
  destruct v; [discriminate|exact X|exact X].
Qed.

Lemma crab_thr_not_minf t v : ThresholdsSound.wf_thr t -> Thresholds.thr_next t v <> MInf.
Proof.
  intros [mid ->]. unfold Thresholds.thr_next.
  assert (X : match snd (Thresholds.split_le v (MInf :: mid ++ [PInf])) with
              | u :: _ => u | [] => last (MInf :: mid ++ [PInf]) PInf end <> MInf).
  { destruct (snd (Thresholds.split_le v (MInf :: mid ++ [PInf]))) as [|u r] eqn:R.
    - rewrite app_comm_cons, last_last. discriminate.
    - apply ThresholdsSound.split_le_snd_head in R. intros ->. cbn in R. discriminate R. }
  destruct v; [exact X|exact X|discriminate].
Qed.

Theorem IR_widen_crab_thr t s e s' e' :
  ThresholdsSound.wf_thr t -> IR s e -> IR s' e' ->
  IR (ie_widen_crab_thr t s s')
     (e_widen_thr (Thresholds.thr_prev t) (Thresholds.thr_next t) e e').
Proof.
  intros W. apply IR_widen_thr.
  - intros v. apply ThresholdsSound.thr_prev_le; exact W.
  - intros v. apply ThresholdsSound.thr_next_ge; exact W.
  - intros v. apply crab_thr_not_pinf; exact W.
  - intros v. apply crab_thr_not_minf; exact W.
Qed.

(* ------------------------------------------------------------------ meet-like operators *)
Lemma build_none_iff ks g : forall acc,
  build ks g acc = None <-> exists k, In k ks /\ is_bot (g k) = true.
Proof.
  induction ks as [|k r IH]; cbn [build]; intros acc.
  - split; [discriminate|]. intros (k & [] & _).
  - destruct (is_bot (g k)) eqn:B.
    + split; [|reflexivity]. intros _. exists k. split; [left; reflexivity|exact B].
    + rewrite IH. split; intros (k' & I & B').
      * exists k'. split; [right; exact I|exact B'].
      * exists k'. split; [|exact B']. destruct I as [<-|I]; [congruence|exact I].
Qed.

Section Glb.
Variable g : itv -> itv -> itv.
Hypothesis g_wf : forall x y, iwf x -> iwf y -> iwf (g x y).
Hypothesis g_top_r : forall x, igood x -> g x itop = x.
Hypothesis g_top_l : forall y, igood y -> g itop y = y.
Hypothesis g_top_top : g itop itop = itop.

Lemma l2_comb_glb x y k :
  mgood x -> mgood y -> comb false true g x y k = g (get x k) (get y k).
Proof.
  intros Gx Gy. unfold comb. destruct (Gx k) as [Wx Bx], (Gy k) as [Wy By].
  destruct (is_top (get x k)) eqn:Tx.
  - rewrite (iwf_top_eq _ Wx Tx). destruct (is_top (get y k)) eqn:Ty.
    + rewrite (iwf_top_eq _ Wy Ty). symmetry. exact g_top_top.
    + symmetry. apply g_top_l. split; [exact Wy|split; [exact Ty|exact By]].
  - destruct (is_top (get y k)) eqn:Ty; [|reflexivity].
    rewrite (iwf_top_eq _ Wy Ty). symmetry. apply g_top_r. split; [exact Wx|split; [exact Tx|exact Bx]].
Qed.

(* on good lists the non-absorbing merge fails exactly when some variable meets to bottom,
   and is the pointwise operator otherwise *)
Lemma l2_glb x y :
  mgood x -> mgood y ->
  (merge false g x y = None <-> exists k, is_bot (g (get x k) (get y k)) = true) /\
  (forall m, merge false g x y = Some m -> forall k, get m k = g (get x k) (get y k)).
Proof.
  intros Gx Gy. unfold merge. split.
  - rewrite build_none_iff. split.
    + intros (k & _ & B). exists k. rewrite <- (l2_comb_glb x y k Gx Gy). exact B.
    + intros (k & B). exists k. split; [|rewrite (l2_comb_glb x y k Gx Gy); exact B].
      destruct (in_dec N.eq_dec k (keys x ++ keys y)) as [J|J]; [exact J|exfalso].
      destruct (not_in_keys2 x y k J) as [E1 E2]. rewrite E1, E2, g_top_top in B. discriminate B.
  - intros m E k. destruct (build_get _ _ _ _ E k) as [I1 I2].
    destruct (in_dec N.eq_dec k (keys x ++ keys y)) as [J|J].
    + rewrite (I1 J), (l2_comb_glb x y k Gx Gy). apply norm_iwf. apply g_wf; [apply Gx|apply Gy].
    + rewrite (I2 J). destruct (not_in_keys2 x y k J) as [-> ->]. cbn [get]. symmetry. exact g_top_top.
Qed.

Hypothesis g_not_top :
  forall x y, igood x -> igood y -> is_bot (g x y) = false -> is_top (g x y) = false.

Let op2 (a b : env) : env :=
  match a, b with
  | EBot, _ | _, EBot => EBot
  | EMap x, EMap y => match merge false g x y with Some m => EMap m | None => EBot end
  end.

Lemma IR_glb s e s' e' :
  IR s e -> IR s' e' -> IR (s_glb itv is_bot ieq g s s') (op2 e e').
Proof.
  intros H H'.
  destruct (ie_glb_spec g g_wf g_top_r g_top_l g_top_top g_not_top s s' (IR_ok _ _ H) (IR_ok _ _ H'))
    as (Ok' & L1 & L2).
  destruct (IR_inv s e H) as [(Hb & ->)|(Hb & x & -> & A)].
  { cbn [op2]. apply IR_intro_bot; [exact Ok'|]. apply L1. left; exact Hb. }
  destruct (IR_inv s' e' H') as [(Hb' & ->)|(Hb' & y & -> & A')].
  { cbn [op2]. apply IR_intro_bot; [exact Ok'|]. apply L1. right; exact Hb'. }
  destruct (L2 Hb Hb') as [B2 A2]. cbn [op2].
  destruct (l2_glb x y (IR_mgood _ _ H) (IR_mgood _ _ H')) as [N2 S2].
  destruct (sbot (s_glb itv is_bot ieq g s s')) eqn:Br.
  - assert (E : merge false g x y = None).
    { apply N2. destruct (proj1 B2 eq_refl) as [k Bk]. exists k. rewrite <- A, <- A'. exact Bk. }
    rewrite E. apply IR_intro_bot; assumption.
  - destruct (merge false g x y) as [m|] eqn:E.
    + apply IR_intro_map; [exact Ok'|exact Br|]. intros k.
      rewrite (A2 eq_refl k), (S2 m eq_refl k), A, A'. reflexivity.
    + exfalso. destruct (proj1 N2 eq_refl) as [k Bk].
      assert (X : false = true); [|discriminate X].
      apply B2. exists k. rewrite A, A'. exact Bk.
Qed.
End Glb.

Theorem IR_meet s e s' e' : IR s e -> IR s' e' -> IR (ie_meet s s') (e_meet e e').
Proof.
  exact (IR_glb imeet imeet_wf imeet_top_r imeet_top_l imeet_top_top imeet_not_top s e s' e').
Qed.

Theorem IR_narrow s e s' e' : IR s e -> IR s' e' -> IR (ie_narrow s s') (e_narrow e e').
Proof.
  exact (IR_glb inarrow inarrow_wf inarrow_top_r inarrow_top_l inarrow_top_top inarrow_not_top
                s e s' e').
Qed.

(* ------------------------------------------------------------------ project *)
Lemma l2_project_get m vs k :
  mgood m ->
  get (fold_right (fun k acc => put acc k (get m k)) [] vs) k =
  if mem_keys k vs then get m k else itop.
Proof.
  intros G. induction vs as [|v r IH]; cbn [fold_right mem_keys existsb]; [reflexivity|].
  rewrite (get_put _ v (get m v) k (proj1 (G v))).
  fold (mem_keys k r). destruct (N.eqb_spec k v) as [->|NE]; cbn [orb]; [reflexivity|exact IH].
Qed.

Lemma l2_all_top m k :
  mgood m -> forallb (fun k => is_top (get m k)) (keys m) = true -> get m k = itop.
Proof.
  intros G T. apply iwf_top_eq; [apply G|]. exact (proj1 (l2_is_top_iff m) T k).
Qed.

(* both branches of separate_domain::project (copy / remove) against the list version *)
Theorem IR_project s e vs : IR s e -> IR (ie_project s vs) (e_project e vs).
Proof.
  intros H. destruct (ie_project_spec s vs (IR_ok _ _ H)) as (Ok' & B' & A').
  destruct (IR_inv s e H) as [(Hb & ->)|(Hb & m & -> & A)].
  - cbn [e_project]. apply IR_intro_bot; [exact Ok'|]. rewrite B'. exact Hb.
  - cbn [e_project]. pose proof (IR_mgood _ _ H) as G.
    destruct (forallb (fun k => is_top (get m k)) (keys m)) eqn:T.
    + apply IR_intro_map; [exact Ok'|rewrite B'; exact Hb|]. intros k.
      rewrite (A' Hb k), A, (l2_all_top m k G T). destruct (mem_keys k vs); reflexivity.
    + apply IR_intro_map; [exact Ok'|rewrite B'; exact Hb|]. intros k.
      rewrite (A' Hb k), (l2_project_get m vs k G), A. reflexivity.
Qed.

(* ------------------------------------------------------------------ rename
   Both sides perform the same sequence of moves; each move is a set followed by a forget,
   so the simulation needs no hypothesis on the two vectors besides equal lengths (crab
   raises CRAB_ERROR otherwise; the list model truncates). *)
Definition rn2 (m : amap) (p : var * var) : amap :=
  let (k, nk) := p in
  if N.eqb k nk then m
  else if is_top (get m k) then m
  else remove ((nk, get m k) :: remove m nk) k.

Lemma rename_pairs_fold ps : forall m, rename_pairs m ps = fold_left rn2 ps m.
Proof.
  induction ps as [|[k nk] r IH]; intros m; cbn [rename_pairs fold_left rn2]; [reflexivity|].
  destruct (N.eqb k nk); [apply IH|]. destruct (is_top (get m k)); apply IH.
Qed.

Lemma mk_sep_eta (s : ienv) : sbot s = false -> s = mkSep false (stree s).
Proof. destruct s as [b t]. cbn. intros ->. reflexivity. Qed.

Lemma IR_rename_step t m p :
  IR (mkSep false t) (EMap m) ->
  IR (mkSep false (rename_step itv is_top ieq t p)) (EMap (rn2 m p)).
Proof.
  intros H. destruct p as [k nk]. unfold rename_step, rn2.
  change (k =? nk) with (N.eqb k nk). destruct (N.eqb k nk); [exact H|].
  pose proof (IR_at _ _ k H) as Ak. unfold ie_at, s_at in Ak. cbn [sbot stree e_at] in Ak.
  destruct (plookup t k) as [v|] eqn:P.
  - destruct (IR_ok _ _ H) as (W & O & _). cbn [stree] in W, O.
    rewrite (plookup_pget _ _ _ W) in P. destruct (O k v P) as (Wv & Tv & Bv).
    rewrite <- Ak, Tv.
    assert (E1 : ie_forget (ie_set (mkSep false t) nk v) k =
                 mkSep false (premove (pt_insert ieq t nk v) k)).
    { unfold ie_forget, ie_set, s_forget, s_set. cbn [sbot stree]. rewrite Bv, Tv. reflexivity. }
    assert (E2 : e_forget (e_set (EMap m) nk v) k = EMap (remove ((nk, v) :: remove m nk) k)).
    { unfold e_forget, e_set, put. rewrite Bv, Tv. reflexivity. }
    pose proof (IR_forget _ _ k (IR_set _ _ nk v H Wv)) as Q. rewrite E1, E2 in Q. exact Q.
  - rewrite <- Ak. cbn [is_top itop lb ub b_is_finite negb andb]. exact H.
Qed.

Lemma IR_rename_steps ps : forall t m,
  IR (mkSep false t) (EMap m) ->
  IR (mkSep false (fold_left (rename_step itv is_top ieq) ps t)) (EMap (fold_left rn2 ps m)).
Proof.
  induction ps as [|p r IH]; intros t m H; cbn [fold_left]; [exact H|].
  apply IH. apply IR_rename_step. exact H.
Qed.

Theorem IR_rename s e from to :
  IR s e -> length from = length to ->
  exists r, ie_rename s from to = Some r /\ IR r (e_rename e from to).
Proof.
  intros H L. pose proof (IR_is_top s e H) as T. unfold ie_rename, s_rename.
  destruct (IR_inv s e H) as [(Hb & ->)|(Hb & m & -> & A)].
  - rewrite Hb, orb_true_r. exists s. split; [reflexivity|exact H].
  - rewrite Hb, orb_false_r, T. cbn [e_rename e_is_top].
    destruct (forallb (fun k => is_top (get m k)) (keys m)).
    + exists s. split; [reflexivity|exact H].
    + rewrite L, Nat.eqb_refl. cbn [negb]. eexists. split; [reflexivity|].
      rewrite rename_pairs_fold. apply IR_rename_steps. rewrite <- (mk_sep_eta s Hb). exact H.
Qed.

(* ------------------------------------------------------------------ iteration
   begin()/end() over the tree enumerate exactly [bindings] of the list, in the same
   (increasing) key order. *)
Lemma insert_sorted_in k l x : In x (insert_sorted k l) <-> x = k \/ In x l.
Proof.
  induction l as [|h t IH]; cbn [insert_sorted].
  - cbn [In]. split; [intros [E|[]]; left; congruence|intros [E|[]]; left; congruence].
  - destruct (N.ltb k h).
    + cbn [In]. split; [intros [E|E]; [left; congruence|right; exact E]
                       |intros [E|E]; [left; congruence|right; exact E]].
    + destruct (N.eqb_spec k h) as [->|NE].
      * cbn [In]. split; [intros E; right; exact E|intros [E|E]; [left; congruence|exact E]].
      * cbn [In]. rewrite IH. split; [intros [E|[E|E]]|intros [E|[E|E]]]; auto.
Qed.

Lemma insert_sorted_sorted k l : StronglySorted N.lt l -> StronglySorted N.lt (insert_sorted k l).
Proof.
  induction l as [|h t IH]; cbn [insert_sorted]; intros S.
  - constructor; constructor.
  - inversion S as [|? ? S' F]; subst.
    destruct (N.ltb_spec k h) as [LT|GE].
    + constructor; [exact S|]. constructor; [exact LT|].
      rewrite Forall_forall in F |- *. intros x I. specialize (F x I). lia.
    + destruct (N.eqb_spec k h) as [->|NE]; [exact S|].
      constructor; [apply IH; exact S'|].
      rewrite Forall_forall in F |- *. intros x I. apply insert_sorted_in in I.
      destruct I as [->|I]; [lia|apply F; exact I].
Qed.

Lemma sorted_keys_in m k : In k (sorted_keys m) <-> In k (keys m).
Proof.
  unfold sorted_keys. induction (keys m) as [|h t IH]; cbn [fold_right]; [reflexivity|].
  rewrite insert_sorted_in, IH. cbn [In]. split; intros [E|E]; auto.
Qed.

Lemma sorted_keys_sorted m : StronglySorted N.lt (sorted_keys m).
Proof.
  unfold sorted_keys. induction (keys m) as [|h t IH]; cbn [fold_right]; [constructor|].
  apply insert_sorted_sorted. exact IH.
Qed.

Lemma bindings_in m k v : In (k, v) (bindings m) <-> (get m k = v /\ is_top v = false).
Proof.
  unfold bindings. rewrite filter_In, in_map_iff. cbn [snd]. split.
  - intros [(k0 & E & _) T]. inversion E; subst. split; [reflexivity|].
    apply negb_true_iff. exact T.
  - intros [E T]. subst v. split; [|rewrite T; reflexivity].
    exists k. split; [reflexivity|]. apply sorted_keys_in.
    destruct (in_dec N.eq_dec k (keys m)) as [I|I]; [exact I|].
    rewrite (get_not_key m k I) in T. discriminate T.
Qed.

Lemma map_key_sorted (h : N -> itv) l :
  StronglySorted N.lt l -> StronglySorted key_lt (map (fun k => (k, h k)) l).
Proof.
  induction 1 as [|a l S IH F]; cbn [map]; constructor; [exact IH|].
  rewrite Forall_forall in F |- *. intros p I. apply in_map_iff in I.
  destruct I as (k & <- & I). unfold key_lt. cbn [fst]. apply F. exact I.
Qed.

Lemma filter_sorted {A} (lt : A -> A -> Prop) p l :
  StronglySorted lt l -> StronglySorted lt (filter p l).
Proof.
  induction 1 as [|a l S IH F]; cbn [filter]; [constructor|].
  destruct (p a); [|exact IH]. constructor; [exact IH|].
  rewrite Forall_forall in F |- *. intros x I. apply filter_In in I. apply F. apply I.
Qed.

Lemma bindings_sorted m : StronglySorted key_lt (bindings m).
Proof.
  unfold bindings. apply filter_sorted. apply map_key_sorted. apply sorted_keys_sorted.
Qed.

(* two strictly sorted lists with the same elements are equal *)
Lemma sorted_ext (l1 : list (N * itv)) : forall l2,
  StronglySorted key_lt l1 -> StronglySorted key_lt l2 ->
  (forall p, In p l1 <-> In p l2) -> l1 = l2.
Proof.
  induction l1 as [|a r1 IH]; intros [|b r2] S1 S2 E.
  - reflexivity.
  - exfalso. apply (proj2 (E b)). left; reflexivity.
  - exfalso. apply (proj1 (E a)). left; reflexivity.
  - inversion S1 as [|? ? S1' F1]; subst. inversion S2 as [|? ? S2' F2]; subst.
    rewrite Forall_forall in F1, F2. unfold key_lt in F1, F2.
    assert (AB : a = b).
    { destruct (proj1 (E a) (or_introl eq_refl)) as [X|X]; [symmetry; exact X|].
      destruct (proj2 (E b) (or_introl eq_refl)) as [Y|Y]; [exact Y|].
      specialize (F1 b Y). specialize (F2 a X). lia. }
    subst b. f_equal. apply IH; [exact S1'|exact S2'|]. intros p. split; intros I.
    + destruct (proj1 (E p) (or_intror I)) as [X|X]; [|exact X].
      subst p. specialize (F1 a I). lia.
    + destruct (proj2 (E p) (or_intror I)) as [X|X]; [|exact X].
      subst p. specialize (F2 a I). lia.
Qed.

Theorem IR_bindings s m : IR s (EMap m) -> s_elements s = Some (bindings m).
Proof.
  intros H. destruct (IR_inv _ _ H) as [(_ & X)|(Hb & m' & X & A)]; [discriminate X|].
  inversion X; subst m'.
  destruct (ie_elements_spec s (IR_ok _ _ H) Hb) as (l & E & S & I).
  rewrite E. f_equal. apply sorted_ext; [exact S|apply bindings_sorted|].
  intros [k v]. rewrite I, bindings_in, A. reflexivity.
Qed.

(* on bottom the C++ iteration is an error, the list model has no map to enumerate *)
Lemma IR_bindings_bot s : IR s EBot -> s_elements s = None.
Proof. intros H. unfold s_elements. rewrite (IR_bot _ _ H). reflexivity. Qed.

(* ------------------------------------------------------------------ the abstraction function:
   every L1 environment satisfying the invariant implements the L2 environment read off
   its tree, so the relation is total on the L1 side and the hypotheses are satisfiable
   by every reachable tree *)
Definition ie_abs (s : ienv) : env := if sbot s then EBot else EMap (pelements (stree s)).

Lemma get_pelements_sorted (l : list (N * itv)) k v :
  StronglySorted key_lt l -> In (k, v) l -> get l k = v.
Proof.
  induction 1 as [|[k0 v0] r S IH F]; intros I; [destruct I|]. cbn [get].
  destruct I as [E|I].
  - inversion E; subst. rewrite N.eqb_refl. reflexivity.
  - rewrite Forall_forall in F. specialize (F _ I). unfold key_lt in F. cbn [fst] in F.
    destruct (N.eqb_spec k0 k); [lia|]. apply IH. exact I.
Qed.

Theorem IR_abs s : ie_ok s -> IR s (ie_abs s).
Proof.
  intros Ok. unfold ie_abs. destruct (sbot s) eqn:Hb; [apply IR_intro_bot; assumption|].
  destruct (ie_elements_spec s Ok Hb) as (l & E & S & I).
  unfold s_elements in E. rewrite Hb in E. inversion E as [E']. clear E. subst l.
  apply IR_intro_map; [exact Ok|exact Hb|]. intros k.
  destruct (is_top (ie_at s k)) eqn:T.
  - rewrite (iwf_top_eq _ (ie_at_wf s k Ok Hb) T). symmetry. apply get_not_key.
    intros J. unfold keys in J. apply in_map_iff in J. destruct J as ([k0 v0] & <- & J).
    cbn [fst] in T. apply I in J. destruct J as [J1 J2]. rewrite J1 in T. congruence.
  - symmetry. apply get_pelements_sorted; [exact S|]. apply I. split; [reflexivity|exact T].
Qed.
