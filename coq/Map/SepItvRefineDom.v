(* SepItvRefineDom.v — the solver-free transfer functions of ikos::interval_domain
   (Dom/ItvDomain.v: assign, weak assign, apply, forget, expand), written once over the
   interface [env_ops] of Map/SepItvRefineRun.v.  Instantiated with the association-list
   operations they ARE the functions of Dom/ItvDomain.v (by computation); instantiated with
   the patricia-tree operations they are the same code running on separate_domain over
   trees; the two instances preserve the refinement relation [IR].

   Not covered: add / entails / select / cast.  They run linear_interval_solver, which
   Dom/ItvSolver.v models directly on the association list (get / put on [amap]), not
   through the environment interface; there is no tree-level model of the solver. *)
From Coq Require Import NArith ZArith Bool List Lia.
From CrabV Require Import Base.ZInf Scalar.Itv Ir.Syntax.
From CrabV Require Import Map.Patricia Map.SepDomain Map.SepDomainSound Map.SepItv.
From CrabV Require Import Dom.ItvEnv Dom.ItvEnvSound Dom.ItvDomain
     Map.SepItvRefine Map.SepItvRefineRun.
From CrabV Require Scalar.ItvSound Scalar.ItvTight.
Import ListNotations.
Local Open Scope Z_scope.

(* ------------------------------------------------------------------ imul keeps intervals well formed *)
Lemma bmin_pinf x y : bmin x y = PInf -> x = PInf /\ y = PInf.
Proof.
  unfold bmin. destruct x, y; cbn [ble]; try discriminate; try (intros; split; reflexivity).
  destruct (z <=? z0); discriminate.
Qed.
Lemma bmax_minf x y : bmax x y = MInf -> x = MInf /\ y = MInf.
Proof.
  unfold bmax. destruct x, y; cbn [ble]; try discriminate; try (intros; split; reflexivity).
  destruct (z <=? z0); discriminate.
Qed.
Lemma bmin4_pinf x y z t : bmin4 x y z t = PInf -> x = PInf /\ y = PInf /\ z = PInf /\ t = PInf.
Proof.
  unfold bmin4. intros H. apply bmin_pinf in H. destruct H as [H1 H]. apply bmin_pinf in H.
  destruct H as [H2 H]. apply bmin_pinf in H. tauto.
Qed.
Lemma bmax4_minf x y z t : bmax4 x y z t = MInf -> x = MInf /\ y = MInf /\ z = MInf /\ t = MInf.
Proof.
  unfold bmax4. intros H. apply bmax_minf in H. destruct H as [H1 H]. apply bmax_minf in H.
  destruct H as [H2 H]. apply bmax_minf in H. tauto.
Qed.

Ltac bcase x := destruct x as [|[|?|?]|].

Lemma wf_imul a b : ItvSound.wf a -> ItvSound.wf b -> ItvSound.wf (imul a b).
Proof.
  intros Wa Wb. unfold imul. destruct (is_bot a) eqn:Ba; [apply ItvSound.wf_bot|].
  destruct (is_bot b) eqn:Bb; [apply ItvSound.wf_bot|]. cbn [orb].
  destruct (ItvSound.wf_nonbot a Wa Ba) as (A1 & A2 & _).
  destruct (ItvSound.wf_nonbot b Wb Bb) as (B1 & B2 & _).
  clear Wa Wb Ba Bb. destruct a as [la ua], b as [lb' ub']. cbn [lb ub] in *.
  apply ItvSound.wf_imk; intros H.
  - apply bmin4_pinf in H. destruct H as (H1 & H2 & H3 & H4).
    bcase la; bcase ua; try congruence; bcase lb'; try congruence; bcase ub'; try congruence;
      cbn in H1, H2, H3, H4; congruence.
  - apply bmax4_minf in H. destruct H as (H1 & H2 & H3 & H4).
    bcase la; bcase ua; try congruence; bcase lb'; try congruence; bcase ub'; try congruence;
      cbn in H1, H2, H3, H4; congruence.
Qed.

(* ------------------------------------------------------------------ the transfer functions, generically *)
Section Derived.
Context {T : Type} (M : env_ops T).

Fixpoint g_eval_terms (ts : list (Z * var)) (e : T) (r : itv) : itv :=
  match ts with
  | [] => r
  | (c, v) :: t => g_eval_terms t e (iadd r (imul (iconst c) (o_at M e v)))
  end.
Definition g_eval (ex : linexp) (e : T) : itv :=
  g_eval_terms (le_terms ex) e (iconst (le_cst ex)).

Definition g_assign (x : var) (ex : linexp) (e : T) : T :=
  match le_get_variable ex with
  | Some v => o_set M e x (o_at M e v)
  | None => o_set M e x (g_eval ex e)
  end.
Definition g_weak_assign (x : var) (ex : linexp) (e : T) : T :=
  match le_get_variable ex with
  | Some v => o_join_kv M e x (o_at M e v)
  | None => o_join_kv M e x (g_eval ex e)
  end.
Definition g_operand (o : operand) (e : T) : itv :=
  match o with OVar v => o_at M e v | OCst k => iconst k end.
Definition g_apply (opf : itv -> itv -> itv) (x y : var) (z : operand) (e : T) : T :=
  o_set M e x (opf (o_at M e y) (g_operand z e)).
Definition g_forget (vs : list var) (e : T) : T :=
  if o_is_bot M e || o_is_top M e then e else fold_left (o_forget M) vs e.
Definition g_expand (x nx : var) (e : T) : T :=
  if o_is_bot M e || o_is_top M e then e else o_set M e nx (o_at M e x).
End Derived.

(* the association-list instance is Dom/ItvDomain.v *)
Lemma g_eval_terms_list ts : forall e r, g_eval_terms list_ops ts e r = eval_terms_itv ts e r.
Proof.
  induction ts as [|[c v] t IH]; intros e r; cbn [g_eval_terms eval_terms_itv]; [reflexivity|].
  apply IH.
Qed.
Lemma g_eval_list ex e : g_eval list_ops ex e = d_eval ex e.
Proof. apply g_eval_terms_list. Qed.
Lemma g_assign_list x ex e : g_assign list_ops x ex e = d_assign x ex e.
Proof. unfold g_assign, d_assign. rewrite g_eval_list. reflexivity. Qed.
Lemma g_weak_assign_list x ex e : g_weak_assign list_ops x ex e = d_weak_assign x ex e.
Proof. unfold g_weak_assign, d_weak_assign. rewrite g_eval_list. reflexivity. Qed.
Lemma g_apply_arith_list op x y z e : g_apply list_ops (arith_itv op) x y z e = d_apply_arith op x y z e.
Proof. destruct z; reflexivity. Qed.
Lemma g_apply_bit_list op x y z e : g_apply list_ops (bit_itv op) x y z e = d_apply_bit op x y z e.
Proof. destruct z; reflexivity. Qed.
Lemma g_forget_list vs e : g_forget list_ops vs e = d_forget vs e.
Proof. reflexivity. Qed.
Lemma g_expand_list x nx e : g_expand list_ops x nx e = d_expand x nx e.
Proof. reflexivity. Qed.

(* ------------------------------------------------------------------ simulation *)
Lemma IR_eval_terms s e ts : IR s e -> forall r,
  ItvSound.wf r ->
  g_eval_terms tree_ops ts s r = g_eval_terms list_ops ts e r /\
  ItvSound.wf (g_eval_terms tree_ops ts s r).
Proof.
  intros H. induction ts as [|[c v] t IH]; intros r W; cbn [g_eval_terms].
  - split; [reflexivity|exact W].
  - cbn [o_at tree_ops list_ops]. rewrite <- (IR_at s e v H). apply IH.
    apply ItvTight.wf_iadd; [exact W|]. apply wf_imul; [apply ItvSound.wf_iconst|].
    exact (IR_wf_at s e v H).
Qed.

Lemma IR_eval s e ex : IR s e ->
  g_eval tree_ops ex s = g_eval list_ops ex e /\ iwf (g_eval tree_ops ex s).
Proof.
  intros H. destruct (IR_eval_terms s e (le_terms ex) H (iconst (le_cst ex)) (ItvSound.wf_iconst _))
    as [E W].
  split; [exact E|apply wf_iwf; exact W].
Qed.

Theorem IR_assign x ex s e : IR s e -> IR (g_assign tree_ops x ex s) (d_assign x ex e).
Proof.
  intros H. rewrite <- g_assign_list. unfold g_assign.
  destruct (le_get_variable ex) as [v|]; cbn [o_set o_at tree_ops list_ops].
  - rewrite <- (IR_at s e v H). apply IR_set; [exact H|]. apply wf_iwf. exact (IR_wf_at s e v H).
  - destruct (IR_eval s e ex H) as [E W]. rewrite <- E. apply IR_set; assumption.
Qed.

Theorem IR_weak_assign x ex s e :
  IR s e -> IR (g_weak_assign tree_ops x ex s) (d_weak_assign x ex e).
Proof.
  intros H. rewrite <- g_weak_assign_list. unfold g_weak_assign.
  destruct (le_get_variable ex) as [v|]; cbn [o_join_kv o_at tree_ops list_ops].
  - rewrite <- (IR_at s e v H). apply IR_join_kv; [exact H|]. apply wf_iwf. exact (IR_wf_at s e v H).
  - destruct (IR_eval s e ex H) as [E W]. rewrite <- E. apply IR_join_kv; assumption.
Qed.

(* x := y op z for any interval operator that keeps intervals well formed *)
Theorem IR_apply opf x y z s e :
  (forall a b, ItvSound.wf a -> ItvSound.wf b -> iwf (opf a b)) ->
  IR s e -> IR (g_apply tree_ops opf x y z s) (g_apply list_ops opf x y z e).
Proof.
  intros Wop H. unfold g_apply. cbn [o_set o_at tree_ops list_ops].
  assert (Ez : g_operand tree_ops z s = g_operand list_ops z e /\ ItvSound.wf (g_operand tree_ops z s)).
  { destruct z as [v|k]; cbn [g_operand o_at tree_ops list_ops].
    - split; [exact (IR_at s e v H)|exact (IR_wf_at s e v H)].
    - split; [reflexivity|apply ItvSound.wf_iconst]. }
  destruct Ez as [Ez Wz]. rewrite <- Ez, <- (IR_at s e y H).
  apply IR_set; [exact H|]. apply Wop; [exact (IR_wf_at s e y H)|exact Wz].
Qed.

Lemma arith_wf_add_sub_mul op :
  op = OpAdd \/ op = OpSub \/ op = OpMul ->
  forall a b, ItvSound.wf a -> ItvSound.wf b -> iwf (arith_itv op a b).
Proof.
  intros [->|[->| ->]] a b Wa Wb; apply wf_iwf; cbn [arith_itv];
    [apply ItvTight.wf_iadd|apply ItvTight.wf_isub|apply wf_imul]; assumption.
Qed.

Theorem IR_apply_arith op x y z s e :
  op = OpAdd \/ op = OpSub \/ op = OpMul ->
  IR s e -> IR (g_apply tree_ops (arith_itv op) x y z s) (d_apply_arith op x y z e).
Proof.
  intros Hop H. rewrite <- g_apply_arith_list. apply IR_apply; [|exact H].
  apply arith_wf_add_sub_mul. exact Hop.
Qed.

Lemma IR_fold_forget vs : forall s e,
  IR s e -> IR (fold_left ie_forget vs s) (fold_left e_forget vs e).
Proof.
  induction vs as [|v r IH]; intros s e H; cbn [fold_left]; [exact H|].
  apply IH. apply IR_forget. exact H.
Qed.

Theorem IR_d_forget vs s e : IR s e -> IR (g_forget tree_ops vs s) (d_forget vs e).
Proof.
  intros H. unfold g_forget, d_forget. cbn [o_is_bot o_is_top o_forget tree_ops].
  rewrite (IR_is_bottom s e H), (IR_is_top s e H).
  destruct (e_is_bot e || e_is_top e); [exact H|]. apply IR_fold_forget. exact H.
Qed.

Theorem IR_d_expand x nx s e : IR s e -> IR (g_expand tree_ops x nx s) (d_expand x nx e).
Proof.
  intros H. unfold g_expand, d_expand. cbn [o_is_bot o_is_top o_set o_at tree_ops].
  rewrite (IR_is_bottom s e H), (IR_is_top s e H).
  destruct (e_is_bot e || e_is_top e); [exact H|].
  rewrite <- (IR_at s e x H). apply IR_set; [exact H|]. apply wf_iwf. exact (IR_wf_at s e x H).
Qed.

(* x := 2*y - 3 ; z := x * y on a tree and on a list *)
Example ex_assign :
  let ex1 := mkLE [(2, 1%N); (1, 7%N)] (-3) in
  let s := ie_set (ie_set ie_top 1%N (mkI (Fin 0) (Fin 5))) 7%N (mkI (Fin 1) PInf) in
  let e := e_set (e_set e_top 1%N (mkI (Fin 0) (Fin 5))) 7%N (mkI (Fin 1) PInf) in
  let s' := g_apply tree_ops (arith_itv OpMul) 3%N 2%N (OVar 1%N) (g_assign tree_ops 2%N ex1 s) in
  let e' := d_apply_arith OpMul 3%N 2%N (OVar 1%N) (d_assign 2%N ex1 e) in
  IR s' e' /\
  s_elements s' = Some [(1%N, mkI (Fin 0) (Fin 5)); (2%N, mkI (Fin (-2)) PInf);
                         (3%N, mkI (Fin (-10)) PInf); (7%N, mkI (Fin 1) PInf)] /\
  o_bindings list_ops e' = s_elements s'.
Proof.
  cbv zeta. split; [|vm_compute; split; reflexivity].
  apply IR_apply_arith; [right; right; reflexivity|]. apply IR_assign.
  apply IR_set; [apply IR_set; [exact IR_top|]|]; split; discriminate.
Qed.
