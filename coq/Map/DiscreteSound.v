(* DiscreteSound.v — patricia_tree_set and discrete_domain (Map/DiscreteDomain.v) implement
   finite sets exactly: membership after insertion / removal / union / intersection /
   difference is the boolean combination of the memberships, the subset test holds exactly
   when it holds elementwise, iteration lists the elements once in increasing order. *)
From Coq Require Import NArith Bool List Lia Sorting.Sorted.
From CrabV Require Import Map.Patricia Map.PatriciaBits Map.PatriciaSpec Map.DiscreteDomain.
Import ListNotations.
Local Open Scope N_scope.

Definition bok (v : bool) : Prop := v = true.
Lemma beq_ok : forall x y, bok x -> Bool.eqb y x = true -> y = x.
Proof. intros x y _ H. apply eqb_prop; exact H. Qed.

Definition ps_ok (s : pset) : Prop := wfp s /\ pall_ok bok s.

Definition omem (o : option bool) : bool := match o with Some b => b | None => false end.

Lemma ps_mem_pget s k : ps_ok s -> ps_mem s k = omem (pget s k).
Proof. intros [W _]. unfold ps_mem. rewrite (plookup_pget _ _ _ W). reflexivity. Qed.

Lemma omem_some s k : ps_ok s -> omem (pget s k) = true <-> exists v, pget s k = Some v.
Proof.
  intros [_ O]. split.
  - destruct (pget s k) as [v|]; [eauto|discriminate].
  - intros [v H]. rewrite H. cbn. apply (O k v H).
Qed.

Lemma ps_ok_empty : ps_ok ps_empty.
Proof. split; [exact I|]. intros k v H; discriminate. Qed.

Theorem ps_mem_empty k : ps_mem ps_empty k = false.
Proof. reflexivity. Qed.

Theorem ps_add_spec s k :
  ps_ok s -> ps_ok (ps_add s k) /\ forall k', ps_mem (ps_add s k) k' = (k' =? k) || ps_mem s k'.
Proof.
  intros Ok. pose proof Ok as [W O]. unfold ps_add.
  destruct (pt_insert_spec bool Bool.eqb bok beq_ok s k true W O) as (W' & _ & G').
  assert (Ok' : ps_ok (pt_insert Bool.eqb s k true)).
  { split; [exact W'|]. intros k0 v. rewrite G'. destruct (k0 =? k); [|apply O].
    intros E; inversion E; reflexivity. }
  split; [exact Ok'|]. intros k'. rewrite (ps_mem_pget _ _ Ok'), (ps_mem_pget _ _ Ok), G'.
  destruct (k' =? k); reflexivity.
Qed.

Theorem ps_single_spec k :
  ps_ok (ps_single k) /\ forall k', ps_mem (ps_single k) k' = (k' =? k).
Proof.
  destruct (ps_add_spec ps_empty k ps_ok_empty) as [H1 H2]. split; [exact H1|].
  intros k'. unfold ps_single. change (pt_insert Bool.eqb None k true) with (ps_add ps_empty k).
  rewrite H2, ps_mem_empty. apply orb_false_r.
Qed.

Theorem ps_remove_spec s k :
  ps_ok s ->
  ps_ok (ps_remove s k) /\ forall k', ps_mem (ps_remove s k) k' = negb (k' =? k) && ps_mem s k'.
Proof.
  intros Ok. pose proof Ok as [W O]. unfold ps_remove.
  destruct (premove_spec bool s k W) as (W' & _ & G').
  assert (Ok' : ps_ok (premove s k)).
  { split; [exact W'|]. intros k0 v. rewrite G'. destruct (k0 =? k); [discriminate|apply O]. }
  split; [exact Ok'|]. intros k'. rewrite (ps_mem_pget _ _ Ok'), (ps_mem_pget _ _ Ok), G'.
  destruct (k' =? k); reflexivity.
Qed.

Lemma merge_sets (op : binop bool) a b :
  (forall k x y, bapply op k x y = (false, Some true)) ->
  ps_ok a -> ps_ok b ->
  ps_ok (snd (pt_merge_with Bool.eqb a b op)) /\
  forall k, pget (snd (pt_merge_with Bool.eqb a b op)) k = comb op true k (pget a k) (pget b k).
Proof.
  intros Hop [Wa Oa] [Wb Ob].
  pose proof (pmerge_spec bool Bool.eqb bok beq_ok op true a b Wa Wb Oa Ob) as M.
  unfold pt_merge_with. destruct (pmerge Bool.eqb op true a b) as [bt r].
  unfold pmerge_result, mres in M. cbn [fst snd] in M. destruct bt.
  - exfalso. destruct M as (_ & k & x & y & _ & _ & H). unfold app_op in H. rewrite Hop in H.
    discriminate.
  - destruct M as (Wr & _ & Gr & _). cbn [snd]. split; [|exact Gr].
    split; [exact Wr|]. intros k v. rewrite Gr.
    destruct (pget a k) as [x|] eqn:Ea; destruct (pget b k) as [y|] eqn:Eb; cbn [comb].
    + unfold app_op. rewrite Hop. cbn. intros E; inversion E; reflexivity.
    + destruct (babsorbing op); [discriminate|]. intros E; inversion E; subst. apply (Oa k v Ea).
    + destruct (babsorbing op); [discriminate|]. intros E; inversion E; subst. apply (Ob k v Eb).
    + discriminate.
Qed.

Theorem ps_union_spec a b :
  ps_ok a -> ps_ok b ->
  ps_ok (ps_union a b) /\ forall k, ps_mem (ps_union a b) k = ps_mem a k || ps_mem b k.
Proof.
  intros Oa Ob. destruct (merge_sets union_op a b (fun _ _ _ => eq_refl) Oa Ob) as [Ok G].
  split; [exact Ok|]. intros k. unfold ps_union.
  rewrite (ps_mem_pget _ _ Ok), (ps_mem_pget _ _ Oa), (ps_mem_pget _ _ Ob), G.
  destruct Oa as [_ Oa]. destruct Ob as [_ Ob].
  destruct (pget a k) as [x|] eqn:Ea; destruct (pget b k) as [y|] eqn:Eb; cbn.
  - rewrite (Oa k x Ea). reflexivity.
  - rewrite (Oa k x Ea). reflexivity.
  - rewrite (Ob k y Eb). reflexivity.
  - reflexivity.
Qed.

Theorem ps_inter_spec a b :
  ps_ok a -> ps_ok b ->
  ps_ok (ps_inter a b) /\ forall k, ps_mem (ps_inter a b) k = ps_mem a k && ps_mem b k.
Proof.
  intros Oa Ob. destruct (merge_sets intersection_op a b (fun _ _ _ => eq_refl) Oa Ob) as [Ok G].
  split; [exact Ok|]. intros k. unfold ps_inter.
  rewrite (ps_mem_pget _ _ Ok), (ps_mem_pget _ _ Oa), (ps_mem_pget _ _ Ob), G.
  destruct Oa as [_ Oa]. destruct Ob as [_ Ob].
  destruct (pget a k) as [x|] eqn:Ea; destruct (pget b k) as [y|] eqn:Eb; cbn.
  - rewrite (Oa k x Ea), (Ob k y Eb). reflexivity.
  - rewrite andb_false_r. reflexivity.
  - reflexivity.
  - reflexivity.
Qed.

Theorem ps_leq_spec a b :
  ps_ok a -> ps_ok b ->
  (ps_leq a b = true <-> forall k, ps_mem a k = true -> ps_mem b k = true).
Proof.
  intros Oa Ob. pose proof Oa as [Wa Ga]. pose proof Ob as [Wb Gb].
  unfold ps_leq, pt_leq. rewrite (pcompare_spec bool subset_po true a b Wa Wb). split.
  - intros H k. specialize (H k). rewrite (ps_mem_pget _ _ Oa), (ps_mem_pget _ _ Ob).
    destruct (pget a k) as [x|] eqn:Ea; destruct (pget b k) as [y|] eqn:Eb; cbn in *;
      try congruence. intros _. apply (Gb k y Eb).
  - intros H k. specialize (H k). rewrite (ps_mem_pget _ _ Oa), (ps_mem_pget _ _ Ob) in H.
    destruct (pget a k) as [x|] eqn:Ea; destruct (pget b k) as [y|] eqn:Eb; cbn in *; auto.
    rewrite (Ga k x Ea) in H. specialize (H eq_refl). discriminate.
Qed.

Theorem ps_eq_spec a b :
  ps_ok a -> ps_ok b -> (ps_eq a b = true <-> forall k, ps_mem a k = ps_mem b k).
Proof.
  intros Oa Ob. unfold ps_eq. rewrite andb_true_iff, (ps_leq_spec a b Oa Ob), (ps_leq_spec b a Ob Oa).
  split.
  - intros [H1 H2] k. specialize (H1 k). specialize (H2 k).
    destruct (ps_mem a k), (ps_mem b k); auto; try (symmetry; apply H1; reflexivity); apply H2; reflexivity.
  - intros H. split; intros k; rewrite (H k); auto.
Qed.

Theorem ps_elements_spec s :
  ps_ok s ->
  StronglySorted N.lt (ps_elements s) /\ (forall k, In k (ps_elements s) <-> ps_mem s k = true) /\
  ps_size s = N.of_nat (length (ps_elements s)).
Proof.
  intros Ok. pose proof Ok as [W O]. unfold ps_elements, ps_size. split; [|split].
  - pose proof (pelements_sorted bool s W) as S. induction S as [|x l S IH F]; cbn [map].
    + constructor.
    + constructor; [exact IH|]. apply Forall_forall. intros y Hy. apply in_map_iff in Hy.
      destruct Hy as [z [<- Hz]]. rewrite Forall_forall in F. apply (F z Hz).
  - intros k. rewrite (ps_mem_pget _ _ Ok), (omem_some _ _ Ok), in_map_iff. split.
    + intros [[k0 v] [E H]]. cbn [fst] in E. subst k0. exists v. apply (pelements_in bool s k v W). exact H.
    + intros [v H]. exists (k, v). split; [reflexivity|]. apply (pelements_in bool s k v W). exact H.
  - rewrite psize_elements, map_length. reflexivity.
Qed.

Theorem ps_is_empty_spec s : ps_ok s -> (ps_is_empty s = true <-> forall k, ps_mem s k = false).
Proof.
  intros Ok. destruct s as [t|]; cbn [ps_is_empty]; split; auto; try discriminate.
  intros H. destruct (get_inhabited bool t) as [k [v G]]. specialize (H k).
  rewrite (ps_mem_pget _ _ Ok) in H. cbn [pget] in H. rewrite G in H. cbn in H.
  destruct Ok as [_ O]. rewrite (O k v G) in H. discriminate.
Qed.

(* ---------------------------------------------------------------- discrete_domain *)

Definition dd_ok (d : ddom) : Prop := ps_ok (dset d) /\ (dtop d = true -> dset d = None).

(* membership in the denoted set: top is the set of all elements *)
Definition dd_mem (d : ddom) (k : N) : bool := dtop d || ps_mem (dset d) k.

Lemma dd_ok_bottom : dd_ok dd_bottom.
Proof. split; [apply ps_ok_empty|reflexivity]. Qed.
Lemma dd_ok_top : dd_ok dd_top.
Proof. split; [apply ps_ok_empty|reflexivity]. Qed.
Lemma dd_ok_mk s : ps_ok s -> dd_ok (mkDD false s).
Proof. intros H. split; [exact H|discriminate]. Qed.

Theorem dd_contain_spec d k : dd_ok d -> dd_contain d k = dd_mem d k.
Proof.
  intros [Ok T]. unfold dd_contain, dd_is_bottom, dd_is_top, dd_mem.
  destruct (dtop d) eqn:E; cbn [negb andb orb]; [reflexivity|].
  destruct (ps_is_empty (dset d)) eqn:Em; [|reflexivity].
  apply (ps_is_empty_spec _ Ok) with (k := k) in Em. rewrite Em. reflexivity.
Qed.

Theorem dd_is_bottom_spec d : dd_ok d -> (dd_is_bottom d = true <-> forall k, dd_mem d k = false).
Proof.
  intros [Ok T]. unfold dd_is_bottom, dd_mem. destruct (dtop d); cbn [negb andb orb].
  - split; [discriminate|]. intros H. specialize (H 0). discriminate.
  - apply ps_is_empty_spec; exact Ok.
Qed.

Theorem dd_join_spec a b :
  dd_ok a -> dd_ok b ->
  dd_ok (dd_join a b) /\ forall k, dd_mem (dd_join a b) k = dd_mem a k || dd_mem b k.
Proof.
  intros [Oa Ta] [Ob Tb]. unfold dd_join, dd_mem.
  destruct (dtop a) eqn:Ea; cbn [orb].
  { split; [apply dd_ok_top|]. reflexivity. }
  destruct (dtop b) eqn:Eb; cbn [orb].
  { split; [apply dd_ok_top|]. intros k. cbn. rewrite orb_true_r. reflexivity. }
  destruct (ps_union_spec _ _ Oa Ob) as [Ok G]. split; [apply dd_ok_mk; exact Ok|].
  intros k. cbn [dtop dset orb]. apply G.
Qed.

Theorem dd_meet_spec a b :
  dd_ok a -> dd_ok b ->
  dd_ok (dd_meet a b) /\ forall k, dd_mem (dd_meet a b) k = dd_mem a k && dd_mem b k.
Proof.
  intros Da Db. pose proof Da as [Oa Ta]. pose proof Db as [Ob Tb]. unfold dd_meet.
  destruct (dd_is_bottom a) eqn:Ba.
  { cbn [orb]. split; [apply dd_ok_bottom|]. intros k.
    rewrite (proj1 (dd_is_bottom_spec a Da) Ba k). reflexivity. }
  destruct (dd_is_bottom b) eqn:Bb.
  { cbn [orb]. split; [apply dd_ok_bottom|]. intros k.
    rewrite (proj1 (dd_is_bottom_spec b Db) Bb k), andb_false_r. reflexivity. }
  cbn [orb]. unfold dd_is_top, dd_mem. destruct (dtop a) eqn:Ea; cbn [orb andb].
  { split; [exact Db|]. reflexivity. }
  destruct (dtop b) eqn:Eb; cbn [orb andb].
  { split; [exact Da|]. intros k. rewrite Ea. cbn [orb]. rewrite andb_true_r. reflexivity. }
  destruct (ps_inter_spec _ _ Oa Ob) as [Ok G]. split; [apply dd_ok_mk; exact Ok|].
  intros k. cbn [dtop dset orb]. apply G.
Qed.

Theorem dd_leq_spec a b :
  dd_ok a -> dd_ok b ->
  (dd_leq a b = true <->
   dtop b = true \/ (dtop a = false /\ forall k, dd_mem a k = true -> dd_mem b k = true)).
Proof.
  intros [Oa Ta] [Ob Tb]. unfold dd_leq, dd_mem. destruct (dtop b) eqn:Eb; cbn [orb].
  { split; auto. }
  destruct (dtop a) eqn:Ea; cbn [negb andb orb].
  { split; [discriminate|]. intros [H|[H _]]; discriminate. }
  rewrite (ps_leq_spec _ _ Oa Ob). split; [intros H; right; auto|].
  intros [H|[_ H]]; [discriminate|exact H].
Qed.

Theorem dd_eq_spec a b :
  dd_ok a -> dd_ok b ->
  (dd_eq a b = true <->
   (dtop a = true /\ dtop b = true) \/
   (dtop a = false /\ dtop b = false /\ forall k, dd_mem a k = dd_mem b k)).
Proof.
  intros [Oa Ta] [Ob Tb]. unfold dd_eq, dd_mem.
  destruct (dtop a) eqn:Ea; destruct (dtop b) eqn:Eb; cbn [orb andb].
  - split; auto.
  - split; [discriminate|]. intros [[_ H]|[H _]]; discriminate.
  - split; [discriminate|]. intros [[H _]|[_ [H _]]]; discriminate.
  - rewrite (ps_eq_spec _ _ Oa Ob). split; [intros H; right; auto|].
    intros [[H _]|[_ [_ H]]]; [discriminate|exact H].
Qed.

Theorem dd_add_spec d k :
  dd_ok d -> dd_ok (dd_add d k) /\ forall k', dd_mem (dd_add d k) k' = (k' =? k) || dd_mem d k'.
Proof.
  intros Dd. pose proof Dd as [Od Td]. unfold dd_add, dd_mem. destruct (dtop d) eqn:E.
  - split; [exact Dd|]. intros k'. rewrite E. cbn. rewrite orb_true_r. reflexivity.
  - destruct (ps_add_spec _ k Od) as [Ok G]. split; [apply dd_ok_mk; exact Ok|].
    intros k'. cbn [dtop dset orb]. apply G.
Qed.

(* removal is exact on finite sets; top (all elements) is not representable minus one
   element and stays top *)
Theorem dd_remove_spec d k :
  dd_ok d ->
  dd_ok (dd_remove d k) /\
  forall k', dd_mem (dd_remove d k) k' = dtop d || (negb (k' =? k) && dd_mem d k').
Proof.
  intros Dd. pose proof Dd as [Od Td]. unfold dd_remove, dd_mem. destruct (dtop d) eqn:E.
  - split; [exact Dd|]. intros k'. rewrite E. reflexivity.
  - destruct (ps_remove_spec _ k Od) as [Ok G]. split; [apply dd_ok_mk; exact Ok|].
    intros k'. cbn [dtop dset orb]. apply G.
Qed.

Lemma dd_remove_fold ks : forall d,
  dd_ok d -> dtop d = false ->
  dd_ok (fold_left dd_remove ks d) /\ dtop (fold_left dd_remove ks d) = false /\
  forall k, dd_mem (fold_left dd_remove ks d) k = dd_mem d k && negb (existsb (N.eqb k) ks).
Proof.
  induction ks as [|x ks IH]; intros d Dd E; cbn [fold_left existsb].
  - split; [exact Dd|]. split; [exact E|]. intros k. rewrite andb_true_r. reflexivity.
  - destruct (dd_remove_spec d x Dd) as [D1 G1].
    assert (E1 : dtop (dd_remove d x) = false) by (unfold dd_remove; rewrite E; reflexivity).
    destruct (IH _ D1 E1) as (I1 & I2 & I3). split; [exact I1|]. split; [exact I2|].
    intros k. rewrite I3, G1, E. cbn [orb]. destruct (k =? x); cbn [negb andb orb].
    + rewrite andb_false_r. reflexivity.
    + reflexivity.
Qed.

(* difference a - b of two finite sets *)
Theorem dd_diff_spec a b :
  dd_ok a -> dd_ok b -> dtop a = false -> dtop b = false ->
  dd_ok (dd_diff a b) /\ forall k, dd_mem (dd_diff a b) k = dd_mem a k && negb (dd_mem b k).
Proof.
  intros Da Db Ea Eb. unfold dd_diff, dd_remove_list. rewrite Ea.
  destruct (dd_remove_fold (ps_elements (dset b)) a Da Ea) as (H1 & _ & H3).
  split; [exact H1|]. intros k. rewrite H3. f_equal. f_equal.
  destruct Db as [Ob _]. destruct (ps_elements_spec _ Ob) as (_ & Hin & _).
  unfold dd_mem. rewrite Eb. cbn [orb].
  destruct (ps_mem (dset b) k) eqn:M.
  - apply existsb_exists. exists k. split; [apply Hin; exact M|apply N.eqb_refl].
  - destruct (existsb (N.eqb k) (ps_elements (dset b))) eqn:X; [|reflexivity].
    apply existsb_exists in X. destruct X as [x [X1 X2]]. apply N.eqb_eq in X2. subst x.
    apply Hin in X1. congruence.
Qed.

Theorem dd_size_spec d :
  dd_ok d -> dd_size d = if dtop d then None else Some (N.of_nat (length (ps_elements (dset d)))).
Proof.
  intros [Od _]. unfold dd_size. destruct (dtop d); [reflexivity|].
  destruct (ps_elements_spec _ Od) as (_ & _ & S). rewrite S. reflexivity.
Qed.

(* refutation of operator== as it was before fixes/patricia-3.diff *)
Theorem dd_eq_orig_refuted :
  exists a b, dd_ok a /\ dd_ok b /\ dd_eq_orig a b = true /\ dd_mem a 0 <> dd_mem b 0.
Proof.
  exists dd_top, dd_bottom. split; [apply dd_ok_top|]. split; [apply dd_ok_bottom|].
  split; [reflexivity|]. cbn. discriminate.
Qed.

(* ---------------------------------------------------------------- any sequence of operations *)
Inductive ps_reach : pset -> Prop :=
| PR_empty : ps_reach ps_empty
| PR_add s k : ps_reach s -> ps_reach (ps_add s k)
| PR_remove s k : ps_reach s -> ps_reach (ps_remove s k)
| PR_union a b : ps_reach a -> ps_reach b -> ps_reach (ps_union a b)
| PR_inter a b : ps_reach a -> ps_reach b -> ps_reach (ps_inter a b).

Theorem ps_reach_ok s : ps_reach s -> ps_ok s.
Proof.
  induction 1.
  - apply ps_ok_empty.
  - apply ps_add_spec; assumption.
  - apply ps_remove_spec; assumption.
  - apply ps_union_spec; assumption.
  - apply ps_inter_spec; assumption.
Qed.

Inductive dd_reach : ddom -> Prop :=
| DR_bottom : dd_reach dd_bottom
| DR_top : dd_reach dd_top
| DR_add d k : dd_reach d -> dd_reach (dd_add d k)
| DR_remove d k : dd_reach d -> dd_reach (dd_remove d k)
| DR_join a b : dd_reach a -> dd_reach b -> dd_reach (dd_join a b)
| DR_meet a b : dd_reach a -> dd_reach b -> dd_reach (dd_meet a b)
| DR_diff a b : dd_reach a -> dd_reach b -> dtop a = false -> dtop b = false -> dd_reach (dd_diff a b).

Theorem dd_reach_ok d : dd_reach d -> dd_ok d.
Proof.
  induction 1.
  - apply dd_ok_bottom.
  - apply dd_ok_top.
  - apply dd_add_spec; assumption.
  - apply dd_remove_spec; assumption.
  - apply dd_join_spec; assumption.
  - apply dd_meet_spec; assumption.
  - apply dd_diff_spec; assumption.
Qed.

Example ps_example :
  ps_ok (ps_add (ps_add ps_empty 3) (2 ^ 63)) /\ ps_size (ps_add (ps_add ps_empty 3) (2 ^ 63)) = 2.
Proof.
  split; [|reflexivity]. apply ps_reach_ok. repeat constructor.
Qed.
