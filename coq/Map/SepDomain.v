(* SepDomain.v — mirror model of ikos::separate_domain<Key,Value>
   (include/crab/domains/separate_domains.hpp): an environment is a bottom flag plus a
   patricia tree that only stores values different from top.  The value lattice is a
   parameter (Section variables); the instance used by the correspondence harness
   (Value = ikos::interval<z_number>) is at the end of the file.

   The model follows the repaired join(k,v) (fixes/patricia-2.diff); the code as it was is
   kept as [s_join_kv_orig].  No proofs here. *)
From Coq Require Import NArith ZArith Bool List.
From CrabV Require Import Map.Patricia.
Import ListNotations.
Local Open Scope N_scope.

Section Sep.
Variable V : Type.
Variables vtop vbot : V.
Variables v_is_top v_is_bot : V -> bool.
Variable vleq : V -> V -> bool.
Variable veq : V -> V -> bool.                  (* ValueEqual = std::equal_to<Value> *)

Record sep : Type := mkSep { sbot : bool; stree : ptree V }.

Definition sep_top : sep := mkSep false None.
Definition sep_bottom : sep := mkSep true None.

Definition s_is_bottom (a : sep) : bool := sbot a.
Definition s_is_top (a : sep) : bool := negb (sbot a) && (psize (stree a) =? 0).

(* join_op / widening_op / widening_thresholds_op: f is | , || or widening_thresholds(.,ts) *)
Definition lub_op (f : V -> V -> V) : binop V :=
  mkBinop (fun _ x y => let z := f x y in
                        if v_is_top z then (false, None) else (false, Some z)) true.
(* meet_op / narrowing_op *)
Definition glb_op (g : V -> V -> V) : binop V :=
  mkBinop (fun _ x y => let z := g x y in
                        if v_is_bot z then (true, None) else (false, Some z)) false.
Definition domain_po : porder V := mkPorder vleq true.

(* operator<= *)
Definition s_leq (a e : sep) : bool :=
  if sbot a then true
  else if sbot e then false
  else pt_leq (stree a) (stree e) domain_po.

(* the same with the comparison as it was before fixes/patricia-1.diff *)
Definition s_leq_orig (a e : sep) : bool :=
  if sbot a then true
  else if sbot e then false
  else pcompare_orig domain_po true (stree a) (stree e).

(* operator== *)
Definition s_eq (a e : sep) : bool := s_leq a e && s_leq e a.

(* operator| , operator|| , widening_thresholds *)
Definition s_lub (f : V -> V -> V) (a e : sep) : sep :=
  if sbot a then e
  else if sbot e then a
  else mkSep false (snd (pt_merge_with veq (stree a) (stree e) (lub_op f))).

(* operator& , operator&& *)
Definition s_glb (g : V -> V -> V) (a e : sep) : sep :=
  if sbot a || sbot e then sep_bottom
  else let (b, r) := pt_merge_with veq (stree a) (stree e) (glb_op g) in
       if b then sep_bottom else mkSep false r.

(* set(k, v) *)
Definition s_set (a : sep) (k : N) (v : V) : sep :=
  if sbot a then a
  else if v_is_bot v then sep_bottom
  else if v_is_top v then mkSep false (premove (stree a) k)
  else mkSep false (pt_insert veq (stree a) k v).

(* join(k, v), repaired *)
Definition s_join_kv (vjoin : V -> V -> V) (a : sep) (k : N) (v : V) : sep :=
  if sbot a then a
  else if v_is_bot v then sep_bottom
  else if v_is_top v then mkSep false (premove (stree a) k)
  else match plookup (stree a) k with
       | None => mkSep false (premove (stree a) k)
       | Some old => s_set a k (vjoin old v)
       end.

(* join(k, v) as it was: inserts old | v without testing for top *)
Definition s_join_kv_orig (vjoin : V -> V -> V) (a : sep) (k : N) (v : V) : sep :=
  if sbot a then a
  else if v_is_bot v then sep_bottom
  else if v_is_top v then mkSep false (premove (stree a) k)
  else match plookup (stree a) k with
       | None => mkSep false (premove (stree a) k)
       | Some old => mkSep false (pt_insert veq (stree a) k (vjoin old v))
       end.

(* operator-= *)
Definition s_forget (a : sep) (k : N) : sep :=
  if sbot a then a else mkSep false (premove (stree a) k).

(* at(k) *)
Definition s_at (a : sep) (k : N) : V :=
  if sbot a then vbot
  else match plookup (stree a) k with Some v => v | None => vtop end.

(* size(): CRAB_ERROR on top *)
Definition s_size (a : sep) : option N :=
  if sbot a then Some 0
  else if s_is_top a then None
  else Some (psize (stree a)).

(* begin()/end(): CRAB_ERROR on bottom *)
Definition s_elements (a : sep) : option (list (N * V)) :=
  if sbot a then None else Some (pelements (stree a)).

Definition mem_keys (k : N) (keys : list N) : bool := existsb (N.eqb k) keys.

(* project(keys): copy branch / remove branch *)
Definition project_copies (total nkeys : N) : bool :=
  (total <=? 5) || (nkeys <? total * 60 / 100).

Definition s_project_copy (a : sep) (keys : list N) : sep :=
  fold_left (fun env key => s_set env key (s_at a key)) keys sep_top.

Definition s_project_remove (a : sep) (keys : list N) : sep :=
  fold_left (fun a' kv => s_forget a' (fst kv))
            (filter (fun kv => negb (mem_keys (fst kv) keys)) (pelements (stree a))) a.

Definition s_project (a : sep) (keys : list N) : sep :=
  if sbot a || s_is_top a then a
  else if project_copies (psize (stree a)) (N.of_nat (length keys))
       then s_project_copy a keys
       else s_project_remove a keys.

(* rename(from, to): sequential; None = CRAB_ERROR (vectors of different sizes) *)
Definition rename_step (t : ptree V) (p : N * N) : ptree V :=
  let (k, nk) := p in
  if k =? nk then t
  else match plookup t k with
       | Some v => premove (if v_is_top v then t else pt_insert veq t nk v) k
       | None => t
       end.

Definition s_rename (a : sep) (from to : list N) : option sep :=
  if s_is_top a || sbot a then Some a
  else if negb (Nat.eqb (length from) (length to)) then None
  else Some (mkSep false (fold_left rename_step (combine from to) (stree a))).

End Sep.

Arguments mkSep {V}.
Arguments sbot {V}.
Arguments stree {V}.
Arguments sep_top {V}.
Arguments sep_bottom {V}.
Arguments s_is_bottom {V}.
Arguments s_is_top {V}.
Arguments s_elements {V}.
Arguments s_size {V}.

(* ------------------------------------------------------------------------------
   Instance: Value = ikos::interval<z_number> (Scalar/Itv.v), as in the harness. *)
From CrabV Require Import Base.ZInf Scalar.Itv.

Definition ienv := sep itv.
Definition ie_top : ienv := sep_top.
Definition ie_bottom : ienv := sep_bottom.
Definition ie_leq : ienv -> ienv -> bool := s_leq itv ileq.
Definition ie_leq_orig : ienv -> ienv -> bool := s_leq_orig itv ileq.
Definition ie_eq : ienv -> ienv -> bool := s_eq itv ileq.
Definition ie_join : ienv -> ienv -> ienv := s_lub itv is_top ieq ijoin.
Definition ie_widen : ienv -> ienv -> ienv := s_lub itv is_top ieq iwiden.
Definition ie_meet : ienv -> ienv -> ienv := s_glb itv is_bot ieq imeet.
Definition ie_narrow : ienv -> ienv -> ienv := s_glb itv is_bot ieq inarrow.
Definition ie_set : ienv -> N -> itv -> ienv := s_set itv is_top is_bot ieq.
Definition ie_join_kv : ienv -> N -> itv -> ienv := s_join_kv itv is_top is_bot ieq ijoin.
Definition ie_join_kv_orig : ienv -> N -> itv -> ienv := s_join_kv_orig itv is_top is_bot ieq ijoin.
Definition ie_forget : ienv -> N -> ienv := s_forget itv.
Definition ie_at : ienv -> N -> itv := s_at itv itop ibot.
Definition ie_project : ienv -> list N -> ienv := s_project itv itop ibot is_top is_bot ieq.
Definition ie_rename : ienv -> list N -> list N -> option ienv := s_rename itv is_top ieq.

(* thresholds of the harness: a sorted list; next = least threshold > v (else +oo),
   prev = greatest threshold < v (else -oo) *)
Fixpoint thr_next (ts : list Z) (v : bound) : bound :=
  match v with
  | PInf => PInf
  | _ => match ts with
         | [] => PInf
         | t :: ts' => if blt v (Fin t) then Fin t else thr_next ts' v
         end
  end.
Definition thr_prev (ts : list Z) (v : bound) : bound :=
  match v with
  | MInf => MInf
  | _ => fold_left (fun acc t => if blt (Fin t) v then Fin t else acc) ts MInf
  end.
Definition ie_widen_thr (ts : list Z) : ienv -> ienv -> ienv :=
  s_lub itv is_top ieq (iwiden_thr (thr_prev ts) (thr_next ts)).
