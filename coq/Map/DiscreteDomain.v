(* DiscreteDomain.v — mirror model of ikos::patricia_tree_set<Element>
   (patricia_trees.hpp) and ikos::discrete_domain<Element> (discrete_domains.hpp).
   A set is a patricia tree binding its elements to [true].
   [dd_eq] follows the repaired operator== (fixes/patricia-3.diff); the code as it was is
   [dd_eq_orig].  No proofs here. *)
From Coq Require Import NArith Bool List.
From CrabV Require Import Map.Patricia.
Import ListNotations.
Local Open Scope N_scope.

Definition pset : Type := ptree bool.

Definition union_op : binop bool := mkBinop (fun _ _ _ => (false, Some true)) false.
Definition intersection_op : binop bool := mkBinop (fun _ _ _ => (false, Some true)) true.
Definition subset_po : porder bool := mkPorder (fun _ _ => true) false.

Definition ps_empty : pset := None.
Definition ps_single (k : N) : pset := pt_insert Bool.eqb None k true.
Definition ps_is_empty (s : pset) : bool := match s with None => true | Some _ => false end.
Definition ps_size (s : pset) : N := psize s.
(* operator[] *)
Definition ps_mem (s : pset) (k : N) : bool :=
  match plookup s k with None => false | Some b => b end.
(* operator+= / operator-= *)
Definition ps_add (s : pset) (k : N) : pset := pt_insert Bool.eqb s k true.
Definition ps_remove (s : pset) (k : N) : pset := premove s k.
(* operator| / operator& *)
Definition ps_union (a b : pset) : pset := snd (pt_merge_with Bool.eqb a b union_op).
Definition ps_inter (a b : pset) : pset := snd (pt_merge_with Bool.eqb a b intersection_op).
(* operator<= / >= / == *)
Definition ps_leq (a b : pset) : bool := pt_leq a b subset_po.
Definition ps_geq (a b : pset) : bool := ps_leq b a.
Definition ps_eq (a b : pset) : bool := ps_leq a b && ps_leq b a.
Definition ps_elements (s : pset) : list N := map fst (pelements s).

(* ------------------------------------------------------------ discrete_domain *)
Record ddom : Type := mkDD { dtop : bool; dset : pset }.

Definition dd_bottom : ddom := mkDD false ps_empty.
Definition dd_top : ddom := mkDD true ps_empty.
Definition dd_single (k : N) : ddom := mkDD false (ps_single k).
Definition dd_is_top (d : ddom) : bool := dtop d.
Definition dd_is_bottom (d : ddom) : bool := negb (dtop d) && ps_is_empty (dset d).

Definition dd_leq (a b : ddom) : bool :=
  dtop b || (negb (dtop a) && ps_leq (dset a) (dset b)).

Definition dd_eq (a b : ddom) : bool :=
  if dtop a || dtop b then dtop a && dtop b else ps_eq (dset a) (dset b).
Definition dd_eq_orig (a b : ddom) : bool :=
  (dtop a && dtop b) || ps_eq (dset a) (dset b).

Definition dd_join (a b : ddom) : ddom :=
  if dtop a || dtop b then dd_top else mkDD false (ps_union (dset a) (dset b)).

Definition dd_meet (a b : ddom) : ddom :=
  if dd_is_bottom a || dd_is_bottom b then dd_bottom
  else if dd_is_top a then b
  else if dd_is_top b then a
  else mkDD false (ps_inter (dset a) (dset b)).

Definition dd_add (d : ddom) (k : N) : ddom :=
  if dtop d then d else mkDD false (ps_add (dset d) k).
Definition dd_remove (d : ddom) (k : N) : ddom :=
  if dtop d then d else mkDD false (ps_remove (dset d) k).
Definition dd_add_list (d : ddom) (ks : list N) : ddom :=
  if dtop d then d else fold_left dd_add ks d.
Definition dd_remove_list (d : ddom) (ks : list N) : ddom :=
  if dtop d then d else fold_left dd_remove ks d.

(* a - b with b iterated as a range of elements (b not top) *)
Definition dd_diff (a b : ddom) : ddom := dd_remove_list a (ps_elements (dset b)).

Definition dd_contain (d : ddom) (k : N) : bool :=
  if dd_is_bottom d then false
  else if dd_is_top d then true
  else ps_mem (dset d) k.

Definition dd_rename_step (d : ddom) (p : N * N) : ddom :=
  let (f, t) := p in
  if f =? t then d
  else if dd_contain d f then dd_add (dd_remove d f) t else d.

Definition dd_rename (d : ddom) (from to : list N) : option ddom :=
  if dd_is_top d || dd_is_bottom d then Some d
  else if negb (Nat.eqb (length from) (length to)) then None
  else Some (fold_left dd_rename_step (combine from to) d).

Definition dd_size (d : ddom) : option N :=
  if dtop d then None else Some (ps_size (dset d)).
Definition dd_elements (d : ddom) : option (list N) :=
  if dtop d then None else Some (ps_elements (dset d)).
