(* Patricia.v — mirror model of include/crab/domains/patricia_trees.hpp
   (Okasaki–Gill big-endian patricia trees, namespace ikos::patricia_trees_impl).

   Keys are indices (ikos::index_t = uint64_t); the model uses N, without wrap-around:
   the two expressions that could wrap in the C++ (2 * max(m0,m1) in
   compute_branching_bit, m - 1 in mask) are only evaluated on powers of two below 2^64
   when the trees are well formed (PatriciaSpec.v), where both sides agree.

   tree_ptr (a nullable shared_ptr) is [option tree]; the children of a node are never
   null in the C++ (make_node is the only constructor call and collapses empty
   branches), so [Node] carries two trees and the defensive null tests on children of
   the C++ are not reproduced.  Physical-equality shortcuts (s == t in merge/compare,
   new_lb == lb ...) are not modelled: the latter only preserve sharing, the former are
   justified by [merge_idem] / [compare_refl] in PatriciaSpec.v for idempotent operators
   and reflexive orders.

   No proofs here. *)
From Coq Require Import NArith Bool List.
Import ListNotations.
Local Open Scope N_scope.

(* ---------------------------------------------------------------- bit fiddling *)

(* highest_bit(x, m): with x_ = x & ~(m-1), the loop clears the bits of x_ from m upwards
   until one bit is left, i.e. it returns the highest bit set in x_ (m a power of two).
   If x_ = 0 the C++ loop runs until m_ wraps to 0 and returns 0. *)
Fixpoint hb_pos (p : positive) : positive :=
  match p with
  | xH => xH
  | xO q => xO (hb_pos q)
  | xI q => xO (hb_pos q)
  end.

Definition highest_bit (x m : N) : N :=
  match N.ldiff x (m - 1) with
  | N0 => 0
  | Npos p => Npos (hb_pos p)
  end.

(* the loop itself, with fuel, as written in the C++ (used in PatriciaSpec.v to show that
   [highest_bit] is what the loop computes) *)
Fixpoint highest_bit_loop (fuel : nat) (x_ m_ : N) : N :=
  match fuel with
  | O => m_
  | S f => if x_ =? m_ then m_ else highest_bit_loop f (N.ldiff x_ m_) (2 * m_)
  end.

Definition compute_branching_bit (p0 m0 p1 m1 : N) : N :=
  highest_bit (N.lxor p0 p1) (N.max 1 (2 * N.max m0 m1)).

(* (k | (m - 1)) & ~m *)
Definition mask (k m : N) : N := N.ldiff (N.lor k (m - 1)) m.

Definition zero_bit (k m : N) : bool := N.land k m =? 0.

Definition match_prefix (k p m : N) : bool := mask k m =? p.

(* ---------------------------------------------------------------- operators *)

Section Tree.
Variable V : Type.

(* binary_op<Key,Value>: apply returns (is_bottom, optional value) *)
Record binop : Type := mkBinop {
  bapply : N -> V -> V -> bool * option V;
  babsorbing : bool
}.

(* partial_order<Value> *)
Record porder : Type := mkPorder {
  pleq : V -> V -> bool;
  pdefault_is_top : bool
}.

(* ValueEqual *)
Variable veq : V -> V -> bool.

Inductive tree : Type :=
| Leaf (k : N) (v : V)
| Node (p m : N) (l r : tree).

Definition ptree : Type := option tree.

(* leaf::prefix() = key index, leaf::branching_bit() = 0 *)
Definition prefix (t : tree) : N :=
  match t with Leaf k _ => k | Node p _ _ _ => p end.
Definition bbit (t : tree) : N :=
  match t with Leaf _ _ => 0 | Node _ m _ _ => m end.

(* node::_size is computed in the constructor *)
Fixpoint size (t : tree) : N :=
  match t with Leaf _ _ => 1 | Node _ _ l r => size l + size r end.
Definition psize (t : ptree) : N :=
  match t with None => 0 | Some t' => size t' end.

Definition make_node (p m : N) (l r : ptree) : ptree :=
  match l, r with
  | Some l', Some r' => Some (Node p m l' r')
  | Some _, None => l
  | None, _ => r
  end.

Definition join (t0 t1 : tree) : tree :=
  let p0 := prefix t0 in
  let p1 := prefix t1 in
  let m := compute_branching_bit p0 (bbit t0) p1 (bbit t1) in
  if zero_bit p0 m then Node (mask p0 m) m t0 t1 else Node (mask p0 m) m t1 t0.

(* node::lookup / leaf::lookup (find is the same function returning a pointer) *)
Fixpoint lookup (t : tree) (k : N) : option V :=
  match t with
  | Leaf k' v => if k' =? k then Some v else None
  | Node p _ l r => if k <=? p then lookup l k else lookup r k
  end.
Definition plookup (t : ptree) (k : N) : option V :=
  match t with None => None | Some t' => lookup t' k end.

(* the leaf case shared by insert and merge: combine the stored value with the new one *)
Definition combine_leaf (op : binop) (k : N) (t : tree) (stored : V)
           (r : bool * option V) (mk : N) : bool * ptree :=
  let (b, nv) := r in
  if b then (true, None)
  else match nv with
       | Some nv' => if veq nv' stored then (false, Some t) else (false, Some (Leaf mk nv'))
       | None => (false, None)
       end.

(* tree::insert(t, key_, value_, op, combine_left_to_right), t non-null *)
Fixpoint insert (t : tree) (key : N) (val : V) (op : binop) (ltr : bool) : bool * ptree :=
  match t with
  | Node p m l r =>
    if match_prefix key p m then
      if zero_bit key m then
        let (b, nl) := insert l key val op ltr in
        if b then (true, None) else (false, make_node p m nl (Some r))
      else
        let (b, nr) := insert r key val op ltr in
        if b then (true, None) else (false, make_node p m (Some l) nr)
    else if babsorbing op then (false, Some t)
         else (false, Some (join (Leaf key val) t))
  | Leaf k v =>
    if k =? key then
      combine_leaf op k t v (if ltr then bapply op k v val else bapply op k val v) key
    else if babsorbing op then (false, Some t)
         else (false, Some (join (Leaf key val) t))
  end.

Definition pinsert (t : ptree) (key : N) (val : V) (op : binop) (ltr : bool) : bool * ptree :=
  match t with
  | Some t' => insert t' key val op ltr
  | None => if babsorbing op then (false, None) else (false, Some (Leaf key val))
  end.

(* patricia_tree::insert_op and patricia_tree::insert *)
Definition insert_op : binop := mkBinop (fun _ _ nv => (false, Some nv)) false.
Definition pt_insert (t : ptree) (key : N) (val : V) : ptree :=
  snd (pinsert t key val insert_op true).

(* tree::transform *)
Fixpoint transform (t : tree) (f : V -> option V) : ptree :=
  match t with
  | Node p m l r => make_node p m (transform l f) (transform r f)
  | Leaf k v =>
    match f v with
    | Some nv => if veq nv v then Some t else Some (Leaf k nv)
    | None => None
    end
  end.
Definition ptransform (t : ptree) (f : V -> option V) : ptree :=
  match t with None => None | Some t' => transform t' f end.

(* tree::remove *)
Fixpoint remove (t : tree) (key : N) : ptree :=
  match t with
  | Node p m l r =>
    if match_prefix key p m then
      if zero_bit key m then make_node p m (remove l key) (Some r)
      else make_node p m (Some l) (remove r key)
    else Some t
  | Leaf k _ => if k =? key then None else Some t
  end.
Definition premove (t : ptree) (key : N) : ptree :=
  match t with None => None | Some t' => remove t' key end.

(* tree::merge(s, t, op, combine_left_to_right); s and t non-null.
   Lexicographic recursion (s, t): outer fixpoint on s, inner on t. *)
Definition merge_leaf_l (op : binop) (ltr : bool) (s : tree) (k : N) (v : V) (t : tree)
  : bool * ptree :=
  if babsorbing op then
    match lookup t k with
    | Some v' => combine_leaf op k s v (if ltr then bapply op k v v' else bapply op k v' v) k
    | None => (false, None)
    end
  else insert t k v op (negb ltr).

Definition merge_leaf_r (op : binop) (ltr : bool) (s : tree) (t : tree) (k : N) (v : V)
  : bool * ptree :=
  if babsorbing op then
    match lookup s k with
    | Some v' => combine_leaf op k t v (if ltr then bapply op k v' v else bapply op k v v') k
    | None => (false, None)
    end
  else insert s k v op ltr.

Definition pair_nodes (p m : N) (a b : bool * ptree) : bool * ptree :=
  if fst a then (true, None)
  else if fst b then (true, None)
       else (false, make_node p m (snd a) (snd b)).

Fixpoint merge (op : binop) (ltr : bool) (s : tree) {struct s} : tree -> bool * ptree :=
  fix merge_s (t : tree) {struct t} : bool * ptree :=
    match s with
    | Leaf ks vs => merge_leaf_l op ltr s ks vs t
    | Node ps ms sl sr =>
      match t with
      | Leaf kt vt => merge_leaf_r op ltr s t kt vt
      | Node pt mt tl tr =>
        if (ms =? mt) && (ps =? pt) then
          pair_nodes ps ms (merge op ltr sl tl) (merge op ltr sr tr)
        else if (mt <? ms) && match_prefix pt ps ms then
          if zero_bit pt ms then
            pair_nodes ps ms (merge op ltr sl t)
                       (false, if babsorbing op then None else Some sr)
          else
            pair_nodes ps ms (false, if babsorbing op then None else Some sl)
                       (merge op ltr sr t)
        else if (ms <? mt) && match_prefix ps pt mt then
          if zero_bit ps mt then
            pair_nodes pt mt (merge_s tl)
                       (false, if babsorbing op then None else Some tr)
          else
            pair_nodes pt mt (false, if babsorbing op then None else Some tl)
                       (merge_s tr)
        else if babsorbing op then (false, None)
             else (false, Some (join s t))
      end
    end.

Definition pmerge (op : binop) (ltr : bool) (s t : ptree) : bool * ptree :=
  match s, t with
  | Some s', Some t' => merge op ltr s' t'
  | Some _, None => if babsorbing op then (false, None) else (false, s)
  | None, _ => if babsorbing op then (false, None) else (false, t)
  end.

(* patricia_tree::merge_with: returns (bottom?, new tree); the tree is unchanged on bottom *)
Definition pt_merge_with (s t : ptree) (op : binop) : bool * ptree :=
  let (b, r) := pmerge op true s t in
  if b then (true, s) else (false, r).

(* tree::compare(s, t, po, compare_left_to_right), the case "s is a leaf" (t non-null).
   This follows the repaired code (fixes/patricia-1.diff): when the key of the leaf is
   not bound in t the answer is false. *)
Definition compare_leaf (po : porder) (ltr : bool) (k : N) (v : V) (t : tree) : bool :=
  match lookup t k with
  | Some v' =>
    if negb (if ltr then pleq po v v' else pleq po v' v) then false
    else if ltr && pdefault_is_top po && negb (match t with Leaf _ _ => true | _ => false end)
         then false
    else if negb ltr && negb (pdefault_is_top po)
                 && negb (match t with Leaf _ _ => true | _ => false end)
         then false
    else true
  | None => false
  end.

(* the code as it was before the repair (kept to state the refutation) *)
Definition compare_leaf_orig (po : porder) (ltr : bool) (k : N) (v : V) (t : tree) : bool :=
  let is_leaf := match t with Leaf _ _ => true | _ => false end in
  if match lookup t k with
     | Some v' => negb (if ltr then pleq po v v' else pleq po v' v)
     | None => (ltr && negb (pdefault_is_top po)) || (negb ltr && pdefault_is_top po)
     end then false
  else if ltr && pdefault_is_top po && negb is_leaf then false
  else if negb ltr && negb (pdefault_is_top po) && negb is_leaf then false
  else true.

Section Compare.
Variable cleaf : porder -> bool -> N -> V -> tree -> bool.

Fixpoint compare_gen (po : porder) (ltr : bool) (s : tree) {struct s} : tree -> bool :=
  fix compare_s (t : tree) {struct t} : bool :=
    match s with
    | Leaf ks vs => cleaf po ltr ks vs t
    | Node ps ms sl sr =>
      match t with
      | Leaf kt vt => cleaf po (negb ltr) kt vt s
      | Node pt mt tl tr =>
        if (ms =? mt) && (ps =? pt) then
          compare_gen po ltr sl tl && compare_gen po ltr sr tr
        else if (mt <? ms) && match_prefix pt ps ms then
          if (ltr && negb (pdefault_is_top po)) || (negb ltr && pdefault_is_top po) then false
          else if zero_bit pt ms then compare_gen po ltr sl t else compare_gen po ltr sr t
        else if (ms <? mt) && match_prefix ps pt mt then
          if (ltr && pdefault_is_top po) || (negb ltr && negb (pdefault_is_top po)) then false
          else if zero_bit ps mt then compare_s tl else compare_s tr
        else false
      end
    end.

Definition pcompare_gen (po : porder) (ltr : bool) (s t : ptree) : bool :=
  match s, t with
  | Some s', Some t' => compare_gen po ltr s' t'
  | Some _, None =>
    negb ((ltr && negb (pdefault_is_top po)) || (negb ltr && pdefault_is_top po))
  | None, Some _ =>
    negb ((ltr && pdefault_is_top po) || (negb ltr && negb (pdefault_is_top po)))
  | None, None => true
  end.
End Compare.

Definition compare := compare_gen compare_leaf.
Definition pcompare := pcompare_gen compare_leaf.
Definition pcompare_orig := pcompare_gen compare_leaf_orig.

(* patricia_tree::leq *)
Definition pt_leq (s t : ptree) (po : porder) : bool := pcompare po true s t.

(* tree::iterator: left-to-right traversal of the leaves *)
Fixpoint elements (t : tree) : list (N * V) :=
  match t with
  | Leaf k v => [(k, v)]
  | Node _ _ l r => elements l ++ elements r
  end.
Definition pelements (t : ptree) : list (N * V) :=
  match t with None => [] | Some t' => elements t' end.

End Tree.

Arguments Leaf {V}.
Arguments Node {V}.
Arguments mkBinop {V}.
Arguments mkPorder {V}.
Arguments bapply {V}.
Arguments babsorbing {V}.
Arguments pleq {V}.
Arguments pdefault_is_top {V}.
Arguments prefix {V}.
Arguments bbit {V}.
Arguments size {V}.
Arguments psize {V}.
Arguments make_node {V}.
Arguments join {V}.
Arguments lookup {V}.
Arguments plookup {V}.
Arguments combine_leaf {V}.
Arguments insert {V}.
Arguments pinsert {V}.
Arguments insert_op {V}.
Arguments pt_insert {V}.
Arguments transform {V}.
Arguments ptransform {V}.
Arguments remove {V}.
Arguments premove {V}.
Arguments merge_leaf_l {V}.
Arguments merge_leaf_r {V}.
Arguments pair_nodes {V}.
Arguments merge {V}.
Arguments pmerge {V}.
Arguments pt_merge_with {V}.
Arguments compare_leaf {V}.
Arguments compare_leaf_orig {V}.
Arguments compare_gen {V}.
Arguments pcompare_gen {V}.
Arguments compare {V}.
Arguments pcompare {V}.
Arguments pcompare_orig {V}.
Arguments pt_leq {V}.
Arguments elements {V}.
Arguments pelements {V}.
