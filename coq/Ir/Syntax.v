(* Syntax.v — the fragment of CrabIR used by the domain- and analysis-level models:
   variables, linear expressions / constraints (include/crab/types/linear_constraints.hpp
   in the canonical form the C++ keeps: terms sorted by variable index, no zero
   coefficient), operator names, and their concrete meaning over mathematical integers
   (the semantics the z_number domains claim). *)
From Coq Require Import ZArith List Bool Lia.
Import ListNotations.
Local Open Scope Z_scope.

Definition var := N.                      (* variable index (ikos::index_t) *)
Definition store := var -> Z.

Definition upd (s : store) (x : var) (v : Z) : store :=
  fun y => if N.eqb y x then v else s y.

Record linexp := mkLE { le_terms : list (Z * var); le_cst : Z }.

Inductive ckind := EQ | DISEQ | INEQ | STRICT.
Record lincst := mkLC { lc_kind : ckind; lc_exp : linexp }.   (* exp (kind) 0 *)

Fixpoint eval_terms (ts : list (Z * var)) (s : store) : Z :=
  match ts with
  | [] => 0
  | (c, v) :: r => c * s v + eval_terms r s
  end.
Definition eval_le (e : linexp) (s : store) : Z := eval_terms (le_terms e) s + le_cst e.

Definition sat (c : lincst) (s : store) : Prop :=
  match lc_kind c with
  | EQ => eval_le (lc_exp c) s = 0
  | DISEQ => eval_le (lc_exp c) s <> 0
  | INEQ => eval_le (lc_exp c) s <= 0
  | STRICT => eval_le (lc_exp c) s < 0
  end.

Definition satb (c : lincst) (s : store) : bool :=
  let v := eval_le (lc_exp c) s in
  match lc_kind c with
  | EQ => v =? 0 | DISEQ => negb (v =? 0) | INEQ => v <=? 0 | STRICT => v <? 0
  end.

Lemma satb_spec c s : satb c s = true <-> sat c s.
Proof.
  unfold satb, sat. destruct (lc_kind c).
  - apply Z.eqb_eq.
  - rewrite negb_true_iff. rewrite Z.eqb_neq. tauto.
  - apply Z.leb_le.
  - apply Z.ltb_lt.
Qed.

Definition ckind_eqb (a b : ckind) : bool :=
  match a, b with EQ, EQ | DISEQ, DISEQ | INEQ, INEQ | STRICT, STRICT => true | _, _ => false end.

Fixpoint terms_eqb (a b : list (Z * var)) : bool :=
  match a, b with
  | [], [] => true
  | (c, v) :: r, (c', v') :: r' => (c =? c') && N.eqb v v' && terms_eqb r r'
  | _, _ => false
  end.
(* linear_expression::equal and linear_constraint::equal (syntactic) *)
Definition le_eqb (a b : linexp) : bool := terms_eqb (le_terms a) (le_terms b) && (le_cst a =? le_cst b).
Definition lc_eqb (a b : lincst) : bool := ckind_eqb (lc_kind a) (lc_kind b) && le_eqb (lc_exp a) (lc_exp b).

Definition le_is_constant (e : linexp) : bool := match le_terms e with [] => true | _ => false end.
Definition le_neg (e : linexp) : linexp :=
  mkLE (map (fun p => (- fst p, snd p)) (le_terms e)) (- le_cst e).
Definition le_addc (e : linexp) (k : Z) : linexp := mkLE (le_terms e) (le_cst e + k).

(* linear_constraint::is_tautology / is_contradiction *)
Definition lc_is_tautology (c : lincst) : bool :=
  le_is_constant (lc_exp c) &&
  let k := le_cst (lc_exp c) in
  match lc_kind c with
  | DISEQ => negb (k =? 0) | EQ => k =? 0 | INEQ => k <=? 0 | STRICT => k <? 0
  end.
Definition lc_is_contradiction (c : lincst) : bool :=
  le_is_constant (lc_exp c) &&
  let k := le_cst (lc_exp c) in
  match lc_kind c with
  | DISEQ => k =? 0 | EQ => negb (k =? 0) | INEQ => 0 <? k | STRICT => 0 <=? k
  end.

Definition lc_true : lincst := mkLC EQ (mkLE [] 0).
Definition lc_false : lincst := mkLC DISEQ (mkLE [] 0).

(* linear_constraint<z_number>::negate *)
Definition lc_negate (c : lincst) : lincst :=
  if lc_is_tautology c then lc_false
  else if lc_is_contradiction c then lc_true
  else match lc_kind c with
       | INEQ => mkLC INEQ (le_neg (le_addc (lc_exp c) (-1)))     (* -(e - 1) <= 0 *)
       | STRICT => mkLC INEQ (le_neg (lc_exp c))
       | EQ => mkLC DISEQ (lc_exp c)
       | DISEQ => mkLC EQ (lc_exp c)
       end.

(* linear_expression::get_variable *)
Definition le_get_variable (e : linexp) : option var :=
  match le_terms e with
  | [(c, v)] => if (le_cst e =? 0) && (c =? 1) then Some v else None
  | _ => None
  end.

(* x - y in canonical form (terms sorted by index) *)
Definition le_var_minus_var (x y : var) : linexp :=
  if N.ltb x y then mkLE [(1, x); (-1, y)] 0
  else if N.ltb y x then mkLE [(-1, y); (1, x)] 0
  else mkLE [] 0.

Definition lc_vars (c : lincst) : list var := map snd (le_terms (lc_exp c)).

(* arithmetic and bitwise operators of CrabIR *)
Inductive arith_op := OpAdd | OpSub | OpMul | OpSDiv | OpUDiv | OpSRem | OpURem.
Inductive bit_op := OpAnd | OpOr | OpXor | OpShl | OpLShr | OpAShr.
Inductive cast_op := CTrunc | CSExt | CZExt.

(* Concrete meaning over Z.  [None]: no successor state (division by zero) or outside the
   fragment whose meaning over mathematical integers is unambiguous (unsigned operators on
   negative operands, negative shift amounts). *)
Definition arith_sem (op : arith_op) (a b : Z) : option Z :=
  match op with
  | OpAdd => Some (a + b) | OpSub => Some (a - b) | OpMul => Some (a * b)
  | OpSDiv => if b =? 0 then None else Some (Z.quot a b)
  | OpSRem => if b =? 0 then None else Some (Z.rem a b)
  | OpUDiv => if (0 <=? a) && (0 <? b) then Some (Z.quot a b) else None
  | OpURem => if (0 <=? a) && (0 <? b) then Some (Z.rem a b) else None
  end.

Definition bit_sem (op : bit_op) (a b : Z) : option Z :=
  match op with
  | OpAnd => Some (Z.land a b) | OpOr => Some (Z.lor a b) | OpXor => Some (Z.lxor a b)
  | OpShl => if 0 <=? b then Some (Z.shiftl a b) else None
  | OpAShr => if 0 <=? b then Some (Z.shiftr a b) else None
  | OpLShr => if (0 <=? b) && (0 <=? a) then Some (Z.shiftr a b) else None
  end.

Lemma eval_terms_neg ts s :
  eval_terms (map (fun p => (- fst p, snd p)) ts) s = - eval_terms ts s.
Proof. induction ts as [|[c v] r IH]; simpl; auto. rewrite IH. lia. Qed.

Lemma eval_le_neg e s : eval_le (le_neg e) s = - eval_le e s.
Proof. unfold eval_le, le_neg; simpl. rewrite eval_terms_neg. lia. Qed.

Lemma eval_le_addc e k s : eval_le (le_addc e k) s = eval_le e s + k.
Proof. unfold eval_le, le_addc; simpl. lia. Qed.

Lemma le_is_constant_eval e s : le_is_constant e = true -> eval_le e s = le_cst e.
Proof. unfold le_is_constant, eval_le. destruct (le_terms e); try discriminate. auto. Qed.

Lemma lc_is_tautology_sound c s : lc_is_tautology c = true -> sat c s.
Proof.
  unfold lc_is_tautology, sat. intros H. apply andb_true_iff in H. destruct H as [H1 H2].
  rewrite (le_is_constant_eval _ s H1). destruct (lc_kind c).
  - apply Z.eqb_eq; auto.
  - apply negb_true_iff in H2. apply Z.eqb_neq; auto.
  - apply Z.leb_le; auto.
  - apply Z.ltb_lt; auto.
Qed.

Lemma lc_is_contradiction_sound c s : lc_is_contradiction c = true -> ~ sat c s.
Proof.
  unfold lc_is_contradiction, sat. intros H. apply andb_true_iff in H. destruct H as [H1 H2].
  rewrite (le_is_constant_eval _ s H1). destruct (lc_kind c).
  - apply negb_true_iff in H2. apply Z.eqb_neq in H2. auto.
  - apply Z.eqb_eq in H2. auto.
  - apply Z.ltb_lt in H2. lia.
  - apply Z.leb_le in H2. lia.
Qed.

(* negation is the exact complement over the integers *)
Lemma lc_negate_spec c s : sat (lc_negate c) s <-> ~ sat c s.
Proof.
  unfold lc_negate.
  destruct (lc_is_tautology c) eqn:T.
  { pose proof (lc_is_tautology_sound c s T). split; intros X; [|contradiction].
    exfalso. apply X. reflexivity. }
  destruct (lc_is_contradiction c) eqn:C.
  { pose proof (lc_is_contradiction_sound c s C). split; intros X; auto. reflexivity. }
  unfold sat. destruct (lc_kind c); simpl.
  - tauto.
  - split; [tauto|]. intros H. destruct (Z.eq_dec (eval_le (lc_exp c) s) 0); tauto.
  - rewrite eval_le_neg, eval_le_addc. lia.
  - rewrite eval_le_neg. lia.
Qed.

Lemma eval_var_minus_var x y s : eval_le (le_var_minus_var x y) s = s x - s y.
Proof.
  unfold le_var_minus_var.
  destruct (N.ltb_spec x y); [unfold eval_le; cbn [eval_terms le_terms le_cst]; lia|].
  destruct (N.ltb_spec y x); [unfold eval_le; cbn [eval_terms le_terms le_cst]; lia|].
  assert (x = y) by lia. subst. unfold eval_le; cbn [eval_terms le_terms le_cst]. lia.
Qed.

Lemma upd_same s x v : upd s x v x = v.
Proof. unfold upd. rewrite N.eqb_refl. auto. Qed.
Lemma upd_other s x v y : y <> x -> upd s x v y = s y.
Proof. unfold upd. intros. destruct (N.eqb_spec y x); congruence. Qed.
