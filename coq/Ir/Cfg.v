(* Cfg.v — statements and basic blocks of the modelled CrabIR fragment with their concrete
   semantics over mathematical integers.  Choices that matter: division by zero (and the
   unsigned / shift operators outside the fragment where their integer meaning is
   unambiguous) has no successor state; a failing assert stops the execution; havoc is
   non-deterministic; unreachable has no successor. *)
From Coq Require Import ZArith List Bool.
From CrabV Require Import Ir.Syntax Dom.ItvDomain Dom.ItvDomainSound.
Import ListNotations.
Local Open Scope Z_scope.

Inductive stmt :=
| SAssign (x : var) (e : linexp)
| SArith (op : arith_op) (x y : var) (z : operand)
| SBit (op : bit_op) (x y : var) (z : operand)
| SAssume (c : lincst)
| SAssert (c : lincst) (id : nat)
| SHavoc (x : var)
| SSelect (x : var) (c : lincst) (e1 e2 : linexp)
| SUnreach.

Definition block := list stmt.

(* normal continuation of one statement *)
Definition sstep (s : stmt) (a b : store) : Prop :=
  match s with
  | SAssign x e => b = upd a x (eval_le e a)
  | SArith op x y z => exists v, arith_sem op (a y) (operand_val z a) = Some v /\ b = upd a x v
  | SBit op x y z => exists v, bit_sem op (a y) (operand_val z a) = Some v /\ b = upd a x v
  | SAssume c => sat c a /\ b = a
  | SAssert c _ => sat c a /\ b = a
  | SHavoc x => exists v, b = upd a x v
  | SSelect x c e1 e2 => b = upd a x (if satb c a then eval_le e1 a else eval_le e2 a)
  | SUnreach => False
  end.

Fixpoint bstep (bl : block) (a b : store) : Prop :=
  match bl with
  | [] => b = a
  | s :: r => exists m, sstep s a m /\ bstep r m b
  end.

(* an assertion of the block fails on some execution that enters the block in state a *)
Fixpoint bfails (bl : block) (a : store) (id : nat) : Prop :=
  match bl with
  | [] => False
  | s :: r =>
    (match s with SAssert c i => i = id /\ ~ sat c a | _ => False end) \/
    exists m, sstep s a m /\ bfails r m id
  end.
