(* Bignum.v — specification-level model of ikos::z_number
   (include/crab/numbers/bignums.hpp, lib/bignums.cpp).

   z_number is a wrapper around GMP's mpz_t, i.e. it claims to be the mathematical
   integers.  The model is Coq's Z; every operator is the stdlib function the C++
   comment / GMP call names:
     operator/  = mpz_tdiv_q      -> Z.quot   (truncation towards 0)
     operator%  = mpz_tdiv_r      -> Z.rem    (sign of the dividend)
     operator<< = mpz_mul_2exp    -> Z.shiftl
     operator>> = mpz_fdiv_q_2exp -> Z.shiftr (floor)
     & | ^      = mpz_and/ior/xor -> Z.land / Z.lor / Z.lxor (infinite two's complement)
   Operations that CRAB_ERROR (division by zero, int64 export of a value that does not
   fit, malformed strings) return None; the driver prints ABORT.
   fill_ones is mirrored as the doubling loop of the C++.
   No proofs here. *)
From Coq Require Import ZArith Bool List.
Import ListNotations.
Local Open Scope Z_scope.

(* ---- arithmetic ---- *)
Definition zadd (a b : Z) : Z := a + b.
Definition zsub (a b : Z) : Z := a - b.
Definition zmul (a b : Z) : Z := a * b.
Definition zneg (a : Z) : Z := - a.
(* if (x == 0) CRAB_ERROR("division by zero") else mpz_tdiv_q *)
Definition zdiv (a b : Z) : option Z := if b =? 0 then None else Some (Z.quot a b).
Definition zrem (a b : Z) : option Z := if b =? 0 then None else Some (Z.rem a b).
Definition zinc (a : Z) : Z := a + 1.
Definition zdec (a : Z) : Z := a - 1.

(* ---- comparisons (mpz_cmp) ---- *)
Definition zeq (a b : Z) : bool := a =? b.
Definition zne (a b : Z) : bool := negb (a =? b).
Definition zlt (a b : Z) : bool := a <? b.
Definition zle (a b : Z) : bool := a <=? b.
Definition zgt (a b : Z) : bool := b <? a.
Definition zge (a b : Z) : bool := b <=? a.

(* ---- bitwise ---- *)
Definition zand (a b : Z) : Z := Z.land a b.
Definition zor (a b : Z) : Z := Z.lor a b.
Definition zxor (a b : Z) : Z := Z.lxor a b.

(* Shifts.  The C++ passes mpz_get_ui(k) to GMP; the model covers shift amounts
   0 <= k <= shift_limit (the generators stay inside; outside the model answers None so
   that the extracted code never loops a data-sized number of times). *)
Definition shift_limit : Z := 65536.
Definition shift_ok (k : Z) : bool := (0 <=? k) && (k <=? shift_limit).
Definition zshl (a k : Z) : option Z := if shift_ok k then Some (Z.shiftl a k) else None.
Definition zshr (a k : Z) : option Z := if shift_ok k then Some (Z.shiftr a k) else None.

(* ---- fill_ones:  result = 1; for (; result < x; result = 2*result + 1);
   the fuel is the binary representation of x: the loop body runs at most
   (number of bits of x) - 1 times. ---- *)
Fixpoint fill_loop (fuel : positive) (x r : Z) : Z :=
  if r <? x then
    match fuel with
    | xH => 2 * r + 1
    | xO f | xI f => fill_loop f x (2 * r + 1)
    end
  else r.

(* assert(x >= 0): None when negative;  if (x == 0) return x *)
Definition fill_ones (x : Z) : option Z :=
  match x with
  | Z0 => Some 0
  | Zpos p => Some (fill_loop p x 1)
  | Zneg _ => None
  end.

(* ---- int64_t / uint64_t import and export: range-checked identity ---- *)
Definition int64_min : Z := - 2 ^ 63.
Definition int64_max : Z := 2 ^ 63 - 1.
Definition uint64_max : Z := 2 ^ 64 - 1.
Definition fits_int64 (a : Z) : bool := (int64_min <=? a) && (a <=? int64_max).
Definition fits_uint64 (a : Z) : bool := (0 <=? a) && (a <=? uint64_max).
(* explicit operator int64_t(): CRAB_ERROR unless fits_int64 *)
Definition to_int64 (a : Z) : option Z := if fits_int64 a then Some a else None.
(* z_number(int64_t n) / z_number::from_uint64(uint64_t n): the argument is a machine
   integer, so it is in range by typing; the model makes the range explicit *)
Definition of_int64 (n : Z) : option Z := if fits_int64 n then Some n else None.
Definition of_uint64 (n : Z) : option Z := if fits_uint64 n then Some n else None.

(* ---- strings: get_str(base) / z_number(string, base).
   A numeral is a sign and a list of digit values, most significant first; the
   driver maps digit values to the characters 0-9a-z and back. ---- *)
Fixpoint digits_loop (fuel : nat) (b n : Z) (acc : list Z) : list Z :=
  match fuel with
  | O => n :: acc
  | S f => if n <? b then n :: acc else digits_loop f b (n / b) ((n mod b) :: acc)
  end.
(* digits of n >= 0 in base b >= 2 *)
Definition to_digits (b n : Z) : list Z := digits_loop (Z.to_nat (Z.log2 n)) b n [].
Definition of_digits (b : Z) (ds : list Z) : Z := fold_left (fun acc d => acc * b + d) ds 0.

Definition base_ok (b : Z) : bool := (2 <=? b) && (b <=? 36).
Definition z_get_str (b a : Z) : option (bool * list Z) :=
  if base_ok b then Some (a <? 0, to_digits b (Z.abs a)) else None.
(* mpz_set_str: at least one digit, all digits below the base, else CRAB_ERROR *)
Definition z_of_str (b : Z) (neg : bool) (ds : list Z) : option Z :=
  if base_ok b && negb (match ds with [] => true | _ => false end)
     && forallb (fun d => (0 <=? d) && (d <? b)) ds
  then Some (if neg then - of_digits b ds else of_digits b ds) else None.

(* ---- raw 64-bit words (to_raw_data / from_raw_data): magnitude in base 2^64,
   least significant word first when order = false; zero has no words ---- *)
Definition word_base : Z := 2 ^ 64.
Definition to_words (order : bool) (a : Z) : bool * list Z :=
  let ws := if a =? 0 then [] else to_digits word_base (Z.abs a) in
  (0 <=? a, if order then ws else rev ws).
Definition of_words (order : bool) (ws : list Z) : Z :=
  of_digits word_base (if order then ws else rev ws).
