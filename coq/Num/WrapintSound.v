(* WrapintSound.v — crab::wrapint (model Num/Wrapint.v) is arithmetic modulo 2^w.
   For every operation: the representation invariant [wf] (1 <= width <= 64 and
   0 <= n < 2^width) is preserved and the unsigned reading of the result is the
   specification applied to the readings of the operands, reduced modulo 2^w; signed
   operations are specified through the signed reading [to_sZ]. *)
From Coq Require Import ZArith Lia Bool.
From CrabV Require Import Num.Wrapint.
Local Open Scope Z_scope.

(* ---------------------------------------------------------------- specification side *)

Definition wf (a : wrapint) : Prop := 1 <= ww a <= 64 /\ 0 <= wn a < 2 ^ ww a.

(* unsigned and signed readings *)
Definition to_Z (a : wrapint) : Z := wn a.
Definition signed_of (w n : Z) : Z := if n <? 2 ^ (w - 1) then n else n - 2 ^ w.
Definition to_sZ (a : wrapint) : Z := signed_of (ww a) (wn a).
(* the element of Z/2^w represented by the integer z *)
Definition wrap (w z : Z) : Z := z mod 2 ^ w.

(* ---------------------------------------------------------------- arithmetic helpers *)

Lemma two64_eq : two64 = 2 ^ 64.
Proof. reflexivity. Qed.

Lemma pow2_pos w : 0 <= w -> 0 < 2 ^ w.
Proof. intros; apply Z.pow_pos_nonneg; lia. Qed.

Lemma pow2_le_64 w : 0 <= w <= 64 -> 2 ^ w <= 2 ^ 64.
Proof. intros; apply Z.pow_le_mono_r; lia. Qed.

Lemma pow2_split w : 1 <= w -> 2 ^ w = 2 * 2 ^ (w - 1).
Proof. intros. rewrite <- Z.pow_succ_r by lia. f_equal; lia. Qed.

Lemma mod_mod_pow2 x a b : 0 <= a <= b -> (x mod 2 ^ b) mod 2 ^ a = x mod 2 ^ a.
Proof.
  intros H. replace b with (a + (b - a)) by lia.
  rewrite Z.pow_add_r by lia.
  rewrite Z.rem_mul_r by (apply Z.pow_nonzero || apply pow2_pos; lia).
  rewrite Z.mul_comm, Z.mod_add by (apply Z.pow_nonzero; lia).
  apply Z.mod_mod. apply Z.pow_nonzero; lia.
Qed.

Lemma u64_mod x w : 0 <= w <= 64 -> u64 x mod 2 ^ w = x mod 2 ^ w.
Proof. intros. unfold u64. rewrite two64_eq. apply mod_mod_pow2; lia. Qed.

Lemma u64_range x : 0 <= u64 x < 2 ^ 64.
Proof. unfold u64. rewrite two64_eq. apply Z.mod_pos_bound. reflexivity. Qed.

Lemma u64_small x : 0 <= x < 2 ^ 64 -> u64 x = x.
Proof. intros. unfold u64. rewrite two64_eq. apply Z.mod_small; lia. Qed.

Lemma wmod_eq w : 0 <= w < 64 -> wmod w = 2 ^ w.
Proof.
  intros H. unfold wmod. destruct (Z.eqb_spec w 64); [lia|].
  rewrite Z.shiftl_1_l. apply u64_small. split; [apply Z.lt_le_incl, pow2_pos; lia|].
  apply Z.pow_lt_mono_r; lia.
Qed.

Lemma wrap_res_spec w x : 1 <= w <= 64 -> wrap_res w (u64 x) = x mod 2 ^ w.
Proof.
  intros H. unfold wrap_res. destruct (Z.eqb_spec w 64) as [->|N].
  - reflexivity.
  - rewrite wmod_eq by lia. apply u64_mod; lia.
Qed.

Lemma reduce_u64_spec w x : 1 <= w <= 64 -> reduce (u64 x) w = x mod 2 ^ w.
Proof.
  intros H. unfold reduce. destruct (Z.ltb_spec w 64).
  - rewrite wmod_eq by lia. apply u64_mod; lia.
  - replace w with 64 by lia. reflexivity.
Qed.

Lemma reduce_spec w n : 1 <= w <= 64 -> 0 <= n < 2 ^ 64 -> reduce n w = n mod 2 ^ w.
Proof.
  intros H Hn. rewrite <- (u64_small n) at 1 by lia. apply reduce_u64_spec; lia.
Qed.

Lemma wrap_res_small w r : 1 <= w <= 64 -> 0 <= r < 2 ^ w -> wrap_res w r = r.
Proof.
  intros H Hr. unfold wrap_res. destruct (Z.eqb_spec w 64); [reflexivity|].
  rewrite wmod_eq by lia. apply Z.mod_small; lia.
Qed.

Lemma mod_range w x : 0 <= w -> 0 <= x mod 2 ^ w < 2 ^ w.
Proof. intros. apply Z.mod_pos_bound, pow2_pos; lia. Qed.

(* ---------------------------------------------------------------- bit-level helpers *)

Lemma range_bits_high n w i : 0 <= n < 2 ^ w -> 0 <= w <= i -> Z.testbit n i = false.
Proof.
  intros Hn Hi. rewrite <- (Z.mod_small n (2 ^ w)) by lia.
  apply Z.mod_pow2_bits_high; lia.
Qed.

Lemma bits_range n w : 0 <= w -> 0 <= n ->
  (forall i, w <= i -> Z.testbit n i = false) -> n < 2 ^ w.
Proof.
  intros Hw Hn H.
  destruct (Z.eq_dec n 0) as [->|N]; [apply pow2_pos; lia|].
  apply Z.log2_lt_pow2; [lia|].
  destruct (Z.lt_ge_cases (Z.log2 n) w) as [L|L]; [exact L|].
  specialize (H (Z.log2 n) L). rewrite Z.bit_log2 in H by lia. discriminate.
Qed.

Lemma lor_range a b w : 0 <= w -> 0 <= a < 2 ^ w -> 0 <= b < 2 ^ w -> 0 <= Z.lor a b < 2 ^ w.
Proof.
  intros Hw Ha Hb. split; [apply Z.lor_nonneg; lia|].
  apply bits_range; [lia|apply Z.lor_nonneg; lia|].
  intros i Hi. rewrite Z.lor_spec, (range_bits_high a w), (range_bits_high b w) by lia. reflexivity.
Qed.

Lemma land_range a b w : 0 <= w -> 0 <= a < 2 ^ w -> 0 <= b -> 0 <= Z.land a b < 2 ^ w.
Proof.
  intros Hw Ha Hb. split; [apply Z.land_nonneg; lia|].
  apply bits_range; [lia|apply Z.land_nonneg; lia|].
  intros i Hi. rewrite Z.land_spec, (range_bits_high a w) by lia. reflexivity.
Qed.

Lemma lxor_range a b w : 0 <= w -> 0 <= a < 2 ^ w -> 0 <= b < 2 ^ w -> 0 <= Z.lxor a b < 2 ^ w.
Proof.
  intros Hw Ha Hb. split; [apply Z.lxor_nonneg; lia|].
  apply bits_range; [lia|apply Z.lxor_nonneg; lia|].
  intros i Hi. rewrite Z.lxor_spec, (range_bits_high a w), (range_bits_high b w) by lia. reflexivity.
Qed.

(* bits of a negative number above its magnitude *)
Lemma neg_bits_high x w i : - 2 ^ w <= x < 0 -> 0 <= w <= i -> Z.testbit x i = true.
Proof.
  intros Hx Hi.
  replace x with (- (- x)) by lia. rewrite Z.bits_opp by lia.
  rewrite (range_bits_high (Z.pred (- x)) w) by lia. reflexivity.
Qed.

Lemma testbit_msb n w : 1 <= w -> 0 <= n < 2 ^ w -> Z.testbit n (w - 1) = (2 ^ (w - 1) <=? n).
Proof.
  intros Hw Hn. rewrite Z.testbit_eqb by lia.
  pose proof (pow2_split w Hw) as E. pose proof (pow2_pos (w - 1)) as P.
  destruct (Z.leb_spec (2 ^ (w - 1)) n).
  - assert (n / 2 ^ (w - 1) = 1) as ->; [|reflexivity].
    symmetry. apply (Z.div_unique n (2 ^ (w - 1)) 1 (n - 2 ^ (w - 1))); lia.
  - rewrite Z.div_small by lia. reflexivity.
Qed.

Lemma land_pow2 n k : 0 <= k -> Z.land n (2 ^ k) = if Z.testbit n k then 2 ^ k else 0.
Proof.
  intros Hk. apply Z.bits_inj'. intros i Hi.
  rewrite Z.land_spec, Z.pow2_bits_eqb by lia.
  destruct (Z.eqb_spec k i) as [<-|N].
  - destruct (Z.testbit n k) eqn:E; [rewrite Z.pow2_bits_true by lia|rewrite Z.bits_0]; reflexivity.
  - rewrite andb_false_r. destruct (Z.testbit n k);
      [rewrite Z.pow2_bits_false by lia|rewrite Z.bits_0]; reflexivity.
Qed.

Lemma all_ones_eq w : 0 <= w <= 64 -> all_ones w = Z.ones w.
Proof.
  intros H. unfold all_ones. rewrite Z.ones_equiv, Z.shiftl_1_l.
  destruct (Z.ltb_spec w 64); [lia|]. replace w with 64 by lia. reflexivity.
Qed.

(* ---------------------------------------------------------------- readings *)

Lemma msb_spec a : wf a -> msb a = (2 ^ (ww a - 1) <=? wn a).
Proof.
  intros [Hw Hn]. unfold msb. rewrite Z.shiftl_1_l, land_pow2 by lia.
  rewrite <- testbit_msb by lia.
  pose proof (pow2_pos (ww a - 1)).
  destruct (Z.testbit (wn a) (ww a - 1)).
  - destruct (Z.eqb_spec (2 ^ (ww a - 1)) 0); [lia|reflexivity].
  - reflexivity.
Qed.

Lemma signed_of_range w n : 1 <= w -> 0 <= n < 2 ^ w ->
  - 2 ^ (w - 1) <= signed_of w n < 2 ^ (w - 1).
Proof.
  intros Hw Hn. unfold signed_of. pose proof (pow2_split w Hw).
  destruct (Z.ltb_spec n (2 ^ (w - 1))); lia.
Qed.

Lemma signed_of_mod w n : 1 <= w -> 0 <= n < 2 ^ w -> signed_of w n mod 2 ^ w = n.
Proof.
  intros Hw Hn. unfold signed_of. destruct (Z.ltb_spec n (2 ^ (w - 1))).
  - apply Z.mod_small; lia.
  - replace (n - 2 ^ w) with (n + (-1) * 2 ^ w) by lia.
    rewrite Z.mod_add by (apply Z.pow_nonzero; lia). apply Z.mod_small; lia.
Qed.

Lemma signed_of_unique w z : 1 <= w -> - 2 ^ (w - 1) <= z < 2 ^ (w - 1) ->
  signed_of w (z mod 2 ^ w) = z.
Proof.
  intros Hw Hz. pose proof (pow2_split w Hw) as E. unfold signed_of.
  destruct (Z_lt_le_dec z 0).
  - assert (z mod 2 ^ w = z + 2 ^ w) as ->.
    { symmetry. apply (Z.mod_unique z (2 ^ w) (-1)); lia. }
    destruct (Z.ltb_spec (z + 2 ^ w) (2 ^ (w - 1))); lia.
  - rewrite Z.mod_small by lia. destruct (Z.ltb_spec z (2 ^ (w - 1))); lia.
Qed.

Lemma wf_width a : wf a -> 1 <= ww a <= 64.
Proof. intros [H _]; exact H. Qed.

Lemma wf_mk n w : 1 <= w <= 64 -> 0 <= n < 2 ^ w -> wf (mkW n w).
Proof. intros; split; simpl; lia. Qed.

Lemma wf_mk_mod x w : 1 <= w <= 64 -> wf (mkW (x mod 2 ^ w) w).
Proof. intros. apply wf_mk; [lia|apply mod_range; lia]. Qed.

Lemma wf_range64 a : wf a -> 0 <= wn a < 2 ^ 64.
Proof. intros [Hw Hn]. pose proof (pow2_le_64 (ww a)). lia. Qed.

(* ---------------------------------------------------------------- constructors, statics *)

Lemma valid_width_spec w : valid_width w = true <-> 1 <= w <= 64.
Proof. unfold valid_width. rewrite andb_true_iff, !Z.leb_le. tauto. Qed.

Lemma wmk_spec n w : 1 <= w <= 64 -> 0 <= n < 2 ^ 64 ->
  wf (wmk n w) /\ ww (wmk n w) = w /\ to_Z (wmk n w) = wrap w n.
Proof.
  intros Hw Hn. unfold wmk, to_Z, wrap; simpl. rewrite reduce_spec by lia.
  split; [apply wf_mk_mod; lia|auto].
Qed.

Lemma of_u64_spec n w : 0 <= n < 2 ^ 64 ->
  match of_u64 n w with
  | Some r => 1 <= w <= 64 /\ wf r /\ ww r = w /\ to_Z r = wrap w n
  | None => ~ (1 <= w <= 64)
  end.
Proof.
  intros Hn. unfold of_u64. destruct (valid_width w) eqn:V.
  - apply valid_width_spec in V. split; [exact V|]. apply wmk_spec; lia.
  - intros H. apply valid_width_spec in H. congruence.
Qed.

Lemma fits_int64_spec z : fits_int64 z = true <-> - 2 ^ 63 <= z <= 2 ^ 63 - 1.
Proof. unfold fits_int64. rewrite andb_true_iff, !Z.leb_le. tauto. Qed.

Lemma of_z_spec z w :
  match of_z z w with
  | Some r => 1 <= w <= 64 /\ - 2 ^ 63 <= z <= 2 ^ 63 - 1 /\ wf r /\ ww r = w /\ to_Z r = wrap w z
  | None => ~ (1 <= w <= 64 /\ - 2 ^ 63 <= z <= 2 ^ 63 - 1)
  end.
Proof.
  unfold of_z. destruct (valid_width w) eqn:V.
  - apply valid_width_spec in V. destruct (fits_int64 z) eqn:F.
    + apply fits_int64_spec in F. split; [exact V|]. split; [exact F|].
      change (if w =? 64 then u64 z else u64 z mod wmod w) with (wrap_res w (u64 z)).
      rewrite wrap_res_spec by lia. unfold to_Z, wrap; simpl.
      split; [apply wf_mk_mod; lia|auto].
    + intros [_ H]. apply fits_int64_spec in H. congruence.
  - intros [H _]. apply valid_width_spec in H. congruence.
Qed.

(* round_to_upper is the ceiling *)
Lemma q_round_to_upper_spec num den : 0 < den ->
  let c := q_round_to_upper num den in c * den - den < num <= c * den.
Proof.
  intros Hd. unfold q_round_to_upper.
  pose proof (Z.quot_rem' num den) as E.
  destruct (Z.eqb_spec (Z.rem num den) 0) as [R0|R0]; simpl.
  - nia.
  - destruct (Z.ltb_spec num 0).
    + pose proof (Z.rem_bound_pos_neg num den Hd ltac:(lia)). simpl. nia.
    + pose proof (Z.rem_bound_pos num den ltac:(lia) Hd). simpl. nia.
Qed.

Lemma fits_wrapint_spec z w :
  fits_wrapint z w = true <-> (w <= 64 /\ - 2 ^ 63 <= z <= 2 ^ 63 - 1).
Proof.
  unfold fits_wrapint. destruct (Z.ltb_spec 64 w).
  - split; [discriminate|lia].
  - rewrite fits_int64_spec. lia.
Qed.

Lemma get_signed_max_spec w : 1 <= w <= 64 ->
  wf (get_signed_max w) /\ ww (get_signed_max w) = w /\ to_Z (get_signed_max w) = 2 ^ (w - 1) - 1.
Proof.
  intros Hw. unfold get_signed_max. rewrite Z.shiftl_1_l.
  pose proof (pow2_pos (w - 1)). pose proof (pow2_split w ltac:(lia)). pose proof (pow2_le_64 w).
  destruct (wmk_spec (2 ^ (w - 1) - 1) w) as (A & B & C); [lia|lia|].
  split; [exact A|]. split; [exact B|]. rewrite C. unfold wrap. apply Z.mod_small; lia.
Qed.

Lemma get_signed_min_spec w : 1 <= w <= 64 ->
  wf (get_signed_min w) /\ ww (get_signed_min w) = w /\ to_Z (get_signed_min w) = 2 ^ (w - 1).
Proof.
  intros Hw. unfold get_signed_min. rewrite Z.shiftl_1_l.
  pose proof (pow2_pos (w - 1)). pose proof (pow2_split w ltac:(lia)). pose proof (pow2_le_64 w).
  destruct (wmk_spec (2 ^ (w - 1)) w) as (A & B & C); [lia|lia|].
  split; [exact A|]. split; [exact B|]. rewrite C. unfold wrap. apply Z.mod_small; lia.
Qed.

Lemma get_unsigned_max_spec w : 1 <= w <= 64 ->
  wf (get_unsigned_max w) /\ ww (get_unsigned_max w) = w /\ to_Z (get_unsigned_max w) = 2 ^ w - 1.
Proof.
  intros Hw. unfold get_unsigned_max.
  pose proof (pow2_pos w). pose proof (pow2_le_64 w).
  destruct (Z.eqb_spec w 64) as [->|N].
  - destruct (wmk_spec (two64 - 1) 64) as (A & B & C); [lia|vm_compute; split; [discriminate|reflexivity]|].
    split; [exact A|]. split; [exact B|]. rewrite C. reflexivity.
  - rewrite Z.shiftl_1_l.
    destruct (wmk_spec (2 ^ w - 1) w) as (A & B & C); [lia|lia|].
    split; [exact A|]. split; [exact B|]. rewrite C. unfold wrap. apply Z.mod_small; lia.
Qed.

Lemma get_unsigned_min_spec w : 1 <= w <= 64 ->
  wf (get_unsigned_min w) /\ ww (get_unsigned_min w) = w /\ to_Z (get_unsigned_min w) = 0.
Proof.
  intros Hw. unfold get_unsigned_min.
  destruct (wmk_spec 0 w) as (A & B & C); [lia|lia|].
  split; [exact A|]. split; [exact B|]. rewrite C. unfold wrap. apply Z.mod_0_l. apply Z.pow_nonzero; lia.
Qed.

(* ---------------------------------------------------------------- bitwise *)

Lemma wand_spec a b : wf a -> wf b -> ww a = ww b ->
  wf (wand a b) /\ ww (wand a b) = ww a /\ to_Z (wand a b) = Z.land (to_Z a) (to_Z b).
Proof.
  intros [Wa Na] [Wb Nb] E. unfold wand, to_Z; simpl. rewrite <- E in Nb.
  split; [apply wf_mk; [lia|apply land_range; lia]|auto].
Qed.

Lemma wor_spec a b : wf a -> wf b -> ww a = ww b ->
  wf (wor a b) /\ ww (wor a b) = ww a /\ to_Z (wor a b) = Z.lor (to_Z a) (to_Z b).
Proof.
  intros [Wa Na] [Wb Nb] E. unfold wor, to_Z; simpl. rewrite <- E in Nb.
  split; [apply wf_mk; [lia|apply lor_range; lia]|auto].
Qed.

Lemma wxor_spec a b : wf a -> wf b -> ww a = ww b ->
  wf (wxor a b) /\ ww (wxor a b) = ww a /\ to_Z (wxor a b) = Z.lxor (to_Z a) (to_Z b).
Proof.
  intros [Wa Na] [Wb Nb] E. unfold wxor, to_Z; simpl. rewrite <- E in Nb.
  split; [apply wf_mk; [lia|apply lxor_range; lia]|auto].
Qed.

(* n xor 1...1 = 2^w - 1 - n *)
Lemma lxor_ones n w : 0 <= w -> 0 <= n < 2 ^ w -> Z.lxor n (2 ^ w - 1) = 2 ^ w - 1 - n.
Proof.
  intros Hw Hn.
  replace (2 ^ w - 1) with (Z.ones w) by (rewrite Z.ones_equiv; lia).
  assert (Z.land n (Z.lxor n (Z.ones w)) = 0) as D.
  { apply Z.bits_inj'. intros i Hi. rewrite Z.land_spec, Z.lxor_spec, Z.bits_0.
    rewrite Z.testbit_ones_nonneg by lia.
    destruct (Z.ltb_spec i w).
    - destruct (Z.testbit n i); reflexivity.
    - rewrite (range_bits_high n w) by lia. reflexivity. }
  apply Z.add_nocarry_lxor in D.
  rewrite <- Z.lxor_assoc, Z.lxor_nilpotent, Z.lxor_0_l in D.
  rewrite Z.ones_equiv in *. lia.
Qed.

Lemma get_signed_bignum_spec a : wf a -> get_signed_bignum a = to_sZ a.
Proof.
  intros W. pose proof W as [Hw Hn]. unfold get_signed_bignum, to_sZ, signed_of.
  rewrite msb_spec by exact W.
  destruct (Z.leb_spec (2 ^ (ww a - 1)) (wn a)); destruct (Z.ltb_spec (wn a) (2 ^ (ww a - 1))); try lia.
  - unfold get_unsigned_bignum, get_bitwidth, wxor; simpl.
    destruct (get_unsigned_max_spec (ww a) Hw) as (_ & _ & C). unfold to_Z in C. rewrite C.
    rewrite lxor_ones by lia. lia.
  - reflexivity.
Qed.

Lemma to_sZ_range a : wf a -> - 2 ^ (ww a - 1) <= to_sZ a < 2 ^ (ww a - 1).
Proof. intros [Hw Hn]. unfold to_sZ. apply signed_of_range; lia. Qed.

Lemma to_sZ_wrap a : wf a -> wrap (ww a) (to_sZ a) = to_Z a.
Proof. intros [Hw Hn]. unfold wrap, to_sZ, to_Z. apply signed_of_mod; lia. Qed.

(* ---------------------------------------------------------------- ring operations *)

Lemma wadd_spec a b : wf a -> wf b -> ww a = ww b ->
  wf (wadd a b) /\ ww (wadd a b) = ww a /\ to_Z (wadd a b) = wrap (ww a) (to_Z a + to_Z b).
Proof.
  intros [Wa Na] _ _. unfold wadd, to_Z, wrap; simpl. rewrite wrap_res_spec by lia.
  split; [apply wf_mk_mod; lia|auto].
Qed.

Lemma wsub_spec a b : wf a -> wf b -> ww a = ww b ->
  wf (wsub a b) /\ ww (wsub a b) = ww a /\ to_Z (wsub a b) = wrap (ww a) (to_Z a - to_Z b).
Proof.
  intros [Wa Na] _ _. unfold wsub, to_Z, wrap; simpl. rewrite wrap_res_spec by lia.
  split; [apply wf_mk_mod; lia|auto].
Qed.

Lemma wmul_spec a b : wf a -> wf b -> ww a = ww b ->
  wf (wmul a b) /\ ww (wmul a b) = ww a /\ to_Z (wmul a b) = wrap (ww a) (to_Z a * to_Z b).
Proof.
  intros [Wa Na] _ _. unfold wmul, to_Z, wrap; simpl. rewrite wrap_res_spec by lia.
  split; [apply wf_mk_mod; lia|auto].
Qed.

Lemma wneg_spec a : wf a ->
  wf (wneg a) /\ ww (wneg a) = ww a /\ to_Z (wneg a) = wrap (ww a) (- to_Z a).
Proof.
  intros [Wa Na]. unfold wneg, to_Z, wrap; simpl. rewrite wrap_res_spec by lia.
  split; [apply wf_mk_mod; lia|auto].
Qed.

(* the compound assignments and ++/-- compute the same values *)
Lemma wadd_assign_eq a b : wf a -> wadd_assign a b = wadd a b.
Proof.
  intros [Wa _]. unfold wadd_assign, wadd. rewrite reduce_u64_spec, wrap_res_spec by lia. reflexivity.
Qed.
Lemma wsub_assign_eq a b : wf a -> wsub_assign a b = wsub a b.
Proof.
  intros [Wa _]. unfold wsub_assign, wsub. rewrite reduce_u64_spec, wrap_res_spec by lia. reflexivity.
Qed.
Lemma wmul_assign_eq a b : wf a -> wmul_assign a b = wmul a b.
Proof.
  intros [Wa _]. unfold wmul_assign, wmul. rewrite reduce_u64_spec, wrap_res_spec by lia. reflexivity.
Qed.

Lemma wpreinc_spec a : wf a ->
  wf (wpreinc a) /\ ww (wpreinc a) = ww a /\ to_Z (wpreinc a) = wrap (ww a) (to_Z a + 1).
Proof.
  intros [Wa Na]. unfold wpreinc, to_Z, wrap; simpl. rewrite reduce_u64_spec by lia.
  split; [apply wf_mk_mod; lia|auto].
Qed.

Lemma wpredec_spec a : wf a ->
  wf (wpredec a) /\ ww (wpredec a) = ww a /\ to_Z (wpredec a) = wrap (ww a) (to_Z a - 1).
Proof.
  intros [Wa Na]. unfold wpredec, to_Z, wrap; simpl. rewrite reduce_u64_spec by lia.
  split; [apply wf_mk_mod; lia|auto].
Qed.

(* ---------------------------------------------------------------- comparisons *)

Lemma weq_spec a b : weq a b = (to_Z a =? to_Z b). Proof. reflexivity. Qed.
Lemma wne_spec a b : wne a b = negb (to_Z a =? to_Z b). Proof. reflexivity. Qed.
Lemma wlt_spec a b : wlt a b = (to_Z a <? to_Z b). Proof. reflexivity. Qed.
Lemma wle_spec a b : wle a b = (to_Z a <=? to_Z b). Proof. reflexivity. Qed.
Lemma wgt_spec a b : wgt a b = (to_Z b <? to_Z a). Proof. reflexivity. Qed.
Lemma wge_spec a b : wge a b = (to_Z b <=? to_Z a). Proof. reflexivity. Qed.

Lemma weq_true a b : ww a = ww b -> weq a b = true -> a = b.
Proof.
  destruct a, b; unfold weq; simpl. intros -> H. apply Z.eqb_eq in H. congruence.
Qed.

Lemma is_zero_spec a : is_zero a = (to_Z a =? 0). Proof. reflexivity. Qed.

(* ---------------------------------------------------------------- division, remainder *)

Lemma wudiv_spec a b : wf a -> wf b -> ww a = ww b ->
  match wudiv a b with
  | Some r => to_Z b <> 0 /\ wf r /\ ww r = ww a /\ to_Z r = to_Z a / to_Z b
  | None => to_Z b = 0
  end.
Proof.
  intros [Wa Na] [Wb Nb] E. unfold wudiv, is_zero, to_Z.
  destruct (Z.eqb_spec (wn b) 0) as [Z0|NZ]; [exact Z0|].
  assert (0 <= wn a / wn b < 2 ^ ww a) as R.
  { split; [apply Z.div_pos; lia|].
    apply Z.le_lt_trans with (wn a); [|lia]. apply Z.div_le_upper_bound; nia. }
  simpl. rewrite wrap_res_small by lia.
  split; [exact NZ|]. split; [apply wf_mk; lia|auto].
Qed.

Lemma wurem_spec a b : wf a -> wf b -> ww a = ww b ->
  match wurem a b with
  | Some r => to_Z b <> 0 /\ wf r /\ ww r = ww a /\ to_Z r = to_Z a mod to_Z b
  | None => to_Z b = 0
  end.
Proof.
  intros [Wa Na] [Wb Nb] E. rewrite <- E in Nb. unfold wurem, is_zero, to_Z.
  destruct (Z.eqb_spec (wn b) 0) as [Z0|NZ]; [exact Z0|].
  pose proof (Z.mod_pos_bound (wn a) (wn b) ltac:(lia)) as R.
  simpl. rewrite wrap_res_small by lia.
  split; [exact NZ|]. split; [apply wf_mk; lia|auto].
Qed.

Lemma quot_bound x y M : 0 < M -> - M <= x < M -> y <> 0 -> - M <= Z.quot x y <= M.
Proof.
  intros HM Hx Hy.
  assert (Z.abs (Z.quot x y) <= Z.abs x) as A.
  { rewrite <- Z.quot_abs by lia.
    apply Z.quot_le_upper_bound; [lia|]. nia. }
  lia.
Qed.

Lemma rem_bound x y M : 0 < M -> - M <= x < M -> y <> 0 -> - M <= Z.rem x y < M.
Proof.
  intros HM Hx Hy.
  assert (Z.abs (Z.rem x y) <= Z.abs x) as A.
  { rewrite <- Z.rem_abs by lia.
    destruct (Z_lt_le_dec (Z.abs x) (Z.abs y)).
    - rewrite Z.rem_small by lia. lia.
    - pose proof (Z.rem_bound_pos (Z.abs x) (Z.abs y) ltac:(lia) ltac:(lia)). lia. }
  destruct (Z.eq_dec (Z.rem x y) M) as [EQ|NE]; [|lia].
  exfalso. assert (x = - M) as -> by lia.
  pose proof (Z.rem_sign_nz (- M) y Hy ltac:(lia)) as S.
  rewrite EQ in S. rewrite Z.sgn_pos, Z.sgn_neg in S by lia. discriminate.
Qed.

Lemma to_sZ_zero a : wf a -> (to_sZ a = 0 <-> to_Z a = 0).
Proof.
  intros [Hw Hn]. unfold to_sZ, to_Z, signed_of.
  pose proof (pow2_pos (ww a - 1)). pose proof (pow2_split (ww a)).
  destruct (Z.ltb_spec (wn a) (2 ^ (ww a - 1))); lia.
Qed.

Lemma wsdiv_spec a b : wf a -> wf b -> ww a = ww b ->
  match wsdiv a b with
  | Some r => to_Z b <> 0 /\ wf r /\ ww r = ww a /\
              to_Z r = wrap (ww a) (Z.quot (to_sZ a) (to_sZ b))
  | None => to_Z b = 0
  end.
Proof.
  intros Wfa Wfb E. pose proof Wfa as [Wa Na]. pose proof Wfb as [Wb Nb].
  unfold wsdiv, is_zero.
  destruct (Z.eqb_spec (wn b) 0) as [Z0|NZ]; [exact Z0|].
  destruct (get_signed_min_spec (ww a) Wa) as (_ & _ & Cmin).
  destruct (get_unsigned_max_spec (ww a) Wa) as (_ & _ & Cmax).
  pose proof (pow2_split (ww a) ltac:(lia)) as P2. pose proof (pow2_pos (ww a - 1) ltac:(lia)) as PP.
  destruct (weq a (get_signed_min (ww a)) && weq b (get_unsigned_max (ww a))) eqn:OV.
  - (* signed_min / -1 *)
    apply andb_true_iff in OV. destruct OV as [O1 O2].
    unfold weq in O1, O2. apply Z.eqb_eq in O1, O2. unfold to_Z in *. rewrite Cmin in O1. rewrite Cmax in O2.
    split; [exact NZ|]. split; [exact Wfa|]. split; [reflexivity|].
    unfold to_sZ, signed_of. rewrite <- E, O1, O2.
    destruct (Z.ltb_spec (2 ^ (ww a - 1)) (2 ^ (ww a - 1))); [lia|].
    destruct (Z.ltb_spec (2 ^ ww a - 1) (2 ^ (ww a - 1))); [lia|].
    replace (2 ^ ww a - 1 - 2 ^ ww a) with (Z.opp 1) by lia.
    replace (2 ^ (ww a - 1) - 2 ^ ww a) with (- 2 ^ (ww a - 1)) by lia.
    rewrite Z.quot_opp_l, Z.quot_opp_r, Z.quot_1_r by lia. rewrite Z.opp_involutive.
    unfold wrap. rewrite Z.mod_small by lia. reflexivity.
  - rewrite !get_signed_bignum_spec by assumption. unfold get_bitwidth.
    assert (to_sZ b <> 0) as NZs by (rewrite to_sZ_zero by assumption; exact NZ).
    pose proof (to_sZ_range a Wfa) as Ra. pose proof (to_sZ_range b Wfb) as Rb.
    pose proof (quot_bound (to_sZ a) (to_sZ b) (2 ^ (ww a - 1)) PP Ra NZs) as Q.
    pose proof (Z.pow_le_mono_r 2 (ww a - 1) 63 ltac:(lia) ltac:(lia)) as P63.
    (* the quotient 2^63 only arises in the overflow case *)
    assert (Z.quot (to_sZ a) (to_sZ b) <= 2 ^ 63 - 1) as Qub.
    { destruct (Z.eq_dec (Z.quot (to_sZ a) (to_sZ b)) (2 ^ 63)) as [EQ|NE]; [|lia].
      exfalso.
      assert (2 ^ (ww a - 1) = 2 ^ 63) as W63 by lia.
      assert (Z.abs (Z.quot (to_sZ a) (to_sZ b)) * Z.abs (to_sZ b) <= Z.abs (to_sZ a)) as AB.
      { pose proof (Z.mul_quot_le (Z.abs (to_sZ a)) (Z.abs (to_sZ b)) ltac:(lia) ltac:(lia)) as L.
        rewrite Z.quot_abs in L by lia. lia. }
      rewrite EQ in AB. rewrite Z.abs_eq in AB by lia.
      assert (to_sZ a = - 2 ^ (ww a - 1)) as A1 by nia.
      assert (Z.abs (to_sZ b) = 1) as B1 by nia.
      assert (to_sZ b = -1) as B2.
      { destruct (Z.eq_dec (to_sZ b) 1) as [B1'|]; [|lia].
        rewrite B1', Z.quot_1_r in EQ. lia. }
      (* then the guard was true *)
      apply andb_false_iff in OV. unfold weq in OV. unfold to_Z in *.
      rewrite Cmin, Cmax in OV.
      unfold to_sZ, signed_of in A1, B2. rewrite <- E in B2.
      destruct (Z.ltb_spec (wn a) (2 ^ (ww a - 1))); [lia|].
      destruct (Z.ltb_spec (wn b) (2 ^ (ww a - 1))); [lia|].
      destruct OV as [OV|OV]; apply Z.eqb_neq in OV; lia. }
    pose proof (of_z_spec (Z.quot (to_sZ a) (to_sZ b)) (ww a)) as S.
    destruct (of_z (Z.quot (to_sZ a) (to_sZ b)) (ww a)) as [r|].
    + destruct S as (_ & _ & Wr & Er & Vr). split; [exact NZ|]. auto.
    + exfalso. apply S. lia.
Qed.

Lemma wsrem_spec a b : wf a -> wf b -> ww a = ww b ->
  match wsrem a b with
  | Some r => to_Z b <> 0 /\ wf r /\ ww r = ww a /\
              to_Z r = wrap (ww a) (Z.rem (to_sZ a) (to_sZ b))
  | None => to_Z b = 0
  end.
Proof.
  intros Wfa Wfb E. pose proof Wfa as [Wa Na]. pose proof Wfb as [Wb Nb].
  unfold wsrem, is_zero.
  destruct (Z.eqb_spec (wn b) 0) as [Z0|NZ]; [exact Z0|].
  rewrite !get_signed_bignum_spec by assumption. unfold get_bitwidth.
  assert (to_sZ b <> 0) as NZs by (rewrite to_sZ_zero by assumption; exact NZ).
  pose proof (to_sZ_range a Wfa) as Ra.
  pose proof (pow2_pos (ww a - 1) ltac:(lia)) as PP.
  pose proof (rem_bound (to_sZ a) (to_sZ b) (2 ^ (ww a - 1)) ltac:(lia) Ra NZs) as Q.
  pose proof (Z.pow_le_mono_r 2 (ww a - 1) 63 ltac:(lia) ltac:(lia)) as P63.
  pose proof (of_z_spec (Z.rem (to_sZ a) (to_sZ b)) (ww a)) as S.
  destruct (of_z (Z.rem (to_sZ a) (to_sZ b)) (ww a)) as [r|].
  - destruct S as (_ & _ & Wr & Er & Vr). split; [exact NZ|]. auto.
  - exfalso. apply S. lia.
Qed.

(* ---------------------------------------------------------------- shifts *)

Lemma wshl_spec a k : wf a -> wf k -> ww a = ww k -> to_Z k < 64 ->
  exists r, wshl a k = Some r /\ wf r /\ ww r = ww a /\
            to_Z r = wrap (ww a) (to_Z a * 2 ^ to_Z k).
Proof.
  intros [Wa Na] [Wk Nk] E K. unfold wshl, to_Z in *.
  destruct (Z.ltb_spec (wn k) 64); [|lia].
  eexists; split; [reflexivity|]. simpl.
  rewrite wrap_res_spec, Z.shiftl_mul_pow2 by lia.
  split; [apply wf_mk_mod; lia|auto].
Qed.

Lemma wshl_ub a k : to_Z k < 64 <-> wshl a k <> None.
Proof. unfold wshl, to_Z. destruct (Z.ltb_spec (wn k) 64); split; intros; try lia; congruence. Qed.

Lemma shiftr_range n w k : 0 <= w -> 0 <= n < 2 ^ w -> 0 <= k -> 0 <= Z.shiftr n k < 2 ^ w.
Proof.
  intros Hw Hn Hk. rewrite Z.shiftr_div_pow2 by lia. pose proof (pow2_pos k Hk).
  split; [apply Z.div_pos; lia|].
  apply Z.le_lt_trans with n; [|lia]. apply Z.div_le_upper_bound; nia.
Qed.

Lemma wlshr_spec a k : wf a -> wf k -> ww a = ww k -> to_Z k < 64 ->
  exists r, wlshr a k = Some r /\ wf r /\ ww r = ww a /\ to_Z r = to_Z a / 2 ^ to_Z k.
Proof.
  intros [Wa Na] [Wk Nk] E K. unfold wlshr, to_Z in *.
  destruct (Z.ltb_spec (wn k) 64); [|lia].
  eexists; split; [reflexivity|]. simpl.
  split; [apply wf_mk; [lia|apply shiftr_range; lia]|].
  split; [reflexivity|]. apply Z.shiftr_div_pow2; lia.
Qed.

(* bits of n - 2^w for n in the upper half: the low w bits are those of n, all others 1 *)
Lemma sub_pow2_bits n w j : 0 <= w -> 0 <= n < 2 ^ w -> 0 <= j ->
  Z.testbit (n - 2 ^ w) j = if j <? w then Z.testbit n j else true.
Proof.
  intros Hw Hn Hj. destruct (Z.ltb_spec j w).
  - rewrite <- (Z.mod_pow2_bits_low (n - 2 ^ w) w j) by lia.
    replace (n - 2 ^ w) with (n + (-1) * 2 ^ w) by lia.
    rewrite Z.mod_add by (apply Z.pow_nonzero; lia). rewrite Z.mod_small by lia. reflexivity.
  - apply (neg_bits_high _ w); lia.
Qed.

Lemma ashr_bits n w k : 0 <= w -> 0 <= n < 2 ^ w -> 0 <= k ->
  Z.lor (Z.lxor (Z.ones w) (Z.shiftr (Z.ones w) k)) (Z.shiftr n k) = ((n - 2 ^ w) / 2 ^ k) mod 2 ^ w.
Proof.
  intros Hw Hn Hk. apply Z.bits_inj'. intros i Hi.
  rewrite Z.lor_spec, Z.lxor_spec, !Z.shiftr_spec by lia.
  rewrite !Z.testbit_ones_nonneg by lia.
  rewrite Z.testbit_mod_pow2, Z.div_pow2_bits, sub_pow2_bits by lia.
  destruct (Z.ltb_spec i w); destruct (Z.ltb_spec (i + k) w); simpl; try lia; try reflexivity.
  rewrite (range_bits_high n w) by lia. reflexivity.
Qed.

Lemma washr_spec a k : wf a -> wf k -> ww a = ww k -> to_Z k < 64 ->
  exists r, washr a k = Some r /\ wf r /\ ww r = ww a /\
            to_Z r = wrap (ww a) (to_sZ a / 2 ^ to_Z k).
Proof.
  intros Wfa [Wk Nk] E K. pose proof Wfa as [Wa Na]. unfold washr, to_Z in *.
  destruct (Z.ltb_spec (wn k) 64); [|lia].
  rewrite msb_spec by exact Wfa. unfold to_sZ, signed_of.
  pose proof (pow2_split (ww a) ltac:(lia)) as P2.
  destruct (Z.leb_spec (2 ^ (ww a - 1)) (wn a)); destruct (Z.ltb_spec (wn a) (2 ^ (ww a - 1))); try lia; simpl.
  - (* negative *)
    eexists; split; [reflexivity|]. simpl.
    rewrite all_ones_eq by lia. rewrite ashr_bits by lia. unfold wrap.
    split; [apply wf_mk_mod; lia|auto].
  - eexists; split; [reflexivity|]. simpl.
    pose proof (shiftr_range (wn a) (ww a) (wn k) ltac:(lia) Na ltac:(lia)) as R.
    split; [apply wf_mk; lia|]. split; [reflexivity|].
    unfold wrap. rewrite <- Z.shiftr_div_pow2 by lia. rewrite Z.mod_small by lia. reflexivity.
Qed.

(* ---------------------------------------------------------------- extensions, truncation *)

Lemma sext_bits n w nw : 0 <= w <= nw -> nw <= 64 -> 0 <= n < 2 ^ w ->
  Z.lor n (u64 (Z.shiftl (Z.ones nw) w)) mod 2 ^ nw = (n - 2 ^ w) mod 2 ^ nw.
Proof.
  intros Hw Hnw Hn. apply Z.bits_inj'. intros i Hi.
  rewrite !Z.testbit_mod_pow2 by lia. rewrite Z.lor_spec, sub_pow2_bits by lia.
  unfold u64. rewrite two64_eq, Z.testbit_mod_pow2, Z.shiftl_spec by lia.
  destruct (Z.ltb_spec i nw); simpl; [|reflexivity].
  destruct (Z.ltb_spec i 64); [|lia]. simpl.
  destruct (Z.ltb_spec i w).
  - rewrite (Z.testbit_neg_r (Z.ones nw) (i - w)) by lia. apply orb_false_r.
  - rewrite Z.testbit_ones_nonneg by lia. destruct (Z.ltb_spec (i - w) nw); [|lia]. apply orb_true_r.
Qed.

Lemma wsext_spec a k : wf a -> 0 <= k ->
  match wsext a k with
  | Some r => ww a + k <= 64 /\ wf r /\ ww r = ww a + k /\ to_Z r = wrap (ww a + k) (to_sZ a)
  | None => 64 < ww a + k
  end.
Proof.
  intros Wfa Hk. pose proof Wfa as [Wa Na]. unfold wsext.
  destruct (Z.ltb_spec 64 (ww a + k)) as [L|L]; [exact L|].
  destruct (Z.eqb_spec k 0) as [->|K0].
  - rewrite Z.add_0_r. rewrite to_sZ_wrap by exact Wfa.
    split; [lia|]. split; [exact Wfa|]. split; reflexivity.
  - rewrite msb_spec by exact Wfa. unfold to_sZ, signed_of.
    pose proof (pow2_split (ww a) ltac:(lia)) as P2.
    pose proof (Z.pow_le_mono_r 2 (ww a) (ww a + k) ltac:(lia) ltac:(lia)) as PM.
    pose proof (pow2_le_64 (ww a) ltac:(lia)) as P64.
    destruct (Z.leb_spec (2 ^ (ww a - 1)) (wn a)); destruct (Z.ltb_spec (wn a) (2 ^ (ww a - 1))); try lia.
    + (* negative *)
      assert (0 <= Z.lor (wn a) (u64 (Z.shiftl (all_ones (ww a + k)) (ww a))) < 2 ^ 64) as R.
      { apply lor_range; [lia|lia|apply u64_range]. }
      pose proof (of_u64_spec _ (ww a + k) R) as S.
      destruct (of_u64 _ (ww a + k)) as [r|]; [|exfalso; apply S; lia].
      destruct S as (_ & Wr & Er & Vr). split; [lia|]. split; [exact Wr|]. split; [exact Er|].
      rewrite Vr. unfold wrap. rewrite all_ones_eq by lia. apply sext_bits; lia.
    + pose proof (of_u64_spec (wn a) (ww a + k) ltac:(lia)) as S.
      destruct (of_u64 _ (ww a + k)) as [r|]; [|exfalso; apply S; lia].
      destruct S as (_ & Wr & Er & Vr). auto.
Qed.

Lemma wzext_spec a k : wf a -> 0 <= k ->
  match wzext a k with
  | Some r => ww a + k <= 64 /\ wf r /\ ww r = ww a + k /\ to_Z r = to_Z a
  | None => 64 < ww a + k
  end.
Proof.
  intros Wfa Hk. pose proof Wfa as [Wa Na]. unfold wzext.
  destruct (Z.ltb_spec 64 (ww a + k)) as [L|L]; [exact L|].
  pose proof (Z.pow_le_mono_r 2 (ww a) (ww a + k) ltac:(lia) ltac:(lia)) as PM.
  pose proof (pow2_le_64 (ww a) ltac:(lia)) as P64.
  pose proof (of_u64_spec (wn a) (ww a + k) ltac:(lia)) as S.
  destruct (of_u64 _ (ww a + k)) as [r|]; [|exfalso; apply S; lia].
  destruct S as (_ & Wr & Er & Vr). split; [lia|]. split; [exact Wr|]. split; [exact Er|].
  rewrite Vr. unfold wrap, to_Z. apply Z.mod_small; lia.
Qed.

Lemma wkeep_lower_spec a k : wf a -> 0 <= k ->
  match wkeep_lower a k with
  | Some r => wf r /\ ((ww a <= k /\ r = a) \/
                       (1 <= k < ww a /\ ww r = k /\ to_Z r = wrap k (to_Z a)))
  | None => k = 0
  end.
Proof.
  intros Wfa Hk. pose proof Wfa as [Wa Na]. unfold wkeep_lower.
  destruct (Z.leb_spec (ww a) k) as [L|L]; [auto|].
  rewrite Z.shiftl_1_l. replace (2 ^ k - 1) with (Z.ones k) by (rewrite Z.ones_equiv; lia).
  rewrite Z.land_ones by lia.
  pose proof (mod_range k (wn a) Hk) as R. pose proof (pow2_le_64 k ltac:(lia)) as P64.
  pose proof (of_u64_spec (wn a mod 2 ^ k) k ltac:(lia)) as S.
  destruct (of_u64 _ k) as [r|].
  - destruct S as (K1 & Wr & Er & Vr). split; [exact Wr|]. right. split; [lia|]. split; [exact Er|].
    rewrite Vr. unfold wrap, to_Z. apply Z.mod_mod. apply Z.pow_nonzero; lia.
  - lia.
Qed.

(* ---------------------------------------------------------------- round trips *)

Lemma wrapint_eq a b : ww a = ww b -> wn a = wn b -> a = b.
Proof. destruct a, b; simpl; congruence. Qed.

Lemma of_z_signed_roundtrip a : wf a -> of_z (get_signed_bignum a) (ww a) = Some a.
Proof.
  intros Wfa. pose proof Wfa as [Wa Na]. rewrite get_signed_bignum_spec by exact Wfa.
  pose proof (to_sZ_range a Wfa) as R.
  pose proof (Z.pow_le_mono_r 2 (ww a - 1) 63 ltac:(lia) ltac:(lia)) as P63.
  pose proof (of_z_spec (to_sZ a) (ww a)) as S.
  destruct (of_z (to_sZ a) (ww a)) as [r|]; [|exfalso; apply S; lia].
  destruct S as (_ & _ & Wr & Er & Vr). f_equal. apply wrapint_eq; [exact Er|].
  unfold to_Z in Vr. rewrite Vr. apply to_sZ_wrap. exact Wfa.
Qed.

Lemma of_z_unsigned_roundtrip a : wf a -> to_Z a < 2 ^ 63 ->
  of_z (get_unsigned_bignum a) (ww a) = Some a.
Proof.
  intros Wfa H63. pose proof Wfa as [Wa Na]. unfold get_unsigned_bignum, to_Z in *.
  pose proof (of_z_spec (wn a) (ww a)) as S.
  destruct (of_z (wn a) (ww a)) as [r|]; [|exfalso; apply S; lia].
  destruct S as (_ & _ & Wr & Er & Vr). f_equal. apply wrapint_eq; [exact Er|].
  unfold to_Z, wrap in Vr. rewrite Vr. apply Z.mod_small; lia.
Qed.

(* the class documents the limited precision: values of 2^63 and above are rejected *)
Lemma of_z_unsigned_roundtrip_limit a : wf a -> 2 ^ 63 <= to_Z a ->
  of_z (get_unsigned_bignum a) (ww a) = None.
Proof.
  intros Wfa H63. unfold get_unsigned_bignum, to_Z in *.
  pose proof (of_z_spec (wn a) (ww a)) as S.
  destruct (of_z (wn a) (ww a)) as [r|]; [|reflexivity]. lia.
Qed.

Lemma signed_bignum_of_z z w r : of_z z w = Some r -> - 2 ^ (w - 1) <= z < 2 ^ (w - 1) ->
  get_signed_bignum r = z.
Proof.
  intros H R. pose proof (of_z_spec z w) as S. rewrite H in S.
  destruct S as (Hw & _ & Wr & Er & Vr). rewrite get_signed_bignum_spec by exact Wr.
  unfold to_sZ. unfold to_Z in Vr. rewrite Vr, Er. apply signed_of_unique; lia.
Qed.

Lemma unsigned_bignum_of_z z w r : of_z z w = Some r -> get_unsigned_bignum r = wrap w z.
Proof.
  intros H. pose proof (of_z_spec z w) as S. rewrite H in S.
  destruct S as (_ & _ & _ & _ & Vr). exact Vr.
Qed.

(* the signed reading is congruent to the unsigned one *)
Lemma to_sZ_congr a : wf a -> (to_sZ a - to_Z a) mod 2 ^ ww a = 0.
Proof.
  intros [Wa Na]. unfold to_sZ, to_Z, signed_of.
  destruct (Z.ltb_spec (wn a) (2 ^ (ww a - 1))).
  - rewrite Z.sub_diag. apply Z.mod_0_l. apply Z.pow_nonzero; lia.
  - replace (wn a - 2 ^ ww a - wn a) with ((-1) * 2 ^ ww a) by lia.
    apply Z.mod_mul. apply Z.pow_nonzero; lia.
Qed.

(* ---------------------------------------------------------------- non-vacuity *)

Example wf_example : wf (mkW 200 8) /\ to_sZ (mkW 200 8) = -56.
Proof. split; [split; simpl; lia|reflexivity]. Qed.

Example ashr_example : washr (mkW 128 8) (mkW 1 8) = Some (mkW 192 8).
Proof. reflexivity. Qed.

Example ashr64_example :
  washr (mkW (2 ^ 63) 64) (mkW 0 64) = Some (mkW (2 ^ 63) 64).
Proof. reflexivity. Qed.

Example sdiv_overflow_example :
  wsdiv (mkW (2 ^ 63) 64) (mkW (2 ^ 64 - 1) 64) = Some (mkW (2 ^ 63) 64).
Proof. reflexivity. Qed.

Example keep_lower_example :
  wkeep_lower (mkW (2 ^ 64 - 1) 64) 63 = Some (mkW (2 ^ 63 - 1) 63).
Proof. reflexivity. Qed.

Example sext0_example : wsext (mkW (2 ^ 63) 64) 0 = Some (mkW (2 ^ 63) 64).
Proof. reflexivity. Qed.
