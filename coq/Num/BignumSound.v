(* BignumSound.v — the operators of the z_number model agree with mathematical
   integer arithmetic: characterisations that pin each result uniquely. *)
From Coq Require Import ZArith Bool List Lia.
From CrabV Require Import Num.Bignum.
Import ListNotations.
Local Open Scope Z_scope.

(* ------------------------------------------------------------------ division *)

(* truncating division: a = b*q + r, |r| < |b|, r is zero or has the sign of a *)
Definition trunc_divmod (a b q r : Z) : Prop :=
  a = b * q + r /\ Z.abs r < Z.abs b /\ 0 <= r * a.

Lemma quot_rem_trunc a b : b <> 0 -> trunc_divmod a b (Z.quot a b) (Z.rem a b).
Proof.
  intros Hb. unfold trunc_divmod. split; [apply Z.quot_rem'|]. split.
  - apply Z.rem_bound_abs; auto.
  - apply Z.rem_sign_mul; auto.
Qed.

Lemma trunc_divmod_unique a b q r q' r' :
  trunc_divmod a b q r -> trunc_divmod a b q' r' -> q = q' /\ r = r'.
Proof.
  unfold trunc_divmod. intros (E1 & B1 & S1) (E2 & B2 & S2).
  assert (Hd : b * (q - q') = r' - r) by lia.
  assert (Hq : q = q').
  { destruct (Z.eq_dec q q') as [|Hne]; auto. exfalso.
    assert (Z.abs b <= Z.abs (r' - r)).
    { rewrite <- Hd, Z.abs_mul. assert (1 <= Z.abs (q - q')) by lia. nia. }
    (* r and r' have the same sign (that of a) or are zero, so |r' - r| < |b| *)
    destruct (Z.eq_dec a 0) as [->|Ha].
    - assert (Hz : forall q r, 0 = b * q + r -> Z.abs r < Z.abs b -> q = 0).
      { intros q0 r0 E0 B0. destruct (Z.eq_dec q0 0); auto. exfalso.
        assert (r0 = - (b * q0)) by lia. subst r0.
        rewrite Z.abs_opp, Z.abs_mul in B0. assert (1 <= Z.abs q0) by lia. nia. }
      rewrite (Hz q r E1 B1), (Hz q' r' E2 B2) in Hne. lia.
    - assert (0 < a \/ a < 0) as [Hp|Hn] by lia.
      + assert (0 <= r) by nia. assert (0 <= r') by nia. lia.
      + assert (r <= 0) by nia. assert (r' <= 0) by nia. lia. }
  split; auto. subst q'. lia.
Qed.

Theorem zdiv_zrem_spec a b :
  b <> 0 ->
  exists q r, zdiv a b = Some q /\ zrem a b = Some r /\ trunc_divmod a b q r /\
              (forall q' r', trunc_divmod a b q' r' -> q' = q /\ r' = r).
Proof.
  intros Hb. exists (Z.quot a b), (Z.rem a b). unfold zdiv, zrem.
  replace (b =? 0) with false by (symmetry; apply Z.eqb_neq; auto).
  repeat split; try apply quot_rem_trunc; auto;
    destruct (trunc_divmod_unique a b _ _ _ _ H (quot_rem_trunc a b Hb)); auto.
Qed.

Lemma zdiv_by_zero a : zdiv a 0 = None /\ zrem a 0 = None.
Proof. split; reflexivity. Qed.

(* ------------------------------------------------------------------ shifts *)

Lemma shift_ok_range k : shift_ok k = true -> 0 <= k.
Proof. unfold shift_ok. intros H. apply andb_prop in H. destruct H as [H _]. apply Z.leb_le in H; auto. Qed.

(* a >> k is the floor of a / 2^k: the unique r with 2^k * r <= a < 2^k * (r+1) *)
Theorem zshr_floor a k r :
  zshr a k = Some r -> 2 ^ k * r <= a < 2 ^ k * (r + 1).
Proof.
  unfold zshr. destruct (shift_ok k) eqn:E; [|discriminate]. intros H; inversion H; subst; clear H.
  apply shift_ok_range in E. rewrite Z.shiftr_div_pow2 by auto.
  assert (0 < 2 ^ k) by (apply Z.pow_pos_nonneg; lia).
  pose proof (Z.div_mod a (2 ^ k) ltac:(lia)). pose proof (Z.mod_pos_bound a (2 ^ k) ltac:(lia)). nia.
Qed.

Theorem zshr_div a k r : zshr a k = Some r -> r = a / 2 ^ k.
Proof.
  unfold zshr. destruct (shift_ok k) eqn:E; [|discriminate]. intros H; inversion H; subst.
  apply Z.shiftr_div_pow2. eapply shift_ok_range; eauto.
Qed.

Theorem zshl_mul a k r : zshl a k = Some r -> r = a * 2 ^ k.
Proof.
  unfold zshl. destruct (shift_ok k) eqn:E; [|discriminate]. intros H; inversion H; subst.
  apply Z.shiftl_mul_pow2. eapply shift_ok_range; eauto.
Qed.

Lemma zshift_defined a k : 0 <= k <= shift_limit -> zshl a k <> None /\ zshr a k <> None.
Proof.
  intros H. unfold zshl, zshr, shift_ok.
  replace (0 <=? k) with true by (symmetry; apply Z.leb_le; lia).
  replace (k <=? shift_limit) with true by (symmetry; apply Z.leb_le; lia).
  simpl. split; discriminate.
Qed.

(* ------------------------------------------------------------------ bitwise *)

Theorem zand_bits a b n : Z.testbit (zand a b) n = Z.testbit a n && Z.testbit b n.
Proof. apply Z.land_spec. Qed.
Theorem zor_bits a b n : Z.testbit (zor a b) n = Z.testbit a n || Z.testbit b n.
Proof. apply Z.lor_spec. Qed.
Theorem zxor_bits a b n : Z.testbit (zxor a b) n = xorb (Z.testbit a n) (Z.testbit b n).
Proof. apply Z.lxor_spec. Qed.
(* the bits are those of infinite two's complement: a negative number has all bits
   set from some position on *)
Lemma twos_complement_sign a : a < 0 <-> exists k, forall n, k <= n -> Z.testbit a n = true.
Proof.
  split.
  - intros H. exists (Z.log2 (Z.pred (- a)) + 1). intros n Hn.
    apply Z.bits_above_log2_neg; lia.
  - intros (k & Hk). destruct (Z_lt_le_dec a 0) as [|Hge]; auto. exfalso.
    set (n := Z.max k (Z.log2 a + 1)).
    assert (Z.testbit a n = false) by (apply Z.bits_above_log2; unfold n; lia).
    rewrite Hk in H; [discriminate | unfold n; lia].
Qed.

(* ------------------------------------------------------------------ fill_ones *)

Lemma fill_loop_closed x (Hx : 0 < x) :
  forall fuel j, 1 <= j <= Z.log2 x + 1 ->
    Z.log2 x + 1 - j <= Z.pos (Pos.size fuel) ->
    fill_loop fuel x (2 ^ j - 1) = 2 ^ (Z.log2 x + 1) - 1.
Proof.
  set (L := Z.log2 x + 1).
  assert (Hstep : forall j, 0 <= j -> 2 * (2 ^ j - 1) + 1 = 2 ^ (j + 1) - 1).
  { intros j Hj. rewrite Z.pow_add_r by lia. change (2 ^ 1) with 2. lia. }
  assert (Hcmp : forall j, 0 <= j -> (2 ^ j - 1 <? x) = true <-> j <= Z.log2 x).
  { intros j Hj. rewrite Z.ltb_lt. rewrite <- (Z.log2_le_pow2 x j) by lia. lia. }
  induction fuel as [f IH | f IH |]; intros j Hj Hf; cbn [fill_loop];
    destruct (2 ^ j - 1 <? x) eqn:E.
  - rewrite Hstep by lia. apply IH; [apply Hcmp in E; unfold L in *; lia |].
    cbn [Pos.size] in Hf. lia.
  - assert (~ j <= Z.log2 x) by (rewrite <- Hcmp by lia; congruence).
    replace j with L by (unfold L in *; lia). reflexivity.
  - rewrite Hstep by lia. apply IH; [apply Hcmp in E; unfold L in *; lia |].
    cbn [Pos.size] in Hf. lia.
  - assert (~ j <= Z.log2 x) by (rewrite <- Hcmp by lia; congruence).
    replace j with L by (unfold L in *; lia). reflexivity.
  - rewrite Hstep by lia. apply Hcmp in E; [|lia]. cbn [Pos.size] in Hf.
    replace (j + 1) with L by (unfold L in *; lia). reflexivity.
  - assert (~ j <= Z.log2 x) by (rewrite <- Hcmp by lia; congruence).
    replace j with L by (unfold L in *; lia). reflexivity.
Qed.

Lemma pos_size_log2 p : Z.pos (Pos.size p) = Z.log2 (Z.pos p) + 1.
Proof.
  induction p; cbn [Pos.size Z.log2]; try reflexivity.
  - destruct p; cbn in *; try lia; rewrite ?Pos2Z.inj_succ; lia.
  - destruct p; cbn in *; try lia; rewrite ?Pos2Z.inj_succ; lia.
Qed.

(* closed form of the doubling loop *)
Theorem fill_ones_closed x :
  fill_ones x = if x <? 0 then None else if x =? 0 then Some 0 else Some (Z.ones (Z.log2 x + 1)).
Proof.
  destruct x as [|p|p]; try reflexivity.
  cbn [fill_ones]. replace (Z.pos p <? 0) with false by reflexivity.
  replace (Z.pos p =? 0) with false by reflexivity. f_equal.
  rewrite Z.ones_equiv. unfold Z.pred.
  replace 1 with (2 ^ 1 - 1) at 1 by reflexivity.
  rewrite (fill_loop_closed (Z.pos p)); try lia.
  - pose proof (Z.log2_nonneg (Z.pos p)). lia.
  - rewrite pos_size_log2. lia.
Qed.

(* what the closed form means: the smallest 2^k - 1 that is >= x *)
Theorem fill_ones_least x r :
  0 < x -> fill_ones x = Some r ->
  x <= r /\ (exists k, 0 <= k /\ r = 2 ^ k - 1) /\
  (forall k, 0 <= k -> x <= 2 ^ k - 1 -> r <= 2 ^ k - 1).
Proof.
  intros Hx. rewrite fill_ones_closed.
  replace (x <? 0) with false by (symmetry; apply Z.ltb_ge; lia).
  replace (x =? 0) with false by (symmetry; apply Z.eqb_neq; lia).
  intros H; inversion H; subst; clear H. rewrite Z.ones_equiv. unfold Z.pred.
  pose proof (Z.log2_nonneg x).
  destruct (Z.log2_spec x Hx) as [Hlo Hhi]. replace (Z.succ (Z.log2 x)) with (Z.log2 x + 1) in Hhi by lia.
  split; [lia|]. split; [exists (Z.log2 x + 1); split; [lia|reflexivity]|].
  intros k Hk Hxk.
  assert (Z.log2 x + 1 <= k).
  { destruct (Z_lt_le_dec k (Z.log2 x + 1)); auto. exfalso.
    assert (2 ^ k <= 2 ^ Z.log2 x) by (apply Z.pow_le_mono_r; lia). lia. }
  assert (2 ^ (Z.log2 x + 1) <= 2 ^ k) by (apply Z.pow_le_mono_r; lia). lia.
Qed.

(* ------------------------------------------------------------------ int64 / uint64 *)

Theorem to_int64_spec a n : to_int64 a = Some n <-> (- 2 ^ 63 <= a <= 2 ^ 63 - 1 /\ n = a).
Proof.
  unfold to_int64, fits_int64, int64_min, int64_max. split.
  - destruct (_ && _) eqn:E; [|discriminate]. intros H; inversion H; subst.
    apply andb_prop in E. destruct E as [E1 E2]. apply Z.leb_le in E1, E2. lia.
  - intros [[H1 H2] ->]. apply Z.leb_le in H1, H2. rewrite H1, H2. reflexivity.
Qed.
Theorem to_int64_overflow a : to_int64 a = None <-> ~ (- 2 ^ 63 <= a <= 2 ^ 63 - 1).
Proof.
  unfold to_int64, fits_int64, int64_min, int64_max.
  destruct (- 2 ^ 63 <=? a) eqn:E1, (a <=? 2 ^ 63 - 1) eqn:E2; cbn [andb];
    try apply Z.leb_le in E1; try apply Z.leb_le in E2; try apply Z.leb_gt in E1; try apply Z.leb_gt in E2;
    split; try discriminate; try lia; auto.
Qed.
Theorem int64_round_trip n z : of_int64 n = Some z -> to_int64 z = Some n /\ fits_int64 z = true.
Proof.
  unfold of_int64, to_int64. destruct (fits_int64 n) eqn:E; [|discriminate].
  intros H; inversion H; subst. rewrite E. auto.
Qed.
Theorem uint64_import n z : of_uint64 n = Some z <-> (0 <= n <= 2 ^ 64 - 1 /\ z = n).
Proof.
  unfold of_uint64, fits_uint64, uint64_max. split.
  - destruct (_ && _) eqn:E; [|discriminate]. intros H; inversion H; subst.
    apply andb_prop in E. destruct E as [E1 E2]. apply Z.leb_le in E1, E2. lia.
  - intros [[H1 H2] ->]. apply Z.leb_le in H1, H2. rewrite H1, H2. reflexivity.
Qed.

(* ------------------------------------------------------------------ strings *)

Definition od (b : Z) (ds : list Z) (i : Z) : Z := fold_left (fun acc d => acc * b + d) ds i.

Lemma digits_loop_value b (Hb : 2 <= b) :
  forall f n acc, 0 <= n -> od b (digits_loop f b n acc) 0 = od b acc n.
Proof.
  induction f as [|f IH]; intros n acc Hn; cbn [digits_loop].
  - reflexivity.
  - destruct (n <? b) eqn:E; [reflexivity|].
    rewrite IH by (apply Z.div_pos; lia). unfold od. cbn [fold_left]. f_equal.
    pose proof (Z.div_mod n b ltac:(lia)). lia.
Qed.

Theorem of_to_digits b n : 2 <= b -> 0 <= n -> of_digits b (to_digits b n) = n.
Proof.
  intros Hb Hn. unfold of_digits, to_digits.
  change (fold_left (fun acc d : Z => acc * b + d) ?l 0) with (od b l 0).
  rewrite digits_loop_value by auto. reflexivity.
Qed.

Lemma log2_div_lt b n : 2 <= b -> b <= n -> Z.log2 (n / b) <= Z.log2 n - 1.
Proof.
  intros Hb Hn.
  assert (n / b <= n / 2) by (apply Z.div_le_compat_l; lia).
  assert (Z.log2 (n / 2) = Z.log2 n - 1).
  { rewrite <- Z.div2_div, Z.div2_spec, Z.log2_shiftr by lia. pose proof (Z.log2_nonneg n).
    assert (1 <= Z.log2 n) by (change 1 with (Z.log2 2); apply Z.log2_le_mono; lia). lia. }
  pose proof (Z.log2_le_mono (n / b) (n / 2) H). lia.
Qed.

Lemma digits_loop_range b (Hb : 2 <= b) :
  forall f n acc, 0 <= n -> Z.log2 n <= Z.of_nat f ->
    Forall (fun d => 0 <= d < b) acc -> Forall (fun d => 0 <= d < b) (digits_loop f b n acc).
Proof.
  induction f as [|f IH]; intros n acc Hn Hf Hacc; cbn [digits_loop].
  - constructor; auto. assert (n < 2); [|lia].
    destruct (Z_lt_le_dec n 2); auto. exfalso.
    assert (1 <= Z.log2 n) by (change 1 with (Z.log2 2); apply Z.log2_le_mono; lia). lia.
  - destruct (n <? b) eqn:E.
    + apply Z.ltb_lt in E. constructor; auto.
    + apply Z.ltb_ge in E. apply IH.
      * apply Z.div_pos; lia.
      * pose proof (log2_div_lt b n Hb E). lia.
      * constructor; auto. apply Z.mod_pos_bound. lia.
Qed.

Theorem to_digits_range b n : 2 <= b -> 0 <= n -> Forall (fun d => 0 <= d < b) (to_digits b n).
Proof.
  intros Hb Hn. unfold to_digits. apply digits_loop_range; auto.
  rewrite Z2Nat.id by apply Z.log2_nonneg. lia.
Qed.

Lemma digits_loop_nonempty b : forall f n acc, digits_loop f b n acc <> [].
Proof.
  induction f as [|f IH]; intros n acc; cbn [digits_loop].
  - intro H; discriminate H.
  - destruct (n <? b); [intro H; discriminate H | apply IH].
Qed.
Lemma to_digits_nonempty b n : to_digits b n <> [].
Proof. unfold to_digits. apply digits_loop_nonempty. Qed.

(* string round trip: parsing what get_str prints gives the number back, in any base *)
Theorem z_str_round_trip b a neg ds :
  z_get_str b a = Some (neg, ds) -> z_of_str b neg ds = Some a.
Proof.
  unfold z_get_str, z_of_str. destruct (base_ok b) eqn:Eb; [|discriminate].
  intros H; inversion H; subst; clear H. cbn [andb].
  assert (Hb : 2 <= b). { unfold base_ok in Eb. apply andb_prop in Eb. destruct Eb as [E _]. apply Z.leb_le in E; auto. }
  pose proof (to_digits_nonempty b (Z.abs a)).
  destruct (to_digits b (Z.abs a)) eqn:Ed; [congruence|]. cbn [negb andb]. rewrite <- Ed.
  replace (forallb _ _) with true.
  - rewrite of_to_digits by lia. destruct (a <? 0) eqn:E; f_equal.
    + apply Z.ltb_lt in E. lia.
    + apply Z.ltb_ge in E. lia.
  - symmetry. apply forallb_forall. intros d Hd.
    pose proof (to_digits_range b (Z.abs a) Hb (Z.abs_nonneg a)) as HF.
    rewrite Forall_forall in HF. specialize (HF d Hd).
    apply andb_true_intro. split; [apply Z.leb_le | apply Z.ltb_lt]; lia.
Qed.

(* every accepted string denotes the number sum d_i * b^i with its sign *)
Lemma of_digits_snoc b ds d : of_digits b (ds ++ [d]) = of_digits b ds * b + d.
Proof. unfold of_digits. rewrite fold_left_app. reflexivity. Qed.

Theorem z_get_str_defined b a : 2 <= b <= 36 -> z_get_str b a <> None.
Proof.
  intros [H1 H2]. unfold z_get_str, base_ok. apply Z.leb_le in H1, H2. rewrite H1, H2. discriminate.
Qed.

(* raw words: import of the export is the magnitude, with the sign reported *)
Theorem words_round_trip order a :
  let (sign, ws) := to_words order a in
  of_words order ws = Z.abs a /\ sign = (0 <=? a) /\ Forall (fun w => 0 <= w < 2 ^ 64) ws.
Proof.
  unfold to_words, of_words. destruct (a =? 0) eqn:E.
  - apply Z.eqb_eq in E. subst. destruct order; cbn; auto.
  - assert (Hv : of_digits word_base (to_digits word_base (Z.abs a)) = Z.abs a)
      by (apply of_to_digits; [unfold word_base; lia | apply Z.abs_nonneg]).
    assert (Hr : Forall (fun w => 0 <= w < 2 ^ 64) (to_digits word_base (Z.abs a)))
      by (apply to_digits_range; [unfold word_base; lia | apply Z.abs_nonneg]).
    destruct order.
    + auto.
    + rewrite rev_involutive. split; auto. split; auto.
      apply Forall_forall. intros w Hw. rewrite Forall_forall in Hr. apply Hr. apply in_rev; auto.
Qed.
