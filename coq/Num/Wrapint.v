(* Wrapint.v — mirror model of crab::wrapint
   (include/crab/numbers/wrapint.hpp, lib/wrapint.cpp), written over Z with the uint64_t
   wrap-around ([u64]) and the reductions [% _mod] made explicit.  Each definition follows
   the C++ member of the same name decision by decision.  No proofs here.

   The model follows the code *with the repairs of fixes/wrapint-{1,2,3,4}.diff*:
     1. ashr      : mask of upper bits  all_ones ^ (all_ones >> k)   (was all_ones << (w - k))
     2. keep_lower: mask (1 << bits_to_keep) - 1                     (was 1 << (bits_to_keep+1))
     3. sdiv      : signed_min / -1 returns signed_min               (aborted for w = 64)
     4. sext      : sext(0) returns *this                            (all ones for w = 64, msb set)

   Conventions.
   - [wn] is the field _n, [ww] the field _width.  The field _mod is a function of the width
     ([wmod]: 0 if the width is 64, 2^width otherwise), so it is not stored.
   - CRAB_ERROR (= exit(1)) is [None] in the functions that can reach one.  The check
     sanity_check_bitwidths (both operands have the same width) is a precondition of the
     binary operations: they are total here and use the width of the left operand.
   - Shifts of an uint64_t by 64 or more are undefined behaviour in C++: the shift
     operations return [None] for such amounts (outside the scope of every theorem). *)
From Coq Require Import ZArith Bool.
Local Open Scope Z_scope.

Record wrapint : Type := mkW { wn : Z; ww : Z }.

Definition two64 : Z := 2 ^ 64.
(* conversion of a mathematical integer to uint64_t (unsigned wrap-around) *)
Definition u64 (x : Z) : Z := x mod two64.

(* sanity_check_bitwidth *)
Definition valid_width (w : Z) : bool := (1 <=? w) && (w <=? 64).

(* compute_mod: _mod stays 0 for width 64, otherwise (uint64_t)1 << width (the cases 8, 16
   and 32 are the same constants) *)
Definition wmod (w : Z) : Z := if w =? 64 then 0 else u64 (Z.shiftl 1 w).

(* the reduction done by the public constructors: if (_width < 64) _n = _n % _mod *)
Definition reduce (n w : Z) : Z := if w <? 64 then n mod (wmod w) else n.

(* wrapint(uint64_t n, bitwidth_t width), n already an uint64_t; unchecked and checked *)
Definition wmk (n w : Z) : wrapint := mkW (reduce n w) w.
Definition of_u64 (n w : Z) : option wrapint :=
  if valid_width w then Some (wmk n w) else None.

(* z_number::fits_int64 *)
Definition fits_int64 (z : Z) : bool := (- 2 ^ 63 <=? z) && (z <=? 2 ^ 63 - 1).

(* wrapint(z_number n, bitwidth_t width):
   x = static_cast<int64_t>(n); _n = (width == 64 ? (uint64_t)x : (uint64_t)x % _mod) *)
Definition of_z (z w : Z) : option wrapint :=
  if valid_width w then
    if fits_int64 z then
      Some (mkW (if w =? 64 then u64 z else u64 z mod wmod w) w)
    else None
  else None.

(* q_number::round_to_upper for num/den with den > 0 (z_number / and % truncate) *)
Definition q_round_to_upper (num den : Z) : Z :=
  let q := Z.quot num den in
  let r := Z.rem num den in
  if (r =? 0) || (num <? 0) then q else q + 1.
(* wrapint(q_number n, bitwidth_t width) *)
Definition of_q (num den w : Z) : option wrapint := of_z (q_round_to_upper num den) w.

(* wrapint(std::string s, bitwidth_t width) for a string of decimal digits denoting
   n < 2^64 (what "iss >> _n" reads): same as the uint64_t constructor *)
Definition of_string_u64 (n w : Z) : option wrapint := of_u64 n w.

Definition get_bitwidth (a : wrapint) : Z := ww a.

(* static fits_wrapint(z_number n, bitwidth_t width) *)
Definition fits_wrapint (z w : Z) : bool := if 64 <? w then false else fits_int64 z.
Definition fits_wrapint_q (num den w : Z) : bool := fits_wrapint (q_round_to_upper num den) w.

(* msb: _n & ((uint64_t)1 << (_width - 1)) *)
Definition msb (a : wrapint) : bool := negb (Z.land (wn a) (Z.shiftl 1 (ww a - 1)) =? 0).

(* static members (width assumed valid; the constructor called inside checks it) *)
Definition get_signed_max (w : Z) : wrapint := wmk (Z.shiftl 1 (w - 1) - 1) w.
Definition get_signed_min (w : Z) : wrapint := wmk (Z.shiftl 1 (w - 1)) w.
Definition get_unsigned_max (w : Z) : wrapint :=
  if w =? 64 then wmk (two64 - 1) w else wmk (Z.shiftl 1 w - 1) w.
Definition get_unsigned_min (w : Z) : wrapint := wmk 0 w.

Definition get_uint64_t (a : wrapint) : Z := wn a.
(* z_number::from_uint64(_n) *)
Definition get_unsigned_bignum (a : wrapint) : Z := wn a.

Definition is_zero (a : wrapint) : bool := wn a =? 0.

(* bitwise operations: wrapint(_n op x._n, _width, _mod), no reduction *)
Definition wand (a x : wrapint) : wrapint := mkW (Z.land (wn a) (wn x)) (ww a).
Definition wor (a x : wrapint) : wrapint := mkW (Z.lor (wn a) (wn x)) (ww a).
Definition wxor (a x : wrapint) : wrapint := mkW (Z.lxor (wn a) (wn x)) (ww a).

(* get_signed_bignum: if msb, r = *this ^ unsigned_max; -(r + 1) *)
Definition get_signed_bignum (a : wrapint) : Z :=
  if msb a then
    let r := wxor a (get_unsigned_max (get_bitwidth a)) in
    - (get_unsigned_bignum r + 1)
  else get_unsigned_bignum a.

(* r = (_width == 64 ? op : op % _mod) on uint64_t *)
Definition wrap_res (w r : Z) : Z := if w =? 64 then r else r mod wmod w.

Definition wadd (a x : wrapint) : wrapint := mkW (wrap_res (ww a) (u64 (wn a + wn x))) (ww a).
Definition wmul (a x : wrapint) : wrapint := mkW (wrap_res (ww a) (u64 (wn a * wn x))) (ww a).
Definition wsub (a x : wrapint) : wrapint := mkW (wrap_res (ww a) (u64 (wn a - wn x))) (ww a).
Definition wneg (a : wrapint) : wrapint := mkW (wrap_res (ww a) (u64 (- wn a))) (ww a).

Definition weq (a x : wrapint) : bool := wn a =? wn x.
Definition wne (a x : wrapint) : bool := negb (wn a =? wn x).
Definition wlt (a x : wrapint) : bool := wn a <? wn x.
Definition wle (a x : wrapint) : bool := wn a <=? wn x.
Definition wgt (a x : wrapint) : bool := wn x <? wn a.
Definition wge (a x : wrapint) : bool := wn x <=? wn a.

(* sdiv (repaired: the overflow case signed_min / -1 returns the dividend) *)
Definition wsdiv (a x : wrapint) : option wrapint :=
  if is_zero x then None
  else if weq a (get_signed_min (ww a)) && weq x (get_unsigned_max (ww a)) then Some a
  else of_z (Z.quot (get_signed_bignum a) (get_signed_bignum x)) (get_bitwidth a).

Definition wudiv (a x : wrapint) : option wrapint :=
  if is_zero x then None
  else Some (mkW (wrap_res (ww a) (wn a / wn x)) (ww a)).

Definition wsrem (a x : wrapint) : option wrapint :=
  if is_zero x then None
  else of_z (Z.rem (get_signed_bignum a) (get_signed_bignum x)) (get_bitwidth a).

Definition wurem (a x : wrapint) : option wrapint :=
  if is_zero x then None
  else Some (mkW (wrap_res (ww a) (wn a mod wn x)) (ww a)).

(* compound assignments: _n op= x._n; if (_width < 64) _n = _n % _mod *)
Definition wadd_assign (a x : wrapint) : wrapint := mkW (reduce (u64 (wn a + wn x)) (ww a)) (ww a).
Definition wmul_assign (a x : wrapint) : wrapint := mkW (reduce (u64 (wn a * wn x)) (ww a)) (ww a).
Definition wsub_assign (a x : wrapint) : wrapint := mkW (reduce (u64 (wn a - wn x)) (ww a)) (ww a).
Definition wpreinc (a : wrapint) : wrapint := mkW (reduce (u64 (wn a + 1)) (ww a)) (ww a).
Definition wpredec (a : wrapint) : wrapint := mkW (reduce (u64 (wn a - 1)) (ww a)) (ww a).
(* post-increment / decrement: (returned value, new value of the object) *)
Definition wpostinc (a : wrapint) : wrapint * wrapint := (a, wpreinc a).
Definition wpostdec (a : wrapint) : wrapint * wrapint := (a, wpredec a).

(* shifts; amounts of 64 or more are undefined behaviour *)
Definition wshl (a x : wrapint) : option wrapint :=
  if wn x <? 64 then Some (mkW (wrap_res (ww a) (u64 (Z.shiftl (wn a) (wn x)))) (ww a)) else None.
Definition wlshr (a x : wrapint) : option wrapint :=
  if wn x <? 64 then Some (mkW (Z.shiftr (wn a) (wn x)) (ww a)) else None.
(* ashr (repaired) *)
Definition all_ones (w : Z) : Z := if w <? 64 then Z.shiftl 1 w - 1 else two64 - 1.
Definition washr (a x : wrapint) : option wrapint :=
  if wn x <? 64 then
    if negb (msb a) then Some (mkW (Z.shiftr (wn a) (wn x)) (ww a))
    else
      let only_upper_bits_ones := Z.lxor (all_ones (ww a)) (Z.shiftr (all_ones (ww a)) (wn x)) in
      Some (mkW (Z.lor only_upper_bits_ones (Z.shiftr (wn a) (wn x))) (ww a))
  else None.

(* sext (repaired: bits_to_add = 0 returns *this); bits_to_add is a mathematical integer
   here (no uint64_t wrap of _width + bits_to_add) *)
Definition wsext (a : wrapint) (bits_to_add : Z) : option wrapint :=
  let new_width := ww a + bits_to_add in
  if 64 <? new_width then None
  else if bits_to_add =? 0 then Some a
  else if msb a then
    let only_upper_bits_ones := u64 (Z.shiftl (all_ones new_width) (ww a)) in
    of_u64 (Z.lor (wn a) only_upper_bits_ones) new_width
  else of_u64 (wn a) new_width.

Definition wzext (a : wrapint) (bits_to_add : Z) : option wrapint :=
  let new_width := ww a + bits_to_add in
  if 64 <? new_width then None else of_u64 (wn a) new_width.

(* keep_lower (repaired mask) *)
Definition wkeep_lower (a : wrapint) (bits_to_keep : Z) : option wrapint :=
  if ww a <=? bits_to_keep then Some a
  else of_u64 (Z.land (wn a) (Z.shiftl 1 bits_to_keep - 1)) bits_to_keep.
