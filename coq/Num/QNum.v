(* QNum.v — specification-level model of ikos::q_number (GMP mpq_t wrapper,
   include/crab/numbers/bignums.hpp, lib/bignums.cpp).
   A q_number is a rational in canonical form (denominator > 0, gcd 1): the model is
   Coq's Q (numerator Z, denominator positive) with every result passed through Qred.
   round_to_upper / round_to_lower are mirrored as written (truncating quotient and
   remainder of numerator by denominator, then the sign test).  None = CRAB_ERROR.
   No proofs here. *)
From Coq Require Import ZArith QArith Qreduction Bool.
From CrabV Require Import Num.Bignum.
Local Open Scope Z_scope.

(* q_number(const z_number &num, const z_number &den) and q_number("num/den"):
   any non-zero denominator; the value is canonicalised (sign to the numerator) *)
Definition q_make (n d : Z) : option Q :=
  if d =? 0 then None else Some (Qred ((n * Z.sgn d) # Z.to_pos (Z.abs d))).
(* q_number(const z_number &n) *)
Definition q_of_z (n : Z) : Q := inject_Z n.
(* q_number(double): the double m * 2^e (m, e integers) is converted exactly *)
Definition q_of_m2e (m e : Z) : Q :=
  if 0 <=? e then inject_Z (m * 2 ^ e) else Qred (m # Z.to_pos (2 ^ (- e))).

Definition qadd (a b : Q) : Q := Qred (Qplus a b).
Definition qsub (a b : Q) : Q := Qred (Qminus a b).
Definition qmul (a b : Q) : Q := Qred (Qmult a b).
Definition qneg (a : Q) : Q := Qred (Qopp a).
(* if (x == 0) CRAB_ERROR("division by zero") *)
Definition qdivide (a b : Q) : option Q :=
  if Qnum b =? 0 then None else Some (Qred (Qdiv a b)).
Definition qinc (a : Q) : Q := Qred (Qplus a (inject_Z 1)).
Definition qdec (a : Q) : Q := Qred (Qminus a (inject_Z 1)).

Definition qeq (a b : Q) : bool := Qeq_bool a b.
Definition qle (a b : Q) : bool := Qle_bool a b.
Definition qlt (a b : Q) : bool := negb (Qle_bool b a).

Definition numerator (a : Q) : Z := Qnum a.
Definition denominator (a : Q) : Z := Z.pos (Qden a).

(* z_number q = num / den; z_number r = num % den;
   if (r == 0 || *this < 0) return q; else return q + 1; *)
Definition round_to_upper (a : Q) : Z :=
  let num := numerator a in let den := denominator a in
  let q := Z.quot num den in let r := Z.rem num den in
  if (r =? 0) || (num <? 0) then q else q + 1.
(* if (r == 0 || *this > 0) return q; else return q - 1; *)
Definition round_to_lower (a : Q) : Z :=
  let num := numerator a in let den := denominator a in
  let q := Z.quot num den in let r := Z.rem num den in
  if (r =? 0) || (0 <? num) then q else q - 1.

(* operator<<(q_number x): x must be an integer (else CRAB_ERROR); result this * 2^x *)
Definition qshl (a k : Q) : option Q :=
  let num := numerator k in let den := denominator k in
  if Z.rem num den =? 0 then
    let s := Z.quot num den in
    if shift_ok s then Some (Qred (Qmult a (inject_Z (2 ^ s)))) else None
  else None.
