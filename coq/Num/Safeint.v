(* Safeint.v — mirror model of crab::safe_i64 (include/crab/numbers/safeint.hpp,
   lib/safeint.cpp).  The C++ computes every operation in a 128-bit integer
   (wideint_t = __int128), stores the truncation to 64 bits in *rp and returns the
   overflow flag  lr > INT64_MAX || lr < INT64_MIN.  The public operators call
   CRAB_ERROR (exit) when the flag is set.  The model makes the 128-bit intermediate
   and the 64-bit truncation explicit; None = CRAB_ERROR / trap.  No proofs here. *)
From Coq Require Import ZArith Bool.
Local Open Scope Z_scope.

(* two's complement truncation of x to w bits, read as a signed number *)
Definition wrap (w : Z) (x : Z) : Z := (x + 2 ^ (w - 1)) mod 2 ^ w - 2 ^ (w - 1).

Definition i64_min : Z := - 2 ^ 63.     (* get_min() *)
Definition i64_max : Z := 2 ^ 63 - 1.   (* get_max() *)
Definition in_i64 (x : Z) : Prop := i64_min <= x <= i64_max.
Definition fits_i64 (x : Z) : bool := (i64_min <=? x) && (x <=? i64_max).

(* arithmetic of wideint_t: the mathematical result truncated to 128 bits *)
Definition wide (x : Z) : Z := wrap 128 x.
(* *rp = lr; return lr > get_max() || lr < get_min(); *)
Definition narrow (lr : Z) : Z * bool := (wrap 64 lr, (i64_max <? lr) || (lr <? i64_min)).

Definition checked_add (a b : Z) : Z * bool := narrow (wide (a + b)).
Definition checked_sub (a b : Z) : Z * bool := narrow (wide (a - b)).
Definition checked_mul (a b : Z) : Z * bool := narrow (wide (a * b)).
(* (wideint_t)a / (wideint_t)b traps (SIGFPE) when b = 0: None *)
Definition checked_div (a b : Z) : option (Z * bool) :=
  if b =? 0 then None else Some (narrow (wide (Z.quot a b))).

(* public operators: if (err) CRAB_ERROR(...); return safe_i64(z); *)
Definition guard (r : Z * bool) : option Z := if snd r then None else Some (fst r).
Definition safe_add (a b : Z) : option Z := guard (checked_add a b).
Definition safe_sub (a b : Z) : option Z := guard (checked_sub a b).
Definition safe_mul (a b : Z) : option Z := guard (checked_mul a b).
Definition safe_div (a b : Z) : option Z :=
  match checked_div a b with None => None | Some r => guard r end.
(* operator-() const { return safe_i64(0) - *this; } *)
Definition safe_neg (a : Z) : option Z := safe_sub 0 a.
(* safe_i64(z_number n) : m_num(static_cast<int64_t>(n)) — CRAB_ERROR unless it fits *)
Definition safe_of_z (n : Z) : option Z := if fits_i64 n then Some n else None.

Definition safe_eq (a b : Z) : bool := a =? b.
Definition safe_lt (a b : Z) : bool := a <? b.
Definition safe_le (a b : Z) : bool := a <=? b.
