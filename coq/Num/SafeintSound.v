(* SafeintSound.v — checked 64-bit arithmetic never wraps silently. *)
From Coq Require Import ZArith Bool Lia.
From CrabV Require Import Num.Safeint.
Local Open Scope Z_scope.

Lemma wrap_id w x : 0 < w -> - 2 ^ (w - 1) <= x < 2 ^ (w - 1) -> wrap w x = x.
Proof.
  intros Hw Hx. unfold wrap.
  assert (E : 2 ^ w = 2 * 2 ^ (w - 1)).
  { replace w with (1 + (w - 1)) at 1 by lia. rewrite Z.pow_add_r by lia. reflexivity. }
  rewrite Z.mod_small by lia. lia.
Qed.

Lemma wrap_range w x : 0 < w -> - 2 ^ (w - 1) <= wrap w x < 2 ^ (w - 1).
Proof.
  intros Hw. unfold wrap.
  assert (E : 2 ^ w = 2 * 2 ^ (w - 1)).
  { replace w with (1 + (w - 1)) at 1 by lia. rewrite Z.pow_add_r by lia. reflexivity. }
  assert (0 < 2 ^ (w - 1)) by (apply Z.pow_pos_nonneg; lia).
  pose proof (Z.mod_pos_bound (x + 2 ^ (w - 1)) (2 ^ w) ltac:(lia)). lia.
Qed.

Lemma wrap_congr w x : 0 < w -> exists k, wrap w x = x + k * 2 ^ w.
Proof.
  intros Hw. unfold wrap. exists (- ((x + 2 ^ (w - 1)) / 2 ^ w)).
  assert (0 < 2 ^ w) by (apply Z.pow_pos_nonneg; lia).
  pose proof (Z.div_mod (x + 2 ^ (w - 1)) (2 ^ w) ltac:(lia)). lia.
Qed.

(* the 128-bit intermediate is exact for every result the four operations can
   produce from 64-bit operands *)
Lemma wide_exact x : - 2 ^ 127 <= x < 2 ^ 127 -> wide x = x.
Proof. intros H. unfold wide. apply wrap_id; [lia|exact H]. Qed.

Lemma narrow_spec lr r :
  narrow lr = (r, false) <-> (in_i64 lr /\ r = lr).
Proof.
  unfold narrow, in_i64. split.
  - intros H. inversion H; subst; clear H. apply orb_false_elim in H2. destruct H2 as [H1 H2].
    apply Z.ltb_ge in H1, H2. split; [lia|].
    apply wrap_id; [lia|]. unfold i64_min, i64_max in *. lia.
  - intros [[H1 H2] ->]. f_equal.
    + apply wrap_id; [lia|]. unfold i64_min, i64_max in *. lia.
    + apply orb_false_intro; apply Z.ltb_ge; lia.
Qed.

Lemma narrow_flag lr : snd (narrow lr) = true <-> ~ in_i64 lr.
Proof.
  unfold narrow, in_i64. cbn [snd]. rewrite orb_true_iff, !Z.ltb_lt. lia.
Qed.

Lemma i64_bounds a : in_i64 a -> - 2 ^ 63 <= a <= 2 ^ 63 - 1.
Proof. unfold in_i64, i64_min, i64_max. auto. Qed.

Ltac i64 :=
  repeat match goal with H : in_i64 _ |- _ => apply i64_bounds in H end.

Lemma add_wide a b : in_i64 a -> in_i64 b -> wide (a + b) = a + b.
Proof. intros Ha Hb. i64. apply wide_exact. lia. Qed.
Lemma sub_wide a b : in_i64 a -> in_i64 b -> wide (a - b) = a - b.
Proof. intros Ha Hb. i64. apply wide_exact. lia. Qed.
Lemma mul_wide a b : in_i64 a -> in_i64 b -> wide (a * b) = a * b.
Proof.
  intros Ha Hb. i64. apply wide_exact.
  assert (Z.abs a <= 2 ^ 63) by lia. assert (Z.abs b <= 2 ^ 63) by lia.
  assert (Z.abs (a * b) <= 2 ^ 63 * 2 ^ 63) by (rewrite Z.abs_mul; apply Z.mul_le_mono_nonneg; lia).
  change (2 ^ 63 * 2 ^ 63) with (2 ^ 126) in *. lia.
Qed.
Lemma div_wide a b : in_i64 a -> in_i64 b -> wide (Z.quot a b) = Z.quot a b.
Proof.
  intros Ha Hb. i64. apply wide_exact.
  destruct (Z.eq_dec b 0) as [->|Hb0]; [rewrite Z.quot_0_r_ext by reflexivity; lia|].
  assert (Z.abs (Z.quot a b) <= Z.abs a).
  { rewrite <- Z.quot_abs by auto. rewrite Z.quot_div_nonneg by lia.
    rewrite <- (Z.div_1_r (Z.abs a)) at 2. apply Z.div_le_compat_l; lia. }
  lia.
Qed.

Theorem checked_add_spec a b r : in_i64 a -> in_i64 b ->
  (checked_add a b = (r, false) <-> (in_i64 (a + b) /\ r = a + b)).
Proof. intros Ha Hb. unfold checked_add. rewrite add_wide by auto. apply narrow_spec. Qed.
Theorem checked_sub_spec a b r : in_i64 a -> in_i64 b ->
  (checked_sub a b = (r, false) <-> (in_i64 (a - b) /\ r = a - b)).
Proof. intros Ha Hb. unfold checked_sub. rewrite sub_wide by auto. apply narrow_spec. Qed.
Theorem checked_mul_spec a b r : in_i64 a -> in_i64 b ->
  (checked_mul a b = (r, false) <-> (in_i64 (a * b) /\ r = a * b)).
Proof. intros Ha Hb. unfold checked_mul. rewrite mul_wide by auto. apply narrow_spec. Qed.
Theorem checked_div_spec a b r : in_i64 a -> in_i64 b -> b <> 0 ->
  (checked_div a b = Some (r, false) <-> (in_i64 (Z.quot a b) /\ r = Z.quot a b)).
Proof.
  intros Ha Hb Hb0. unfold checked_div.
  replace (b =? 0) with false by (symmetry; apply Z.eqb_neq; auto).
  rewrite div_wide by auto. rewrite <- narrow_spec. split; [intros H; inversion H; auto | intros ->; auto].
Qed.

Theorem checked_add_flag a b : in_i64 a -> in_i64 b ->
  (snd (checked_add a b) = true <-> ~ in_i64 (a + b)).
Proof. intros Ha Hb. unfold checked_add. rewrite add_wide by auto. apply narrow_flag. Qed.
Theorem checked_sub_flag a b : in_i64 a -> in_i64 b ->
  (snd (checked_sub a b) = true <-> ~ in_i64 (a - b)).
Proof. intros Ha Hb. unfold checked_sub. rewrite sub_wide by auto. apply narrow_flag. Qed.
Theorem checked_mul_flag a b : in_i64 a -> in_i64 b ->
  (snd (checked_mul a b) = true <-> ~ in_i64 (a * b)).
Proof. intros Ha Hb. unfold checked_mul. rewrite mul_wide by auto. apply narrow_flag. Qed.
Theorem checked_div_flag a b : in_i64 a -> in_i64 b -> b <> 0 ->
  exists rf, checked_div a b = Some rf /\ (snd rf = true <-> ~ in_i64 (Z.quot a b)).
Proof.
  intros Ha Hb Hb0. unfold checked_div.
  replace (b =? 0) with false by (symmetry; apply Z.eqb_neq; auto).
  eexists; split; [reflexivity|]. rewrite div_wide by auto. apply narrow_flag.
Qed.

(* the only overflowing quotient is INT64_MIN / -1 *)
Theorem div_overflow_iff a b : in_i64 a -> in_i64 b -> b <> 0 ->
  (~ in_i64 (Z.quot a b) <-> (a = - 2 ^ 63 /\ b = -1)).
Proof.
  intros Ha Hb Hb0. split.
  - intros H. destruct (Z.eq_dec b (-1)) as [->|Hb1].
    + split; auto. i64. unfold in_i64, i64_min, i64_max in H.
      rewrite <- (Z.opp_involutive (Z.quot a (-1))) in H. rewrite <- Z.quot_opp_r in H by lia.
      cbn [Z.opp] in H. rewrite Z.quot_1_r in H. lia.
    + exfalso. apply H. clear H. i64. unfold in_i64, i64_min, i64_max.
      destruct (Z.eq_dec b 1) as [->|Hb2]; [rewrite Z.quot_1_r; lia|].
      assert (Z.abs (Z.quot a b) <= Z.abs a / 2).
      { rewrite <- Z.quot_abs by auto. rewrite Z.quot_div_nonneg by lia.
        apply Z.div_le_compat_l; lia. }
      assert (Z.abs a / 2 <= 2 ^ 62).
      { change (2 ^ 62) with (2 ^ 63 / 2). apply Z.div_le_mono; lia. }
      lia.
  - intros [-> ->] H. unfold in_i64, i64_min, i64_max in H. vm_compute in H. destruct H as [_ H]. apply H. reflexivity.
Qed.

(* the public operators: a value is returned only if it is the mathematical result and
   fits; every other case is a loud failure (None = CRAB_ERROR) *)
Lemma guard_some rf r : guard rf = Some r <-> rf = (r, false).
Proof. unfold guard. destruct rf as [x [|]]; cbn; split; intros H; inversion H; auto. Qed.
Lemma guard_none rf : guard rf = None <-> snd rf = true.
Proof. unfold guard. destruct rf as [x [|]]; cbn; split; intros H; auto; discriminate. Qed.

Theorem safe_add_spec a b : in_i64 a -> in_i64 b ->
  (forall r, safe_add a b = Some r <-> (in_i64 (a + b) /\ r = a + b)) /\
  (safe_add a b = None <-> ~ in_i64 (a + b)).
Proof.
  intros Ha Hb. unfold safe_add. split; [intros r; rewrite guard_some; apply checked_add_spec; auto|].
  rewrite guard_none. apply checked_add_flag; auto.
Qed.
Theorem safe_sub_spec a b : in_i64 a -> in_i64 b ->
  (forall r, safe_sub a b = Some r <-> (in_i64 (a - b) /\ r = a - b)) /\
  (safe_sub a b = None <-> ~ in_i64 (a - b)).
Proof.
  intros Ha Hb. unfold safe_sub. split; [intros r; rewrite guard_some; apply checked_sub_spec; auto|].
  rewrite guard_none. apply checked_sub_flag; auto.
Qed.
Theorem safe_mul_spec a b : in_i64 a -> in_i64 b ->
  (forall r, safe_mul a b = Some r <-> (in_i64 (a * b) /\ r = a * b)) /\
  (safe_mul a b = None <-> ~ in_i64 (a * b)).
Proof.
  intros Ha Hb. unfold safe_mul. split; [intros r; rewrite guard_some; apply checked_mul_spec; auto|].
  rewrite guard_none. apply checked_mul_flag; auto.
Qed.
Theorem safe_div_spec a b : in_i64 a -> in_i64 b -> b <> 0 ->
  (forall r, safe_div a b = Some r <-> (in_i64 (Z.quot a b) /\ r = Z.quot a b)) /\
  (safe_div a b = None <-> ~ in_i64 (Z.quot a b)).
Proof.
  intros Ha Hb Hb0. unfold safe_div.
  destruct (checked_div_flag a b Ha Hb Hb0) as (rf & E & Hf). rewrite E. split.
  - intros r. rewrite guard_some. rewrite <- checked_div_spec by auto. rewrite E.
    split; [intros ->; auto | intros H; inversion H; auto].
  - rewrite guard_none. exact Hf.
Qed.
Theorem safe_neg_spec a : in_i64 a ->
  (forall r, safe_neg a = Some r <-> (in_i64 (- a) /\ r = - a)) /\
  (safe_neg a = None <-> a = - 2 ^ 63).
Proof.
  intros Ha. unfold safe_neg.
  assert (H0 : in_i64 0) by (unfold in_i64, i64_min, i64_max; lia).
  destruct (safe_sub_spec 0 a H0 Ha) as [H1 H2]. split.
  - intros r. rewrite H1. replace (0 - a) with (- a) by lia. tauto.
  - rewrite H2. i64. unfold in_i64, i64_min, i64_max. lia.
Qed.
Theorem safe_of_z_spec n : (forall r, safe_of_z n = Some r <-> (in_i64 n /\ r = n)) /\
                           (safe_of_z n = None <-> ~ in_i64 n).
Proof.
  unfold safe_of_z, fits_i64, in_i64.
  destruct (i64_min <=? n) eqn:E1, (n <=? i64_max) eqn:E2; cbn [andb];
    try apply Z.leb_le in E1; try apply Z.leb_le in E2; try apply Z.leb_gt in E1; try apply Z.leb_gt in E2;
    (split; [intros r; split; [intros H; inversion H; subst; lia | intros [H ->]; try lia; auto]
            | split; [try discriminate; lia | intros H; try lia; auto]]).
Qed.

(* results of the safe operators are always representable *)
Corollary safe_results_fit a b r : in_i64 a -> in_i64 b ->
  (safe_add a b = Some r \/ safe_sub a b = Some r \/ safe_mul a b = Some r \/
   (b <> 0 /\ safe_div a b = Some r)) -> in_i64 r.
Proof.
  intros Ha Hb [H|[H|[H|[Hb0 H]]]].
  - apply (proj1 (safe_add_spec a b Ha Hb)) in H. destruct H as [H ->]; auto.
  - apply (proj1 (safe_sub_spec a b Ha Hb)) in H. destruct H as [H ->]; auto.
  - apply (proj1 (safe_mul_spec a b Ha Hb)) in H. destruct H as [H ->]; auto.
  - apply (proj1 (safe_div_spec a b Ha Hb Hb0)) in H. destruct H as [H ->]; auto.
Qed.

Example safe_mul_overflows : safe_mul (2 ^ 32) (2 ^ 31) = None /\ safe_mul (2 ^ 31) (2 ^ 31) = Some (2 ^ 62)
                             /\ safe_div (- 2 ^ 63) (-1) = None /\ safe_add (2 ^ 63 - 1) 1 = None.
Proof. vm_compute. auto. Qed.
