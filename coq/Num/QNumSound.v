(* QNumSound.v — q_number model: results are canonical and equal to the mathematical
   value; round_to_lower / round_to_upper are floor and ceiling. *)
From Coq Require Import ZArith QArith Qreduction Qround Bool Lia.
From CrabV Require Import Num.Bignum Num.QNum.
Local Open Scope Z_scope.

Definition canonical (q : Q) : Prop := Z.gcd (Qnum q) (Z.pos (Qden q)) = 1.

Lemma Qred_canonical q : canonical (Qred q).
Proof.
  destruct q as [a b]. unfold canonical, Qred.
  pose proof (Z.ggcd_gcd a (Z.pos b)) as Hg.
  pose proof (Z.ggcd_correct_divisors a (Z.pos b)) as Hd.
  destruct (Z.ggcd a (Z.pos b)) as (g, (aa, bb)). cbn [fst] in Hg. destruct Hd as [Ha Hb].
  cbn [snd Qnum Qden].
  assert (Hg0 : 0 <= g) by (rewrite Hg; apply Z.gcd_nonneg).
  assert (Hg1 : g <> 0) by (intro E0; rewrite E0 in Hb; cbn in Hb; discriminate Hb).
  assert (Hbb : 0 < bb) by nia.
  rewrite Z2Pos.id by auto.
  assert (E : g = g * Z.gcd aa bb).
  { rewrite Hg at 1. rewrite Ha, Hb at 1. rewrite Z.gcd_mul_mono_l. rewrite Z.abs_eq by lia. reflexivity. }
  assert (0 <= Z.gcd aa bb) by apply Z.gcd_nonneg. nia.
Qed.

Lemma Qred_of_canonical q : canonical q -> Qred q = q.
Proof.
  destruct q as [a b]. unfold canonical, Qred. cbn [Qnum Qden]. intros Hc.
  pose proof (Z.ggcd_gcd a (Z.pos b)) as Hg.
  pose proof (Z.ggcd_correct_divisors a (Z.pos b)) as Hd.
  destruct (Z.ggcd a (Z.pos b)) as (g, (aa, bb)). cbn [fst] in Hg. destruct Hd as [Ha Hb].
  cbn [snd]. rewrite Hc in Hg. rewrite Hg in Ha, Hb. rewrite Z.mul_1_l in Ha, Hb. rewrite <- Ha, <- Hb.
  reflexivity.
Qed.

(* the representation is determined by the value *)
Theorem canonical_unique p q : canonical p -> canonical q -> p == q -> p = q.
Proof.
  intros Hp Hq E. rewrite <- (Qred_of_canonical p Hp), <- (Qred_of_canonical q Hq).
  apply Qred_complete. exact E.
Qed.

Lemma inject_Z_canonical n : canonical (inject_Z n).
Proof. unfold canonical, inject_Z. cbn [Qnum Qden]. apply Z.gcd_1_r. Qed.

Theorem q_make_spec n d :
  (d = 0 -> q_make n d = None) /\
  (d <> 0 -> exists q, q_make n d = Some q /\ canonical q /\ (q * inject_Z d == inject_Z n)%Q).
Proof.
  unfold q_make. split.
  - intros ->. reflexivity.
  - intros Hd. replace (d =? 0) with false by (symmetry; apply Z.eqb_neq; auto).
    eexists; split; [reflexivity|]. split; [apply Qred_canonical|].
    rewrite Qred_correct. unfold Qeq, Qmult, inject_Z. cbn [Qnum Qden].
    rewrite Pos.mul_1_r, Z.mul_1_r. rewrite Z2Pos.id by lia.
    pose proof (Z.abs_sgn d). nia.
Qed.

Theorem qadd_spec a b : canonical (qadd a b) /\ (qadd a b == a + b)%Q.
Proof. unfold qadd. split; [apply Qred_canonical | apply Qred_correct]. Qed.
Theorem qsub_spec a b : canonical (qsub a b) /\ (qsub a b == a - b)%Q.
Proof. unfold qsub. split; [apply Qred_canonical | apply Qred_correct]. Qed.
Theorem qmul_spec a b : canonical (qmul a b) /\ (qmul a b == a * b)%Q.
Proof. unfold qmul. split; [apply Qred_canonical | apply Qred_correct]. Qed.
Theorem qneg_spec a : canonical (qneg a) /\ (qneg a == - a)%Q.
Proof. unfold qneg. split; [apply Qred_canonical | apply Qred_correct]. Qed.
Theorem qdiv_spec a b :
  (b == 0 -> qdivide a b = None) /\
  (~ b == 0 -> exists q, qdivide a b = Some q /\ canonical q /\ (q * b == a)%Q).
Proof.
  unfold qdivide. assert (Hz : b == 0 <-> Qnum b = 0).
  { unfold Qeq. cbn. rewrite Z.mul_1_r. tauto. }
  split.
  - intros H. apply Hz in H. rewrite H. reflexivity.
  - intros H. replace (Qnum b =? 0) with false by (symmetry; apply Z.eqb_neq; tauto).
    eexists; split; [reflexivity|]. split; [apply Qred_canonical|].
    rewrite Qred_correct. rewrite Qmult_comm. apply Qmult_div_r. exact H.
Qed.
Theorem qinc_qdec_spec a : (qinc a == a + 1)%Q /\ (qdec a == a - 1)%Q /\ canonical (qinc a) /\ canonical (qdec a).
Proof. unfold qinc, qdec. repeat split; try apply Qred_correct; apply Qred_canonical. Qed.

Theorem qcmp_spec a b : (qeq a b = true <-> a == b) /\ (qle a b = true <-> (a <= b)%Q) /\
                        (qlt a b = true <-> (a < b)%Q).
Proof.
  unfold qeq, qle, qlt. split; [apply Qeq_bool_iff|]. split; [apply Qle_bool_iff|].
  rewrite negb_true_iff. split.
  - intros H. apply Qnot_le_lt. intro Hle. apply Qle_bool_iff in Hle. congruence.
  - intros H. destruct (Qle_bool b a) eqn:E; auto. apply Qle_bool_iff in E.
    exfalso. apply (Qlt_not_le _ _ H E).
Qed.

(* ---- rounding ---- *)
Lemma mult_small D x y : 0 < D -> D * x = y -> - D < y < D -> x = 0.
Proof. intros. nia. Qed.
Lemma mult_one D x y : 0 < D -> D * x = y -> 0 < y < 2 * D -> x = 1.
Proof. intros. nia. Qed.

Lemma sgn_pos r n : 0 <= r * n -> 0 < n -> 0 <= r.
Proof. intros H Hn. destruct (Z_lt_le_dec r 0); auto. pose proof (Z.mul_neg_pos r n ltac:(lia) Hn). lia. Qed.
Lemma sgn_neg r n : 0 <= r * n -> n < 0 -> r <= 0.
Proof. intros H Hn. destruct (Z_lt_le_dec 0 r); auto. pose proof (Z.mul_pos_neg r n ltac:(lia) Hn). lia. Qed.

Lemma round_to_lower_floor a : round_to_lower a = Qfloor a.
Proof.
  destruct a as [n d]. unfold round_to_lower, numerator, denominator, Qfloor. cbn [Qnum Qden].
  set (D := Z.pos d). assert (HD : 0 < D) by (unfold D; lia).
  pose proof (Z.quot_rem' n D) as E1.
  pose proof (Z.rem_bound_abs n D ltac:(lia)) as B1.
  pose proof (Z.rem_sign_mul n D ltac:(lia)) as S1.
  pose proof (Z.div_mod n D ltac:(lia)) as E2.
  pose proof (Z.mod_pos_bound n D HD) as B2.
  set (q2 := Z.quot n D) in *. set (r := Z.rem n D) in *.
  set (q1 := n / D) in *. set (m := n mod D) in *.
  assert (Hx : D * (q2 - q1) = m - r) by lia.
  destruct (r =? 0) eqn:Er; cbn [orb].
  - apply Z.eqb_eq in Er. pose proof (mult_small D _ _ HD Hx ltac:(lia)). lia.
  - apply Z.eqb_neq in Er. destruct (0 <? n) eqn:En.
    + apply Z.ltb_lt in En. pose proof (sgn_pos r n S1 En).
      pose proof (mult_small D _ _ HD Hx ltac:(lia)). lia.
    + apply Z.ltb_ge in En. assert (r < 0).
      { destruct (Z.eq_dec n 0) as [E0|E0]; [unfold r in Er; rewrite E0, Z.rem_0_l in Er by lia; lia|].
        pose proof (sgn_neg r n S1 ltac:(lia)). lia. }
      pose proof (mult_one D _ _ HD Hx ltac:(lia)). lia.
Qed.

Lemma round_to_upper_ceiling a : round_to_upper a = Qceiling a.
Proof.
  destruct a as [n d]. unfold round_to_upper, numerator, denominator, Qceiling, Qfloor, Qopp.
  cbn [Qnum Qden].
  set (D := Z.pos d). assert (HD : 0 < D) by (unfold D; lia).
  pose proof (Z.quot_rem' n D) as E1.
  pose proof (Z.rem_bound_abs n D ltac:(lia)) as B1.
  pose proof (Z.rem_sign_mul n D ltac:(lia)) as S1.
  pose proof (Z.div_mod (- n) D ltac:(lia)) as E2.
  pose proof (Z.mod_pos_bound (- n) D HD) as B2.
  set (q2 := Z.quot n D) in *. set (r := Z.rem n D) in *.
  set (q1 := (- n) / D) in *. set (m := (- n) mod D) in *.
  (* n = D*q2 + r and -n = D*q1 + m, so D*(q2 + q1) = -(m + r) *)
  assert (Hx : D * (- (q2 + q1)) = m + r) by lia.
  destruct (r =? 0) eqn:Er; cbn [orb].
  - apply Z.eqb_eq in Er. pose proof (mult_small D _ _ HD Hx ltac:(lia)). lia.
  - apply Z.eqb_neq in Er. destruct (n <? 0) eqn:En.
    + apply Z.ltb_lt in En. pose proof (sgn_neg r n S1 En).
      pose proof (mult_small D _ _ HD Hx ltac:(lia)). lia.
    + apply Z.ltb_ge in En. assert (0 < r).
      { destruct (Z.eq_dec n 0) as [E0|E0]; [unfold r in Er; rewrite E0, Z.rem_0_l in Er by lia; lia|].
        pose proof (sgn_pos r n S1 ltac:(lia)). lia. }
      pose proof (mult_one D _ _ HD Hx ltac:(lia)). lia.
Qed.

(* round_to_lower is the floor: the unique integer r with r <= q < r + 1 *)
Theorem round_to_lower_spec a :
  (inject_Z (round_to_lower a) <= a)%Q /\ (a < inject_Z (round_to_lower a + 1))%Q.
Proof. rewrite round_to_lower_floor. split; [apply Qfloor_le | apply Qlt_floor]. Qed.
(* round_to_upper is the ceiling: r - 1 < q <= r *)
Theorem round_to_upper_spec a :
  (inject_Z (round_to_upper a - 1) < a)%Q /\ (a <= inject_Z (round_to_upper a))%Q.
Proof. rewrite round_to_upper_ceiling. split; [apply Qceiling_lt | apply Qle_ceiling]. Qed.

Lemma inject_Z_lt_inv x y : (inject_Z x < inject_Z y)%Q -> x < y.
Proof. unfold Qlt, inject_Z. cbn. lia. Qed.

Theorem floor_unique a r : (inject_Z r <= a)%Q -> (a < inject_Z (r + 1))%Q -> r = round_to_lower a.
Proof.
  intros H1 H2. destruct (round_to_lower_spec a) as [H3 H4].
  assert (r < round_to_lower a + 1) by (apply inject_Z_lt_inv; eapply Qle_lt_trans; eauto).
  assert (round_to_lower a < r + 1) by (apply inject_Z_lt_inv; eapply Qle_lt_trans; eauto).
  lia.
Qed.
Theorem ceiling_unique a r : (inject_Z (r - 1) < a)%Q -> (a <= inject_Z r)%Q -> r = round_to_upper a.
Proof.
  intros H1 H2. destruct (round_to_upper_spec a) as [H3 H4].
  assert (r - 1 < round_to_upper a) by (apply inject_Z_lt_inv; eapply Qlt_le_trans; eauto).
  assert (round_to_upper a - 1 < r) by (apply inject_Z_lt_inv; eapply Qlt_le_trans; eauto).
  lia.
Qed.

Theorem round_of_integer n : round_to_lower (q_of_z n) = n /\ round_to_upper (q_of_z n) = n.
Proof.
  unfold q_of_z. rewrite round_to_lower_floor, round_to_upper_ceiling.
  split; [apply Qfloor_Z | apply Qceiling_Z].
Qed.

Theorem qshl_spec a k q : qshl a k = Some q ->
  exists s, 0 <= s /\ k == inject_Z s /\ canonical q /\ (q == a * inject_Z (2 ^ s))%Q.
Proof.
  unfold qshl. set (s := Z.quot (numerator k) (denominator k)).
  destruct (Z.rem _ _ =? 0) eqn:Er; [|discriminate].
  destruct (shift_ok s) eqn:Es; [|discriminate]. intros H.
  assert (Hq : q = Qred (a * inject_Z (2 ^ s))) by congruence. clear H.
  exists s. split.
  - unfold shift_ok in Es. apply andb_prop in Es. destruct Es as [E _]. apply Z.leb_le in E. auto.
  - split; [|rewrite Hq; split; [apply Qred_canonical | apply Qred_correct]].
    apply Z.eqb_eq in Er. pose proof (Z.quot_rem' (numerator k) (denominator k)).
    unfold numerator, denominator in *. unfold Qeq, inject_Z. cbn [Qnum Qden]. fold s in H. lia.
Qed.

Theorem q_of_m2e_spec m e :
  canonical (q_of_m2e m e) /\
  (0 <= e -> q_of_m2e m e == inject_Z (m * 2 ^ e)) /\
  (e < 0 -> (q_of_m2e m e * inject_Z (2 ^ (- e)) == inject_Z m)%Q).
Proof.
  unfold q_of_m2e. destruct (0 <=? e) eqn:E.
  - apply Z.leb_le in E. split; [apply inject_Z_canonical|]. split; [reflexivity | lia].
  - apply Z.leb_gt in E. split; [apply Qred_canonical|]. split; [lia|]. intros _.
    rewrite Qred_correct. unfold Qeq, Qmult, inject_Z. cbn [Qnum Qden].
    assert (0 < 2 ^ (- e)) by (apply Z.pow_pos_nonneg; lia).
    rewrite Pos.mul_1_r, Z2Pos.id by auto. lia.
Qed.

Example rounding_negative :
  round_to_lower (-7 # 2) = -4 /\ round_to_upper (-7 # 2) = -3 /\
  round_to_lower (7 # 2) = 3 /\ round_to_upper (7 # 2) = 4 /\
  q_make 1 (-2) = Some (-1 # 2) /\ q_make 6 (-4) = Some (-3 # 2).
Proof. vm_compute. auto 10. Qed.
