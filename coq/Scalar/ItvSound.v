(* ItvSound.v — soundness of every operator of the interval model (Itv.v) with respect
   to mathematical integers; well-formedness preservation. *)
From Coq Require Import ZArith Lia Bool List.
From CrabV Require Import Base.ZInf Scalar.Itv.
Local Open Scope Z_scope.

Definition gamma (i : itv) (x : Z) : Prop :=
  ble (lb i) (Fin x) = true /\ ble (Fin x) (ub i) = true.

(* Representation invariant of values built through the public API. *)
Definition wf (i : itv) : Prop :=
  i = ibot \/ (lb i <> PInf /\ ub i <> MInf /\ ble (lb i) (ub i) = true).

Lemma gamma_bot x : ~ gamma ibot x.
Proof. unfold gamma, ibot; simpl. intros [H1 H2]. bsimp. lia. Qed.

Lemma gamma_top x : gamma itop x.
Proof. unfold gamma, itop; simpl; auto. Qed.

Lemma gamma_not_bot i x : gamma i x -> is_bot i = false.
Proof.
  unfold gamma, is_bot, bgt. intros [H1 H2].
  rewrite (ble_trans _ _ _ H1 H2). reflexivity.
Qed.

Lemma is_bot_gamma_empty i x : is_bot i = true -> ~ gamma i x.
Proof. intros H G. apply gamma_not_bot in G. congruence. Qed.

Lemma gamma_imk l u x :
  gamma (imk l u) x <-> (ble l (Fin x) = true /\ ble (Fin x) u = true).
Proof.
  unfold imk, bgt. destruct (ble l u) eqn:E; simpl.
  - unfold gamma; simpl; tauto.
  - split.
    + intros G. elim (gamma_bot _ G).
    + intros [H1 H2]. rewrite (ble_trans _ _ _ H1 H2) in E. discriminate.
Qed.

Lemma gamma_imk_elim l u x :
  gamma (imk l u) x -> (ble l (Fin x) = true /\ ble (Fin x) u = true).
Proof. apply gamma_imk. Qed.

Lemma gamma_iconst n x : gamma (iconst n) x <-> x = n.
Proof. unfold gamma, iconst; simpl. rewrite !Z.leb_le. lia. Qed.

Lemma wf_bot : wf ibot. Proof. left; auto. Qed.
Lemma wf_top : wf itop. Proof. right; simpl; repeat split; congruence. Qed.
Lemma wf_iconst n : wf (iconst n).
Proof. right; simpl; repeat split; try congruence. apply Z.leb_refl. Qed.

Lemma wf_imk l u : l <> PInf -> u <> MInf -> wf (imk l u).
Proof.
  intros. unfold imk, bgt. destruct (ble l u) eqn:E; simpl.
  - right; simpl; auto.
  - left; auto.
Qed.

Lemma wf_nonbot i : wf i -> is_bot i = false ->
  lb i <> PInf /\ ub i <> MInf /\ ble (lb i) (ub i) = true.
Proof.
  intros [->|H] Hb; auto. unfold is_bot, ibot, bgt in Hb; simpl in Hb. discriminate.
Qed.

Lemma is_bot_false_ble i : is_bot i = false -> ble (lb i) (ub i) = true.
Proof. unfold is_bot, bgt. destruct (ble (lb i) (ub i)); simpl; congruence. Qed.

(* a non-bottom well-formed interval is inhabited *)
Lemma wf_inhabited i : wf i -> is_bot i = false -> exists x, gamma i x.
Proof.
  intros W B. destruct (wf_nonbot _ W B) as (H1 & H2 & H3).
  unfold gamma. destruct (lb i) as [| l |] eqn:EL, (ub i) as [| u |] eqn:EU;
    try congruence; simpl in *; try discriminate.
  - exists u. simpl. rewrite Z.leb_refl; auto.
  - exists 0. auto.
  - exists l. rewrite H3, Z.leb_refl; auto.
  - exists l. rewrite Z.leb_refl; auto.
Qed.

(* ---------------- lattice operations ---------------- *)

Ltac botcases :=
  repeat match goal with
  | |- context [is_bot ?a] => let E := fresh "EB" in destruct (is_bot a) eqn:E; simpl
  end.

Lemma ileq_sound a b : ileq a b = true -> forall x, gamma a x -> gamma b x.
Proof.
  unfold ileq. intros H x G. rewrite (gamma_not_bot _ _ G) in H.
  destruct (is_bot b); try discriminate.
  apply andb_true_iff in H. destruct H as [H1 H2]. destruct G as [G1 G2].
  split; eauto using ble_trans.
Qed.

Lemma ileq_complete a b : wf a -> (forall x, gamma a x -> gamma b x) -> ileq a b = true.
Proof.
  intros W H. unfold ileq. destruct (is_bot a) eqn:EA; auto.
  destruct (wf_inhabited _ W EA) as [x0 G0].
  rewrite (gamma_not_bot _ _ (H _ G0)).
  destruct (wf_nonbot _ W EA) as (H1 & H2 & H3).
  apply andb_true_iff. split.
  - destruct (lb a) as [| l |] eqn:EL; try congruence.
    + (* lb a = -oo : b's lower bound must be -oo *)
      destruct (lb b) as [| lb' |] eqn:ELB; auto.
      * exfalso. destruct (H x0 G0) as [G1 _]. rewrite ELB in G1.
        assert (G : gamma a (Z.min x0 lb' - 1)).
        { unfold gamma. rewrite EL. split; auto. destruct G0 as [_ G0].
          eapply ble_trans; [|exact G0]. simpl. apply Z.leb_le. lia. }
        destruct (H _ G) as [G2 _]. rewrite ELB in G2. simpl in G2. bsimp. lia.
      * exfalso. destruct (H x0 G0) as [G1 _]. rewrite ELB in G1. simpl in G1. discriminate.
    + assert (G : gamma a l).
      { unfold gamma. rewrite EL. split. apply ble_refl. exact H3. }
      destruct (H _ G) as [G1 _]. exact G1.
  - destruct (ub a) as [| u |] eqn:EU; try congruence.
    + assert (G : gamma a u).
      { unfold gamma. rewrite EU. split. exact H3. apply ble_refl. }
      destruct (H _ G) as [_ G2]. exact G2.
    + destruct (ub b) as [| ub' |] eqn:EUB; auto.
      * exfalso. destruct (H x0 G0) as [_ G1]. rewrite EUB in G1. simpl in G1. discriminate.
      * exfalso.
        assert (G : gamma a (Z.max x0 ub' + 1)).
        { unfold gamma. rewrite EU. split; auto. destruct G0 as [G0 _].
          eapply ble_trans; [exact G0|]. simpl. apply Z.leb_le. lia. }
        destruct (H _ G) as [_ G2]. rewrite EUB in G2. simpl in G2. bsimp. lia.
Qed.

Lemma ileq_refl a : ileq a a = true.
Proof. unfold ileq. destruct (is_bot a); auto. rewrite !ble_refl. auto. Qed.

Lemma ileq_bot_l a : ileq ibot a = true.
Proof. reflexivity. Qed.

Lemma ileq_top_r a : wf a -> ileq a itop = true.
Proof. intros. apply ileq_complete; auto. intros; apply gamma_top. Qed.

Lemma ijoin_sound_l a b x : gamma a x -> gamma (ijoin a b) x.
Proof.
  intros G. unfold ijoin. rewrite (gamma_not_bot _ _ G).
  destruct (is_bot b); auto. apply gamma_imk. destruct G as [G1 G2]. split.
  - eapply ble_trans; [apply bmin_le_l|]; eauto.
  - eapply ble_trans; [|apply bmax_ge_l]; eauto.
Qed.

Lemma ijoin_sound_r a b x : gamma b x -> gamma (ijoin a b) x.
Proof.
  intros G. unfold ijoin. destruct (is_bot a); auto. rewrite (gamma_not_bot _ _ G).
  apply gamma_imk. destruct G as [G1 G2]. split.
  - eapply ble_trans; [apply bmin_le_r|]; eauto.
  - eapply ble_trans; [|apply bmax_ge_r]; eauto.
Qed.

Lemma imeet_exact a b x : gamma (imeet a b) x <-> (gamma a x /\ gamma b x).
Proof.
  unfold imeet. split.
  - destruct (is_bot a || is_bot b) eqn:E.
    + intros G; elim (gamma_bot _ G).
    + intros G. apply gamma_imk_elim in G. destruct G as [G1 G2]. unfold gamma. repeat split.
      * eapply ble_trans; [apply bmax_ge_l|]; eauto.
      * eapply ble_trans; [|apply bmin_le_l]; eauto.
      * eapply ble_trans; [apply bmax_ge_r|]; eauto.
      * eapply ble_trans; [|apply bmin_le_r]; eauto.
  - intros [Ga Gb]. rewrite (gamma_not_bot _ _ Ga), (gamma_not_bot _ _ Gb). simpl.
    apply gamma_imk. destruct Ga, Gb. split.
    + apply bmax_lub; auto.
    + apply bmin_glb; auto.
Qed.

Lemma iwiden_thr_sound gp gn a b :
  (forall v, ble (gp v) v = true) -> (forall v, ble v (gn v) = true) ->
  forall x, gamma a x \/ gamma b x -> gamma (iwiden_thr gp gn a b) x.
Proof.
  intros Hp Hn x G. unfold iwiden_thr.
  destruct (is_bot a) eqn:EA.
  { destruct G as [G|G]; auto. apply gamma_not_bot in G. congruence. }
  destruct (is_bot b) eqn:EB.
  { destruct G as [G|G]; auto. apply gamma_not_bot in G. congruence. }
  apply gamma_imk. unfold blt, bge. split.
  - destruct (ble (lb a) (lb b)) eqn:E; cbn [negb].
    + destruct G as [[G _]|[G _]]; auto. eapply ble_trans; eauto.
    + destruct G as [[G _]|[G _]]; eapply ble_trans; try apply Hp; auto.
      eapply ble_trans; [|exact G]. apply ble_false_flip; auto.
  - destruct (ble (ub b) (ub a)) eqn:E; cbn [negb].
    + destruct G as [[_ G]|[_ G]]; auto. eapply ble_trans; eauto.
    + destruct G as [[_ G]|[_ G]]; (eapply ble_trans; [|apply Hn]); auto.
      eapply ble_trans; [exact G|]. apply ble_false_flip; auto.
Qed.

Lemma iwiden_sound a b x : gamma a x \/ gamma b x -> gamma (iwiden a b) x.
Proof.
  intros G.
  assert (E : iwiden a b = iwiden_thr (fun _ => MInf) (fun _ => PInf) a b) by reflexivity.
  rewrite E. apply iwiden_thr_sound; auto. intros v; destruct v; auto.
Qed.

(* narrowing: if b <= a then gamma b ⊆ gamma (a && b); in fact for all operands the
   result contains the intersection, and it contains gamma b whenever b ⊆ a. *)
Lemma inarrow_sound a b x : gamma a x -> gamma b x -> gamma (inarrow a b) x.
Proof.
  intros Ga Gb. unfold inarrow.
  rewrite (gamma_not_bot _ _ Ga), (gamma_not_bot _ _ Gb). simpl.
  apply gamma_imk. destruct Ga as [A1 A2], Gb as [B1 B2]. split.
  - destruct (negb (b_is_finite (lb a)) && b_is_finite (lb b)); auto.
  - destruct (negb (b_is_finite (ub a)) && b_is_finite (ub b)); auto.
Qed.

Lemma inarrow_decreasing_pair a b :
  ileq b a = true -> forall x, gamma b x -> gamma (inarrow a b) x.
Proof. intros H x G. apply inarrow_sound; auto. eapply ileq_sound; eauto. Qed.

(* ---------------- queries ---------------- *)

Lemma imem_spec a n : imem a n = true <-> gamma a n.
Proof.
  unfold imem, gamma. destruct (is_bot a) eqn:E.
  - split; try discriminate. intros G. apply (gamma_not_bot a n) in G. congruence.
  - rewrite andb_true_iff. tauto.
Qed.

Lemma isingleton_spec a n : isingleton a = Some n -> forall x, gamma a x <-> x = n.
Proof.
  unfold isingleton. destruct (negb (is_bot a) && beqb (lb a) (ub a)) eqn:E; try discriminate.
  apply andb_true_iff in E. destruct E as [_ E]. apply beqb_eq in E.
  destruct (lb a) eqn:EL; try discriminate. intros H; inversion H; subst.
  intros x. unfold gamma. rewrite <- E, EL. simpl. rewrite !Z.leb_le. lia.
Qed.

Lemma isingleton_gamma a n : isingleton a = Some n -> gamma a n.
Proof. intros H. apply (isingleton_spec _ _ H). auto. Qed.

Lemma ieq_sound a b : ieq a b = true -> forall x, gamma a x <-> gamma b x.
Proof.
  unfold ieq. destruct (is_bot a) eqn:EA.
  - intros EB x. split; intros G; apply gamma_not_bot in G; congruence.
  - intros H x. apply andb_true_iff in H. destruct H as [H1 H2].
    apply beqb_eq in H1, H2. unfold gamma. rewrite H1, H2. tauto.
Qed.

Lemma ilower_half_sound a x y : gamma a x -> y <= x -> gamma (ilower_half a) y.
Proof.
  intros [G1 G2] H. apply gamma_imk. split; auto.
  eapply ble_trans; [|exact G2]. simpl. apply Z.leb_le; auto.
Qed.

Lemma iupper_half_sound a x y : gamma a x -> x <= y -> gamma (iupper_half a) y.
Proof.
  intros [G1 G2] H. apply gamma_imk. split.
  - eapply ble_trans; [exact G1|]. simpl. apply Z.leb_le; auto.
  - destruct (Fin y); auto.
Qed.

Lemma itrim_sound i j x c : gamma i x -> isingleton j = Some c -> x <> c -> gamma (itrim i j) x.
Proof.
  intros G S N. unfold itrim. rewrite S. destruct G as [G1 G2].
  destruct (beqb (lb i) (Fin c)) eqn:E1.
  - apply beqb_eq in E1. apply gamma_imk. split; auto. rewrite E1 in G1. simpl in *. bsimp.
    apply Z.leb_le. lia.
  - destruct (beqb (ub i) (Fin c)) eqn:E2.
    + apply beqb_eq in E2. apply gamma_imk. split; auto. rewrite E2 in G2. simpl in *. bsimp.
      apply Z.leb_le. lia.
    + split; auto.
Qed.

(* ---------------- arithmetic ---------------- *)

Lemma iadd_sound a b x y : gamma a x -> gamma b y -> gamma (iadd a b) (x + y).
Proof.
  intros Ga Gb. unfold iadd. rewrite (gamma_not_bot _ _ Ga), (gamma_not_bot _ _ Gb). simpl.
  apply gamma_imk. destruct Ga as [A1 A2], Gb as [B1 B2].
  destruct (lb a), (ub a), (lb b), (ub b); simpl in *; bsimp; split; auto;
    apply Z.leb_le; lia.
Qed.

Lemma ineg_sound a x : gamma a x -> gamma (ineg a) (- x).
Proof.
  intros Ga. unfold ineg. rewrite (gamma_not_bot _ _ Ga).
  apply gamma_imk. destruct Ga as [A1 A2].
  destruct (lb a), (ub a); simpl in *; bsimp; split; auto; apply Z.leb_le; lia.
Qed.

Lemma isub_sound a b x y : gamma a x -> gamma b y -> gamma (isub a b) (x - y).
Proof.
  intros Ga Gb. unfold isub. rewrite (gamma_not_bot _ _ Ga), (gamma_not_bot _ _ Gb). simpl.
  apply gamma_imk. destruct Ga as [A1 A2], Gb as [B1 B2]. unfold bsub.
  destruct (lb a), (ub a), (lb b), (ub b); simpl in *; bsimp; split; auto;
    apply Z.leb_le; lia.
Qed.

(* multiplication: x*y is monotone or antitone in each argument, so it lies between the
   corner products; the 0 * oo = 0 convention of bmul is what makes this true with
   infinite bounds. *)
Lemma bmul_between (c lo hi : bound) (y : Z) :
  ble lo (Fin y) = true -> ble (Fin y) hi = true ->
  ble (bmin (bmul c lo) (bmul c hi)) (bmul c (Fin y)) = true /\
  ble (bmul c (Fin y)) (bmax (bmul c lo) (bmul c hi)) = true.
Proof.
  intros H1 H2.
  assert (T : forall p q r : bound,
             (ble p r = true \/ ble q r = true) -> ble (bmin p q) r = true).
  { intros p q r [H|H].
    - eapply ble_trans; [apply bmin_le_l|exact H].
    - eapply ble_trans; [apply bmin_le_r|exact H]. }
  assert (U : forall p q r : bound,
             (ble r p = true \/ ble r q = true) -> ble r (bmax p q) = true).
  { intros p q r [H|H].
    - eapply ble_trans; [exact H|apply bmax_ge_l].
    - eapply ble_trans; [exact H|apply bmax_ge_r]. }
  split; [apply T | apply U];
  destruct c as [| c |], lo as [| lo |], hi as [| hi |]; simpl in H1, H2; try discriminate;
    bsimp; unfold bmul, binf_of_sign, bsgn;
    repeat match goal with
    | |- context [match ?z with Z0 => _ | Zpos _ => _ | Zneg _ => _ end] =>
        destruct z eqn:?
    end; simpl; try (left; reflexivity); try (right; reflexivity);
    try (left; apply Z.leb_le; nia); try (right; apply Z.leb_le; nia);
    try lia.
Qed.

Lemma bmul_comm x y : bmul x y = bmul y x.
Proof.
  destruct x as [| x |], y as [| y |]; simpl; auto;
    try (destruct x; reflexivity); try (destruct y; reflexivity).
  destruct x, y; simpl; auto; f_equal; lia.
Qed.

Lemma imul_sound a b x y : gamma a x -> gamma b y -> gamma (imul a b) (x * y).
Proof.
  intros Ga Gb. unfold imul. rewrite (gamma_not_bot _ _ Ga), (gamma_not_bot _ _ Gb). simpl.
  apply gamma_imk. destruct Ga as [A1 A2], Gb as [B1 B2].
  (* first vary x with y fixed, then vary y at each corner *)
  destruct (bmul_between (Fin y) _ _ x A1 A2) as [X1 X2].
  rewrite !(bmul_comm (Fin y)) in X1, X2.
  destruct (bmul_between (lb a) _ _ y B1 B2) as [L1 L2].
  destruct (bmul_between (ub a) _ _ y B1 B2) as [U1 U2].
  assert (E : bmul (Fin x) (Fin y) = Fin (x * y)).
  { unfold bmul. destruct x, y; simpl; auto. }
  rewrite E in X1, X2.
  unfold bmin4, bmax4. split.
  - eapply ble_trans; [|exact X1].
    apply bmin_glb.
    + eapply ble_trans; [|exact L1]. apply bmin_glb.
      * apply bmin_le_l.
      * eapply ble_trans; [apply bmin_le_r|]. apply bmin_le_l.
    + eapply ble_trans; [|exact U1]. apply bmin_glb.
      * eapply ble_trans; [apply bmin_le_r|]. eapply ble_trans; [apply bmin_le_r|]. apply bmin_le_l.
      * eapply ble_trans; [apply bmin_le_r|]. eapply ble_trans; [apply bmin_le_r|]. apply bmin_le_r.
  - eapply ble_trans; [exact X2|].
    apply bmax_lub.
    + eapply ble_trans; [exact L2|]. apply bmax_lub.
      * apply bmax_ge_l.
      * eapply ble_trans; [|apply bmax_ge_r]. apply bmax_ge_l.
    + eapply ble_trans; [exact U2|]. apply bmax_lub.
      * eapply ble_trans; [|apply bmax_ge_r]. eapply ble_trans; [|apply bmax_ge_r]. apply bmax_ge_l.
      * eapply ble_trans; [|apply bmax_ge_r]. eapply ble_trans; [|apply bmax_ge_r]. apply bmax_ge_r.
Qed.

(* ---------------- division ---------------- *)

Lemma quot_mono_pos c a b : 0 < c -> a <= b -> Z.quot a c <= Z.quot b c.
Proof. intros. apply Z.quot_le_mono; auto. Qed.

Lemma quot_mono_neg c a b : c < 0 -> a <= b -> Z.quot b c <= Z.quot a c.
Proof.
  intros Hc H. replace c with (- (- c)) by lia.
  rewrite (Z.quot_opp_r a (- c)), (Z.quot_opp_r b (- c)) by lia.
  assert (Z.quot a (- c) <= Z.quot b (- c)) by (apply Z.quot_le_mono; lia). lia.
Qed.

Lemma quot_den_pos a q r : 0 < q <= r ->
  (0 <= a -> 0 <= Z.quot a r <= Z.quot a q) /\ (a <= 0 -> Z.quot a q <= Z.quot a r <= 0).
Proof.
  intros H. split; intros Ha.
  - split. apply Z.quot_pos; lia. apply Z.quot_le_compat_l; lia.
  - replace a with (- (- a)) by lia.
    rewrite (Z.quot_opp_l (- a) q), (Z.quot_opp_l (- a) r) by lia.
    assert (0 <= Z.quot (- a) r) by (apply Z.quot_pos; lia).
    assert (Z.quot (- a) r <= Z.quot (- a) q) by (apply Z.quot_le_compat_l; lia). lia.
Qed.

Lemma quot_den_neg a q r : q <= r < 0 ->
  (0 <= a -> Z.quot a r <= Z.quot a q <= 0) /\ (a <= 0 -> 0 <= Z.quot a q <= Z.quot a r).
Proof.
  intros H.
  replace q with (- (- q)) by lia. replace r with (- (- r)) by lia.
  rewrite (Z.quot_opp_r a (- q)), (Z.quot_opp_r a (- r)) by lia.
  destruct (quot_den_pos a (- r) (- q)) as [P N]; [lia|].
  split; intros Ha; [specialize (P Ha)|specialize (N Ha)]; lia.
Qed.

Lemma bmin_or p q r : (ble p r = true \/ ble q r = true) -> ble (bmin p q) r = true.
Proof.
  intros [H|H].
  - eapply ble_trans; [apply bmin_le_l|exact H].
  - eapply ble_trans; [apply bmin_le_r|exact H].
Qed.

Lemma bmax_or p q r : (ble r p = true \/ ble r q = true) -> ble r (bmax p q) = true.
Proof.
  intros [H|H].
  - eapply ble_trans; [exact H|apply bmax_ge_l].
  - eapply ble_trans; [exact H|apply bmax_ge_r].
Qed.

(* vary the dividend, divisor fixed *)
Lemma bdiv_between_num (lo hi : bound) (x y : Z) :
  y <> 0 -> ble lo (Fin x) = true -> ble (Fin x) hi = true ->
  ble (bmin (bdiv lo (Fin y)) (bdiv hi (Fin y))) (Fin (Z.quot x y)) = true /\
  ble (Fin (Z.quot x y)) (bmax (bdiv lo (Fin y)) (bdiv hi (Fin y))) = true.
Proof.
  intros Hy H1 H2.
  assert (P : 0 < y \/ y < 0) by lia.
  split; [apply bmin_or | apply bmax_or];
  destruct lo as [| lo |], hi as [| hi |]; simpl in H1, H2; try discriminate; bsimp;
  destruct y as [| y | y]; try lia; simpl;
  try (left; reflexivity); try (right; reflexivity);
  try (left; apply Z.leb_le; apply quot_mono_pos; lia);
  try (right; apply Z.leb_le; apply quot_mono_pos; lia);
  try (left; apply Z.leb_le; apply quot_mono_neg; lia);
  try (right; apply Z.leb_le; apply quot_mono_neg; lia).
Qed.


Lemma bdiv_fin_fin a b : b <> 0 -> bdiv (Fin a) (Fin b) = Fin (Z.quot a b).
Proof. destruct b; try lia; reflexivity. Qed.
Lemma bdiv_fin_inf a y : b_is_finite y = false -> bdiv (Fin a) y = Fin 0.
Proof. destruct y; simpl; try discriminate; auto. Qed.
Lemma bdiv_minf_fin b : b <> 0 -> bdiv MInf (Fin b) = if 0 <? b then MInf else PInf.
Proof. destruct b; try lia; reflexivity. Qed.
Lemma bdiv_pinf_fin b : b <> 0 -> bdiv PInf (Fin b) = if 0 <? b then PInf else MInf.
Proof. destruct b; try lia; reflexivity. Qed.

Lemma quot_den_P1 a y lo hi : 0 < lo -> lo <= y -> y <= hi ->
  (Z.quot a lo <= Z.quot a y \/ Z.quot a hi <= Z.quot a y) /\
  (Z.quot a y <= Z.quot a lo \/ Z.quot a y <= Z.quot a hi).
Proof.
  intros. destruct (quot_den_pos a lo y) as [P1 N1]; [lia|].
  destruct (quot_den_pos a y hi) as [P2 N2]; [lia|].
  destruct (Z.le_ge_cases 0 a) as [A|A];
    [specialize (P1 A); specialize (P2 A)|specialize (N1 A); specialize (N2 A)]; lia.
Qed.

Lemma quot_den_P2 a y lo : 0 < lo -> lo <= y ->
  (Z.quot a lo <= Z.quot a y \/ 0 <= Z.quot a y) /\
  (Z.quot a y <= Z.quot a lo \/ Z.quot a y <= 0).
Proof.
  intros. destruct (quot_den_pos a lo y) as [P1 N1]; [lia|].
  destruct (Z.le_ge_cases 0 a) as [A|A]; [specialize (P1 A)|specialize (N1 A)]; lia.
Qed.

Lemma quot_den_N1 a y lo hi : hi < 0 -> lo <= y -> y <= hi ->
  (Z.quot a lo <= Z.quot a y \/ Z.quot a hi <= Z.quot a y) /\
  (Z.quot a y <= Z.quot a lo \/ Z.quot a y <= Z.quot a hi).
Proof.
  intros. destruct (quot_den_neg a lo y) as [P1 N1]; [lia|].
  destruct (quot_den_neg a y hi) as [P2 N2]; [lia|].
  destruct (Z.le_ge_cases 0 a) as [A|A];
    [specialize (P1 A); specialize (P2 A)|specialize (N1 A); specialize (N2 A)]; lia.
Qed.

Lemma quot_den_N2 a y hi : hi < 0 -> y <= hi ->
  (0 <= Z.quot a y \/ Z.quot a hi <= Z.quot a y) /\
  (Z.quot a y <= 0 \/ Z.quot a y <= Z.quot a hi).
Proof.
  intros. destruct (quot_den_neg a y hi) as [P1 N1]; [lia|].
  destruct (Z.le_ge_cases 0 a) as [A|A]; [specialize (P1 A)|specialize (N1 A)]; lia.
Qed.

Lemma or_ble a b c d :
  (a <= b \/ c <= d) -> (ble (Fin a) (Fin b) = true \/ ble (Fin c) (Fin d) = true).
Proof. simpl. rewrite !Z.leb_le. auto. Qed.

(* vary the divisor inside a sign-constant range, dividend bound fixed *)
Lemma bdiv_between_den (c lo hi : bound) (y : Z) :
  ble lo (Fin y) = true -> ble (Fin y) hi = true ->
  (blt (Fin 0) lo = true \/ blt hi (Fin 0) = true) ->
  ble (bmin (bdiv c lo) (bdiv c hi)) (bdiv c (Fin y)) = true /\
  ble (bdiv c (Fin y)) (bmax (bdiv c lo) (bdiv c hi)) = true.
Proof.
  intros H1 H2 HS. unfold blt, bge in HS.
  assert (HS' : (exists l, lo = Fin l /\ 0 < l) \/ (exists h, hi = Fin h /\ h < 0)).
  { destruct HS as [HS|HS]; apply negb_true_iff in HS.
    - left. destruct lo; simpl in *; try discriminate. exists z. bsimp. split; auto; lia.
    - right. destruct hi; simpl in *; try discriminate. exists z. bsimp. split; auto; lia. }
  clear HS.
  destruct HS' as [(l & -> & Hl)|(h & -> & Hh)]; simpl in H1, H2; bsimp.
  - (* positive divisors *)
    assert (Hy : y <> 0) by lia. assert (Hl0 : l <> 0) by lia.
    destruct hi as [| h |]; simpl in H2; try discriminate; bsimp.
    + assert (Hh0 : h <> 0) by lia.
      destruct c as [| a |].
      * rewrite !bdiv_minf_fin by auto.
        replace (0 <? y) with true by (symmetry; apply Z.ltb_lt; lia).
        replace (0 <? l) with true by (symmetry; apply Z.ltb_lt; lia).
        replace (0 <? h) with true by (symmetry; apply Z.ltb_lt; lia). auto.
      * rewrite !bdiv_fin_fin by auto.
        destruct (quot_den_P1 a y l h) as [Q1 Q2]; try lia.
        split; [apply bmin_or | apply bmax_or]; apply or_ble; auto.
      * rewrite !bdiv_pinf_fin by auto.
        replace (0 <? y) with true by (symmetry; apply Z.ltb_lt; lia).
        replace (0 <? l) with true by (symmetry; apply Z.ltb_lt; lia).
        replace (0 <? h) with true by (symmetry; apply Z.ltb_lt; lia). auto.
    + destruct c as [| a |].
      * rewrite !bdiv_minf_fin by auto.
        replace (0 <? y) with true by (symmetry; apply Z.ltb_lt; lia).
        replace (0 <? l) with true by (symmetry; apply Z.ltb_lt; lia). simpl. auto.
      * rewrite !bdiv_fin_fin by auto. rewrite bdiv_fin_inf by auto.
        destruct (quot_den_P2 a y l) as [Q1 Q2]; try lia.
        split; [apply bmin_or | apply bmax_or]; apply or_ble; auto.
      * rewrite !bdiv_pinf_fin by auto.
        replace (0 <? y) with true by (symmetry; apply Z.ltb_lt; lia).
        replace (0 <? l) with true by (symmetry; apply Z.ltb_lt; lia). simpl. auto.
  - (* negative divisors *)
    assert (Hy : y <> 0) by lia. assert (Hh0 : h <> 0) by lia.
    destruct lo as [| l |]; simpl in H1; try discriminate; bsimp.
    + destruct c as [| a |].
      * rewrite !bdiv_minf_fin by auto.
        replace (0 <? y) with false by (symmetry; apply Z.ltb_ge; lia).
        replace (0 <? h) with false by (symmetry; apply Z.ltb_ge; lia). simpl. auto.
      * rewrite !bdiv_fin_fin by auto. rewrite bdiv_fin_inf by auto.
        destruct (quot_den_N2 a y h) as [Q1 Q2]; try lia.
        split; [apply bmin_or | apply bmax_or]; apply or_ble; auto.
      * rewrite !bdiv_pinf_fin by auto.
        replace (0 <? y) with false by (symmetry; apply Z.ltb_ge; lia).
        replace (0 <? h) with false by (symmetry; apply Z.ltb_ge; lia). simpl. auto.
    + assert (Hl0 : l <> 0) by lia.
      destruct c as [| a |].
      * rewrite !bdiv_minf_fin by auto.
        replace (0 <? y) with false by (symmetry; apply Z.ltb_ge; lia).
        replace (0 <? l) with false by (symmetry; apply Z.ltb_ge; lia).
        replace (0 <? h) with false by (symmetry; apply Z.ltb_ge; lia). auto.
      * rewrite !bdiv_fin_fin by auto.
        destruct (quot_den_N1 a y l h) as [Q1 Q2]; try lia.
        split; [apply bmin_or | apply bmax_or]; apply or_ble; auto.
      * rewrite !bdiv_pinf_fin by auto.
        replace (0 <? y) with false by (symmetry; apply Z.ltb_ge; lia).
        replace (0 <? l) with false by (symmetry; apply Z.ltb_ge; lia).
        replace (0 <? h) with false by (symmetry; apply Z.ltb_ge; lia). auto.
Qed.

Lemma corners_min ll lu ul uu pl pu v :
  ble (bmin pl pu) v = true -> ble (bmin ll lu) pl = true -> ble (bmin ul uu) pu = true ->
  ble (bmin4 ll lu ul uu) v = true.
Proof.
  intros X L U. unfold bmin4. eapply ble_trans; [|exact X]. apply bmin_glb.
  - eapply ble_trans; [|exact L]. apply bmin_glb.
    + apply bmin_le_l.
    + eapply ble_trans; [apply bmin_le_r|]. apply bmin_le_l.
  - eapply ble_trans; [|exact U]. apply bmin_glb.
    + eapply ble_trans; [apply bmin_le_r|]. eapply ble_trans; [apply bmin_le_r|]. apply bmin_le_l.
    + eapply ble_trans; [apply bmin_le_r|]. eapply ble_trans; [apply bmin_le_r|]. apply bmin_le_r.
Qed.

Lemma corners_max ll lu ul uu pl pu v :
  ble v (bmax pl pu) = true -> ble pl (bmax ll lu) = true -> ble pu (bmax ul uu) = true ->
  ble v (bmax4 ll lu ul uu) = true.
Proof.
  intros X L U. unfold bmax4. eapply ble_trans; [exact X|]. apply bmax_lub.
  - eapply ble_trans; [exact L|]. apply bmax_lub.
    + apply bmax_ge_l.
    + eapply ble_trans; [|apply bmax_ge_r]. apply bmax_ge_l.
  - eapply ble_trans; [exact U|]. apply bmax_lub.
    + eapply ble_trans; [|apply bmax_ge_r]. eapply ble_trans; [|apply bmax_ge_r]. apply bmax_ge_l.
    + eapply ble_trans; [|apply bmax_ge_r]. eapply ble_trans; [|apply bmax_ge_r]. apply bmax_ge_r.
Qed.

Lemma not_mem_zero_sign b y :
  gamma b y -> imem b 0 = false ->
  y <> 0 /\ (blt (Fin 0) (lb b) = true \/ blt (ub b) (Fin 0) = true).
Proof.
  intros G M. split.
  - intros ->. apply imem_spec in G. congruence.
  - unfold imem in M. rewrite (gamma_not_bot _ _ G) in M. unfold blt, bge.
    apply andb_false_iff in M. destruct M as [M|M]; rewrite M; auto.
Qed.

Lemma idiv_corners_sound a b x y :
  gamma a x -> gamma b y -> imem b 0 = false -> gamma (idiv_corners a b) (Z.quot x y).
Proof.
  intros Ga Gb M. destruct (not_mem_zero_sign _ _ Gb M) as [Hy HS].
  unfold idiv_corners. apply gamma_imk. destruct Ga as [A1 A2], Gb as [B1 B2].
  destruct (bdiv_between_num _ _ x y Hy A1 A2) as [X1 X2].
  destruct (bdiv_between_den (lb a) _ _ y B1 B2 HS) as [L1 L2].
  destruct (bdiv_between_den (ub a) _ _ y B1 B2 HS) as [U1 U2].
  split.
  - eapply corners_min; eauto.
  - eapply corners_max; eauto.
Qed.

Lemma bdiv_const_pos_l l x c : 0 < c -> ble l (Fin x) = true ->
  ble (bdiv l (Fin c)) (Fin (Z.quot x c)) = true.
Proof.
  intros Hc H. destruct l as [| l |]; simpl in H; try discriminate; bsimp.
  - rewrite bdiv_minf_fin by lia.
    replace (0 <? c) with true by (symmetry; apply Z.ltb_lt; auto). auto.
  - rewrite bdiv_fin_fin by lia. simpl. apply Z.leb_le. apply quot_mono_pos; auto.
Qed.

Lemma bdiv_const_pos_u u x c : 0 < c -> ble (Fin x) u = true ->
  ble (Fin (Z.quot x c)) (bdiv u (Fin c)) = true.
Proof.
  intros Hc H. destruct u as [| u |]; simpl in H; try discriminate; bsimp.
  - rewrite bdiv_fin_fin by lia. simpl. apply Z.leb_le. apply quot_mono_pos; auto.
  - rewrite bdiv_pinf_fin by lia. replace (0 <? c) with true; auto.
    symmetry; apply Z.ltb_lt; auto.
Qed.

Lemma bdiv_const_neg_l l x c : c < 0 -> ble l (Fin x) = true ->
  ble (Fin (Z.quot x c)) (bdiv l (Fin c)) = true.
Proof.
  intros Hc H. destruct l as [| l |]; simpl in H; try discriminate; bsimp.
  - rewrite bdiv_minf_fin by lia. replace (0 <? c) with false; auto.
    symmetry; apply Z.ltb_ge; lia.
  - rewrite bdiv_fin_fin by lia. simpl. apply Z.leb_le. apply quot_mono_neg; auto.
Qed.

Lemma bdiv_const_neg_u u x c : c < 0 -> ble (Fin x) u = true ->
  ble (bdiv u (Fin c)) (Fin (Z.quot x c)) = true.
Proof.
  intros Hc H. destruct u as [| u |]; simpl in H; try discriminate; bsimp.
  - rewrite bdiv_fin_fin by lia. simpl. apply Z.leb_le. apply quot_mono_neg; auto.
  - rewrite bdiv_pinf_fin by lia. replace (0 <? c) with false; auto.
    symmetry; apply Z.ltb_ge; lia.
Qed.

Lemma idiv_f_sound fuel : forall a b x y,
  gamma a x -> gamma b y -> y <> 0 -> gamma (idiv_f fuel a b) (Z.quot x y).
Proof.
  induction fuel as [|f IH]; intros a b x y Ga Gb Hy; [apply gamma_top|].
  cbn [idiv_f]. rewrite (gamma_not_bot _ _ Ga), (gamma_not_bot _ _ Gb). cbn [orb].
  set (generic := if imem b 0 then _ else _).
  assert (GEN : gamma generic (Z.quot x y)).
  { subst generic. destruct (imem b 0) eqn:M0.
    - destruct (Z.lt_total y 0) as [Hn|[?|Hp]]; [|lia|].
      + apply ijoin_sound_l. apply IH; auto. apply gamma_imk. destruct Gb. split; auto.
        simpl. apply Z.leb_le. lia.
      + apply ijoin_sound_r. apply IH; auto. apply gamma_imk. destruct Gb. split; auto.
        simpl. apply Z.leb_le. lia.
    - destruct (imem a 0) eqn:MA.
      + destruct (Z.lt_total x 0) as [Hn|[->|Hp]].
        * apply ijoin_sound_l, ijoin_sound_l. apply IH; auto. apply gamma_imk.
          destruct Ga. split; auto. simpl. apply Z.leb_le. lia.
        * apply ijoin_sound_r. rewrite Z.quot_0_l by auto. apply gamma_iconst. auto.
        * apply ijoin_sound_l, ijoin_sound_r. apply IH; auto. apply gamma_imk.
          destruct Ga. split; auto. simpl. apply Z.leb_le. lia.
      + apply idiv_corners_sound; auto. }
  destruct (isingleton b) as [c|] eqn:S; auto.
  assert (y = c) by (apply (isingleton_spec _ _ S); auto). subst c.
  destruct (y =? 1) eqn:E1.
  { bsimp. subst. rewrite Z.quot_1_r. auto. }
  destruct Ga as [A1 A2].
  destruct (0 <? y) eqn:E2.
  { bsimp. apply gamma_imk. split.
    - apply bdiv_const_pos_l; auto.
    - apply bdiv_const_pos_u; auto. }
  destruct (y <? 0) eqn:E3; auto.
  bsimp. apply gamma_imk. split.
  - apply bdiv_const_neg_u; auto.
  - apply bdiv_const_neg_l; auto.
Qed.

Theorem idiv_sound a b x y :
  gamma a x -> gamma b y -> y <> 0 -> gamma (idiv a b) (Z.quot x y).
Proof. apply idiv_f_sound. Qed.

(* ---------------- remainders ---------------- *)

Lemma rem_range x y : y <> 0 ->
  Z.abs (Z.rem x y) < Z.abs y /\ (0 <= x -> 0 <= Z.rem x y) /\ (x <= 0 -> Z.rem x y <= 0).
Proof.
  intros Hy. pose proof (Z.rem_bound_abs x y Hy). pose proof (Z.rem_sign_mul x y Hy).
  split; auto.
  destruct (Z.eq_dec x 0) as [->|Nx]; [rewrite Z.rem_0_l by auto; lia|].
  split; intros; nia.
Qed.

Lemma isrem_sound a b x y :
  gamma a x -> gamma b y -> y <> 0 -> gamma (isrem a b) (Z.rem x y).
Proof.
  intros Ga Gb Hy. unfold isrem.
  rewrite (gamma_not_bot _ _ Ga), (gamma_not_bot _ _ Gb). cbn [orb].
  assert (GEN : gamma
    match lb b, ub b with
    | Fin xl, Fin xu =>
      let m := zmax (zabs xl) (zabs xu) in
      if m =? 0 then ibot
      else if blt (lb a) (Fin 0) then
        if bgt (ub a) (Fin 0) then imk (Fin (- (m - 1))) (Fin (m - 1))
        else imk (Fin (- (m - 1))) (Fin 0)
      else imk (Fin 0) (Fin (m - 1))
    | _, _ => itop
    end (Z.rem x y)).
  { destruct Gb as [B1 B2]. destruct (lb b) as [| xl |] eqn:EL; try apply gamma_top.
    destruct (ub b) as [| xu |] eqn:EU; try apply gamma_top.
    simpl in B1, B2. bsimp. cbv zeta.
    destruct (rem_range x y Hy) as (R1 & R2 & R3).
    assert (M : Z.abs y <= zmax (zabs xl) (zabs xu)).
    { unfold zmax, zabs. destruct (xl <? 0) eqn:?, (xu <? 0) eqn:?; bsimp;
        match goal with |- context [?p <=? ?q] => destruct (p <=? q) eqn:? end; bsimp; lia. }
    destruct (zmax (zabs xl) (zabs xu) =? 0) eqn:EM; bsimp; [lia|].
    destruct Ga as [A1 A2]. unfold blt, bgt, bge.
    destruct (ble (Fin 0) (lb a)) eqn:E0; cbn [negb].
    - apply gamma_imk. assert (0 <= x). { pose proof (ble_trans _ _ _ E0 A1). simpl in *. bsimp. auto. }
      simpl. rewrite !Z.leb_le. lia.
    - destruct (ble (ub a) (Fin 0)) eqn:E1; cbn [negb]; apply gamma_imk; simpl; rewrite !Z.leb_le.
      + assert (x <= 0). { pose proof (ble_trans _ _ _ A2 E1). simpl in *. bsimp. auto. } lia.
      + lia. }
  destruct (isingleton a) as [d|] eqn:SA; auto.
  destruct (isingleton b) as [c|] eqn:SB; auto.
  assert (x = d) by (apply (isingleton_spec _ _ SA); auto).
  assert (y = c) by (apply (isingleton_spec _ _ SB); auto). subst.
  replace (c =? 0) with false by (symmetry; apply Z.eqb_neq; auto).
  apply gamma_iconst; auto.
Qed.

(* Unsigned remainder: operands are re-read as non-negative numbers of some bit width; a
   negative dividend may therefore stand for any non-negative number.  The divisor must
   be read as itself (the code answers top whenever it may be negative). *)
Lemma iurem_sound a b x x' y :
  gamma a x -> gamma b y -> 0 < y -> 0 <= x' -> (x' = x \/ x < 0) ->
  gamma (iurem a b) (Z.rem x' y).
Proof.
  intros Ga Gb Hy Hx' HX. unfold iurem.
  rewrite (gamma_not_bot _ _ Ga), (gamma_not_bot _ _ Gb). cbn [orb].
  pose proof (Z.rem_bound_pos x' y Hx' Hy) as RB.
  assert (GEN : gamma
    match lb b, ub b with
    | Fin xl, Fin xu =>
      if blt (lb b) (Fin 0) || blt (ub b) (Fin 0) then itop
      else if xu =? 0 then ibot
      else imk (Fin 0) (Fin (xu - 1))
    | _, _ => itop
    end (Z.rem x' y)).
  { destruct Gb as [B1 B2]. destruct (lb b) as [| xl |] eqn:EL; try apply gamma_top.
    destruct (ub b) as [| xu |] eqn:EU; try apply gamma_top.
    simpl in B1, B2. bsimp.
    destruct (blt (Fin xl) (Fin 0) || blt (Fin xu) (Fin 0)); [apply gamma_top|].
    destruct (xu =? 0) eqn:E; bsimp; [lia|].
    apply gamma_imk. simpl. rewrite !Z.leb_le. lia. }
  destruct (isingleton a) as [d|] eqn:SA; auto.
  destruct (isingleton b) as [c|] eqn:SB; auto.
  assert (x = d) by (apply (isingleton_spec _ _ SA); auto).
  assert (y = c) by (apply (isingleton_spec _ _ SB); auto). subst.
  replace (c <? 0) with false by (symmetry; apply Z.ltb_ge; lia).
  replace (c =? 0) with false by (symmetry; apply Z.eqb_neq; lia).
  destruct (d <? 0) eqn:E; bsimp.
  - apply gamma_imk. simpl. rewrite !Z.leb_le. lia.
  - destruct HX; [subst|lia]. apply gamma_iconst; auto.
Qed.

Lemma iudiv_sound a b x y z : gamma a x -> gamma b y -> gamma (iudiv a b) z.
Proof.
  intros Ga Gb. unfold iudiv. rewrite (gamma_not_bot _ _ Ga), (gamma_not_bot _ _ Gb).
  apply gamma_top.
Qed.

(* ---------------- bitwise (infinite two's complement on Z) ---------------- *)

Lemma land_le_l x y : 0 <= x -> 0 <= Z.land x y <= x.
Proof.
  intros Hx. apply Z.ldiff_le; auto.
  apply Z.bits_inj'. intros n Hn.
  rewrite Z.ldiff_spec, Z.land_spec, Z.bits_0.
  destruct (Z.testbit x n), (Z.testbit y n); auto.
Qed.

Lemma iand_sound a b x y : gamma a x -> gamma b y -> gamma (iand a b) (Z.land x y).
Proof.
  intros Ga Gb. unfold iand.
  rewrite (gamma_not_bot _ _ Ga), (gamma_not_bot _ _ Gb). cbn [orb].
  assert (GEN : gamma (if bge (lb a) (Fin 0) && bge (lb b) (Fin 0)
                       then imk (Fin 0) (bmin (ub a) (ub b)) else itop) (Z.land x y)).
  { destruct (bge (lb a) (Fin 0) && bge (lb b) (Fin 0)) eqn:E; [|apply gamma_top].
    apply andb_true_iff in E. destruct E as [E1 E2]. unfold bge in *.
    destruct Ga as [A1 A2], Gb as [B1 B2].
    pose proof (ble_trans _ _ _ E1 A1) as X0. pose proof (ble_trans _ _ _ E2 B1) as Y0.
    simpl in X0, Y0. bsimp.
    destruct (land_le_l x y X0) as [L1 L2].
    assert (L3 : Z.land x y <= y). { rewrite Z.land_comm. apply land_le_l; auto. }
    apply gamma_imk. split.
    - simpl. apply Z.leb_le; auto.
    - apply bmin_glb.
      + eapply ble_trans; [|exact A2]. simpl. apply Z.leb_le; auto.
      + eapply ble_trans; [|exact B2]. simpl. apply Z.leb_le; auto. }
  destruct (isingleton a) as [d|] eqn:SA; auto.
  destruct (isingleton b) as [c|] eqn:SB; auto.
  assert (x = d) by (apply (isingleton_spec _ _ SA); auto).
  assert (y = c) by (apply (isingleton_spec _ _ SB); auto). subst.
  apply gamma_iconst; auto.
Qed.

Lemma fill_ones_ge n : 0 <= n -> n <= fill_ones n.
Proof.
  intros H. unfold fill_ones. destruct (n <=? 0) eqn:E; bsimp; [lia|].
  rewrite Z.ones_equiv. pose proof (Z.log2_spec n ltac:(lia)).
  replace (Z.log2 n + 1) with (Z.succ (Z.log2 n)) by lia. lia.
Qed.

Lemma fill_ones_mono m n : 0 <= m <= n -> fill_ones m <= fill_ones n.
Proof.
  intros H. unfold fill_ones. destruct (m <=? 0) eqn:E1, (n <=? 0) eqn:E2; bsimp; try lia.
  - rewrite Z.ones_equiv. assert (0 < 2 ^ (Z.log2 n + 1)). { apply Z.pow_pos_nonneg; try lia. pose proof (Z.log2_nonneg n); lia. } lia.
  - rewrite !Z.ones_equiv. assert (Z.log2 m <= Z.log2 n) by (apply Z.log2_le_mono; lia).
    assert (2 ^ (Z.log2 m + 1) <= 2 ^ (Z.log2 n + 1)).
    { apply Z.pow_le_mono_r; try lia. } lia.
Qed.

Lemma bits_below_fill_ones v m :
  0 <= v -> 0 < m -> Z.log2 v <= Z.log2 m -> v <= fill_ones m.
Proof.
  intros Hv Hm HL. destruct (Z.eq_dec v 0) as [->|Nz].
  - pose proof (fill_ones_ge m ltac:(lia)). lia.
  - unfold fill_ones. replace (m <=? 0) with false by (symmetry; apply Z.leb_gt; lia).
    rewrite Z.ones_equiv. pose proof (Z.log2_spec v ltac:(lia)) as [_ S].
    assert (2 ^ Z.succ (Z.log2 v) <= 2 ^ (Z.log2 m + 1)).
    { apply Z.pow_le_mono_r; lia. } lia.
Qed.

Lemma ior_generic_sound a b x y (op : Z -> Z -> Z) :
  (forall p q, 0 <= p -> 0 <= q -> 0 <= op p q /\ Z.log2 (op p q) <= Z.max (Z.log2 p) (Z.log2 q)) ->
  op 0 0 = 0 ->
  gamma a x -> gamma b y ->
  gamma (if bge (lb a) (Fin 0) && bge (lb b) (Fin 0) then
      match ub a, ub b with
      | Fin l, Fin r => imk (Fin 0) (Fin (fill_ones (if r <? l then l else r)))
      | _, _ => imk (Fin 0) PInf
      end
    else itop) (op x y).
Proof.
  intros Hop Hop0 Ga Gb.
  destruct (bge (lb a) (Fin 0) && bge (lb b) (Fin 0)) eqn:E; [|apply gamma_top].
  apply andb_true_iff in E. destruct E as [E1 E2]. unfold bge in *.
  destruct Ga as [A1 A2], Gb as [B1 B2].
  pose proof (ble_trans _ _ _ E1 A1) as X0. pose proof (ble_trans _ _ _ E2 B1) as Y0.
  simpl in X0, Y0. bsimp. destruct (Hop x y X0 Y0) as [O1 O2].
  assert (PI : gamma (imk (Fin 0) PInf) (op x y)).
  { apply gamma_imk. split; auto. simpl. apply Z.leb_le; auto. }
  destruct (ub a) as [| l |]; auto. destruct (ub b) as [| r |]; auto.
  simpl in A2, B2. bsimp.
  apply gamma_imk. split. { simpl. apply Z.leb_le; auto. }
  simpl. apply Z.leb_le.
  destruct (Z.eq_dec (if r <? l then l else r) 0) as [M0|M0].
  { assert (x = 0 /\ y = 0) as [-> ->] by (destruct (r <? l) eqn:RL; bsimp; lia).
    rewrite Hop0, M0. reflexivity. }
  apply bits_below_fill_ones; auto.
  - destruct (r <? l) eqn:RL; bsimp; lia.
  - assert (Z.log2 x <= Z.log2 l) by (apply Z.log2_le_mono; auto).
    assert (Z.log2 y <= Z.log2 r) by (apply Z.log2_le_mono; auto).
    destruct (r <? l) eqn:RL; bsimp.
    + assert (Z.log2 r <= Z.log2 l) by (apply Z.log2_le_mono; lia). lia.
    + assert (Z.log2 l <= Z.log2 r) by (apply Z.log2_le_mono; lia). lia.
Qed.

Lemma ior_sound a b x y : gamma a x -> gamma b y -> gamma (ior a b) (Z.lor x y).
Proof.
  intros Ga Gb. unfold ior.
  rewrite (gamma_not_bot _ _ Ga), (gamma_not_bot _ _ Gb). cbn [orb].
  assert (GEN := ior_generic_sound a b x y Z.lor
    (fun p q Hp Hq => conj (proj2 (Z.lor_nonneg p q) (conj Hp Hq))
                           (Z.eq_le_incl _ _ (Z.log2_lor p q Hp Hq))) eq_refl Ga Gb).
  destruct (isingleton a) as [d|] eqn:SA; auto.
  destruct (isingleton b) as [c|] eqn:SB; auto.
  assert (x = d) by (apply (isingleton_spec _ _ SA); auto).
  assert (y = c) by (apply (isingleton_spec _ _ SB); auto). subst.
  apply gamma_iconst; auto.
Qed.

Lemma ixor_sound a b x y : gamma a x -> gamma b y -> gamma (ixor a b) (Z.lxor x y).
Proof.
  intros Ga Gb. unfold ixor, ior.
  rewrite (gamma_not_bot _ _ Ga), (gamma_not_bot _ _ Gb). cbn [orb].
  assert (GEN := ior_generic_sound a b x y Z.lxor
    (fun p q Hp Hq => conj (proj2 (Z.lxor_nonneg p q) (conj (fun _ => Hq) (fun _ => Hp)))
                           (Z.log2_lxor p q Hp Hq)) eq_refl Ga Gb).
  destruct (isingleton a) as [d|] eqn:SA.
  - destruct (isingleton b) as [c|] eqn:SB; auto.
    assert (x = d) by (apply (isingleton_spec _ _ SA); auto).
    assert (y = c) by (apply (isingleton_spec _ _ SB); auto). subst.
    apply gamma_iconst; auto.
  - exact GEN.
Qed.

(* ---------------- shifts ---------------- *)

Lemma ishl_sound a b x k : gamma a x -> gamma b k -> 0 <= k -> gamma (ishl a b) (Z.shiftl x k).
Proof.
  intros Ga Gb Hk. unfold ishl.
  rewrite (gamma_not_bot _ _ Ga), (gamma_not_bot _ _ Gb). cbn [orb].
  destruct (isingleton b) as [c|] eqn:SB; [|apply gamma_top].
  assert (k = c) by (apply (isingleton_spec _ _ SB); auto). subst c.
  replace (k <? 0) with false by (symmetry; apply Z.ltb_ge; lia).
  destruct (k <=? 128); [|apply gamma_top].
  rewrite Z.shiftl_mul_pow2 by auto. apply imul_sound; auto. apply gamma_iconst; auto.
Qed.

Lemma shiftr_mono l x k : 0 <= k -> l <= x -> Z.shiftr l k <= Z.shiftr x k.
Proof.
  intros. rewrite !Z.shiftr_div_pow2 by auto. apply Z.div_le_mono; auto.
  apply Z.pow_pos_nonneg; lia.
Qed.

Lemma iashr_sound a b x k : gamma a x -> gamma b k -> 0 <= k -> gamma (iashr a b) (Z.shiftr x k).
Proof.
  intros Ga Gb Hk. unfold iashr.
  rewrite (gamma_not_bot _ _ Ga), (gamma_not_bot _ _ Gb). cbn [orb].
  destruct (isingleton b) as [c|] eqn:SB; [|apply gamma_top].
  assert (k = c) by (apply (isingleton_spec _ _ SB); auto). subst c.
  replace (k <? 0) with false by (symmetry; apply Z.ltb_ge; lia).
  destruct (k <=? 128); [|apply gamma_top].
  apply gamma_imk. destruct Ga as [A1 A2]. split.
  - destruct (lb a); simpl in *; auto. bsimp. apply Z.leb_le. apply shiftr_mono; auto.
  - destruct (ub a); simpl in *; auto. bsimp. apply Z.leb_le. apply shiftr_mono; auto.
Qed.

Lemma shiftr_nn_eq l k : 0 <= l -> 0 <= k -> shiftr_nn l k = Z.shiftr l k.
Proof.
  intros. unfold shiftr_nn. destruct (Z.log2 l <? k) eqn:E; auto. bsimp.
  symmetry. apply Z.shiftr_eq_0; auto.
Qed.

(* logical shift right of a non-negative number (for negative numbers the result depends
   on the bit width and the code answers top) *)
Lemma ilshr_sound a b x k :
  gamma a x -> gamma b k -> 0 <= k -> forall r, (0 <= x -> r = Z.shiftr x k) -> gamma (ilshr a b) r.
Proof.
  intros Ga Gb Hk r Hr. unfold ilshr.
  rewrite (gamma_not_bot _ _ Ga), (gamma_not_bot _ _ Gb). cbn [orb].
  destruct (isingleton b) as [c|] eqn:SB; [|apply gamma_top].
  assert (k = c) by (apply (isingleton_spec _ _ SB); auto). subst c.
  replace (k <? 0) with false by (symmetry; apply Z.ltb_ge; lia).
  destruct Ga as [A1 A2].
  destruct (lb a) as [| l |]; try apply gamma_top.
  destruct (ub a) as [| u |]; try apply gamma_top.
  destruct (0 <=? l) eqn:E; [|apply gamma_top]. simpl in A1, A2. bsimp.
  rewrite Hr by lia. apply gamma_imk. rewrite !shiftr_nn_eq by lia. simpl. rewrite !Z.leb_le.
  split; apply shiftr_mono; auto.
Qed.
