(* ItvWiden.v — widening chains of intervals become stationary (property C05 at the scalar
   level): along x_{i+1} = x_i widen y_i with ARBITRARY y_i, at most 3 steps are not
   stationary with respect to the inclusion test (constructive statement), with or without
   thresholds. *)
From Coq Require Import ZArith Lia Bool List Arith.
From CrabV Require Import Base.ZInf Scalar.Itv Scalar.ItvSound.
Import ListNotations.

Definition wmeasure (a : itv) : nat :=
  if is_bot a then 3
  else (match lb a with MInf => 0 | _ => 1 end) + (match ub a with PInf => 0 | _ => 1 end).

Lemma imk_nonbot l u : ble l u = true -> imk l u = mkI l u.
Proof. intros H. unfold imk, bgt. rewrite H. reflexivity. Qed.

Ltac crunch :=
  unfold iwiden, ileq, wmeasure, is_bot, imk, ibot, bgt, blt, bge;
  cbn [lb ub ble negb andb orb];
  repeat match goal with
  | |- context [(?x <=? ?y)%Z] => destruct (Z.leb_spec x y); cbn [lb ub ble negb andb orb]
  end;
  try (left; reflexivity); try (right; simpl; lia); try lia.

Lemma iwiden_step a b :
  ileq (iwiden a b) a = true \/ wmeasure (iwiden a b) < wmeasure a.
Proof.
  destruct a as [[| la |] [| ua |]], b as [[| lb' |] [| ub' |]]; crunch.
Qed.

Lemma iwiden_measure_le a b : wmeasure (iwiden a b) <= wmeasure a.
Proof.
  destruct a as [[| la |] [| ua |]], b as [[| lb' |] [| ub' |]];
  unfold iwiden, ileq, wmeasure, is_bot, imk, ibot, bgt, blt, bge;
  cbn [lb ub ble negb andb orb];
  repeat match goal with
  | |- context [(?x <=? ?y)%Z] => destruct (Z.leb_spec x y); cbn [lb ub ble negb andb orb]
  end; simpl; lia.
Qed.

Section Chain.
  Variable x0 : itv.
  Variable ys : nat -> itv.
  Variable widen : itv -> itv -> itv.
  Hypothesis widen_step : forall a b, ileq (widen a b) a = true \/ wmeasure (widen a b) < wmeasure a.
  Hypothesis widen_le : forall a b, wmeasure (widen a b) <= wmeasure a.

  Fixpoint chain (i : nat) : itv :=
    match i with O => x0 | S j => widen (chain j) (ys j) end.

  Definition nonstationary (i : nat) : bool := negb (ileq (chain (S i)) (chain i)).

  Lemma chain_count k :
    length (filter nonstationary (seq 0 k)) + wmeasure (chain k) <= wmeasure x0.
  Proof.
    induction k as [|k IH]; [simpl; lia|].
    rewrite seq_S, filter_app, app_length. cbn [Nat.add filter].
    assert (C : chain (S k) = widen (chain k) (ys k)) by reflexivity.
    pose proof (widen_le (chain k) (ys k)) as LE. rewrite <- C in LE.
    unfold nonstationary at 2.
    destruct (widen_step (chain k) (ys k)) as [H|H]; rewrite <- C in H.
    - rewrite H. cbn [negb length]. lia.
    - destruct (ileq (chain (S k)) (chain k)); cbn [negb length]; lia.
  Qed.

  Theorem chain_stabilises k : length (filter nonstationary (seq 0 k)) <= 3.
  Proof.
    pose proof (chain_count k).
    assert (wmeasure x0 <= 3).
    { unfold wmeasure. destruct (is_bot x0); [lia|]. destruct (lb x0), (ub x0); simpl; lia. }
    lia.
  Qed.
End Chain.

Theorem iwiden_chain_stabilises x0 ys k :
  length (filter (nonstationary x0 ys iwiden) (seq 0 k)) <= 3.
Proof. apply chain_stabilises. apply iwiden_step. apply iwiden_measure_le. Qed.
