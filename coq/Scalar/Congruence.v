(* Congruence.v — mirror model of ikos::congruence<z_number>
   (include/crab/domains/congruence.hpp, congruence_impl.hpp, lib/congruence.cpp),
   following the tree with fixes/scalars2-1..4 applied (normalisation to a >= 0 and
   0 <= b < a, meet by the extended Euclidean algorithm, division / remainder for the
   truncating z_number operators, operator<= without the division by zero, is_top() false
   on bottom).

   C++ representation: (m_is_bottom, m_a, m_b); bottom = (true,1,0), top = (false,1,0),
   singleton n = (false,0,n).  z_number::operator/ = Z.quot, operator% = Z.rem,
   gcd(x,y) (Euclid on absolute values) = Z.gcd, lcm(x,y) = |x*y|/gcd = Z.lcm.
   No proofs here. *)
From Coq Require Import ZArith Bool.
From CrabV Require Import Base.ZInf Scalar.Itv.
Local Open Scope Z_scope.

Record cg : Type := mkC { cbot : bool; ca : Z; cb : Z }.

Definition cg_bot : cg := mkC true 1 0.
Definition cg_top : cg := mkC false 1 0.
(* congruence(Number n) *)
Definition cg_const (n : Z) : cg := mkC false 0 n.

(* congruence(Number a, Number b) followed by normalize() *)
Definition cg_mk (a b : Z) : cg :=
  let a' := if a <? 0 then - a else a in
  if a' =? 0 then mkC false a' b
  else let r := Z.rem b a' in mkC false a' (if r <? 0 then r + a' else r).

Definition cg_is_bot (x : cg) : bool := cbot x.
Definition cg_is_top (x : cg) : bool := negb (cbot x) && (ca x =? 1).
Definition cg_is_zero (x : cg) : bool := negb (cbot x) && (ca x =? 0) && (cb x =? 0).
Definition cg_all_ones (x : cg) : bool := negb (cbot x) && (ca x =? 0) && (cb x =? -1).

Definition cg_singleton (x : cg) : option Z :=
  if negb (cbot x) && (ca x =? 0) then Some (cb x) else None.

Definition cg_eq (x y : cg) : bool :=
  Bool.eqb (cbot x) (cbot y) && (ca x =? ca y) && (cb x =? cb y).

Definition cg_leq (x y : cg) : bool :=
  if cbot x then true
  else if cbot y then false
  else if ca y =? 0 then (ca x =? 0) && (cb x =? cb y)
  else (Z.rem (ca x) (ca y) =? 0) && (Z.rem (cb x - cb y) (ca y) =? 0).

Definition cg_join (x y : cg) : cg :=
  if cbot x then y
  else if cbot y then x
  else if cg_is_top x || cg_is_top y then cg_top
  else cg_mk (Z.gcd (ca x) (Z.gcd (ca y) (Z.abs (cb x - cb y)))) (Z.min (cb x) (cb y)).

(* the loop of operator& : (x, r, s, t) -> (r, x - q*r, t, s - q*t) until r = 0;
   returns (x, s).  The number of iterations is logarithmic; [None] = out of fuel
   (never happens with the fuel given by [cg_meet]). *)
Fixpoint egcd (fuel : nat) (x r s t : Z) : option (Z * Z) :=
  match fuel with
  | O => None
  | S f =>
    if r =? 0 then Some (x, s)
    else let q := Z.quot x r in egcd f r (x - q * r) t (s - q * t)
  end.

Definition egcd_fuel (a a' : Z) : nat :=
  Z.to_nat (2 * (Z.log2 (Z.abs a) + Z.log2 (Z.abs a')) + 8).

Definition cg_meet (x y : cg) : cg :=
  if cbot x || cbot y then cg_bot
  else if (ca x =? 0) && (ca y =? 0) then (if cb x =? cb y then x else cg_bot)
  else if ca x =? 0 then (if Z.rem (cb x - cb y) (ca y) =? 0 then x else cg_bot)
  else if ca y =? 0 then (if Z.rem (cb y - cb x) (ca x) =? 0 then y else cg_bot)
  else match egcd (egcd_fuel (ca x) (ca y)) (ca x) (ca y) 1 0 with
       | None => cg_top
       | Some (g, s) =>
         if Z.rem (cb y - cb x) g =? 0
         then cg_mk (Z.lcm (ca x) (ca y)) (cb x + ca x * (s * Z.quot (cb y - cb x) g))
         else cg_bot
       end.

(* operator|| : "Equivalent to join, domain is flat" *)
Definition cg_widen (x y : cg) : cg := cg_join x y.
(* operator&& : "Simply refines top element" *)
Definition cg_narrow (x y : cg) : cg := if cg_is_top x then y else x.

Definition cg_add (x y : cg) : cg :=
  if cbot x || cbot y then cg_bot
  else if cg_is_top x || cg_is_top y then cg_top
  else cg_mk (Z.gcd (ca x) (ca y)) (cb x + cb y).

Definition cg_sub (x y : cg) : cg :=
  if cbot x || cbot y then cg_bot
  else if cg_is_top x || cg_is_top y then cg_top
  else cg_mk (Z.gcd (ca x) (ca y)) (cb x - cb y).

Definition cg_neg (x : cg) : cg :=
  if cbot x || cg_is_top x then x else cg_mk (ca x) (- cb x + ca x).

Definition cg_mul (x y : cg) : cg :=
  if cbot x || cbot y then cg_bot
  else if (cg_is_top x || cg_is_top y) && negb (ca x =? 0) && negb (ca y =? 0) then cg_top
  else cg_mk (Z.gcd (ca x * ca y) (Z.gcd (ca x * cb y) (ca y * cb x))) (cb x * cb y).

(* operator/ (= SDiv) *)
Definition cg_div (x y : cg) : cg :=
  if cbot x || cbot y then cg_bot
  else if cg_eq y (cg_const 0) then cg_bot
  else if cg_is_top x || cg_is_top y then cg_top
  else if ca y =? 0 then
    if ca x =? 0 then cg_const (Z.quot (cb x) (cb y))
    else if (Z.rem (ca x) (cb y) =? 0) && (Z.rem (cb x) (cb y) =? 0)
         then cg_mk (Z.quot (ca x) (cb y)) (Z.quot (cb x) (cb y))
         else cg_top
  else cg_top.

(* operator% (= SRem) *)
Definition cg_rem (x y : cg) : cg :=
  if cbot x || cbot y then cg_bot
  else if cg_eq y (cg_const 0) then cg_bot
  else if cg_is_top x || cg_is_top y then cg_top
  else if (ca x =? 0) && (ca y =? 0) then cg_const (Z.rem (cb x) (cb y))
  else cg_mk (Z.gcd (ca x) (Z.gcd (ca y) (cb y))) (cb x).

Definition cg_udiv (x y : cg) : cg := cg_top.
Definition cg_urem (x y : cg) : cg := cg_top.

Definition cg_and (x y : cg) : cg :=
  if cbot x || cbot y then cg_bot
  else if cg_is_top x || cg_is_top y then cg_top
  else if cg_is_zero x || cg_is_zero y then cg_const 0
  else if cg_all_ones x then y
  else if cg_all_ones y then x
  else if (ca x =? 0) && (ca y =? 0) then cg_const (Z.land (cb x) (cb y))
  else cg_top.

Definition cg_or (x y : cg) : cg :=
  if cbot x || cbot y then cg_bot
  else if cg_is_top x || cg_is_top y then cg_top
  else if cg_all_ones x || cg_all_ones y then cg_const (-1)
  else if cg_is_zero x then y
  else if cg_is_zero y then x
  else if (ca x =? 0) && (ca y =? 0) then cg_const (Z.lor (cb x) (cb y))
  else cg_top.

Definition cg_xor (x y : cg) : cg :=
  if cbot x || cbot y then cg_bot
  else if cg_is_top x || cg_is_top y then cg_top
  else if cg_is_zero x then y
  else if cg_is_zero y then x
  else if (ca x =? 0) && (ca y =? 0) then cg_const (Z.lxor (cb x) (cb y))
  else cg_top.

(* Number(1) << k : mpz_mul_2exp(1, mpz_get_ui(k)); mpz_get_ui takes the absolute value
   (amounts of 2^64 and more are outside the model, as for intervals) *)
Definition pow2 (k : Z) : Z := 2 ^ (Z.abs k).

Definition cg_shl (x y : cg) : cg :=
  if cbot x || cbot y then cg_bot
  else if cg_is_top x || cg_is_top y then cg_top
  else if ca y =? 0 then
    if cb y <? 0 then cg_bot
    else let p := pow2 (cb y) in cg_mk (ca x * p) (cb x * p)
  else
    let p := pow2 (cb y) in
    let q := pow2 (ca y) in
    cg_mk (Z.gcd (ca x) (cb x * (q - 1)) * p) (cb x * p).

Definition cg_shr_via (f : itv -> itv -> itv) (x y : cg) : cg :=
  if cbot x || cbot y then cg_bot
  else if cg_is_top x || cg_is_top y then cg_top
  else if (ca y =? 0) && (cb y <? 0) then cg_bot
  else match cg_singleton x, cg_singleton y with
       | Some n, Some k =>
         match isingleton (f (iconst n) (iconst k)) with
         | Some r => cg_const r
         | None => cg_top
         end
       | _, _ => cg_top
       end.

Definition cg_ashr := cg_shr_via iashr.
Definition cg_lshr := cg_shr_via ilshr.
