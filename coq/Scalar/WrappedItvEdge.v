(* WrappedItvEdge.v — the corner cases that Scalar/WrappedItvSound.v leaves out:
     Trunc(bits_to_keep) with bits_to_keep = bitwidth   (trunc_sound has bits_to_keep < bitwidth)
     Shl by the amount 0                                (shl_sound has amounts 1..63)
   Shl(k) calls Trunc(bitwidth - k), so the second one is the first one in disguise.

   Before the repair fixes/wrapint-10.diff Trunc(w) of a w-bit interval went through
   ashr(wrapint(w, w)): for w = 64 a shift of an uint64_t by 64 bits (undefined behaviour,
   [None] in the model: see [trunc_unrepaired_64] below), for w < 64 a correct but imprecise
   answer (top for every interval across the north pole).  The repaired Trunc returns *this when
   bits_to_keep >= bitwidth, and the model Scalar/WrappedItv.v follows it.

   Also here: the hypotheses of the theorems on ZExt / SExt ([is_top i = false]) and on
   LShr / AShr ([wn kk < 64]) cannot be dropped ([zext_top_error], [sext_top_error],
   [lshr_amount_64_error], [ashr_amount_64_error]); the second one is implied by the bitwidth
   when it is at most 6 ([lshr_sound_w6], [ashr_sound_w6]). *)
From Coq Require Import ZArith Lia Bool List.
From CrabV Require Import Num.Wrapint Num.WrapintSound Scalar.WrappedItv Scalar.WrappedItvSound.
Import ListNotations.
Local Open Scope Z_scope.

(* ---------------------------------------------------------------- Trunc(bitwidth) *)

Lemma trunc_all_bits w i : iwf w i -> (is_bottom i = true \/ is_top i = true \/ range_nt w i) ->
  wi_trunc i w = Some i.
Proof.
  intros _ [B|[T|(B & T & Hs & _)]]; unfold wi_trunc.
  - rewrite B. reflexivity.
  - rewrite T, orb_true_r. reflexivity.
  - unfold is_bottom. rewrite B, T. cbn [orb].
    assert (get_bitwidth (wstart i) = w) as -> by apply Hs.
    rewrite Z.leb_refl. reflexivity.
Qed.

Lemma wkeep_lower_all_bits w v : wfw w v -> wkeep_lower v w = Some v.
Proof. intros [_ E]. unfold wkeep_lower. rewrite E, Z.leb_refl. reflexivity. Qed.

(* Trunc for every bits_to_keep in 1..bitwidth (bitwidth 64 included) *)
Theorem trunc_full w i k v : iwf w i -> gamma w i v -> 1 <= k <= w ->
  exists q r, wi_trunc i k = Some q /\ iwf k q /\ wkeep_lower v k = Some r /\ gamma k q r.
Proof.
  intros Wi G Hk. destruct (Z.eq_dec k w) as [->|NE].
  - exists i, v. split.
    + apply trunc_all_bits; [exact Wi|].
      destruct (is_bottom i) eqn:B; [left; reflexivity|].
      destruct (is_top i) eqn:T; [right; left; reflexivity|].
      right; right. apply range_nt_of; assumption.
    + split; [exact Wi|]. split; [apply wkeep_lower_all_bits; apply G|exact G].
  - apply (trunc_sound w); [exact Wi|exact G|lia].
Qed.

(* the statement C13_wv_trunc_statement of Props/Properties_C13.v, verbatim *)
Theorem trunc_statement_holds :
  forall w i k v, iwf w i -> gamma w i v -> 1 <= k <= w -> k < 64 ->
  exists q r, wi_trunc i k = Some q /\ wkeep_lower v k = Some r /\ gamma k q r.
Proof.
  intros w i k v Wi G Hk _. destruct (trunc_full w i k v Wi G Hk) as (q & r & E & _ & K & Gq).
  exists q, r. split; [exact E|]. split; [exact K|exact Gq].
Qed.

(* ---------------------------------------------------------------- Shl by 0 *)

Lemma shl_k_zero w a kk v : iwf w a -> gamma w a v -> wfw w kk -> wn kk = 0 ->
  exists q r, wi_shl_k a (wn kk) = Some q /\ iwf w q /\ wshl v kk = Some r /\ gamma w q r.
Proof.
  intros Wa Ga Hk K0. assert (wfw w v) as Hv by apply Ga.
  destruct (wshl_val w v kk Hv Hk ltac:(lia)) as (r & Er & Hr & Vr).
  unfold wi_shl_k. destruct (is_bottom a) eqn:Ba; [elim (gamma_bot w a v Ba Ga)|].
  destruct (is_top a) eqn:Ta.
  { exists a, r. split; [reflexivity|]. split; [exact Wa|]. split; [exact Er|]. apply gamma_top; assumption. }
  pose proof (range_nt_of w a Wa Ba Ta) as R. pose proof R as (B & _ & Hs & He).
  pose proof (wfw_range _ _ Hs) as [Hw Rs]. pose proof (wfw_range _ _ He) as [_ Re].
  pose proof (wfw_range _ _ Hv) as [_ Rv].
  assert (get_bitwidth (wstart a) = w) as -> by apply Hs.
  destruct (Z.leb_spec w (wn kk)) as [KW|_]; [lia|].
  replace (w - wn kk) with w by lia.
  rewrite (trunc_all_bits w a Wa (or_intror (or_intror R))). cbn [obind]. rewrite Ta. cbn [negb].
  rewrite (wmk_amount w kk Hk).
  destruct (wshl_val w _ kk Hs Hk ltac:(lia)) as (lo & Elo & Hlo & Vlo).
  destruct (wshl_val w _ kk He Hk ltac:(lia)) as (hi & Ehi & Hhi & Vhi).
  rewrite Elo, Ehi. cbn [obind]. exists (wi_mk lo hi), r. split; [reflexivity|].
  split; [apply iwf_mk; assumption|]. split; [exact Er|].
  apply gamma_mk; try assumption. rewrite Vr, Vlo, Vhi, K0. rewrite Z.pow_0_r, !Z.mul_1_r.
  rewrite (Z.mod_small (wn v)), (Z.mod_small (wn (wstart a))), (Z.mod_small (wn (wend a))) by assumption.
  exact (gamma_range w a v B Ta Hs He Ga).
Qed.

Lemma shl_zero w a x v kk : iwf w a -> iwf w x -> gamma w a v -> gamma w x kk -> wn kk = 0 ->
  exists q r, wi_shl a x = Some q /\ iwf w q /\ wshl v kk = Some r /\ gamma w q r.
Proof.
  intros Wa Wx Ga Gx K. unfold wi_shl.
  destruct (is_bottom a) eqn:Ba; [elim (gamma_bot w a v Ba Ga)|].
  destruct (is_singleton x) eqn:S.
  - rewrite <- (single_member w x kk Wx S Gx). unfold get_uint64_t. apply shl_k_zero; try assumption. apply Gx.
  - destruct (wshl_val w v kk (proj1 Ga) (proj1 Gx) ltac:(lia)) as (r & Er & Hr & _).
    exists wi_top, r. split; [reflexivity|]. split; [apply iwf_top|]. split; [exact Er|].
    apply gamma_top; [reflexivity|exact Hr].
Qed.

(* the statement C13_wv_shl_statement of Props/Properties_C13.v, verbatim *)
Theorem shl_full :
  forall w a x v kk, iwf w a -> iwf w x -> gamma w a v -> gamma w x kk -> 0 <= wn kk < 64 ->
  exists q r, wi_shl a x = Some q /\ iwf w q /\ wshl v kk = Some r /\ gamma w q r.
Proof.
  intros w a x v kk Wa Wx Ga Gx K. destruct (Z.eq_dec (wn kk) 0) as [K0|NE].
  - apply shl_zero; assumption.
  - apply shl_sound; try assumption. lia.
Qed.

(* Shl by 0 is the identity on intervals that are neither top nor bottom (it was top for
   the intervals across the north pole, and undefined at bitwidth 64) *)
Lemma shl_k_zero_exact w a : range_nt w a -> wi_shl_k a 0 = Some (wi_mk (wstart a) (wend a)).
Proof.
  intros R. pose proof R as (B & T & Hs & He).
  pose proof (wfw_range _ _ Hs) as [Hw Rs]. pose proof (wfw_range _ _ He) as [_ Re].
  unfold wi_shl_k, is_bottom. rewrite B, T.
  assert (get_bitwidth (wstart a) = w) as -> by apply Hs.
  destruct (Z.leb_spec w 0) as [KW|_]; [lia|]. rewrite Z.sub_0_r.
  rewrite (trunc_all_bits w a (or_intror (or_intror (conj B (conj Hs He)))) (or_intror (or_intror R))).
  cbn [obind]. rewrite T. cbn [negb].
  destruct (wmk_val_small 0 w Hw ltac:(pose proof (pow2_pos w); lia)) as [Hz Vz].
  destruct (wshl_val w _ _ Hs Hz ltac:(lia)) as (lo & Elo & Hlo & Vlo).
  destruct (wshl_val w _ _ He Hz ltac:(lia)) as (hi & Ehi & Hhi & Vhi).
  rewrite Elo, Ehi. cbn [obind]. rewrite Vz, Z.pow_0_r, Z.mul_1_r, Z.mod_small in Vlo, Vhi by assumption.
  f_equal. f_equal; apply wrapint_eq; try assumption.
  - destruct Hlo as [_ ->]. destruct Hs as [_ ->]. reflexivity.
  - destruct Hhi as [_ ->]. destruct He as [_ ->]. reflexivity.
Qed.

(* ---------------------------------------------------------------- the code before the repair *)

(* Trunc as it was (no test of bits_to_keep against the bitwidth) *)
Definition wi_trunc_unrepaired (i : witv) (bits_to_keep : Z) : option witv :=
  if is_bottom i || is_top i then Some i
  else
    let w := get_bitwidth (wstart i) in
    let k := wmk bits_to_keep w in
    do us <- washr (wstart i) k;
    do ue <- washr (wend i) k;
    if weq us ue then
      do ls <- wkeep_lower (wstart i) bits_to_keep;
      do le <- wkeep_lower (wend i) bits_to_keep;
      if wle ls le then Some (wi_mk ls le) else Some wi_top
    else
      let y := wpreinc us in
      if weq y ue then
        do ls <- wkeep_lower (wstart i) bits_to_keep;
        do le <- wkeep_lower (wend i) bits_to_keep;
        if negb (wle ls le) then Some (wi_mk ls le) else Some wi_top
      else Some wi_top.

(* the two functions agree on every strict truncation *)
Lemma trunc_unrepaired_eq i k : k < get_bitwidth (wstart i) -> wi_trunc_unrepaired i k = wi_trunc i k.
Proof.
  intros H. unfold wi_trunc_unrepaired, wi_trunc.
  destruct (Z.leb_spec (get_bitwidth (wstart i)) k) as [L|_]; [lia|]. reflexivity.
Qed.

(* [5,9] of bitwidth 64: ashr by 64 bits *)
Example trunc_unrepaired_64 :
  wi_trunc_unrepaired (wi_mk (wmk 5 64) (wmk 9 64)) 64 = None /\
  wi_trunc (wi_mk (wmk 5 64) (wmk 9 64)) 64 = Some (wi_mk (wmk 5 64) (wmk 9 64)).
Proof. split; vm_compute; reflexivity. Qed.
(* [100,200] of bitwidth 8 (across the north pole 127 -> 128): top *)
Example trunc_unrepaired_8 :
  wi_trunc_unrepaired (wi_mk (wmk 100 8) (wmk 200 8)) 8 = Some wi_top /\
  wi_trunc (wi_mk (wmk 100 8) (wmk 200 8)) 8 = Some (wi_mk (wmk 100 8) (wmk 200 8)).
Proof. split; vm_compute; reflexivity. Qed.

(* the hypotheses of shl_full and trunc_full are satisfiable at the corner *)
Example shl_full_nonvacuous :
  let a := wi_mk (wmk 5 64) (wmk 9 64) in let x := wi_single (wmk 0 64) in
  iwf 64 a /\ iwf 64 x /\ gamma 64 a (wmk 7 64) /\ gamma 64 x (wmk 0 64) /\
  wi_shl a x = Some a /\ wshl (wmk 7 64) (wmk 0 64) = Some (wmk 7 64).
Proof.
  cbv zeta. repeat split; try (vm_compute; reflexivity); try (vm_compute; discriminate);
  right; right; repeat split; try (vm_compute; reflexivity); vm_compute; discriminate.
Qed.

(* ---------------------------------------------------------------- ZExt / SExt of top *)

(* unsigned_split / signed_split call get_bitwidth before they look at is_top: CRAB_ERROR.
   (wrapped_interval_domain::apply tests is_top before it calls ZExt / SExt, so this is not
   reachable from the abstract domain.) *)
Lemma zext_top_error i k : is_bottom i = false -> is_top i = true -> wi_zext i k = None.
Proof. intros B T. unfold wi_zext, unsigned_split, wi_bitwidth. rewrite B, T. reflexivity. Qed.
Lemma sext_top_error i k : is_bottom i = false -> is_top i = true -> wi_sext i k = None.
Proof. intros B T. unfold wi_sext, signed_split, wi_bitwidth. rewrite B, T. reflexivity. Qed.

(* ---------------------------------------------------------------- LShr / AShr: the amount *)

(* amounts of 64 or more (a w-bit number, w >= 7) shift an uint64_t by 64 bits or more *)
Lemma lshr_amount_64_error w a x kk : range_nt w a -> iwf w x -> is_singleton x = true ->
  gamma w x kk -> 64 <= wn kk -> wn (wstart a) <= wn (wend a) -> wi_lshr a x = None.
Proof.
  intros R Wx S Gx K L. pose proof R as (B & T & Hs & He).
  unfold wi_lshr, is_bottom. rewrite B, S. rewrite <- (single_member w x kk Wx S Gx).
  unfold wi_lshr_k, is_bottom, get_uint64_t. rewrite B, T. rewrite (cross_unsigned_limit_val w a R). cbn [obind].
  destruct (Z.leb_spec (wn (wstart a)) (wn (wend a))) as [_|L']; [|lia]. cbn [negb].
  assert (get_bitwidth (wstart a) = w) as -> by apply Hs. rewrite (wmk_amount w kk (proj1 Gx)).
  unfold wlshr. destruct (Z.ltb_spec (wn kk) 64) as [K'|_]; [lia|]. reflexivity.
Qed.
Lemma ashr_amount_64_error w a x kk : range_nt w a -> iwf w x -> is_singleton x = true ->
  gamma w x kk -> 64 <= wn kk -> cross_north w a = false -> wi_ashr a x = None.
Proof.
  intros R Wx S Gx K L. pose proof R as (B & T & Hs & He).
  unfold wi_ashr, is_bottom. rewrite B, S. rewrite <- (single_member w x kk Wx S Gx).
  unfold wi_ashr_k, is_bottom, get_uint64_t. rewrite B, T. rewrite (cross_signed_limit_val w a R). cbn [obind].
  rewrite L. cbn [negb].
  assert (get_bitwidth (wstart a) = w) as -> by apply Hs. rewrite (wmk_amount w kk (proj1 Gx)).
  unfold washr. destruct (Z.ltb_spec (wn kk) 64) as [K'|_]; [lia|]. reflexivity.
Qed.
Example lshr_amount_64_witness :
  let a := wi_mk (wmk 3 8) (wmk 5 8) in let x := wi_single (wmk 100 8) in
  gamma 8 a (wmk 4 8) /\ gamma 8 x (wmk 100 8) /\ wi_lshr a x = None /\ wi_ashr a x = None.
Proof. cbv zeta. repeat split; vm_compute; try reflexivity; discriminate. Qed.

(* a w-bit amount is below 64 when w <= 6 *)
Lemma small_width_amount w kk : w <= 6 -> wfw w kk -> wn kk < 64.
Proof.
  intros Hw Hk. pose proof (wfw_range _ _ Hk) as [W R].
  assert (2 ^ w <= 2 ^ 6) by (apply Z.pow_le_mono_r; lia). change (2 ^ 6) with 64 in *. lia.
Qed.
Theorem lshr_sound_w6 w a x v kk : w <= 6 -> iwf w a -> iwf w x -> gamma w a v -> gamma w x kk ->
  exists q r, wi_lshr a x = Some q /\ iwf w q /\ wlshr v kk = Some r /\ gamma w q r.
Proof. intros Hw Wa Wx Ga Gx. apply lshr_sound; try assumption. apply (small_width_amount w); [exact Hw|apply Gx]. Qed.
Theorem ashr_sound_w6 w a x v kk : w <= 6 -> iwf w a -> iwf w x -> gamma w a v -> gamma w x kk ->
  exists q r, wi_ashr a x = Some q /\ iwf w q /\ washr v kk = Some r /\ gamma w q r.
Proof. intros Hw Wa Wx Ga Gx. apply ashr_sound; try assumption. apply (small_width_amount w); [exact Hw|apply Gx]. Qed.
Theorem shl_sound_w6 w a x v kk : w <= 6 -> iwf w a -> iwf w x -> gamma w a v -> gamma w x kk ->
  exists q r, wi_shl a x = Some q /\ iwf w q /\ wshl v kk = Some r /\ gamma w q r.
Proof.
  intros Hw Wa Wx Ga Gx. apply shl_full; try assumption.
  pose proof (wfw_range _ _ (proj1 Gx)) as [_ R]. split; [lia|]. apply (small_width_amount w); [exact Hw|apply Gx].
Qed.
