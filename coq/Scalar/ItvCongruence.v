(* ItvCongruence.v — mirror model of crab::domains::interval_congruence<z_number>
   (include/crab/domains/interval_congruence.hpp, interval_congruence_impl.hpp,
   lib/interval_congruence.cpp): a pair (interval, congruence) with Granger's reduction
   applied by every constructor.  No proofs here. *)
From Coq Require Import ZArith Bool.
From CrabV Require Import Base.ZInf Scalar.Itv Scalar.Congruence.
Local Open Scope Z_scope.

Record ic : Type := mkIC { ifst : itv; isnd : cg }.

Definition ic_top : ic := mkIC itop cg_top.
Definition ic_bot : ic := mkIC ibot cg_bot.
Definition ic_is_bot (p : ic) : bool := is_bot (ifst p) || cg_is_bot (isnd p).
Definition ic_is_top (p : ic) : bool := is_top (ifst p) && cg_is_top (isnd p).

(* mod(a,b): a % b made non-negative *)
Definition ic_mod (a b : Z) : Z := let m := Z.rem a b in if m <? 0 then m + b else m.
Definition ic_abs (x : Z) : Z := if x <? 0 then - x else x.
(* R(c,a): least element of c greater or equal than a; L(c,a): greatest one below a *)
Definition ic_R (c : cg) (a : Z) : Z := a + ic_mod (cb c - a) (ic_abs (ca c)).
Definition ic_L (c : cg) (a : Z) : Z := a - ic_mod (a - cb c) (ic_abs (ca c)).

(* reduce() *)
Definition ic_reduce (i0 : itv) (c0 : cg) : ic :=
  let b := is_bot i0 || cg_is_bot c0 in
  let i := if b then ibot else i0 in
  let c := if b then cg_bot else c0 in
  if cg_is_top c then
    match isingleton i with
    | Some n => mkIC i (cg_const n)
    | None => mkIC i c
    end
  else if ca c =? 0 then
    let a := iconst (cb c) in
    if ileq a i then mkIC a c else ic_bot
  else
    match lb i, ub i with
    | Fin l, Fin u =>
      let x := ic_R c l in
      let y := ic_L c u in
      if y <? x then ic_bot
      else if x =? y then mkIC (iconst x) (cg_const x)
      else mkIC (imk (Fin x) (Fin y)) c
    | Fin l, _ => mkIC (imk (Fin (ic_R c l)) PInf) c
    | _, Fin u => mkIC (imk MInf (Fin (ic_L c u))) c
    | _, _ => mkIC i c
    end.

Definition ic_const (n : Z) : ic := mkIC (iconst n) (cg_const n).
Definition ic_of_itv (i : itv) : ic := ic_reduce i cg_top.
Definition ic_of_cg (c : cg) : ic := ic_reduce itop c.

Definition ic_lift (f : itv -> itv -> itv) (g : cg -> cg -> cg) (p q : ic) : ic :=
  ic_reduce (f (ifst p) (ifst q)) (g (isnd p) (isnd q)).

Definition ic_join := ic_lift ijoin cg_join.
Definition ic_meet := ic_lift imeet cg_meet.
Definition ic_add := ic_lift iadd cg_add.
Definition ic_sub := ic_lift isub cg_sub.
Definition ic_mul := ic_lift imul cg_mul.
Definition ic_div := ic_lift idiv cg_div.
Definition ic_udiv := ic_lift iudiv cg_udiv.
Definition ic_srem := ic_lift isrem cg_rem.
Definition ic_urem := ic_lift iurem cg_urem.
Definition ic_and := ic_lift iand cg_and.
Definition ic_or := ic_lift ior cg_or.
Definition ic_xor := ic_lift ixor cg_xor.
Definition ic_shl := ic_lift ishl cg_shl.
Definition ic_lshr := ic_lift ilshr cg_lshr.
Definition ic_ashr := ic_lift iashr cg_ashr.
(* Trunc / ZExt / SExt *)
Definition ic_cast (p : ic) : ic := ic_top.
