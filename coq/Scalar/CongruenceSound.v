(* CongruenceSound.v — concretisation of congruences and soundness of every operation of
   Scalar/Congruence.v.  gamma (aZ+b) = { x | a divides x - b } (a = 0: the singleton b). *)
From Coq Require Import ZArith Lia Bool Znumtheory.
From CrabV Require Import Base.ZInf Scalar.Itv Scalar.ItvSound Scalar.Congruence.
Local Open Scope Z_scope.

Definition cgamma (c : cg) (x : Z) : Prop := cbot c = false /\ (ca c | x - cb c).

(* the representation invariant established by every constructor *)
Definition cwf (c : cg) : Prop :=
  0 <= ca c /\ (ca c <> 0 -> 0 <= cb c < ca c) /\ (cbot c = true -> ca c = 1 /\ cb c = 0).

(* ------------------------------------------------------------------ basic facts *)

Lemma div_congr a x m n : (a | m - n) -> ((a | x - m) <-> (a | x - n)).
Proof.
  intros H; split; intros H1.
  - replace (x - n) with ((x - m) + (m - n)) by ring. apply Z.divide_add_r; auto.
  - replace (x - m) with ((x - n) - (m - n)) by ring. apply Z.divide_sub_r; auto.
Qed.

Lemma div0_eq n : (0 | n) <-> n = 0.
Proof. split; intros H. destruct H as [k H]. lia. subst. apply Z.divide_0_r. Qed.

Lemma cgamma_bot x : ~ cgamma cg_bot x.
Proof. intros [H _]. discriminate. Qed.

Lemma cgamma_top x : cgamma cg_top x.
Proof. split; auto. apply Z.divide_1_l. Qed.

Lemma cgamma_const n x : cgamma (cg_const n) x <-> x = n.
Proof.
  unfold cgamma; simpl. rewrite div0_eq. split. intros [_ H]; lia. intros; split; auto; lia.
Qed.

Lemma cgamma_is_bot c x : cg_is_bot c = true -> ~ cgamma c x.
Proof. unfold cg_is_bot. intros H [H1 _]. congruence. Qed.

Lemma cgamma_is_top c x : cg_is_top c = true -> cgamma c x.
Proof.
  unfold cg_is_top, cgamma. intros H. apply andb_true_iff in H. destruct H as [H1 H2].
  apply negb_true_iff in H1. apply Z.eqb_eq in H2. rewrite H2. split; auto. apply Z.divide_1_l.
Qed.

Lemma cg_is_top_bot : cg_is_top cg_bot = false.
Proof. reflexivity. Qed.

Lemma cgamma_mk a b x : cgamma (cg_mk a b) x <-> (a | x - b).
Proof.
  unfold cg_mk.
  assert (Ha : (if a <? 0 then - a else a) = Z.abs a).
  { destruct (Z.ltb_spec a 0); lia. }
  rewrite Ha. rewrite <- (Z.divide_abs_l a).
  destruct (Z.eqb_spec (Z.abs a) 0) as [E|E].
  - unfold cgamma; simpl. tauto.
  - unfold cgamma; simpl.
    pose proof (Z.quot_rem' b (Z.abs a)) as Q.
    assert (D : forall r, (Z.abs a | b - r) -> (Z.abs a | x - r) <-> (Z.abs a | x - b)).
    { intros r Hr. symmetry. apply div_congr; auto. }
    destruct (Z.rem b (Z.abs a) <? 0).
    + rewrite D. tauto.
      exists (Z.quot b (Z.abs a) - 1). lia.
    + rewrite D. tauto.
      exists (Z.quot b (Z.abs a)). lia.
Qed.

Lemma cwf_bot : cwf cg_bot.
Proof. unfold cwf; simpl. repeat split; lia. Qed.
Lemma cwf_top : cwf cg_top.
Proof. unfold cwf; simpl. repeat split; try lia; discriminate. Qed.
Lemma cwf_const n : cwf (cg_const n).
Proof. unfold cwf; simpl. repeat split; try lia; discriminate. Qed.

Lemma cwf_mk a b : cwf (cg_mk a b).
Proof.
  unfold cg_mk.
  assert (Ha : (if a <? 0 then - a else a) = Z.abs a).
  { destruct (Z.ltb_spec a 0); lia. }
  rewrite Ha.
  destruct (Z.eqb_spec (Z.abs a) 0) as [E|E]; unfold cwf; simpl.
  - repeat split; try lia; discriminate.
  - pose proof (Z.rem_bound_abs b (Z.abs a) E) as B.
    pose proof (Z.rem_sign_nz b (Z.abs a)) as S.
    repeat split; try lia; try discriminate;
    destruct (Z.ltb_spec (Z.rem b (Z.abs a)) 0); try lia.
Qed.

Lemma cgamma_mk_intro d r x b :
  (d | x - b) -> (d | b - r) -> cgamma (cg_mk d r) x.
Proof. intros H1 H2. apply cgamma_mk. apply (div_congr d x b r); auto. Qed.

(* every non-bottom congruence is inhabited (by its residue) *)
Lemma cgamma_residue c : cbot c = false -> cgamma c (cb c).
Proof. intros H; split; auto. rewrite Z.sub_diag. apply Z.divide_0_r. Qed.

Lemma cgamma_step c x : cgamma c x -> cgamma c (x + ca c).
Proof.
  intros [H1 H2]; split; auto.
  replace (x + ca c - cb c) with ((x - cb c) + ca c) by ring.
  apply Z.divide_add_r; auto. apply Z.divide_refl.
Qed.

Lemma rem0_divide a b : b <> 0 -> (Z.rem a b =? 0) = true -> (b | a).
Proof. intros Hb H. apply Z.eqb_eq in H. apply Z.rem_divide; auto. Qed.

Lemma divide_rem0 a b : b <> 0 -> (b | a) -> (Z.rem a b =? 0) = true.
Proof. intros Hb H. apply Z.eqb_eq. apply Z.rem_divide; auto. Qed.

(* ------------------------------------------------------------------ order *)

Lemma cg_leq_sound x y : cg_leq x y = true -> forall v, cgamma x v -> cgamma y v.
Proof.
  unfold cg_leq. intros H v [Hb Hv]. rewrite Hb in H.
  destruct (cbot y) eqn:Hy; [discriminate|].
  split; auto.
  destruct (Z.eqb_spec (ca y) 0) as [E|E].
  - apply andb_true_iff in H. destruct H as [H1 H2].
    apply Z.eqb_eq in H1, H2. rewrite E. rewrite H1 in Hv. rewrite <- H2. exact Hv.
  - apply andb_true_iff in H. destruct H as [H1 H2].
    apply rem0_divide in H1; auto. apply rem0_divide in H2; auto.
    apply (div_congr (ca y) v (cb x) (cb y)); auto.
    apply Z.divide_trans with (ca x); auto.
Qed.

Lemma cg_leq_complete x y : (forall v, cgamma x v -> cgamma y v) -> cg_leq x y = true.
Proof.
  unfold cg_leq. intros H.
  destruct (cbot x) eqn:Hx; auto.
  pose proof (H _ (cgamma_residue x Hx)) as [Hy H1].
  pose proof (H _ (cgamma_step _ _ (cgamma_residue x Hx))) as [_ H2].
  rewrite Hy.
  assert (H3 : (ca y | ca x)).
  { replace (ca x) with ((cb x + ca x - cb y) - (cb x - cb y)) by ring.
    apply Z.divide_sub_r; auto. }
  destruct (Z.eqb_spec (ca y) 0) as [E|E].
  - rewrite E in *. apply div0_eq in H1, H3. apply andb_true_iff. split; apply Z.eqb_eq; lia.
  - apply andb_true_iff. split; apply divide_rem0; auto.
Qed.

Lemma cg_leq_refl x : cg_leq x x = true.
Proof. apply cg_leq_complete. auto. Qed.

Lemma cg_leq_bot_l x : cg_leq cg_bot x = true.
Proof. reflexivity. Qed.

Lemma cg_leq_top_r x : cg_leq x cg_top = true.
Proof. apply cg_leq_complete. intros; apply cgamma_top. Qed.

Lemma cg_eq_sound x y : cg_eq x y = true -> forall v, cgamma x v <-> cgamma y v.
Proof.
  unfold cg_eq, cgamma. intros H v.
  apply andb_true_iff in H. destruct H as [H H3]. apply andb_true_iff in H. destruct H as [H1 H2].
  apply eqb_prop in H1. apply Z.eqb_eq in H2, H3. rewrite H1, H2, H3. tauto.
Qed.

Lemma cg_eq_refl x : cg_eq x x = true.
Proof. unfold cg_eq. rewrite eqb_reflx, !Z.eqb_refl. reflexivity. Qed.

Lemma cg_singleton_spec x n : cg_singleton x = Some n -> forall v, cgamma x v <-> v = n.
Proof.
  unfold cg_singleton, cgamma. intros H v.
  destruct (cbot x); simpl in H; [discriminate|].
  destruct (Z.eqb_spec (ca x) 0) as [E|E]; [|discriminate].
  inversion H; subst. rewrite E, div0_eq. split. intros [_ ?]; lia. intros; split; auto; lia.
Qed.

(* ------------------------------------------------------------------ join, widening *)

Lemma cg_join_sound_l x y v : cgamma x v -> cgamma (cg_join x y) v.
Proof.
  unfold cg_join. intros [Hb Hv]. rewrite Hb.
  destruct (cbot y) eqn:Hy. split; auto.
  destruct (cg_is_top x || cg_is_top y). apply cgamma_top.
  apply (cgamma_mk_intro _ _ v (cb x)).
  - eapply Z.divide_trans; [apply Z.gcd_divide_l|]; auto.
  - destruct (Z.min_spec (cb x) (cb y)) as [[_ E]|[_ E]]; rewrite E.
    + rewrite Z.sub_diag. apply Z.divide_0_r.
    + eapply Z.divide_trans; [apply Z.gcd_divide_r|].
      eapply Z.divide_trans; [apply Z.gcd_divide_r|]. apply Z.divide_abs_r. apply Z.divide_refl.
Qed.

Lemma cg_join_sound_r x y v : cgamma y v -> cgamma (cg_join x y) v.
Proof.
  unfold cg_join. intros [Hb Hv].
  destruct (cbot x) eqn:Hx. split; auto. rewrite Hb.
  destruct (cg_is_top x || cg_is_top y). apply cgamma_top.
  apply (cgamma_mk_intro _ _ v (cb y)).
  - eapply Z.divide_trans; [apply Z.gcd_divide_r|].
    eapply Z.divide_trans; [apply Z.gcd_divide_l|]; auto.
  - destruct (Z.min_spec (cb x) (cb y)) as [[_ E]|[_ E]]; rewrite E.
    + eapply Z.divide_trans; [apply Z.gcd_divide_r|].
      eapply Z.divide_trans; [apply Z.gcd_divide_r|].
      replace (cb y - cb x) with (- (cb x - cb y)) by ring.
      apply Z.divide_opp_r. apply Z.divide_abs_r. apply Z.divide_refl.
    + rewrite Z.sub_diag. apply Z.divide_0_r.
Qed.

Lemma cg_join_sound x y v : cgamma x v \/ cgamma y v -> cgamma (cg_join x y) v.
Proof. intros [H|H]; [apply cg_join_sound_l | apply cg_join_sound_r]; auto. Qed.

Lemma cg_widen_sound x y v : cgamma x v \/ cgamma y v -> cgamma (cg_widen x y) v.
Proof. apply cg_join_sound. Qed.

(* join is the least upper bound (the domain of congruences is a lattice and the C++
   join is exact): any congruence containing both operands contains the join *)
Lemma cg_join_least x y z :
  (forall v, cgamma x v -> cgamma z v) -> (forall v, cgamma y v -> cgamma z v) ->
  forall v, cgamma (cg_join x y) v -> cgamma z v.
Proof.
  intros Hx Hy v. unfold cg_join.
  destruct (cbot x) eqn:Bx; auto.
  destruct (cbot y) eqn:By; auto.
  pose proof (Hx _ (cgamma_residue x Bx)) as [Bz X1].
  pose proof (Hx _ (cgamma_step _ _ (cgamma_residue x Bx))) as [_ X2].
  pose proof (Hy _ (cgamma_residue y By)) as [_ Y1].
  pose proof (Hy _ (cgamma_step _ _ (cgamma_residue y By))) as [_ Y2].
  assert (Dx : (ca z | ca x)).
  { replace (ca x) with ((cb x + ca x - cb z) - (cb x - cb z)) by ring. apply Z.divide_sub_r; auto. }
  assert (Dy : (ca z | ca y)).
  { replace (ca y) with ((cb y + ca y - cb z) - (cb y - cb z)) by ring. apply Z.divide_sub_r; auto. }
  assert (Db : (ca z | cb x - cb y)).
  { replace (cb x - cb y) with ((cb x - cb z) - (cb y - cb z)) by ring. apply Z.divide_sub_r; auto. }
  destruct (cg_is_top x || cg_is_top y) eqn:T.
  - intros _. split; auto.
    assert (D1 : (ca z | 1)).
    { apply orb_true_iff in T. unfold cg_is_top in T. rewrite Bx, By in T. simpl in T.
      destruct T as [T|T]; apply Z.eqb_eq in T; rewrite T in *; auto. }
    eapply Z.divide_trans; [exact D1|]. apply Z.divide_1_l.
  - intros H. apply cgamma_mk in H. split; auto.
    assert (G : (ca z | Z.gcd (ca x) (Z.gcd (ca y) (Z.abs (cb x - cb y))))).
    { apply Z.gcd_greatest; auto. apply Z.gcd_greatest; auto. apply Z.divide_abs_r; auto. }
    pose proof (Z.divide_trans _ _ _ G H) as H'.
    destruct (Z.min_spec (cb x) (cb y)) as [[_ E]|[_ E]]; rewrite E in H'.
    + apply (div_congr (ca z) v (cb x) (cb z)); auto.
    + apply (div_congr (ca z) v (cb y) (cb z)); auto.
Qed.

(* ------------------------------------------------------------------ meet, narrowing *)

Lemma egcd_inv a a' fuel : forall x r s t g s',
  (a' | s * a - x) -> (a' | t * a - r) ->
  (forall d, (d | x) -> (d | r) -> (d | a) /\ (d | a')) ->
  egcd fuel x r s t = Some (g, s') ->
  (a' | s' * a - g) /\ (g | a) /\ (g | a').
Proof.
  induction fuel as [|f IH]; intros x r s t g s' H1 H2 H3 H; simpl in H; [discriminate|].
  destruct (Z.eqb_spec r 0) as [E|E].
  - inversion H; subst. split; auto.
    apply H3. apply Z.divide_refl. apply Z.divide_0_r.
  - apply IH in H; auto.
    + replace ((s - Z.quot x r * t) * a - (x - Z.quot x r * r))
        with ((s * a - x) - Z.quot x r * (t * a - r)) by ring.
      apply Z.divide_sub_r; auto. apply Z.divide_mul_r; auto.
    + intros d D1 D2. apply H3; auto.
      replace x with ((x - Z.quot x r * r) + Z.quot x r * r) by ring.
      apply Z.divide_add_r; auto. apply Z.divide_mul_r; auto.
Qed.

Lemma cg_meet_sound x y v : cgamma x v -> cgamma y v -> cgamma (cg_meet x y) v.
Proof.
  unfold cg_meet. intros [Bx Hx] [By Hy]. rewrite Bx, By. simpl.
  destruct (Z.eqb_spec (ca x) 0) as [Ex|Ex]; destruct (Z.eqb_spec (ca y) 0) as [Ey|Ey]; simpl.
  - rewrite Ex in Hx. rewrite Ey in Hy. apply div0_eq in Hx, Hy.
    destruct (Z.eqb_spec (cb x) (cb y)); [|lia]. split; auto. rewrite Ex. apply div0_eq; auto.
  - rewrite Ex in Hx. apply div0_eq in Hx.
    rewrite divide_rem0; auto. split; auto. rewrite Ex. apply div0_eq; auto.
    replace (cb x) with v by lia. auto.
  - rewrite Ey in Hy. apply div0_eq in Hy.
    rewrite divide_rem0; auto. split; auto. rewrite Ey. apply div0_eq; auto.
    replace (cb y) with v by lia. auto.
  - destruct (egcd _ (ca x) (ca y) 1 0) as [[g s]|] eqn:EG; [|apply cgamma_top].
    apply (egcd_inv (ca x) (ca y)) in EG.
    + destruct EG as [G1 [G2 G3]].
      assert (Gd : (g | cb y - cb x)).
      { replace (cb y - cb x) with ((v - cb x) - (v - cb y)) by ring.
        apply Z.divide_sub_r; [apply Z.divide_trans with (ca x) | apply Z.divide_trans with (ca y)]; auto. }
      assert (Gnz : g <> 0).
      { intros ->. apply div0_eq in G2. auto. }
      rewrite divide_rem0; auto.
      apply cgamma_mk.
      destruct Gd as [k Hk]. rewrite Hk. rewrite Z.quot_mul; auto.
      apply Z.lcm_least.
      * replace (v - (cb x + ca x * (s * k))) with ((v - cb x) - ca x * (s * k)) by ring.
        apply Z.divide_sub_r; auto. apply Z.divide_factor_l.
      * destruct G1 as [m Hm].
        replace (v - (cb x + ca x * (s * k))) with ((v - cb y) - m * k * ca y) by nia.
        apply Z.divide_sub_r; auto. apply Z.divide_factor_r.
    + replace (1 * ca x - ca x) with 0 by ring. apply Z.divide_0_r.
    + replace (0 * ca x - ca y) with (- ca y) by ring. apply Z.divide_opp_r, Z.divide_refl.
    + auto.
Qed.

(* the fuel given to the Euclidean loop is always enough: the remainder is more than
   halved every two iterations *)
Lemma rem_halves r r1 : r1 <> 0 -> Z.abs r1 < Z.abs r -> 2 * Z.abs (Z.rem r r1) < Z.abs r.
Proof.
  intros N L. rewrite <- Z.rem_abs; auto.
  pose proof (Z.quot_rem' (Z.abs r) (Z.abs r1)) as Q.
  pose proof (Z.rem_bound_pos (Z.abs r) (Z.abs r1) ltac:(lia) ltac:(lia)) as B.
  assert (1 <= Z.quot (Z.abs r) (Z.abs r1)).
  { apply Z.quot_le_lower_bound; lia. }
  nia.
Qed.

Lemma egcd_fuel_enough n : 0 <= n -> forall fuel x r s t,
  Z.abs r < 2 ^ n -> (2 * Z.to_nat n + 1 <= fuel)%nat -> egcd fuel x r s t <> None.
Proof.
  intros Hn. pattern n. apply natlike_ind; auto; clear n Hn.
  - intros fuel x r s t Hr Hf. destruct fuel as [|f]; [lia|]. simpl.
    assert (r = 0) by (simpl in Hr; lia). subst. simpl. discriminate.
  - intros n Hn IH fuel x r s t Hr Hf.
    rewrite Z2Nat.inj_succ in Hf; auto.
    destruct fuel as [|f]; [lia|]. simpl.
    destruct (Z.eqb_spec r 0) as [E|E]; [discriminate|].
    destruct f as [|f]; [lia|]. simpl.
    replace (x - Z.quot x r * r) with (Z.rem x r) by (pose proof (Z.quot_rem' x r); lia).
    destruct (Z.eqb_spec (Z.rem x r) 0) as [E1|E1]; [discriminate|].
    apply IH; [|lia].
    replace (r - Z.quot r (Z.rem x r) * Z.rem x r) with (Z.rem r (Z.rem x r))
      by (pose proof (Z.quot_rem' r (Z.rem x r)); lia).
    pose proof (Z.rem_bound_abs x r E) as B.
    pose proof (rem_halves r (Z.rem x r) E1 B).
    rewrite Z.pow_succ_r in Hr; auto. lia.
Qed.

Lemma egcd_total a a' : egcd (egcd_fuel a a') a a' 1 0 <> None.
Proof.
  apply (egcd_fuel_enough (Z.log2 (Z.abs a') + 1)).
  - pose proof (Z.log2_nonneg (Z.abs a')). lia.
  - destruct (Z.eq_dec a' 0) as [->|N]. simpl. lia.
    apply Z.log2_spec. lia.
  - unfold egcd_fuel.
    pose proof (Z.log2_nonneg (Z.abs a')). pose proof (Z.log2_nonneg (Z.abs a)). lia.
Qed.

(* the meet never adds elements: it is the exact intersection *)
Lemma cg_meet_below x y v :
  cgamma (cg_meet x y) v -> cgamma x v /\ cgamma y v.
Proof.
  pose proof (egcd_total (ca x) (ca y)) as F.
  unfold cg_meet.
  destruct (cbot x) eqn:Bx; simpl. intros H; destruct (cgamma_bot _ H).
  destruct (cbot y) eqn:By; simpl. intros H; destruct (cgamma_bot _ H).
  destruct (Z.eqb_spec (ca x) 0) as [Ex|Ex]; destruct (Z.eqb_spec (ca y) 0) as [Ey|Ey]; simpl.
  - destruct (Z.eqb_spec (cb x) (cb y)) as [E|E]; [|intros H; destruct (cgamma_bot _ H)].
    intros [_ H]. split; split; auto. rewrite Ey, <- Ex, <- E. auto.
  - destruct (Z.rem (cb x - cb y) (ca y) =? 0) eqn:R; [|intros H; destruct (cgamma_bot _ H)].
    apply rem0_divide in R; auto.
    intros [_ H]. split; split; auto. rewrite Ex in H. apply div0_eq in H.
    replace v with (cb x) by lia. auto.
  - destruct (Z.rem (cb y - cb x) (ca x) =? 0) eqn:R; [|intros H; destruct (cgamma_bot _ H)].
    apply rem0_divide in R; auto.
    intros [_ H]. split; split; auto. rewrite Ey in H. apply div0_eq in H.
    replace v with (cb y) by lia. auto.
  - destruct (egcd _ (ca x) (ca y) 1 0) as [[g s]|] eqn:EG; [|congruence].
    apply (egcd_inv (ca x) (ca y)) in EG.
    + destruct EG as [G1 [G2 G3]].
      assert (Gnz : g <> 0).
      { intros ->. apply div0_eq in G2. auto. }
      destruct (Z.rem (cb y - cb x) g =? 0) eqn:R; [|intros H; destruct (cgamma_bot _ H)].
      apply rem0_divide in R; auto. destruct R as [k Hk]. rewrite Hk. rewrite Z.quot_mul; auto.
      intros H. apply cgamma_mk in H.
      split; split; auto.
      * replace (v - cb x) with ((v - (cb x + ca x * (s * k))) + ca x * (s * k)) by ring.
        apply Z.divide_add_r. eapply Z.divide_trans; [apply Z.divide_lcm_l|]; eauto.
        apply Z.divide_factor_l.
      * destruct G1 as [m Hm].
        replace (v - cb y) with ((v - (cb x + ca x * (s * k))) + m * k * ca y) by nia.
        apply Z.divide_add_r. eapply Z.divide_trans; [apply Z.divide_lcm_r|]; eauto.
        apply Z.divide_factor_r.
    + replace (1 * ca x - ca x) with 0 by ring. apply Z.divide_0_r.
    + replace (0 * ca x - ca y) with (- ca y) by ring. apply Z.divide_opp_r, Z.divide_refl.
    + auto.
Qed.

Lemma cg_meet_exact x y v : cgamma (cg_meet x y) v <-> (cgamma x v /\ cgamma y v).
Proof. split. apply cg_meet_below. intros [H1 H2]. apply cg_meet_sound; auto. Qed.

Lemma cg_narrow_sound x y v : cgamma x v -> cgamma y v -> cgamma (cg_narrow x y) v.
Proof. unfold cg_narrow. destruct (cg_is_top x); auto. Qed.

(* narrowing stays below its first argument or refines top *)
Lemma cg_narrow_below x y v : cgamma (cg_narrow x y) v -> cgamma x v.
Proof.
  unfold cg_narrow. destruct (cg_is_top x) eqn:T; auto. intros _. apply cgamma_is_top; auto.
Qed.

(* ------------------------------------------------------------------ arithmetic *)

Ltac bot_top x y Bx By :=
  rewrite Bx, By; simpl;
  try (destruct (cg_is_top x || cg_is_top y); [apply cgamma_top|]).

Lemma cg_add_sound x y u v : cgamma x u -> cgamma y v -> cgamma (cg_add x y) (u + v).
Proof.
  unfold cg_add. intros [Bx Hx] [By Hy]. bot_top x y Bx By.
  apply cgamma_mk.
  replace (u + v - (cb x + cb y)) with ((u - cb x) + (v - cb y)) by ring.
  apply Z.divide_add_r.
  - eapply Z.divide_trans; [apply Z.gcd_divide_l|]; auto.
  - eapply Z.divide_trans; [apply Z.gcd_divide_r|]; auto.
Qed.

Lemma cg_sub_sound x y u v : cgamma x u -> cgamma y v -> cgamma (cg_sub x y) (u - v).
Proof.
  unfold cg_sub. intros [Bx Hx] [By Hy]. bot_top x y Bx By.
  apply cgamma_mk.
  replace (u - v - (cb x - cb y)) with ((u - cb x) - (v - cb y)) by ring.
  apply Z.divide_sub_r.
  - eapply Z.divide_trans; [apply Z.gcd_divide_l|]; auto.
  - eapply Z.divide_trans; [apply Z.gcd_divide_r|]; auto.
Qed.

Lemma cg_neg_sound x u : cgamma x u -> cgamma (cg_neg x) (- u).
Proof.
  unfold cg_neg. intros [Bx Hx]. rewrite Bx. simpl.
  destruct (cg_is_top x) eqn:T. apply cgamma_is_top; auto.
  apply cgamma_mk.
  replace (- u - (- cb x + ca x)) with (- (u - cb x) - ca x) by ring.
  apply Z.divide_sub_r. apply Z.divide_opp_r; auto. apply Z.divide_refl.
Qed.

Lemma cg_mul_sound x y u v : cgamma x u -> cgamma y v -> cgamma (cg_mul x y) (u * v).
Proof.
  unfold cg_mul. intros [Bx Hx] [By Hy]. rewrite Bx, By. simpl.
  match goal with |- context [if ?c then cg_top else _] => destruct c end. apply cgamma_top.
  apply cgamma_mk.
  destruct Hx as [k Hk]. destruct Hy as [k' Hk'].
  set (d := Z.gcd _ _).
  assert (D1 : (d | ca x * ca y)) by apply Z.gcd_divide_l.
  assert (D2 : (d | ca x * cb y)).
  { eapply Z.divide_trans; [apply Z.gcd_divide_r|]. apply Z.gcd_divide_l. }
  assert (D3 : (d | ca y * cb x)).
  { eapply Z.divide_trans; [apply Z.gcd_divide_r|]. apply Z.gcd_divide_r. }
  replace (u * v - cb x * cb y)
    with (k * k' * (ca x * ca y) + k * (ca x * cb y) + k' * (ca y * cb x)) by nia.
  apply Z.divide_add_r; [apply Z.divide_add_r|]; apply Z.divide_mul_r; auto.
Qed.

Lemma cg_eq_const0 y v : cg_eq y (cg_const 0) = true -> cgamma y v -> v = 0.
Proof. intros H G. apply (cg_eq_sound _ _ H) in G. apply cgamma_const in G. auto. Qed.

Lemma cg_div_sound x y u v :
  cgamma x u -> cgamma y v -> v <> 0 -> cgamma (cg_div x y) (Z.quot u v).
Proof.
  unfold cg_div. intros Gx Gy Hv.
  pose proof Gx as [Bx Hx]. pose proof Gy as [By Hy]. rewrite Bx, By. simpl.
  destruct (cg_eq y (cg_const 0)) eqn:E0.
  { exfalso. apply Hv. eapply cg_eq_const0; eauto. }
  destruct (cg_is_top x || cg_is_top y). apply cgamma_top.
  destruct (Z.eqb_spec (ca y) 0) as [Ey|Ey]; [|apply cgamma_top].
  rewrite Ey in Hy. apply div0_eq in Hy. assert (v = cb y) by lia. subst v.
  destruct (Z.eqb_spec (ca x) 0) as [Ex|Ex].
  { rewrite Ex in Hx. apply div0_eq in Hx. apply cgamma_const. f_equal. lia. }
  destruct (Z.rem (ca x) (cb y) =? 0) eqn:R1; simpl; [|apply cgamma_top].
  destruct (Z.rem (cb x) (cb y) =? 0) eqn:R2; simpl; [|apply cgamma_top].
  apply rem0_divide in R1, R2; auto.
  destruct R1 as [p Hp]. destruct R2 as [q Hq]. destruct Hx as [k Hk].
  apply cgamma_mk. rewrite Hp, Hq. rewrite !Z.quot_mul; auto.
  replace u with ((k * p + q) * cb y) by nia. rewrite Z.quot_mul; auto.
  exists k. ring.
Qed.

Lemma cg_rem_sound x y u v :
  cgamma x u -> cgamma y v -> v <> 0 -> cgamma (cg_rem x y) (Z.rem u v).
Proof.
  unfold cg_rem. intros Gx Gy Hv.
  pose proof Gx as [Bx Hx]. pose proof Gy as [By Hy]. rewrite Bx, By. simpl.
  destruct (cg_eq y (cg_const 0)) eqn:E0.
  { exfalso. apply Hv. eapply cg_eq_const0; eauto. }
  destruct (cg_is_top x || cg_is_top y). apply cgamma_top.
  destruct ((ca x =? 0) && (ca y =? 0)) eqn:S.
  - apply andb_true_iff in S. destruct S as [S1 S2]. apply Z.eqb_eq in S1, S2.
    rewrite S1 in Hx. rewrite S2 in Hy. apply div0_eq in Hx, Hy.
    apply cgamma_const. f_equal; lia.
  - apply cgamma_mk.
    set (d := Z.gcd _ _).
    assert (D1 : (d | ca x)) by apply Z.gcd_divide_l.
    assert (D2 : (d | ca y)).
    { eapply Z.divide_trans; [apply Z.gcd_divide_r|]. apply Z.gcd_divide_l. }
    assert (D3 : (d | cb y)).
    { eapply Z.divide_trans; [apply Z.gcd_divide_r|]. apply Z.gcd_divide_r. }
    assert (Dv : (d | v)).
    { replace v with ((v - cb y) + cb y) by ring. apply Z.divide_add_r; auto.
      apply Z.divide_trans with (ca y); auto. }
    pose proof (Z.quot_rem' u v) as Q.
    replace (Z.rem u v - cb x) with ((u - cb x) - v * Z.quot u v) by lia.
    apply Z.divide_sub_r. apply Z.divide_trans with (ca x); auto. apply Z.divide_mul_l; auto.
Qed.

Lemma cg_udiv_sound x y (w : Z) : cgamma (cg_udiv x y) w.
Proof. apply cgamma_top. Qed.
Lemma cg_urem_sound x y (w : Z) : cgamma (cg_urem x y) w.
Proof. apply cgamma_top. Qed.

(* ------------------------------------------------------------------ bitwise *)

Lemma is_zero_gamma x u : cg_is_zero x = true -> cgamma x u -> u = 0.
Proof.
  unfold cg_is_zero. intros H [_ G].
  apply andb_true_iff in H. destruct H as [H H2]. apply andb_true_iff in H. destruct H as [_ H1].
  apply Z.eqb_eq in H1, H2. rewrite H1 in G. apply div0_eq in G. lia.
Qed.

Lemma all_ones_gamma x u : cg_all_ones x = true -> cgamma x u -> u = -1.
Proof.
  unfold cg_all_ones. intros H [_ G].
  apply andb_true_iff in H. destruct H as [H H2]. apply andb_true_iff in H. destruct H as [_ H1].
  apply Z.eqb_eq in H1, H2. rewrite H1 in G. apply div0_eq in G. lia.
Qed.

Lemma both_singletons x y u v :
  (ca x =? 0) && (ca y =? 0) = true -> cgamma x u -> cgamma y v -> u = cb x /\ v = cb y.
Proof.
  intros S [_ Hx] [_ Hy].
  apply andb_true_iff in S. destruct S as [S1 S2]. apply Z.eqb_eq in S1, S2.
  rewrite S1 in Hx. rewrite S2 in Hy. apply div0_eq in Hx, Hy. lia.
Qed.

Lemma cg_and_sound x y u v : cgamma x u -> cgamma y v -> cgamma (cg_and x y) (Z.land u v).
Proof.
  unfold cg_and. intros Gx Gy.
  pose proof Gx as [Bx Hx]. pose proof Gy as [By Hy]. bot_top x y Bx By.
  destruct (cg_is_zero x) eqn:Zx; simpl.
  { rewrite (is_zero_gamma _ _ Zx Gx). rewrite Z.land_0_l. apply cgamma_const; auto. }
  destruct (cg_is_zero y) eqn:Zy; simpl.
  { rewrite (is_zero_gamma _ _ Zy Gy). rewrite Z.land_0_r. apply cgamma_const; auto. }
  destruct (cg_all_ones x) eqn:Ox.
  { rewrite (all_ones_gamma _ _ Ox Gx). rewrite Z.land_m1_l. auto. }
  destruct (cg_all_ones y) eqn:Oy.
  { rewrite (all_ones_gamma _ _ Oy Gy). rewrite Z.land_m1_r. auto. }
  destruct ((ca x =? 0) && (ca y =? 0)) eqn:S; [|apply cgamma_top].
  destruct (both_singletons _ _ _ _ S Gx Gy) as [-> ->]. apply cgamma_const; auto.
Qed.

Lemma cg_or_sound x y u v : cgamma x u -> cgamma y v -> cgamma (cg_or x y) (Z.lor u v).
Proof.
  unfold cg_or. intros Gx Gy.
  pose proof Gx as [Bx Hx]. pose proof Gy as [By Hy]. bot_top x y Bx By.
  destruct (cg_all_ones x) eqn:Ox; simpl.
  { rewrite (all_ones_gamma _ _ Ox Gx). rewrite Z.lor_m1_l. apply cgamma_const; auto. }
  destruct (cg_all_ones y) eqn:Oy; simpl.
  { rewrite (all_ones_gamma _ _ Oy Gy). rewrite Z.lor_m1_r. apply cgamma_const; auto. }
  destruct (cg_is_zero x) eqn:Zx.
  { rewrite (is_zero_gamma _ _ Zx Gx). rewrite Z.lor_0_l. auto. }
  destruct (cg_is_zero y) eqn:Zy.
  { rewrite (is_zero_gamma _ _ Zy Gy). rewrite Z.lor_0_r. auto. }
  destruct ((ca x =? 0) && (ca y =? 0)) eqn:S; [|apply cgamma_top].
  destruct (both_singletons _ _ _ _ S Gx Gy) as [-> ->]. apply cgamma_const; auto.
Qed.

Lemma cg_xor_sound x y u v : cgamma x u -> cgamma y v -> cgamma (cg_xor x y) (Z.lxor u v).
Proof.
  unfold cg_xor. intros Gx Gy.
  pose proof Gx as [Bx Hx]. pose proof Gy as [By Hy]. bot_top x y Bx By.
  destruct (cg_is_zero x) eqn:Zx.
  { rewrite (is_zero_gamma _ _ Zx Gx). rewrite Z.lxor_0_l. auto. }
  destruct (cg_is_zero y) eqn:Zy.
  { rewrite (is_zero_gamma _ _ Zy Gy). rewrite Z.lxor_0_r. auto. }
  destruct ((ca x =? 0) && (ca y =? 0)) eqn:S; [|apply cgamma_top].
  destruct (both_singletons _ _ _ _ S Gx Gy) as [-> ->]. apply cgamma_const; auto.
Qed.

(* ------------------------------------------------------------------ shifts *)

Lemma pow_sub1_divide q j : 0 <= j -> (q - 1 | q ^ j - 1).
Proof.
  intros Hj. pattern j. apply natlike_ind; auto.
  - simpl. apply Z.divide_0_r.
  - intros n Hn IH. rewrite Z.pow_succ_r; auto.
    replace (q * q ^ n - 1) with (q * (q ^ n - 1) + (q - 1)) by ring.
    apply Z.divide_add_r. apply Z.divide_mul_r; auto. apply Z.divide_refl.
Qed.

(* shift amounts are non-negative; the amount operand satisfies the invariant [cwf]
   (remainder in [0,a)), which every constructor establishes *)
Lemma cg_shl_sound x y u k :
  cwf y -> cgamma x u -> cgamma y k -> 0 <= k -> cgamma (cg_shl x y) (Z.shiftl u k).
Proof.
  unfold cg_shl. intros Wy Gx Gy Hk.
  pose proof Gx as [Bx Hx]. pose proof Gy as [By Hy]. bot_top x y Bx By.
  rewrite Z.shiftl_mul_pow2; auto.
  destruct (Z.eqb_spec (ca y) 0) as [Ey|Ey].
  - rewrite Ey in Hy. apply div0_eq in Hy. assert (k = cb y) by lia. subst k.
    destruct (Z.ltb_spec (cb y) 0); [lia|].
    apply cgamma_mk. unfold pow2. rewrite Z.abs_eq; auto.
    replace (u * 2 ^ cb y - cb x * 2 ^ cb y) with ((u - cb x) * 2 ^ cb y) by ring.
    apply Z.mul_divide_mono_r; auto.
  - destruct Wy as [W1 [W2 _]]. specialize (W2 Ey).
    apply cgamma_mk. unfold pow2. rewrite (Z.abs_eq (cb y)), (Z.abs_eq (ca y)); try lia.
    destruct Hy as [j Hj].
    assert (Hj0 : 0 <= j) by nia.
    replace k with (ca y * j + cb y) by lia.
    rewrite Z.pow_add_r; try nia. rewrite Z.pow_mul_r; try lia.
    set (q := 2 ^ ca y). set (p := 2 ^ cb y).
    replace (u * (q ^ j * p) - cb x * p) with ((u * q ^ j - cb x) * p) by ring.
    apply Z.mul_divide_mono_r.
    replace (u * q ^ j - cb x) with ((u - cb x) * q ^ j + cb x * (q ^ j - 1)) by ring.
    apply Z.divide_add_r.
    + apply Z.divide_mul_l. eapply Z.divide_trans; [apply Z.gcd_divide_l|]; auto.
    + eapply Z.divide_trans; [apply Z.gcd_divide_r|].
      apply Z.mul_divide_mono_l. apply pow_sub1_divide; auto.
Qed.

Lemma cg_shr_via_sound (f : itv -> itv -> itv) (op : Z -> Z -> Z) x y u k :
  (forall n m, 0 <= m -> gamma (f (iconst n) (iconst m)) (op n m)) ->
  cgamma x u -> cgamma y k -> 0 <= k -> cgamma (cg_shr_via f x y) (op u k).
Proof.
  unfold cg_shr_via. intros F Gx Gy Hk.
  pose proof Gx as [Bx Hx]. pose proof Gy as [By Hy]. bot_top x y Bx By.
  destruct ((ca y =? 0) && (cb y <? 0)) eqn:N.
  { exfalso. apply andb_true_iff in N. destruct N as [N1 N2].
    apply Z.eqb_eq in N1. apply Z.ltb_lt in N2.
    rewrite N1 in Hy. apply div0_eq in Hy. lia. }
  destruct (cg_singleton x) as [n|] eqn:Sx; [|apply cgamma_top].
  destruct (cg_singleton y) as [m|] eqn:Sy; [|apply cgamma_top].
  apply (cg_singleton_spec _ _ Sx) in Gx. apply (cg_singleton_spec _ _ Sy) in Gy. subst.
  destruct (isingleton _) as [r|] eqn:Sr; [|apply cgamma_top].
  apply cgamma_const. apply (isingleton_spec _ _ Sr). apply F; auto.
Qed.

Lemma cg_ashr_sound x y u k :
  cgamma x u -> cgamma y k -> 0 <= k -> cgamma (cg_ashr x y) (Z.shiftr u k).
Proof.
  apply cg_shr_via_sound. intros n m Hm.
  apply iashr_sound; auto; apply gamma_iconst; auto.
Qed.

(* logical shift right: as for intervals, the result is constrained only when the
   shifted value is non-negative (then it coincides with the arithmetic shift) *)
Lemma cg_lshr_sound x y u k :
  cgamma x u -> cgamma y k -> 0 <= k ->
  forall r, (0 <= u -> r = Z.shiftr u k) -> cgamma (cg_lshr x y) r.
Proof.
  intros Gx Gy Hk r Hr. unfold cg_lshr, cg_shr_via.
  pose proof Gx as [Bx Hx]. pose proof Gy as [By Hy]. bot_top x y Bx By.
  destruct ((ca y =? 0) && (cb y <? 0)) eqn:N.
  { exfalso. apply andb_true_iff in N. destruct N as [N1 N2].
    apply Z.eqb_eq in N1. apply Z.ltb_lt in N2.
    rewrite N1 in Hy. apply div0_eq in Hy. lia. }
  destruct (cg_singleton x) as [n|] eqn:Sx; [|apply cgamma_top].
  destruct (cg_singleton y) as [m|] eqn:Sy; [|apply cgamma_top].
  apply (cg_singleton_spec _ _ Sx) in Gx. apply (cg_singleton_spec _ _ Sy) in Gy. subst.
  destruct (isingleton _) as [r'|] eqn:Sr; [|apply cgamma_top].
  apply cgamma_const. apply (isingleton_spec _ _ Sr).
  apply (ilshr_sound (iconst n) (iconst m) n m); auto; apply gamma_iconst; auto.
Qed.

(* ------------------------------------------------------------------ invariant *)

Lemma cwf_join x y : cwf x -> cwf y -> cwf (cg_join x y).
Proof.
  unfold cg_join. intros Wx Wy.
  destruct (cbot x); auto. destruct (cbot y); auto.
  destruct (cg_is_top x || cg_is_top y). apply cwf_top. apply cwf_mk.
Qed.

Lemma cwf_meet x y : cwf x -> cwf y -> cwf (cg_meet x y).
Proof.
  unfold cg_meet. intros Wx Wy.
  destruct (cbot x || cbot y). apply cwf_bot.
  destruct ((ca x =? 0) && (ca y =? 0)). destruct (cb x =? cb y); auto using cwf_bot.
  destruct (ca x =? 0). destruct (Z.rem _ _ =? 0); auto using cwf_bot.
  destruct (ca y =? 0). destruct (Z.rem _ _ =? 0); auto using cwf_bot.
  destruct (egcd _ _ _ _ _) as [[g s]|]; [|apply cwf_top].
  destruct (Z.rem _ _ =? 0); auto using cwf_bot, cwf_mk.
Qed.

Lemma cwf_add x y : cwf (cg_add x y).
Proof.
  unfold cg_add. destruct (cbot x || cbot y). apply cwf_bot.
  destruct (cg_is_top x || cg_is_top y). apply cwf_top. apply cwf_mk.
Qed.
Lemma cwf_sub x y : cwf (cg_sub x y).
Proof.
  unfold cg_sub. destruct (cbot x || cbot y). apply cwf_bot.
  destruct (cg_is_top x || cg_is_top y). apply cwf_top. apply cwf_mk.
Qed.
Lemma cwf_mul x y : cwf (cg_mul x y).
Proof.
  unfold cg_mul. destruct (cbot x || cbot y). apply cwf_bot.
  match goal with |- context [if ?c then cg_top else _] => destruct c end.
  apply cwf_top. apply cwf_mk.
Qed.
Lemma cwf_neg x : cwf x -> cwf (cg_neg x).
Proof. unfold cg_neg. intros W. destruct (cbot x || cg_is_top x); auto. apply cwf_mk. Qed.
Lemma cwf_div x y : cwf (cg_div x y).
Proof.
  unfold cg_div. destruct (cbot x || cbot y). apply cwf_bot.
  destruct (cg_eq y (cg_const 0)). apply cwf_bot.
  destruct (cg_is_top x || cg_is_top y). apply cwf_top.
  destruct (ca y =? 0); [|apply cwf_top].
  destruct (ca x =? 0). apply cwf_const.
  destruct (_ && _); auto using cwf_top, cwf_mk.
Qed.
Lemma cwf_rem x y : cwf (cg_rem x y).
Proof.
  unfold cg_rem. destruct (cbot x || cbot y). apply cwf_bot.
  destruct (cg_eq y (cg_const 0)). apply cwf_bot.
  destruct (cg_is_top x || cg_is_top y). apply cwf_top.
  destruct (_ && _); auto using cwf_const, cwf_mk.
Qed.
Lemma cwf_shl x y : cwf (cg_shl x y).
Proof.
  unfold cg_shl. destruct (cbot x || cbot y). apply cwf_bot.
  destruct (cg_is_top x || cg_is_top y). apply cwf_top.
  destruct (ca y =? 0); [|apply cwf_mk].
  destruct (cb y <? 0); auto using cwf_bot, cwf_mk.
Qed.

(* non-vacuity: 4 is in both 2Z+0 and 3Z+1 and in their meet 6Z+4 (the pinned code
   answered 6Z+1) *)
Example cg_meet_example :
  cg_meet (cg_mk 2 0) (cg_mk 3 1) = cg_mk 6 4 /\ cgamma (cg_mk 2 0) 4 /\ cgamma (cg_mk 3 1) 4
  /\ cgamma (cg_meet (cg_mk 2 0) (cg_mk 3 1)) 4.
Proof.
  split. vm_compute. reflexivity.
  split; [|split].
  - split. reflexivity. exists 2. reflexivity.
  - split. reflexivity. exists 1. reflexivity.
  - split. reflexivity. exists 0. reflexivity.
Qed.
Example cg_div_example : cgamma (cg_mk 4 1) (-3) /\ cg_div (cg_mk 4 1) (cg_const 2) = cg_top.
Proof. split. split. reflexivity. exists (-1). reflexivity. vm_compute. reflexivity. Qed.
