(* DisItvSound.v — concretisation of disjunctive intervals (finite unions of intervals) and
   soundness of every operation of DisItv.v. *)
From Coq Require Import ZArith Lia Bool List.
From CrabV Require Import Base.ZInf Scalar.Itv Scalar.ItvSound Scalar.DisItv.
Import ListNotations.
Local Open Scope Z_scope.

Definition lgamma (l : list itv) (x : Z) : Prop := exists i, In i l /\ gamma i x.

Definition dgamma (d : di) (x : Z) : Prop :=
  match d with DBot => False | DTop => True | DFin l => lgamma l x end.

(* lists produced by normalize(): non-empty intervals with non-decreasing bounds *)
Fixpoint sorted2 (l : list itv) : Prop :=
  match l with
  | [] => True
  | a :: r => is_bot a = false /\
              match r with
              | [] => True
              | b :: _ => ble (lb a) (lb b) = true /\ ble (ub a) (ub b) = true
              end /\ sorted2 r
  end.

(* representation invariant of the FINITE state (one interval: anything) *)
Definition dwf (d : di) : Prop :=
  match d with DFin (a :: b :: r) => sorted2 (a :: b :: r) | _ => True end.

Lemma lgamma_nil x : ~ lgamma [] x.
Proof. intros [i [H _]]. destruct H. Qed.
Lemma lgamma_cons a l x : lgamma (a :: l) x <-> (gamma a x \/ lgamma l x).
Proof.
  unfold lgamma; split.
  - intros [i [[H|H] G]]; [subst; auto | right; eauto].
  - intros [G|[i [H G]]]; [exists a | exists i]; simpl; auto.
Qed.
Lemma lgamma_app l1 l2 x : lgamma (l1 ++ l2) x <-> (lgamma l1 x \/ lgamma l2 x).
Proof.
  unfold lgamma; split.
  - intros [i [H G]]. apply in_app_or in H. destruct H; [left | right]; eauto.
  - intros [[i [H G]]|[i [H G]]]; exists i; split; auto; apply in_or_app; auto.
Qed.
Lemma lgamma_rev l x : lgamma (rev l) x <-> lgamma l x.
Proof. unfold lgamma; split; intros [i [H G]]; exists i; split; auto; apply in_rev; auto.
  rewrite rev_involutive; auto. Qed.
Lemma lgamma_incl l1 l2 x : incl l1 l2 -> lgamma l1 x -> lgamma l2 x.
Proof. intros I [i [H G]]. exists i; auto. Qed.

(* ------------------------------------------------------------------ approx *)

Lemma ijoin_hull a z x :
  is_bot a = false -> is_bot z = false ->
  ble (lb a) (Fin x) = true -> ble (Fin x) (ub z) = true -> gamma (ijoin a z) x.
Proof.
  intros Ba Bz H1 H2. unfold ijoin. rewrite Ba, Bz. apply gamma_imk. split.
  - eapply ble_trans; [apply bmin_le_l|]; auto.
  - eapply ble_trans; [|apply bmax_ge_r]; auto.
Qed.

Lemma last_cons_indep : forall (r : list itv) b d d', last (b :: r) d = last (b :: r) d'.
Proof. induction r as [|c r IH]; intros; [reflexivity|]. apply (IH c d d'). Qed.

Lemma sorted2_bounds : forall r a i,
  sorted2 (a :: r) -> In i (a :: r) ->
  ble (lb a) (lb i) = true /\ ble (ub i) (ub (last (a :: r) a)) = true /\
  is_bot (last (a :: r) a) = false.
Proof.
  induction r as [|b r IH]; intros a i S H.
  - destruct H as [H|[]]. subst. simpl. repeat split; try apply ble_refl. apply S.
  - destruct S as (Ba & (L & U) & S').
    destruct H as [H|H].
    + subst. destruct (IH b b S' (or_introl eq_refl)) as (_ & U' & B').
      change (last (i :: b :: r) i) with (last (b :: r) i).
      rewrite (last_cons_indep r b i b).
      repeat split; auto. apply ble_refl. eapply ble_trans; eauto.
    + destruct (IH b i S' H) as (L' & U' & B').
      change (last (a :: b :: r) a) with (last (b :: r) a).
      rewrite (last_cons_indep r b a b).
      repeat split; auto. eapply ble_trans; eauto.
Qed.

Definition short_or_sorted (l : list itv) : Prop :=
  match l with a :: b :: r => sorted2 l | _ => True end.

Lemma approx_sound l x : short_or_sorted l -> lgamma l x -> gamma (approx_list l) x.
Proof.
  destruct l as [|a [|b r]]; intros S G.
  - elim (lgamma_nil _ G).
  - destruct G as [i [[H|[]] G]]. subst. auto.
  - destruct G as [i [H G]].
    destruct (sorted2_bounds (b :: r) a i S H) as (L & U & B).
    destruct G as [G1 G2].
    change (approx_list (a :: b :: r)) with (ijoin a (last (a :: b :: r) a)).
    apply ijoin_hull; auto. apply S.
    eapply ble_trans; eauto. eapply ble_trans; eauto.
Qed.

(* ------------------------------------------------------------------ sorting *)

Fixpoint lbs (l : list itv) : Prop :=
  match l with
  | [] => True
  | a :: r => (forall i, In i r -> ble (lb a) (lb i) = true) /\ lbs r
  end.

Lemma insert_lb_in x l i : In i (insert_lb x l) <-> (i = x \/ In i l).
Proof.
  induction l as [|y r IH]; simpl. intuition.
  destruct (lb_lt y x); simpl; rewrite ?IH; intuition.
Qed.
Lemma sort_lb_in l i : In i (sort_lb l) <-> In i l.
Proof. induction l; simpl. tauto. rewrite insert_lb_in, IHl. intuition. Qed.
Lemma insert_lb_length x l : length (insert_lb x l) = S (length l).
Proof. induction l as [|y r IH]; simpl; auto. destruct (lb_lt y x); simpl; auto. Qed.
Lemma sort_lb_length l : length (sort_lb l) = length l.
Proof. induction l; simpl; auto. rewrite insert_lb_length; auto. Qed.

Lemma lb_lt_false a b : lb_lt a b = false -> ble (lb b) (lb a) = true.
Proof.
  unfold lb_lt. intros H. apply andb_false_iff in H. destruct H as [H|H].
  - apply ble_false_flip; auto.
  - apply negb_false_iff in H. apply beqb_eq in H. rewrite H. apply ble_refl.
Qed.
Lemma lb_lt_true a b : lb_lt a b = true -> ble (lb a) (lb b) = true.
Proof. unfold lb_lt. intros H. apply andb_true_iff in H. tauto. Qed.

Lemma insert_lb_sorted x l : lbs l -> lbs (insert_lb x l).
Proof.
  induction l as [|y r IH]; simpl; intros S. { split; [intros i []|exact I]. }
  destruct S as [S1 S2]. destruct (lb_lt y x) eqn:E; simpl.
  - split; auto. intros i H. apply insert_lb_in in H. destruct H as [->|H]; auto.
    apply lb_lt_true; auto.
  - apply lb_lt_false in E. split; [|split; auto].
    intros i [->|H]; auto. eapply ble_trans; eauto.
Qed.
Lemma sort_lb_sorted l : lbs (sort_lb l).
Proof. induction l; simpl; auto. apply insert_lb_sorted; auto. Qed.

Fixpoint count_bot (l : list itv) : nat :=
  match l with [] => O | a :: r => (if is_bot a then 1 else 0) + count_bot r end.
Lemma count_bot_le l : (count_bot l <= length l)%nat.
Proof. induction l; simpl; auto. destruct (is_bot a); simpl; lia. Qed.
Lemma count_bot_all l i : count_bot l = length l -> In i l -> is_bot i = true.
Proof.
  induction l as [|a r IH]; simpl; intros E H. destruct H.
  pose proof (count_bot_le r). destruct (is_bot a) eqn:B; simpl in E; [|lia].
  destruct H as [->|H]; auto.
Qed.

(* ------------------------------------------------------------------ merging *)

(* reversed result vectors: every interval is non-empty and dominated (in both bounds) by
   the ones pushed after it *)
Fixpoint rs (res : list itv) : Prop :=
  match res with
  | [] => True
  | q :: r => is_bot q = false /\
              (forall p, In p r -> ble (lb p) (lb q) = true /\ ble (ub p) (ub q) = true) /\ rs r
  end.

Lemma sorted2_snoc l q :
  sorted2 l -> is_bot q = false ->
  (forall p, In p l -> ble (lb p) (lb q) = true /\ ble (ub p) (ub q) = true) ->
  sorted2 (l ++ [q]).
Proof.
  induction l as [|a r IH]; simpl; intros S B H. auto.
  destruct S as (Ba & Adj & S'). split; auto. split.
  - destruct r as [|b r']; simpl. apply H; auto. auto.
  - apply IH; auto.
Qed.

Lemma rs_sorted2 res : rs res -> sorted2 (rev res).
Proof.
  induction res as [|q r IH]; simpl; intros R. auto.
  destruct R as (B & D & R'). apply sorted2_snoc; auto.
  intros p H. apply D. apply in_rev; auto.
Qed.

Lemma ijoin_nonbot a b : is_bot b = false -> is_bot (ijoin a b) = false.
Proof.
  intros B. unfold ijoin. destruct (is_bot a) eqn:A; auto. rewrite B.
  unfold imk, bgt.
  assert (H : ble (bmin (lb a) (lb b)) (bmax (ub a) (ub b)) = true).
  { eapply ble_trans; [apply bmin_le_r|]. eapply ble_trans; [|apply bmax_ge_r].
    apply is_bot_false_ble; auto. }
  rewrite H. simpl. unfold is_bot, bgt. simpl. rewrite H. reflexivity.
Qed.

Lemma ijoin_bounds a b :
  is_bot a = false -> is_bot b = false ->
  lb (ijoin a b) = bmin (lb a) (lb b) /\ ub (ijoin a b) = bmax (ub a) (ub b).
Proof.
  intros A B. unfold ijoin. rewrite A, B. unfold imk, bgt.
  assert (H : ble (bmin (lb a) (lb b)) (bmax (ub a) (ub b)) = true).
  { eapply ble_trans; [apply bmin_le_r|]. eapply ble_trans; [|apply bmax_ge_r].
    apply is_bot_false_ble; auto. }
  rewrite H. simpl. auto.
Qed.

(* two non-empty intervals that do not overlap, the first one starting first *)
Lemma no_overlap_ub p i :
  is_bot p = false -> is_bot i = false -> ble (lb p) (lb i) = true -> overlap p i = false ->
  ble (ub p) (ub i) = true.
Proof.
  intros Bp Bi L O. unfold overlap in O. apply negb_false_iff in O.
  unfold imeet in O. rewrite Bp, Bi in O. simpl in O.
  destruct (ble (ub p) (ub i)) eqn:U; auto. exfalso.
  unfold bmax in O. rewrite L in O. unfold bmin in O. rewrite U in O.
  unfold imk, bgt in O. rewrite (is_bot_false_ble _ Bi) in O. simpl in O.
  unfold is_bot, bgt in O. simpl in O. rewrite (is_bot_false_ble _ Bi) in O. discriminate.
Qed.

Lemma merge_back_spec : forall res intv prev res1 intv1 prev1 sk,
  merge_back res intv prev = (res1, intv1, prev1, sk) ->
  (exists popped, res = popped ++ res1) /\
  (forall x, lgamma res x \/ gamma intv x ->
             if sk then lgamma res1 x else (lgamma res1 x \/ gamma intv1 x)) /\
  (sk = true -> In prev1 res1) /\
  (rs res -> is_bot intv = false ->
   (forall p, In p res -> ble (lb p) (lb intv) = true) ->
   rs res1 /\ (sk = false -> rs (intv1 :: res1) /\ ble (lb intv1) (lb intv) = true)).
Proof.
  induction res as [|p r IH]; intros intv prev res1 intv1 prev1 sk H; simpl in H.
  - inversion H; subst.
    split; [exists []; reflexivity|]. split; [intros x [G|G]; auto|]. split; [discriminate|].
    intros _ Bi _. split; [exact I|]. intros _. split; [|apply ble_refl].
    simpl. intuition.
  - destruct (overlap p intv || are_consecutive p intv) eqn:OC.
    + apply IH in H. destruct H as ((pop & E) & S & P & R).
      split; [|split; [|split]]; auto.
      * exists (p :: pop). simpl. rewrite E. reflexivity.
      * intros x G. apply S. destruct G as [G|G].
        -- apply lgamma_cons in G. destruct G as [G|G]; auto. right. apply ijoin_sound_l; auto.
        -- right. apply ijoin_sound_r; auto.
      * intros (Bp & D & R') Bi L.
        destruct (ijoin_bounds p intv Bp Bi) as [EL EU].
        destruct R as [R1 R2]; auto.
        -- apply ijoin_nonbot; auto.
        -- intros q Hq. rewrite EL. apply bmin_glb. apply D; auto. apply L; right; auto.
        -- split; auto. intros N. destruct (R2 N) as [R3 R4]. split; auto.
           eapply ble_trans; [exact R4|]. rewrite EL. apply bmin_le_r.
    + apply orb_false_iff in OC. destruct OC as [O C].
      destruct (ileq intv p) eqn:LE; inversion H; subst; clear H.
      * split; [|split; [|split]].
        -- exists []. reflexivity.
        -- intros x [G|G]; auto. apply lgamma_cons. left. apply (ileq_sound _ _ LE); auto.
        -- intros _. left; auto.
        -- intros R Bi L. split; auto. discriminate.
      * split; [|split; [|split]].
        -- exists []. reflexivity.
        -- intros x [G|G]; auto.
        -- discriminate.
        -- intros R Bi L. split; auto. intros _. split; [|apply ble_refl].
           destruct R as (Bp & D & R'). split; auto. split; [|simpl; auto].
           intros q [<-|Hq].
           ++ split. apply L; left; auto. apply no_overlap_ub; auto. apply L; left; auto.
           ++ split. apply L; right; auto.
              eapply ble_trans. apply D; auto.
              apply no_overlap_ub; auto. apply L; left; auto.
Qed.

(* ------------------------------------------------------------------ normalize *)

Lemma ieq_itop i : ieq itop i = true -> is_top i = true.
Proof.
  unfold ieq, is_top. simpl. intros H. apply andb_true_iff in H. destruct H as [H1 H2].
  destruct (lb i), (ub i); simpl in *; try discriminate; auto.
Qed.

Lemma norm_loop_spec : forall l res prev b out b',
  norm_loop l res prev b = Some (out, b') ->
  lbs l -> rs res -> ((prev = itop /\ res = []) \/ In prev res) ->
  (forall p, In p res -> is_top p = false) ->
  (forall p i, In p res -> In i l -> ble (lb p) (lb i) = true) ->
  sorted2 out /\ (forall x, lgamma l x \/ lgamma res x -> lgamma out x) /\
  b' = (b + count_bot l)%nat.
Proof.
  induction l as [|intv tl IH]; intros res prev b out b' H S R P NT O; simpl in H.
  - inversion H; subst. split; [apply rs_sorted2; auto|]. split; [|simpl; lia].
    intros x [G|G]. elim (lgamma_nil _ G). apply lgamma_rev; auto.
  - destruct S as [S1 S2].
    assert (O' : forall res', incl res' res -> forall p i, In p res' -> In i tl -> ble (lb p) (lb i) = true).
    { intros res' I p i Hp Hi. apply O; auto. right; auto. }
    destruct (is_bot intv) eqn:Bi.
    { apply IH in H; auto.
      - destruct H as (H1 & H2 & H3). split; auto. split.
        + intros x [G|G]; apply H2; auto. apply lgamma_cons in G. destruct G as [G|G]; auto.
          elim (is_bot_gamma_empty _ _ Bi G).
        + simpl. rewrite Bi. lia.
      - apply O'. apply incl_refl. }
    destruct (is_top intv) eqn:Ti; [discriminate|].
    destruct (ieq prev intv) eqn:Eq.
    { apply IH in H; auto.
      - destruct H as (H1 & H2 & H3). split; auto. split.
        + intros x [G|G]; apply H2; auto. apply lgamma_cons in G. destruct G as [G|G]; auto.
          right. destruct P as [[-> _]|P].
          * apply ieq_itop in Eq. congruence.
          * exists prev. split; auto. apply (ieq_sound _ _ Eq); auto.
        + simpl. rewrite Bi. lia.
      - apply O'. apply incl_refl. }
    assert (K : forall res1 intv1 prev1 (sk : bool),
              (exists popped, res = popped ++ res1) ->
              (forall x, lgamma res x \/ gamma intv x ->
                         if sk then lgamma res1 x else (lgamma res1 x \/ gamma intv1 x)) ->
              (sk = true -> In prev1 res1) ->
              rs res1 -> (sk = false -> rs (intv1 :: res1) /\ ble (lb intv1) (lb intv) = true) ->
              (if sk then norm_loop tl res1 prev1 b
               else if is_top intv1 then None else norm_loop tl (intv1 :: res1) intv1 b)
              = Some (out, b') ->
              sorted2 out /\ (forall x, lgamma (intv :: tl) x \/ lgamma res x -> lgamma out x) /\
              b' = (b + count_bot (intv :: tl))%nat).
    { intros res1 intv1 prev1 sk [pop E] Snd Pr R1 R2 H'.
      assert (I1 : incl res1 res). { rewrite E. apply incl_appr, incl_refl. }
      destruct sk.
      - apply IH in H'; auto.
        + destruct H' as (H1 & H2 & H3). split; auto. split.
          * intros x G. apply H2. rewrite lgamma_cons in G.
            destruct G as [[G|G]|G]; auto; right; apply (Snd x); auto.
          * simpl. rewrite Bi. lia.
        + apply (O' res1); auto.
      - destruct (is_top intv1) eqn:T1; [discriminate|].
        destruct (R2 eq_refl) as [R3 R4].
        apply IH in H'; auto.
        + destruct H' as (H1 & H2 & H3). split; auto. split.
          * intros x G. apply H2. rewrite lgamma_cons in G. rewrite lgamma_cons.
            destruct G as [[G|G]|G]; auto; destruct (Snd x) as [G'|G']; auto.
          * simpl. rewrite Bi. lia.
        + right. left; auto.
        + intros p [<-|Hp]; auto.
        + intros p i [<-|Hp] Hi.
          * eapply ble_trans; [exact R4|]. apply S1; auto.
          * apply (O' res1); auto. }
    destruct (is_top prev) eqn:TP.
    + destruct P as [[-> ->]|P]; [|rewrite (NT _ P) in TP; discriminate].
      apply (K [] intv itop false); auto.
      * exists []. reflexivity.
      * discriminate.
      * intros _. split; [|apply ble_refl]. simpl. intuition.
    + destruct (merge_back res intv prev) as [[[res1 intv1] prev1] sk] eqn:MB.
      destruct (merge_back_spec _ _ _ _ _ _ _ MB) as (E & Snd & Pr & RR).
      destruct RR as [R1 R2]; auto.
      { intros p Hp. apply O; auto. left; auto. }
      apply (K res1 intv1 prev1 sk); auto.
Qed.

Lemma normalize_spec l res isbot :
  normalize l = (res, isbot) ->
  short_or_sorted res /\
  (forall x, lgamma l x -> isbot = false /\ (res = [] \/ lgamma res x)).
Proof.
  unfold normalize. destruct l as [|a [|b r]].
  - intros H; inversion H; subst. split; simpl; auto.
  - intros H; inversion H; subst. split; simpl; auto.
  - set (l := a :: b :: r).
    destruct (norm_loop (sort_lb l) [] itop 0) as [[out bt]|] eqn:N.
    + intros H. injection H as <- <-.
      apply norm_loop_spec in N.
      * destruct N as (N1 & N2 & N3). split.
        { destruct out as [|c [|d t]]; simpl; auto. }
        intros x [i [Hi G]].
        assert (G' : lgamma (sort_lb l) x) by (exists i; split; auto; apply sort_lb_in; auto).
        split; [|right; apply N2; auto].
        apply Nat.eqb_neq. intros E.
        assert (E' : count_bot (sort_lb l) = length (sort_lb l)).
        { rewrite sort_lb_length. transitivity bt. rewrite N3; reflexivity. exact E. }
        apply (is_bot_gamma_empty i x); auto.
        apply (count_bot_all (sort_lb l)); auto. apply sort_lb_in; auto.
      * apply sort_lb_sorted.
      * exact I.
      * left; auto.
      * intros p [].
      * intros p i [].
    + intros H; inversion H; subst. split; simpl; auto.
Qed.

Lemma di_of_list_sound l x : lgamma l x -> dgamma (di_of_list l) x.
Proof.
  intros G. unfold di_of_list. destruct (normalize l) as [res isbot] eqn:N.
  destruct (normalize_spec _ _ _ N) as [S H]. destruct (H x G) as [-> [->|G']]. simpl; auto.
  destruct res as [|c t]. elim (lgamma_nil _ G').
  match goal with |- context [if ?c then _ else _] => destruct c end; simpl; auto.
  exists (approx_list (c :: t)). split; [left; auto|]. apply approx_sound; auto.
Qed.

Lemma di_of_list_wf l : dwf (di_of_list l).
Proof.
  unfold di_of_list. destruct (normalize l) as [res isbot] eqn:N.
  destruct (normalize_spec _ _ _ N) as [S _]. destruct isbot; simpl; auto.
  destruct res as [|c t]; simpl; auto.
  match goal with |- context [if ?c then _ else _] => destruct c end; simpl; auto.
  destruct t; auto.
Qed.

Lemma di_of_itv_sound i x : gamma i x -> dgamma (di_of_itv i) x.
Proof.
  intros G. unfold di_of_itv. destruct (is_top i); simpl; auto.
  rewrite (gamma_not_bot _ _ G). exists i; simpl; auto.
Qed.
Lemma di_of_itv_exact i x : wf i -> dgamma (di_of_itv i) x -> gamma i x.
Proof.
  intros W. unfold di_of_itv. destruct (is_top i) eqn:T.
  - intros _. unfold is_top in T. unfold gamma. destruct W as [W|(W1 & W2 & _)].
    + rewrite W in T. discriminate.
    + destruct (lb i), (ub i); simpl in *; try discriminate; auto; congruence.
  - destruct (is_bot i); simpl. tauto. intros [j [[<-|[]] G]]; auto.
Qed.
Lemma di_of_itv_wf i : dwf (di_of_itv i).
Proof. unfold di_of_itv. destruct (is_top i); simpl; auto. destruct (is_bot i); simpl; auto. Qed.

Lemma dgamma_bot x : ~ dgamma DBot x.
Proof. simpl; auto. Qed.
Lemma dgamma_top x : dgamma DTop x.
Proof. simpl; auto. Qed.

Lemma di_approx_sound d x : dwf d -> dgamma d x -> gamma (di_approx d) x.
Proof.
  destruct d as [| |l]; simpl; intros W G. contradiction. apply gamma_top.
  apply approx_sound; auto. destruct l as [|a [|b r]]; simpl; auto.
Qed.

Lemma di_singleton_sound d n x : dwf d -> di_singleton d = Some n -> dgamma d x -> x = n.
Proof.
  unfold di_singleton. intros W S G. apply (isingleton_spec _ _ S). apply di_approx_sound; auto.
Qed.

(* ------------------------------------------------------------------ order *)

Lemma leq_skip_spec a l2 :
  match leq_skip a l2 with
  | [] => True
  | b :: r => ileq a b = true /\ incl (b :: r) l2
  end.
Proof.
  induction l2 as [|b r IH]; simpl; auto.
  destruct (ileq a b) eqn:E. split; auto. apply incl_refl.
  destruct (leq_skip a r) as [|c t]; auto. destruct IH as [H1 H2]. split; auto.
  apply incl_tl; auto.
Qed.

Lemma leq_loop_sound : forall l1 l2, leq_loop l1 l2 = true -> forall x, lgamma l1 x -> lgamma l2 x.
Proof.
  induction l1 as [|a r IH]; intros l2 H x G. elim (lgamma_nil _ G).
  simpl in H. pose proof (leq_skip_spec a l2) as K.
  destruct (leq_skip a l2) as [|b t]; [discriminate|]. destruct K as [K1 K2].
  apply lgamma_cons in G. destruct G as [G|G].
  - exists b. split. apply K2; left; auto. apply (ileq_sound _ _ K1); auto.
  - apply (lgamma_incl (b :: t)); auto.
Qed.

Lemma di_leq_sound a b : di_leq a b = true -> forall x, dgamma a x -> dgamma b x.
Proof.
  destruct a as [| |l1], b as [| |l2]; simpl; intros H x G; try discriminate; auto; try contradiction.
  eapply leq_loop_sound; eauto.
Qed.

Lemma leq_skip_suffix a r : forall pre, exists pre', leq_skip a (pre ++ a :: r) = pre' ++ a :: r.
Proof.
  induction pre as [|b p IH]; simpl.
  - rewrite ileq_refl. exists []. reflexivity.
  - destruct (ileq a b). exists (b :: p). reflexivity. exact IH.
Qed.

Lemma leq_loop_suffix : forall l pre, leq_loop l (pre ++ l) = true.
Proof.
  induction l as [|a r IH]; intros pre; simpl; auto.
  destruct (leq_skip_suffix a r pre) as [pre' E]. rewrite E.
  destruct (pre' ++ a :: r) as [|c t] eqn:E2.
  - destruct pre'; discriminate.
  - rewrite <- E2. replace (pre' ++ a :: r) with ((pre' ++ [a]) ++ r). apply IH.
    rewrite <- app_assoc. reflexivity.
Qed.

Lemma di_leq_refl a : di_leq a a = true.
Proof. destruct a as [| |l]; simpl; auto. apply (leq_loop_suffix l []). Qed.

Lemma list_eq_sound : forall l1 l2, list_eq l1 l2 = true -> forall x, lgamma l1 x <-> lgamma l2 x.
Proof.
  induction l1 as [|a r IH]; destruct l2 as [|b t]; simpl; intros H x; try discriminate. tauto.
  apply andb_true_iff in H. destruct H as [H1 H2].
  rewrite !lgamma_cons, (ieq_sound _ _ H1 x), (IH _ H2 x). tauto.
Qed.

Lemma di_eq_sound a b : di_eq a b = true -> forall x, dgamma a x <-> dgamma b x.
Proof.
  destruct a as [| |l1], b as [| |l2]; simpl; intros H x; try discriminate; try tauto.
  apply list_eq_sound; auto.
Qed.

(* ------------------------------------------------------------------ transfer functions *)

Lemma collect_spec : forall l acc,
  match collect l acc with
  | None => True
  | Some res => forall x, lgamma l x \/ lgamma acc x -> lgamma res x
  end.
Proof.
  induction l as [|i r IH]; intros acc; simpl.
  - intros x [G|G]. elim (lgamma_nil _ G). apply lgamma_rev; auto.
  - destruct (is_bot i) eqn:B.
    + specialize (IH acc). destruct (collect r acc); auto. intros x [G|G]; apply IH; auto.
      apply lgamma_cons in G. destruct G as [G|G]; auto. elim (is_bot_gamma_empty _ _ B G).
    + destruct (is_top i); auto.
      specialize (IH (i :: acc)). destruct (collect r (i :: acc)); auto.
      intros x G. apply IH. rewrite lgamma_cons in *. tauto.
Qed.

Lemma di_collect_sound l x : lgamma l x -> dgamma (di_collect l) x.
Proof.
  intros G. unfold di_collect. pose proof (collect_spec l []) as K.
  destruct (collect l []) as [res|]; simpl; auto.
  assert (G' : lgamma res x) by (apply K; auto).
  destruct res. elim (lgamma_nil _ G'). apply di_of_list_sound; auto.
Qed.

Lemma di_collect_wf l : dwf (di_collect l).
Proof.
  unfold di_collect. destruct (collect l []) as [[|a r]|]; simpl; auto. apply di_of_list_wf.
Qed.

Lemma pairwise_in (f : itv -> itv -> itv) l1 l2 a b :
  In a l1 -> In b l2 -> In (f a b) (pairwise f l1 l2).
Proof.
  intros Ha Hb. unfold pairwise. apply in_flat_map. exists a. split; auto.
  apply in_map_iff. exists b; auto.
Qed.

Lemma di_binop_sound op sc (f : Z -> Z -> Z) (P : Z -> Z -> Prop) x y u v :
  (forall a b, gamma a u -> gamma b v -> P u v -> gamma (op a b) (f u v)) ->
  dgamma x u -> dgamma y v -> P u v -> dgamma (di_binop op sc x y) (f u v).
Proof.
  intros F Gx Gy HP.
  destruct x as [| |l1], y as [| |l2]; simpl in *; auto; try contradiction.
  - destruct sc; simpl; auto. apply di_collect_sound.
    destruct Gy as [b [Hb Gb]]. exists (op itop b). split.
    apply in_map_iff. exists b; auto. apply F; auto. apply gamma_top.
  - destruct sc; simpl; auto. apply di_collect_sound.
    destruct Gx as [a [Ha Ga]]. exists (op a itop). split.
    apply in_map_iff. exists a; auto. apply F; auto. apply gamma_top.
  - apply di_collect_sound.
    destruct Gx as [a [Ha Ga]]. destruct Gy as [b [Hb Gb]].
    exists (op a b). split. apply pairwise_in; auto. apply F; auto.
Qed.

Lemma di_unop_sound op (f : Z -> Z) x u :
  (forall a, gamma a u -> gamma (op a) (f u)) -> dgamma x u -> dgamma (di_unop op x) (f u).
Proof.
  intros F G. destruct x as [| |l]; simpl in *; auto.
  apply di_collect_sound. destruct G as [a [Ha Ga]]. exists (op a). split; auto.
  apply in_map_iff. exists a; auto.
Qed.

Lemma di_binop_wf op sc x y : dwf (di_binop op sc x y).
Proof.
  destruct x as [| |l1], y as [| |l2]; simpl; auto; try destruct sc; simpl; auto;
    apply di_collect_wf.
Qed.
Lemma di_unop_wf op x : dwf (di_unop op x).
Proof. destruct x; simpl; auto. apply di_collect_wf. Qed.

Definition always (_ _ : Z) : Prop := True.

Lemma di_add_sound x y u v : dgamma x u -> dgamma y v -> dgamma (di_add x y) (u + v).
Proof. intros. apply (di_binop_sound iadd true Z.add always); unfold always; auto. intros; apply iadd_sound; auto. Qed.
Lemma di_sub_sound x y u v : dgamma x u -> dgamma y v -> dgamma (di_sub x y) (u - v).
Proof. intros. apply (di_binop_sound isub true Z.sub always); unfold always; auto. intros; apply isub_sound; auto. Qed.
Lemma di_mul_sound x y u v : dgamma x u -> dgamma y v -> dgamma (di_mul x y) (u * v).
Proof. intros. apply (di_binop_sound imul true Z.mul always); unfold always; auto. intros; apply imul_sound; auto. Qed.
Lemma di_div_sound x y u v : dgamma x u -> dgamma y v -> v <> 0 -> dgamma (di_div x y) (Z.quot u v).
Proof. intros. apply (di_binop_sound idiv false Z.quot (fun _ v => v <> 0)); auto. intros; apply idiv_sound; auto. Qed.
Lemma di_srem_sound x y u v : dgamma x u -> dgamma y v -> v <> 0 -> dgamma (di_srem x y) (Z.rem u v).
Proof. intros. apply (di_binop_sound isrem false Z.rem (fun _ v => v <> 0)); auto. intros; apply isrem_sound; auto. Qed.
Lemma di_udiv_sound x y u v (r : Z) : dgamma x u -> dgamma y v -> dgamma (di_udiv x y) r.
Proof.
  intros. apply (di_binop_sound iudiv false (fun _ _ => r) always x y u v); unfold always; auto.
  intros; eapply iudiv_sound; eauto.
Qed.
Lemma di_urem_sound x y u u' v :
  dgamma x u -> dgamma y v -> 0 < v -> 0 <= u' -> (u' = u \/ u < 0) -> dgamma (di_urem x y) (Z.rem u' v).
Proof.
  intros Gx Gy H1 H2 H3.
  apply (di_binop_sound iurem false (fun _ v => Z.rem u' v) always x y u v); unfold always; auto.
  intros; eapply iurem_sound; eauto.
Qed.
Lemma di_and_sound x y u v : dgamma x u -> dgamma y v -> dgamma (di_and x y) (Z.land u v).
Proof. intros. apply (di_binop_sound iand false Z.land always); unfold always; auto. intros; apply iand_sound; auto. Qed.
Lemma di_or_sound x y u v : dgamma x u -> dgamma y v -> dgamma (di_or x y) (Z.lor u v).
Proof. intros. apply (di_binop_sound ior false Z.lor always); unfold always; auto. intros; apply ior_sound; auto. Qed.
Lemma di_xor_sound x y u v : dgamma x u -> dgamma y v -> dgamma (di_xor x y) (Z.lxor u v).
Proof. intros. apply (di_binop_sound ixor false Z.lxor always); unfold always; auto. intros; apply ixor_sound; auto. Qed.
Lemma di_shl_sound x y u k : dgamma x u -> dgamma y k -> 0 <= k -> dgamma (di_shl x y) (Z.shiftl u k).
Proof. intros. apply (di_binop_sound ishl false Z.shiftl (fun _ k => 0 <= k)); auto. intros; apply ishl_sound; auto. Qed.
Lemma di_ashr_sound x y u k : dgamma x u -> dgamma y k -> 0 <= k -> dgamma (di_ashr x y) (Z.shiftr u k).
Proof. intros. apply (di_binop_sound iashr false Z.shiftr (fun _ k => 0 <= k)); auto. intros; apply iashr_sound; auto. Qed.
Lemma di_lshr_sound x y u k :
  dgamma x u -> dgamma y k -> 0 <= k -> forall r, (0 <= u -> r = Z.shiftr u k) -> dgamma (di_lshr x y) r.
Proof.
  intros Gx Gy Hk r Hr.
  apply (di_binop_sound ilshr false (fun _ _ => r) (fun _ k => 0 <= k) x y u k); auto.
  intros; eapply ilshr_sound; eauto.
Qed.
Lemma di_neg_sound x u : dgamma x u -> dgamma (di_neg x) (- u).
Proof. intros. apply (di_unop_sound ineg Z.opp); auto. intros; apply ineg_sound; auto. Qed.
Lemma di_lower_half_sound x u w : dgamma x u -> w <= u -> dgamma (di_lower_half x) w.
Proof.
  intros G H. apply (di_unop_sound ilower_half (fun _ => w) x u); auto.
  intros; eapply ilower_half_sound; eauto.
Qed.
Lemma di_upper_half_sound x u w : dgamma x u -> u <= w -> dgamma (di_upper_half x) w.
Proof.
  intros G H. apply (di_unop_sound iupper_half (fun _ => w) x u); auto.
  intros; eapply iupper_half_sound; eauto.
Qed.

(* ------------------------------------------------------------------ join *)

Lemma join_loop_nil_l l2 res : join_loop [] l2 res = Some (res, [], l2).
Proof. destruct l2; reflexivity. Qed.
Lemma join_loop_nil_r a r1 res : join_loop (a :: r1) [] res = Some (res, a :: r1, []).
Proof. reflexivity. Qed.
Lemma join_loop_eq a r1 b r2 res :
  join_loop (a :: r1) (b :: r2) res =
  if is_top a || is_top b then None
  else if is_bot a then join_loop r1 (b :: r2) res
  else if is_bot b then join_loop (a :: r1) r2 res
  else if ieq a b then join_loop r1 r2 (a :: res)
  else if ileq a b then join_loop r1 r2 (b :: res)
  else if ileq b a then join_loop r1 r2 (a :: res)
  else if overlap a b || are_consecutive a b then join_loop r1 r2 (ijoin a b :: res)
  else if is_on_left a b then join_loop r1 (b :: r2) (a :: res)
  else join_loop (a :: r1) r2 (b :: res).
Proof. reflexivity. Qed.

Definition join_loop_post (l1 l2 res : list itv) (o : option (list itv * list itv * list itv)) : Prop :=
  match o with
  | None => True
  | Some (res', r1, r2) =>
    forall x, lgamma l1 x \/ lgamma l2 x \/ lgamma res x ->
              lgamma res' x \/ lgamma r1 x \/ lgamma r2 x
  end.

Lemma join_loop_post_weaken l1 l2 res l1' l2' res' o :
  (forall x, lgamma l1 x \/ lgamma l2 x \/ lgamma res x ->
             lgamma l1' x \/ lgamma l2' x \/ lgamma res' x) ->
  join_loop_post l1' l2' res' o -> join_loop_post l1 l2 res o.
Proof.
  unfold join_loop_post. destruct o as [[[r a] b]|]; auto.
Qed.

Lemma join_loop_spec : forall l1 l2 res, join_loop_post l1 l2 res (join_loop l1 l2 res).
Proof.
  induction l1 as [|a r1 IH1]; intros l2.
  - intros res. rewrite join_loop_nil_l. simpl. tauto.
  - induction l2 as [|b r2 IH2]; intros res.
    + rewrite join_loop_nil_r. simpl. tauto.
    + rewrite join_loop_eq.
      destruct (is_top a || is_top b). exact I.
      destruct (is_bot a) eqn:Ba.
      { eapply join_loop_post_weaken; [|apply IH1]. intros x. rewrite (lgamma_cons a).
        intros [[G|G]|G]; auto. elim (is_bot_gamma_empty _ _ Ba G). }
      destruct (is_bot b) eqn:Bb.
      { eapply join_loop_post_weaken; [|apply IH2]. intros x. rewrite (lgamma_cons b).
        intros [G|[[G|G]|G]]; auto. elim (is_bot_gamma_empty _ _ Bb G). }
      destruct (ieq a b) eqn:E.
      { eapply join_loop_post_weaken; [|apply IH1]. intros x. rewrite !lgamma_cons.
        rewrite <- (ieq_sound _ _ E x). tauto. }
      destruct (ileq a b) eqn:L1.
      { eapply join_loop_post_weaken; [|apply IH1]. intros x. rewrite !lgamma_cons.
        pose proof (ileq_sound _ _ L1 x). tauto. }
      destruct (ileq b a) eqn:L2.
      { eapply join_loop_post_weaken; [|apply IH1]. intros x. rewrite !lgamma_cons.
        pose proof (ileq_sound _ _ L2 x). tauto. }
      destruct (overlap a b || are_consecutive a b).
      { eapply join_loop_post_weaken; [|apply IH1]. intros x. rewrite !lgamma_cons.
        pose proof (ijoin_sound_l a b x). pose proof (ijoin_sound_r a b x). tauto. }
      destruct (is_on_left a b).
      { eapply join_loop_post_weaken; [|apply IH1]. intros x. rewrite !lgamma_cons. tauto. }
      eapply join_loop_post_weaken; [|apply IH2]. intros x. rewrite !lgamma_cons. tauto.
Qed.

Lemma join_rest_sound : forall rest res x,
  lgamma rest x \/ lgamma res x -> lgamma (join_rest rest res) x.
Proof.
  induction rest as [|i tl IH]; intros res x G; simpl.
  - destruct G as [G|G]; auto. elim (lgamma_nil _ G).
  - destruct (merge_back res i i) as [[[res1 i1] p1] sk] eqn:MB.
    destruct (merge_back_spec _ _ _ _ _ _ _ MB) as (_ & S & _).
    rewrite lgamma_cons in G. destruct sk; apply IH.
    + destruct G as [[G|G]|G]; auto; right; apply (S x); auto.
    + rewrite lgamma_cons. destruct G as [[G|G]|G]; auto; destruct (S x) as [G'|G']; auto.
Qed.

Lemma di_join_sound a b x : dgamma a x \/ dgamma b x -> dgamma (di_join a b) x.
Proof.
  destruct a as [| |l1], b as [| |l2]; simpl; try tauto.
  intros G. pose proof (join_loop_spec l1 l2 []) as K.
  destruct (join_loop l1 l2 []) as [[[res r1] r2]|]; simpl; auto.
  assert (G' : lgamma (rev (join_rest r2 (join_rest r1 res))) x).
  { apply lgamma_rev. apply join_rest_sound. simpl in K.
    destruct (K x) as [G'|[G'|G']]; try tauto.
    - right. apply join_rest_sound; auto.
    - right. apply join_rest_sound; auto. }
  destruct (rev (join_rest r2 (join_rest r1 res))) as [|y [|z t]] eqn:E.
  - elim (lgamma_nil _ G').
  - destruct (is_top y); simpl; auto; try (apply di_of_list_sound; auto).
  - apply di_of_list_sound; auto.
Qed.

Lemma di_join_wf a b : dwf a -> dwf b -> dwf (di_join a b).
Proof.
  destruct a as [| |l1], b as [| |l2]; simpl; auto.
  intros _ _. destruct (join_loop l1 l2 []) as [[[res r1] r2]|]; simpl; auto.
  destruct (rev _) as [|y [|z t]]; simpl; auto.
  destruct (is_top y); simpl; auto; try apply di_of_list_wf. apply di_of_list_wf.
Qed.

(* ------------------------------------------------------------------ meet *)

Lemma di_meet_sound a b x : dgamma a x -> dgamma b x -> dgamma (di_meet a b) x.
Proof.
  destruct a as [| |l1], b as [| |l2]; simpl; try tauto.
  intros [i [Hi Gi]] [j [Hj Gj]].
  assert (G : lgamma (filter (fun i => negb (is_bot i)) (pairwise imeet l1 l2)) x).
  { exists (imeet i j). assert (Gm : gamma (imeet i j) x) by (apply imeet_exact; auto).
    split; auto. apply filter_In. split. apply pairwise_in; auto.
    rewrite (gamma_not_bot _ _ Gm). reflexivity. }
  destruct (filter _ _) as [|y t]. elim (lgamma_nil _ G). apply di_of_list_sound; auto.
Qed.

Lemma di_meet_wf a b : dwf a -> dwf b -> dwf (di_meet a b).
Proof.
  destruct a as [| |l1], b as [| |l2]; simpl; auto.
  intros _ _. destruct (filter _ _); simpl; auto. apply di_of_list_wf.
Qed.

Lemma di_narrow_sound a b x : dgamma a x -> dgamma b x -> dgamma (di_narrow a b) x.
Proof. apply di_meet_sound. Qed.

(* ------------------------------------------------------------------ widening *)

Lemma in_first_mid_last (l : list itv) a r i :
  l = a :: r -> In i l -> i = a \/ i = last l a \/ In i (middle l).
Proof.
  intros -> [H|H]; auto. right.
  unfold middle. simpl tl.
  destruct r as [|b t]. destruct H.
  rewrite (app_removelast_last a (l := b :: t)) in H by discriminate.
  apply in_app_or in H. destruct H as [H|[H|[]]]; auto.
Qed.

Lemma di_widen_sound a b x : dwf a -> dwf b -> dgamma a x \/ dgamma b x -> dgamma (di_widen a b) x.
Proof.
  destruct a as [| |l1], b as [| |l2]; simpl; try tauto.
  intros W1 W2 G.
  destruct l1 as [|a0 [|a1 r1]], l2 as [|b0 [|b1 r2]]; cbv iota beta; try exact I;
    try (apply di_of_itv_sound; apply iwiden_sound;
         destruct G as [G|G]; [left|right];
         first [ destruct G as [i [[<-|[]] G]]; exact G
               | apply approx_sound; [assumption|exact G]
               | elim (lgamma_nil _ G) ]; fail).
  - apply di_of_list_sound.
    set (l1 := a0 :: a1 :: r1) in *. set (l2 := b0 :: b1 :: r2) in *.
    rewrite lgamma_cons, !lgamma_app, lgamma_cons.
    destruct G as [[i [Hi G]]|[i [Hi G]]].
    + destruct (in_first_mid_last l1 a0 (a1 :: r1) i eq_refl Hi) as [->|[->|M]].
      * left. apply iwiden_sound; auto.
      * right. right. right. left. apply iwiden_sound; auto.
      * right. left. exists i; auto.
    + destruct (in_first_mid_last l2 b0 (b1 :: r2) i eq_refl Hi) as [->|[->|M]].
      * left. apply iwiden_sound; auto.
      * right. right. right. left. apply iwiden_sound; auto.
      * right. right. left. exists i; auto.
Qed.

Lemma di_widen_wf a b : dwf a -> dwf b -> dwf (di_widen a b).
Proof.
  destruct a as [| |l1], b as [| |l2]; simpl; auto. intros _ _.
  destruct l1 as [|a0 [|a1 r1]], l2 as [|b0 [|b1 r2]]; simpl; auto;
    try apply di_of_itv_wf; try apply di_of_list_wf.
Qed.

(* ------------------------------------------------------------------ trim *)

Lemma di_join_sound_l a b x : dgamma a x -> dgamma (di_join a b) x.
Proof. intros; apply di_join_sound; auto. Qed.
Lemma di_join_sound_r a b x : dgamma b x -> dgamma (di_join a b) x.
Proof. intros; apply di_join_sound; auto. Qed.

Lemma di_trim_sound x y c v :
  di_singleton y = Some c -> dgamma x v -> v <> c -> dgamma (di_trim x y) v.
Proof.
  intros S G N. unfold di_trim. rewrite S.
  destruct x as [| |l]; simpl in G; simpl di_is_bot; cbv iota.
  - contradiction.
  - destruct (Z_lt_le_dec v c).
    + apply di_join_sound_l, di_join_sound_r, di_of_itv_sound.
      apply (ilower_half_sound (iconst (c - 1)) (c - 1)). apply gamma_iconst; auto. lia.
    + apply di_join_sound_r, di_of_itv_sound.
      apply (iupper_half_sound (iconst (c + 1)) (c + 1)). apply gamma_iconst; auto. lia.
  - set (step := fun (res : di) (i : itv) => _).
    assert (K : forall l res, (dgamma res v \/ lgamma l v) -> dgamma (fold_left step l res) v).
    { clear G l. induction l as [|i tl IH]; intros res G; simpl.
      - destruct G as [G|G]; auto. elim (lgamma_nil _ G).
      - apply IH. rewrite lgamma_cons in G.
        destruct G as [G|[G|G]]; auto; left; unfold step.
        + destruct (negb (ileq (iconst c) i)). apply di_join_sound_l; auto.
          destruct (beqb (lb i) (Fin c)). apply di_join_sound_l; auto.
          destruct (beqb (ub i) (Fin c)). apply di_join_sound_l; auto.
          apply di_join_sound_l, di_join_sound_l; auto.
        + destruct (negb (ileq (iconst c) i)).
          { apply di_join_sound_r, di_of_itv_sound; auto. }
          destruct G as [G1 G2].
          destruct (beqb (lb i) (Fin c)) eqn:E1.
          { apply beqb_eq in E1. rewrite E1 in G1. bsimp.
            apply di_join_sound_r, di_of_itv_sound. apply gamma_imk. split; auto.
            simpl. apply Z.leb_le. lia. }
          destruct (beqb (ub i) (Fin c)) eqn:E2.
          { apply beqb_eq in E2. rewrite E2 in G2. bsimp.
            apply di_join_sound_r, di_of_itv_sound. apply gamma_imk. split; auto.
            simpl. apply Z.leb_le. lia. }
          destruct (Z_lt_le_dec v c).
          * apply di_join_sound_l, di_join_sound_r, di_of_itv_sound. apply gamma_imk. split; auto.
            simpl. apply Z.leb_le. lia.
          * apply di_join_sound_r, di_of_itv_sound. apply gamma_imk. split; auto.
            simpl. apply Z.leb_le. lia. }
    apply K. right; auto.
Qed.

(* non-vacuity: the widening that the pinned code got wrong *)
Example di_widen_example :
  let a := di_join (di_of_itv (imk MInf (Fin (-1)))) (di_of_itv (imk (Fin 1) PInf)) in
  let b := di_join (di_of_itv (imk MInf (Fin 5))) (di_of_itv (imk (Fin 8) (Fin 9))) in
  dgamma a (-1) /\ di_widen a b = DTop.
Proof.
  split.
  - apply di_join_sound_l, di_of_itv_sound. apply gamma_imk. split; reflexivity.
  - vm_compute. reflexivity.
Qed.
