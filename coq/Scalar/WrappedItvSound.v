(* WrappedItvSound.v — membership soundness of the wrapped-interval model
   (Scalar/WrappedItv.v) with respect to the wrapint operations (Num/Wrapint.v):
   every bit-vector result of operands drawn from the argument intervals lies in the
   result interval, including across the north and south poles, top and bottom.

     wfw w x      : x is a well-formed wrapint of bitwidth w
     iwf w i      : i is an interval of bitwidth w (bottom, the canonical top, or bounds of
                    bitwidth w)
     gamma w i x  : the w-bit number x is a member of i  (wi_at, the model of at()) *)
From Coq Require Import ZArith Lia Bool List.
From CrabV Require Import Num.Wrapint Num.WrapintSound Scalar.WrappedItv.
Import ListNotations.
Local Open Scope Z_scope.


(* ---------------------------------------------------------------- modular intervals on Z *)
Definition inr (M s e x : Z) : Prop := (x - s) mod M <= (e - s) mod M.

Lemma msub_cases M a b : 0 <= a < M -> 0 <= b < M ->
  ((a - b) mod M = a - b /\ b <= a) \/ ((a - b) mod M = a - b + M /\ a < b).
Proof.
  intros Ha Hb. destruct (Z_le_gt_dec b a).
  - left. split; [apply Z.mod_small; lia|lia].
  - right. split; [|lia]. symmetry. apply (Z.mod_unique (a - b) M (-1)); lia.
Qed.

Ltac msub M a b :=
  let H := fresh "MS" in pose proof (msub_cases M a b ltac:(lia) ltac:(lia)) as H.

(* ---------------------------------------------------------------- wrapint facts in Z form *)
Definition wfw (w : Z) (x : wrapint) : Prop := wf x /\ ww x = w.

Lemma wfw_range w x : wfw w x -> 1 <= w <= 64 /\ 0 <= wn x < 2 ^ w.
Proof. intros [[H1 H2] <-]. auto. Qed.

Lemma wsub_val w a b : wfw w a -> wfw w b -> wfw w (wsub a b) /\ wn (wsub a b) = (wn a - wn b) mod 2 ^ w.
Proof.
  intros [Wa Ea] [Wb Eb]. destruct (wsub_spec a b Wa Wb (eq_trans Ea (eq_sym Eb))) as (A & B & C).
  split; [split; [exact A|rewrite B; exact Ea]|]. unfold to_Z, wrap in C. rewrite C, Ea. reflexivity.
Qed.
Lemma wadd_val w a b : wfw w a -> wfw w b -> wfw w (wadd a b) /\ wn (wadd a b) = (wn a + wn b) mod 2 ^ w.
Proof.
  intros [Wa Ea] [Wb Eb]. destruct (wadd_spec a b Wa Wb (eq_trans Ea (eq_sym Eb))) as (A & B & C).
  split; [split; [exact A|rewrite B; exact Ea]|]. unfold to_Z, wrap in C. rewrite C, Ea. reflexivity.
Qed.
Lemma wmul_val w a b : wfw w a -> wfw w b -> wfw w (wmul a b) /\ wn (wmul a b) = (wn a * wn b) mod 2 ^ w.
Proof.
  intros [Wa Ea] [Wb Eb]. destruct (wmul_spec a b Wa Wb (eq_trans Ea (eq_sym Eb))) as (A & B & C).
  split; [split; [exact A|rewrite B; exact Ea]|]. unfold to_Z, wrap in C. rewrite C, Ea. reflexivity.
Qed.
Lemma wneg_val w a : wfw w a -> wfw w (wneg a) /\ wn (wneg a) = (- wn a) mod 2 ^ w.
Proof.
  intros [Wa Ea]. destruct (wneg_spec a Wa) as (A & B & C).
  split; [split; [exact A|rewrite B; exact Ea]|]. unfold to_Z, wrap in C. rewrite C, Ea. reflexivity.
Qed.
Lemma umax_val w : 1 <= w <= 64 -> wfw w (get_unsigned_max w) /\ wn (get_unsigned_max w) = 2 ^ w - 1.
Proof. intros H. destruct (get_unsigned_max_spec w H) as (A & B & C). split; [split; [exact A|exact B]|exact C]. Qed.
Lemma umin_val w : 1 <= w <= 64 -> wfw w (get_unsigned_min w) /\ wn (get_unsigned_min w) = 0.
Proof. intros H. destruct (get_unsigned_min_spec w H) as (A & B & C). split; [split; [exact A|exact B]|exact C]. Qed.
Lemma smax_val w : 1 <= w <= 64 -> wfw w (get_signed_max w) /\ wn (get_signed_max w) = 2 ^ (w - 1) - 1.
Proof. intros H. destruct (get_signed_max_spec w H) as (A & B & C). split; [split; [exact A|exact B]|exact C]. Qed.
Lemma smin_val w : 1 <= w <= 64 -> wfw w (get_signed_min w) /\ wn (get_signed_min w) = 2 ^ (w - 1).
Proof. intros H. destruct (get_signed_min_spec w H) as (A & B & C). split; [split; [exact A|exact B]|exact C]. Qed.

(* ---------------------------------------------------------------- well-formed intervals *)
(* an interval of bitwidth w: bottom, the canonical top (of bitwidth 3), or two bounds of
   bitwidth w *)
Definition iwf (w : Z) (i : witv) : Prop :=
  wbot i = true \/ i = wi_top \/ (wbot i = false /\ wfw w (wstart i) /\ wfw w (wend i)).

Definition gamma (w : Z) (i : witv) (x : wrapint) : Prop := wfw w x /\ wi_at i x = true.

Lemma is_top_wi_top : is_top wi_top = true.
Proof. reflexivity. Qed.

Lemma is_top_range w i : wbot i = false -> wfw w (wstart i) -> wfw w (wend i) ->
  is_top i = ((wn (wend i) - wn (wstart i)) mod 2 ^ w =? 2 ^ w - 1).
Proof.
  intros B Hs He. unfold is_top. rewrite B. simpl.
  destruct (wsub_val w _ _ He Hs) as [_ V]. unfold weq. rewrite V.
  unfold get_bitwidth. destruct Hs as [Ws Es]. rewrite Es.
  destruct (umax_val w) as [_ U]; [rewrite <- Es; apply Ws|]. rewrite U. reflexivity.
Qed.

Lemma iwf_range w i : iwf w i -> is_bottom i = false -> is_top i = false ->
  wbot i = false /\ wfw w (wstart i) /\ wfw w (wend i).
Proof.
  intros [B|[T|R]] NB NT.
  - unfold is_bottom in NB. congruence.
  - subst i. discriminate.
  - exact R.
Qed.

Lemma at_range w i x : wbot i = false -> is_top i = false -> wfw w (wstart i) -> wfw w (wend i) ->
  wfw w x ->
  wi_at i x = ((wn x - wn (wstart i)) mod 2 ^ w <=? (wn (wend i) - wn (wstart i)) mod 2 ^ w).
Proof.
  intros B T Hs He Hx. unfold wi_at, is_bottom. rewrite B, T.
  destruct (wsub_val w _ _ Hx Hs) as [_ V1]. destruct (wsub_val w _ _ He Hs) as [_ V2].
  unfold wle. rewrite V1, V2. reflexivity.
Qed.

Lemma at_top i x : is_bottom i = false -> is_top i = true -> wi_at i x = true.
Proof. intros B T. unfold wi_at. rewrite B, T. reflexivity. Qed.
Lemma at_bot i x : is_bottom i = true -> wi_at i x = false.
Proof. intros B. unfold wi_at. rewrite B. reflexivity. Qed.


Lemma top_not_bot i : is_top i = true -> is_bottom i = false.
Proof. unfold is_top, is_bottom. destruct (wbot i); simpl; congruence. Qed.

Ltac b2p1 := rewrite ?andb_true_iff, ?orb_true_iff, ?negb_true_iff, ?andb_false_iff, ?orb_false_iff,
  ?negb_false_iff, ?Z.leb_le, ?Z.leb_gt, ?Z.eqb_eq, ?Z.eqb_neq, ?Z.ltb_lt, ?Z.ltb_ge in *.
Ltac b2p := repeat progress b2p1.

Lemma gamma_bot w i v : is_bottom i = true -> ~ gamma w i v.
Proof. intros B [_ H]. rewrite at_bot in H by exact B. discriminate. Qed.

Lemma gamma_top w i v : is_top i = true -> wfw w v -> gamma w i v.
Proof. intros T H. split; [exact H|]. apply at_top; [apply top_not_bot|]; exact T. Qed.

Lemma leq_sound w a x v : iwf w a -> iwf w x -> wi_leq a x = true -> gamma w a v -> gamma w x v.
Proof.
  intros Wa Wx L [Hv G]. unfold wi_leq in L.
  destruct (is_top x) eqn:Tx; [apply gamma_top; assumption|].
  destruct (is_bottom a) eqn:Ba; [rewrite at_bot in G by exact Ba; discriminate|].
  simpl in L.
  destruct (is_bottom x) eqn:Bx; [discriminate|].
  destruct (is_top a) eqn:Ta; [discriminate|]. simpl in L.
  destruct (iwf_range w a Wa Ba Ta) as (Ba' & Hs & He).
  destruct (iwf_range w x Wx Bx Tx) as (Bx' & Hxs & Hxe).
  split; [exact Hv|].
  repeat rewrite (at_range w) in * by assumption.
  pose proof (wfw_range _ _ Hs) as [Hw Rs]. pose proof (wfw_range _ _ He) as [_ Re].
  pose proof (wfw_range _ _ Hxs) as [_ Rxs]. pose proof (wfw_range _ _ Hxe) as [_ Rxe].
  pose proof (wfw_range _ _ Hv) as [_ Rv].
  set (M := 2 ^ w) in *.
  destruct (weq (wstart a) (wstart x) && weq (wend a) (wend x)) eqn:EQ.
  - unfold weq in EQ. b2p. destruct EQ as [E1 E2]. rewrite <- E1, <- E2. exact G.
  - clear EQ. b2p.
    msub M (wn v) (wn (wstart a)). msub M (wn (wend a)) (wn (wstart a)).
    msub M (wn v) (wn (wstart x)). msub M (wn (wend x)) (wn (wstart x)).
    msub M (wn (wstart a)) (wn (wstart x)). msub M (wn (wend a)) (wn (wstart x)).
    msub M (wn (wstart x)) (wn (wstart a)). msub M (wn (wend x)) (wn (wstart a)).
    lia.
Qed.
Lemma gamma_mk w s e v : wfw w s -> wfw w e -> wfw w v ->
  (wn v - wn s) mod 2 ^ w <= (wn e - wn s) mod 2 ^ w -> gamma w (wi_mk s e) v.
Proof.
  intros Hs He Hv H. split; [exact Hv|].
  destruct (is_top (wi_mk s e)) eqn:T.
  - apply at_top; [reflexivity|exact T].
  - rewrite (at_range w) by (try assumption; reflexivity). simpl. apply Z.leb_le. exact H.
Qed.

Lemma gamma_range w i v : wbot i = false -> is_top i = false -> wfw w (wstart i) -> wfw w (wend i) ->
  gamma w i v -> (wn v - wn (wstart i)) mod 2 ^ w <= (wn (wend i) - wn (wstart i)) mod 2 ^ w.
Proof.
  intros B T Hs He [Hv G]. rewrite (at_range w) in G by assumption. apply Z.leb_le. exact G.
Qed.



(* membership in the wrapped interval [s,e] by comparisons of the representatives *)
Definition inb (s e p : Z) : bool :=
  if s <=? e then (s <=? p) && (p <=? e) else (s <=? p) || (p <=? e).

Lemma inb_spec M s e p : 0 <= s < M -> 0 <= e < M -> 0 <= p < M ->
  ((p - s) mod M <=? (e - s) mod M) = inb s e p.
Proof.
  intros Hs He Hp. unfold inb.
  destruct (msub_cases M p s Hp Hs) as [[-> ?]|[-> ?]];
  destruct (msub_cases M e s He Hs) as [[-> ?]|[-> ?]];
  destruct (Z.leb_spec s e); destruct (Z.leb_spec s p); destruct (Z.leb_spec p e); simpl;
  try lia; (apply Z.leb_le || apply Z.leb_gt); lia.
Qed.

(* decide every comparison occurring in the goal or the hypotheses, pruning with lia *)
Ltac dec_cmp a b :=
  let P := fresh "P" in
  destruct (Z.leb_spec a b) as [P|P];
  [rewrite ?(proj2 (Z.leb_le a b) P) in * | rewrite ?(proj2 (Z.leb_gt a b) P) in *].
Ltac dec_lt a b :=
  let P := fresh "P" in
  destruct (Z.ltb_spec a b) as [P|P];
  [rewrite ?(proj2 (Z.ltb_lt a b) P) in * | rewrite ?(proj2 (Z.ltb_ge a b) P) in *].
Ltac dec_eq a b :=
  let P := fresh "P" in
  destruct (Z.eqb_spec a b) as [P|P];
  [rewrite ?(proj2 (Z.eqb_eq a b) P) in * | rewrite ?(proj2 (Z.eqb_neq a b) P) in *].
Ltac dec_step :=
  match goal with
  | H : context [?a <=? ?b] |- _ => dec_cmp a b
  | |- context [?a <=? ?b] => dec_cmp a b
  | H : context [?a <? ?b] |- _ => dec_lt a b
  | |- context [?a <? ?b] => dec_lt a b
  | H : context [?a =? ?b] |- _ => dec_eq a b
  | |- context [?a =? ?b] => dec_eq a b
  end; cbn [andb orb negb] in *; try discriminate; try reflexivity; try (exfalso; lia).
Ltac dec_all := cbn [andb orb negb] in *; repeat dec_step.


Lemma at_inb w i x : wbot i = false -> is_top i = false -> wfw w (wstart i) -> wfw w (wend i) ->
  wfw w x -> wi_at i x = inb (wn (wstart i)) (wn (wend i)) (wn x).
Proof.
  intros B T Hs He Hx. rewrite (at_range w) by assumption.
  apply inb_spec; eapply wfw_range; eassumption.
Qed.

Lemma gamma_mk_inb w s e v : wfw w s -> wfw w e -> wfw w v ->
  inb (wn s) (wn e) (wn v) = true -> gamma w (wi_mk s e) v.
Proof.
  intros Hs He Hv H. split; [exact Hv|].
  destruct (is_top (wi_mk s e)) eqn:T.
  - apply at_top; [reflexivity|exact T].
  - rewrite (at_inb w) by (try assumption; reflexivity). exact H.
Qed.

Lemma gamma_inb w i v : wbot i = false -> is_top i = false -> wfw w (wstart i) -> wfw w (wend i) ->
  gamma w i v -> inb (wn (wstart i)) (wn (wend i)) (wn v) = true.
Proof. intros B T Hs He [Hv G]. rewrite (at_inb w) in G by assumption. exact G. Qed.

Lemma leq_inb w a x :
  wbot a = false -> is_top a = false -> wfw w (wstart a) -> wfw w (wend a) ->
  wbot x = false -> is_top x = false -> wfw w (wstart x) -> wfw w (wend x) ->
  let s := wn (wstart a) in let e := wn (wend a) in
  let xs := wn (wstart x) in let xe := wn (wend x) in
  wi_leq a x =
  if (s =? xs) && (e =? xe) then true
  else inb xs xe s && inb xs xe e && (negb (inb s e xs) || negb (inb s e xe)).
Proof.
  intros Ba Ta Hs He Bx Tx Hxs Hxe. simpl. unfold wi_leq, is_bottom. rewrite Ba, Bx, Ta, Tx. simpl.
  repeat rewrite (at_inb w) by assumption. reflexivity.
Qed.

Lemma leq_false_l a x : wi_leq a x = false -> is_top x = false /\ is_bottom a = false.
Proof.
  unfold wi_leq. destruct (is_top x); [discriminate|]. destruct (is_bottom a); [discriminate|]. auto.
Qed.

Lemma iwf_mk w s e : wfw w s -> wfw w e -> iwf w (wi_mk s e).
Proof. intros. right. right. simpl. auto. Qed.
Lemma iwf_top w : iwf w wi_top.
Proof. right. left. reflexivity. Qed.
Lemma iwf_bottom w : iwf w wi_bottom.
Proof. left. reflexivity. Qed.

Lemma not_leq_ranges w a x : iwf w a -> iwf w x -> wi_leq a x = false -> wi_leq x a = false ->
  (wbot a = false /\ is_top a = false /\ wfw w (wstart a) /\ wfw w (wend a)) /\
  (wbot x = false /\ is_top x = false /\ wfw w (wstart x) /\ wfw w (wend x)).
Proof.
  intros Wa Wx L1 L2. destruct (leq_false_l _ _ L1) as [Tx Ba]. destruct (leq_false_l _ _ L2) as [Ta Bx].
  destruct (iwf_range w a Wa Ba Ta) as (A1 & A2 & A3).
  destruct (iwf_range w x Wx Bx Tx) as (B1 & B2 & B3). auto 10.
Qed.

Ltac zranges :=
  repeat match goal with
  | H : wfw ?w ?x |- _ =>
    lazymatch goal with
    | _ : 0 <= wn x < 2 ^ w |- _ => fail
    | _ => pose proof (proj2 (wfw_range w x H))
    end
  end.

Lemma join_sound w a x v : iwf w a -> iwf w x -> gamma w a v \/ gamma w x v -> gamma w (wi_join a x) v.
Proof.
  intros Wa Wx G. unfold wi_join.
  destruct (wi_leq a x) eqn:L1.
  { destruct G as [G|G]; [exact (leq_sound w a x v Wa Wx L1 G)|exact G]. }
  destruct (wi_leq x a) eqn:L2.
  { destruct G as [G|G]; [exact G|exact (leq_sound w x a v Wx Wa L2 G)]. }
  destruct (not_leq_ranges w a x Wa Wx L1 L2) as ((Ba & Ta & Hs & He) & (Bx & Tx & Hxs & Hxe)).
  assert (wfw w v) as Hv by (destruct G as [[H _]|[H _]]; exact H).
  assert (inb (wn (wstart a)) (wn (wend a)) (wn v) || inb (wn (wstart x)) (wn (wend x)) (wn v) = true) as G'.
  { apply orb_true_iff. destruct G as [G|G]; [left|right]; eapply gamma_inb; eassumption. }
  clear G. rewrite (leq_inb w) in L1, L2 by assumption.
  repeat rewrite (at_inb w) by assumption.
  zranges.
  match goal with |- context [if wlt ?p ?q || ?r then _ else _] => generalize (wlt p q || r) end.
  intros gapc.
  repeat match goal with
  | |- context [if ?c then _ else _] => let E := fresh "E" in destruct c eqn:E
  end; try (apply gamma_top; [reflexivity|exact Hv]);
  (apply gamma_mk_inb; [assumption|assumption|assumption|]).
  all: clear Wa Wx Ba Ta Bx Tx Hs He Hxs Hxe Hv; unfold inb in *; dec_all.
Qed.

Lemma iwf_join w a x : iwf w a -> iwf w x -> iwf w (wi_join a x).
Proof.
  intros Wa Wx. unfold wi_join.
  destruct (wi_leq a x) eqn:L1; [exact Wx|].
  destruct (wi_leq x a) eqn:L2; [exact Wa|].
  destruct (not_leq_ranges w a x Wa Wx L1 L2) as ((Ba & Ta & Hs & He) & (Bx & Tx & Hxs & Hxe)).
  repeat match goal with
  | |- context [if ?c then _ else _] => destruct c
  end; try apply iwf_top; apply iwf_mk; assumption.
Qed.
